/-
  Aqv.Props.C06 — "Every included transaction is charged, nonced and rolled back exactly".

  Theorems about `Aqv.Tx.transitionDb / applyTransaction / processTxs / process` (model of core/state_transition.go,
  core/gaspool.go, core/state_processor.go) for ALL messages, worlds, pools and ALL EVMs obeying the contract `EvmOk`
  (gas left ≤ gas given; ErrInsufficientBalance iff the value cannot be paid; state reverted on error).

  Clause map (statement of C06 → theorem):
    nonce + 1 ............................................ nonce_plus_one
    sender pays gasUsed·price (+ value iff success) ....... sender_debit, sender_debit_failed, sender_debit_success_plain
    coinbase gets gasUsed·price ........................... coinbase_credit, coinbase_credit_untouched
    intrinsic ≤ gasUsed ≤ gasLimit, refund ≤ consumed/2 ... gas_bounds_partial  (+ gas_below_intrinsic_witness: the literal
                                                            clause `intrinsic ≤ gasUsed` is FALSE for refund-heavy transactions)
    cumulative gas = Σ receipts ≤ block gas limit ......... pool_conserved, cumulative_gas, process_gas_le_limit, validate_gas_iff
    failed execution: nothing but gas and nonce survives .. failed_exec_only_gas
    invalid tx ⇒ whole block invalid ...................... invalid_tx_rejected, tx_accepted_iff, invalid_tx_invalidates_block
    intrinsic gas formula with overflow guards ............ intrinsic_gas_formula, intrinsic_gas_data, intrinsic_gas_real_data
    receipt fields (both formats) ......................... receipt_fields
    Impl ⊑ Spec ........................................... impl_refines_spec
-/
import Aqv.Lemmas.Tx
import Aqv.Lemmas.TxVm
import Aqv.Lemmas.TxVmNonce
import Aqv.Lemmas.Translated.Tx
namespace Aqv.Props.C06
open Aqv.Tx

variable {ρ : Type}

/-! ## intrinsic gas -/

/-- base cost of `IntrinsicGas`. -/
def igBase (creation homestead : Bool) : Nat :=
  if creation && homestead then Gen.TxParams.txGasContractCreation else Gen.TxParams.txGas

/-- `IntrinsicGas` = base + 68·nz + 4·z (generated constants), and the two overflow guards fire exactly when that sum does
    not fit a uint64 — so the uint64 arithmetic of the Go code never wraps. -/
theorem intrinsic_gas_formula (nz z : Nat) (c h : Bool) :
    intrinsicGasN nz z c h =
      if igBase c h + nz * Gen.TxParams.txDataNonZeroGas + z * Gen.TxParams.txDataZeroGas ≤ uint64Max
      then some (igBase c h + nz * Gen.TxParams.txDataNonZeroGas + z * Gen.TxParams.txDataZeroGas) else none := by
  unfold intrinsicGasN igBase
  simp only [Gen.TxParams.txGasContractCreation, Gen.TxParams.txGas, Gen.TxParams.txDataNonZeroGas, Gen.TxParams.txDataZeroGas, uint64Max]
  cases c <;> cases h <;> simp only [Bool.and_self, Bool.and_false, Bool.and_true, Bool.false_eq_true, if_false, if_true] <;>
    (repeat' split) <;> first | rfl | omega | (congr 1; omega)

example : intrinsicGasN 3 5 false true = some (21000 + 3 * 68 + 5 * 4) := by decide
example : intrinsicGasN 0 0 true true = some 53000 := by decide
example : intrinsicGasN 0 0 true false = some 21000 := by decide
example : intrinsicGasN 271275648142787214 0 false true = some (21000 + 271275648142787214 * 68) := by decide
example : intrinsicGasN 271275648142787215 0 false true = none := by decide

/-- on real data: nz = number of non-zero bytes, z = the rest. -/
theorem intrinsic_gas_data (data : List UInt8) (c h : Bool) :
    intrinsicGas data c h =
      if igBase c h + countNz data * Gen.TxParams.txDataNonZeroGas + (data.length - countNz data) * Gen.TxParams.txDataZeroGas ≤ uint64Max
      then some (igBase c h + countNz data * Gen.TxParams.txDataNonZeroGas + (data.length - countNz data) * Gen.TxParams.txDataZeroGas)
      else none := by
  unfold intrinsicGas; exact intrinsic_gas_formula _ _ c h

theorem countNz_le (data : List UInt8) : countNz data ≤ data.length := by
  induction data with
  | nil => simp [countNz]
  | cons b t ih => simp only [countNz, List.length_cons]; split <;> omega

/-- for every byte slice a machine can hold (< 2^56 bytes) the guards never fire. -/
theorem intrinsic_gas_real_data (data : List UInt8) (c h : Bool) (hlen : data.length < 2 ^ 56) :
    (intrinsicGas data c h).isSome = true := by
  rw [intrinsic_gas_data]
  have := countNz_le data
  have hb : igBase c h ≤ 53000 := by
    unfold igBase; simp only [Gen.TxParams.txGasContractCreation, Gen.TxParams.txGas]; split <;> omega
  have hle : igBase c h + countNz data * Gen.TxParams.txDataNonZeroGas + (data.length - countNz data) * Gen.TxParams.txDataZeroGas ≤ uint64Max := by
    simp only [Gen.TxParams.txDataNonZeroGas, Gen.TxParams.txDataZeroGas, uint64Max]; omega
  rw [if_pos hle]; rfl

example : (intrinsicGas [0, 1, 0, 2] false true) = some (21000 + 2 * 68 + 2 * 4) := by decide

/-! ## one transaction (`TransitionDb`) -/

/-- gas accounting facts that follow from the EVM contract. -/
theorem gas_facts {env : Env ρ} (hE : EvmOk env) (m : Msg) (w : World ρ) {ig : Nat} (hig : ig ≤ m.gas) :
    (evmOut env m w ig).gasLeft ≤ m.gas - ig ∧
    gasBack env m w ig ≤ m.gas ∧
    refundOf m.gas (evmOut env m w ig).gasLeft (env.refund (evmOut env m w ig).world) ≤ (m.gas - (evmOut env m w ig).gasLeft) / 2 ∧
    refundOf m.gas (evmOut env m w ig).gasLeft (env.refund (evmOut env m w ig).world) ≤ env.refund (evmOut env m w ig).world ∧
    (m.gas - gasBack env m w ig) + refundOf m.gas (evmOut env m w ig).gasLeft (env.refund (evmOut env m w ig).world)
      = m.gas - (evmOut env m w ig).gasLeft := by
  have h1 : (evmOut env m w ig).gasLeft ≤ m.gas - ig := hE.gas_le m (m.gas - ig) (preWorld m w)
  have h2 : refundOf m.gas (evmOut env m w ig).gasLeft (env.refund (evmOut env m w ig).world) ≤ (m.gas - (evmOut env m w ig).gasLeft) / 2 :=
    Nat.min_le_left _ _
  have h3 : refundOf m.gas (evmOut env m w ig).gasLeft (env.refund (evmOut env m w ig).world) ≤ env.refund (evmOut env m w ig).world :=
    Nat.min_le_right _ _
  refine ⟨h1, ?_, h2, h3, ?_⟩ <;> simp only [gasBack] <;> omega

/-- **nonce_plus_one.** An accepted transaction carries exactly the account's nonce and leaves the sender's nonce one higher
    (sender = externally owned account: the EVM itself cannot bump it; uint64 wrap excluded explicitly). -/
theorem nonce_plus_one {env : Env ρ} (hEOA : SenderIsEOA env) {m : Msg} {gp : Nat} {w : World ρ} {r : TxOk ρ}
    (h : transitionDb env m gp w = .ok r) (hwrap : lookup w.nonce m.sender < uint64Max) :
    lookup r.world.nonce m.sender = lookup w.nonce m.sender + 1 ∧
    (m.checkNonce = true → m.nonce = lookup w.nonce m.sender) := by
  obtain ⟨hn, _, _, ig, _, _, hne, rfl⟩ := transitionDb_ok h
  refine ⟨?_, fun hc => (hn hc).symm⟩
  have := hEOA m (m.gas - ig) (preWorld m w) hne
  simp only [addBal_nonce]
  have hinc : nonceInc (lookup w.nonce m.sender) = lookup w.nonce m.sender + 1 := by
    unfold nonceInc; exact Nat.mod_eq_of_lt (by omega)
  unfold evmOut
  rw [this, preWorld_nonce_sender]
  cases m.to <;> simp [hinc]

/-- the literal clause is `intrinsic ≤ gasUsed ≤ gasLimit`; the code implements (and every Ethereum-family chain of that era
    defines) `gasUsed = consumed − min(consumed/2, refundCounter)` with `intrinsic ≤ consumed ≤ gasLimit`, so only
    `⌈intrinsic/2⌉ ≤ gasUsed` holds in general — see `gas_below_intrinsic_witness`.
    **gas_bounds_partial**: everything the clause says except `intrinsic ≤ gasUsed`, which is replaced by
    `intrinsic ≤ gasUsed + refund` and `intrinsic ≤ 2·gasUsed`; with an empty refund counter the literal clause holds. -/
theorem gas_bounds_partial {env : Env ρ} (hE : EvmOk env) {m : Msg} {gp : Nat} {w : World ρ} {r : TxOk ρ}
    (h : transitionDb env m gp w = .ok r) :
    ∃ ig refund, intrinsicGas m.data m.to.isNone env.homestead = some ig ∧
      r.usedGas ≤ m.gas ∧
      refund ≤ (m.gas - (evmOut env m w ig).gasLeft) / 2 ∧
      refund ≤ env.refund (evmOut env m w ig).world ∧
      r.usedGas + refund = m.gas - (evmOut env m w ig).gasLeft ∧
      ig ≤ r.usedGas + refund ∧
      ig ≤ 2 * r.usedGas ∧
      (env.refund (evmOut env m w ig).world = 0 → ig ≤ r.usedGas) := by
  obtain ⟨_, _, _, ig, hig, hle, _, rfl⟩ := transitionDb_ok h
  obtain ⟨g1, g2, g3, g4, g5⟩ := gas_facts hE m w hle
  refine ⟨ig, _, hig, ?_, g3, g4, g5, ?_, ?_, ?_⟩ <;> simp only [] <;> omega

/-- **sender_debit** (general form). The sender ends with what the EVM left it plus the unused gas at the original price
    (and the fee, when it is its own coinbase): net of the EVM's own effects the charge is exactly gasUsed·price. -/
theorem sender_debit {env : Env ρ} (hE : EvmOk env) {m : Msg} {gp : Nat} {w : World ρ} {r : TxOk ρ}
    (h : transitionDb env m gp w = .ok r) :
    ∃ ig, intrinsicGas m.data m.to.isNone env.homestead = some ig ∧
      lookup r.world.bal m.sender =
        lookup (evmOut env m w ig).world.bal m.sender + (m.gas - r.usedGas) * m.gasPrice
          + (if env.coinbase = m.sender then r.usedGas * m.gasPrice else 0) ∧
      lookup (preWorld m w).bal m.sender + m.gas * m.gasPrice = lookup w.bal m.sender := by
  obtain ⟨_, hb, _, ig, hig, hle, _, rfl⟩ := transitionDb_ok h
  obtain ⟨_, g2, _, _, _⟩ := gas_facts hE m w hle
  refine ⟨ig, hig, ?_, ?_⟩
  · simp only []
    have e : m.gas - (m.gas - gasBack env m w ig) = gasBack env m w ig := by omega
    rw [e]
    by_cases hc : env.coinbase = m.sender
    · rw [if_pos hc, hc, addBal_bal_eq, addBal_bal_eq]
    · rw [if_neg hc, addBal_bal_ne _ _ hc, addBal_bal_eq]; omega
  · rw [preWorld_bal_sender]; omega

/-- **coinbase_credit.** The coinbase ends with what the EVM left it plus exactly gasUsed·price (plus the sender's refund if
    it is the sender). -/
theorem coinbase_credit {env : Env ρ} (hE : EvmOk env) {m : Msg} {gp : Nat} {w : World ρ} {r : TxOk ρ}
    (h : transitionDb env m gp w = .ok r) :
    ∃ ig, intrinsicGas m.data m.to.isNone env.homestead = some ig ∧
      lookup r.world.bal env.coinbase =
        lookup (evmOut env m w ig).world.bal env.coinbase + r.usedGas * m.gasPrice
          + (if env.coinbase = m.sender then (m.gas - r.usedGas) * m.gasPrice else 0) := by
  obtain ⟨_, _, _, ig, hig, hle, _, rfl⟩ := transitionDb_ok h
  obtain ⟨_, g2, _, _, _⟩ := gas_facts hE m w hle
  refine ⟨ig, hig, ?_⟩
  simp only []
  have e : m.gas - (m.gas - gasBack env m w ig) = gasBack env m w ig := by omega
  rw [e, addBal_bal_eq]
  by_cases hc : env.coinbase = m.sender
  · rw [if_pos hc, hc, addBal_bal_eq]; omega
  · rw [if_neg hc, addBal_bal_ne _ _ (Ne.symm hc)]; omega

/-- every other account is exactly as the EVM left it: the fee machinery writes two accounts only. -/
theorem bystander_untouched {env : Env ρ} {m : Msg} {gp : Nat} {w : World ρ} {r : TxOk ρ}
    (h : transitionDb env m gp w = .ok r) {a : Addr} (hs : m.sender ≠ a) (hc : env.coinbase ≠ a) :
    ∃ ig, intrinsicGas m.data m.to.isNone env.homestead = some ig ∧
      lookup r.world.bal a = lookup (evmOut env m w ig).world.bal a ∧ r.world.nonce = (evmOut env m w ig).world.nonce ∧
      r.world.rest = (evmOut env m w ig).world.rest := by
  obtain ⟨_, _, _, ig, hig, _, _, rfl⟩ := transitionDb_ok h
  exact ⟨ig, hig, by simp only []; rw [addBal_bal_ne _ _ hc, addBal_bal_ne _ _ hs], by simp, by simp⟩

/-- the world after a failed EVM run, by the contract: the snapshot (plus the creator's nonce bump). -/
theorem failed_world {env : Env ρ} (hE : EvmOk env) (hHs : env.homestead = true) (m : Msg) (w : World ρ) (ig : Nat)
    (hf : (evmOut env m w ig).err.isSome = true) (hne : (evmOut env m w ig).err ≠ some .insufficientBalance) :
    (evmOut env m w ig).world =
      if m.to.isSome then preWorld m w else setNonce (preWorld m w) m.sender (nonceInc (lookup (preWorld m w).nonce m.sender)) := by
  cases he : (evmOut env m w ig).err with
  | none => rw [he] at hf; cases hf
  | some e =>
    have hne' : e ≠ .insufficientBalance := fun h => hne (by rw [he, h])
    cases hto : m.to with
    | none =>
      simp only [Option.isSome_none, Bool.false_eq_true, if_false]
      exact hE.create_fail_reverts hHs m (m.gas - ig) (preWorld m w) e hto he hne'
    | some t =>
      simp only [Option.isSome_some, if_true]
      exact hE.call_fail_reverts m (m.gas - ig) (preWorld m w) e (by rw [hto]; rfl) he hne'

/-- **failed_exec_only_gas.** After a failed execution (any non-consensus VM error) the state differs from the state before
    the transaction in exactly three places: the sender's nonce (+1), the sender's balance (−gasUsed·price) and the
    coinbase's balance (+gasUsed·price). Storage, code, logs, suicide marks, the refund counter (`rest`) and every other
    balance and nonce are untouched; in particular the value is NOT transferred. -/
theorem failed_exec_only_gas {env : Env ρ} (hE : EvmOk env) (hHs : env.homestead = true) {m : Msg} {gp : Nat} {w : World ρ} {r : TxOk ρ}
    (h : transitionDb env m gp w = .ok r) (hf : r.failed = true) :
    r.world.rest = w.rest ∧
    (∀ a, lookup r.world.nonce a = if a = m.sender then nonceInc (lookup w.nonce m.sender) else lookup w.nonce a) ∧
    (∀ a, a ≠ m.sender → a ≠ env.coinbase → lookup r.world.bal a = lookup w.bal a) ∧
    (env.coinbase ≠ m.sender →
      lookup r.world.bal m.sender + r.usedGas * m.gasPrice = lookup w.bal m.sender ∧
      lookup r.world.bal env.coinbase = lookup w.bal env.coinbase + r.usedGas * m.gasPrice) ∧
    (env.coinbase = m.sender → lookup r.world.bal m.sender = lookup w.bal m.sender) := by
  obtain ⟨_, hb, _, ig, hig, hle, hne, rfl⟩ := transitionDb_ok h
  obtain ⟨_, g2, _, _, _⟩ := gas_facts hE m w hle
  have hw := failed_world hE hHs m w ig hf hne
  have e : m.gas - (m.gas - gasBack env m w ig) = gasBack env m w ig := by omega
  have hbal : ∀ a, lookup (evmOut env m w ig).world.bal a = lookup (preWorld m w).bal a := by
    intro a; rw [hw]; split <;> simp
  have hrest : (evmOut env m w ig).world.rest = w.rest := by
    rw [hw]; split <;> simp [preWorld_rest]
  have hnon : ∀ a, lookup (evmOut env m w ig).world.nonce a = if a = m.sender then nonceInc (lookup w.nonce m.sender) else lookup w.nonce a := by
    intro a
    rw [hw]
    by_cases ha : a = m.sender
    · subst ha
      rw [if_pos rfl]
      cases hto : m.to with
      | none => simp [setNonce_nonce_eq, preWorld_nonce_sender, hto]
      | some t => simp [preWorld_nonce_sender, hto]
    · rw [if_neg ha]
      have ha' : m.sender ≠ a := fun h => ha h.symm
      split
      · exact preWorld_nonce_other m w ha'
      · rw [setNonce_nonce_ne _ _ ha']; exact preWorld_nonce_other m w ha'
  refine ⟨by simpa using hrest, fun a => by simpa using hnon a, ?_, ?_, ?_⟩
  · intro a has hac
    simp only []
    rw [addBal_bal_ne _ _ (Ne.symm hac), addBal_bal_ne _ _ (Ne.symm has), hbal, preWorld_bal_other m w (Ne.symm has)]
  · intro hc
    simp only []
    refine ⟨?_, ?_⟩
    · rw [addBal_bal_ne _ _ hc, addBal_bal_eq, hbal, preWorld_bal_sender]
      have : (m.gas - gasBack env m w ig) * m.gasPrice + gasBack env m w ig * m.gasPrice = m.gas * m.gasPrice := by
        rw [← Nat.add_mul]; congr 1; omega
      omega
    · rw [addBal_bal_eq, addBal_bal_ne _ _ (Ne.symm hc), hbal, preWorld_bal_other m w (Ne.symm hc)]
  · intro hc
    simp only []
    rw [hc, addBal_bal_eq, addBal_bal_eq, hbal, preWorld_bal_sender]
    have : gasBack env m w ig * m.gasPrice + (m.gas - gasBack env m w ig) * m.gasPrice = m.gas * m.gasPrice := by
      rw [← Nat.add_mul]; congr 1; omega
    omega

/-- **sender_debit_failed.** A failed transaction costs its sender exactly gasUsed·price — the value stays. -/
theorem sender_debit_failed {env : Env ρ} (hE : EvmOk env) (hHs : env.homestead = true) {m : Msg} {gp : Nat} {w : World ρ} {r : TxOk ρ}
    (h : transitionDb env m gp w = .ok r) (hf : r.failed = true) (hc : env.coinbase ≠ m.sender) :
    lookup r.world.bal m.sender + r.usedGas * m.gasPrice = lookup w.bal m.sender :=
  ((failed_exec_only_gas hE hHs h hf).2.2.2.1 hc).1

/-- **sender_debit_success_plain.** If the EVM's only effect on the sender is the top-level value transfer (a callee that does
    not send anything back), a successful transaction costs exactly gasUsed·price + value. -/
theorem sender_debit_success_plain {env : Env ρ} (hE : EvmOk env) {m : Msg} {gp : Nat} {w : World ρ} {r : TxOk ρ}
    (h : transitionDb env m gp w = .ok r) (hc : env.coinbase ≠ m.sender)
    (hplain : ∀ ig, lookup (evmOut env m w ig).world.bal m.sender + m.value = lookup (preWorld m w).bal m.sender) :
    lookup r.world.bal m.sender + r.usedGas * m.gasPrice + m.value = lookup w.bal m.sender := by
  obtain ⟨ig, _, h1, h2⟩ := sender_debit hE h
  obtain ⟨ig', refund, hig', hu, _⟩ := gas_bounds_partial hE h
  have := hplain ig
  rw [if_neg hc] at h1
  have e : (m.gas - r.usedGas) * m.gasPrice + r.usedGas * m.gasPrice = m.gas * m.gasPrice := by
    rw [← Nat.add_mul]; congr 1; omega
  omega

/-- **coinbase_credit_untouched.** If the EVM leaves the coinbase's balance alone, it grows by exactly gasUsed·price. -/
theorem coinbase_credit_untouched {env : Env ρ} (hE : EvmOk env) {m : Msg} {gp : Nat} {w : World ρ} {r : TxOk ρ}
    (h : transitionDb env m gp w = .ok r) (hc : env.coinbase ≠ m.sender)
    (hplain : ∀ ig, lookup (evmOut env m w ig).world.bal env.coinbase = lookup (preWorld m w).bal env.coinbase) :
    lookup r.world.bal env.coinbase = lookup w.bal env.coinbase + r.usedGas * m.gasPrice := by
  obtain ⟨ig, _, h1⟩ := coinbase_credit hE h
  rw [if_neg hc, hplain ig, preWorld_bal_other m w (Ne.symm hc)] at h1
  omega

/-- **pool_conserved.** The block gas pool shrinks by exactly gasUsed (and `AddGas` cannot panic). -/
theorem pool_conserved {env : Env ρ} (hE : EvmOk env) {m : Msg} {gp : Nat} {w : World ρ} {r : TxOk ρ}
    (h : transitionDb env m gp w = .ok r) : r.gp + r.usedGas = gp ∧ m.gas ≤ gp := by
  obtain ⟨_, _, hgp, ig, _, hle, _, rfl⟩ := transitionDb_ok h
  obtain ⟨_, g2, _, _, _⟩ := gas_facts hE m w hle
  simp only []; omega

/-! ## invalid transactions -/

/-- the five ways the statement lists for a transaction to be invalid at (pool, world). -/
def Invalid (env : Env ρ) (m : Msg) (gp : Nat) (w : World ρ) : Prop :=
  (m.checkNonce = true ∧ lookup w.nonce m.sender ≠ m.nonce) ∨          -- wrong nonce
  lookup w.bal m.sender < m.gas * m.gasPrice ∨                           -- cannot prepay gasLimit × gasPrice
  gp < m.gas ∨                                                            -- gas limit above the gas left in the block
  (∀ ig, intrinsicGas m.data m.to.isNone env.homestead = some ig → m.gas < ig) ∨   -- gas limit below the intrinsic cost
  lookup w.bal m.sender - m.gas * m.gasPrice < m.value                    -- … and then cannot pay its value

/-- **invalid_tx_rejected.** Each of the five defects makes `TransitionDb` return a (consensus) error. -/
theorem invalid_tx_rejected {env : Env ρ} (hE : EvmOk env) {m : Msg} {gp : Nat} {w : World ρ}
    (hinv : Invalid env m gp w) : ∃ e, transitionDb env m gp w = .error e := by
  cases hr : transitionDb env m gp w with
  | error e => exact ⟨e, rfl⟩
  | ok r =>
    exfalso
    obtain ⟨hn, hb, hgp, ig, hig, hle, hne, _⟩ := transitionDb_ok hr
    rcases hinv with ⟨hc, hx⟩ | h | h | h | h
    · exact hx (hn hc)
    · omega
    · omega
    · have := h ig hig; omega
    · apply hne
      unfold evmOut
      rw [hE.insufficient_iff, preWorld_bal_sender]
      exact h

/-- **tx_accepted_iff.** Conversely a transaction with none of the defects is accepted (the pool being a uint64):
    the validity predicate of the statement is exactly the acceptance condition of the code. -/
theorem tx_accepted_iff {env : Env ρ} (hE : EvmOk env) (m : Msg) (gp : Nat) (w : World ρ) (hgp : gp ≤ uint64Max) :
    (∃ r, transitionDb env m gp w = .ok r) ↔ ¬ Invalid env m gp w := by
  constructor
  · rintro ⟨r, hr⟩ hinv
    obtain ⟨e, he⟩ := invalid_tx_rejected hE hinv
    rw [hr] at he; cases he
  · intro hv
    unfold Invalid at hv
    simp only [not_or, not_and, Nat.not_lt, Decidable.not_not] at hv
    obtain ⟨h1, h2, h3, h4', h5⟩ := hv
    cases hig : intrinsicGas m.data m.to.isNone env.homestead with
    | none => exact absurd (fun ig h => by rw [hig] at h; cases h) h4'
    | some ig =>
    have h4 : ig ≤ m.gas := Nat.le_of_not_lt (fun hlt => h4' (fun ig' h' => by rw [hig] at h'; cases h'; exact hlt))
    obtain ⟨g1, g2, _, _, _⟩ := gas_facts hE m w h4
    have hne : (env.run m (m.gas - ig) (preWorld m w)).err ≠ some .insufficientBalance := by
      rw [Ne, hE.insufficient_iff, preWorld_bal_sender]; omega
    unfold transitionDb
    dsimp only
    have c1 : ¬ (m.checkNonce && decide (lookup w.nonce m.sender < m.nonce)) = true := by
      cases hc : m.checkNonce
      · simp
      · have := h1 hc; simp; omega
    have c2 : ¬ (m.checkNonce && decide (lookup w.nonce m.sender > m.nonce)) = true := by
      cases hc : m.checkNonce
      · simp
      · have := h1 hc; simp; omega
    rw [if_neg c1, if_neg c2, if_neg (by omega)]
    have hs : subGas gp m.gas = some (gp - m.gas) := by unfold subGas; rw [if_neg (by omega)]
    rw [hs]; dsimp only
    rw [hig]; dsimp only
    rw [if_neg (by omega), if_neg hne]
    have ha : addGas (gp - m.gas) (gasBack env m w ig) = some (gp - m.gas + gasBack env m w ig) := by
      unfold addGas; rw [if_neg (by omega)]
    unfold gasBack evmOut at ha
    rw [ha]
    exact ⟨_, rfl⟩

/-! ## blocks: `ApplyTransaction`, the loop of `Process`, `ValidateState` -/

/-- **receipt_fields.** Status mirrors the VM error, the consensus format depends on Byzantium only, cumulative gas is the
    running total. -/
theorem receipt_fields {env : Env ρ} {m : Msg} {gp used : Nat} {w : World ρ} {a : ApplyOk ρ}
    (h : applyTransaction env m gp w used = .ok a) :
    ∃ r, transitionDb env m gp w = .ok r ∧
      a.receipt.hasRoot = !env.byzantium ∧ a.receipt.failed = r.failed ∧ a.receipt.gasUsed = r.usedGas ∧
      a.receipt.cumulativeGasUsed = used + r.usedGas ∧ a.usedGas = used + r.usedGas ∧ a.receipt.creation = m.to.isNone ∧
      a.gp = r.gp ∧ a.world = env.fin r.world := by
  unfold applyTransaction at h
  cases hr : transitionDb env m gp w with
  | error e => rw [hr] at h; cases h
  | ok r => rw [hr] at h; cases h; exact ⟨r, rfl, rfl, rfl, rfl, rfl, rfl, rfl, rfl, rfl⟩

/-- running-total shape of the receipts of a block, starting from `used`. -/
def CumOk : Nat → List Receipt → Prop
  | _, [] => True
  | used, r :: rs => r.cumulativeGasUsed = used + r.gasUsed ∧ CumOk r.cumulativeGasUsed rs

def sumGas : List Receipt → Nat
  | [] => 0
  | r :: rs => r.gasUsed + sumGas rs

/-- **cumulative_gas.** Through the loop of `Process`: every receipt's cumulative gas is the running sum, the reported total
    is `used₀ + Σ gasUsed`, and pool + total is invariant (so the total can never exceed the block gas limit). -/
theorem cumulative_gas {env : Env ρ} (hE : EvmOk env) (ms : List Msg) (gp : Nat) (w : World ρ) (used : Nat) {b : BlockOk ρ}
    (h : processTxs env ms gp w used = .ok b) :
    CumOk used b.receipts ∧ b.usedGas = used + sumGas b.receipts ∧ b.gp + b.usedGas = gp + used ∧
    b.receipts.length = ms.length := by
  induction ms generalizing gp w used b with
  | nil =>
    simp only [processTxs] at h; cases h
    simp [CumOk, sumGas]
  | cons m ms ih =>
    simp only [processTxs] at h
    cases ha : applyTransaction env m gp w used with
    | error e => rw [ha] at h; cases h
    | ok a =>
      rw [ha] at h; dsimp only at h
      cases hb : processTxs env ms a.gp a.world a.usedGas with
      | error e => rw [hb] at h; cases h
      | ok b' =>
        rw [hb] at h; cases h
        obtain ⟨r, hr, _, _, hg, hcum, hu, _, hgp, _⟩ := receipt_fields ha
        obtain ⟨i1, i2, i3, i4⟩ := ih a.gp a.world a.usedGas hb
        obtain ⟨p1, _⟩ := pool_conserved hE hr
        refine ⟨⟨by rw [hcum, hg], by rw [hcum, ← hu]; exact i1⟩, ?_, ?_, by simp [i4]⟩
        · simp only [sumGas]; rw [i2, hu, hg]; omega
        · simp only []; rw [i3, hu, hgp]; omega

/-- **process_gas_le_limit.** `Process` reports `Σ receipts' gasUsed`, which is at most the block gas limit; the last receipt's
    cumulative gas is that total. -/
theorem process_gas_le_limit {env : Env ρ} (hE : EvmOk env) (hf fz : World ρ → World ρ) (limit : Nat) (ms : List Msg) (w : World ρ) {b : BlockOk ρ}
    (h : process env hf fz limit ms w = .ok b) :
    b.usedGas = sumGas b.receipts ∧ b.usedGas ≤ limit ∧ CumOk 0 b.receipts ∧ b.gp + b.usedGas = limit := by
  unfold process addGas at h
  split at h
  · cases h
  · next gp hgp =>
    split at hgp
    · cases hgp
    · cases hgp
      cases hp : processTxs env ms (0 + limit) (hf w) 0 with
      | error e => rw [hp] at h; cases h
      | ok b' =>
        rw [hp] at h; cases h
        obtain ⟨c1, c2, c3, _⟩ := cumulative_gas hE ms _ _ _ hp
        simp only []
        refine ⟨by omega, by omega, c1, by omega⟩

/-- **validate_gas_iff.** `ValidateState` accepts the header's gasUsed iff it equals the sum over the receipts. -/
theorem validate_gas_iff {env : Env ρ} (hE : EvmOk env) (hf fz : World ρ → World ρ) (limit : Nat) (ms : List Msg) (w : World ρ) {b : BlockOk ρ}
    (h : process env hf fz limit ms w = .ok b) (headerGasUsed : Nat) :
    validateGasUsed headerGasUsed b.usedGas = true ↔ headerGasUsed = sumGas b.receipts := by
  rw [← (process_gas_le_limit hE hf fz limit ms w h).1]
  simp [validateGasUsed]

/-- the loop stops at the first refused transaction. -/
theorem processTxs_append_error {env : Env ρ} (pre : List Msg) (m : Msg) (post : List Msg) (gp : Nat) (w : World ρ) (used : Nat)
    {b : BlockOk ρ} (hpre : processTxs env pre gp w used = .ok b) {e : TxErr} (hm : transitionDb env m b.gp b.world = .error e) :
    processTxs env (pre ++ m :: post) gp w used = .error e := by
  induction pre generalizing gp w used b with
  | nil =>
    simp only [processTxs] at hpre; cases hpre
    simp only [List.nil_append, processTxs, applyTransaction, hm]
  | cons p ps ih =>
    simp only [processTxs] at hpre
    cases ha : applyTransaction env p gp w used with
    | error e' => rw [ha] at hpre; cases hpre
    | ok a =>
      rw [ha] at hpre; dsimp only at hpre
      cases hb : processTxs env ps a.gp a.world a.usedGas with
      | error e' => rw [hb] at hpre; cases hpre
      | ok b' =>
        rw [hb] at hpre; cases hpre
        simp only [List.cons_append, processTxs, ha]
        rw [ih a.gp a.world a.usedGas hb hm]

/-- **invalid_tx_invalidates_block.** If the transactions before position i process and the i-th one has any of the five
    defects in the state/pool reached there, `Process` returns an error for the whole block (whatever follows). -/
theorem invalid_tx_invalidates_block {env : Env ρ} (hE : EvmOk env) (hf fz : World ρ → World ρ) (limit : Nat)
    (pre : List Msg) (m : Msg) (post : List Msg) (w : World ρ) {b : BlockOk ρ}
    (hpre : processTxs env pre limit (hf w) 0 = .ok b) (hinv : Invalid env m b.gp b.world) :
    ∃ e, process env hf fz limit (pre ++ m :: post) w = .error e := by
  obtain ⟨e, he⟩ := invalid_tx_rejected hE hinv
  unfold process addGas
  split
  · exact ⟨_, rfl⟩
  · next gp hgp =>
    split at hgp
    · cases hgp
    · cases hgp
      rw [Nat.zero_add, processTxs_append_error pre m post limit (hf w) 0 hpre he]
      exact ⟨e, rfl⟩

/-! ## receipts recorded by the fast-sync import path (`core.SetReceiptsData`) -/

/-- **setReceiptsData_sum.** For the cumulative values of a valid block (non-decreasing uint64s) the per-transaction gas
    that `SetReceiptsData` derives sums to the last cumulative value: Σ GasUsed = header.GasUsed on the fast-sync path too. -/
theorem setReceiptsData_sum (prev : Nat) (cums : List Nat) (h : CumMonotone prev cums) :
    prev + listSum (setReceiptsData_spec prev cums) = lastCum prev cums := by
  induction cums generalizing prev with
  | nil => simp [setReceiptsData_spec, listSum, lastCum]
  | cons c cs ih =>
    obtain ⟨h1, h2, h3⟩ := h
    simp only [setReceiptsData_spec, listSum, lastCum]
    have hd : (c + (uint64Max + 1) - prev) % (uint64Max + 1) = c - prev := by
      have e : c + (uint64Max + 1) - prev = (c - prev) + (uint64Max + 1) := by omega
      rw [e, Nat.add_mod_right]
      exact Nat.mod_eq_of_lt (by omega)
    rw [hd]
    have := ih c h3
    omega

/-- **setReceiptsData_recovers_gas.** Fast sync recovers exactly what the full path recorded: for receipts whose cumulative
    gas is the running total of their gas (the shape `cumulative_gas` proves for everything `Process` produces), the
    differences of the cumulative values are the receipts' own `gasUsed`. -/
theorem setReceiptsData_recovers_gas (used : Nat) (rs : List Receipt) (h : CumOk used rs)
    (hb : ∀ r ∈ rs, r.cumulativeGasUsed ≤ uint64Max) :
    setReceiptsData_spec used (rs.map (·.cumulativeGasUsed)) = rs.map (·.gasUsed) := by
  induction rs generalizing used with
  | nil => rfl
  | cons r rs ih =>
    obtain ⟨h1, h2⟩ := h
    simp only [List.map_cons, setReceiptsData_spec]
    have hr := hb r List.mem_cons_self
    have hd : (r.cumulativeGasUsed + (uint64Max + 1) - used) % (uint64Max + 1) = r.gasUsed := by
      have e : r.cumulativeGasUsed + (uint64Max + 1) - used = r.gasUsed + (uint64Max + 1) := by omega
      rw [e, Nat.add_mod_right]
      exact Nat.mod_eq_of_lt (by omega)
    rw [hd, ih r.cumulativeGasUsed h2 (fun x hx => hb x (List.mem_cons_of_mem _ hx))]

example : setReceiptsData_spec 0 [21000, 62220, 83249] = [21000, 41220, 21029] := by decide
example : listSum (setReceiptsData_spec 0 [21000, 62220, 83249]) = 83249 := by decide
-- the running-total-of-cumulatives derivation is NOT this function (third receipt 29 instead of 21029, then uint64 underflow)
example : setReceiptsData_spec 0 [21000, 62220, 83249] ≠ [21000, 41220, 83249 - (21000 + 62220)] := by decide

/-! ## Impl ⊑ Spec -/

/-- what an observer of the model run sees (the same record the driver builds from the Go run). -/
def observe (env : Env ρ) (m : Msg) (gp : Nat) (w : World ρ) (ig : Nat) (r : TxOk ρ) : Observed :=
  { senderBefore := lookup w.bal m.sender, nonceBefore := lookup w.nonce m.sender, coinbaseBefore := lookup w.bal env.coinbase
    senderAfter := lookup r.world.bal m.sender, nonceAfter := lookup r.world.nonce m.sender, coinbaseAfter := lookup r.world.bal env.coinbase
    evmSender := lookup (evmOut env m w ig).world.bal m.sender, evmSenderIn := lookup (preWorld m w).bal m.sender
    evmCoinbase := lookup (evmOut env m w ig).world.bal env.coinbase, evmCoinbaseIn := lookup (preWorld m w).bal env.coinbase
    gasUsed := r.usedGas, failed := r.failed, gasLeft := (evmOut env m w ig).gasLeft
    refundCounter := env.refund (evmOut env m w ig).world, gpBefore := gp, gpAfter := r.gp }

/-- **impl_refines_spec.** Whatever `TransitionDb` accepts satisfies the executable Spec `specTx` (the acceptor the model
    driver applies to the behaviour of the Go code). -/
theorem impl_refines_spec {env : Env ρ} (hE : EvmOk env) (hEOA : SenderIsEOA env) (hHs : env.homestead = true)
    {m : Msg} {gp : Nat} {w : World ρ} {r : TxOk ρ} (h : transitionDb env m gp w = .ok r) :
    ∃ ig, intrinsicGas m.data m.to.isNone env.homestead = some ig ∧ specTx m env.coinbase ig (observe env m gp w ig r) = true := by
  obtain ⟨hn, hb, hgp, ig, hig, hle, hne, hr⟩ := transitionDb_ok h
  obtain ⟨g1, g2, g3, g4, g5⟩ := gas_facts hE m w hle
  obtain ⟨ig1, hig1, sd1, sd2⟩ := sender_debit hE h
  obtain ⟨ig2, hig2, cc⟩ := coinbase_credit hE h
  obtain ⟨p1, _⟩ := pool_conserved hE h
  rw [hig] at hig1 hig2; cases hig1; cases hig2
  have hused : r.usedGas = m.gas - gasBack env m w ig := by rw [hr]
  have hfailed : r.failed = (evmOut env m w ig).err.isSome := by rw [hr]
  have hnonce : lookup r.world.nonce m.sender = nonceInc (lookup w.nonce m.sender) := by
    have := hEOA m (m.gas - ig) (preWorld m w) hne
    rw [hr]; simp only [addBal_nonce]; unfold evmOut
    rw [this, preWorld_nonce_sender]; cases m.to <;> simp
  refine ⟨ig, hig, ?_⟩
  simp only [specTx, observe, Bool.and_eq_true, Bool.or_eq_true, beq_iff_eq, Bool.not_eq_true']
  refine ⟨⟨⟨⟨⟨⟨⟨⟨⟨⟨⟨?_, ?_⟩, ?_⟩, ?_⟩, ?_⟩, ?_⟩, ?_⟩, ?_⟩, ?_⟩, ?_⟩, ?_⟩, ?_⟩
  · cases hc : m.checkNonce
    · exact Or.inl rfl
    · exact Or.inr (hn hc)
  · exact hnonce
  · apply decide_eq_true; omega
  · apply decide_eq_true; simp only [gasBack] at g5 hused; omega
  · apply decide_eq_true; exact g1
  · apply decide_eq_true; simp only [gasBack] at g5 hused; omega
  · apply decide_eq_true; simp only [gasBack] at g5 hused; omega
  · apply decide_eq_true; simp only [gasBack] at g5 hused; omega
  · exact p1
  · by_cases hc : m.sender = env.coinbase
    · rw [if_pos hc]
      rw [if_pos hc.symm] at sd1
      simp only [beq_iff_eq]; omega
    · rw [if_neg hc]
      rw [if_neg (fun h => hc h.symm)] at sd1 cc
      simp only [Bool.and_eq_true, beq_iff_eq]; omega
  · exact sd2
  · cases hf : r.failed
    · exact Or.inl rfl
    · refine Or.inr ?_
      rw [hfailed] at hf
      have hw := failed_world hE hHs m w ig hf hne
      rw [hw]; split <;> simp

/-! ## non-vacuity: a scripted EVM that obeys the contract -/

/-- a scripted EVM over `ρ := Nat` (the refund counter). Success moves the value to the recipient (address 7 for creations)
    and sets the refund counter; failure returns the snapshot (with the creator's nonce bump). -/
def scriptEnv (cb : Addr) (gasUse : Nat) (err : Option VmErr) (refund : Nat) : Env Nat :=
  { run := fun m g w =>
      if lookup w.bal m.sender < m.value then { world := w, gasLeft := g, err := some .insufficientBalance }
      else
        let w' := if m.to.isSome then w else setNonce w m.sender (nonceInc (lookup w.nonce m.sender))
        match err with
        | some .reverted => { world := w', gasLeft := g - gasUse, err := some .reverted }
        | some .other => { world := w', gasLeft := 0, err := some .other }
        | _ => { world := { addBal (subBal w' m.sender m.value) (m.to.getD 7) m.value with rest := refund }, gasLeft := g - gasUse, err := none }
    refund := fun w => w.rest, fin := fun w => { w with rest := 0 }, coinbase := cb, homestead := true, byzantium := true }

theorem scriptEnv_ok (cb u : Nat) (e : Option VmErr) (rf : Nat) : EvmOk (scriptEnv cb u e rf) := by
  constructor
  · intro m g w
    simp only [scriptEnv]
    split
    · exact Nat.le_refl _
    · split <;> simp only [] <;> omega
  · intro m g w
    simp only [scriptEnv]
    split
    · next h => simp [h]
    · next h => split <;> simp [h]
  · intro m g w e' hto herr hne
    simp only [scriptEnv] at herr ⊢
    split at herr
    · cases herr; exact absurd rfl hne
    · split at herr <;> simp only [] at herr ⊢
      · split
        · rename_i h; exact absurd h (by assumption)
        · simp
      · split
        · rename_i h; exact absurd h (by assumption)
        · simp
      · cases herr
  · intro _ m g w e' hto herr hne
    simp only [scriptEnv] at herr ⊢
    split at herr
    · cases herr; exact absurd rfl hne
    · split at herr <;> simp only [] at herr ⊢
      · split
        · rename_i h; exact absurd h (by assumption)
        · simp [hto]
      · split
        · rename_i h; exact absurd h (by assumption)
        · simp [hto]
      · cases herr

theorem scriptEnv_eoa (cb u : Nat) (e : Option VmErr) (rf : Nat) : SenderIsEOA (scriptEnv cb u e rf) := by
  intro m g w hne
  simp only [scriptEnv] at hne ⊢
  split
  · next h => simp [h] at hne
  · cases hto : m.to <;> split <;> simp [setNonce_nonce_eq]

/-- summary of a `TransitionDb` result for concrete evaluation. -/
def summary (x : Except TxErr (TxOk Nat)) (watch : List Addr) : Option (Nat × Bool × Nat × List (Nat × Nat)) :=
  match x with
  | .ok r => some (r.usedGas, r.failed, r.gp, watch.map (fun a => (lookup r.world.bal a, lookup r.world.nonce a)))
  | .error _ => none

theorem summary_some {x : Except TxErr (TxOk Nat)} {l : List Addr} {v} (h : summary x l = some v) : ∃ r, x = .ok r ∧ r.usedGas = v.1 := by
  cases x with
  | error e => cases h
  | ok r => simp only [summary, Option.some.injEq] at h; exact ⟨r, rfl, by rw [← h]⟩

/-- demo world: account 1 (sender, nonce 5) has 10⁶, account 2 is the coinbase. -/
def w0 : World Nat := { bal := [(1, 1000000), (2, 50)], nonce := [(1, 5)], rest := 0 }
/-- demo message: call to account 3, value 100, gas limit 30000 at price 2. -/
def m0 : Msg := { sender := 1, to := some 3, nonce := 5, checkNonce := true, gasPrice := 2, gas := 30000, value := 100, data := [] }

-- a plain successful transfer: 21000 gas; sender pays 21000·2 + 100, coinbase gets 42000, nonce 5 → 6, pool 100000 → 79000
example : summary (transitionDb (scriptEnv 2 0 none 0) m0 100000 w0) [1, 2, 3] =
    some (21000, false, 79000, [(1000000 - 42000 - 100, 6), (50 + 42000, 0), (100, 0)]) := by decide
-- a failed execution that burned everything: 30000 gas; the value stays with the sender
example : summary (transitionDb (scriptEnv 2 0 (some .other) 0) m0 100000 w0) [1, 2, 3] =
    some (30000, true, 70000, [(1000000 - 60000, 6), (50 + 60000, 0), (0, 0)]) := by decide
-- a revert after 5000 gas: the rest of the gas comes back
example : summary (transitionDb (scriptEnv 2 5000 (some .reverted) 0) m0 100000 w0) [1, 2, 3] =
    some (26000, true, 74000, [(1000000 - 52000, 6), (50 + 52000, 0), (0, 0)]) := by decide
-- refund exactly at the cap: consumed 30000, counter 15000 → gasUsed 15000
example : summary (transitionDb (scriptEnv 2 9000 none 15000) m0 100000 w0) [1] = some (15000, false, 85000, [(1000000 - 30000 - 100, 6)]) := by decide
-- contract creation that fails: only the nonce bump and the gas payment remain
example : summary (transitionDb (scriptEnv 2 0 (some .other) 0) { m0 with to := none, gas := 60000 } 100000 w0) [1, 7] =
    some (60000, true, 40000, [(1000000 - 120000, 6), (0, 0)]) := by decide
-- the five defects
example : (transitionDb (scriptEnv 2 0 none 0) { m0 with nonce := 6 } 100000 w0).toOption.isNone = true := by decide
example : (transitionDb (scriptEnv 2 0 none 0) { m0 with gasPrice := 1000 } 100000 w0).toOption.isNone = true := by decide
example : (transitionDb (scriptEnv 2 0 none 0) m0 29999 w0).toOption.isNone = true := by decide
example : (transitionDb (scriptEnv 2 0 none 0) { m0 with gas := 20999 } 100000 w0).toOption.isNone = true := by decide
example : (transitionDb (scriptEnv 2 0 none 0) { m0 with value := 1000000 - 60000 + 1 } 100000 w0).toOption.isNone = true := by decide
-- exactly enough balance is accepted
example : (transitionDb (scriptEnv 2 0 none 0) { m0 with value := 1000000 - 60000 } 100000 w0).toOption.isSome = true := by decide

/-- **gas_below_intrinsic_witness.** The literal clause `intrinsic gas ≤ gasUsed` is false for the code as written: an EVM
    obeying the contract that consumes 5006 gas and leaves a refund counter of 15000 (one SSTORE clear) makes a 21000-intrinsic
    transaction report gasUsed = 13003. (Reproduced on the real code by the harness: known finding `refund-below-intrinsic`.) -/
theorem gas_below_intrinsic_witness :
    ∃ (env : Env Nat) (m : Msg) (gp : Nat) (w : World Nat) (r : TxOk Nat) (ig : Nat),
      EvmOk env ∧ transitionDb env m gp w = .ok r ∧ intrinsicGas m.data m.to.isNone env.homestead = some ig ∧ r.usedGas < ig := by
  have hs : summary (transitionDb (scriptEnv 2 5006 none 15000) m0 100000 w0) [] = some (13003, false, 86997, []) := by decide
  obtain ⟨r, hr, hu⟩ := summary_some hs
  exact ⟨scriptEnv 2 5006 none 15000, m0, 100000, w0, r, 21000, scriptEnv_ok _ _ _ _, hr, by decide, by rw [hu]; decide⟩

/-! ### the hypotheses of the theorems above are jointly satisfiable (non-vacuity) -/

example : ∃ r, transitionDb (scriptEnv 2 0 none 0) m0 100000 w0 = .ok r ∧ lookup w0.nonce m0.sender < uint64Max :=
  (summary_some (l := []) (v := (21000, false, 79000, [])) (by decide)).imp fun _ h => ⟨h.1, by decide⟩
example : ∃ r, transitionDb (scriptEnv 2 0 (some .other) 0) m0 100000 w0 = .ok r ∧ r.failed = true := by
  cases h : transitionDb (scriptEnv 2 0 (some .other) 0) m0 100000 w0 with
  | error e => exact absurd (show (transitionDb (scriptEnv 2 0 (some .other) 0) m0 100000 w0).toOption.isSome = true by decide) (by rw [h]; simp [Except.toOption])
  | ok r => exact ⟨r, rfl, by
      have : (match transitionDb (scriptEnv 2 0 (some .other) 0) m0 100000 w0 with | .ok r => r.failed | .error _ => false) = true := by decide
      rw [h] at this; exact this⟩
example : Invalid (scriptEnv 2 0 none 0) { m0 with nonce := 6 } 100000 w0 := Or.inl ⟨rfl, by decide⟩
example : ¬ Invalid (scriptEnv 2 0 none 0) m0 100000 w0 := by
  rw [← tx_accepted_iff (scriptEnv_ok _ _ _ _) _ _ _ (by decide)]
  exact (summary_some (l := []) (v := (21000, false, 79000, [])) (by decide)).imp fun _ h => h.1
-- a two-transaction block under a 100000 gas limit: both receipts, cumulative gas 21000 and 42000
example : (match process (scriptEnv 2 0 none 0) id id 100000 [m0, { m0 with nonce := 6 }] w0 with
    | .ok b => b.receipts.map (fun r => (r.cumulativeGasUsed, r.gasUsed, r.failed, r.hasRoot)) | .error _ => []) =
    [(21000, 21000, false, false), (42000, 21000, false, false)] := by decide
-- … and the same block with the second nonce wrong is refused as a whole
example : (process (scriptEnv 2 0 none 0) id id 100000 [m0, { m0 with nonce := 7 }] w0).toOption.isNone = true := by decide

/-! ## over the modelled interpreter (C07): the contract `EvmOk` is a theorem, not a hypothesis

  `TxVm.vmEnv venv orc …` is the environment whose `run` IS `Vm.topCall` / `Vm.topCreate` of the C07 machine (world type = the
  C06 state, gas taken mod 2^64, fuel = gas + 1, fresh journal). `evm_contract_over_vm` proves `EvmOk` for it from the C07
  theorems leftover_le_given_call/create, frame_failure_reverts_call/create, call/create_terminates, no_modelled_panic.
  What remains assumed is stated in `TxVm.OracleOk` (the machine does not interpret the world, so its oracle must answer the
  top-level CanTransfer truthfully and its Create nonce effect must be SetNonce(caller, nonce+1)), `Vm.EnvOK` (the gas table is
  one of the generated ones) and — only for `nonce_plus_one` / `impl_refines_spec` — `SenderIsEOA`. -/

open Aqv.TxVm

/-- **evm_contract_over_vm.** gas left ≤ gas given, ErrInsufficientBalance ⇔ CanTransfer fails, failed Call = entry state,
    failed Create = entry state + creator's nonce bump (Homestead): all four clauses for the C07 machine, every oracle. -/
theorem evm_contract_over_vm (venv : Vm.Env) (hE : Vm.EnvOK venv) (orc : Oracle ρ) (hO : OracleOk orc)
    (refund : World ρ → Nat) (fin : World ρ → World ρ) (cb : Addr) : EvmOk (vmEnv venv orc refund fin cb) :=
  vmEnv_ok venv hE orc hO refund fin cb

section OverVm
variable (venv : Vm.Env) (hE : Vm.EnvOK venv) (orc : Oracle ρ) (hO : OracleOk orc)
  (refund : World ρ → Nat) (fin : World ρ → World ρ) (cb : Addr) {m : Msg} {gp : Nat} {w : World ρ} {r : TxOk ρ}
include hE hO

/-- **gas_bounds_partial_over_vm.** -/
theorem gas_bounds_partial_over_vm (h : transitionDb (vmEnv venv orc refund fin cb) m gp w = .ok r) :
    ∃ ig refund', intrinsicGas m.data m.to.isNone venv.homestead = some ig ∧
      r.usedGas ≤ m.gas ∧
      refund' ≤ (m.gas - (vmRun venv orc m (m.gas - ig) (preWorld m w)).gasLeft) / 2 ∧
      refund' ≤ refund (vmRun venv orc m (m.gas - ig) (preWorld m w)).world ∧
      r.usedGas + refund' = m.gas - (vmRun venv orc m (m.gas - ig) (preWorld m w)).gasLeft ∧
      ig ≤ r.usedGas + refund' ∧ ig ≤ 2 * r.usedGas ∧
      (refund (vmRun venv orc m (m.gas - ig) (preWorld m w)).world = 0 → ig ≤ r.usedGas) :=
  gas_bounds_partial (vmEnv_ok venv hE orc hO refund fin cb) h

/-- **failed_exec_only_gas_over_vm.** A failed execution of the modelled interpreter leaves only the nonce bump and the gas
    payment (Homestead rules). -/
theorem failed_exec_only_gas_over_vm (hHs : venv.homestead = true)
    (h : transitionDb (vmEnv venv orc refund fin cb) m gp w = .ok r) (hf : r.failed = true) :
    r.world.rest = w.rest ∧
    (∀ a, lookup r.world.nonce a = if a = m.sender then nonceInc (lookup w.nonce m.sender) else lookup w.nonce a) ∧
    (∀ a, a ≠ m.sender → a ≠ cb → lookup r.world.bal a = lookup w.bal a) ∧
    (cb ≠ m.sender →
      lookup r.world.bal m.sender + r.usedGas * m.gasPrice = lookup w.bal m.sender ∧
      lookup r.world.bal cb = lookup w.bal cb + r.usedGas * m.gasPrice) ∧
    (cb = m.sender → lookup r.world.bal m.sender = lookup w.bal m.sender) :=
  failed_exec_only_gas (vmEnv_ok venv hE orc hO refund fin cb) hHs h hf

/-- **sender_debit_over_vm.** -/
theorem sender_debit_over_vm (h : transitionDb (vmEnv venv orc refund fin cb) m gp w = .ok r) :
    ∃ ig, intrinsicGas m.data m.to.isNone venv.homestead = some ig ∧
      lookup r.world.bal m.sender =
        lookup (vmRun venv orc m (m.gas - ig) (preWorld m w)).world.bal m.sender + (m.gas - r.usedGas) * m.gasPrice
          + (if cb = m.sender then r.usedGas * m.gasPrice else 0) ∧
      lookup (preWorld m w).bal m.sender + m.gas * m.gasPrice = lookup w.bal m.sender :=
  sender_debit (vmEnv_ok venv hE orc hO refund fin cb) h

/-- **sender_debit_failed_over_vm.** -/
theorem sender_debit_failed_over_vm (hHs : venv.homestead = true)
    (h : transitionDb (vmEnv venv orc refund fin cb) m gp w = .ok r) (hf : r.failed = true) (hc : cb ≠ m.sender) :
    lookup r.world.bal m.sender + r.usedGas * m.gasPrice = lookup w.bal m.sender :=
  sender_debit_failed (vmEnv_ok venv hE orc hO refund fin cb) hHs h hf hc

/-- **sender_debit_success_plain_over_vm.** -/
theorem sender_debit_success_plain_over_vm (h : transitionDb (vmEnv venv orc refund fin cb) m gp w = .ok r) (hc : cb ≠ m.sender)
    (hplain : ∀ ig, lookup (vmRun venv orc m (m.gas - ig) (preWorld m w)).world.bal m.sender + m.value = lookup (preWorld m w).bal m.sender) :
    lookup r.world.bal m.sender + r.usedGas * m.gasPrice + m.value = lookup w.bal m.sender :=
  sender_debit_success_plain (vmEnv_ok venv hE orc hO refund fin cb) h hc hplain

/-- **coinbase_credit_over_vm.** -/
theorem coinbase_credit_over_vm (h : transitionDb (vmEnv venv orc refund fin cb) m gp w = .ok r) :
    ∃ ig, intrinsicGas m.data m.to.isNone venv.homestead = some ig ∧
      lookup r.world.bal cb =
        lookup (vmRun venv orc m (m.gas - ig) (preWorld m w)).world.bal cb + r.usedGas * m.gasPrice
          + (if cb = m.sender then (m.gas - r.usedGas) * m.gasPrice else 0) :=
  coinbase_credit (vmEnv_ok venv hE orc hO refund fin cb) h

/-- **pool_conserved_over_vm.** -/
theorem pool_conserved_over_vm (h : transitionDb (vmEnv venv orc refund fin cb) m gp w = .ok r) : r.gp + r.usedGas = gp ∧ m.gas ≤ gp :=
  pool_conserved (vmEnv_ok venv hE orc hO refund fin cb) h

/-- **tx_accepted_iff_over_vm.** The validity predicate of the statement is the acceptance condition over the interpreter. -/
theorem tx_accepted_iff_over_vm (m : Msg) (gp : Nat) (w : World ρ) (hgp : gp ≤ uint64Max) :
    (∃ r, transitionDb (vmEnv venv orc refund fin cb) m gp w = .ok r) ↔ ¬ Invalid (vmEnv venv orc refund fin cb) m gp w :=
  tx_accepted_iff (vmEnv_ok venv hE orc hO refund fin cb) m gp w hgp

/-- **invalid_tx_invalidates_block_over_vm.** -/
theorem invalid_tx_invalidates_block_over_vm (hf fz : World ρ → World ρ) (limit : Nat)
    (pre : List Msg) (m : Msg) (post : List Msg) (w : World ρ) {b : BlockOk ρ}
    (hpre : processTxs (vmEnv venv orc refund fin cb) pre limit (hf w) 0 = .ok b) (hinv : Invalid (vmEnv venv orc refund fin cb) m b.gp b.world) :
    ∃ e, process (vmEnv venv orc refund fin cb) hf fz limit (pre ++ m :: post) w = .error e :=
  invalid_tx_invalidates_block (vmEnv_ok venv hE orc hO refund fin cb) hf fz limit pre m post w hpre hinv

/-- **process_gas_le_limit_over_vm.** -/
theorem process_gas_le_limit_over_vm (hf fz : World ρ → World ρ) (limit : Nat) (ms : List Msg) (w : World ρ) {b : BlockOk ρ}
    (h : process (vmEnv venv orc refund fin cb) hf fz limit ms w = .ok b) :
    b.usedGas = sumGas b.receipts ∧ b.usedGas ≤ limit ∧ CumOk 0 b.receipts ∧ b.gp + b.usedGas = limit :=
  process_gas_le_limit (vmEnv_ok venv hE orc hO refund fin cb) hf fz limit ms w h

end OverVm

/-- **nonce_plus_one_over_vm.** Over the modelled interpreter `SenderIsEOA` is not assumed: from a pre-state with no code at the
    signer (`NoCodeAtSigner`; a signer has code only if some CREATE address keccak(rlp(creator, nonce)) hit a key-controlled
    address) and an oracle whose effects respect a code-less signer (`CodeDiscipline`: they install no code there and do not
    move its nonce — only a frame executing AS an account bumps that account's nonce), an accepted transaction carries the
    account's nonce, leaves it exactly one higher, and the signer is still code-less afterwards (so the assumption carries
    over to the signer's next transaction). -/
theorem nonce_plus_one_over_vm {hasCode : ρ → Addr → Bool} (venv : Vm.Env) (orc : Oracle ρ) (hO : OracleOk orc)
    (hC : CodeDiscipline hasCode orc) (refund : World ρ → Nat) (fin : World ρ → World ρ) (cb : Addr)
    {m : Msg} {gp : Nat} {w : World ρ} {r : TxOk ρ}
    (h : transitionDb (vmEnv venv orc refund fin cb) m gp w = .ok r) (hno : NoCodeAtSigner hasCode m w)
    (hwrap : lookup w.nonce m.sender < uint64Max) :
    lookup r.world.nonce m.sender = lookup w.nonce m.sender + 1 ∧
    (m.checkNonce = true → m.nonce = lookup w.nonce m.sender) ∧
    hasCode r.world.rest m.sender = false := by
  obtain ⟨hn, _, _, ig, _, _, hne, rfl⟩ := transitionDb_ok h
  have hpre : hasCode (preWorld m w).rest m.sender = false := by rw [preWorld_rest]; exact hno
  obtain ⟨s1, s2⟩ := signer_nonce_over_vm venv orc hO hC m (m.gas - ig) (preWorld m w) hpre hne
  have hinc : nonceInc (lookup w.nonce m.sender) = lookup w.nonce m.sender + 1 := by
    unfold nonceInc; exact Nat.mod_eq_of_lt (by omega)
  refine ⟨?_, fun hc => (hn hc).symm, by simp only [addBal_rest]; exact s1⟩
  simp only [addBal_nonce]
  show lookup (vmRun venv orc m (m.gas - ig) (preWorld m w)).world.nonce m.sender = _
  rw [s2, preWorld_nonce_sender]
  cases m.to <;> simp [hinc]

-- (per transaction on purpose: across a block an earlier transaction may CREATE, and that its address is none of the later
--  signers is the hash assumption again — `NoCodeAtSigner` is re-assumed on each transaction's own pre-state.)

/-- non-vacuity over the real machine: a callee that is a single `INVALID` (0xfe) under the spring rule set of C07 — the frame
    fails, all 9000 gas is consumed, the value stays with the sender; and a callee that is `STOP`. -/
def invalidOrc (op : Nat) : Oracle Nat := fun m _ w _ =>
  { op := op, args := [], canTransfer := decide (m.value ≤ lookup w.bal m.sender),
    nonceEff := fun w' => setNonce w' m.sender (nonceInc (lookup w'.nonce m.sender)),
    xferEff := fun w' => addBal (subBal w' m.sender m.value) 3 m.value }

theorem invalidOrc_ok (op : Nat) : OracleOk (invalidOrc op) := ⟨fun _ _ _ => rfl, fun _ _ _ _ => rfl⟩

example : summary (transitionDb (vmEnv Props.C07.envSpring (invalidOrc 0xfe) (fun w => w.rest) id 2) m0 100000 w0) [1, 2, 3] =
    some (30000, true, 70000, [(1000000 - 60000, 6), (50 + 60000, 0), (0, 0)]) := by decide
example : summary (transitionDb (vmEnv Props.C07.envSpring (invalidOrc 0x00) (fun w => w.rest) id 2) m0 100000 w0) [1, 2, 3] =
    some (21000, false, 79000, [(1000000 - 42000 - 100, 6), (50 + 42000, 0), (100, 0)]) := by decide

/-- non-vacuity for `nonce_plus_one_over_vm`: an oracle whose only nonce effect is the depth-0 Create's bump, over a state
    space without code (`hasCode := false`). -/
def eoaOrc (op : Nat) : Oracle Nat := fun m _ w t =>
  { op := op, args := [], canTransfer := decide (m.value ≤ lookup w.bal m.sender),
    nonceEff := fun w' => if t = 0 then setNonce w' m.sender (nonceInc (lookup w'.nonce m.sender)) else w',
    xferEff := fun w' => addBal (subBal w' m.sender m.value) 3 m.value }

theorem eoaOrc_ok (op : Nat) : OracleOk (eoaOrc op) := ⟨fun _ _ _ => rfl, fun _ _ _ _ => rfl⟩

theorem eoaOrc_discipline (op : Nat) : CodeDiscipline (fun _ _ => false) (eoaOrc op) := by
  constructor
  · intro m g w t w' _; exact ⟨rfl, rfl, rfl, rfl, rfl, rfl⟩
  · intro m g w t w' _
    refine ⟨rfl, rfl, rfl, by simp [eoaOrc], rfl, fun ht => ?_⟩
    have : t ≠ 0 := by omega
    simp [eoaOrc, this]

-- a creation through the real machine: nonce 5 → 6, exactly once
example : summary (transitionDb (vmEnv Props.C07.envSpring (eoaOrc 0x00) (fun w => w.rest) id 2) { m0 with to := none, gas := 60000 } 100000 w0) [1] =
    some (53000, false, 47000, [(1000000 - 106000 - 100, 6)]) := by decide
example : NoCodeAtSigner (fun (_ : Nat) _ => false) m0 w0 := rfl

/-- **builtin_configs_homestead** (T-gen). Every built-in chain configuration is Homestead from block 0, so the hypothesis
    `env.homestead = true` of `failed_exec_only_gas` holds on all of them (pre-Homestead rules keep a creation whose code
    cannot be paid for — the harness shows this on a private Frontier config). -/
theorem builtin_configs_homestead : Gen.TxParams.switches.all (fun s => s.2.1 == some 0) = true := by decide

/-! ### tie by translation (T-gen `translated`, DESIGN 2.2 mini-translator): the gas pool and the gas counter

core.(*GasPool).SubGas / AddGas / Gas and core.(*StateTransition).useGas are translated from the go/ssa form of the tree
under test on every run (`Aqv.Gen.Translated`; the pointer receiver is threaded as an argument and an extra result, UInt64 with
Go's wrap-around); the translated code refines the `Nat` model functions `subGas` / `addGas` the theorems above use
(proofs in `Aqv.Lemmas.Translated.Tx`). -/

/-- SubGas: `ErrGasLimitReached` exactly when the model says `none` (pool untouched), otherwise the model's new pool.
    AddGas: panics exactly when the model says `none`, otherwise the model's new pool.  Gas reads the pool. -/
theorem gasPool_code_is_model (gp amount : UInt64) :
    Aqv.Lemmas.Translated.cellRes (Aqv.Gen.Translated.GasPool_SubGas gp amount) = subGas gp.toNat amount.toNat ∧
    (gp < amount → Aqv.Gen.Translated.GasPool_SubGas gp amount = (some "core.ErrGasLimitReached", gp)) ∧
    (Aqv.Gen.Translated.GasPool_AddGas gp amount).map (fun r => r.2.toNat) = addGas gp.toNat amount.toNat ∧
    Aqv.Gen.Translated.GasPool_Gas gp = gp :=
  ⟨Aqv.Lemmas.Translated.GasPool_SubGas_translated_eq gp amount, Aqv.Lemmas.Translated.GasPool_SubGas_translated_err gp amount,
   Aqv.Lemmas.Translated.GasPool_AddGas_translated_eq gp amount, rfl⟩

example : Aqv.Gen.Translated.GasPool_SubGas 100 30 = (none, 70) ∧ Aqv.Gen.Translated.GasPool_SubGas 10 30 = (some "core.ErrGasLimitReached", 10) ∧
    Aqv.Gen.Translated.GasPool_AddGas 0xffffffffffffffff 1 = none ∧ Aqv.Gen.Translated.GasPool_AddGas 5 7 = some ((), 12) := by decide

/-- useGas (the intrinsic-gas charge): `vm.ErrOutOfGas` exactly when the counter is below the amount — the model's
    `m.gas < ig` test — otherwise the counter decreases by the amount. -/
theorem useGas_code_is_model (gas amount : UInt64) :
    Aqv.Lemmas.Translated.cellRes (Aqv.Gen.Translated.StateTransition_useGas gas amount)
      = if gas.toNat < amount.toNat then none else some (gas.toNat - amount.toNat) :=
  Aqv.Lemmas.Translated.StateTransition_useGas_translated_eq gas amount

/-- tie by translation: core.(*StateTransition).gasUsed is `initialGas − gas` (the fields it reads are pinned by named arguments);
    no wrap-around while gas ≤ initialGas, which buyGas / useGas / refundGas maintain. -/
theorem gasUsed_code_is_model (gas initialGas : UInt64) (h : gas ≤ initialGas) :
    (Aqv.Gen.Translated.StateTransition_gasUsed (st_gas := gas) (st_initialGas := initialGas)).toNat
      = initialGas.toNat - gas.toNat :=
  Aqv.Lemmas.Translated.StateTransition_gasUsed_translated_eq gas initialGas h

example : Aqv.Gen.Translated.StateTransition_gasUsed (st_gas := 4000) (st_initialGas := 25000) = 21000 := by decide

end Aqv.Props.C06

/-
  Aqv.Base.Keccak — executable Keccak-256 (legacy padding 0x01, as used by go-ethereum/aquachain `crypto.Keccak256`).
  Core-only. No theorem depends on this being Keccak: it is used by drivers to recompute roots/blooms independently,
  and it is validated against Go's implementation by the correspondence harnesses on every run.
-/
import Aqv.Base.Bytes
namespace Aqv.Keccak

def rc : Array UInt64 := #[
  0x0000000000000001, 0x0000000000008082, 0x800000000000808A, 0x8000000080008000,
  0x000000000000808B, 0x0000000080000001, 0x8000000080008081, 0x8000000000008009,
  0x000000000000008A, 0x0000000000000088, 0x0000000080008009, 0x000000008000000A,
  0x000000008000808B, 0x800000000000008B, 0x8000000000008089, 0x8000000000008003,
  0x8000000000008002, 0x8000000000000080, 0x000000000000800A, 0x800000008000000A,
  0x8000000080008081, 0x8000000000008080, 0x0000000080000001, 0x8000000080008008]

def rotc : Array UInt64 := #[1, 3, 6, 10, 15, 21, 28, 36, 45, 55, 2, 14, 27, 41, 56, 8, 25, 43, 62, 18, 39, 61, 20, 44]
def piln : Array Nat := #[10, 7, 11, 17, 18, 3, 5, 16, 8, 21, 24, 4, 15, 23, 19, 13, 12, 2, 20, 14, 22, 9, 6, 1]

@[inline] def rotl (x : UInt64) (n : UInt64) : UInt64 := (x <<< n) ||| (x >>> (64 - n))

def round (st : Array UInt64) (r : Nat) : Array UInt64 := Id.run do
  let mut s := st
  -- theta
  let mut bc : Array UInt64 := Array.replicate 5 0
  for i in [0:5] do
    bc := bc.set! i (s[i]! ^^^ s[i+5]! ^^^ s[i+10]! ^^^ s[i+15]! ^^^ s[i+20]!)
  for i in [0:5] do
    let t := bc[(i + 4) % 5]! ^^^ rotl bc[(i + 1) % 5]! 1
    for j in [0:5] do
      s := s.set! (j * 5 + i) (s[j * 5 + i]! ^^^ t)
  -- rho, pi
  let mut t := s[1]!
  for i in [0:24] do
    let j := piln[i]!
    let b := s[j]!
    s := s.set! j (rotl t rotc[i]!)
    t := b
  -- chi
  for j in [0:5] do
    let a0 := s[j*5]!; let a1 := s[j*5+1]!; let a2 := s[j*5+2]!; let a3 := s[j*5+3]!; let a4 := s[j*5+4]!
    s := s.set! (j*5)   (a0 ^^^ ((~~~ a1) &&& a2))
    s := s.set! (j*5+1) (a1 ^^^ ((~~~ a2) &&& a3))
    s := s.set! (j*5+2) (a2 ^^^ ((~~~ a3) &&& a4))
    s := s.set! (j*5+3) (a3 ^^^ ((~~~ a4) &&& a0))
    s := s.set! (j*5+4) (a4 ^^^ ((~~~ a0) &&& a1))
  -- iota
  s := s.set! 0 (s[0]! ^^^ rc[r]!)
  return s

def keccakF (st : Array UInt64) : Array UInt64 := Id.run do
  let mut s := st
  for r in [0:24] do
    s := round s r
  return s

def rate : Nat := 136

/-- xor a 136-byte block (little-endian lanes) into the state. -/
def absorbBlock (st : Array UInt64) (blk : Array UInt8) (off : Nat) : Array UInt64 := Id.run do
  let mut s := st
  for i in [0:17] do
    let mut lane : UInt64 := 0
    for k in [0:8] do
      lane := lane ||| ((blk[off + i*8 + k]!).toUInt64 <<< (UInt64.ofNat (8*k)))
    s := s.set! i (s[i]! ^^^ lane)
  return s

def keccak256Arr (msg : Array UInt8) : Array UInt8 := Id.run do
  -- pad: 0x01 ... 0x80 to a multiple of the rate
  let padLen := rate - (msg.size % rate)
  let mut m := msg
  if padLen == 1 then
    m := m.push 0x81
  else
    m := m.push 0x01
    for _ in [0:padLen - 2] do
      m := m.push 0x00
    m := m.push 0x80
  let mut st : Array UInt64 := Array.replicate 25 0
  let nblk := m.size / rate
  for b in [0:nblk] do
    st := absorbBlock st m (b * rate)
    st := keccakF st
  let mut out : Array UInt8 := Array.mkEmpty 32
  for i in [0:4] do
    for k in [0:8] do
      out := out.push ((st[i]! >>> (UInt64.ofNat (8*k))).toUInt8)
  return out

def keccak256 (msg : Bytes) : Bytes := (keccak256Arr msg.toArray).toList

end Aqv.Keccak

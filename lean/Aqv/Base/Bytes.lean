/-
  Aqv.Base.Bytes — byte strings, minimal big-endian integers, hex rendering.
  Core-only (no Mathlib): everything here is linked into the model drivers.
-/
namespace Aqv

abbrev Bytes := List UInt8

/-- big-endian value of a byte string (the empty string is 0). -/
def beNat (bs : Bytes) : Nat := bs.foldl (fun acc b => acc * 256 + b.toNat) 0

/-- minimal big-endian bytes of `n`; the fuel only has to exceed the number of bytes. -/
def beBytesF : Nat → Nat → Bytes
  | 0, _ => []
  | f+1, n => if n = 0 then [] else beBytesF f (n / 256) ++ [UInt8.ofNat (n % 256)]

/-- minimal big-endian representation: no leading zero byte, `0 ↦ []`. -/
def beBytes (n : Nat) : Bytes := beBytesF n n

def hexDigit (n : Nat) : Char :=
  if n < 10 then Char.ofNat (48 + n) else Char.ofNat (87 + n)

def hexOfBytes (bs : Bytes) : String :=
  String.ofList (bs.foldr (fun b acc => hexDigit (b.toNat / 16) :: hexDigit (b.toNat % 16) :: acc) [])

def hexVal (c : Char) : Option Nat :=
  if '0' ≤ c ∧ c ≤ '9' then some (c.toNat - 48)
  else if 'a' ≤ c ∧ c ≤ 'f' then some (c.toNat - 87)
  else if 'A' ≤ c ∧ c ≤ 'F' then some (c.toNat - 55)
  else none

def bytesOfHexAux : List Char → Bytes → Option Bytes
  | [], acc => some acc.reverse
  | [_], _ => none
  | a :: b :: rest, acc =>
    match hexVal a, hexVal b with
    | some x, some y => bytesOfHexAux rest (UInt8.ofNat (x * 16 + y) :: acc)
    | _, _ => none

/-- parse lower/upper-case hex; `-` denotes the empty string. -/
def bytesOfHex (s : String) : Option Bytes :=
  if s = "-" then some [] else bytesOfHexAux s.toList []

def hexOrDash (bs : Bytes) : String := if bs.isEmpty then "-" else hexOfBytes bs

end Aqv

/-
  Aqv.Base.Proto — line-protocol helpers shared by the model drivers (core-only).
  A case line is `<input fields...>\t<go output>`; the driver answers `<model output>\t<verdict>`.
-/
import Aqv.Base.Bytes
namespace Aqv.Proto

partial def loop (h : IO.FS.Stream) (out : IO.FS.Stream) (f : String → String) : IO Unit := do
  let line ← h.getLine
  if line.isEmpty then
    out.flush
    return ()
  let l := String.ofList (line.toList.filter (fun c => c != '\n' && c != '\r'))
  out.putStrLn (f l)
  loop h out f

def runLines (f : String → String) : IO Unit := do
  let i ← IO.getStdin
  let o ← IO.getStdout
  loop i o f

/-- split a case line into (input, observed go output). -/
def splitCase (l : String) : String × String :=
  match l.splitOn "\t" with
  | [a] => (a, "")
  | a :: b :: _ => (a, b)
  | [] => ("", "")

def strDrop (s : String) (n : Nat) : String := String.ofList (s.toList.drop n)

def fields (s : String) : List String := (s.splitOn " ").filter (· ≠ "")

/-- verdict helper: equal outputs agree; otherwise the caller supplies the spec judgement of the Go output. -/
def verdict (model go : String) (specAcceptsGo : Bool) (why : String) : String :=
  if model == go then model ++ "\tagree"
  else if specAcceptsGo then model ++ "\tspec-ok"
  else model ++ "\tspec-reject:" ++ why

end Aqv.Proto

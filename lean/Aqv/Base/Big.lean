/-
  Aqv.Base.Big — the fragment of Go's math/big (*big.Int) and of common/math used by core/vm, over Lean `Int`.
  Core-only (linked into the model drivers).

  math/big stores sign + magnitude; its bitwise operations implement two's-complement semantics by the case analysis
  on signs reproduced here from math/big/int.go (And, Or, Xor, Not, Rsh, Bit).  `Int.ofNat a` is a value ≥ 0 with
  magnitude `a`; `Int.negSucc a` is `-(a+1)`, i.e. magnitude `a+1`, so "|x| - 1" in the Go comments is just `a`.
  Add/Sub/Mul are Lean's; Div/Mod are Go's *Euclidean* division = Lean's `Int./` (ediv) and `%` (emod).
  math/big itself is modelled, not verified (DESIGN §2.5).
-/
namespace Aqv.Big

/-- nat.andNot: `x &^ y`. -/
def natAndNot (x y : Nat) : Nat := Nat.bitwise (fun a b => a && !b) x y

/-- (*Int).And -/
def and : Int → Int → Int
  | .ofNat a, .ofNat b => Int.ofNat (a &&& b)
  -- (-x) & (-y) == ^(x-1) & ^(y-1) == ^((x-1) | (y-1)) == -(((x-1) | (y-1)) + 1)
  | .negSucc a, .negSucc b => Int.negSucc (a ||| b)
  -- x & (-y) == x & ^(y-1) == x &^ (y-1)
  | .ofNat a, .negSucc b => Int.ofNat (natAndNot a b)
  | .negSucc a, .ofNat b => Int.ofNat (natAndNot b a)

/-- (*Int).Or -/
def or : Int → Int → Int
  | .ofNat a, .ofNat b => Int.ofNat (a ||| b)
  -- (-x) | (-y) == ^(x-1) | ^(y-1) == ^((x-1) & (y-1)) == -(((x-1) & (y-1)) + 1)
  | .negSucc a, .negSucc b => Int.negSucc (a &&& b)
  -- x | (-y) == x | ^(y-1) == ^((y-1) &^ x) == -(^((y-1) &^ x) + 1)
  | .ofNat a, .negSucc b => Int.negSucc (natAndNot b a)
  | .negSucc a, .ofNat b => Int.negSucc (natAndNot a b)

/-- (*Int).Xor -/
def xor : Int → Int → Int
  | .ofNat a, .ofNat b => Int.ofNat (a ^^^ b)
  -- (-x) ^ (-y) == ^(x-1) ^ ^(y-1) == (x-1) ^ (y-1)
  | .negSucc a, .negSucc b => Int.ofNat (a ^^^ b)
  -- x ^ (-y) == x ^ ^(y-1) == ^(x ^ (y-1)) == -((x ^ (y-1)) + 1)
  | .ofNat a, .negSucc b => Int.negSucc (a ^^^ b)
  | .negSucc a, .ofNat b => Int.negSucc (a ^^^ b)

/-- (*Int).Not:  ^x == -x-1 ;  ^(-x) == x-1 -/
def not : Int → Int
  | .ofNat a => Int.negSucc a
  | .negSucc a => Int.ofNat a

/-- (*Int).Lsh: magnitude shifted, sign kept. -/
def lsh (x : Int) (n : Nat) : Int := x * (2 ^ n : Nat)

/-- (*Int).Rsh: arithmetic shift; (-x) >> s == -(((x-1) >> s) + 1) -/
def rsh : Int → Nat → Int
  | .ofNat a, n => Int.ofNat (a >>> n)
  | .negSucc a, n => Int.negSucc (a >>> n)

/-- (*Int).Bit(i): two's-complement bit i (for x<0: bit i of |x|-1, inverted). -/
def bit : Int → Nat → Nat
  | .ofNat a, i => if a.testBit i then 1 else 0
  | .negSucc a, i => if a.testBit i then 0 else 1

/-- nat bit length: 0 for 0, else ⌊log2⌋+1. -/
def natBitLen (n : Nat) : Nat := if n = 0 then 0 else Nat.log2 n + 1

/-- (*Int).BitLen: bit length of the magnitude. -/
def bitLen (x : Int) : Nat := natBitLen x.natAbs

/-- (*Int).Uint64: low 64 bits of the magnitude. -/
def uint64 (x : Int) : Nat := x.natAbs % 2 ^ 64

/-- (*Int).Abs -/
def abs (x : Int) : Int := Int.ofNat x.natAbs

def tt255 : Int := 2 ^ 255
def tt256 : Int := 2 ^ 256
def tt256m1 : Int := 2 ^ 256 - 1

/-- common/math.U256: `x.And(x, tt256m1)` -/
def u256 (x : Int) : Int := and x tt256m1

/-- common/math.S256 -/
def s256 (x : Int) : Int := if x < tt255 then x else x - tt256

/-- common/math.Exp: square-and-multiply over `exponent.Bits()`; every 64-bit word costs 64 iterations whatever its value.
    `e` is the not-yet-consumed part of the exponent (word >>= 1 in Go; across words this is e / 2). -/
def expIter : Nat → Int → Int → Nat → Int
  | 0, result, _, _ => result
  | k + 1, result, base, e =>
    let result' := if e % 2 = 1 then u256 (result * base) else result
    let base' := u256 (base * base)
    expIter k result' base' (e / 2)

def exp (base exponent : Int) : Int :=
  let e := exponent.natAbs
  let words := (natBitLen e + 63) / 64
  expIter (64 * words) 1 base e

/-- common/math.Byte(bigint, padlength, n): byte n counted from the most significant end of a padlength-byte big-endian
    rendering; bigEndianByteAt reads byte (padlength-1-n) of the magnitude's little-endian words, truncated to 8 bits. -/
def byteAt (x : Int) (padlength n : Nat) : Nat :=
  if n ≥ padlength then 0 else (x.natAbs >>> (8 * (padlength - 1 - n))) % 256

-- common/math/integer.go ------------------------------------------------------------------------------------------

def maxU64 : UInt64 := 0xffffffffffffffff

/-- SafeAdd: `x + y, y > MaxUint64 - x` -/
def safeAdd (x y : UInt64) : UInt64 × Bool := (x + y, y > maxU64 - x)

/-- SafeMul -/
def safeMul (x y : UInt64) : UInt64 × Bool :=
  if x = 0 || y = 0 then (0, false) else (x * y, y > maxU64 / x)

end Aqv.Big

/-
  Aqv.Lemmas.ChainInv — the invariant of the chain database (`InvC`) and the lemma that re-establishes it when the head
  moves to a block `b` whose ancestry leaves the canonical chain at a block `c` (`invC_newchain`).
-/
import Aqv.Lemmas.Chain
namespace Aqv.Chain

/-- The static universe of blocks: `U` maps a hash to THE block with that hash (hashes determine content, so a block
    and its whole ancestry are fixed once and for all, whatever the database currently holds).  Valid blocks have a
    positive difficulty, and no transaction occurs twice along one chain (nonces). -/
structure World (U : Map Blk) : Prop where
  ids : ∀ k x, U k = some x → x.id = k
  diffPos : ∀ k x, U k = some x → x.number ≠ 0 → 0 < x.diff
  nodup : ∀ k x l c, U k = some x → Path U x l c → (l.flatMap (·.txs)).Nodup

def diffSum (l : List Blk) : Nat := (l.map (·.diff)).sum

/-- The invariant, with its witnesses: `hb` is the head block and `C` its ancestry down to (excluding) genesis. -/
structure InvC (U : Map Blk) (s : St) (hb : Blk) (C : List Blk) : Prop where
  sub : StoreExt s.store U
  headStored : s.store s.head = some hb
  path : Path s.store hb C s.genesis
  canon : ∀ n i, s.canon n = some i ↔ ∃ x ∈ C ++ [s.genesis], x.number = n ∧ x.id = i
  lookup : ∀ t l, s.lookup t = some l ↔
    ∃ x ∈ C ++ [s.genesis], x.id = l.blk ∧ x.number = l.num ∧ x.txs[l.idx]? = some t
  canonSeen : ∀ x ∈ C ++ [s.genesis], s.seen x.id = true
  seenClosed : ∀ k x, s.seen k = true → U k = some x → x.number ≠ 0 → s.seen x.parent = true
  stateSeen : ∀ k, s.hasState k = true → s.seen k = true
  diskState : ∀ k, s.onDisk k = true → s.hasState k = true
  seenRcpt : ∀ k, s.seen k = true → s.receipts k = true
  tdIntr : ∀ k t, s.td k = some t →
    ∃ x l, U k = some x ∧ Path U x l s.genesis ∧ t = s.genesis.diff + diffSum l
  storeTd : ∀ k x, s.store k = some x → (s.td k).isSome = true
  hheadEq : s.hhead = s.head
  fheadEq : s.fhead = s.head
  genNum : s.genesis.number = 0
  genTxs : s.genesis.txs = []
  genState : s.onDisk s.genesis.id = true
  headState : s.hasState s.head = true

def Inv (U : Map Blk) (s : St) : Prop := ∃ hb C, InvC U s hb C

/-! ### helpers -/

theorem loc_eta (l : Loc) : (⟨l.blk, l.num, l.idx⟩ : Loc) = l := by cases l; rfl

theorem mem_txs_of_getElem? {x : Blk} {j t : Nat} (h : x.txs[j]? = some t) : t ∈ x.txs :=
  List.mem_iff_getElem?.mpr ⟨j, h⟩

theorem txs_sublist_flatMap : ∀ (l : List Blk) (x : Blk), x ∈ l → (x.txs).Sublist (l.flatMap (·.txs)) := by
  intro l
  induction l with
  | nil => intro x hx; cases hx
  | cons a l ih =>
    intro x hx
    simp only [List.flatMap_cons]
    rcases List.mem_cons.mp hx with rfl | hx
    · exact List.sublist_append_left _ _
    · exact (ih x hx).trans (List.sublist_append_right _ _)

theorem World.txs_nodup {U : Map Blk} (W : World U) {k : Nat} {x c : Blk} {l : List Blk} (hx : U k = some x)
    (hp : Path U x l c) {y : Blk} (hy : y ∈ l) : y.txs.Nodup :=
  (W.nodup k x l c hx hp).sublist (txs_sublist_flatMap l y hy)

/-- transactions of two different segments of one chain are disjoint -/
theorem World.disjoint {U : Map Blk} (W : World U) {k : Nat} {x c : Blk} {l1 l2 : List Blk} (hx : U k = some x)
    (hp : Path U x (l1 ++ l2) c) {y z : Blk} (hy : y ∈ l1) (hz : z ∈ l2) {t : Nat} (hty : t ∈ y.txs) : t ∉ z.txs := by
  have := W.nodup k x _ c hx hp
  rw [List.flatMap_append, List.nodup_append] at this
  intro htz
  exact this.2.2 t (List.mem_flatMap.mpr ⟨y, hy, hty⟩) t (List.mem_flatMap.mpr ⟨z, hz, htz⟩) rfl

theorem diffSum_append (l1 l2 : List Blk) : diffSum (l1 ++ l2) = diffSum l1 + diffSum l2 := by
  simp [diffSum, List.map_append, List.sum_append]

theorem diffSum_cons (x : Blk) (l : List Blk) : diffSum (x :: l) = x.diff + diffSum l := by
  simp [diffSum]

theorem diffSum_pos {U : Map Blk} (W : World U) {x y : Blk} {l : List Blk} (hp : Path U x l y) (hne : l ≠ [])
    (hx : U x.id = some x) : 0 < diffSum l := by
  cases hp with
  | nil => exact absurd rfl hne
  | cons hpar hrest =>
    rw [diffSum_cons]
    have hn := (parentOf_some hpar).2
    have := W.diffPos _ _ hx (by omega)
    omega

namespace InvC
variable {U : Map Blk} {s : St} {hb : Blk} {C : List Blk}

theorem headId (W : World U) (h : InvC U s hb C) : hb.id = s.head := W.ids _ _ (h.sub _ _ h.headStored)

theorem storeIds (W : World U) (h : InvC U s hb C) : ∀ k x, s.store k = some x → x.id = k :=
  fun k x hx => W.ids _ _ (h.sub _ _ hx)

theorem pathU (h : InvC U s hb C) : Path U hb C s.genesis := h.path.mono h.sub

theorem headU (W : World U) (h : InvC U s hb C) : U hb.id = some hb := by
  rw [h.headId W]; exact h.sub _ _ h.headStored

theorem chainStored (W : World U) (h : InvC U s hb C) : ∀ x ∈ C ++ [s.genesis], s.store x.id = some x := by
  have := h.path.stored_of (h.storeIds W) (by rw [h.headId W]; exact h.headStored)
  intro x hx
  rcases List.mem_append.mp hx with hx | hx
  · exact this.1 x hx
  · simp at hx; subst hx; exact this.2

theorem genStored (W : World U) (h : InvC U s hb C) : s.store s.genesis.id = some s.genesis :=
  h.chainStored W _ (by simp)

theorem chainNumber (h : InvC U s hb C) : ∀ x ∈ C ++ [s.genesis], x.number ≤ hb.number := by
  intro x hx
  rcases List.mem_append.mp hx with hx | hx
  · exact (h.path.mem_number x hx).2
  · simp at hx; subst hx; have := h.path.number; omega

theorem canonHead (h : InvC U s hb C) : s.canon hb.number = some hb.id := by
  rw [h.canon]
  rcases h.path.head_eq with ⟨h1, h2⟩ | ⟨l', h1⟩
  · exact ⟨hb, by rw [h1, h2]; simp, rfl, rfl⟩
  · exact ⟨hb, by rw [h1]; simp, rfl, rfl⟩

theorem canonAbove (h : InvC U s hb C) (n : Nat) (hn : hb.number < n) : s.canon n = none := by
  cases hc : s.canon n with
  | none => rfl
  | some i =>
    obtain ⟨x, hx, hxn, _⟩ := (h.canon n i).mp hc
    have := h.chainNumber x hx
    omega

theorem canonBelow (h : InvC U s hb C) (n : Nat) (hn : n ≤ hb.number) : ∃ x ∈ C ++ [s.genesis], x.number = n := by
  by_cases h0 : n = 0
  · exact ⟨s.genesis, by simp, by rw [h.genNum, h0]⟩
  · obtain ⟨z, hz, hzn⟩ := h.path.cover n (by rw [h.genNum]; omega) hn
    exact ⟨z, List.mem_append_left _ hz, hzn⟩

/-- two blocks of the canonical chain with the same number are the same block -/
theorem chainNumInj (h : InvC U s hb C) : ∀ x ∈ C ++ [s.genesis], ∀ y ∈ C ++ [s.genesis], x.number = y.number → x = y := by
  intro x hx y hy hxy
  have hg := h.genNum
  rcases List.mem_append.mp hx with hx | hx <;> rcases List.mem_append.mp hy with hy | hy
  · exact h.path.num_inj x hx y hy hxy
  · simp at hy; subst hy; have := (h.path.mem_number x hx).1; omega
  · simp at hx; subst hx; have := (h.path.mem_number y hy).1; omega
  · simp at hx hy; rw [hx, hy]

/-- the total difficulty record of any block is its intrinsic value; hence the recurrence -/
theorem tdParent (W : World U) (h : InvC U s hb C) {x p : Blk} {tx tp : Nat} (hx : U x.id = some x)
    (hpar : parentOf U x = some p) (htx : s.td x.id = some tx) (htp : s.td p.id = some tp) : tx = tp + x.diff := by
  obtain ⟨x', lx, hx', hpx, htx'⟩ := h.tdIntr _ _ htx
  obtain ⟨p', lp, hp', hpp, htp'⟩ := h.tdIntr _ _ htp
  rw [hx] at hx'; cases hx'
  have hpU := (parentOf_some hpar).1
  have hpid := W.ids _ _ hpU
  rw [hpid] at hp'
  rw [hpU] at hp'; cases hp'
  have := (Path.cons hpar hpp).det hpx rfl
  rw [← this.1] at htx'
  rw [htx', htp', diffSum_cons]
  omega

/-- a proper ancestor on the canonical chain is strictly lighter than the head -/
theorem tdStrict (W : World U) (h : InvC U s hb C) {x : Blk} (hx : x ∈ C ++ [s.genesis]) (hne : x ≠ hb) {tx th : Nat}
    (htx : s.td x.id = some tx) (hth : s.td hb.id = some th) : tx < th := by
  obtain ⟨x', lx, hx', hpx, htx'⟩ := h.tdIntr _ _ htx
  obtain ⟨b', lb, hb', hpb, hth'⟩ := h.tdIntr _ _ hth
  rw [h.headU W] at hb'; cases hb'
  have hxU : U x.id = some x := h.sub _ _ (h.chainStored W x hx)
  rw [hxU] at hx'; cases hx'
  have hxn := h.chainNumber x hx
  obtain ⟨l1, l2, z, hl, hp1, hp2, hz⟩ := hpb.split x.number (by have := hpx.number; omega) hxn
  -- z is the block of the head's ancestry at x's height: it is x
  have hCz : z = x := by
    obtain ⟨l1', l2', z', hl', hp1', hp2', hz'⟩ := h.pathU.split x.number (by rw [h.genNum]; omega) hxn
    have hzz : z' = z := by
      have := hp1'.det hp1 (by omega)
      exact this.2
    subst hzz
    -- z' ∈ C ++ [genesis]
    have hzmem : z' ∈ C ++ [s.genesis] := by
      rcases hp2'.head_eq with ⟨h1, h2⟩ | ⟨l'', h1⟩
      · rw [h2]; simp
      · rw [hl', h1]; simp
    exact h.chainNumInj z' hzmem x hx hz
  subst hCz
  have := hp2.det hpx rfl
  rw [← this.1] at htx'
  have hne1 : l1 ≠ [] := by
    intro h1
    subst h1
    cases hp1
    exact hne rfl
  have hpos := diffSum_pos W hp1 hne1 (h.headU W)
  rw [hth', htx', hl, diffSum_append]
  omega

/-- the fully validated set is closed under stored ancestry -/
theorem seenAlong (W : World U) (h : InvC U s hb C) {q c : Blk} {l : List Blk} (hp : Path s.store q l c)
    (hs : s.seen q.id = true) (hqU : U q.id = some q) : ∀ x ∈ l, s.seen x.id = true := by
  induction hp with
  | nil x => intro x hx; cases hx
  | cons hpar hrest ih =>
    rename_i x q' l' y
    intro z hz
    rcases List.mem_cons.mp hz with rfl | hz
    · exact hs
    · have hq := (parentOf_some hpar)
      have hqU' := h.sub _ _ hq.1
      have hqid := W.ids _ _ hqU'
      have := h.seenClosed _ _ hs hqU (by omega)
      exact ih (by rw [hqid]; exact this) (by rw [hqid]; exact hqU') z hz

/-- a block reached from the head by parent links lies on the canonical chain, which splits there -/
theorem memOfPath (h : InvC U s hb C) {l : List Blk} {o : Blk} (hp : Path s.store hb l o) :
    o ∈ C ++ [s.genesis] ∧ ∃ R, C = l ++ R ∧ Path s.store o R s.genesis := by
  have hn := hp.number
  obtain ⟨l1, l2, z, hl, hp1, hp2, hz⟩ := h.path.split o.number (by rw [h.genNum]; omega) (by omega)
  have := hp.det hp1 hz.symm
  obtain ⟨h1, h2⟩ := this
  subst h1 h2
  refine ⟨?_, l2, hl, hp2⟩
  rcases hp2.head_eq with ⟨h1, h2⟩ | ⟨l'', h1⟩
  · rw [h2]; simp
  · rw [hl, h1]; simp

/-- a parent walk from the head in any extension of the store is a walk in the store itself -/
theorem pathFromHead (h : InvC U s hb C) {store' : Map Blk} (hext : StoreExt s.store store') {l : List Blk} {o : Blk}
    (hp : Path store' hb l o) : Path s.store hb l o := by
  have hn := hp.number
  obtain ⟨l1, l2, z, hl, hp1, hp2, hz⟩ := h.path.split o.number (by rw [h.genNum]; omega) (by omega)
  have := hp.det (hp1.mono hext) hz.symm
  rw [this.1, this.2]
  exact hp1

end InvC

/-! ### the new-chain lemma -/

/-- Re-establishing the invariant when the head moves to `b`: the old chain is `O ++ R` with `O` the part above the
    common ancestor `c`, the new chain is `N ++ R` (`N` = `b` and its ancestors above `c`).  The hypotheses describe the
    new database in closed form. -/
theorem invC_newchain {U : Map Blk} (W : World U) {s s' : St} {hb : Blk} {C O R N : List Blk} {b c : Blk}
    (h : InvC U s hb C) (hsplit : C = O ++ R) (hO : Path s.store hb O c) (hR : Path s.store c R s.genesis)
    (hbU : U b.id = some b) (hN : Path s.store b N c) (hNne : N ≠ [])
    (hstore : s'.store = upd s.store b.id (some b))
    (hgen : s'.genesis = s.genesis)
    (hc1 : ∀ x ∈ N, s'.canon x.number = some x.id)
    (hc2 : ∀ n, n ≤ c.number → s'.canon n = s.canon n)
    (hc3 : ∀ n, b.number < n → s'.canon n = none)
    (hl1 : ∀ x ∈ N, ∀ j t, x.txs[j]? = some t → s'.lookup t = some ⟨x.id, x.number, j⟩)
    (hl2 : ∀ t, t ∉ N.flatMap (·.txs) → t ∈ O.flatMap (·.txs) → s'.lookup t = none)
    (hl3 : ∀ t, t ∉ N.flatMap (·.txs) → t ∉ O.flatMap (·.txs) → s'.lookup t = s.lookup t)
    (hhead : s'.head = b.id) (hhh : s'.hhead = b.id) (hfh : s'.fhead = b.id)
    (hseen : s'.seen = updB s.seen b.id true)
    (hrc : s'.receipts = updB s.receipts b.id true)
    (hst : s'.hasState = updB s.hasState b.id true)
    (hdisk : ∀ k, s'.onDisk k = true → s.onDisk k = true ∨ k = b.id)
    (hdisk' : ∀ k, s.onDisk k = true → s'.onDisk k = true)
    (hps : s.hasState b.parent = true)
    (htd : ∃ ptd, s.td b.parent = some ptd ∧ s'.td = upd s.td b.id (some (ptd + b.diff))) :
    InvC U s' b (N ++ R) := by
  have hext : StoreExt s.store s'.store := by
    intro k x hx
    rw [hstore]
    by_cases hk : k = b.id
    · subst hk
      have := h.sub _ _ hx
      rw [hbU] at this
      cases this
      simp
    · rw [upd_other _ _ _ _ hk]; exact hx
  have hsub' : StoreExt s'.store U := by
    intro k x hx
    rw [hstore] at hx
    by_cases hk : k = b.id
    · subst hk; simp at hx; subst hx; exact hbU
    · rw [upd_other _ _ _ _ hk] at hx; exact h.sub _ _ hx
  have hpath' : Path s'.store b (N ++ R) s'.genesis := by
    rw [hgen]; exact (hN.mono hext).append (hR.mono hext)
  have hpathU : Path U b (N ++ R) s.genesis := by rw [← hgen]; exact hpath'.mono hsub'
  have hpathOU : Path U hb (O ++ R) s.genesis := by rw [← hsplit]; exact h.pathU
  have hgn := h.genNum
  -- number facts
  have hNnum := hN.mem_number
  have hOnum := hO.mem_number
  have hRnum : ∀ x ∈ R ++ [s.genesis], x.number ≤ c.number := by
    intro x hx
    rcases List.mem_append.mp hx with hx | hx
    · exact (hR.mem_number x hx).2
    · simp at hx; subst hx; have := hR.number; omega
  have hbtop : N = b :: N.tail := by
    rcases hN.head_eq with ⟨h1, _⟩ | ⟨l', h1⟩
    · exact absurd h1 hNne
    · rw [h1]; rfl
  have hbN : b ∈ N := by rw [hbtop]; simp
  have hpb : ∃ p, parentOf s.store b = some p ∧ Path s.store p N.tail c := by
    rw [hbtop] at hN
    cases hN with
    | cons hp hr => exact ⟨_, hp, hr⟩
  obtain ⟨p, hpb, hNtail⟩ := hpb
  have hpid : p.id = b.parent := W.ids _ _ (h.sub _ _ (parentOf_some hpb).1)
  -- every block of N is seen afterwards
  have hseenN : ∀ x ∈ N, s'.seen x.id = true := by
    intro x hx
    rw [hseen]
    rw [hbtop] at hx
    rcases List.mem_cons.mp hx with rfl | hx
    · simp
    · apply updB_true_of
      have hpU : U p.id = some p := by rw [hpid]; exact h.sub _ _ (parentOf_some hpb).1
      exact h.seenAlong W hNtail (h.stateSeen _ (by rw [hpid]; exact hps)) hpU x hx
  obtain ⟨ptd, hptd, htd'⟩ := htd
  refine
    { sub := hsub', headStored := by rw [hhead, hstore]; simp, path := hpath', canon := ?_, lookup := ?_,
      canonSeen := ?_, seenClosed := ?_, stateSeen := ?_, diskState := ?_, seenRcpt := ?_, tdIntr := ?_, storeTd := ?_,
      hheadEq := by rw [hhh, hhead], fheadEq := by rw [hfh, hhead], genNum := by rw [hgen]; exact hgn,
      genTxs := by rw [hgen]; exact h.genTxs, genState := by rw [hgen]; exact hdisk' _ h.genState,
      headState := by rw [hhead, hst]; simp }
  · -- canon
    intro n i
    rw [hgen]
    constructor
    · intro hc
      by_cases h1 : b.number < n
      · rw [hc3 n h1] at hc; cases hc
      · by_cases h2 : c.number < n
        · obtain ⟨x, hx, hxn⟩ := hN.cover n h2 (by omega)
          have := hc1 x hx
          rw [hxn, hc] at this
          cases this
          exact ⟨x, by simp [hx], hxn, rfl⟩
        · rw [hc2 n (by omega)] at hc
          obtain ⟨x, hx, hxn, hxi⟩ := (h.canon n i).mp hc
          rw [hsplit] at hx
          have : x ∈ R ++ [s.genesis] := by
            rcases List.mem_append.mp hx with hx | hx
            · rcases List.mem_append.mp hx with hx | hx
              · have := (hOnum x hx).1; omega
              · exact List.mem_append_left _ hx
            · exact List.mem_append_right _ hx
          exact ⟨x, by simp only [List.append_assoc]; exact List.mem_append_right _ this, hxn, hxi⟩
    · rintro ⟨x, hx, hxn, hxi⟩
      simp only [List.append_assoc] at hx
      rcases List.mem_append.mp hx with hx | hx
      · rw [← hxn, ← hxi]; exact hc1 x hx
      · have hle := hRnum x hx
        rw [hc2 n (by omega), h.canon]
        refine ⟨x, ?_, hxn, hxi⟩
        rw [hsplit]
        simp only [List.append_assoc]
        exact List.mem_append_right _ hx
  · -- lookup
    intro t l
    rw [hgen]
    constructor
    · intro hlk
      by_cases h1 : t ∈ N.flatMap (·.txs)
      · obtain ⟨x, hx, htx⟩ := List.mem_flatMap.mp h1
        obtain ⟨j, hj⟩ := List.mem_iff_getElem?.mp htx
        have := hl1 x hx j t hj
        rw [hlk] at this
        cases this
        exact ⟨x, by simp [hx], rfl, rfl, hj⟩
      · by_cases h2 : t ∈ O.flatMap (·.txs)
        · rw [hl2 t h1 h2] at hlk; cases hlk
        · rw [hl3 t h1 h2] at hlk
          obtain ⟨x, hx, hxi, hxn, hxt⟩ := (h.lookup t l).mp hlk
          rw [hsplit] at hx
          have : x ∈ R ++ [s.genesis] := by
            rcases List.mem_append.mp hx with hx | hx
            · rcases List.mem_append.mp hx with hx | hx
              · exact absurd (List.mem_flatMap.mpr ⟨x, hx, mem_txs_of_getElem? hxt⟩) h2
              · exact List.mem_append_left _ hx
            · exact List.mem_append_right _ hx
          exact ⟨x, by simp only [List.append_assoc]; exact List.mem_append_right _ this, hxi, hxn, hxt⟩
    · rintro ⟨x, hx, hxi, hxn, hxt⟩
      simp only [List.append_assoc] at hx
      rcases List.mem_append.mp hx with hx | hx
      · have := hl1 x hx _ t hxt
        rw [this, hxi, hxn, loc_eta]
      · -- x on the common part: t is neither in the new nor in the old segment
        have hxR : x ∈ R := by
          rcases List.mem_append.mp hx with hx | hx
          · exact hx
          · simp at hx; subst hx; rw [h.genTxs] at hxt; simp at hxt
        have htx := mem_txs_of_getElem? hxt
        have h1 : t ∉ N.flatMap (·.txs) := by
          intro hmem
          obtain ⟨y, hy, hty⟩ := List.mem_flatMap.mp hmem
          exact W.disjoint hbU hpathU hy hxR hty htx
        have h2 : t ∉ O.flatMap (·.txs) := by
          intro hmem
          obtain ⟨y, hy, hty⟩ := List.mem_flatMap.mp hmem
          exact W.disjoint (h.headU W) hpathOU hy hxR hty htx
        rw [hl3 t h1 h2, h.lookup]
        refine ⟨x, ?_, hxi, hxn, hxt⟩
        rw [hsplit]
        simp only [List.append_assoc]
        exact List.mem_append_right _ (List.mem_append_left _ hxR)
  · -- canonSeen
    intro x hx
    rw [hgen] at hx
    simp only [List.append_assoc] at hx
    rcases List.mem_append.mp hx with hx | hx
    · exact hseenN x hx
    · rw [hseen]
      apply updB_true_of
      apply h.canonSeen
      rw [hsplit]
      simp only [List.append_assoc]
      exact List.mem_append_right _ hx
  · -- seenClosed
    intro k x hk hxU hx0
    rw [hseen] at hk ⊢
    by_cases hkb : k = b.id
    · subst hkb
      rw [hbU] at hxU
      cases hxU
      apply updB_true_of
      exact h.stateSeen _ hps
    · rw [updB_other _ _ _ _ hkb] at hk
      exact updB_true_of _ _ _ (h.seenClosed k x hk hxU hx0)
  · -- stateSeen
    intro k hk
    rw [hst] at hk
    rw [hseen]
    by_cases hkb : k = b.id
    · subst hkb; simp
    · rw [updB_other _ _ _ _ hkb] at hk
      exact updB_true_of _ _ _ (h.stateSeen k hk)
  · -- diskState
    intro k hk
    rw [hst]
    rcases hdisk k hk with hk | hk
    · exact updB_true_of _ _ _ (h.diskState k hk)
    · subst hk; simp
  · -- seenRcpt
    intro k hk
    rw [hseen] at hk
    rw [hrc]
    by_cases hkb : k = b.id
    · subst hkb; simp
    · rw [updB_other _ _ _ _ hkb] at hk
      exact updB_true_of _ _ _ (h.seenRcpt k hk)
  · -- tdIntr
    intro k t hk
    rw [htd'] at hk
    rw [hgen]
    by_cases hkb : k = b.id
    · subst hkb
      simp at hk
      obtain ⟨p', lp, hp'U, hpp, htp⟩ := h.tdIntr _ _ hptd
      have hpU : U b.parent = some p := h.sub _ _ (parentOf_some hpb).1
      rw [hpU] at hp'U; cases hp'U
      refine ⟨b, b :: lp, hbU, .cons (parentOf_mono h.sub hpb) hpp, ?_⟩
      rw [diffSum_cons, ← hk, htp]
      omega
    · rw [upd_other _ _ _ _ hkb] at hk
      exact h.tdIntr k t hk
  · -- storeTd
    intro k x hx
    rw [htd']
    by_cases hkb : k = b.id
    · subst hkb; simp
    · rw [hstore, upd_other _ _ _ _ hkb] at hx
      rw [upd_other _ _ _ _ hkb]
      exact h.storeTd k x hx

end Aqv.Chain

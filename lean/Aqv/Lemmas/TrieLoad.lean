/-
  Aqv.Lemmas.TrieLoad — partially loaded tries denote the fully loaded trie they unfold to: the on-demand workers
  (`xget`/`xinsert`/`xdelete`), the hasher and Commit/unload/reopen respect the representation relation `Repr`.
-/
import Aqv.Model.TrieLoad
import Aqv.Lemmas.TrieProof
namespace Aqv.Trie
open Aqv Aqv.Rlp

/-- `Repr H db am r x t`: the partially loaded node `x` stands for the fully loaded node `t` over the node database `db`.
    A hash node stands for `t` when it is `t`'s hash, the database returns `t`'s encoding under it, and the decoded node
    again stands for `t` (`hash`); with `am = true` the database may also simply lack the blob (`gone`).
    `r = true` marks the root position, where a node is hashed whatever its size; elsewhere only nodes whose RLP is
    ≥ 32 bytes are referenced by hash. -/
inductive Repr (H : Bytes → Bytes) (db : Bytes → Option Bytes) (am : Bool) : Bool → PNode → Node → Prop
  | nil (r : Bool) : Repr H db am r .nil .nil
  | value (r : Bool) (v : Bytes) : Repr H db am r (.value v) (.value v)
  | short (r : Bool) (k : List Nib) {x : PNode} {t : Node} : Repr H db am false x t → Repr H db am r (.short k x) (.short k t)
  | full (r : Bool) {xs : Nib → PNode} {ts : Nib → Node} : (∀ i, Repr H db am false (xs i) (ts i)) →
      Repr H db am r (.full xs) (.full ts)
  | hash (r : Bool) {t : Node} : WF t → SizeOk H t → (r = true ∨ 32 ≤ (enc (body H t)).length) →
      db (hashOf H t) = some (enc (body H t)) → Repr H db am false (toP H t) t → Repr H db am r (.hash (hashOf H t)) t
  | gone (r : Bool) {t : Node} : am = true → WF t → (r = true ∨ 32 ≤ (enc (body H t)).length) →
      db (hashOf H t) = none → Repr H db am r (.hash (hashOf H t)) t

theorem Repr.weaken {H : Bytes → Bytes} {db : Bytes → Option Bytes} {am : Bool} {x : PNode} {t : Node}
    (h : Repr H db am false x t) (r : Bool) : Repr H db am r x t := by
  cases h with
  | nil => exact .nil r
  | value _ v => exact .value r v
  | short _ k hc => exact .short r k hc
  | full _ hc => exact .full r hc
  | hash _ hw hs hl hd hr =>
    refine .hash r hw hs (Or.inr ?_) hd hr
    rcases hl with h | h
    · cases h
    · exact h
  | gone _ ha hw hl hd =>
    refine .gone r ha hw (Or.inr ?_) hd
    rcases hl with h | h
    · cases h
    · exact h

def isHashX : PNode → Bool
  | .hash _ => true
  | _ => false

/-- recursion budget needed at node `x` with `k` left. -/
def need (x : PNode) (k : List Nib) : Nat := 2 * k.length + (if isHashX x then 2 else 1)

theorem need_le_xfuel (x : PNode) (k : List Nib) : need x k ≤ xfuel k := by
  unfold need xfuel; split <;> omega

theorem resolve_toP (H : Bytes → Bytes) (hH : ∀ x, (H x).length = 32) (db : Bytes → Option Bytes) {t : Node}
    (hw : WF t) (hs : SizeOk H t) (hd : db (hashOf H t) = some (enc (body H t))) :
    resolveHash db (hashOf H t) = .ok (toP H t) := by
  have hdec := decodeNode_body H hH hw hs ((enc (body H t)).length + 1) [] (by omega)
  rw [List.append_nil] at hdec
  simp [resolveHash, hd, hdec]

theorem toP_not_hash (H : Bytes → Bytes) {t : Node} (h : IsSF t) : isHashX (toP H t) = false := by
  cases t with
  | nil => cases h
  | value _ => cases h
  | short _ _ => rfl
  | full _ => rfl

/-- **get on a partially loaded trie**: the content's answer (and a node that still stands for the same trie), or —
    only when the database lacks a node — the MissingNodeError; never a wrong value, a panic or fuel exhaustion. -/
theorem xget_repr (H : Bytes → Bytes) (hH : ∀ x, (H x).length = 32) (db : Bytes → Option Bytes) (am : Bool)
    {r : Bool} {x : PNode} {t : Node} (hr : Repr H db am r x t) :
    ∀ k f, Pos t k → need x k ≤ f →
      (∃ x', xget db f x k = .ok (lookup t k, x') ∧ Repr H db am r x' t) ∨
      (am = true ∧ ∃ h, xget db f x k = .missing h) := by
  induction hr with
  | nil r =>
    intro k f _ hf
    obtain ⟨g, rfl⟩ : ∃ g, f = g + 1 := ⟨f - 1, by simp [need, isHashX] at hf; omega⟩
    exact Or.inl ⟨.nil, by simp [xget, lookup], .nil r⟩
  | value r v =>
    intro k f hp hf
    obtain ⟨g, rfl⟩ : ∃ g, f = g + 1 := ⟨f - 1, by simp [need, isHashX] at hf; omega⟩
    rcases hp with ⟨_, h | h⟩ | ⟨rfl, _⟩
    · cases h
    · exact absurd h (not_wf_value v)
    · exact Or.inl ⟨.value v, by simp [xget, lookup], .value r v⟩
  | short r p hc ih =>
    rename_i xc tc
    intro k f hp hf
    obtain ⟨g, rfl⟩ : ∃ g, f = g + 1 := ⟨f - 1, by simp [need, isHashX] at hf; omega⟩
    rcases hp with ⟨hk, h | hw⟩ | ⟨_, h | ⟨w, h⟩⟩
    · cases h
    · simp only [xget, lookup_short]
      by_cases ht : k.take p.length = p
      · obtain ⟨rest, rfl⟩ := take_eq_iff.1 ht
        have hpl : 0 < p.length := List.length_pos_iff.2 (wf_short_key_ne_nil hw)
        simp only [List.take_left, if_true, List.drop_left]
        have hneed : need xc rest ≤ g := by
          have hb := need_le_xfuel xc rest
          simp only [xfuel] at hb
          have hf' : 2 * (p ++ rest).length + 1 ≤ g + 1 := by simpa [need, isHashX] using hf
          simp only [List.length_append] at hf'
          omega
        rcases ih rest g (pos_short_child hw hk) hneed with ⟨c', he, hr'⟩ | ⟨ha, h, he⟩
        · exact Or.inl ⟨.short p c', by rw [he], .short r p hr'⟩
        · exact Or.inr ⟨ha, h, by rw [he]; rfl⟩
      · simp only [ht, if_false]
        exact Or.inl ⟨_, rfl, .short r p hc⟩
    · cases h
    · cases h
  | full r hc ih =>
    rename_i xs ts
    intro k f hp hf
    obtain ⟨g, rfl⟩ : ∃ g, f = g + 1 := ⟨f - 1, by simp [need, isHashX] at hf; omega⟩
    rcases hp with ⟨hk, h | hw⟩ | ⟨_, h | ⟨w, h⟩⟩
    · cases h
    · obtain ⟨y, rest, rfl⟩ := List.exists_cons_of_ne_nil (term_ne_nil hk)
      simp only [xget, lookup_full_cons]
      have hneed : need (xs y) rest ≤ g := by
        have hb := need_le_xfuel (xs y) rest
        simp only [xfuel] at hb
        have hf' : 2 * (y :: rest).length + 1 ≤ g + 1 := by simpa [need, isHashX] using hf
        simp only [List.length_cons] at hf'
        omega
      rcases ih y rest g (pos_full_child hw hk) hneed with ⟨c', he, hr'⟩ | ⟨ha, h, he⟩
      · refine Or.inl ⟨.full (setX xs y c'), by rw [he], .full r ?_⟩
        intro i
        by_cases hi : i = y
        · subst hi; simpa [setX] using hr'
        · simpa [setX, hi] using hc i
      · exact Or.inr ⟨ha, h, by rw [he]; rfl⟩
    · cases h
    · cases h
  | hash r hw hs hl hd hc ih =>
    rename_i t
    intro k f hp hf
    obtain ⟨g, rfl⟩ : ∃ g, f = g + 1 := ⟨f - 1, by simp [need, isHashX] at hf; omega⟩
    simp only [xget, resolve_toP H hH db hw hs hd]
    have hneed : need (toP H t) k ≤ g := by
      have hf' : 2 * k.length + 2 ≤ g + 1 := by simpa [need, isHashX] using hf
      simp only [need, toP_not_hash H (wf_isSF hw)]
      simp; omega
    rcases ih k g hp hneed with ⟨x', he, hr'⟩ | ⟨ha, h, he⟩
    · exact Or.inl ⟨x', he, hr'.weaken r⟩
    · exact Or.inr ⟨ha, h, he⟩
  | gone r ha hw hl hd =>
    rename_i t
    intro k f _ hf
    obtain ⟨g, rfl⟩ : ∃ g, f = g + 1 := ⟨f - 1, by simp [need, isHashX] at hf; omega⟩
    exact Or.inr ⟨ha, hashOf H t, by simp [xget, resolveHash, hd, XRes.cast]⟩


theorem Repr.to_false {H : Bytes → Bytes} {db : Bytes → Option Bytes} {am r : Bool} {x : PNode} {t : Node}
    (h : Repr H db am r x t) (hx : isHashX x = false) : Repr H db am false x t := by
  cases h with
  | nil => exact .nil _
  | value _ v => exact .value _ v
  | short _ k hc => exact .short _ k hc
  | full _ hc => exact .full _ hc
  | hash => simp [isHashX] at hx
  | gone => simp [isHashX] at hx

theorem repr_insertNil {H : Bytes → Bytes} {db : Bytes → Option Bytes} {am : Bool} {x : PNode} {t : Node}
    (h : Repr H db am false x t) (k : List Nib) : Repr H db am false (insertNilX k x) (insertNil k t) := by
  unfold insertNilX insertNil
  split
  · exact h
  · exact .short _ k h

theorem repr_setX {H : Bytes → Bytes} {db : Bytes → Option Bytes} {am : Bool} {xs : Nib → PNode} {ts : Nib → Node}
    (h : ∀ i, Repr H db am false (xs i) (ts i)) (j : Nib) {x : PNode} {t : Node} (hx : Repr H db am false x t) :
    ∀ i, Repr H db am false (setX xs j x i) (setChild ts j t i) := by
  intro i
  by_cases hi : i = j
  · subst hi; simpa [setX, setChild] using hx
  · simpa [setX, setChild, hi] using h i

theorem repr_empty {H : Bytes → Bytes} {db : Bytes → Option Bytes} {am : Bool} :
    ∀ i, Repr H db am false (emptyX i) (emptyCs i) := fun _ => .nil _

/-- **insert on a partially loaded trie**: same dirty flag as on the fully loaded trie, and the new node stands for the
    updated trie; or (only with a lacking database) the MissingNodeError. -/
theorem xinsert_repr (H : Bytes → Bytes) (hH : ∀ x, (H x).length = 32) (db : Bytes → Option Bytes) (am : Bool)
    {r : Bool} {x : PNode} {t : Node} (hr : Repr H db am r x t) :
    ∀ k f v, Pos t k → need x k ≤ f →
      (∃ d x', insert t k v = some (d, ins t k v) ∧ xinsert db f x k v = .ok (d, x') ∧
        Repr H db am false x' (ins t k v)) ∨
      (am = true ∧ ∃ h, xinsert db f x k v = .missing h) := by
  induction hr with
  | nil r =>
    intro k f v _ hf
    obtain ⟨g, rfl⟩ : ∃ g, f = g + 1 := ⟨f - 1, by simp [need, isHashX] at hf; omega⟩
    cases k with
    | nil => exact Or.inl ⟨true, .value v, by simp [insert, ins], by simp [xinsert], .value _ v⟩
    | cons y rest => exact Or.inl ⟨true, _, by simp [insert, ins], by simp [xinsert], .short _ _ (.value _ v)⟩
  | value r w =>
    intro k f v hp hf
    obtain ⟨g, rfl⟩ : ∃ g, f = g + 1 := ⟨f - 1, by simp [need, isHashX] at hf; omega⟩
    rcases hp with ⟨_, h | h⟩ | ⟨rfl, _⟩
    · cases h
    · exact absurd h (not_wf_value w)
    · exact Or.inl ⟨w != v, .value v, by simp [insert, ins], by simp [xinsert], .value _ v⟩
  | short r p hc ih =>
    rename_i xc tc
    intro k f v hp hf
    obtain ⟨g, rfl⟩ : ∃ g, f = g + 1 := ⟨f - 1, by simp [need, isHashX] at hf; omega⟩
    rcases hp with ⟨hk, h | hw⟩ | ⟨_, h | ⟨w, h⟩⟩
    · cases h
    · obtain ⟨y, rest, rfl⟩ := List.exists_cons_of_ne_nil (term_ne_nil hk)
      obtain ⟨cp, ka, kb, e1, e2, e3, e4⟩ := prefixLen_decomp (y :: rest) p
      simp only [insert, ins, xinsert]
      by_cases hm : prefixLen (y :: rest) p = p.length
      · simp only [hm, if_true]
        have hkb : kb = [] := by
          have : cp.length = (cp ++ kb).length := by rw [← e2, ← e3, hm]
          simp at this; exact this
        subst hkb
        simp at e2
        subst e2
        rw [e1] at hk
        have hdrop : List.drop p.length (y :: rest) = ka := by rw [e1]; simp
        have hpl : 0 < p.length := List.length_pos_iff.2 (wf_short_key_ne_nil hw)
        have hneed : need xc ka ≤ g := by
          have hb := need_le_xfuel xc ka
          simp only [xfuel] at hb
          have hf' : 2 * (y :: rest).length + 1 ≤ g + 1 := by simpa [need, isHashX] using hf
          rw [e1] at hf'
          simp only [List.length_append] at hf'
          omega
        rw [hdrop]
        rcases ih ka g v (pos_short_child hw hk) hneed with ⟨d, c', hi, he, hr'⟩ | ⟨ha, h, he⟩
        · rw [hi, he]
          cases d with
          | true => exact Or.inl ⟨true, .short p c', by simp, by simp, .short _ p hr'⟩
          | false =>
            have hsame := insert_fst_false _ _ _ _ hi
            refine Or.inl ⟨false, .short p xc, by simp [hsame], by simp, ?_⟩
            rw [hsame]; exact .short _ p hc
        · exact Or.inr ⟨ha, h, by rw [he]; rfl⟩
      · simp only [hm, if_false]
        have hkb : kb ≠ [] := by
          intro e; subst e; simp at e2; subst e2; exact hm e3
        have hka : ka ≠ [] := by
          intro e; subst e; simp at e1
          rw [e1] at hk
          exact hkb (short_key_not_extends hw hk e2)
        obtain ⟨b, kb', rfl⟩ := List.exists_cons_of_ne_nil hkb
        obtain ⟨a, ka', rfl⟩ := List.exists_cons_of_ne_nil hka
        have h1 : p[prefixLen (y :: rest) p]? = some b := by rw [e3, e2]; simp
        have h2 : (y :: rest)[prefixLen (y :: rest) p]? = some a := by rw [e3, e1]; simp
        rw [h1, h2]
        simp only []
        have hbr : Repr H db am false
            (.full (setX (setX emptyX b (insertNilX (List.drop (prefixLen (y :: rest) p + 1) p) xc)) a
              (insertNilX (List.drop (prefixLen (y :: rest) p + 1) (y :: rest)) (.value v))))
            (.full (setChild (setChild emptyCs b (insertNil (List.drop (prefixLen (y :: rest) p + 1) p) tc)) a
              (insertNil (List.drop (prefixLen (y :: rest) p + 1) (y :: rest)) (.value v)))) :=
          .full _ (repr_setX (repr_setX repr_empty b (repr_insertNil hc _)) a (repr_insertNil (.value _ v) _))
        split
        · exact Or.inl ⟨true, _, rfl, rfl, hbr⟩
        · exact Or.inl ⟨true, _, rfl, rfl, .short _ _ hbr⟩
    · cases h
    · cases h
  | full r hc ih =>
    rename_i xs ts
    intro k f v hp hf
    obtain ⟨g, rfl⟩ : ∃ g, f = g + 1 := ⟨f - 1, by simp [need, isHashX] at hf; omega⟩
    rcases hp with ⟨hk, h | hw⟩ | ⟨_, h | ⟨w, h⟩⟩
    · cases h
    · obtain ⟨y, rest, rfl⟩ := List.exists_cons_of_ne_nil (term_ne_nil hk)
      simp only [insert, ins, xinsert]
      have hneed : need (xs y) rest ≤ g := by
        have hb := need_le_xfuel (xs y) rest
        simp only [xfuel] at hb
        have hf' : 2 * (y :: rest).length + 1 ≤ g + 1 := by simpa [need, isHashX] using hf
        simp only [List.length_cons] at hf'
        omega
      rcases ih y rest g v (pos_full_child hw hk) hneed with ⟨d, c', hi, he, hr'⟩ | ⟨ha, h, he⟩
      · rw [hi, he]
        cases d with
        | true => exact Or.inl ⟨true, .full (setX xs y c'), by simp, by simp, .full _ (repr_setX hc y hr')⟩
        | false =>
          have hsame := insert_fst_false _ _ _ _ hi
          refine Or.inl ⟨false, .full xs, by simp [hsame, setChild_self], by simp, ?_⟩
          rw [hsame, setChild_self]; exact .full _ hc
      · exact Or.inr ⟨ha, h, by rw [he]; rfl⟩
    · cases h
    · cases h
  | hash r hw hs hl hd hc ih =>
    rename_i t
    intro k f v hp hf
    obtain ⟨g, rfl⟩ : ∃ g, f = g + 1 := ⟨f - 1, by simp [need, isHashX] at hf; omega⟩
    have hk : Term k := by
      rcases hp with ⟨hk, _⟩ | ⟨_, h | ⟨w, h⟩⟩
      · exact hk
      · subst h; exact absurd hw not_wf_nil
      · subst h; exact absurd hw (not_wf_value w)
    obtain ⟨y, rest, rfl⟩ := List.exists_cons_of_ne_nil (term_ne_nil hk)
    simp only [xinsert, resolve_toP H hH db hw hs hd]
    have hneed : need (toP H t) (y :: rest) ≤ g := by
      have hf' : 2 * (y :: rest).length + 2 ≤ g + 1 := by simpa [need, isHashX] using hf
      simp only [need, toP_not_hash H (wf_isSF hw)]
      simp at hf' ⊢; omega
    rcases ih (y :: rest) g v hp hneed with ⟨d, x', hi, he, hr'⟩ | ⟨ha, h, he⟩
    · rw [he]
      cases d with
      | true => exact Or.inl ⟨true, x', hi, by simp, hr'⟩
      | false =>
        have hsame := insert_fst_false _ _ _ _ hi
        refine Or.inl ⟨false, toP H t, hi, by simp, ?_⟩
        rw [hsame]; exact hc
    · exact Or.inr ⟨ha, h, by rw [he]; rfl⟩
  | gone r ha hw hl hd =>
    rename_i t
    intro k f v hp hf
    obtain ⟨g, rfl⟩ : ∃ g, f = g + 1 := ⟨f - 1, by simp [need, isHashX] at hf; omega⟩
    have hk : Term k := by
      rcases hp with ⟨hk, _⟩ | ⟨_, h | ⟨w, h⟩⟩
      · exact hk
      · subst h; exact absurd hw not_wf_nil
      · subst h; exact absurd hw (not_wf_value w)
    obtain ⟨y, rest, rfl⟩ := List.exists_cons_of_ne_nil (term_ne_nil hk)
    exact Or.inr ⟨ha, hashOf H t, by simp [xinsert, resolveHash, hd, XRes.cast]⟩


theorem repr_isNil {H : Bytes → Bytes} {db : Bytes → Option Bytes} {am r : Bool} {x : PNode} {t : Node}
    (h : Repr H db am r x t) : x.isNil = t.isNil := by
  cases h with
  | nil => rfl
  | value => rfl
  | short => rfl
  | full => rfl
  | hash _ hw => cases hw <;> rfl
  | gone _ _ hw => cases hw <;> rfl

theorem onlyChildX_eq {H : Bytes → Bytes} {db : Bytes → Option Bytes} {am : Bool} {xs : Nib → PNode} {ts : Nib → Node}
    (h : ∀ i, Repr H db am false (xs i) (ts i)) : onlyChildX xs = onlyChild ts := by
  unfold onlyChildX onlyChild
  have : (fun i => !(xs i).isNil) = (fun i => !(ts i).isNil) := by
    funext i; rw [repr_isNil (h i)]
  rw [this]
  cases hl : List.filter (fun i => !(ts i).isNil) (List.finRange 17) with
  | nil => rfl
  | cons a l => cases l <;> rfl

theorem xcollapse_repr (H : Bytes → Bytes) (hH : ∀ x, (H x).length = 32) (db : Bytes → Option Bytes) (am : Bool)
    {xs : Nib → PNode} {ts : Nib → Node} (h : ∀ i, Repr H db am false (xs i) (ts i)) :
    (∃ x', xcollapse db xs = .ok x' ∧ Repr H db am false x' (collapse ts) ∧ isHashX x' = false) ∨
    (am = true ∧ ∃ hh, xcollapse db xs = .missing hh) := by
  unfold xcollapse collapse
  rw [onlyChildX_eq h]
  cases onlyChild ts with
  | none => exact Or.inl ⟨_, rfl, .full _ h, rfl⟩
  | some pos =>
    simp only []
    by_cases hp : pos = T
    · simp only [hp, ne_eq, not_true_eq_false, if_false]
      exact Or.inl ⟨_, rfl, .short _ _ (h T), rfl⟩
    · simp only [ne_eq, hp, not_false_eq_true, if_true]
      have hpos := h pos
      generalize hts : ts pos = m at hpos ⊢
      generalize hxs : xs pos = xp at hpos ⊢
      cases hpos with
      | nil => exact Or.inl ⟨_, by simp [resolveX], .short _ _ (.nil _), rfl⟩
      | value _ w => exact Or.inl ⟨_, by simp [resolveX], .short _ _ (.value _ w), rfl⟩
      | short _ ck hc => exact Or.inl ⟨_, by simp [resolveX], .short _ _ hc, rfl⟩
      | full _ hc => exact Or.inl ⟨_, by simp [resolveX], .short _ _ (.full _ hc), rfl⟩
      | hash _ hw hs hl hd hc =>
        simp only [resolveX, resolve_toP H hH db hw hs hd]
        cases m with
        | nil => exact absurd hw not_wf_nil
        | value w => exact absurd hw (not_wf_value w)
        | short ck c =>
          simp only [toP] at hc ⊢
          cases hc with
          | short _ _ hcc => exact Or.inl ⟨_, rfl, .short _ _ hcc, rfl⟩
        | full cs =>
          simp only [toP]
          exact Or.inl ⟨_, rfl, .short _ _ (.hash _ hw hs hl hd hc), rfl⟩
      | gone _ ha hw hl hd =>
        exact Or.inr ⟨ha, hashOf H m, by simp [resolveX, resolveHash, hd, XRes.cast]⟩



theorem delete_full_dirty {cs : Nib → Node} {y : Nib} {rest : List Nib} {nn : Node}
    (h : delete (cs y) rest = some (true, nn)) :
    delete (.full cs) (y :: rest) = some (true, collapse (setChild cs y nn)) := by
  simp only [delete, h, collapse, Bool.not_true, Bool.false_eq_true, ↓reduceIte]
  cases onlyChild (setChild cs y nn) with
  | none => rfl
  | some pos =>
    simp only []
    by_cases hp : pos = T
    · simp [hp]
    · simp only [ne_eq, hp, not_false_eq_true, ↓reduceIte]
      cases setChild cs y nn pos <;> rfl

/-- **delete on a partially loaded trie**. -/
theorem xdelete_repr (H : Bytes → Bytes) (hH : ∀ x, (H x).length = 32) (db : Bytes → Option Bytes) (am : Bool)
    {r : Bool} {x : PNode} {t : Node} (hr : Repr H db am r x t) :
    ∀ k f, Pos t k → need x k ≤ f →
      (∃ d x', delete t k = some (d, del t k) ∧ xdelete db f x k = .ok (d, x') ∧
        Repr H db am false x' (del t k) ∧ isHashX x' = false) ∨
      (am = true ∧ ∃ h, xdelete db f x k = .missing h) := by
  induction hr with
  | nil r =>
    intro k f _ hf
    obtain ⟨g, rfl⟩ : ∃ g, f = g + 1 := ⟨f - 1, by simp [need, isHashX] at hf; omega⟩
    exact Or.inl ⟨false, .nil, by simp [delete, del], by simp [xdelete], .nil _, rfl⟩
  | value r w =>
    intro k f _ hf
    obtain ⟨g, rfl⟩ : ∃ g, f = g + 1 := ⟨f - 1, by simp [need, isHashX] at hf; omega⟩
    exact Or.inl ⟨true, .nil, by simp [delete, del], by simp [xdelete], .nil _, rfl⟩
  | short r p hc ih =>
    rename_i xc tc
    intro k f hp hf
    obtain ⟨g, rfl⟩ : ∃ g, f = g + 1 := ⟨f - 1, by simp [need, isHashX] at hf; omega⟩
    rcases hp with ⟨hk, h | hw⟩ | ⟨_, h | ⟨w, h⟩⟩
    · cases h
    · simp only [delete, del, xdelete]
      by_cases hlt : prefixLen k p < p.length
      · simp only [hlt, if_true]
        exact Or.inl ⟨false, _, rfl, rfl, .short _ p hc, rfl⟩
      · simp only [hlt, if_false]
        by_cases hm : prefixLen k p = k.length
        · simp only [hm, if_true]
          exact Or.inl ⟨true, _, rfl, rfl, .nil _, rfl⟩
        · simp only [hm, if_false]
          obtain ⟨cp, ka, kb, e1, e2, e3, _⟩ := prefixLen_decomp k p
          have hle := prefixLen_le_right k p
          have hkb : kb = [] := by
            have : cp.length = (cp ++ kb).length := by rw [← e2, ← e3]; omega
            simp at this; exact this
          subst hkb
          simp at e2
          subst e2
          have hdrop : List.drop p.length k = ka := by rw [e1]; simp
          rw [hdrop]
          rw [e1] at hk
          have hpl : 0 < p.length := List.length_pos_iff.2 (wf_short_key_ne_nil hw)
          have hneed : need xc ka ≤ g := by
            have hb := need_le_xfuel xc ka
            simp only [xfuel] at hb
            have hf' : 2 * k.length + 1 ≤ g + 1 := by simpa [need, isHashX] using hf
            rw [e1] at hf'
            simp only [List.length_append] at hf'
            omega
          rcases ih ka g (pos_short_child hw hk) hneed with ⟨d, c', hi, he, hr', hnh⟩ | ⟨ha, h, he⟩
          · rw [hi, he]
            cases d with
            | false =>
              have hsame := delete_fst_false _ _ _ hi
              have : mergeShort p tc = .short p tc := by
                rcases wf_short_inv hw with ⟨_, v, _, rfl⟩ | ⟨_, _, cs, rfl, _⟩ <;> rfl
              refine Or.inl ⟨false, .short p xc, by simp [hsame, this], by simp, ?_, rfl⟩
              rw [hsame, this]; exact .short _ p hc
            | true =>
              simp only [Bool.not_true, Bool.false_eq_true, if_false]
              generalize del tc ka = dt at hr' ⊢
              cases hr' with
              | nil => exact Or.inl ⟨true, _, by simp [mergeShort], rfl, by simpa [mergeShort] using Repr.short _ p (.nil _), rfl⟩
              | value _ v => exact Or.inl ⟨true, _, by simp [mergeShort], rfl, by simpa [mergeShort] using Repr.short _ p (.value _ v), rfl⟩
              | short _ ck hcc => exact Or.inl ⟨true, _, by simp [mergeShort], rfl, by simpa [mergeShort] using Repr.short _ (p ++ ck) hcc, rfl⟩
              | full _ hcc => exact Or.inl ⟨true, _, by simp [mergeShort], rfl, by simpa [mergeShort] using Repr.short _ p (.full _ hcc), rfl⟩
              | hash => simp [isHashX] at hnh
              | gone => simp [isHashX] at hnh
          · exact Or.inr ⟨ha, h, by rw [he]; rfl⟩
    · cases h
    · cases h
  | full r hc ih =>
    rename_i xs ts
    intro k f hp hf
    obtain ⟨g, rfl⟩ : ∃ g, f = g + 1 := ⟨f - 1, by simp [need, isHashX] at hf; omega⟩
    rcases hp with ⟨hk, h | hw⟩ | ⟨_, h | ⟨w, h⟩⟩
    · cases h
    · obtain ⟨y, rest, rfl⟩ := List.exists_cons_of_ne_nil (term_ne_nil hk)
      have hdel : del (.full ts) (y :: rest) = collapse (setChild ts y (del (ts y) rest)) := by simp [del]
      rw [hdel]
      simp only [xdelete]
      have hneed : need (xs y) rest ≤ g := by
        have hb := need_le_xfuel (xs y) rest
        simp only [xfuel] at hb
        have hf' : 2 * (y :: rest).length + 1 ≤ g + 1 := by simpa [need, isHashX] using hf
        simp only [List.length_cons] at hf'
        omega
      rcases ih y rest g (pos_full_child hw hk) hneed with ⟨d, c', hi, he, hr', _⟩ | ⟨ha, h, he⟩
      · rw [he]
        cases d with
        | false =>
          have hsame := delete_fst_false _ _ _ hi
          refine Or.inl ⟨false, .full xs, ?_, by simp, ?_, rfl⟩
          · simp [delete, hi, hsame, setChild_self, collapse_wf_full hw]
          · rw [hsame, setChild_self, collapse_wf_full hw]; exact .full _ hc
        | true =>
          simp only [Bool.not_true, Bool.false_eq_true, if_false]
          rcases xcollapse_repr H hH db am (repr_setX hc y hr') with ⟨x', hx, hrx, hnh⟩ | ⟨ha, h, hx⟩
          · rw [hx]; exact Or.inl ⟨true, x', delete_full_dirty hi, rfl, hrx, hnh⟩
          · exact Or.inr ⟨ha, h, by rw [hx]; rfl⟩
      · exact Or.inr ⟨ha, h, by rw [he]; rfl⟩
    · cases h
    · cases h
  | hash r hw hs hl hd hc ih =>
    rename_i t
    intro k f hp hf
    obtain ⟨g, rfl⟩ : ∃ g, f = g + 1 := ⟨f - 1, by simp [need, isHashX] at hf; omega⟩
    simp only [xdelete, resolve_toP H hH db hw hs hd]
    have hneed : need (toP H t) k ≤ g := by
      have hf' : 2 * k.length + 2 ≤ g + 1 := by simpa [need, isHashX] using hf
      simp only [need, toP_not_hash H (wf_isSF hw)]
      simp; omega
    rcases ih k g hp hneed with ⟨d, x', hi, he, hr', hnh⟩ | ⟨ha, h, he⟩
    · rw [he]
      cases d with
      | true => exact Or.inl ⟨true, x', hi, by simp, hr', hnh⟩
      | false =>
        have hsame := delete_fst_false _ _ _ hi
        refine Or.inl ⟨false, toP H t, hi, by simp, ?_, toP_not_hash H (wf_isSF hw)⟩
        rw [hsame]; exact hc
    · exact Or.inr ⟨ha, h, by rw [he]; rfl⟩
  | gone r ha hw hl hd =>
    rename_i t
    intro k f _ hf
    obtain ⟨g, rfl⟩ : ∃ g, f = g + 1 := ⟨f - 1, by simp [need, isHashX] at hf; omega⟩
    exact Or.inr ⟨ha, hashOf H t, by simp [xdelete, resolveHash, hd, XRes.cast]⟩



/-! ### hashing a partially loaded trie -/

theorem refX_repr (H : Bytes → Bytes) (db : Bytes → Option Bytes) (am : Bool) {r : Bool} {x : PNode} {t : Node}
    (hr : Repr H db am r x t) :
    (r = false → refX H x = ref H t) ∧ (isHashX x = false → bodyX H x = body H t) := by
  induction hr with
  | nil r => exact ⟨fun _ => rfl, fun _ => rfl⟩
  | value r v => exact ⟨fun _ => rfl, fun _ => rfl⟩
  | short r k hc ih =>
    rename_i xc tc
    have h1 := ih.1 rfl
    have hb : bodyX H (.short k xc) = body H (.short k tc) := by simp only [bodyX, body, h1]
    refine ⟨fun _ => ?_, fun _ => hb⟩
    show wrap H (bodyX H (.short k xc)) = wrap H (body H (.short k tc))
    rw [hb]
  | full r hc ih =>
    rename_i xs ts
    have h1 : ∀ i, refX H (xs i) = ref H (ts i) := fun i => (ih i).1 rfl
    have hb : bodyX H (.full xs) = body H (.full ts) := by simp only [bodyX, body, h1]
    refine ⟨fun _ => ?_, fun _ => hb⟩
    show wrap H (bodyX H (.full xs)) = wrap H (body H (.full ts))
    rw [hb]
  | hash r hw hs hl hd hc ih =>
    rename_i t
    refine ⟨fun hr => ?_, fun h => by simp [isHashX] at h⟩
    have hlen : 32 ≤ (enc (body H t)).length := by
      rcases hl with h | h
      · rw [hr] at h; cases h
      · exact h
    rw [ref_sf H (wf_isSF hw)]
    simp [refX, wrap, hashOf, Nat.not_lt.2 hlen]
  | gone r ha hw hl hd =>
    rename_i t
    refine ⟨fun hr => ?_, fun h => by simp [isHashX] at h⟩
    have hlen : 32 ≤ (enc (body H t)).length := by
      rcases hl with h | h
      · rw [hr] at h; cases h
      · exact h
    rw [ref_sf H (wf_isSF hw)]
    simp [refX, wrap, hashOf, Nat.not_lt.2 hlen]

/-- **Hash on a partially loaded trie** is the root of the trie it stands for. -/
theorem hashRootX_repr (H : Bytes → Bytes) (db : Bytes → Option Bytes) (am : Bool) {r : Bool} {x : PNode} {t : Node}
    (hr : Repr H db am r x t) : hashRootX H x = hashRoot H t := by
  cases hx : isHashX x with
  | false =>
    have := (refX_repr H db am hr).2 hx
    cases x with
    | hash _ => simp [isHashX] at hx
    | nil => simp only [hashRootX, hashRoot, this]
    | value _ => simp only [hashRootX, hashRoot, this]
    | short _ _ => simp only [hashRootX, hashRoot, this]
    | full _ => simp only [hashRootX, hashRoot, this]
  | true =>
    cases hr with
    | hash => rfl
    | gone => rfl
    | nil => simp [isHashX] at hx
    | value => simp [isHashX] at hx
    | short => simp [isHashX] at hx
    | full => simp [isHashX] at hx

/-! ### growing the database, stored subtrees, unloading -/

theorem Repr.mono {H : Bytes → Bytes} {db db' : Bytes → Option Bytes} {r : Bool} {x : PNode} {t : Node}
    (h : Repr H db false r x t) (hsub : ∀ k b, db k = some b → db' k = some b) : Repr H db' false r x t := by
  induction h with
  | nil r => exact .nil r
  | value r v => exact .value r v
  | short r k _ ih => exact .short r k ih
  | full r _ ih => exact .full r ih
  | hash r hw hs hl hd _ ih => exact .hash r hw hs hl (hsub _ _ hd) ih
  | gone r ha => cases ha

theorem storedX_short {H : Bytes → Bytes} {db : Bytes → Option Bytes} {k : List Nib} {c : PNode}
    (h : StoredX H db (.short k c)) : StoredX H db c := by
  intro kv hkv
  apply h
  simp only [storeList, List.mem_append]
  exact Or.inr hkv

theorem storedX_full {H : Bytes → Bytes} {db : Bytes → Option Bytes} {cs : Nib → PNode}
    (h : StoredX H db (.full cs)) (i : Nib) : StoredX H db (cs i) := by
  intro kv hkv
  apply h
  simp only [storeList, List.mem_append, List.mem_flatMap]
  exact Or.inr ⟨i, List.mem_finRange i, hkv⟩

theorem wf_sub_short {k : List Nib} {c : Node} (hw : WF (.short k c)) : c = .nil ∨ (∃ v, c = .value v) ∨ WF c :=
  slot_short_child hw

/-- a stored (clean) loaded subtree can be replaced, child by child, by the references the hasher would write:
    the result still stands for the same trie. -/
theorem refP_repr (H : Bytes → Bytes) (db db' : Bytes → Option Bytes) (hsub : ∀ k b, db k = some b → db' k = some b)
    {r : Bool} {x : PNode} {t : Node} (hr : Repr H db false r x t) :
    Slot t → SizeOk H t → StoredX H db' x →
      Repr H db' false false (refP H t) t ∧ (IsSF t → Repr H db' false false (toP H t) t) := by
  induction hr with
  | nil r => intro _ _ _; exact ⟨.nil _, fun h => by cases h⟩
  | value r v => intro _ _ _; exact ⟨.value _ v, fun h => by cases h⟩
  | short r k hc ih =>
    rename_i xc tc
    intro hsl hs hst
    have hw : WF (.short k tc) := by
      rcases hsl with h | ⟨v, h⟩ | h
      · cases h
      · cases h
      · exact h
    have hch := (ih (slot_short_child hw) (sizeOk_short hs) (storedX_short hst)).1
    have htop : Repr H db' false false (toP H (.short k tc)) (.short k tc) := .short _ k hch
    refine ⟨?_, fun _ => htop⟩
    by_cases he : (enc (body H (.short k tc))).length < 32
    · rw [refP_sf_embedded H (wf_isSF hw) he]; exact htop
    · rw [refP_sf_hashed H (wf_isSF hw) he]
      have hb : bodyX H (.short k xc) = body H (.short k tc) :=
        (refX_repr H db false (Repr.short false k hc)).2 rfl
      refine .hash _ hw hs (Or.inr (by omega)) ?_ htop
      have := hst (H (enc (bodyX H (.short k xc))), enc (bodyX H (.short k xc))) (by
        simp only [storeList, List.mem_append]
        left
        rw [hb, if_pos (by omega)]
        simp)
      simpa [hb, hashOf] using this
  | full r hc ih =>
    rename_i xs ts
    intro hsl hs hst
    have hw : WF (.full ts) := by
      rcases hsl with h | ⟨v, h⟩ | h
      · cases h
      · cases h
      · exact h
    have hch : ∀ i, Repr H db' false false (refP H (ts i)) (ts i) :=
      fun i => (ih i (slot_full_child hw i) (sizeOk_full hs i) (storedX_full hst i)).1
    have htop : Repr H db' false false (toP H (.full ts)) (.full ts) := .full _ hch
    refine ⟨?_, fun _ => htop⟩
    by_cases he : (enc (body H (.full ts))).length < 32
    · rw [refP_sf_embedded H (wf_isSF hw) he]; exact htop
    · rw [refP_sf_hashed H (wf_isSF hw) he]
      have hb : bodyX H (.full xs) = body H (.full ts) :=
        (refX_repr H db false (Repr.full false hc)).2 rfl
      refine .hash _ hw hs (Or.inr (by omega)) ?_ htop
      have := hst (H (enc (bodyX H (.full xs))), enc (bodyX H (.full xs))) (by
        simp only [storeList, List.mem_append]
        left
        rw [hb, if_pos (by omega)]
        simp)
      simpa [hb, hashOf] using this
  | hash r hw hs hl hd hc ih =>
    rename_i t
    intro _ _ _
    have htop : Repr H db' false false (toP H t) t := hc.mono hsub
    refine ⟨?_, fun _ => htop⟩
    by_cases he : (enc (body H t)).length < 32
    · rw [refP_sf_embedded H (wf_isSF hw) he]; exact htop
    · rw [refP_sf_hashed H (wf_isSF hw) he]
      exact .hash _ hw hs (Or.inr (by omega)) (hsub _ _ hd) htop
  | gone r ha => cases ha



theorem repr_sfx {H : Bytes → Bytes} {db : Bytes → Option Bytes} {am r : Bool} {x : PNode} {t : Node}
    (h : Repr H db am r x t) (hx : isSFX x = true) : IsSF t ∧ isHashX x = false := by
  cases h with
  | nil => simp [isSFX] at hx
  | value => simp [isSFX] at hx
  | short => exact ⟨trivial, rfl⟩
  | full => exact ⟨trivial, rfl⟩
  | hash => simp [isSFX] at hx
  | gone => simp [isSFX] at hx

theorem slot_wf_of_sf {t : Node} (hs : Slot t) (h : IsSF t) : WF t := by
  rcases hs with rfl | ⟨v, rfl⟩ | hw
  · cases h
  · cases h
  · exact hw

/-- **Unloading is invisible**: replacing any clean loaded subtree by its hash node leaves the denoted trie unchanged. -/
theorem unload_repr (H : Bytes → Bytes) (db : Bytes → Option Bytes) {r : Bool} {x x' : PNode}
    (hu : Unload H db r x x') : ∀ {t : Node}, Repr H db false r x t → Slot t → SizeOk H t → Repr H db false r x' t := by
  induction hu with
  | here r x hsf hl hd hst =>
    intro t hr hsl hs
    obtain ⟨htsf, hnh⟩ := repr_sfx hr hsf
    have hw := slot_wf_of_sf hsl htsf
    have hb := (refX_repr H db false hr).2 hnh
    have htop := (refP_repr H db db (fun _ _ h => h) hr hsl hs hst).2 htsf
    rw [hb] at hl hd ⊢
    exact .hash r hw hs hl hd htop
  | short r k hu ih =>
    intro t hr hsl hs
    cases hr with
    | short _ _ hc =>
      have hw := slot_wf_of_sf hsl trivial
      exact .short r k (ih hc (slot_short_child hw) (sizeOk_short hs))
  | full r i hu ih =>
    rename_i cs c'
    intro t hr hsl hs
    cases hr with
    | full _ hc =>
      rename_i ts
      have hw := slot_wf_of_sf hsl trivial
      refine .full r ?_
      intro j
      by_cases hj : j = i
      · subst hj
        simpa [setX] using ih (hc j) (slot_full_child hw j) (sizeOk_full hs j)
      · simpa [setX, hj] using hc j

/-! ### Commit -/

theorem foldl_dbInsert (L : List (Bytes × Bytes)) : ∀ (db : Bytes → Option Bytes),
    (∀ k b, db k = some b → (L.foldl dbInsert db) k = some b) ∧
    (∀ k b, (L.foldl dbInsert db) k = some b → db k = some b ∨ (k, b) ∈ L) ∧
    (∀ kv ∈ L, ∃ b, (L.foldl dbInsert db) kv.1 = some b) := by
  induction L with
  | nil => intro db; exact ⟨fun _ _ h => h, fun _ _ h => Or.inl h, fun kv h => by cases h⟩
  | cons e L ih =>
    intro db
    obtain ⟨i1, i2, i3⟩ := ih (dbInsert db e)
    have hkeep : ∀ k b, db k = some b → dbInsert db e k = some b := by
      intro k b h; simp [dbInsert, h]
    refine ⟨fun k b h => i1 k b (hkeep k b h), ?_, ?_⟩
    · intro k b h
      rcases i2 k b h with h' | h'
      · unfold dbInsert at h'
        cases hd : db k with
        | some b' => rw [hd] at h'; simp at h'; subst h'; exact Or.inl rfl
        | none =>
          rw [hd] at h'
          simp only at h'
          split at h'
          · next hk =>
            simp at h'
            right; subst hk; subst h'
            exact List.mem_cons_self ..
          · cases h'
      · exact Or.inr (List.mem_cons_of_mem _ h')
    · intro kv hkv
      cases hkv with
      | head =>
        have : ∃ b, dbInsert db e e.1 = some b := by
          unfold dbInsert
          cases hd : db e.1 with
          | some b' => exact ⟨b', rfl⟩
          | none => exact ⟨e.2, by simp⟩
        obtain ⟨b, hb⟩ := this
        exact ⟨b, i1 _ _ hb⟩
      | tail _ h => exact i3 kv h

/-- what `Commit` stores are (hash, encoding) pairs of genuine nodes of the denoted trie. -/
theorem storeList_sub (H : Bytes → Bytes) (db : Bytes → Option Bytes) {r : Bool} {x : PNode} {t : Node}
    (hr : Repr H db false r x t) : Slot t →
    ∀ kv ∈ storeList H x, ∃ m, Sub m t ∧ WF m ∧ kv = (hashOf H m, enc (body H m)) := by
  induction hr with
  | nil r => intro _ kv h; simp [storeList] at h
  | value r v => intro _ kv h; simp [storeList] at h
  | short r k hc ih =>
    rename_i xc tc
    intro hsl kv hkv
    have hw := slot_wf_of_sf hsl trivial
    have hb : bodyX H (.short k xc) = body H (.short k tc) := (refX_repr H db false (Repr.short false k hc)).2 rfl
    simp only [storeList, List.mem_append] at hkv
    rcases hkv with h | h
    · rw [hb] at h
      split at h
      · simp only [List.mem_singleton] at h
        exact ⟨_, Sub.refl _, hw, by rw [h]; rfl⟩
      · cases h
    · obtain ⟨m, hm, hmw, he⟩ := ih (slot_short_child hw) kv h
      exact ⟨m, Sub.short k hm, hmw, he⟩
  | full r hc ih =>
    rename_i xs ts
    intro hsl kv hkv
    have hw := slot_wf_of_sf hsl trivial
    have hb : bodyX H (.full xs) = body H (.full ts) := (refX_repr H db false (Repr.full false hc)).2 rfl
    simp only [storeList, List.mem_append, List.mem_flatMap] at hkv
    rcases hkv with h | ⟨i, _, h⟩
    · rw [hb] at h
      split at h
      · simp only [List.mem_singleton] at h
        exact ⟨_, Sub.refl _, hw, by rw [h]; rfl⟩
      · cases h
    · obtain ⟨m, hm, hmw, he⟩ := ih i (slot_full_child hw i) kv h
      exact ⟨m, Sub.full i hm, hmw, he⟩
  | hash r => intro _ kv h; simp [storeList] at h
  | gone r ha => cases ha

/-- **Commit**: under collision-freedom of `H` between the nodes of the trie (`CFp`) and against what the database
    already holds under their hashes (`hold`), after `Commit` the database extends the old one, every loaded node is
    stored (clean), and the root is stored under the root hash. -/
theorem commit_stored (H : Bytes → Bytes) (db : Bytes → Option Bytes) {r : Bool} {x : PNode} {t : Node}
    (hr : Repr H db false r x t) (hsl : Slot t) (hsf : isSFX x = true)
    (hold : ∀ m, Sub m t → WF m → ∀ b, db (hashOf H m) = some b → b = enc (body H m))
    (hcf : CFp H t t) :
    (∀ k b, db k = some b → commitDb H db x k = some b) ∧ StoredX H (commitDb H db x) x ∧
      commitDb H db x (H (enc (bodyX H x))) = some (enc (bodyX H x)) ∧
      (∀ k b, commitDb H db x k = some b → db k = some b ∨ ∃ m, Sub m t ∧ WF m ∧ k = hashOf H m ∧ b = enc (body H m)) := by
  obtain ⟨htsf, hnh⟩ := repr_sfx hr hsf
  have hw := slot_wf_of_sf hsl htsf
  have hb := (refX_repr H db false hr).2 hnh
  have hcd : commitDb H db x = ((H (enc (bodyX H x)), enc (bodyX H x)) :: storeList H x).foldl dbInsert db := by
    cases x with
    | nil => simp [isSFX] at hsf
    | value _ => simp [isSFX] at hsf
    | hash _ => simp [isSFX] at hsf
    | short _ _ => rfl
    | full _ => rfl
  obtain ⟨f1, f2, f3⟩ := foldl_dbInsert ((H (enc (bodyX H x)), enc (bodyX H x)) :: storeList H x) db
  rw [← hcd] at f1 f2 f3
  have hgen : ∀ kv ∈ (H (enc (bodyX H x)), enc (bodyX H x)) :: storeList H x,
      ∃ m, Sub m t ∧ WF m ∧ kv = (hashOf H m, enc (body H m)) := by
    intro kv hkv
    cases hkv with
    | head => exact ⟨t, Sub.refl t, hw, by rw [hb]; rfl⟩
    | tail _ h => exact storeList_sub H db hr hsl kv h
  have hall : ∀ kv ∈ (H (enc (bodyX H x)), enc (bodyX H x)) :: storeList H x, commitDb H db x kv.1 = some kv.2 := by
    intro kv hkv
    obtain ⟨m, hm, hmw, rfl⟩ := hgen kv hkv
    obtain ⟨b, hbb⟩ := f3 _ hkv
    rcases f2 _ _ hbb with h | h
    · rw [hbb, hold m hm hmw b h]
    · obtain ⟨m', hm', hmw', he⟩ := hgen _ h
      simp only [Prod.mk.injEq] at he
      rw [hbb, he.2, ← hcf m m' hm hm' hmw hmw' he.1]
  refine ⟨f1, fun kv hkv => hall kv (List.mem_cons_of_mem _ hkv), hall _ (List.mem_cons_self ..), ?_⟩
  intro k b hkb
  rcases f2 k b hkb with h | h
  · exact Or.inl h
  · obtain ⟨m, hm, hmw, he⟩ := hgen _ h
    simp only [Prod.mk.injEq] at he
    exact Or.inr ⟨m, hm, hmw, he.1, he.2⟩

/-- **Commit then reopen** in the partial-load model: after `Commit`, the bare root hash node over the new database
    stands for the same trie (and so does every intermediate unloading). -/
theorem commit_reopen_repr (H : Bytes → Bytes) (db : Bytes → Option Bytes) {r : Bool} {x : PNode} {t : Node}
    (hr : Repr H db false r x t) (hsl : Slot t) (hs : SizeOk H t) (hsf : isSFX x = true)
    (hold : ∀ m, Sub m t → WF m → ∀ b, db (hashOf H m) = some b → b = enc (body H m))
    (hcf : CFp H t t) :
    Repr H (commitDb H db x) false true x t ∧ Repr H (commitDb H db x) false true (.hash (hashRootX H x)) t := by
  obtain ⟨c1, c2, c3, _⟩ := commit_stored H db hr hsl hsf hold hcf
  have hr' : Repr H (commitDb H db x) false true x t := ((hr.mono c1).to_false (repr_sfx hr hsf).2).weaken true
  refine ⟨hr', ?_⟩
  have hrx : hashRootX H x = H (enc (bodyX H x)) := by
    cases x with
    | nil => simp [isSFX] at hsf
    | value _ => simp [isSFX] at hsf
    | hash _ => simp [isSFX] at hsf
    | short _ _ => rfl
    | full _ => rfl
  rw [hrx]
  exact unload_repr H _ (Unload.here true x hsf (Or.inl rfl) c3 c2) hr' hsl hs



/-! ### histories over partially loaded states -/

/-- a canonical node of some trie the history passes through. -/
def HistNode (ops : List Op) (m : Node) : Prop := ∃ pre t, pre <+: ops ∧ run pre = some t ∧ Sub m t ∧ WF m

/-- `H` is collision-free on the (finitely many) nodes of the tries this history passes through. -/
def CFHist (H : Bytes → Bytes) (ops : List Op) : Prop :=
  ∀ m₁ m₂, HistNode ops m₁ → HistNode ops m₂ → hashOf H m₁ = hashOf H m₂ → enc (body H m₁) = enc (body H m₂)

/-- every trie the history passes through has RLP sizes below 2^64. -/
def SzHist (H : Bytes → Bytes) (ops : List Op) : Prop := ∀ pre t, pre <+: ops → run pre = some t → SizeOk H t

/-- everything in the database is the encoding of a node of the history, under its hash. -/
def DbGen (H : Bytes → Bytes) (ops : List Op) (db : Bytes → Option Bytes) : Prop :=
  ∀ h b, db h = some b → ∃ m, HistNode ops m ∧ h = hashOf H m ∧ b = enc (body H m)

theorem histNode_mono {ops : List Op} (op : Op) {m : Node} (h : HistNode ops m) : HistNode (ops ++ [op]) m := by
  obtain ⟨pre, t, hp, hr, hs, hw⟩ := h
  exact ⟨pre, t, hp.trans (List.prefix_append _ _), hr, hs, hw⟩

theorem cfHist_mono {H : Bytes → Bytes} {ops : List Op} (op : Op) (h : CFHist H (ops ++ [op])) : CFHist H ops :=
  fun m₁ m₂ h₁ h₂ => h m₁ m₂ (histNode_mono op h₁) (histNode_mono op h₂)

theorem szHist_mono {H : Bytes → Bytes} {ops : List Op} (op : Op) (h : SzHist H (ops ++ [op])) : SzHist H ops :=
  fun pre t hp hr => h pre t (hp.trans (List.prefix_append _ _)) hr

theorem dbGen_mono {H : Bytes → Bytes} {ops : List Op} (op : Op) {db : Bytes → Option Bytes} (h : DbGen H ops db) :
    DbGen H (ops ++ [op]) db := by
  intro hh b hd
  obtain ⟨m, hm, e1, e2⟩ := h hh b hd
  exact ⟨m, histNode_mono op hm, e1, e2⟩

theorem runFrom_append (t : Node) (a b : List Op) :
    runFrom t (a ++ b) = (runFrom t a).bind fun t' => runFrom t' b := by
  induction a generalizing t with
  | nil => simp [runFrom]
  | cons op a ih =>
    simp only [List.cons_append, runFrom]
    cases step t op with
    | none => simp
    | some t' => simp [ih]

theorem run_snoc (ops : List Op) (op : Op) : run (ops ++ [op]) = (run ops).bind fun t => step t op := by
  unfold run
  rw [runFrom_append]
  cases runFrom .nil ops with
  | none => rfl
  | some t =>
    simp only [Option.bind_some, runFrom]
    cases step t op <;> rfl

theorem absFrom_append (m : Bytes → Option Bytes) (a b : List Op) : absFrom m (a ++ b) = absFrom (absFrom m a) b := by
  induction a generalizing m with
  | nil => rfl
  | cons op a ih => simp [absFrom, ih]

theorem absOf_snoc (ops : List Op) (op : Op) : absOf (ops ++ [op]) = absStep (absOf ops) op := by
  unfold absOf
  rw [absFrom_append]
  rfl

theorem slot_of_wfroot {t : Node} (h : WFRoot t) : Slot t := by
  rcases h with rfl | h
  · exact Or.inl rfl
  · exact Or.inr (Or.inr h)

/-- the state invariant of partially loaded histories. -/
structure XInv (H : Bytes → Bytes) (ops : List Op) (s : XState) (t : Node) : Prop where
  run : Trie.run ops = some t
  inv : Inv t (absOf ops)
  repr : Repr H s.db false true s.root t
  gen : DbGen H ops s.db

theorem xinv_other {H : Bytes → Bytes} {ops : List Op} {s s' : XState} {t : Node} (h : XInv H ops s t)
    (hr : Repr H s'.db false true s'.root t) (hg : DbGen H (ops ++ [.other]) s'.db) : XInv H (ops ++ [.other]) s' t := by
  refine ⟨?_, ?_, hr, hg⟩
  · rw [run_snoc, h.run]; rfl
  · rw [absOf_snoc]; exact h.inv

/-- **Every reachable partially loaded state stands for the canonical trie of the history's content**, whatever
    Hash / Commit / unloading / reopen steps were interleaved — under collision-freedom of `H` on the nodes of the tries
    the history passes through (needed at `Commit`: the database keeps the first blob stored under a hash). -/
theorem reach_xinv (H : Bytes → Bytes) (hH : ∀ x, (H x).length = 32) {ops : List Op} {s : XState}
    (hr : Reach H ops s) : CFHist H ops → SzHist H ops → ∃ t, XInv H ops s t := by
  induction hr with
  | init =>
    intro _ _
    exact ⟨.nil, rfl, inv_empty, .nil _, fun h b hd => by cases hd⟩
  | insert k v d n hprev hv hx ih =>
    rename_i ops s
    intro hcf hsz
    obtain ⟨t, hi⟩ := ih (cfHist_mono _ hcf) (szHist_mono _ hsz)
    have hv' : v ≠ [] := by intro e; subst e; simp at hv
    obtain ⟨d', hins, hinv⟩ := inv_insert hi.inv k v hv'
    have hpos := pos_of_wfroot hi.inv.wf (term_keybytesToHex k)
    rcases xinsert_repr H hH s.db false hi.repr (keybytesToHex k) _ v hpos (need_le_xfuel _ _) with
      ⟨d₂, x', _, hx', hr'⟩ | ⟨ha, _⟩
    · rw [hx] at hx'
      simp only [XRes.ok.injEq, Prod.mk.injEq] at hx'
      obtain ⟨_, rfl⟩ := hx'
      refine ⟨ins t (keybytesToHex k) v, ?_, ?_, hr'.weaken true, dbGen_mono _ hi.gen⟩
      · rw [run_snoc, hi.run]; simp [step, tryUpdate, hv, hins]
      · rw [absOf_snoc]; simpa [absStep, hv] using hinv
    · cases ha
  | updateEmpty k v d n hprev hv hx ih =>
    rename_i ops s
    intro hcf hsz
    obtain ⟨t, hi⟩ := ih (cfHist_mono _ hcf) (szHist_mono _ hsz)
    obtain ⟨d', hdel, hinv⟩ := inv_delete hi.inv k
    have hpos := pos_of_wfroot hi.inv.wf (term_keybytesToHex k)
    rcases xdelete_repr H hH s.db false hi.repr (keybytesToHex k) _ hpos (need_le_xfuel _ _) with
      ⟨d₂, x', _, hx', hr', _⟩ | ⟨ha, _⟩
    · rw [hx] at hx'
      simp only [XRes.ok.injEq, Prod.mk.injEq] at hx'
      obtain ⟨_, rfl⟩ := hx'
      refine ⟨del t (keybytesToHex k), ?_, ?_, hr'.weaken true, dbGen_mono _ hi.gen⟩
      · rw [run_snoc, hi.run]; simp [step, tryUpdate, hv, hdel]
      · rw [absOf_snoc]; simpa [absStep, hv] using hinv
    · cases ha
  | delete k d n hprev hx ih =>
    rename_i ops s
    intro hcf hsz
    obtain ⟨t, hi⟩ := ih (cfHist_mono _ hcf) (szHist_mono _ hsz)
    obtain ⟨d', hdel, hinv⟩ := inv_delete hi.inv k
    have hpos := pos_of_wfroot hi.inv.wf (term_keybytesToHex k)
    rcases xdelete_repr H hH s.db false hi.repr (keybytesToHex k) _ hpos (need_le_xfuel _ _) with
      ⟨d₂, x', _, hx', hr', _⟩ | ⟨ha, _⟩
    · rw [hx] at hx'
      simp only [XRes.ok.injEq, Prod.mk.injEq] at hx'
      obtain ⟨_, rfl⟩ := hx'
      refine ⟨del t (keybytesToHex k), ?_, ?_, hr'.weaken true, dbGen_mono _ hi.gen⟩
      · rw [run_snoc, hi.run]; simp [step, tryDelete, hdel]
      · rw [absOf_snoc]; simpa [absStep] using hinv
    · cases ha
  | get k v n hprev hx ih =>
    rename_i ops s
    intro hcf hsz
    obtain ⟨t, hi⟩ := ih (cfHist_mono _ hcf) (szHist_mono _ hsz)
    have hpos := pos_of_wfroot hi.inv.wf (term_keybytesToHex k)
    rcases xget_repr H hH s.db false hi.repr (keybytesToHex k) _ hpos (need_le_xfuel _ _) with ⟨x', hx', hr'⟩ | ⟨ha, _⟩
    · rw [hx] at hx'
      simp only [XRes.ok.injEq, Prod.mk.injEq] at hx'
      obtain ⟨_, rfl⟩ := hx'
      exact ⟨t, xinv_other hi hr' (dbGen_mono _ hi.gen)⟩
    · cases ha
  | commit hprev ih =>
    rename_i ops s
    intro hcf hsz
    obtain ⟨t, hi⟩ := ih (cfHist_mono _ hcf) (szHist_mono _ hsz)
    by_cases hsf : isSFX s.root = true
    · have hsl := slot_of_wfroot hi.inv.wf
      have hnode : ∀ m, Sub m t → WF m → HistNode ops m := fun m hm hw => ⟨ops, t, List.prefix_refl _, hi.run, hm, hw⟩
      have hold : ∀ m, Sub m t → WF m → ∀ b, s.db (hashOf H m) = some b → b = enc (body H m) := by
        intro m hm hw b hd
        obtain ⟨m', hm', e1, e2⟩ := hi.gen _ _ hd
        rw [e2]
        exact (cfHist_mono _ hcf m m' (hnode m hm hw) hm' e1).symm
      have hcfp : CFp H t t := fun m₁ m₂ h₁ h₂ w₁ w₂ e => cfHist_mono _ hcf m₁ m₂ (hnode m₁ h₁ w₁) (hnode m₂ h₂ w₂) e
      obtain ⟨c1, _, _, c4⟩ := commit_stored H s.db hi.repr hsl hsf hold hcfp
      refine ⟨t, xinv_other hi (hi.repr.mono c1) ?_⟩
      intro h b hd
      rcases c4 h b hd with h' | ⟨m, hm, hw, e1, e2⟩
      · exact dbGen_mono _ hi.gen h b h'
      · exact ⟨m, histNode_mono _ (hnode m hm hw), e1, e2⟩
    · have : commitDb H s.db s.root = s.db := by
        cases hroot : s.root with
        | nil => rfl
        | value _ => rfl
        | hash _ => rfl
        | short _ _ => rw [hroot] at hsf; simp [isSFX] at hsf
        | full _ => rw [hroot] at hsf; simp [isSFX] at hsf
      refine ⟨t, xinv_other hi ?_ ?_⟩
      · show Repr H (commitDb H s.db s.root) false true s.root t
        rw [this]; exact hi.repr
      · show DbGen H _ (commitDb H s.db s.root)
        rw [this]; exact dbGen_mono _ hi.gen
  | unload x' hprev hu ih =>
    rename_i ops s
    intro hcf hsz
    obtain ⟨t, hi⟩ := ih (cfHist_mono _ hcf) (szHist_mono _ hsz)
    have hs : SizeOk H t := szHist_mono _ hsz ops t (List.prefix_refl _) hi.run
    exact ⟨t, xinv_other hi (unload_repr H s.db hu hi.repr (slot_of_wfroot hi.inv.wf) hs) (dbGen_mono _ hi.gen)⟩


end Aqv.Trie

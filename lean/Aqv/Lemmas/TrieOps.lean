/-
  Aqv.Lemmas.TrieOps — the Go-shaped workers agree with their functional reading on every position reachable from
  the public API (no panic, dirty flag irrelevant); `get` agrees with the denotation `lookup`; `ins`/`del` preserve the
  canonical shape and update the denotation like a finite map.
-/
import Aqv.Lemmas.Trie
namespace Aqv.Trie
open Aqv

theorem insert_fst_false (n : Node) : ∀ (k : List Nib) (v : Bytes) (n' : Node), insert n k v = some (false, n') → n' = n := by
  induction n with
  | nil =>
    intro k v n' h
    cases k <;> simp [insert] at h
  | value w =>
    intro k v n' h
    cases k with
    | nil =>
      simp [insert] at h
      rw [← h.2, h.1]
    | cons x r => simp [insert] at h
  | short nk c ih =>
    intro k v n' h
    cases k with
    | nil => simp [insert] at h
    | cons x r =>
      simp only [insert] at h
      split at h
      · split at h
        · cases h
        · next d nn hh =>
          split at h
          · cases h
          · simp at h; exact h.symm
      · split at h
        · split at h <;> cases h
        · cases h
  | full cs ih =>
    intro k v n' h
    cases k with
    | nil => simp [insert] at h
    | cons x r =>
      simp only [insert] at h
      split at h
      · cases h
      · split at h
        · cases h
        · simp at h; exact h.symm

theorem not_wf_nil : ¬ WF .nil := by intro h; cases h
theorem not_wf_value (v : Bytes) : ¬ WF (.value v) := by intro h; cases h

theorem wf_short_inv {k : List Nib} {c : Node} (h : WF (.short k c)) :
    (Term k ∧ ∃ v, v ≠ [] ∧ c = .value v) ∨ (k ≠ [] ∧ Hex k ∧ ∃ cs, c = .full cs ∧ WF (.full cs)) := by
  cases h with
  | leaf _ v hk hv => exact Or.inl ⟨hk, v, hv, rfl⟩
  | ext _ cs hk hh hw => exact Or.inr ⟨hk, hh, cs, rfl, hw⟩

theorem wf_full_inv {cs : Nib → Node} (h : WF (.full cs)) :
    (∀ i, i ≠ T → cs i ≠ .nil → WF (cs i)) ∧ (cs T = .nil ∨ ∃ v, v ≠ [] ∧ cs T = .value v) ∧
      (∃ i j, i ≠ j ∧ cs i ≠ .nil ∧ cs j ≠ .nil) := by
  cases h with
  | full _ h1 h2 h3 => exact ⟨h1, h2, h3⟩

/-- a (sub)position reached by the workers from the public API: a canonical subtrie with a terminated key left,
    or the value slot with nothing left. -/
def Pos (n : Node) (k : List Nib) : Prop :=
  (Term k ∧ (n = .nil ∨ WF n)) ∨ (k = [] ∧ (n = .nil ∨ ∃ w, n = .value w))

theorem pos_full_child {cs : Nib → Node} {x : Nib} {r : List Nib} (hw : WF (.full cs)) (hk : Term (x :: r)) :
    Pos (cs x) r := by
  obtain ⟨h1, h2, _⟩ := wf_full_inv hw
  rcases term_cons.1 hk with ⟨rfl, rfl⟩ | ⟨_, hx, ht⟩
  · right
    refine ⟨rfl, ?_⟩
    rcases h2 with h | ⟨v, _, h⟩
    · exact Or.inl h
    · exact Or.inr ⟨v, h⟩
  · left
    refine ⟨ht, ?_⟩
    by_cases hc : cs x = .nil
    · exact Or.inl hc
    · exact Or.inr (h1 x hx hc)

/-- in a canonical short node reached with a terminated key that covers the node key, the child position is again
    a `Pos`. -/
theorem pos_short_child {nk rest : List Nib} {c : Node} (hw : WF (.short nk c)) (hk : Term (nk ++ rest)) :
    Pos c rest := by
  rcases wf_short_inv hw with ⟨hnk, v, _, rfl⟩ | ⟨_, hh, cs, rfl, hwf⟩
  · right
    exact ⟨term_prefix_eq hnk hk, Or.inr ⟨v, rfl⟩⟩
  · left
    have hr : rest ≠ [] := by
      intro e; subst e
      simp at hk
      exact term_not_hex hk hh
    exact ⟨(term_split hk hr).2, Or.inr hwf⟩

/-- a terminated key is never a proper prefix of a canonical short node's key. -/
theorem short_key_not_extends {nk key kb : List Nib} {c : Node} (hw : WF (.short nk c)) (hk : Term key)
    (e : nk = key ++ kb) : kb = [] := by
  rcases wf_short_inv hw with ⟨hnk, _⟩ | ⟨_, hh, _⟩
  · subst e; exact term_prefix_eq hk hnk
  · subst e
    exact absurd (hex_append.1 hh).1 (term_not_hex hk)

theorem insert_spec (n : Node) : ∀ (k : List Nib) (v : Bytes), Pos n k → ∃ d, insert n k v = some (d, ins n k v) := by
  induction n with
  | nil =>
    intro k v _
    cases k <;> exact ⟨true, by simp [insert, ins]⟩
  | value w =>
    intro k v hp
    rcases hp with ⟨_, h | h⟩ | ⟨rfl, _⟩
    · cases h
    · exact absurd h (not_wf_value w)
    · exact ⟨w != v, by simp [insert, ins]⟩
  | short nk c ih =>
    intro k v hp
    rcases hp with ⟨hk, h | hw⟩ | ⟨_, h | ⟨w, h⟩⟩
    · cases h
    · cases k with
      | nil => exact absurd hk (by simp [Term])
      | cons x r =>
        obtain ⟨cp, ka, kb, e1, e2, e3, e4⟩ := prefixLen_decomp (x :: r) nk
        simp only [insert, ins]
        by_cases hm : prefixLen (x :: r) nk = nk.length
        · simp only [hm, if_true]
          have hkb : kb = [] := by
            have : cp.length = (cp ++ kb).length := by rw [← e2, ← e3, hm]
            simp at this; exact this
          subst hkb
          simp at e2
          subst e2
          rw [e1] at hk
          have hdrop : List.drop nk.length (x :: r) = ka := by rw [e1]; simp
          obtain ⟨d, hd⟩ := ih (List.drop nk.length (x :: r)) v (by rw [hdrop]; exact pos_short_child hw hk)
          rw [hd]
          cases d with
          | true => exact ⟨true, by simp⟩
          | false =>
            have := insert_fst_false _ _ _ _ hd
            exact ⟨false, by simp [this]⟩
        · simp only [hm, if_false]
          have hkb : kb ≠ [] := by
            intro e; subst e; simp at e2; subst e2; exact hm e3
          have hka : ka ≠ [] := by
            intro e; subst e; simp at e1
            rw [e1] at hk
            exact hkb (short_key_not_extends hw hk e2)
          obtain ⟨b, kb', rfl⟩ := List.exists_cons_of_ne_nil hkb
          obtain ⟨a, ka', rfl⟩ := List.exists_cons_of_ne_nil hka
          have h1 : nk[prefixLen (x :: r) nk]? = some b := by rw [e3, e2]; simp
          have h2 : (x :: r)[prefixLen (x :: r) nk]? = some a := by rw [e3, e1]; simp
          rw [h1, h2]
          simp only []
          split
          · exact ⟨true, rfl⟩
          · exact ⟨true, rfl⟩
    · cases h
    · cases h
  | full cs ih =>
    intro k v hp
    rcases hp with ⟨hk, h | hw⟩ | ⟨_, h | ⟨w, h⟩⟩
    · cases h
    · cases k with
      | nil => exact absurd hk (by simp [Term])
      | cons x r =>
        simp only [insert, ins]
        obtain ⟨d, hd⟩ := ih x r v (pos_full_child hw hk)
        rw [hd]
        cases d with
        | true => exact ⟨true, by simp⟩
        | false =>
          have := insert_fst_false _ _ _ _ hd
          exact ⟨false, by simp [this, setChild_self]⟩
    · cases h
    · cases h


theorem delete_fst_false (n : Node) : ∀ (k : List Nib) (n' : Node), delete n k = some (false, n') → n' = n := by
  induction n with
  | nil => intro k n' h; simp [delete] at h; exact h.symm
  | value w => intro k n' h; simp [delete] at h
  | short nk c ih =>
    intro k n' h
    simp only [delete] at h
    split at h
    · simp at h; exact h.symm
    · split at h
      · simp at h
      · split at h
        · cases h
        · split at h
          · simp at h; exact h.symm
          · split at h <;> simp at h
  | full cs ih =>
    intro k n' h
    cases k with
    | nil => simp [delete] at h
    | cons x r =>
      simp only [delete] at h
      split at h
      · cases h
      · split at h
        · simp at h; exact h.symm
        · split at h
          · split at h
            · split at h <;> simp at h
            · simp at h
          · simp at h

theorem collapse_wf_full {cs : Nib → Node} (hw : WF (.full cs)) : collapse cs = .full cs := by
  obtain ⟨_, _, i, j, hij, hi, hj⟩ := wf_full_inv hw
  simp [collapse, onlyChild_none_of_two hij hi hj]

theorem delete_spec (n : Node) : ∀ (k : List Nib), Pos n k → ∃ d, delete n k = some (d, del n k) := by
  induction n with
  | nil => intro k _; exact ⟨false, by simp [delete, del]⟩
  | value w => intro k _; exact ⟨true, by simp [delete, del]⟩
  | short nk c ih =>
    intro k hp
    rcases hp with ⟨hk, h | hw⟩ | ⟨_, h | ⟨w, h⟩⟩
    · cases h
    · simp only [delete, del]
      split
      · exact ⟨false, rfl⟩
      · next hlt =>
        split
        · exact ⟨true, rfl⟩
        · obtain ⟨cp, ka, kb, e1, e2, e3, _⟩ := prefixLen_decomp k nk
          have hle := prefixLen_le_right k nk
          have hkb : kb = [] := by
            have : cp.length = (cp ++ kb).length := by rw [← e2, ← e3]; omega
            simp at this; exact this
          subst hkb
          simp at e2
          subst e2
          have hdrop : List.drop nk.length k = ka := by rw [e1]; simp
          rw [hdrop]
          rw [e1] at hk
          obtain ⟨d, hd⟩ := ih ka (pos_short_child hw hk)
          rw [hd]
          cases d with
          | false =>
            have hc := delete_fst_false _ _ _ hd
            refine ⟨false, ?_⟩
            simp only [hc]
            rcases wf_short_inv hw with ⟨_, v, _, rfl⟩ | ⟨_, _, cs, rfl, _⟩ <;> simp [mergeShort]
          | true =>
            refine ⟨true, ?_⟩
            simp only [mergeShort]
            cases del c ka <;> simp
    · cases h
    · cases h
  | full cs ih =>
    intro k hp
    rcases hp with ⟨hk, h | hw⟩ | ⟨_, h | ⟨w, h⟩⟩
    · cases h
    · cases k with
      | nil => exact absurd hk (by simp [Term])
      | cons x r =>
        simp only [delete, del]
        obtain ⟨d, hd⟩ := ih x r (pos_full_child hw hk)
        rw [hd]
        cases d with
        | false =>
          have hc := delete_fst_false _ _ _ hd
          refine ⟨false, ?_⟩
          simp [hc, setChild_self, collapse_wf_full hw]
        | true =>
          refine ⟨true, ?_⟩
          simp only [collapse, Bool.not_true, Bool.false_eq_true, ↓reduceIte]
          cases onlyChild (setChild cs x (del (cs x) r)) with
          | none => rfl
          | some pos =>
            simp only []
            by_cases hp : pos = T
            · simp [hp]
            · simp only [ne_eq, hp, not_false_eq_true, ↓reduceIte]
              cases setChild cs x (del (cs x) r) pos <;> rfl
    · cases h
    · cases h


theorem take_eq_iff {p k : List Nib} : k.take p.length = p ↔ ∃ r, k = p ++ r := by
  constructor
  · intro h
    refine ⟨k.drop p.length, ?_⟩
    have := (List.take_append_drop p.length k).symm
    rw [h] at this
    exact this
  · rintro ⟨r, rfl⟩; simp

theorem lookup_nil (k : List Nib) : lookup .nil k = none := by simp [lookup]

theorem lookup_value (v : Bytes) (k : List Nib) : lookup (.value v) k = if k = [] then some v else none := by
  simp [lookup]

theorem lookup_short_append (p : List Nib) (c : Node) (r : List Nib) : lookup (.short p c) (p ++ r) = lookup c r := by
  simp [lookup]

theorem lookup_short_none {p : List Nib} {c : Node} {k : List Nib} (h : ¬ ∃ r, k = p ++ r) : lookup (.short p c) k = none := by
  simp only [lookup]
  rw [if_neg]
  intro e; exact h (take_eq_iff.1 e)

theorem lookup_short (p : List Nib) (c : Node) (k : List Nib) :
    lookup (.short p c) k = if k.take p.length = p then lookup c (k.drop p.length) else none := by
  simp [lookup]

theorem lookup_full_cons (cs : Nib → Node) (x : Nib) (k : List Nib) : lookup (.full cs) (x :: k) = lookup (cs x) k := by
  simp [lookup]

theorem lookup_full_nil (cs : Nib → Node) : lookup (.full cs) [] = none := by simp [lookup]

theorem lookup_insertNil (p : List Nib) (n : Node) (k : List Nib) :
    lookup (insertNil p n) k = if k.take p.length = p then lookup n (k.drop p.length) else none := by
  unfold insertNil
  split
  · next h => subst h; simp
  · simp [lookup]

theorem get_eq_lookup (n : Node) : ∀ k, Pos n k → get n k = some (lookup n k) := by
  induction n with
  | nil => intro k _; simp [get, lookup]
  | value w =>
    intro k hp
    rcases hp with ⟨_, h | h⟩ | ⟨rfl, _⟩
    · cases h
    · exact absurd h (not_wf_value w)
    · simp [get, lookup]
  | short nk c ih =>
    intro k hp
    rcases hp with ⟨hk, h | hw⟩ | ⟨_, h | ⟨w, h⟩⟩
    · cases h
    · simp only [get, lookup]
      split
      · next ht =>
        obtain ⟨r, rfl⟩ := take_eq_iff.1 ht
        simp only [List.drop_left]
        exact ih r (pos_short_child hw hk)
      · rfl
    · cases h
    · cases h
  | full cs ih =>
    intro k hp
    rcases hp with ⟨hk, h | hw⟩ | ⟨_, h | ⟨w, h⟩⟩
    · cases h
    · cases k with
      | nil => exact absurd hk (by simp [Term])
      | cons x r =>
        simp only [get, lookup]
        exact ih x r (pos_full_child hw hk)
    · cases h
    · cases h



theorem leaf_lookup (k : List Nib) (v : Bytes) (k' : List Nib) :
    lookup (.short k (.value v)) k' = if k' = k then some v else none := by
  rw [lookup_short]
  by_cases h : k' = k
  · subst h; simp [lookup]
  · rw [if_neg h]
    split
    · next ht =>
      obtain ⟨d, rfl⟩ := take_eq_iff.1 ht
      have : d ≠ [] := by intro e; subst e; simp at h
      simp [lookup, this]
    · rfl

theorem insertNil_value_lookup (k : List Nib) (v : Bytes) (k' : List Nib) :
    lookup (insertNil k (.value v)) k' = if k' = k then some v else none := by
  unfold insertNil
  split
  · next h => subst h; simp [lookup]
  · exact leaf_lookup k v k'

theorem lookup_short_append_both (cp q : List Nib) (c : Node) (d : List Nib) :
    lookup (.short (cp ++ q) c) (cp ++ d) = lookup (.short q c) d := by
  simp only [lookup_short, List.length_append]
  have h1 : List.take (cp.length + q.length) (cp ++ d) = cp ++ List.take q.length d := by
    rw [List.take_append]; simp [List.take_of_length_le]
  have h2 : List.drop (cp.length + q.length) (cp ++ d) = List.drop q.length d := by
    rw [List.drop_append]; simp
  rw [h1, h2]
  simp

theorem lookup_wrap (cp : List Nib) (br : Node) (k' : List Nib) :
    lookup (if cp.length = 0 then br else .short cp br) k' =
      if k'.take cp.length = cp then lookup br (k'.drop cp.length) else none := by
  split
  · next h =>
    have : cp = [] := List.length_eq_zero_iff.1 h
    subst this; simp
  · exact lookup_short ..

theorem split_lookup (cp ka' kb' : List Nib) (a b : Nib) (c : Node) (v : Bytes) (hab : a ≠ b) (k' : List Nib) :
    lookup (if cp.length = 0 then
              .full (setChild (setChild emptyCs b (insertNil kb' c)) a (insertNil ka' (.value v)))
            else .short cp (.full (setChild (setChild emptyCs b (insertNil kb' c)) a (insertNil ka' (.value v))))) k' =
      if k' = cp ++ a :: ka' then some v else lookup (.short (cp ++ b :: kb') c) k' := by
  rw [lookup_wrap]
  by_cases ht : k'.take cp.length = cp
  · obtain ⟨d, rfl⟩ := take_eq_iff.1 ht
    rw [if_pos ht, List.drop_left, lookup_short_append_both]
    simp only [List.append_cancel_left_eq]
    cases d with
    | nil => simp [lookup]
    | cons y d' =>
      rw [lookup_full_cons]
      by_cases hya : y = a
      · subst hya
        rw [setChild_same, insertNil_value_lookup]
        simp only [List.cons.injEq, true_and]
        split
        · rfl
        · rw [lookup_short_none]
          rintro ⟨r, hr⟩
          simp at hr
          exact hab hr.1
      · rw [setChild_other _ _ hya]
        have hne : ¬ (y :: d' = a :: ka') := by simp [hya]
        rw [if_neg hne]
        by_cases hyb : y = b
        · subst hyb
          rw [setChild_same, lookup_insertNil, lookup_short]
          simp
        · rw [setChild_other _ _ hyb, emptyCs_apply, lookup_nil, lookup_short_none]
          rintro ⟨r, hr⟩
          simp at hr
          exact hyb hr.1
  · rw [if_neg ht]
    have h1 : ¬ k' = cp ++ a :: ka' := by
      intro e; apply ht; rw [e]; simp
    rw [if_neg h1, lookup_short_none]
    rintro ⟨r, hr⟩
    apply ht
    rw [hr]; simp

theorem ins_lookup (n : Node) : ∀ k v, Pos n k → ∀ k', lookup (ins n k v) k' = if k' = k then some v else lookup n k' := by
  induction n with
  | nil =>
    intro k v _ k'
    cases k with
    | nil => simp [ins, lookup]
    | cons x r => simp only [ins, leaf_lookup, lookup_nil]
  | value w =>
    intro k v hp k'
    rcases hp with ⟨_, h | h⟩ | ⟨rfl, _⟩
    · cases h
    · exact absurd h (not_wf_value w)
    · simp only [ins, lookup_value]
      split <;> rfl
  | short nk c ih =>
    intro k v hp k'
    rcases hp with ⟨hk, h | hw⟩ | ⟨_, h | ⟨w, h⟩⟩
    · cases h
    · cases k with
      | nil => exact absurd hk (by simp [Term])
      | cons x r =>
        obtain ⟨cp, ka, kb, e1, e2, e3, e4⟩ := prefixLen_decomp (x :: r) nk
        simp only [ins]
        by_cases hm : prefixLen (x :: r) nk = nk.length
        · simp only [hm, if_true]
          have hkb : kb = [] := by
            have : cp.length = (cp ++ kb).length := by rw [← e2, ← e3, hm]
            simp at this; exact this
          subst hkb
          simp at e2
          subst e2
          rw [e1] at hk
          have hdrop : List.drop nk.length (x :: r) = ka := by rw [e1]; simp
          rw [hdrop, e1, lookup_short, lookup_short]
          by_cases ht : k'.take nk.length = nk
          · obtain ⟨d, rfl⟩ := take_eq_iff.1 ht
            simp only [List.take_left, if_true, List.drop_left, List.append_cancel_left_eq]
            exact ih ka v (pos_short_child hw hk) d
          · simp only [ht, if_false]
            rw [if_neg]
            intro e; apply ht; rw [e]; simp
        · simp only [hm, if_false]
          have hkb : kb ≠ [] := by
            intro e; subst e; simp at e2; subst e2; exact hm e3
          have hka : ka ≠ [] := by
            intro e; subst e; simp at e1
            rw [e1] at hk
            exact hkb (short_key_not_extends hw hk e2)
          obtain ⟨b, kb', rfl⟩ := List.exists_cons_of_ne_nil hkb
          obtain ⟨a, ka', rfl⟩ := List.exists_cons_of_ne_nil hka
          have hab : a ≠ b := by
            rcases e4 with h | h | h
            · cases h
            · cases h
            · simpa using h
          have h1 : nk[prefixLen (x :: r) nk]? = some b := by rw [e3, e2]; simp
          have h2 : (x :: r)[prefixLen (x :: r) nk]? = some a := by rw [e3, e1]; simp
          rw [h1, h2]
          simp only []
          have h3 : List.drop (prefixLen (x :: r) nk + 1) nk = kb' := by rw [e3, e2]; simp
          have h4 : List.drop (prefixLen (x :: r) nk + 1) (x :: r) = ka' := by rw [e3, e1]; simp
          have h5 : List.take (prefixLen (x :: r) nk) (x :: r) = cp := by rw [e3, e1]; simp
          rw [h3, h4, h5, e3, e1, e2]
          exact split_lookup cp ka' kb' a b c v hab k'
    · cases h
    · cases h
  | full cs ih =>
    intro k v hp k'
    rcases hp with ⟨hk, h | hw⟩ | ⟨_, h | ⟨w, h⟩⟩
    · cases h
    · cases k with
      | nil => exact absurd hk (by simp [Term])
      | cons x r =>
        simp only [ins]
        cases k' with
        | nil => simp [lookup]
        | cons y r' =>
          rw [lookup_full_cons, lookup_full_cons]
          by_cases hy : y = x
          · subst hy
            rw [setChild_same, ih y r v (pos_full_child hw hk) r']
            simp
          · rw [setChild_other _ _ hy]
            simp [hy]
    · cases h
    · cases h



theorem wf_ne_nil {n : Node} (h : WF n) : n ≠ .nil := by
  intro e; subst e; exact not_wf_nil h

theorem wf_full_setChild {cs : Nib → Node} {x : Nib} {nn : Node} (hw : WF (.full cs))
    (h1 : x ≠ T → WF nn) (h2 : x = T → ∃ v, v ≠ [] ∧ nn = .value v) : WF (.full (setChild cs x nn)) := by
  obtain ⟨c1, c2, i, j, hij, hi, hj⟩ := wf_full_inv hw
  have hnn : nn ≠ .nil := by
    by_cases hx : x = T
    · obtain ⟨v, _, rfl⟩ := h2 hx; simp
    · exact wf_ne_nil (h1 hx)
  have hset : ∀ i, cs i ≠ .nil → setChild cs x nn i ≠ .nil := by
    intro i hi
    by_cases hix : i = x
    · subst hix; simpa using hnn
    · rw [setChild_other _ _ hix]; exact hi
  apply WF.full
  · intro i hiT hne
    by_cases hix : i = x
    · subst hix; rw [setChild_same]; exact h1 hiT
    · rw [setChild_other _ _ hix] at hne ⊢
      exact c1 i hiT hne
  · by_cases hx : x = T
    · subst hx
      rw [setChild_same]
      exact Or.inr (by obtain ⟨v, hv, e⟩ := h2 rfl; exact ⟨v, hv, e⟩)
    · rw [setChild_other _ _ (Ne.symm hx)]
      exact c2
  · exact ⟨i, j, hij, hset i hi, hset j hj⟩

theorem wf_short_suffix {cp q : List Nib} {c : Node} (hw : WF (.short (cp ++ q) c)) (hq : q ≠ []) : WF (.short q c) := by
  rcases wf_short_inv hw with ⟨hk, v, hv, rfl⟩ | ⟨_, hh, cs, rfl, hwf⟩
  · exact WF.leaf q v (term_split hk hq).2 hv
  · exact WF.ext q cs hq (hex_append.1 hh).2 hwf

theorem wf_insertNil_tail {b : Nib} {kb' : List Nib} {c : Node} (hw : WF (.short (b :: kb') c)) :
    (b ≠ T → WF (insertNil kb' c)) ∧ (b = T → kb' = [] ∧ ∃ w, w ≠ [] ∧ c = .value w) ∧ insertNil kb' c ≠ .nil := by
  rcases wf_short_inv hw with ⟨hk, w, hv, rfl⟩ | ⟨_, hh, cs, rfl, hwf⟩
  · rcases term_cons.1 hk with ⟨rfl, rfl⟩ | ⟨hne, hb, ht⟩
    · exact ⟨fun h => absurd rfl h, fun _ => ⟨rfl, w, hv, rfl⟩, by simp [insertNil]⟩
    · refine ⟨fun _ => ?_, fun h => absurd h hb, by simp [insertNil, hne]⟩
      simp only [insertNil, hne, if_false]
      exact WF.leaf kb' w ht hv
  · have hb := (hex_cons.1 hh).1
    refine ⟨fun _ => ?_, fun h => absurd h hb, ?_⟩
    · unfold insertNil
      split
      · exact hwf
      · next hne => exact WF.ext kb' cs hne (hex_cons.1 hh).2 hwf
    · unfold insertNil; split <;> simp

theorem wf_insertNil_value {a : Nib} {ka' : List Nib} {v : Bytes} (hk : Term (a :: ka')) (hv : v ≠ []) :
    (a ≠ T → WF (insertNil ka' (.value v))) ∧ (a = T → insertNil ka' (.value v) = .value v) ∧
      insertNil ka' (.value v) ≠ .nil := by
  rcases term_cons.1 hk with ⟨rfl, rfl⟩ | ⟨hne, ha, ht⟩
  · exact ⟨fun h => absurd rfl h, fun _ => by simp [insertNil], by simp [insertNil]⟩
  · refine ⟨fun _ => ?_, fun h => absurd h ha, by simp [insertNil, hne]⟩
    simp only [insertNil, hne, if_false]
    exact WF.leaf ka' v ht hv

theorem split_wf {cp ka' kb' : List Nib} {a b : Nib} {c : Node} {v : Bytes} (hab : a ≠ b)
    (hw : WF (.short (cp ++ b :: kb') c)) (hk : Term (cp ++ a :: ka')) (hv : v ≠ []) :
    WF (if cp.length = 0 then
          .full (setChild (setChild emptyCs b (insertNil kb' c)) a (insertNil ka' (.value v)))
        else .short cp (.full (setChild (setChild emptyCs b (insertNil kb' c)) a (insertNil ka' (.value v))))) := by
  have hs := term_split hk (by simp : a :: ka' ≠ [])
  obtain ⟨a1, a2, a3⟩ := wf_insertNil_value hs.2 hv
  obtain ⟨b1, b2, b3⟩ := wf_insertNil_tail (wf_short_suffix hw (by simp : b :: kb' ≠ []))
  have hbr : WF (.full (setChild (setChild emptyCs b (insertNil kb' c)) a (insertNil ka' (.value v)))) := by
    apply WF.full
    · intro i hiT hne
      by_cases hia : i = a
      · subst hia; rw [setChild_same]; exact a1 hiT
      · rw [setChild_other _ _ hia] at hne ⊢
        by_cases hib : i = b
        · subst hib; rw [setChild_same]; exact b1 hiT
        · rw [setChild_other _ _ hib] at hne; simp at hne
    · by_cases ha : a = T
      · subst ha
        rw [setChild_same, a2 rfl]
        exact Or.inr ⟨v, hv, rfl⟩
      · rw [setChild_other _ _ (Ne.symm ha)]
        by_cases hb : b = T
        · subst hb
          rw [setChild_same]
          obtain ⟨e, w, hw', rfl⟩ := b2 rfl
          subst e
          exact Or.inr ⟨w, hw', by simp [insertNil]⟩
        · rw [setChild_other _ _ (Ne.symm hb)]
          exact Or.inl rfl
    · refine ⟨a, b, hab, ?_, ?_⟩
      · rw [setChild_same]; exact a3
      · rw [setChild_other _ _ (Ne.symm hab), setChild_same]; exact b3
  split
  · exact hbr
  · next hne =>
    exact WF.ext cp _ (by intro e; subst e; simp at hne) hs.1 hbr

theorem ins_wf (n : Node) : ∀ k v, Term k → (n = .nil ∨ WF n) → v ≠ [] → WF (ins n k v) := by
  induction n with
  | nil =>
    intro k v hk _ hv
    cases k with
    | nil => exact absurd hk (by simp [Term])
    | cons x r => simp only [ins]; exact WF.leaf _ v hk hv
  | value w =>
    intro k v _ hn _
    rcases hn with h | h
    · cases h
    · exact absurd h (not_wf_value w)
  | short nk c ih =>
    intro k v hk hn hv
    rcases hn with h | hw
    · cases h
    · cases k with
      | nil => exact absurd hk (by simp [Term])
      | cons x r =>
        obtain ⟨cp, ka, kb, e1, e2, e3, e4⟩ := prefixLen_decomp (x :: r) nk
        simp only [ins]
        by_cases hm : prefixLen (x :: r) nk = nk.length
        · simp only [hm, if_true]
          have hkb : kb = [] := by
            have : cp.length = (cp ++ kb).length := by rw [← e2, ← e3, hm]
            simp at this; exact this
          subst hkb
          simp at e2
          subst e2
          rw [e1] at hk
          have hdrop : List.drop nk.length (x :: r) = ka := by rw [e1]; simp
          rw [hdrop]
          rcases wf_short_inv hw with ⟨hnk, w, _, rfl⟩ | ⟨hne, hh, cs, rfl, hwf⟩
          · have := term_prefix_eq hnk hk
            subst this
            simp only [ins]
            exact WF.leaf nk v hnk hv
          · have hka : ka ≠ [] := by
              intro e; subst e; simp at hk; exact term_not_hex hk hh
            have hkat := (term_split hk hka).2
            have := ih ka v hkat (Or.inr hwf) hv
            obtain ⟨y, r', rfl⟩ := List.exists_cons_of_ne_nil hka
            simp only [ins] at this ⊢
            exact WF.ext nk _ hne hh this
        · simp only [hm, if_false]
          have hkb : kb ≠ [] := by
            intro e; subst e; simp at e2; subst e2; exact hm e3
          have hka : ka ≠ [] := by
            intro e; subst e; simp at e1
            rw [e1] at hk
            exact hkb (short_key_not_extends hw hk e2)
          obtain ⟨b, kb', rfl⟩ := List.exists_cons_of_ne_nil hkb
          obtain ⟨a, ka', rfl⟩ := List.exists_cons_of_ne_nil hka
          have hab : a ≠ b := by
            rcases e4 with h | h | h
            · cases h
            · cases h
            · simpa using h
          have h1 : nk[prefixLen (x :: r) nk]? = some b := by rw [e3, e2]; simp
          have h2 : (x :: r)[prefixLen (x :: r) nk]? = some a := by rw [e3, e1]; simp
          rw [h1, h2]
          simp only []
          have h3 : List.drop (prefixLen (x :: r) nk + 1) nk = kb' := by rw [e3, e2]; simp
          have h4 : List.drop (prefixLen (x :: r) nk + 1) (x :: r) = ka' := by rw [e3, e1]; simp
          have h5 : List.take (prefixLen (x :: r) nk) (x :: r) = cp := by rw [e3, e1]; simp
          rw [h3, h4, h5, e3]
          rw [e2] at hw
          rw [e1] at hk
          exact split_wf hab hw hk hv
  | full cs ih =>
    intro k v hk hn hv
    rcases hn with h | hw
    · cases h
    · cases k with
      | nil => exact absurd hk (by simp [Term])
      | cons x r =>
        simp only [ins]
        apply wf_full_setChild hw
        · intro hx
          rcases term_cons.1 hk with ⟨_, e⟩ | ⟨_, _, ht⟩
          · exact absurd e hx
          · apply ih x r v ht _ hv
            by_cases hc : cs x = .nil
            · exact Or.inl hc
            · exact Or.inr ((wf_full_inv hw).1 x hx hc)
        · intro hx
          rcases term_cons.1 hk with ⟨e, _⟩ | ⟨_, h, _⟩
          · subst e; exact ⟨v, hv, by simp [ins]⟩
          · exact absurd hx h



theorem lookup_short_short (nk ck : List Nib) (cv : Node) (k' : List Nib) :
    lookup (.short (nk ++ ck) cv) k' = lookup (.short nk (.short ck cv)) k' := by
  by_cases ht : k'.take nk.length = nk
  · obtain ⟨d, rfl⟩ := take_eq_iff.1 ht
    rw [lookup_short_append_both, lookup_short_append]
  · rw [lookup_short_none, lookup_short_none]
    · intro h; exact ht (take_eq_iff.2 h)
    · rintro ⟨r, hr⟩; apply ht; rw [hr]; simp

theorem lookup_mergeShort (nk : List Nib) (ch : Node) (k' : List Nib) :
    lookup (mergeShort nk ch) k' = lookup (.short nk ch) k' := by
  cases ch with
  | short ck cv => simp only [mergeShort]; exact lookup_short_short ..
  | nil => rfl
  | value _ => rfl
  | full _ => rfl

theorem collapse_eq_merge {cs' : Nib → Node} {pos : Nib} (h : onlyChild cs' = some pos) (hp : pos ≠ T) :
    collapse cs' = mergeShort [pos] (cs' pos) := by
  simp only [collapse, h, ne_eq, hp, not_false_eq_true, if_true, mergeShort]
  cases cs' pos <;> rfl

theorem lookup_single (pos : Nib) (cs' : Nib → Node) (h : ∀ j, cs' j ≠ .nil → j = pos) (k' : List Nib) :
    lookup (.short [pos] (cs' pos)) k' = lookup (.full cs') k' := by
  cases k' with
  | nil => simp [lookup]
  | cons y r =>
    rw [lookup_full_cons, lookup_short]
    by_cases hy : y = pos
    · subst hy; simp
    · have : cs' y = .nil := by
        apply Classical.byContradiction
        intro hne; exact hy (h y hne)
      simp [hy, this, lookup_nil]

theorem lookup_collapse (cs' : Nib → Node) (k' : List Nib) : lookup (collapse cs') k' = lookup (.full cs') k' := by
  cases h : onlyChild cs' with
  | none => simp [collapse, h]
  | some pos =>
    have hs := onlyChild_some.1 h
    by_cases hp : pos = T
    · simp only [collapse, h, hp, ne_eq, not_true_eq_false, if_false]
      rw [← hp]
      exact lookup_single pos cs' hs.2 k'
    · rw [collapse_eq_merge h hp, lookup_mergeShort]
      exact lookup_single pos cs' hs.2 k'

theorem prefixLen_covers (nk r : List Nib) : prefixLen (nk ++ r) nk = nk.length := by
  have := prefixLen_append_left nk r []
  simp at this
  rw [this]
  cases r <;> simp [prefixLen]

theorem del_lookup (n : Node) : ∀ k, Pos n k → ∀ k', lookup (del n k) k' = if k' = k then none else lookup n k' := by
  induction n with
  | nil => intro k _ k'; simp [del, lookup]
  | value w =>
    intro k hp k'
    rcases hp with ⟨_, h | h⟩ | ⟨rfl, _⟩
    · cases h
    · exact absurd h (not_wf_value w)
    · simp only [del, lookup_nil, lookup_value]
      split <;> simp_all
  | short nk c ih =>
    intro k hp k'
    rcases hp with ⟨hk, h | hw⟩ | ⟨_, h | ⟨w, h⟩⟩
    · cases h
    · simp only [del]
      split
      · next hlt =>
        -- the node key is not a prefix of k: k is absent
        by_cases hkk : k' = k
        · subst hkk
          rw [if_pos rfl, lookup_short_none]
          rintro ⟨r, rfl⟩
          rw [prefixLen_covers] at hlt
          omega
        · rw [if_neg hkk]
      · next hlt =>
        obtain ⟨cp, ka, kb, e1, e2, e3, _⟩ := prefixLen_decomp k nk
        have hle := prefixLen_le_right k nk
        have hkb : kb = [] := by
          have : cp.length = (cp ++ kb).length := by rw [← e2, ← e3]; omega
          simp at this; exact this
        subst hkb
        simp at e2
        subst e2
        split
        · next hm =>
          have hka : ka = [] := by
            have : nk.length = (nk ++ ka).length := by rw [← e1, ← e3]; exact hm
            simp at this; exact this
          subst hka
          simp at e1
          subst e1
          rcases wf_short_inv hw with ⟨_, w, _, rfl⟩ | ⟨_, hh, _⟩
          · rw [leaf_lookup, lookup_nil]; split <;> rfl
          · exact absurd hh (term_not_hex hk)
        · next hm =>
          have hdrop : List.drop nk.length k = ka := by rw [e1]; simp
          rw [hdrop, lookup_mergeShort, e1, lookup_short, lookup_short]
          rw [e1] at hk
          by_cases ht : k'.take nk.length = nk
          · obtain ⟨d, rfl⟩ := take_eq_iff.1 ht
            simp only [List.take_left, if_true, List.drop_left, List.append_cancel_left_eq]
            exact ih ka (pos_short_child hw hk) d
          · simp only [ht, if_false]
            rw [if_neg]
            intro e; apply ht; rw [e]; simp
    · cases h
    · cases h
  | full cs ih =>
    intro k hp k'
    rcases hp with ⟨hk, h | hw⟩ | ⟨_, h | ⟨w, h⟩⟩
    · cases h
    · cases k with
      | nil => exact absurd hk (by simp [Term])
      | cons x r =>
        simp only [del]
        rw [lookup_collapse]
        cases k' with
        | nil => simp [lookup]
        | cons y r' =>
          rw [lookup_full_cons, lookup_full_cons]
          by_cases hy : y = x
          · subst hy
            rw [setChild_same, ih y r (pos_full_child hw hk) r']
            simp
          · rw [setChild_other _ _ hy]
            simp [hy]
    · cases h
    · cases h

theorem wf_mergeShort {nk : List Nib} {ch : Node} (h1 : nk ≠ []) (h2 : Hex nk) (hw : WF ch) : WF (mergeShort nk ch) := by
  cases ch with
  | nil => exact absurd hw not_wf_nil
  | value v => exact absurd hw (not_wf_value v)
  | short ck cv =>
    simp only [mergeShort]
    rcases wf_short_inv hw with ⟨hk, v, hv, rfl⟩ | ⟨hne, hh, cs, rfl, hwf⟩
    · exact WF.leaf _ v (term_append_hex h2 hk) hv
    · exact WF.ext _ cs (by simp [h1]) (hex_append.2 ⟨h2, hh⟩) hwf
  | full cs => exact WF.ext nk cs h1 h2 hw

theorem collapse_ne_nil (cs' : Nib → Node) : collapse cs' ≠ .nil := by
  unfold collapse
  split
  · split
    · split <;> simp
    · simp
  · simp

theorem collapse_wf {cs' : Nib → Node} (c1 : ∀ i, i ≠ T → cs' i ≠ .nil → WF (cs' i))
    (c2 : cs' T = .nil ∨ ∃ v, v ≠ [] ∧ cs' T = .value v) (c3 : ∃ i, cs' i ≠ .nil) : WF (collapse cs') := by
  cases h : onlyChild cs' with
  | none =>
    simp only [collapse, h]
    obtain ⟨i, hi⟩ := c3
    obtain ⟨j, hji, hj⟩ := two_of_onlyChild_none h hi
    exact WF.full cs' c1 c2 ⟨i, j, Ne.symm hji, hi, hj⟩
  | some pos =>
    have hs := onlyChild_some.1 h
    by_cases hp : pos = T
    · simp only [collapse, h, hp, ne_eq, not_true_eq_false, if_false]
      rcases c2 with e | ⟨v, hv, e⟩
      · rw [hp] at hs; exact absurd e hs.1
      · rw [e]; exact WF.leaf [T] v term_single hv
    · rw [collapse_eq_merge h hp]
      apply wf_mergeShort (by simp) _ (c1 pos hp hs.1)
      exact hex_cons.2 ⟨hp, hex_nil⟩

theorem del_wf (n : Node) : ∀ k, Term k → (n = .nil ∨ WF n) → (del n k = .nil ∨ WF (del n k)) := by
  induction n with
  | nil => intro k _ _; left; simp [del]
  | value w => intro k _ _; left; simp [del]
  | short nk c ih =>
    intro k hk hn
    rcases hn with h | hw
    · cases h
    · simp only [del]
      split
      · exact Or.inr hw
      · next hlt =>
        split
        · exact Or.inl rfl
        · next hm =>
          right
          obtain ⟨cp, ka, kb, e1, e2, e3, _⟩ := prefixLen_decomp k nk
          have hle := prefixLen_le_right k nk
          have hkb : kb = [] := by
            have : cp.length = (cp ++ kb).length := by rw [← e2, ← e3]; omega
            simp at this; exact this
          subst hkb
          simp at e2
          subst e2
          have hdrop : List.drop nk.length k = ka := by rw [e1]; simp
          rw [hdrop]
          have hka : ka ≠ [] := by
            intro e; subst e; simp at e1; subst e1; exact hm e3
          rw [e1] at hk
          rcases wf_short_inv hw with ⟨hnk, _⟩ | ⟨hne, hh, cs, rfl, hwf⟩
          · exact absurd (term_prefix_eq hnk hk) hka
          · have hkat := (term_split hk hka).2
            obtain ⟨y, r', rfl⟩ := List.exists_cons_of_ne_nil hka
            rcases ih _ hkat (Or.inr hwf) with h | h
            · simp only [del] at h
              exact absurd h (collapse_ne_nil _)
            · exact wf_mergeShort hne hh h
  | full cs ih =>
    intro k hk hn
    rcases hn with h | hw
    · cases h
    · cases k with
      | nil => exact absurd hk (by simp [Term])
      | cons x r =>
        right
        simp only [del]
        obtain ⟨c1, c2, i, j, hij, hi, hj⟩ := wf_full_inv hw
        have hnn : (x = T → del (cs x) r = .nil) ∧ (x ≠ T → (del (cs x) r = .nil ∨ WF (del (cs x) r))) := by
          rcases term_cons.1 hk with ⟨rfl, rfl⟩ | ⟨_, hx, ht⟩
          · refine ⟨fun _ => ?_, fun h => absurd rfl h⟩
            rcases c2 with e | ⟨v, _, e⟩ <;> simp [e, del]
          · refine ⟨fun h => absurd h hx, fun _ => ?_⟩
            apply ih x r ht
            by_cases hc : cs x = .nil
            · exact Or.inl hc
            · exact Or.inr (c1 x hx hc)
        apply collapse_wf
        · intro i' hiT hne
          by_cases hix : i' = x
          · subst hix
            rw [setChild_same] at hne ⊢
            rcases hnn.2 hiT with h | h
            · exact absurd h hne
            · exact h
          · rw [setChild_other _ _ hix] at hne ⊢
            exact c1 i' hiT hne
        · by_cases hx : x = T
          · subst hx
            rw [setChild_same]
            exact Or.inl (hnn.1 rfl)
          · rw [setChild_other _ _ (Ne.symm hx)]
            exact c2
        · by_cases hix : i = x
          · refine ⟨j, ?_⟩
            have : j ≠ x := by rw [← hix]; exact Ne.symm hij
            rw [setChild_other _ _ this]; exact hj
          · refine ⟨i, ?_⟩
            rw [setChild_other _ _ hix]; exact hi


end Aqv.Trie

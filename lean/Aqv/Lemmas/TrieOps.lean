/-
  Aqv.Lemmas.TrieOps — the Go-shaped workers agree with their functional reading on every position reachable from
  the public API (no panic, dirty flag irrelevant); `get` agrees with the denotation `lookup`; `ins`/`del` preserve the
  canonical shape and update the denotation like a finite map.
-/
import Aqv.Lemmas.Trie
namespace Aqv.Trie
open Aqv

theorem insert_fst_false (n : Node) : ∀ (k : List Nib) (v : Bytes) (n' : Node), insert n k v = some (false, n') → n' = n := by
  induction n with
  | nil =>
    intro k v n' h
    cases k <;> simp [insert] at h
  | value w =>
    intro k v n' h
    cases k with
    | nil =>
      simp [insert] at h
      rw [← h.2, h.1]
    | cons x r => simp [insert] at h
  | short nk c ih =>
    intro k v n' h
    cases k with
    | nil => simp [insert] at h
    | cons x r =>
      simp only [insert] at h
      split at h
      · split at h
        · cases h
        · next d nn hh =>
          split at h
          · cases h
          · simp at h; exact h.symm
      · split at h
        · split at h <;> cases h
        · cases h
  | full cs ih =>
    intro k v n' h
    cases k with
    | nil => simp [insert] at h
    | cons x r =>
      simp only [insert] at h
      split at h
      · cases h
      · split at h
        · cases h
        · simp at h; exact h.symm

theorem not_wf_nil : ¬ WF .nil := by intro h; cases h
theorem not_wf_value (v : Bytes) : ¬ WF (.value v) := by intro h; cases h

theorem wf_short_inv {k : List Nib} {c : Node} (h : WF (.short k c)) :
    (Term k ∧ ∃ v, v ≠ [] ∧ c = .value v) ∨ (k ≠ [] ∧ Hex k ∧ ∃ cs, c = .full cs ∧ WF (.full cs)) := by
  cases h with
  | leaf _ v hk hv => exact Or.inl ⟨hk, v, hv, rfl⟩
  | ext _ cs hk hh hw => exact Or.inr ⟨hk, hh, cs, rfl, hw⟩

theorem wf_full_inv {cs : Nib → Node} (h : WF (.full cs)) :
    (∀ i, i ≠ T → cs i ≠ .nil → WF (cs i)) ∧ (cs T = .nil ∨ ∃ v, v ≠ [] ∧ cs T = .value v) ∧
      (∃ i j, i ≠ j ∧ cs i ≠ .nil ∧ cs j ≠ .nil) := by
  cases h with
  | full _ h1 h2 h3 => exact ⟨h1, h2, h3⟩

/-- a (sub)position reached by the workers from the public API: a canonical subtrie with a terminated key left,
    or the value slot with nothing left. -/
def Pos (n : Node) (k : List Nib) : Prop :=
  (Term k ∧ (n = .nil ∨ WF n)) ∨ (k = [] ∧ (n = .nil ∨ ∃ w, n = .value w))

theorem pos_full_child {cs : Nib → Node} {x : Nib} {r : List Nib} (hw : WF (.full cs)) (hk : Term (x :: r)) :
    Pos (cs x) r := by
  obtain ⟨h1, h2, _⟩ := wf_full_inv hw
  rcases term_cons.1 hk with ⟨rfl, rfl⟩ | ⟨_, hx, ht⟩
  · right
    refine ⟨rfl, ?_⟩
    rcases h2 with h | ⟨v, _, h⟩
    · exact Or.inl h
    · exact Or.inr ⟨v, h⟩
  · left
    refine ⟨ht, ?_⟩
    by_cases hc : cs x = .nil
    · exact Or.inl hc
    · exact Or.inr (h1 x hx hc)

/-- in a canonical short node reached with a terminated key that covers the node key, the child position is again
    a `Pos`. -/
theorem pos_short_child {nk rest : List Nib} {c : Node} (hw : WF (.short nk c)) (hk : Term (nk ++ rest)) :
    Pos c rest := by
  rcases wf_short_inv hw with ⟨hnk, v, _, rfl⟩ | ⟨_, hh, cs, rfl, hwf⟩
  · right
    exact ⟨term_prefix_eq hnk hk, Or.inr ⟨v, rfl⟩⟩
  · left
    have hr : rest ≠ [] := by
      intro e; subst e
      simp at hk
      exact term_not_hex hk hh
    exact ⟨(term_split hk hr).2, Or.inr hwf⟩

/-- a terminated key is never a proper prefix of a canonical short node's key. -/
theorem short_key_not_extends {nk key kb : List Nib} {c : Node} (hw : WF (.short nk c)) (hk : Term key)
    (e : nk = key ++ kb) : kb = [] := by
  rcases wf_short_inv hw with ⟨hnk, _⟩ | ⟨_, hh, _⟩
  · subst e; exact term_prefix_eq hk hnk
  · subst e
    exact absurd (hex_append.1 hh).1 (term_not_hex hk)

theorem insert_spec (n : Node) : ∀ (k : List Nib) (v : Bytes), Pos n k → ∃ d, insert n k v = some (d, ins n k v) := by
  induction n with
  | nil =>
    intro k v _
    cases k <;> exact ⟨true, by simp [insert, ins]⟩
  | value w =>
    intro k v hp
    rcases hp with ⟨_, h | h⟩ | ⟨rfl, _⟩
    · cases h
    · exact absurd h (not_wf_value w)
    · exact ⟨w != v, by simp [insert, ins]⟩
  | short nk c ih =>
    intro k v hp
    rcases hp with ⟨hk, h | hw⟩ | ⟨_, h | ⟨w, h⟩⟩
    · cases h
    · cases k with
      | nil => exact absurd hk (by simp [Term])
      | cons x r =>
        obtain ⟨cp, ka, kb, e1, e2, e3, e4⟩ := prefixLen_decomp (x :: r) nk
        simp only [insert, ins]
        by_cases hm : prefixLen (x :: r) nk = nk.length
        · simp only [hm, if_true]
          have hkb : kb = [] := by
            have : cp.length = (cp ++ kb).length := by rw [← e2, ← e3, hm]
            simp at this; exact this
          subst hkb
          simp at e2
          subst e2
          rw [e1] at hk
          have hdrop : List.drop nk.length (x :: r) = ka := by rw [e1]; simp
          obtain ⟨d, hd⟩ := ih (List.drop nk.length (x :: r)) v (by rw [hdrop]; exact pos_short_child hw hk)
          rw [hd]
          cases d with
          | true => exact ⟨true, by simp⟩
          | false =>
            have := insert_fst_false _ _ _ _ hd
            exact ⟨false, by simp [this]⟩
        · simp only [hm, if_false]
          have hkb : kb ≠ [] := by
            intro e; subst e; simp at e2; subst e2; exact hm e3
          have hka : ka ≠ [] := by
            intro e; subst e; simp at e1
            rw [e1] at hk
            exact hkb (short_key_not_extends hw hk e2)
          obtain ⟨b, kb', rfl⟩ := List.exists_cons_of_ne_nil hkb
          obtain ⟨a, ka', rfl⟩ := List.exists_cons_of_ne_nil hka
          have h1 : nk[prefixLen (x :: r) nk]? = some b := by rw [e3, e2]; simp
          have h2 : (x :: r)[prefixLen (x :: r) nk]? = some a := by rw [e3, e1]; simp
          rw [h1, h2]
          simp only []
          split
          · exact ⟨true, rfl⟩
          · exact ⟨true, rfl⟩
    · cases h
    · cases h
  | full cs ih =>
    intro k v hp
    rcases hp with ⟨hk, h | hw⟩ | ⟨_, h | ⟨w, h⟩⟩
    · cases h
    · cases k with
      | nil => exact absurd hk (by simp [Term])
      | cons x r =>
        simp only [insert, ins]
        obtain ⟨d, hd⟩ := ih x r v (pos_full_child hw hk)
        rw [hd]
        cases d with
        | true => exact ⟨true, by simp⟩
        | false =>
          have := insert_fst_false _ _ _ _ hd
          exact ⟨false, by simp [this, setChild_self]⟩
    · cases h
    · cases h


theorem delete_fst_false (n : Node) : ∀ (k : List Nib) (n' : Node), delete n k = some (false, n') → n' = n := by
  induction n with
  | nil => intro k n' h; simp [delete] at h; exact h.symm
  | value w => intro k n' h; simp [delete] at h
  | short nk c ih =>
    intro k n' h
    simp only [delete] at h
    split at h
    · simp at h; exact h.symm
    · split at h
      · simp at h
      · split at h
        · cases h
        · split at h
          · simp at h; exact h.symm
          · split at h <;> simp at h
  | full cs ih =>
    intro k n' h
    cases k with
    | nil => simp [delete] at h
    | cons x r =>
      simp only [delete] at h
      split at h
      · cases h
      · split at h
        · simp at h; exact h.symm
        · split at h
          · split at h
            · split at h <;> simp at h
            · simp at h
          · simp at h

theorem collapse_wf_full {cs : Nib → Node} (hw : WF (.full cs)) : collapse cs = .full cs := by
  obtain ⟨_, _, i, j, hij, hi, hj⟩ := wf_full_inv hw
  simp [collapse, onlyChild_none_of_two hij hi hj]

theorem delete_spec (n : Node) : ∀ (k : List Nib), Pos n k → ∃ d, delete n k = some (d, del n k) := by
  induction n with
  | nil => intro k _; exact ⟨false, by simp [delete, del]⟩
  | value w => intro k _; exact ⟨true, by simp [delete, del]⟩
  | short nk c ih =>
    intro k hp
    rcases hp with ⟨hk, h | hw⟩ | ⟨_, h | ⟨w, h⟩⟩
    · cases h
    · simp only [delete, del]
      split
      · exact ⟨false, rfl⟩
      · next hlt =>
        split
        · exact ⟨true, rfl⟩
        · obtain ⟨cp, ka, kb, e1, e2, e3, _⟩ := prefixLen_decomp k nk
          have hle := prefixLen_le_right k nk
          have hkb : kb = [] := by
            have : cp.length = (cp ++ kb).length := by rw [← e2, ← e3]; omega
            simp at this; exact this
          subst hkb
          simp at e2
          subst e2
          have hdrop : List.drop nk.length k = ka := by rw [e1]; simp
          rw [hdrop]
          rw [e1] at hk
          obtain ⟨d, hd⟩ := ih ka (pos_short_child hw hk)
          rw [hd]
          cases d with
          | false =>
            have hc := delete_fst_false _ _ _ hd
            refine ⟨false, ?_⟩
            simp only [hc]
            rcases wf_short_inv hw with ⟨_, v, _, rfl⟩ | ⟨_, _, cs, rfl, _⟩ <;> simp [mergeShort]
          | true =>
            refine ⟨true, ?_⟩
            simp only [mergeShort]
            cases del c ka <;> simp
    · cases h
    · cases h
  | full cs ih =>
    intro k hp
    rcases hp with ⟨hk, h | hw⟩ | ⟨_, h | ⟨w, h⟩⟩
    · cases h
    · cases k with
      | nil => exact absurd hk (by simp [Term])
      | cons x r =>
        simp only [delete, del]
        obtain ⟨d, hd⟩ := ih x r (pos_full_child hw hk)
        rw [hd]
        cases d with
        | false =>
          have hc := delete_fst_false _ _ _ hd
          refine ⟨false, ?_⟩
          simp [hc, setChild_self, collapse_wf_full hw]
        | true =>
          refine ⟨true, ?_⟩
          simp only [collapse, Bool.not_true, Bool.false_eq_true, ↓reduceIte]
          cases onlyChild (setChild cs x (del (cs x) r)) with
          | none => rfl
          | some pos =>
            simp only []
            by_cases hp : pos = T
            · simp [hp]
            · simp only [ne_eq, hp, not_false_eq_true, ↓reduceIte]
              cases setChild cs x (del (cs x) r) pos <;> rfl
    · cases h
    · cases h

end Aqv.Trie

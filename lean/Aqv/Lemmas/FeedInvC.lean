/-
  Aqv.Lemmas.FeedInvC — order invariants: Send calls are ranked by the order in which they took the sendLock token;
  the global placement log is sorted by rank (so every channel sees the sends in token order), and every channel is a
  FIFO: what its receiver took, followed by what is still buffered, is exactly what was placed into it, in order.
-/
import Aqv.Lemmas.FeedInvB
namespace Aqv.Feed
set_option linter.unusedSimpArgs false
set_option linter.unusedVariables false

structure InvC (s : St) : Prop where
  rank_lt : ∀ g, s.spc g ≠ .idle → s.spc g ≠ .start → s.rank g < s.nextRank
  rank_inj : ∀ g g', s.spc g ≠ .idle → s.spc g ≠ .start → s.spc g' ≠ .idle → s.spc g' ≠ .start →
    s.rank g = s.rank g' → g = g'
  rank_holder : ∀ g, (s.spc g).held = true → s.rank g + 1 = s.nextRank
  sorted : ∀ p q, List.Sublist [p, q] s.placed → s.rank p.2 ≤ s.rank q.2
  fifo : ∀ c, s.rcvd c ++ s.buf c = placedOn s c

theorem invC_init : InvC init := by
  constructor <;> simp [init, SPc.held, placedOn]

macro "invc_auto" : tactic =>
  `(tactic| (constructor <;> simp only [placedOn, sub2_snoc, List.filter_append, List.map_append, List.filter_cons, List.filter_nil, List.map_cons, List.map_nil] <;> (try assumption) <;> (try grind [SPc.held, RPc.held, SPc.merged])))

theorem invC_subscribe (s s' : St) (c k : Nat) (ha : InvA s) (hb : InvB s) (h : InvC s) (hs : step s (.subscribe c k) = some s') : InvC s' := by
  obtain ⟨a1,a2,a3,a4,a5,a6,a7,a8,a9,a10,a11,a12,a13,a14⟩ := ha
  obtain ⟨b1,b2,b3,b4,b5,b6,b7,b8⟩ := hb
  obtain ⟨h1,h2,h3,h4,h5⟩ := h
  have mh := merged_held
  have sm := @sub2_mem (Chan × Sid) s.placed
  simp only [placedOn] at h5
  step_split hs
  all_goals invc_auto

theorem invC_sendCall (s s' : St) (g : Nat) (ha : InvA s) (hb : InvB s) (h : InvC s) (hs : step s (.sendCall g) = some s') : InvC s' := by
  obtain ⟨a1,a2,a3,a4,a5,a6,a7,a8,a9,a10,a11,a12,a13,a14⟩ := ha
  obtain ⟨b1,b2,b3,b4,b5,b6,b7,b8⟩ := hb
  obtain ⟨h1,h2,h3,h4,h5⟩ := h
  have mh := merged_held
  have sm := @sub2_mem (Chan × Sid) s.placed
  simp only [placedOn] at h5
  step_split hs
  all_goals invc_auto

theorem invC_acquire (s s' : St) (g : Nat) (ha : InvA s) (hb : InvB s) (h : InvC s) (hs : step s (.acquire g) = some s') : InvC s' := by
  obtain ⟨a1,a2,a3,a4,a5,a6,a7,a8,a9,a10,a11,a12,a13,a14⟩ := ha
  obtain ⟨b1,b2,b3,b4,b5,b6,b7,b8⟩ := hb
  obtain ⟨h1,h2,h3,h4,h5⟩ := h
  have mh := merged_held
  have sm := @sub2_mem (Chan × Sid) s.placed
  simp only [placedOn] at h5
  step_split hs
  all_goals invc_auto

theorem invC_merge (s s' : St) (g : Nat) (ha : InvA s) (hb : InvB s) (h : InvC s) (hs : step s (.merge g) = some s') : InvC s' := by
  obtain ⟨a1,a2,a3,a4,a5,a6,a7,a8,a9,a10,a11,a12,a13,a14⟩ := ha
  obtain ⟨b1,b2,b3,b4,b5,b6,b7,b8⟩ := hb
  obtain ⟨h1,h2,h3,h4,h5⟩ := h
  have mh := merged_held
  have sm := @sub2_mem (Chan × Sid) s.placed
  simp only [placedOn] at h5
  step_split hs
  all_goals invc_auto

theorem invC_tryOk (s s' : St) (g : Nat) (ha : InvA s) (hb : InvB s) (h : InvC s) (hs : step s (.tryOk g) = some s') : InvC s' := by
  obtain ⟨a1,a2,a3,a4,a5,a6,a7,a8,a9,a10,a11,a12,a13,a14⟩ := ha
  obtain ⟨b1,b2,b3,b4,b5,b6,b7,b8⟩ := hb
  obtain ⟨h1,h2,h3,h4,h5⟩ := h
  have mh := merged_held
  have sm := @sub2_mem (Chan × Sid) s.placed
  simp only [placedOn] at h5
  step_split hs
  all_goals invc_auto

theorem invC_tryFail (s s' : St) (g : Nat) (ha : InvA s) (hb : InvB s) (h : InvC s) (hs : step s (.tryFail g) = some s') : InvC s' := by
  obtain ⟨a1,a2,a3,a4,a5,a6,a7,a8,a9,a10,a11,a12,a13,a14⟩ := ha
  obtain ⟨b1,b2,b3,b4,b5,b6,b7,b8⟩ := hb
  obtain ⟨h1,h2,h3,h4,h5⟩ := h
  have mh := merged_held
  have sm := @sub2_mem (Chan × Sid) s.placed
  simp only [placedOn] at h5
  step_split hs
  all_goals invc_auto

theorem invC_sweepEnd (s s' : St) (g : Nat) (ha : InvA s) (hb : InvB s) (h : InvC s) (hs : step s (.sweepEnd g) = some s') : InvC s' := by
  obtain ⟨a1,a2,a3,a4,a5,a6,a7,a8,a9,a10,a11,a12,a13,a14⟩ := ha
  obtain ⟨b1,b2,b3,b4,b5,b6,b7,b8⟩ := hb
  obtain ⟨h1,h2,h3,h4,h5⟩ := h
  have mh := merged_held
  have sm := @sub2_mem (Chan × Sid) s.placed
  simp only [placedOn] at h5
  step_split hs
  all_goals invc_auto

theorem invC_selPlace (s s' : St) (g i : Nat) (ha : InvA s) (hb : InvB s) (h : InvC s) (hs : step s (.selPlace g i) = some s') : InvC s' := by
  obtain ⟨a1,a2,a3,a4,a5,a6,a7,a8,a9,a10,a11,a12,a13,a14⟩ := ha
  obtain ⟨b1,b2,b3,b4,b5,b6,b7,b8⟩ := hb
  obtain ⟨h1,h2,h3,h4,h5⟩ := h
  have mh := merged_held
  have sm := @sub2_mem (Chan × Sid) s.placed
  simp only [placedOn] at h5
  step_split hs
  all_goals invc_auto

theorem invC_selRecv (s s' : St) (g c : Nat) (ha : InvA s) (hb : InvB s) (h : InvC s) (hs : step s (.selRecv g c) = some s') : InvC s' := by
  obtain ⟨a1,a2,a3,a4,a5,a6,a7,a8,a9,a10,a11,a12,a13,a14⟩ := ha
  obtain ⟨b1,b2,b3,b4,b5,b6,b7,b8⟩ := hb
  obtain ⟨h1,h2,h3,h4,h5⟩ := h
  have mh := merged_held
  have sm := @sub2_mem (Chan × Sid) s.placed
  simp only [placedOn] at h5
  step_split hs
  all_goals invc_auto

theorem invC_doRemove (s s' : St) (g : Nat) (ha : InvA s) (hb : InvB s) (h : InvC s) (hs : step s (.doRemove g) = some s') : InvC s' := by
  obtain ⟨a1,a2,a3,a4,a5,a6,a7,a8,a9,a10,a11,a12,a13,a14⟩ := ha
  obtain ⟨b1,b2,b3,b4,b5,b6,b7,b8⟩ := hb
  obtain ⟨h1,h2,h3,h4,h5⟩ := h
  have mh := merged_held
  have sm := @sub2_mem (Chan × Sid) s.placed
  simp only [placedOn] at h5
  step_split hs
  all_goals invc_auto

theorem invC_unsubCall (s s' : St) (c : Nat) (ha : InvA s) (hb : InvB s) (h : InvC s) (hs : step s (.unsubCall c) = some s') : InvC s' := by
  obtain ⟨a1,a2,a3,a4,a5,a6,a7,a8,a9,a10,a11,a12,a13,a14⟩ := ha
  obtain ⟨b1,b2,b3,b4,b5,b6,b7,b8⟩ := hb
  obtain ⟨h1,h2,h3,h4,h5⟩ := h
  have mh := merged_held
  have sm := @sub2_mem (Chan × Sid) s.placed
  simp only [placedOn] at h5
  step_split hs
  all_goals invc_auto

theorem invC_rmInbox (s s' : St) (c : Nat) (ha : InvA s) (hb : InvB s) (h : InvC s) (hs : step s (.rmInbox c) = some s') : InvC s' := by
  obtain ⟨a1,a2,a3,a4,a5,a6,a7,a8,a9,a10,a11,a12,a13,a14⟩ := ha
  obtain ⟨b1,b2,b3,b4,b5,b6,b7,b8⟩ := hb
  obtain ⟨h1,h2,h3,h4,h5⟩ := h
  have mh := merged_held
  have sm := @sub2_mem (Chan × Sid) s.placed
  simp only [placedOn] at h5
  step_split hs
  all_goals invc_auto

theorem invC_rmToken (s s' : St) (c : Nat) (ha : InvA s) (hb : InvB s) (h : InvC s) (hs : step s (.rmToken c) = some s') : InvC s' := by
  obtain ⟨a1,a2,a3,a4,a5,a6,a7,a8,a9,a10,a11,a12,a13,a14⟩ := ha
  obtain ⟨b1,b2,b3,b4,b5,b6,b7,b8⟩ := hb
  obtain ⟨h1,h2,h3,h4,h5⟩ := h
  have mh := merged_held
  have sm := @sub2_mem (Chan × Sid) s.placed
  simp only [placedOn] at h5
  step_split hs
  all_goals invc_auto

theorem invC_rmDelete (s s' : St) (c : Nat) (ha : InvA s) (hb : InvB s) (h : InvC s) (hs : step s (.rmDelete c) = some s') : InvC s' := by
  obtain ⟨a1,a2,a3,a4,a5,a6,a7,a8,a9,a10,a11,a12,a13,a14⟩ := ha
  obtain ⟨b1,b2,b3,b4,b5,b6,b7,b8⟩ := hb
  obtain ⟨h1,h2,h3,h4,h5⟩ := h
  have mh := merged_held
  have sm := @sub2_mem (Chan × Sid) s.placed
  simp only [placedOn] at h5
  step_split hs
  all_goals invc_auto

theorem invC_rmRelease (s s' : St) (c : Nat) (ha : InvA s) (hb : InvB s) (h : InvC s) (hs : step s (.rmRelease c) = some s') : InvC s' := by
  obtain ⟨a1,a2,a3,a4,a5,a6,a7,a8,a9,a10,a11,a12,a13,a14⟩ := ha
  obtain ⟨b1,b2,b3,b4,b5,b6,b7,b8⟩ := hb
  obtain ⟨h1,h2,h3,h4,h5⟩ := h
  have mh := merged_held
  have sm := @sub2_mem (Chan × Sid) s.placed
  simp only [placedOn] at h5
  step_split hs
  all_goals invc_auto

theorem invC_recvBegin (s s' : St) (c : Nat) (ha : InvA s) (hb : InvB s) (h : InvC s) (hs : step s (.recvBegin c) = some s') : InvC s' := by
  obtain ⟨a1,a2,a3,a4,a5,a6,a7,a8,a9,a10,a11,a12,a13,a14⟩ := ha
  obtain ⟨b1,b2,b3,b4,b5,b6,b7,b8⟩ := hb
  obtain ⟨h1,h2,h3,h4,h5⟩ := h
  have mh := merged_held
  have sm := @sub2_mem (Chan × Sid) s.placed
  simp only [placedOn] at h5
  step_split hs
  all_goals invc_auto

theorem invC_recvTake (s s' : St) (c : Nat) (ha : InvA s) (hb : InvB s) (h : InvC s) (hs : step s (.recvTake c) = some s') : InvC s' := by
  obtain ⟨a1,a2,a3,a4,a5,a6,a7,a8,a9,a10,a11,a12,a13,a14⟩ := ha
  obtain ⟨b1,b2,b3,b4,b5,b6,b7,b8⟩ := hb
  obtain ⟨h1,h2,h3,h4,h5⟩ := h
  have mh := merged_held
  have sm := @sub2_mem (Chan × Sid) s.placed
  simp only [placedOn] at h5
  step_split hs
  all_goals invc_auto

theorem invC_step (s s' : St) (a : Act) (ha : InvA s) (hb : InvB s) (h : InvC s) (hs : step s a = some s') : InvC s' := by
  cases a with
  | subscribe c k => exact invC_subscribe s s' c k ha hb h hs
  | sendCall g => exact invC_sendCall s s' g ha hb h hs
  | acquire g => exact invC_acquire s s' g ha hb h hs
  | merge g => exact invC_merge s s' g ha hb h hs
  | tryOk g => exact invC_tryOk s s' g ha hb h hs
  | tryFail g => exact invC_tryFail s s' g ha hb h hs
  | sweepEnd g => exact invC_sweepEnd s s' g ha hb h hs
  | selPlace g i => exact invC_selPlace s s' g i ha hb h hs
  | selRecv g c => exact invC_selRecv s s' g c ha hb h hs
  | doRemove g => exact invC_doRemove s s' g ha hb h hs
  | unsubCall c => exact invC_unsubCall s s' c ha hb h hs
  | rmInbox c => exact invC_rmInbox s s' c ha hb h hs
  | rmToken c => exact invC_rmToken s s' c ha hb h hs
  | rmDelete c => exact invC_rmDelete s s' c ha hb h hs
  | rmRelease c => exact invC_rmRelease s s' c ha hb h hs
  | recvBegin c => exact invC_recvBegin s s' c ha hb h hs
  | recvTake c => exact invC_recvTake s s' c ha hb h hs

theorem invC_reach {s : St} (h : Reach s) : InvC s := by
  induction h with
  | init => exact invC_init
  | step a hr hs ih => exact invC_step _ _ a (invA_reach hr) (invB_reach hr) ih hs

end Aqv.Feed

/-
  Aqv.Lemmas.LogFilterBits — byte-level bit facts (UInt8 masks as Nat.testBit) and the big-endian byte/bit correspondence
  used by the bloom-bits generator (C16).
-/
import Aqv.Lemmas.LogFilterBloom
namespace Aqv.LogFilter

theorem mask_toNat (k : Nat) (hk : k < 8) : ((1 : UInt8) <<< k.toUInt8).toNat = 2 ^ k := by
  have : k = 0 ∨ k = 1 ∨ k = 2 ∨ k = 3 ∨ k = 4 ∨ k = 5 ∨ k = 6 ∨ k = 7 := by omega
  rcases this with h | h | h | h | h | h | h | h <;> subst h <;> decide

theorem nat_and_two_pow_ne_zero (a k : Nat) : (a &&& 2 ^ k != 0) = a.testBit k := by
  have h : a &&& 2 ^ k = if a.testBit k then 2 ^ k else 0 := by
    apply Nat.eq_of_testBit_eq
    intro j
    rw [Nat.testBit_and, Nat.testBit_two_pow]
    by_cases hkj : k = j
    · subst hkj
      cases hb : a.testBit k <;> simp [Nat.testBit_two_pow]
    · cases hb : a.testBit k <;> simp [hkj, Nat.testBit_two_pow]
  rw [h]
  cases hb : a.testBit k
  · simp
  · have : 2 ^ k ≠ 0 := Nat.pos_iff_ne_zero.mp (Nat.two_pow_pos k)
    simp [this]

/-- `x & (1 << k) != 0` is bit `k` of `x`. -/
theorem test_mask (x : UInt8) (k : Nat) (hk : k < 8) : (x &&& ((1 : UInt8) <<< k.toUInt8) != 0) = x.toNat.testBit k := by
  rw [← nat_and_two_pow_ne_zero, ← mask_toNat k hk, ← UInt8.toNat_and]
  have : ∀ y : UInt8, (y != 0) = (y.toNat != 0) := by
    intro y
    by_cases h : y = 0
    · subst h; rfl
    · have h2 : y.toNat ≠ 0 := fun h2 => h (UInt8.toNat_inj.mp h2)
      rw [Bool.eq_iff_iff]
      simp only [bne_iff_ne, ne_eq, h, h2, not_false_eq_true]
  exact this _

theorem or_mask_testBit (x : UInt8) (a b : Nat) (ha : a < 8) :
    (x ||| ((1 : UInt8) <<< a.toUInt8)).toNat.testBit b = (x.toNat.testBit b || decide (a = b)) := by
  rw [UInt8.toNat_or, Nat.testBit_or, mask_toNat a ha, Nat.testBit_two_pow]

theorem vecBit_eq (v : Bytes) (n : Nat) : vecBit v n = (v.getD (n / 8) 0).toNat.testBit (7 - n % 8) := by
  unfold vecBit
  exact test_mask _ _ (by omega)

theorem bloomBit_eq (arr : Array UInt8) (i : Nat) : bloomBit arr i = (arr.getD (255 - i / 8) 0).toNat.testBit (i % 8) := by
  unfold bloomBit
  exact test_mask _ _ (Nat.mod_lt _ (by decide))

/-! ### big-endian bytes vs. bits of the integer -/

theorem testBit_mul256_add (a : Nat) (b : UInt8) (j : Nat) :
    (a * 256 + b.toNat).testBit j = if j < 8 then b.toNat.testBit j else a.testBit (j - 8) := by
  have h := Nat.testBit_two_pow_mul_add a (b := b.toNat) (i := 8) (by have := b.toNat_lt; omega) j
  have e : 2 ^ 8 * a + b.toNat = a * 256 + b.toNat := by omega
  rw [← e]; exact h

theorem foldl_testBit (bs : Bytes) (acc i : Nat) :
    (bs.foldl (fun a b => a * 256 + b.toNat) acc).testBit i =
      if i / 8 < bs.length then (bs.getD (bs.length - 1 - i / 8) 0).toNat.testBit (i % 8) else acc.testBit (i - 8 * bs.length) := by
  induction bs generalizing acc with
  | nil => simp
  | cons b bs ih =>
    rw [List.foldl_cons, ih]
    simp only [List.length_cons]
    by_cases h1 : i / 8 < bs.length
    · have h2 : i / 8 < bs.length + 1 := by omega
      simp only [h1, h2, if_true]
      have e : bs.length + 1 - 1 - i / 8 = (bs.length - 1 - i / 8) + 1 := by omega
      rw [e, List.getD_cons_succ]
    · simp only [h1, if_false]
      rw [testBit_mul256_add]
      by_cases h3 : i / 8 = bs.length
      · have h2 : i / 8 < bs.length + 1 := by omega
        have h4 : i - 8 * bs.length < 8 := by omega
        simp only [h2, h4, if_true]
        have e : bs.length + 1 - 1 - i / 8 = 0 := by omega
        have e2 : i - 8 * bs.length = i % 8 := by omega
        rw [e, e2, List.getD_cons_zero]
      · have h2 : ¬ (i / 8 < bs.length + 1) := by omega
        have h4 : ¬ (i - 8 * bs.length < 8) := by omega
        simp only [h2, h4, if_false]
        have e : i - 8 * bs.length - 8 = i - 8 * (bs.length + 1) := by omega
        rw [e]

/-- bit `i` of `Bloom.Big()` is bit `i%8` of byte `len-1-i/8`. -/
theorem beNat_testBit (bs : Bytes) (i : Nat) :
    (beNat bs).testBit i = ((bs.getD (bs.length - 1 - i / 8) 0).toNat.testBit (i % 8) && decide (i / 8 < bs.length)) := by
  unfold beNat
  rw [foldl_testBit]
  by_cases h : i / 8 < bs.length <;> simp [h]

/-- the generator's view of a 256-byte bloom is the integer's bit. -/
theorem bloomBit_eq_testBit (bloom : Bytes) (hl : bloom.length = 256) (i : Nat) (hi : i < 2048) :
    bloomBit bloom.toArray i = (beNat bloom).testBit i := by
  rw [bloomBit_eq, beNat_testBit, hl]
  have : i / 8 < 256 := by omega
  simp only [this, decide_true, Bool.and_true]
  rw [Array.getD_eq_getD_getElem?, List.getElem?_toArray, ← List.getD_eq_getElem?_getD]

end Aqv.LogFilter

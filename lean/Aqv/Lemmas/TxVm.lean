/-
  Aqv.Lemmas.TxVm — the C06 contract `EvmOk` PROVED for the environment whose `run` is the C07 machine
  (`TxVm.vmEnv`), from the C07 theorems leftover_le_given_call/create, frame_failure_reverts_call/create, call_terminates,
  create_terminates, no_modelled_panic.
-/
import Aqv.Model.TxVm
import Aqv.Lemmas.Tx
import Aqv.Props.C07
namespace Aqv.TxVm
open Aqv.Tx

variable {ρ : Type}

theorem db0_wf (w : World ρ) : Vm.Db.WF (⟨w, [], 0⟩ : Vm.Db (World ρ)) := by
  intro p hp; cases hp

theorem gasOf_lt (g : Nat) : gasOf g < Vm.two64 := Nat.mod_lt _ (by decide)
theorem gasOf_le (g : Nat) : gasOf g ≤ g := Nat.mod_le _ _

theorem depth0 : ¬ (0 > Gen.VmFlags.callCreateDepth) := by decide

/-- evm.Call at depth 0 with CanTransfer false: ErrInsufficientBalance, all gas back, nothing touched. -/
theorem topCall_cannot_transfer (venv : Vm.Env) (o : Nat → Vm.StepIn (World ρ)) (fuel gas : Nat) (v : Bool) (db : Vm.Db (World ρ))
    (h : (o 0).canTransfer = false) :
    Vm.topCall venv o fuel .call gas v db = ⟨.fail .insufficientBalance, gas, db, 1, 0, []⟩ := by
  unfold Vm.topCall Vm.callWrap
  rw [if_neg depth0]
  simp [h]

theorem topCreate_cannot_transfer (venv : Vm.Env) (o : Nat → Vm.StepIn (World ρ)) (fuel gas : Nat) (db : Vm.Db (World ρ))
    (h : (o 0).canTransfer = false) :
    Vm.topCreate venv o fuel gas db = ⟨.fail .insufficientBalance, gas, db, 1, 0, []⟩ := by
  unfold Vm.topCreate Vm.createWrap
  rw [if_neg depth0]
  simp [h]

theorem machine_cannot_transfer (venv : Vm.Env) (orc : Oracle ρ) (m : Msg) (g : Nat) (w : World ρ)
    (h : (orc m g w 0).canTransfer = false) :
    (machine venv orc m g w).out = .fail .insufficientBalance ∧ (machine venv orc m g w).db.cur = w := by
  unfold machine
  cases m.to with
  | none => simp only []; rw [topCreate_cannot_transfer _ _ _ _ _ h]; exact ⟨rfl, rfl⟩
  | some t => simp only []; rw [topCall_cannot_transfer _ _ _ _ _ _ h]; exact ⟨rfl, rfl⟩

theorem readErr_insufficient {out : Vm.Outcome} {ct : Bool} (h : readErr out ct = some .insufficientBalance) :
    out = .fail .insufficientBalance ∧ ct = false := by
  unfold readErr at h
  split at h
  · cases h
  · cases h
  · split at h
    · cases h
    · next hc => exact ⟨rfl, by simpa using hc⟩
  · cases h

/-- an error reading means the machine's outcome is an error class (or a model artefact). -/
theorem readErr_some {out : Vm.Outcome} {ct : Bool} {e : VmErr} (h : readErr out ct = some e) :
    out.isErr = true ∨ out = .outOfFuel ∨ out = .panic := by
  cases out with
  | ok => simp [readErr] at h
  | revert => exact Or.inl rfl
  | fail x => exact Or.inl rfl
  | outOfFuel => exact Or.inr (Or.inl rfl)
  | panic => exact Or.inr (Or.inr rfl)

/-- the machine's outcome is never one of the two model artefacts (C07 termination + no modelled panic). -/
theorem machine_normal (venv : Vm.Env) (hE : Vm.EnvOK venv) (orc : Oracle ρ) (m : Msg) (g : Nat) (w : World ρ) :
    (machine venv orc m g w).out ≠ .outOfFuel ∧ (machine venv orc m g w).out ≠ .panic := by
  unfold machine
  cases m.to with
  | none =>
    exact ⟨Props.C07.create_terminates venv hE _ _ _ 0 false _ _ 1 (db0_wf w) (gasOf_lt g) (Nat.lt_succ_self _),
      (Props.C07.no_modelled_panic venv hE (orc m g w) (gasOf g + 1) .call _ 0 false _ false _ 1 (db0_wf w) (gasOf_lt g)).2⟩
  | some t =>
    exact ⟨Props.C07.call_terminates venv hE _ _ .call _ 0 false _ _ _ 1 (db0_wf w) (gasOf_lt g) (Nat.lt_succ_self _),
      (Props.C07.no_modelled_panic venv hE (orc m g w) (gasOf g + 1) .call _ 0 false _ (m.value != 0) _ 1 (db0_wf w) (gasOf_lt g)).1⟩

/-- **vmEnv_ok.** The contract C06 assumes of its EVM parameter holds for the C07 machine, for every oracle that answers
    `CanTransfer` truthfully at the top level and whose `Create` nonce effect is `SetNonce(caller, nonce+1)`. -/
theorem vmEnv_ok (venv : Vm.Env) (hE : Vm.EnvOK venv) (orc : Oracle ρ) (hO : OracleOk orc)
    (refund : World ρ → Nat) (fin : World ρ → World ρ) (cb : Addr) : EvmOk (vmEnv venv orc refund fin cb) := by
  constructor
  · -- gas left ≤ gas given
    intro m g w
    show (machine venv orc m g w).gas ≤ g
    refine Nat.le_trans ?_ (gasOf_le g)
    unfold machine
    cases m.to with
    | none => exact Props.C07.leftover_le_given_create venv hE _ _ _ 0 false _ _ 1 (db0_wf w) (gasOf_lt g)
    | some t => exact Props.C07.leftover_le_given_call venv hE _ _ .call _ 0 false _ _ _ 1 (db0_wf w) (gasOf_lt g)
  · -- ErrInsufficientBalance ⇔ CanTransfer fails
    intro m g w
    show readErr (machine venv orc m g w).out (orc m g w 0).canTransfer = some .insufficientBalance ↔ _
    constructor
    · intro h
      have hct := (readErr_insufficient h).2
      rw [hO.canTransfer] at hct
      simpa using hct
    · intro h
      have hct : (orc m g w 0).canTransfer = false := by rw [hO.canTransfer]; simpa using h
      rw [(machine_cannot_transfer venv orc m g w hct).1, hct]; rfl
  · -- failed call: the entry state
    intro m g w e hto herr hne
    show (machine venv orc m g w).db.cur = w
    have herr' : readErr (machine venv orc m g w).out (orc m g w 0).canTransfer = some e := herr
    obtain ⟨hnf, hnp⟩ := machine_normal venv hE orc m g w
    rcases readErr_some herr' with h | h | h
    · revert h
      unfold machine
      cases hm : m.to with
      | none => rw [hm] at hto; cases hto
      | some t =>
        intro h
        exact Props.C07.frame_failure_reverts_call venv hE _ _ .call _ 0 false _ _ _ 1 (db0_wf w) (gasOf_lt g) h
    · exact absurd h hnf
    · exact absurd h hnp
  · -- failed creation: the entry state plus the creator's nonce bump
    intro hH m g w e hto herr hne
    show (machine venv orc m g w).db.cur = setNonce w m.sender (nonceInc (lookup w.nonce m.sender))
    have herr' : readErr (machine venv orc m g w).out (orc m g w 0).canTransfer = some e := herr
    obtain ⟨hnf, hnp⟩ := machine_normal venv hE orc m g w
    have hct : (orc m g w 0).canTransfer = true := by
      cases hc : (orc m g w 0).canTransfer with
      | true => rfl
      | false =>
        exfalso
        rw [(machine_cannot_transfer venv orc m g w hc).1, hc] at herr'
        exact hne (by cases herr'; rfl)
    rcases readErr_some herr' with h | h | h
    · revert h
      unfold machine
      rw [hto]
      intro h
      have := Props.C07.frame_failure_reverts_create venv hE hH _ _ _ 0 false _ _ 1 (db0_wf w) (gasOf_lt g) h
      show (Vm.topCreate venv (orc m g w) (gasOf g + 1) (gasOf g) ⟨w, [], 0⟩).db.cur = _
      unfold Vm.topCreate
      rw [this, if_neg (by intro hc; rcases hc with hc | hc; exact depth0 hc; rw [hct] at hc; cases hc)]
      exact hO.nonceEff m g w w
    · exact absurd h hnf
    · exact absurd h hnp

end Aqv.TxVm

/-
  Lemmas for Layer B of Aqv.Model.BlockImport (validation ⇔ commitments, builder ⇒ importer).  Core Lean only.
-/
import Aqv.Lemmas.BlockImport
namespace Aqv.BlockImport

variable {St Tx : Type}

/-! ### validation ⇔ the six commitments -/

theorem validateBodyHashes_ok_iff (C : Comp St Tx) (b : Block Tx) :
    validateBodyHashes C b = .ok () ↔ (C.uncleHash b.uncles = b.header.uncleHash ∧ C.txRoot b.txs = b.header.txHash) := by
  unfold validateBodyHashes
  by_cases h1 : C.uncleHash b.uncles = b.header.uncleHash <;> by_cases h2 : C.txRoot b.txs = b.header.txHash <;> simp [h1, h2]

theorem validateState_ok_iff (C : Comp St Tx) (cfg : Cfg) (b : Block Tx) (st : St) (rcs : List Receipt) (used : Nat) :
    validateState C cfg b st rcs used = .ok () ↔
      (b.header.gasUsed = used ∧ createBloom C rcs = b.header.bloom ∧ C.receiptRoot rcs = b.header.receiptHash ∧
        (C.interRoot (isForked cfg.eip158 b.header.number) st).2 = b.header.root) := by
  unfold validateState
  by_cases h1 : b.header.gasUsed = used <;> by_cases h2 : createBloom C rcs = b.header.bloom <;>
    by_cases h3 : C.receiptRoot rcs = b.header.receiptHash <;>
    by_cases h4 : (C.interRoot (isForked cfg.eip158 b.header.number) st).2 = b.header.root <;> simp [h1, h2, h3, h4]

theorem result_ok_iff (C : Comp St Tx) (cfg : Cfg) (pst : St) (b : Block Tx) (q : Processed St) :
    result C cfg pst b = .ok q ↔
      ∃ p, process C cfg pst b = .ok p ∧ validateState C cfg b p.st p.receipts p.gasUsed = .ok () ∧
        q = { p with st := C.finalise (isForked cfg.eip158 b.header.number) p.st } := by
  unfold result
  cases hp : process C cfg pst b with
  | error e => simp
  | ok p =>
    simp only []
    cases hv : validateState C cfg b p.st p.receipts p.gasUsed with
    | error e => simp [hv]
    | ok u =>
      cases u
      simp only [Except.ok.injEq]
      constructor
      · intro h; exact ⟨p, rfl, hv, h.symm⟩
      · rintro ⟨p', e, _, hq⟩; cases e; exact hq.symm

theorem validateAll_ok_iff (C : Comp St Tx) (cfg : Cfg) (pst : St) (b : Block Tx) (q : Processed St) :
    validateAll C cfg pst b = .ok q ↔ validateBodyHashes C b = .ok () ∧ result C cfg pst b = .ok q := by
  unfold validateAll
  cases hb : validateBodyHashes C b with
  | error e => simp
  | ok u => cases u; simp

/-- acceptance ⇔ the header's six commitments are the recomputed ones. -/
theorem validateAll_iff_commitments (C : Comp St Tx) (cfg : Cfg) (pst : St) (b : Block Tx) :
    (∃ q, validateAll C cfg pst b = .ok q) ↔ recompute C cfg pst b = some b.header.commitments := by
  unfold recompute
  constructor
  · rintro ⟨q, hq⟩
    obtain ⟨hb, hr⟩ := (validateAll_ok_iff C cfg pst b q).1 hq
    obtain ⟨p, hp, hv, _⟩ := (result_ok_iff C cfg pst b q).1 hr
    obtain ⟨u1, u2⟩ := (validateBodyHashes_ok_iff C b).1 hb
    obtain ⟨v1, v2, v3, v4⟩ := (validateState_ok_iff C cfg b p.st p.receipts p.gasUsed).1 hv
    rw [hp]
    simp only [Header.commitments, Option.some.injEq, Commitments.mk.injEq]
    exact ⟨u2, u1, v4, v3, v2, v1.symm⟩
  · intro h
    cases hp : process C cfg pst b with
    | error e => rw [hp] at h; cases h
    | ok p =>
      rw [hp] at h
      simp only [Header.commitments, Option.some.injEq, Commitments.mk.injEq] at h
      obtain ⟨u2, u1, v4, v3, v2, v1⟩ := h
      refine ⟨{ p with st := C.finalise (isForked cfg.eip158 b.header.number) p.st }, ?_⟩
      rw [validateAll_ok_iff]
      refine ⟨(validateBodyHashes_ok_iff C b).2 ⟨u1, u2⟩, ?_⟩
      rw [result_ok_iff]
      exact ⟨p, hp, (validateState_ok_iff C cfg b p.st p.receipts p.gasUsed).2 ⟨v1.symm, v2, v3, v4⟩, rfl⟩

/-! ### the transaction loop only sees the EVM context of the header -/

theorem applyTransaction_congr (C : Comp St Tx) (cfg : Cfg) (h h' : Header) (a a' : Option Addr)
    (hc : ctxOf h a = ctxOf h' a') (st : St) (pool used : Nat) (tx : Tx) :
    applyTransaction C cfg h a st pool used tx = applyTransaction C cfg h' a' st pool used tx := by
  have hn : h.number = h'.number := congrArg EvmCtx.number hc
  unfold applyTransaction
  rw [hc, hn]

theorem applyTxs_congr (C : Comp St Tx) (cfg : Cfg) (h h' : Header) (a a' : Option Addr)
    (hc : ctxOf h a = ctxOf h' a') (st : St) (pool used : Nat) (txs : List Tx) :
    applyTxs C cfg h a st pool used txs = applyTxs C cfg h' a' st pool used txs := by
  induction txs generalizing st pool used with
  | nil => rfl
  | cons tx rest ih =>
    simp only [applyTxs]
    rw [applyTransaction_congr C cfg h h' a a' hc]
    cases applyTransaction C cfg h' a' st pool used tx with
    | error e => rfl
    | ok r => obtain ⟨st1, rc, pool1, used1⟩ := r; simp only []; rw [ih]

theorem accumulateRewards_congr (C : Comp St Tx) (st : St) (h h' : Header) (uncles : List Header)
    (hn : h.number = h'.number) (hcb : h.coinbase = h'.coinbase) :
    accumulateRewards C st h uncles = accumulateRewards C st h' uncles := by
  unfold accumulateRewards
  rw [hn, hcb]

theorem finalizeState_congr (C : Comp St Tx) (cfg : Cfg) (st : St) (h h' : Header) (uncles : List Header)
    (hn : h.number = h'.number) (hcb : h.coinbase = h'.coinbase) :
    finalizeState C cfg st h uncles = finalizeState C cfg st h' uncles := by
  unfold finalizeState
  rw [accumulateRewards_congr C st h h' uncles hn hcb, hn]

/-! ### NewBlock -/

theorem createBloom_nil (C : Comp St Tx) : createBloom C [] = 0 := rfl

/-- what `NewBlock` leaves alone and what it derives (given the three empty-list constants are what the functions return). -/
theorem newBlock_spec (C : Comp St Tx) (eR eU : Hash) (h1 : C.txRoot [] = eR) (h2 : C.receiptRoot [] = eR) (h3 : C.uncleHash [] = eU)
    (h : Header) (hb : h.bloom = 0) (txs : List Tx) (uncles : List Header) (rcs : List Receipt) :
    let b := newBlock C eR eU h txs uncles rcs
    b.txs = txs ∧ b.uncles = uncles ∧
    b.header.parentHash = h.parentHash ∧ b.header.number = h.number ∧ b.header.coinbase = h.coinbase ∧
    b.header.gasLimit = h.gasLimit ∧ b.header.time = h.time ∧ b.header.difficulty = h.difficulty ∧
    b.header.gasUsed = h.gasUsed ∧ b.header.root = h.root ∧
    b.header.txHash = C.txRoot txs ∧ b.header.uncleHash = C.uncleHash uncles ∧
    b.header.receiptHash = C.receiptRoot rcs ∧ b.header.bloom = createBloom C rcs := by
  unfold newBlock
  cases txs <;> cases uncles <;> cases rcs <;> simp [h1, h2, h3, hb, createBloom_nil]


/-! ### builder ⇒ importer -/

theorem build_import_lemma (C : Comp St Tx) (cfg : Cfg) (eR eU : Hash)
    (h1 : C.txRoot [] = eR) (h2 : C.receiptRoot [] = eR) (h3 : C.uncleHash [] = eU)
    (idem : ∀ d st, C.root (C.finalise d (C.finalise d st)) = C.root (C.finalise d st))
    (parent : Header) (pst : St) (cb : Addr) (time extra : Nat) (txs : List Tx) (uncles : List Header) (B : Built St Tx)
    (hB : buildBlock C cfg eR eU parent pst cb time extra txs uncles = .ok B) :
    ∃ p, process C cfg pst B.block = .ok p ∧ p.st = B.st ∧ p.receipts = B.receipts ∧
      p.gasUsed = B.block.header.gasUsed ∧ C.root p.st = B.block.header.root ∧
      validateBodyHashes C B.block = .ok () ∧
      validateState C cfg B.block p.st p.receipts p.gasUsed = .ok () := by
  unfold buildBlock at hB
  simp only [] at hB
  generalize hh0 : makeHeader C parent cb time extra = h0 at hB
  have g0 : h0.gasUsed = 0 := by rw [← hh0]; rfl
  have b0 : h0.bloom = 0 := by rw [← hh0]; rfl
  cases ha : applyTxs C cfg h0 (some h0.coinbase) (forkEdits C cfg h0.number pst) h0.gasLimit h0.gasUsed txs with
  | error e => rw [ha] at hB; cases hB
  | ok r =>
    obtain ⟨st, rcs, pool, used⟩ := r
    rw [ha] at hB
    simp only [Except.ok.injEq] at hB
    -- name the pieces
    generalize hfs : finalizeState C cfg st { h0 with gasUsed := used } uncles = fs at hB
    have spec := newBlock_spec C eR eU h1 h2 h3 { h0 with gasUsed := used, root := fs.2 } b0 txs uncles rcs
    simp only [] at spec
    subst hB
    simp only [] at spec ⊢
    obtain ⟨s1, s2, s3, s4, s5, s6, s7, s8, s9, s10, s11, s12, s13, s14⟩ := spec
    generalize newBlock C eR eU { h0 with gasUsed := used, root := fs.2 } txs uncles rcs = blk at *
    -- the importer's transaction loop sees the same context
    have hctx : ctxOf blk.header none = ctxOf h0 (some h0.coinbase) := by
      unfold ctxOf
      simp [s3, s4, s5, s6, s7, s8]
    have hloop : applyTxs C cfg blk.header none (forkEdits C cfg blk.header.number pst) blk.header.gasLimit 0 blk.txs
        = .ok (st, rcs, pool, used) := by
      rw [applyTxs_congr C cfg blk.header h0 none (some h0.coinbase) hctx, s4, s6, s1, ← g0]
      exact ha
    have hfin : finalizeState C cfg st blk.header blk.uncles = fs := by
      rw [s2, ← hfs]
      exact finalizeState_congr C cfg st blk.header _ uncles s4 s5
    have hproc : process C cfg pst blk = .ok { st := fs.1, receipts := rcs, logs := rcs.flatMap (·.logs), gasUsed := used } := by
      unfold process
      rw [hloop]
      simp only [hfin]
    -- fs.1 is a finalised state and fs.2 its root
    have hfs1 : fs.1 = C.finalise (isForked cfg.eip158 h0.number) (accumulateRewards C st { h0 with gasUsed := used } uncles) := by
      rw [← hfs]; rfl
    have hfs2 : fs.2 = C.root fs.1 := by rw [← hfs]; rfl
    have hroot : C.root (C.finalise (isForked cfg.eip158 blk.header.number) fs.1) = fs.2 := by
      rw [s4, hfs2, hfs1]
      exact idem _ _
    refine ⟨_, hproc, rfl, rfl, s9.symm, ?_, ?_, ?_⟩
    · show C.root fs.1 = blk.header.root
      rw [s10, hfs2]
    · exact (validateBodyHashes_ok_iff C blk).2 ⟨by rw [s2, s12], by rw [s1, s11]⟩
    · refine (validateState_ok_iff C cfg blk fs.1 rcs used).2 ⟨s9, s14.symm, s13.symm, ?_⟩
      show C.root (C.finalise (isForked cfg.eip158 blk.header.number) fs.1) = blk.header.root
      rw [hroot, s10]


/-! ### the miner's loop with skipped candidates -/

/-- the gas pool only has to be large enough: with more gas in the pool a message that could be applied is applied with the
    same effects, and the surplus stays in the pool (`GasPool.SubGas` is the only reader). -/
def PoolMono (C : Comp St Tx) : Prop :=
  ∀ cfg ctx st p p' tx r, C.applyMsg cfg ctx st p tx = .ok r → p ≤ p' →
    C.applyMsg cfg ctx st p' tx = .ok { r with pool := r.pool + (p' - p) }

theorem applyTransaction_poolMono (C : Comp St Tx) (hm : PoolMono C) (cfg : Cfg) (h : Header) (a : Option Addr) (st : St)
    (p p' used : Nat) (tx : Tx) (st1 : St) (rc : Receipt) (p1 used1 : Nat) (hp : p ≤ p')
    (ha : applyTransaction C cfg h a st p used tx = .ok (st1, rc, p1, used1)) :
    applyTransaction C cfg h a st p' used tx = .ok (st1, rc, p1 + (p' - p), used1) := by
  unfold applyTransaction at ha ⊢
  cases hr : C.applyMsg cfg (ctxOf h a) st p tx with
  | error e => rw [hr] at ha; cases ha
  | ok r =>
    rw [hr] at ha
    rw [hm cfg _ st p p' tx r hr hp]
    simp only [Except.ok.injEq, Prod.mk.injEq] at ha ⊢
    obtain ⟨e1, e2, e3, e4⟩ := ha
    exact ⟨e1, e2, by rw [e3], e4⟩

/-- the transactions the miner committed, applied one after the other from a pool at least as large (the importer's: it never
    attempted the skipped ones), give the miner's state, receipts and gas. -/
theorem commitTxs_replay (C : Comp St Tx) (hm : PoolMono C) (cfg : Cfg) (h : Header) (a : Option Addr) (skipPool : Nat → Tx → Nat)
    (hs : ∀ p tx, skipPool p tx ≤ p) (cands : List Tx) (st : St) (p p' used : Nat) (hp : p ≤ p') :
    ∃ pf, applyTxs C cfg h a st p' used (commitTxs C cfg h a skipPool st p used cands).included =
      .ok ((commitTxs C cfg h a skipPool st p used cands).st, (commitTxs C cfg h a skipPool st p used cands).receipts, pf,
           (commitTxs C cfg h a skipPool st p used cands).used) := by
  induction cands generalizing st p p' used with
  | nil => exact ⟨p', rfl⟩
  | cons tx rest ih =>
    simp only [commitTxs]
    cases ha : applyTransaction C cfg h a st p used tx with
    | error e =>
      simp only []
      exact ih st (skipPool p tx) p' used (Nat.le_trans (hs p tx) hp)
    | ok r =>
      obtain ⟨st1, rc, p1, used1⟩ := r
      simp only []
      have ha' := applyTransaction_poolMono C hm cfg h a st p p' used tx st1 rc p1 used1 hp ha
      obtain ⟨pf, hpf⟩ := ih st1 p1 (p1 + (p' - p)) used1 (Nat.le_add_right _ _)
      refine ⟨pf, ?_⟩
      simp only [applyTxs, ha', hpf]

end Aqv.BlockImport

/-
  Aqv.Lemmas.TrieRun — histories over the public API: the reachable tries are canonical, never panic, and denote the
  reference map.
-/
import Aqv.Lemmas.TrieUnique
import Aqv.Lemmas.TrieCodec
namespace Aqv.Trie
open Aqv

/-- the keys of a canonical trie are terminated. -/
theorem wf_lookup_term {n : Node} (h : WF n) : ∀ k, lookup n k ≠ none → Term k := by
  induction h with
  | leaf p v hp _ =>
    intro k hk
    rw [leaf_lookup] at hk
    by_cases e : k = p
    · subst e; exact hp
    · simp [e] at hk
  | ext p cs _ hh _ ih =>
    intro k hk
    obtain ⟨r, rfl⟩ := short_key_prefix hk
    rw [lookup_short_append] at hk
    exact term_append_hex hh (ih r hk)
  | full cs c1 c2 _ ih =>
    intro k hk
    cases k with
    | nil => simp [lookup] at hk
    | cons x r =>
      rw [lookup_full_cons] at hk
      by_cases hx : x = T
      · subst hx
        rcases c2 with e | ⟨v, _, e⟩
        · rw [e] at hk; simp [lookup] at hk
        · rw [e, lookup_value] at hk
          by_cases hr : r = []
          · subst hr; exact term_single
          · simp [hr] at hk
      · have hne : cs x ≠ .nil := by
          intro e; rw [e] at hk; simp [lookup] at hk
        have ht := ih x hx hne r hk
        exact term_cons.2 (Or.inr ⟨term_ne_nil ht, hx, ht⟩)

theorem wfroot_lookup_term {t : Node} (h : WFRoot t) {k : List Nib} (hk : lookup t k ≠ none) : Term k := by
  rcases h with rfl | h
  · simp [lookup] at hk
  · exact wf_lookup_term h k hk

theorem pos_of_wfroot {t : Node} (h : WFRoot t) {k : List Nib} (hk : Term k) : Pos t k := Or.inl ⟨hk, h⟩

/-- uniqueness at root level (the empty trie included). -/
theorem wfroot_unique {t₁ t₂ : Node} (h₁ : WFRoot t₁) (h₂ : WFRoot t₂) (h : ∀ k, lookup t₁ k = lookup t₂ k) : t₁ = t₂ := by
  rcases h₁ with rfl | h₁ <;> rcases h₂ with rfl | h₂
  · rfl
  · obtain ⟨k, hk⟩ := wf_exists_key h₂
    rw [← h] at hk; simp [lookup] at hk
  · obtain ⟨k, hk⟩ := wf_exists_key h₁
    rw [h] at hk; simp [lookup] at hk
  · exact wf_unique_aux t₁ h₁ t₂ h₂ h

/-- the invariant tying a reachable trie to the reference map `m` over byte keys. -/
structure Inv (t : Node) (m : Bytes → Option Bytes) : Prop where
  wf : WFRoot t
  content : ∀ kb, lookup t (keybytesToHex kb) = m kb
  bytekeys : ∀ k, lookup t k ≠ none → ∃ kb, k = keybytesToHex kb

theorem inv_empty : Inv .nil (fun _ => none) :=
  ⟨Or.inl rfl, fun _ => by simp [lookup], fun k hk => by simp [lookup] at hk⟩

theorem inv_insert {t : Node} {m : Bytes → Option Bytes} (h : Inv t m) (kb v : Bytes) (hv : v ≠ []) :
    ∃ d, insert t (keybytesToHex kb) v = some (d, ins t (keybytesToHex kb) v) ∧
      Inv (ins t (keybytesToHex kb) v) (fun k' => if k' = kb then some v else m k') := by
  have hk := term_keybytesToHex kb
  have hp := pos_of_wfroot h.wf hk
  obtain ⟨d, hd⟩ := insert_spec t _ v hp
  refine ⟨d, hd, ⟨Or.inr (ins_wf t _ v hk h.wf hv), ?_, ?_⟩⟩
  · intro k'
    rw [ins_lookup t _ v hp]
    by_cases e : k' = kb
    · subst e; simp
    · have : keybytesToHex k' ≠ keybytesToHex kb := fun h' => e (keybytesToHex_injective h')
      simp [e, this, h.content]
  · intro k hk'
    rw [ins_lookup t _ v hp] at hk'
    by_cases e : k = keybytesToHex kb
    · exact ⟨kb, e⟩
    · simp [e] at hk'
      exact h.bytekeys k hk'

theorem inv_delete {t : Node} {m : Bytes → Option Bytes} (h : Inv t m) (kb : Bytes) :
    ∃ d, delete t (keybytesToHex kb) = some (d, del t (keybytesToHex kb)) ∧
      Inv (del t (keybytesToHex kb)) (fun k' => if k' = kb then none else m k') := by
  have hk := term_keybytesToHex kb
  have hp := pos_of_wfroot h.wf hk
  obtain ⟨d, hd⟩ := delete_spec t _ hp
  refine ⟨d, hd, ⟨del_wf t _ hk h.wf, ?_, ?_⟩⟩
  · intro k'
    rw [del_lookup t _ hp]
    by_cases e : k' = kb
    · subst e; simp
    · have : keybytesToHex k' ≠ keybytesToHex kb := fun h' => e (keybytesToHex_injective h')
      simp [e, this, h.content]
  · intro k hk'
    rw [del_lookup t _ hp] at hk'
    by_cases e : k = keybytesToHex kb
    · exact ⟨kb, e⟩
    · simp [e] at hk'
      exact h.bytekeys k hk'

theorem inv_step {t : Node} {m : Bytes → Option Bytes} (h : Inv t m) (op : Op) :
    ∃ t', step t op = some t' ∧ Inv t' (absStep m op) := by
  cases op with
  | other => exact ⟨t, rfl, h⟩
  | delete kb =>
    obtain ⟨d, hd, hi⟩ := inv_delete h kb
    exact ⟨del t (keybytesToHex kb), by simp [step, tryDelete, hd], hi⟩
  | update kb v =>
    by_cases hv : v.length ≠ 0
    · have hv' : v ≠ [] := by intro e; subst e; simp at hv
      obtain ⟨d, hd, hi⟩ := inv_insert h kb v hv'
      refine ⟨ins t (keybytesToHex kb) v, by simp [step, tryUpdate, hv, hd], ?_⟩
      simpa [absStep, hv] using hi
    · obtain ⟨d, hd, hi⟩ := inv_delete h kb
      refine ⟨del t (keybytesToHex kb), by simp [step, tryUpdate, hv, hd], ?_⟩
      simpa [absStep, hv] using hi

theorem inv_runFrom {t : Node} {m : Bytes → Option Bytes} (h : Inv t m) (ops : List Op) :
    ∃ t', runFrom t ops = some t' ∧ Inv t' (absFrom m ops) := by
  induction ops generalizing t m with
  | nil => exact ⟨t, rfl, h⟩
  | cons op ops ih =>
    obtain ⟨t₁, h1, hi⟩ := inv_step h op
    obtain ⟨t₂, h2, hi2⟩ := ih hi
    exact ⟨t₂, by simp [runFrom, h1, h2], hi2⟩

theorem inv_run (ops : List Op) : ∃ t, run ops = some t ∧ Inv t (absOf ops) := inv_runFrom inv_empty ops

/-- two tries satisfying the invariant for extensionally equal maps are the same tree. -/
theorem inv_unique {t₁ t₂ : Node} {m₁ m₂ : Bytes → Option Bytes} (h₁ : Inv t₁ m₁) (h₂ : Inv t₂ m₂)
    (h : ∀ kb, m₁ kb = m₂ kb) : t₁ = t₂ := by
  apply wfroot_unique h₁.wf h₂.wf
  intro k
  cases e₁ : lookup t₁ k with
  | some v =>
    obtain ⟨kb, rfl⟩ := h₁.bytekeys k (by rw [e₁]; simp)
    rw [← e₁, h₁.content, h₂.content, h]
  | none =>
    cases e₂ : lookup t₂ k with
    | none => rfl
    | some v =>
      obtain ⟨kb, rfl⟩ := h₂.bytekeys k (by rw [e₂]; simp)
      rw [← e₁, ← e₂, h₁.content, h₂.content, h]

end Aqv.Trie

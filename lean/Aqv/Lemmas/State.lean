/-
  Aqv.Lemmas.State — helper lemmas about the StateDB model (Aqv.Model.State): the view-equivalence `Sim`, its
  compatibility with every journal `undo`, and the "every mutator is undone by its own journal entries" lemma.
-/
import Aqv.Model.State
namespace Aqv.State

/-! ### point updates and the basic state transformers -/

@[simp] theorem upd_same {β : Type} (m : Nat → β) (a : Nat) (v : β) : upd m a v a = v := by simp [upd]
@[simp] theorem upd_ne {β : Type} (m : Nat → β) (a b : Nat) (v : β) (h : b ≠ a) : upd m a v b = m b := by simp [upd, h]
theorem upd_apply {β : Type} (m : Nat → β) (a b : Nat) (v : β) : upd m a v b = if b = a then v else m b := rfl

@[simp] theorem markDirty_trie (s : SDB) (a : Addr) : (markDirty s a).trie = s.trie := by unfold markDirty; split <;> rfl
@[simp] theorem markDirty_objs (s : SDB) (a : Addr) : (markDirty s a).objs = s.objs := by unfold markDirty; split <;> rfl
@[simp] theorem markDirty_journal (s : SDB) (a : Addr) : (markDirty s a).journal = s.journal := by unfold markDirty; split <;> rfl
@[simp] theorem markDirty_revs (s : SDB) (a : Addr) : (markDirty s a).revs = s.revs := by unfold markDirty; split <;> rfl
@[simp] theorem markDirty_nextId (s : SDB) (a : Addr) : (markDirty s a).nextId = s.nextId := by unfold markDirty; split <;> rfl
@[simp] theorem markDirty_refund (s : SDB) (a : Addr) : (markDirty s a).refund = s.refund := by unfold markDirty; split <;> rfl
@[simp] theorem markDirty_logs (s : SDB) (a : Addr) : (markDirty s a).logs = s.logs := by unfold markDirty; split <;> rfl
@[simp] theorem markDirty_logSize (s : SDB) (a : Addr) : (markDirty s a).logSize = s.logSize := by unfold markDirty; split <;> rfl
@[simp] theorem markDirty_preimages (s : SDB) (a : Addr) : (markDirty s a).preimages = s.preimages := by unfold markDirty; split <;> rfl
@[simp] theorem markDirty_thash (s : SDB) (a : Addr) : (markDirty s a).thash = s.thash := by unfold markDirty; split <;> rfl
@[simp] theorem markDirty_fault (s : SDB) (a : Addr) : (markDirty s a).fault = s.fault := by unfold markDirty; split <;> rfl
theorem mem_markDirty (s : SDB) (a b : Addr) : b ∈ (markDirty s a).dirty ↔ b = a ∨ b ∈ s.dirty := by
  unfold markDirty; split <;> simp_all

@[simp] theorem look_markDirty (s : SDB) (a b : Addr) : look (markDirty s a) b = look s b := by simp [look]
@[simp] theorem look_push (s : SDB) (e : Entry) (b : Addr) : look (push s e) b = look s b := rfl

theorem look_putObj (s : SDB) (a b : Addr) (o : Obj) :
    look (putObj s a o) b = if b = a then (if o.deleted then none else some o) else look s b := by
  simp only [look, putObj, upd]
  by_cases h : b = a <;> simp [h]

theorem look_writeObj (s : SDB) (a b : Addr) (o : Obj) :
    look (writeObj s a o) b = if b = a then (if o.deleted then none else some { o with armed := false }) else look s b := by
  unfold writeObj
  rw [look_putObj]
  split
  · rfl
  · split <;> simp


@[simp] theorem putObj_trie (s : SDB) (a : Addr) (o : Obj) : (putObj s a o).trie = s.trie := rfl
@[simp] theorem putObj_journal (s : SDB) (a : Addr) (o : Obj) : (putObj s a o).journal = s.journal := rfl
@[simp] theorem putObj_revs (s : SDB) (a : Addr) (o : Obj) : (putObj s a o).revs = s.revs := rfl
@[simp] theorem putObj_nextId (s : SDB) (a : Addr) (o : Obj) : (putObj s a o).nextId = s.nextId := rfl
@[simp] theorem putObj_refund (s : SDB) (a : Addr) (o : Obj) : (putObj s a o).refund = s.refund := rfl
@[simp] theorem putObj_logs (s : SDB) (a : Addr) (o : Obj) : (putObj s a o).logs = s.logs := rfl
@[simp] theorem putObj_logSize (s : SDB) (a : Addr) (o : Obj) : (putObj s a o).logSize = s.logSize := rfl
@[simp] theorem putObj_preimages (s : SDB) (a : Addr) (o : Obj) : (putObj s a o).preimages = s.preimages := rfl
@[simp] theorem putObj_thash (s : SDB) (a : Addr) (o : Obj) : (putObj s a o).thash = s.thash := rfl
@[simp] theorem putObj_fault (s : SDB) (a : Addr) (o : Obj) : (putObj s a o).fault = s.fault := rfl
@[simp] theorem putObj_dirty (s : SDB) (a : Addr) (o : Obj) : (putObj s a o).dirty = s.dirty := rfl

@[simp] theorem writeObj_trie (s : SDB) (a : Addr) (o : Obj) : (writeObj s a o).trie = s.trie := by unfold writeObj; split <;> simp
@[simp] theorem writeObj_journal (s : SDB) (a : Addr) (o : Obj) : (writeObj s a o).journal = s.journal := by unfold writeObj; split <;> simp
@[simp] theorem writeObj_revs (s : SDB) (a : Addr) (o : Obj) : (writeObj s a o).revs = s.revs := by unfold writeObj; split <;> simp
@[simp] theorem writeObj_nextId (s : SDB) (a : Addr) (o : Obj) : (writeObj s a o).nextId = s.nextId := by unfold writeObj; split <;> simp
@[simp] theorem writeObj_refund (s : SDB) (a : Addr) (o : Obj) : (writeObj s a o).refund = s.refund := by unfold writeObj; split <;> simp
@[simp] theorem writeObj_logs (s : SDB) (a : Addr) (o : Obj) : (writeObj s a o).logs = s.logs := by unfold writeObj; split <;> simp
@[simp] theorem writeObj_logSize (s : SDB) (a : Addr) (o : Obj) : (writeObj s a o).logSize = s.logSize := by unfold writeObj; split <;> simp
@[simp] theorem writeObj_preimages (s : SDB) (a : Addr) (o : Obj) : (writeObj s a o).preimages = s.preimages := by unfold writeObj; split <;> simp
@[simp] theorem writeObj_thash (s : SDB) (a : Addr) (o : Obj) : (writeObj s a o).thash = s.thash := by unfold writeObj; split <;> simp
@[simp] theorem writeObj_fault (s : SDB) (a : Addr) (o : Obj) : (writeObj s a o).fault = s.fault := by unfold writeObj; split <;> simp

theorem look_not_deleted {s : SDB} {a : Addr} {o : Obj} (h : look s a = some o) : o.deleted = false := by
  unfold look at h
  split at h
  · split at h
    · simp at h
    · simp at h; subst h; simp_all
  · cases ht : s.trie a <;> simp [ht] at h
    subst h; rfl

/-! ### view equivalence -/

/-- two objects the getters cannot tell apart. -/
def ObjEq (o p : Obj) : Prop :=
  o.nonce = p.nonce ∧ o.balance = p.balance ∧ o.code = p.code ∧ o.suicided = p.suicided ∧ ∀ k, getState o k = getState p k

def OOEq : Option Obj → Option Obj → Prop
  | none, none => True
  | some o, some p => ObjEq o p
  | _, _ => False

theorem ObjEq.rfl' (o : Obj) : ObjEq o o := ⟨rfl, rfl, rfl, rfl, fun _ => rfl⟩
theorem ObjEq.symm {o p : Obj} (h : ObjEq o p) : ObjEq p o :=
  ⟨h.1.symm, h.2.1.symm, h.2.2.1.symm, h.2.2.2.1.symm, fun k => (h.2.2.2.2 k).symm⟩
theorem ObjEq.trans {o p q : Obj} (h : ObjEq o p) (g : ObjEq p q) : ObjEq o q :=
  ⟨h.1.trans g.1, h.2.1.trans g.2.1, h.2.2.1.trans g.2.2.1, h.2.2.2.1.trans g.2.2.2.1, fun k => (h.2.2.2.2 k).trans (g.2.2.2.2 k)⟩
theorem ObjEq.empty {o p : Obj} (h : ObjEq o p) : o.empty = p.empty := by
  simp [Obj.empty, h.1, h.2.1, h.2.2.1]

theorem OOEq.rfl' : ∀ (x : Option Obj), OOEq x x
  | none => trivial
  | some o => ObjEq.rfl' o
theorem OOEq.symm : ∀ {x y : Option Obj}, OOEq x y → OOEq y x
  | none, none, _ => trivial
  | some _, some _, h => ObjEq.symm h
  | none, some _, h => h.elim
  | some _, none, h => h.elim
theorem OOEq.trans : ∀ {x y z : Option Obj}, OOEq x y → OOEq y z → OOEq x z
  | none, none, none, _, _ => trivial
  | some _, some _, some _, h, g => ObjEq.trans h g
  | none, none, some _, _, g => g.elim
  | none, some _, _, h, _ => h.elim
  | some _, none, _, h, _ => h.elim
  | some _, some _, none, _, g => g.elim

/-- `Sim s t`: no getter (and no later journal undo) can tell `s` from `t`. The dirty set, the callback flags, the
    journal and the revision stack are deliberately not part of it. -/
structure Sim (s t : SDB) : Prop where
  trie : s.trie = t.trie
  refund : s.refund = t.refund
  logs : s.logs = t.logs
  logSize : s.logSize = t.logSize
  preimages : s.preimages = t.preimages
  thash : s.thash = t.thash
  fault : s.fault = t.fault
  objs : ∀ a, OOEq (look s a) (look t a)

theorem Sim.rfl' (s : SDB) : Sim s s := ⟨rfl, rfl, rfl, rfl, rfl, rfl, rfl, fun _ => OOEq.rfl' _⟩
theorem Sim.symm {s t : SDB} (h : Sim s t) : Sim t s :=
  ⟨h.trie.symm, h.refund.symm, h.logs.symm, h.logSize.symm, h.preimages.symm, h.thash.symm, h.fault.symm, fun a => (h.objs a).symm⟩
theorem Sim.trans {s t u : SDB} (h : Sim s t) (g : Sim t u) : Sim s u :=
  ⟨h.trie.trans g.trie, h.refund.trans g.refund, h.logs.trans g.logs, h.logSize.trans g.logSize, h.preimages.trans g.preimages,
   h.thash.trans g.thash, h.fault.trans g.fault, fun a => (h.objs a).trans (g.objs a)⟩

theorem Sim.writeObj {s t : SDB} (h : Sim s t) (a : Addr) {o p : Obj} (hop : ObjEq o p)
    (ho : o.deleted = false) (hp : p.deleted = false) : Sim (writeObj s a o) (writeObj t a p) := by
  refine ⟨by simpa using h.trie, by simpa using h.refund, by simpa using h.logs, by simpa using h.logSize,
    by simpa using h.preimages, by simpa using h.thash, by simpa using h.fault, fun b => ?_⟩
  rw [look_writeObj, look_writeObj]
  by_cases hb : b = a
  · simp only [hb, ho, hp, if_true]
    exact ⟨hop.1, hop.2.1, hop.2.2.1, hop.2.2.2.1, hop.2.2.2.2⟩
  · simp only [hb, if_false]; exact h.objs b

theorem Sim.putObj {s t : SDB} (h : Sim s t) (a : Addr) {o p : Obj} (hop : ObjEq o p)
    (hd : o.deleted = p.deleted) : Sim (putObj s a o) (putObj t a p) := by
  refine ⟨h.trie, h.refund, h.logs, h.logSize, h.preimages, h.thash, h.fault, fun b => ?_⟩
  rw [look_putObj, look_putObj]
  by_cases hb : b = a
  · simp only [hb, if_true, hd]
    split
    · trivial
    · exact hop
  · simp only [hb, if_false]; exact h.objs b

theorem Sim.setFault {s t : SDB} (h : Sim s t) : Sim { s with fault := true } { t with fault := true } :=
  ⟨h.trie, h.refund, h.logs, h.logSize, h.preimages, h.thash, rfl, h.objs⟩

/-- `look` results of similar states: both absent or both present and indistinguishable. -/
theorem Sim.look_cases {s t : SDB} (h : Sim s t) (a : Addr) :
    (look s a = none ∧ look t a = none) ∨ ∃ o p, look s a = some o ∧ look t a = some p ∧ ObjEq o p := by
  have := h.objs a
  cases hs : look s a <;> cases ht : look t a <;> simp [hs, ht, OOEq] at this ⊢
  exact this


theorem ObjEq.setArmed {o p : Obj} (h : ObjEq o p) (b c : Bool) : ObjEq { o with armed := b } { p with armed := c } := h

/-- every journal undo maps indistinguishable states to indistinguishable states. -/
theorem Sim.undo {s t : SDB} (h : Sim s t) (e : Entry) : Sim (undo e s) (undo e t) := by
  cases e with
  | createObject a =>
    refine ⟨h.trie, h.refund, h.logs, h.logSize, h.preimages, h.thash, h.fault, fun b => ?_⟩
    by_cases hb : b = a
    · subst hb; simp [State.undo, look, h.trie]; exact OOEq.rfl' _
    · have := h.objs b
      simpa [State.undo, look, upd, hb] using this
  | resetObject a prev => exact h.putObj a (ObjEq.rfl' prev) rfl
  | suicide a prev pb =>
    rcases h.look_cases a with ⟨hs, ht⟩ | ⟨o, p, hs, ht, hop⟩
    · simpa [State.undo, hs, ht] using h
    · have hso := look_not_deleted hs
      have hto := look_not_deleted ht
      simp only [State.undo, hs, ht]
      exact h.writeObj a ⟨hop.1, rfl, hop.2.2.1, rfl, hop.2.2.2.2⟩ hso hto
  | balance a prev =>
    rcases h.look_cases a with ⟨hs, ht⟩ | ⟨o, p, hs, ht, hop⟩
    · simpa [State.undo, hs, ht] using h.setFault
    · have hso := look_not_deleted hs
      have hto := look_not_deleted ht
      simp only [State.undo, hs, ht]
      exact h.writeObj a ⟨hop.1, rfl, hop.2.2.1, hop.2.2.2.1, hop.2.2.2.2⟩ hso hto
  | nonce a prev =>
    rcases h.look_cases a with ⟨hs, ht⟩ | ⟨o, p, hs, ht, hop⟩
    · simpa [State.undo, hs, ht] using h.setFault
    · have hso := look_not_deleted hs
      have hto := look_not_deleted ht
      simp only [State.undo, hs, ht]
      exact h.writeObj a ⟨rfl, hop.2.1, hop.2.2.1, hop.2.2.2.1, hop.2.2.2.2⟩ hso hto
  | storage a k prev =>
    rcases h.look_cases a with ⟨hs, ht⟩ | ⟨o, p, hs, ht, hop⟩
    · simpa [State.undo, hs, ht] using h.setFault
    · have hso := look_not_deleted hs
      have hto := look_not_deleted ht
      simp only [State.undo, hs, ht]
      refine h.writeObj a ⟨hop.1, hop.2.1, hop.2.2.1, hop.2.2.2.1, fun k' => ?_⟩ hso hto
      have := hop.2.2.2.2 k'
      simp only [getState, upd] at this ⊢
      by_cases hk : k' = k <;> simp [hk, this]
  | code a prev =>
    rcases h.look_cases a with ⟨hs, ht⟩ | ⟨o, p, hs, ht, hop⟩
    · simpa [State.undo, hs, ht] using h.setFault
    · have hso := look_not_deleted hs
      have hto := look_not_deleted ht
      simp only [State.undo, hs, ht]
      exact h.writeObj a ⟨hop.1, hop.2.1, rfl, hop.2.2.2.1, hop.2.2.2.2⟩ hso hto
  | refund prev => exact ⟨h.trie, rfl, h.logs, h.logSize, h.preimages, h.thash, h.fault, h.objs⟩
  | addLog th =>
    exact ⟨h.trie, h.refund, by simp [State.undo, h.logs], by simp [State.undo, h.logSize], h.preimages, h.thash, h.fault, h.objs⟩
  | addPreimage hh =>
    exact ⟨h.trie, h.refund, h.logs, h.logSize, by simp [State.undo, h.preimages], h.thash, h.fault, h.objs⟩
  | touch a prev prevDirty =>
    simp only [State.undo]
    split
    · rcases h.look_cases a with ⟨hs, ht⟩ | ⟨o, p, hs, ht, hop⟩
      · simpa [hs, ht] using h.setFault
      · simp only [hs, ht]
        have hd : o.deleted = p.deleted := by rw [look_not_deleted hs, look_not_deleted ht]
        have hp := h.putObj a (o := { o with touched := prev }) (p := { p with touched := prev }) hop hd
        split
        · exact ⟨hp.trie, hp.refund, hp.logs, hp.logSize, hp.preimages, hp.thash, hp.fault, hp.objs⟩
        · exact hp
    · exact h


/-! ### undoN -/

@[simp] theorem undo_journal (e : Entry) (s : SDB) : (undo e s).journal = s.journal := by
  cases e <;> simp only [undo] <;> (repeat' split) <;> simp
@[simp] theorem undo_revs (e : Entry) (s : SDB) : (undo e s).revs = s.revs := by
  cases e <;> simp only [undo] <;> (repeat' split) <;> simp
@[simp] theorem undo_nextId (e : Entry) (s : SDB) : (undo e s).nextId = s.nextId := by
  cases e <;> simp only [undo] <;> (repeat' split) <;> simp
@[simp] theorem undo_trie (e : Entry) (s : SDB) : (undo e s).trie = s.trie := by
  cases e <;> simp only [undo] <;> (repeat' split) <;> simp

theorem undoN_journal : ∀ (k : Nat) (s : SDB), (undoN k s).journal = s.journal.drop k
  | 0, s => by simp [undoN]
  | k + 1, s => by
    unfold undoN
    cases hj : s.journal with
    | nil => simp [hj]
    | cons e js => simp [undoN_journal k]

@[simp] theorem undoN_revs : ∀ (k : Nat) (s : SDB), (undoN k s).revs = s.revs
  | 0, s => by simp [undoN]
  | k + 1, s => by
    unfold undoN
    cases hj : s.journal with
    | nil => simp
    | cons e js => simp [undoN_revs k]

@[simp] theorem undoN_nextId : ∀ (k : Nat) (s : SDB), (undoN k s).nextId = s.nextId
  | 0, s => by simp [undoN]
  | k + 1, s => by
    unfold undoN
    cases hj : s.journal with
    | nil => simp
    | cons e js => simp [undoN_nextId k]

@[simp] theorem undoN_trie : ∀ (k : Nat) (s : SDB), (undoN k s).trie = s.trie
  | 0, s => by simp [undoN]
  | k + 1, s => by
    unfold undoN
    cases hj : s.journal with
    | nil => simp
    | cons e js => simp [undoN_trie k]

theorem undoN_zero (s : SDB) : undoN 0 s = s := rfl
theorem undoN_succ_nil (k : Nat) (s : SDB) (h : s.journal = []) : undoN (k + 1) s = s := by
  simp [undoN, h]
theorem undoN_succ_cons (k : Nat) (s : SDB) (e : Entry) (js : List Entry) (h : s.journal = e :: js) :
    undoN (k + 1) s = undoN k (undo e { s with journal := js }) := by
  simp [undoN, h]
theorem undoN_nil : ∀ (k : Nat) (s : SDB), s.journal = [] → undoN k s = s
  | 0, _, _ => rfl
  | k + 1, s, h => undoN_succ_nil k s h

theorem undoN_add : ∀ (a b : Nat) (s : SDB), undoN (a + b) s = undoN b (undoN a s)
  | 0, b, s => by simp [undoN_zero]
  | a + 1, b, s => by
    have : a + 1 + b = (a + b) + 1 := by omega
    rw [this]
    cases hj : s.journal with
    | nil => rw [undoN_succ_nil _ s hj, undoN_succ_nil _ s hj, undoN_nil b s hj]
    | cons e js => rw [undoN_succ_cons _ s e js hj, undoN_succ_cons _ s e js hj]; exact undoN_add a b _

/-- a state that differs only in journal/revisions/dirty bookkeeping is indistinguishable. -/
theorem Sim.of_fields {s t : SDB} (h1 : s.trie = t.trie) (h2 : s.objs = t.objs) (h3 : s.refund = t.refund) (h4 : s.logs = t.logs)
    (h5 : s.logSize = t.logSize) (h6 : s.preimages = t.preimages) (h7 : s.thash = t.thash) (h8 : s.fault = t.fault) : Sim s t :=
  ⟨h1, h3, h4, h5, h6, h7, h8, fun a => by simp only [look, h1, h2]; exact OOEq.rfl' _⟩

theorem Sim.undoN : ∀ (k : Nat) {s t : SDB}, Sim s t → s.journal = t.journal → Sim (undoN k s) (undoN k t)
  | 0, _, _, h, _ => by simpa [State.undoN] using h
  | k + 1, s, t, h, hj => by
    unfold State.undoN
    rw [← hj]
    cases hs : s.journal with
    | nil => exact h
    | cons e js =>
      simp only
      apply Sim.undoN k
      · apply Sim.undo
        exact ⟨h.trie, h.refund, h.logs, h.logSize, h.preimages, h.thash, h.fault, h.objs⟩
      · simp


/-! ### extension by journalled steps -/

/-- the address holds a deleted cached object (a tombstone left by Finalise/Commit). -/
def Tomb (s : SDB) (a : Addr) (q : Obj) : Prop := s.objs a = some q ∧ q.deleted = true

/-- journal entries never hold a deleted object as the "previous" one. -/
def EntryOK : Entry → Prop
  | .resetObject _ p => p.deleted = false
  | _ => True

/-- `Ext t t'`: `t'` was reached from `t` by appending journal entries whose undo leads back to a state indistinguishable
    from `t`; the revision stack is untouched, the trie is untouched and no tombstone appeared. -/
structure Ext (t t' : SDB) : Prop where
  ex : ∃ es, t'.journal = es ++ t.journal ∧ Sim (undoN es.length t') t ∧ ∀ e ∈ es, EntryOK e
  revs : t'.revs = t.revs
  nextId : t'.nextId = t.nextId
  trie : t'.trie = t.trie
  tomb : ∀ b q, Tomb t' b q → Tomb t b q

theorem Ext.rfl' (t : SDB) : Ext t t :=
  ⟨⟨[], by simp, by simpa [undoN_zero] using Sim.rfl' t, by simp⟩, rfl, rfl, rfl, fun _ _ h => h⟩

theorem Ext.trans {t t' t'' : SDB} (h : Ext t t') (g : Ext t' t'') : Ext t t'' := by
  obtain ⟨es1, hj1, hs1, ho1⟩ := h.ex
  obtain ⟨es2, hj2, hs2, ho2⟩ := g.ex
  refine ⟨⟨es2 ++ es1, by simp [hj2, hj1], ?_, ?_⟩, g.revs.trans h.revs, g.nextId.trans h.nextId, g.trie.trans h.trie,
    fun b q hb => h.tomb b q (g.tomb b q hb)⟩
  · rw [List.length_append, undoN_add]
    have hj : (undoN es2.length t'').journal = t'.journal := by simp [undoN_journal, hj2]
    exact (Sim.undoN es1.length hs2 hj).trans hs1
  · intro e he
    rcases List.mem_append.mp he with h' | h'
    · exact ho2 e h'
    · exact ho1 e h'

theorem tomb_putObj {s : SDB} {a b : Addr} {o q : Obj} (ho : o.deleted = false) (h : Tomb (putObj s a o) b q) : Tomb s b q := by
  obtain ⟨hq, hqd⟩ := h
  simp only [putObj, upd] at hq
  by_cases hb : b = a
  · simp [hb] at hq; subst hq; simp [ho] at hqd
  · simp [hb] at hq; exact ⟨hq, hqd⟩

theorem tomb_writeObj {s : SDB} {a b : Addr} {o q : Obj} (ho : o.deleted = false) (h : Tomb (writeObj s a o) b q) : Tomb s b q := by
  unfold writeObj at h
  have := tomb_putObj (o := { o with armed := false }) ho h
  split at this
  · obtain ⟨hq, hqd⟩ := this; exact ⟨by simpa using hq, hqd⟩
  · exact this

theorem look_setJournal (s : SDB) (j : List Entry) (a : Addr) : look { s with journal := j } a = look s a := rfl

/-- a journalled field write is undone by its entry. `r` is what the entry's undo does to the object. -/
theorem ext_write (u : SDB) (a : Addr) (o o' : Obj) (e : Entry) (r : Obj → Obj)
    (hl : look u a = some o) (hd : o'.deleted = false)
    (hundo : ∀ v q, look v a = some q → undo e v = writeObj v a (r q))
    (hr : ObjEq (r { o' with armed := false }) o) (hrd : (r { o' with armed := false }).deleted = false)
    (hok : EntryOK e) :
    Ext u (writeObj (push u e) a o') := by
  refine ⟨⟨[e], by simp [push], ?_, by simpa using hok⟩, by simp [push], by simp [push], by simp [push],
    fun b q hb => by simpa [Tomb, push] using tomb_writeObj hd hb⟩
  have hj : (writeObj (push u e) a o').journal = e :: u.journal := by simp [push]
  rw [List.length_singleton, undoN_succ_cons 0 _ e u.journal hj, undoN_zero]
  have hlw : look { writeObj (push u e) a o' with journal := u.journal } a = some { o' with armed := false } := by
    rw [look_setJournal, look_writeObj]; simp [hd]
  rw [hundo _ _ hlw]
  refine ⟨by simp [push], by simp [push], by simp [push], by simp [push], by simp [push], by simp [push], by simp [push], fun b => ?_⟩
  rw [look_writeObj]
  by_cases hb : b = a
  · subst hb
    simp only [if_true, hrd, Bool.false_eq_true, if_false, hl]
    exact hr.setArmed false o.armed
  · simp only [hb, if_false, look_setJournal, look_writeObj, look_push]
    exact OOEq.rfl' _

end Aqv.State

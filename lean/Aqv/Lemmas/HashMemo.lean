import Aqv.Model.HashMemo
namespace Aqv.HashMemo

theorem lookup_some_mem (tbl : List (Bytes × Bytes)) (b h : Bytes) (hl : tbl.lookup b = some h) : (b, h) ∈ tbl := by
  induction tbl with
  | nil => simp [List.lookup] at hl
  | cons p ps ih =>
    obtain ⟨k, v⟩ := p
    rw [List.lookup_cons] at hl
    by_cases hk : b == k
    · simp only [hk] at hl
      have : b = k := by simpa using hk
      cases hl; subst this; simp
    · have hk' : (b == k) = false := by simpa using hk
      simp only [hk'] at hl
      exact List.mem_cons_of_mem _ (ih hl)

theorem lookup_none_not_mem (tbl : List (Bytes × Bytes)) (b : Bytes) (hl : tbl.lookup b = none) : ∀ h, (b, h) ∉ tbl := by
  induction tbl with
  | nil => intro h hm; cases hm
  | cons p ps ih =>
    obtain ⟨k, v⟩ := p
    rw [List.lookup_cons] at hl
    by_cases hk : b == k
    · simp [hk] at hl
    · have hk' : (b == k) = false := by simpa using hk
      simp only [hk'] at hl
      intro h hm
      rcases List.mem_cons.mp hm with heq | hm
      · have : b = k := by cases heq; rfl
        subst this; simp at hk
      · exact ih hl h hm

theorem mkH_eq (K : Bytes → Bytes) (tbl : List (Bytes × Bytes)) (h : TableOK K tbl) : mkH K tbl = K := by
  funext b
  unfold mkH
  cases hl : tbl.lookup b with
  | none => rfl
  | some v => exact h (b, v) (lookup_some_mem tbl b v hl)

theorem memo_ok (K : Bytes → Bytes) (tbl : List (Bytes × Bytes)) (items : List Bytes) (h : TableOK K tbl) :
    TableOK K (memo K tbl items) := by
  unfold memo
  induction items generalizing tbl with
  | nil => exact h
  | cons b bs ih =>
    simp only [List.foldl_cons]
    cases hl : tbl.lookup b with
    | some v => exact ih tbl h
    | none =>
      apply ih
      intro p hp
      rcases List.mem_cons.mp hp with rfl | hp
      · rfl
      · exact h p hp

/-- the memo is effective: after `memo`, every listed item is answered from the table. -/
theorem memo_hit (K : Bytes → Bytes) (tbl : List (Bytes × Bytes)) (items : List Bytes) (b : Bytes)
    (hb : b ∈ items ∨ (tbl.lookup b).isSome) : ((memo K tbl items).lookup b).isSome := by
  unfold memo
  induction items generalizing tbl with
  | nil =>
    rcases hb with hb | hb
    · cases hb
    · exact hb
  | cons x xs ih =>
    simp only [List.foldl_cons]
    apply ih
    rcases hb with hb | hb
    · rcases List.mem_cons.mp hb with rfl | hb
      · right
        cases hl : tbl.lookup b with
        | some v => simp [hl]
        | none => simp [List.lookup_cons]
      · exact Or.inl hb
    · right
      cases hl : tbl.lookup x with
      | some v => exact hb
      | none =>
        simp only [List.lookup_cons]
        by_cases hk : b == x
        · simp [hk]
        · have hk' : (b == x) = false := by simpa using hk
          simp only [hk']; exact hb

end Aqv.HashMemo

/-
  Aqv.Lemmas.ChainBridge — from a recovered image of the key-class store (C04, `Aqv.Model.ChainDb`) to a state of the
  chain model of C02/C03 (`Aqv.Model.Chain`): the abstraction function `absSt` and the proof that the image of ANY crash
  prefix of a valid history (invariant `Inv`, archive) abstracts to a weakly invariant chain state (`Chain.WInv`), on
  which `Chain.refeed_matches_crashfree` applies.

  What the abstraction takes from the universe `U` rather than from the store: the content of a block beyond (parent,
  number, root) — difficulty and transactions — and the VALUE of a total-difficulty record (the store model of C04 only
  records that the record exists; that it holds parent's record + difficulty is C02's `td_recurrence`, and a single put is
  atomic, so a crash cannot tear it).
-/
import Aqv.Lemmas.ChainWriterTrace
import Aqv.Lemmas.ChainReimport
namespace Aqv.ChainDb
open Aqv

/-- the header the importer vouches for: stored header `h` is block `h` of the universe -/
def VU (U : Chain.Map Chain.Blk) : Hash → Hdr → Prop :=
  fun h hd => ∃ x, U h = some x ∧ x.parent = hd.parent ∧ x.number = hd.num

/-- total difficulty of a block of the universe, computed along its ancestry -/
def tdU (U : Chain.Map Chain.Blk) (x : Chain.Blk) : Nat := ((Chain.ancestry U (x.number + 1) x).map (·.diff)).sum

/-- the chain-model state a (recovered) image stands for; `head` is the head block `recover` exposed -/
def absSt (U : Chain.Map Chain.Blk) (g : Chain.Blk) (db : Db) (head : Hash) : Chain.St where
  genesis := g
  archive := true
  store := fun k => if (getBlockByHash db k).isSome then U k else none
  td := fun k => if (get db (.td k)).isSome then (U k).map (tdU U) else none
  canon := fun n => canonHash db n
  head := head
  hhead := head
  fhead := head
  lookup := fun _ => none
  receipts := fun k => (get db (.receipts k)).isSome
  hasState := fun k => match getBlockByHash db k with | some hd => hasState db hd.root | none => false
  onDisk := fun k => match getBlockByHash db k with | some hd => hasState db hd.root | none => false
  seen := fun k => (getBlockByHash db k).isSome

variable {U : Chain.Map Chain.Blk}

theorem tdU_path {g : Chain.Blk} (hg0 : g.number = 0) : ∀ {x : Chain.Blk} {l : List Chain.Blk},
    Chain.Path U x l g → tdU U x = g.diff + Chain.diffSum l := by
  intro x l hp
  unfold tdU
  induction hp with
  | nil x =>
    rw [hg0]
    simp [Chain.ancestry, Chain.parentOf, hg0, Chain.diffSum]
  | @cons x p l y hpar _ ih =>
    obtain ⟨_, hn⟩ := Chain.parentOf_some hpar
    have hx : x.number + 1 = (p.number + 1) + 1 := by omega
    have hstep : Chain.ancestry U ((p.number + 1) + 1) x = x :: Chain.ancestry U (p.number + 1) p := by
      show (x :: (match Chain.parentOf U x with | some q => Chain.ancestry U (p.number + 1) q | none => [])) = _
      rw [hpar]
    rw [hx, hstep, List.map_cons, List.sum_cons, ih hg0, Chain.diffSum_cons]
    omega

theorem getBlockByHash_of {db : Db} {k : Hash} {n : Nat} {hd : Hdr} (hn : blockNumber db k = some n)
    (hb : getBlock db k n = some hd) : getBlockByHash db k = some hd := by
  unfold getBlockByHash; rw [hn]; exact hb

theorem getBlockByHash_inv {db : Db} {k : Hash} {hd : Hdr} (h : getBlockByHash db k = some hd) :
    ∃ n, blockNumber db k = some n ∧ getBlock db k n = some hd := by
  unfold getBlockByHash at h
  split at h
  · rename_i n hn; exact ⟨n, hn, h⟩
  · cases h

/-- every stored block is a block of the universe linked to the genesis block through stored blocks -/
theorem stored_path {g : Chain.Blk} (hg0 : g.number = 0)
    (hz : ∀ k x, U k = some x → x.number = 0 → x = g) {ar : Bool} {db : Db} {gh head : Hash} (hi : Inv ar (VU U) db gh) :
    ∀ (n : Nat) (k : Hash) (hd : Hdr), getBlock db k n = some hd →
      ∃ x l, U k = some x ∧ (absSt U g db head).store k = some x ∧ Chain.Path (absSt U g db head).store x l g := by
  intro n
  induction n with
  | zero =>
    intro k hd hb
    obtain ⟨x, hx, _, hnum⟩ := hi.ext.valid k 0 hd (getBlock_header hb)
    have hk := hi.hnum k 0 hd (getBlock_header hb)
    have hx0 : x.number = 0 := by rw [hnum, getBlock_num hb]
    have hxg := hz k x hx hx0
    subst hxg
    refine ⟨x, [], hx, ?_, .nil x⟩
    simp [absSt, getBlockByHash_of hk hb, hx]
  | succ n ih =>
    intro k hd hb
    obtain ⟨x, hx, hxp, hnum⟩ := hi.ext.valid k (n + 1) hd (getBlock_header hb)
    have hk := hi.hnum k (n + 1) hd (getBlock_header hb)
    obtain ⟨hd', hb'⟩ := hi.ext.pclosed k n hd hb
    obtain ⟨p, l, hp, hps, hpath⟩ := ih hd.parent hd' hb'
    obtain ⟨p', hp', _, hpn⟩ := hi.ext.valid hd.parent n hd' (getBlock_header hb')
    rw [hp] at hp'; cases hp'
    have hstore : (absSt U g db head).store k = some x := by simp [absSt, getBlockByHash_of hk hb, hx]
    refine ⟨x, x :: l, hx, hstore, .cons (Chain.parentOf_of (by rw [hxp]; exact hps) ?_) hpath⟩
    rw [hpn, hnum, getBlock_num hb', getBlock_num hb]

/-- **the abstraction of an invariant archive image is weakly invariant** -/
theorem winv_abs (W : Chain.World U) {g : Chain.Blk} (hg0 : g.number = 0)
    (hz : ∀ k x, U k = some x → x.number = 0 → x = g) {db : Db} {gh : Hash} (hi : Inv true (VU U) db gh) :
    Chain.WInv U g (absSt U g db gh) := by
  have hstored : ∀ k x, (absSt U g db gh).store k = some x →
      ∃ hd n, getBlockByHash db k = some hd ∧ blockNumber db k = some n ∧ getBlock db k n = some hd ∧ U k = some x := by
    intro k x hx
    simp only [absSt] at hx
    split at hx
    · rename_i hs
      obtain ⟨hd, hhd⟩ := Option.isSome_iff_exists.mp hs
      obtain ⟨n, hn, hb⟩ := getBlockByHash_inv hhd
      exact ⟨hd, n, hhd, hn, hb, hx⟩
    · cases hx
  refine ⟨rfl, hg0, ?_, ?_, ?_, ?_, ?_⟩
  · intro k x hx
    obtain ⟨_, _, _, _, _, hU⟩ := hstored k x hx
    exact hU
  · intro k x hx
    obtain ⟨hd, n, _, _, hb, hU⟩ := hstored k x hx
    obtain ⟨x', l, hx', _, hp⟩ := stored_path hg0 hz (head := gh) hi n k hd hb
    rw [hU] at hx'; cases hx'
    exact ⟨l, hp⟩
  · intro k x hx
    obtain ⟨hd, n, _, _, hb, hU⟩ := hstored k x hx
    obtain ⟨x', l, hx', _, hp⟩ := stored_path hg0 hz (head := gh) hi n k hd hb
    rw [hU] at hx'; cases hx'
    have hsub : Chain.StoreExt (absSt U g db gh).store U := by
      intro k' y hy
      obtain ⟨_, _, _, _, _, hU'⟩ := hstored k' y hy
      exact hU'
    have hpU := hp.mono hsub
    refine ⟨tdU U x, ?_, l, hpU, tdU_path hg0 hpU⟩
    simp [absSt, hi.ext.storedTd k n hd hb, hU]
  · obtain ⟨n, hn, hc⟩ := hi.chain
    obtain ⟨hd, hb⟩ := canonAgrees_block hc
    obtain ⟨x, _, _, hs, _⟩ := stored_path hg0 hz (head := gh) hi n gh hd hb
    exact ⟨x, hs⟩
  · intro k x hx
    obtain ⟨hd, n, hbh, _, hb, _⟩ := hstored k x hx
    simp only [absSt, hbh]
    exact hi.arch rfl k n hd hb

end Aqv.ChainDb

/-
  Aqv.Lemmas.TxSortedMap — the cache of txSortedMap stays coherent with its contents.
-/
import Aqv.Lemmas.TxList
import Aqv.Model.TxSortedMap
namespace Aqv.TxPool

/-- on a nonce-sorted list, dropping as many entries as lie below the threshold leaves exactly those not below it -/
theorem sorted_drop_below {l : List Tx} (th : Nat) (hs : Sorted l) :
    l.drop (l.filter (fun t => decide (t.nonce < th))).length = l.filter (fun t => !decide (t.nonce < th)) := by
  induction l with
  | nil => rfl
  | cons x xs ih =>
    obtain ⟨hx, hxs⟩ := sorted_cons.mp hs
    by_cases h : x.nonce < th
    · simp only [List.filter_cons, h, decide_true, if_true, List.length_cons, List.drop_succ_cons, Bool.not_true,
        Bool.false_eq_true, if_false]
      exact ih hxs
    · have hnone : xs.filter (fun t => decide (t.nonce < th)) = [] := by
        rw [List.filter_eq_nil_iff]
        intro y hy
        have := hx y hy
        simp only [decide_eq_true_eq]; omega
      have hall : xs.filter (fun t => !decide (t.nonce < th)) = xs := by
        rw [List.filter_eq_self]
        intro y hy
        have := hx y hy
        simp only [Bool.not_eq_true', decide_eq_false_iff_not]; omega
      simp only [List.filter_cons, h, decide_false, Bool.false_eq_true, if_false, hnone, List.length_nil, List.drop_zero,
        Bool.not_false, if_true, hall]

theorem sorted_append_right {a b : List Tx} (h : Sorted (a ++ b)) : Sorted b := by
  unfold Sorted at h ⊢
  exact (List.pairwise_append.mp h).2.1

/-- the invariant of the map: contents sorted, cache coherent -/
def SMap.OK (m : SMap) : Prop := Sorted m.items ∧ m.Coherent

theorem SMap.coherent_none {items : List Tx} : (⟨items, none⟩ : SMap).Coherent := fun c h => by cases h

theorem SMap.step_ok (m : SMap) (op : SOp) (h : m.OK) : (m.step op).2.OK := by
  obtain ⟨hs, hc⟩ := h
  cases op with
  | put t => exact ⟨put_sorted hs, SMap.coherent_none⟩
  | forward th =>
    refine ⟨Sorted.filter _ hs, fun c hcc => ?_⟩
    unfold SMap.step at hcc
    simp only [forward] at hcc ⊢
    cases hm : m.cache with
    | none => rw [hm] at hcc; cases hcc
    | some c0 =>
      rw [hm] at hcc
      simp only [Option.map_some, Option.some.injEq] at hcc
      rw [← hcc, hc c0 hm]
      exact sorted_drop_below th hs
  | filter p =>
    unfold SMap.step
    simp only
    split
    · exact ⟨hs, hc⟩
    · exact ⟨Sorted.filter _ hs, SMap.coherent_none⟩
  | cap k =>
    unfold SMap.step
    simp only
    split
    · exact ⟨hs, hc⟩
    · rename_i hlen
      refine ⟨Sorted.take _ hs, fun c hcc => ?_⟩
      simp only [capL] at hcc ⊢
      cases hm : m.cache with
      | none => rw [hm] at hcc; cases hcc
      | some c0 =>
        rw [hm] at hcc
        simp only [Option.map_some, Option.some.injEq] at hcc
        rw [← hcc, hc c0 hm, List.length_drop]
        congr 1
        omega
  | remove n =>
    unfold SMap.step
    simp only
    split
    · exact ⟨hs, hc⟩
    · exact ⟨Sorted.filter _ hs, SMap.coherent_none⟩
  | ready start =>
    unfold SMap.step
    simp only
    split
    · exact ⟨hs, hc⟩
    · split
      · exact ⟨hs, hc⟩
      · rename_i x xs hi _
        refine ⟨?_, SMap.coherent_none⟩
        have := ready_append start m.items
        rw [← this] at hs
        exact sorted_append_right hs
  | flatten =>
    unfold SMap.step
    simp only
    split
    · exact ⟨hs, hc⟩
    · exact ⟨hs, fun c h => by simp only [Option.some.injEq] at h; exact h.symm⟩

theorem SMap.run_ok : ∀ (ops : List SOp) (m : SMap), m.OK → (m.run ops).OK := by
  intro ops
  induction ops with
  | nil => intro m h; exact h
  | cons op rest ih => intro m h; exact ih _ (SMap.step_ok m op h)

theorem SMap.empty_ok : SMap.empty.OK := ⟨Sorted.nil, SMap.coherent_none⟩

theorem SMap.flatten_spec (m : SMap) (h : m.Coherent) :
    (m.step .flatten).1 = m.items ∧ (m.step .flatten).2.items = m.items := by
  unfold SMap.step
  simp only
  cases hm : m.cache with
  | none => exact ⟨rfl, rfl⟩
  | some c => exact ⟨h c hm, rfl⟩

theorem SMap.coherentB_iff (m : SMap) : m.coherentB = true ↔ m.Coherent := by
  unfold SMap.coherentB SMap.Coherent
  cases hm : m.cache with
  | none => simp
  | some c => simp

end Aqv.TxPool

/-
  Aqv.Lemmas.EvmPre — helper lemmas for property C08: the per-step prologue of Interpreter.Run (memory size, memory fee,
  gas function, lastGasCost) as the Go code computes it on UInt64 (`implPre`) against the Yellow Paper on Nat (`specPre`).
-/
import Aqv.Lemmas.EvmTable
namespace Aqv.Evm
open Aqv Aqv.Big Aqv.Gen.VmTable

def InRange (v : Int) : Prop := 0 ≤ v ∧ v < 2 ^ 256

structure Inv (m : Machine) : Prop where
  stackOk : ∀ v ∈ m.stack, InRange v
  memWords : m.mem.length % 32 = 0
  memSmall : m.mem.length ≤ 0x1fffffffe0
  lastOk : m.last.toNat = EvmSpec.cmem (m.mem.length / 32)
  gasSmall : m.gas < 2 ^ 60

theorem back_inRange (st : List Int) (h : ∀ v ∈ st, InRange v) (i : Nat) : InRange (back st i) := by
  unfold back
  rw [List.getD_eq_getElem?_getD]
  cases hi : st[i]? with
  | none => exact ⟨by decide, by decide⟩
  | some v => exact h v (List.mem_of_getElem? hi)

theorem touch_inRange (k : MemKind) (st : List Int) (h : ∀ v ∈ st, InRange v) :
    InRange (touchOf k st).1 ∧ InRange (touchOf k st).2 := by
  have hb := back_inRange st h
  unfold touchOf
  cases k <;> simp only [] <;> first
    | exact ⟨hb _, hb _⟩
    | exact ⟨hb _, ⟨by decide, by decide⟩⟩
    | exact ⟨⟨by decide, by decide⟩, ⟨by decide, by decide⟩⟩

theorem cmem_le_of_small {w : Nat} (h : w ≤ 0xffffffff) : EvmSpec.cmem w < 2 ^ 56 := by
  unfold EvmSpec.cmem
  have := Nat.mul_le_mul h h
  generalize w * w = sq at this
  omega

theorem cmem_ge_of_big {w : Nat} (h : 0x800000000 ≤ w) : EvmSpec.cmem w ≥ 2 ^ 61 := by
  unfold EvmSpec.cmem
  have := Nat.mul_le_mul h h
  generalize w * w = sq at this
  omega

/-- how the two prologues relate (gas = the gas the step has; F = what is known about an accepted memory size / lastGasCost) -/
inductive PreRel (gas : Nat) (F : Nat → UInt64 → Prop) : Except Outcome Pre → Except Outcome Pre → Prop where
  | ok (p : Pre) : p.cost ≤ gas → F p.memorySize p.last → PreRel gas F (.ok p) (.ok p)
  | failL (f : Fail) : PreRel gas F (.error (.fail f)) (.error (.fail .oog))
  | failR (p : Pre) : p.cost > gas → PreRel gas F (.ok p) (.error (.fail .oog))
  | skip (op : Nat) : PreRel gas F (.error (.skip op)) (.error (.skip op))

/-- facts about an accepted prologue: the memory size is the word-rounded request, below the wrap range, and lastGasCost is
    C_mem of the resulting number of active words -/
def PreFacts (en : Entry) (m : Machine) (ms : Nat) (last : UInt64) : Prop :=
  let off := (touchOf en.memK m.stack).1.toNat
  let len := (touchOf en.memK m.stack).2.toNat
  let new := EvmSpec.memExpand (m.mem.length / 32) off len
  ms = (if len = 0 then 0 else 32 * EvmSpec.words (off + len)) ∧ ms ≤ 0x1fffffffe0 ∧
  last = UInt64.ofNat (EvmSpec.cmem new) ∧ new ≤ 0xffffffff

theorem words_32_words (n : Nat) : EvmSpec.words (32 * EvmSpec.words n) = EvmSpec.words n := by
  unfold EvmSpec.words; omega

/-- the memory part of the prologue: size request, fee and lastGasCost — Impl (UInt64) against Spec (Nat) -/
theorem mem_part (memK : MemKind) (m : Machine) (hinv : Inv m) (off len : Nat)
    (h1 : (touchOf memK m.stack).1 = (off : Int)) (h2 : (touchOf memK m.stack).2 = (len : Int))
    (hnone : memK = .none → len = 0)
    (hnw : ¬ (len ≠ 0 ∧ 0x1fffffffe0 < 32 * EvmSpec.words (off + len) ∧ 32 * EvmSpec.words (off + len) ≤ 0xffffffffe0)) :
    let cur := m.mem.length / 32
    let new := EvmSpec.memExpand cur off len
    let mem : Mem := ⟨UInt64.ofNat m.mem.length, m.last⟩
    let ms? : Option UInt64 := if memK = .none then some 0 else memorySizeOf (calcMemSize (touchOf memK m.stack).1 (touchOf memK m.stack).2)
    let reqSize := if len = 0 then 0 else 32 * EvmSpec.words (off + len)
    (ms? = none ∧ EvmSpec.cmem new - EvmSpec.cmem cur ≥ 2 ^ 60) ∨
    (∃ r, ms? = some r ∧ memoryGasCost mem r = none ∧ EvmSpec.cmem new - EvmSpec.cmem cur ≥ 2 ^ 60) ∨
    (∃ r fee mem', ms? = some r ∧ r.toNat = reqSize ∧ memoryGasCost mem r = some (fee, mem') ∧
      fee.toNat = EvmSpec.cmem new - EvmSpec.cmem cur ∧ mem'.lastGasCost = UInt64.ofNat (EvmSpec.cmem new) ∧
      reqSize ≤ 0x1fffffffe0 ∧ new ≤ 0xffffffff) := by
  intro cur new mem ms? reqSize
  have hcur : cur ≤ 0xffffffff := by have := hinv.memSmall; omega
  have hcmcur := cmem_le_of_small hcur
  have hlen64 : m.mem.length < 2 ^ 64 := by have := hinv.memSmall; omega
  have hok : MemOk mem cur := by
    refine ⟨?_, hinv.lastOk⟩
    show (UInt64.ofNat m.mem.length).toNat = 32 * cur
    rw [UInt64.toNat_ofNat', Nat.mod_eq_of_lt hlen64]
    have := hinv.memWords; omega
  -- the request as a Nat
  have hreq : calcMemSize (touchOf memK m.stack).1 (touchOf memK m.stack).2 = ((if len = 0 then 0 else off + len : Nat) : Int) := by
    rw [h1, h2]; exact calcMemSize_spec off len
  have hnew : new = max cur (EvmSpec.words (if len = 0 then 0 else off + len)) := by
    show EvmSpec.memExpand cur off len = _
    unfold EvmSpec.memExpand
    by_cases hl : len = 0
    · rw [if_pos hl, if_pos hl]; unfold EvmSpec.words; omega
    · rw [if_neg hl, if_neg hl]
  have hreqSize : reqSize = 32 * EvmSpec.words (if len = 0 then 0 else off + len) := by
    show (if len = 0 then 0 else 32 * EvmSpec.words (off + len)) = _
    by_cases hl : len = 0
    · rw [if_pos hl, if_pos hl]; rfl
    · rw [if_neg hl, if_neg hl]
  generalize (if len = 0 then 0 else off + len) = req at hreq hnew hreqSize
  -- what ms? is
  have hms : (ms? = none ∧ 32 * EvmSpec.words req ≥ 2 ^ 64) ∨ (∃ r, ms? = some r ∧ r.toNat = 32 * EvmSpec.words req) := by
    by_cases hn : memK = .none
    · right
      refine ⟨0, by show (if memK = .none then some 0 else _) = _; rw [if_pos hn], ?_⟩
      have hl := hnone hn
      have : reqSize = 0 := by show (if len = 0 then 0 else _) = 0; rw [if_pos hl]
      rw [← hreqSize, this]; rfl
    · have hspec := memorySizeOf_spec req
      have e : ms? = memorySizeOf (req : Int) := by
        show (if memK = .none then some 0 else _) = _
        rw [if_neg hn, hreq]
      cases hr : memorySizeOf (req : Int) with
      | none => left; exact ⟨by rw [e, hr], hspec.2 hr⟩
      | some r => right; exact ⟨r, by rw [e, hr], hspec.1 r hr⟩
  rcases hms with ⟨hnone', hbig⟩ | ⟨r, hsome, hrv⟩
  · left
    refine ⟨hnone', ?_⟩
    have hw : 0x800000000 ≤ new := by rw [hnew]; omega
    have := cmem_ge_of_big hw
    omega
  · by_cases hr1 : r.toNat ≤ 0x1fffffffe0
    · right; right
      obtain ⟨fee, mem', hg, hfee, _, hlast⟩ := memoryGasCost_spec_partial mem cur r hok hr1
      have hw : EvmSpec.words r.toNat = EvmSpec.words req := by rw [hrv]; exact words_32_words req
      rw [hw, ← hnew] at hfee hlast
      have hnewle : new ≤ 0xffffffff := by
        rw [hnew]; have : EvmSpec.words req ≤ 0xffffffff := by rw [hrv] at hr1; omega
        omega
      have hcn := cmem_le_of_small hnewle
      refine ⟨r, fee, mem', hsome, by rw [hrv, hreqSize], hg, hfee, ?_, by rw [hreqSize, ← hrv]; exact hr1, hnewle⟩
      apply UInt64.toNat_inj.1
      rw [hlast, UInt64.toNat_ofNat', Nat.mod_eq_of_lt (by omega)]
    · right; left
      have hr2 : r.toNat > 0xffffffffe0 := by
        by_cases hl : len = 0
        · exfalso
          have : reqSize = 0 := by show (if len = 0 then 0 else _) = 0; rw [if_pos hl]
          rw [hreqSize, ← hrv] at this; omega
        · have hrs : reqSize = 32 * EvmSpec.words (off + len) := by
            show (if len = 0 then 0 else _) = _; rw [if_neg hl]
          rw [hreqSize, ← hrv] at hrs
          have := hnw
          rw [← hrs] at this
          omega
      obtain ⟨hgn, hcm⟩ := memoryGasCost_overflow mem r hr2
      refine ⟨r, hsome, hgn, ?_⟩
      have hw : EvmSpec.words r.toNat = EvmSpec.words req := by rw [hrv]; exact words_32_words req
      rw [hw] at hcm
      have hge : EvmSpec.cmem new ≥ EvmSpec.cmem (EvmSpec.words req) := cmem_mono (by rw [hnew]; omega)
      omega

theorem nat_of_inRange {v : Int} (h : InRange v) : ∃ n : Nat, v = (n : Int) ∧ n < 2 ^ 256 ∧ v.toNat = n := by
  obtain ⟨h0, h1⟩ := h
  refine ⟨v.toNat, (Int.toNat_of_nonneg h0).symm, ?_, rfl⟩
  have := Int.toNat_of_nonneg h0
  omega

theorem devSet_false_mem {en : Entry} {opc : Nat} {m : Machine} (h : devSet en opc m = false) (off len : Nat)
    (h1 : (touchOf en.memK m.stack).1.toNat = off) (h2 : (touchOf en.memK m.stack).2 = (len : Int)) :
    ¬ (len ≠ 0 ∧ 0x1fffffffe0 < 32 * EvmSpec.words (off + len) ∧ 32 * EvmSpec.words (off + len) ≤ 0xffffffffe0) := by
  unfold devSet at h
  simp only [Bool.or_eq_false_iff, Bool.and_eq_false_iff, decide_eq_false_iff_not] at h
  have hm := h.2
  rw [h1, h2] at hm
  simp only [Int.toNat_natCast] at hm
  intro ⟨hl, ha, hb⟩
  rcases hm with hm | hm | hm
  · apply hm; intro hz; apply hl; exact Int.ofNat_eq_zero.1 hz
  · exact hm ha
  · exact hm hb

theorem pre_finish (gas : Nat) (hgas : gas < 2 ^ 60) (F : Nat → UInt64 → Prop) (co : Option UInt64) (sc ms : Nat) (last : UInt64)
    (hF : F ms last) (h1 : ∀ g, co = some g → g.toNat = sc) (h2 : co = none → sc ≥ 2 ^ 60) :
    PreRel gas F (implFinish co ms last) (specFinish gas sc ms last) := by
  unfold implFinish specFinish
  cases co with
  | none =>
    have := h2 rfl
    rw [if_pos (by omega)]; exact .failL .oog
  | some c =>
    have hc := h1 c rfl
    simp only []
    by_cases hgt : sc > gas
    · rw [if_pos hgt]; exact .failR _ (by show c.toNat > gas; omega)
    · rw [if_neg hgt, hc]; exact .ok _ (by show sc ≤ gas; omega) hF

theorem pre_agree (gt : GasTable) (eb : Nat) (hgt : gt.expByte = eb) (heb : eb = 10 ∨ eb = 50)
    (en : Entry) (hwf : wfEntry en) (opc : Nat) (m : Machine) (hinv : Inv m) (hdev : devSet en opc m = false) :
    PreRel m.gas (PreFacts en m) (implPre gt en opc m) (specPre eb en opc m) := by
  unfold implPre specPre
  by_cases hskip : en.memK = .unknown ∨ en.gasK = .unknown
  · rw [if_pos hskip, if_pos hskip]; exact .skip opc
  rw [if_neg hskip, if_neg hskip]
  have hgk : en.gasK ≠ .unknown := fun h => hskip (Or.inr h)
  obtain ⟨hr1, hr2⟩ := touch_inRange en.memK m.stack hinv.stackOk
  obtain ⟨off, hoff, _, hofft⟩ := nat_of_inRange hr1
  obtain ⟨len, hlen, _, hlent⟩ := nat_of_inRange hr2
  have hnone : en.memK = .none → len = 0 := by
    intro h
    have : (touchOf en.memK m.stack).2 = 0 := by rw [h]; rfl
    rw [this] at hlen; omega
  have hnw := devSet_false_mem hdev off len hofft hlen
  have hgas := hinv.gasSmall
  have hmp := mem_part en.memK m hinv off len hoff hlen hnone hnw
  simp only [] at hmp ⊢
  rw [hofft, hlent]
  generalize hcur : m.mem.length / 32 = cur at hmp ⊢
  generalize hnew : EvmSpec.memExpand cur off len = new at hmp ⊢
  generalize hfeeS : EvmSpec.cmem new - EvmSpec.cmem cur = memFee at hmp ⊢
  generalize hmsq : (if en.memK = MemKind.none then some (0 : UInt64)
      else memorySizeOf (calcMemSize (touchOf en.memK m.stack).1 (touchOf en.memK m.stack).2)) = ms? at hmp ⊢
  rcases hmp with ⟨hms, hbig⟩ | ⟨r, hms, hg, hbig⟩ | ⟨r, fee, mem', hms, hrv, hg, hfee, hlast, hsmall, hnewle⟩
  · subst hms
    unfold specFinish
    rw [if_pos (by omega)]
    exact .failL .overflow
  · subst hms
    simp only []
    have hall := gas_none_of_mem_none _ r hg gasFastestStep
    have hco : implCost gt en.gasK { len := UInt64.ofNat m.mem.length, lastGasCost := m.last } r m.stack = none := by
      unfold implCost
      cases hk : en.gasK with
      | const g =>
        exfalso
        unfold wfEntry at hwf; rw [hk] at hwf
        rw [if_pos hwf.1] at hmsq
        cases hmsq
        unfold memoryGasCost at hg; simp at hg
      | exp =>
        exfalso
        unfold wfEntry at hwf; rw [hk] at hwf
        rw [if_pos hwf] at hmsq
        cases hmsq
        unfold memoryGasCost at hg; simp at hg
      | sha3 => exact (hall (back m.stack 1)).2.2.1
      | copy => exact (hall (back m.stack 2)).2.1
      | veryLowMem => exact (hall 0).1
      | memOnly => exact (hall 0).2.2.2.2
      | unknown => rfl
    rw [hco]
    unfold implFinish specFinish
    rw [if_pos (by omega)]
    exact .failL .oog
  · subst hms
    simp only []
    have hl : implLast { len := UInt64.ofNat m.mem.length, lastGasCost := m.last } r = UInt64.ofNat (EvmSpec.cmem new) := by
      unfold implLast; rw [hg]; exact hlast
    rw [hl, hrv]
    have c3 : gasFastestStep.toNat = 3 := by decide
    obtain ⟨n1, hn1, hn1lt, hn1t⟩ := nat_of_inRange (back_inRange m.stack hinv.stackOk 1)
    obtain ⟨n2, hn2, hn2lt, hn2t⟩ := nat_of_inRange (back_inRange m.stack hinv.stackOk 2)
    have hfee0 : en.memK = .none → memFee = 0 := by
      intro hn
      rw [if_pos hn] at hmsq
      cases hmsq
      have : memoryGasCost { len := UInt64.ofNat m.mem.length, lastGasCost := m.last } 0
          = some (0, { len := UInt64.ofNat m.mem.length, lastGasCost := m.last }) := by
        unfold memoryGasCost; simp
      rw [this] at hg
      cases hg
      simpa using hfee.symm
    apply pre_finish _ hgas (PreFacts en m) _ _ _ _ (by
      unfold PreFacts
      simp only []
      rw [hofft, hlent, hcur, hnew]
      exact ⟨rfl, hsmall, rfl, hnewle⟩)
    · intro g hgc
      unfold implCost at hgc
      unfold specExtra
      cases hk : en.gasK with
      | const c =>
        unfold wfEntry at hwf; rw [hk] at hwf hgc
        simp only [Option.some.injEq] at hgc
        rw [hfee0 hwf.1, ← hgc, UInt64.toNat_ofNat', Nat.mod_eq_of_lt (by have := hwf.2; omega)]
        simp
      | exp =>
        unfold wfEntry at hwf; rw [hk] at hwf hgc
        simp only [] at hgc
        have hle : eb ≤ 50 := by rcases heb with h | h <;> omega
        have hebn : (UInt64.ofNat eb).toNat = eb := by
          rw [UInt64.toNat_ofNat']; exact Nat.mod_eq_of_lt (by omega)
        have hcond : 32 * (UInt64.ofNat eb).toNat + 10 < 2 ^ 64 := by rw [hebn]; omega
        obtain ⟨g', hgs, hgv⟩ := gasExp_ok (UInt64.ofNat eb) n1 hn1lt hcond
        rw [hgt, hn1, hgs] at hgc
        cases hgc
        rw [hfee0 hwf, hn1t, hgv, hebn]; simp
      | sha3 =>
        rw [hk] at hgc; simp only [] at hgc
        rw [hn1] at hgc
        rw [hn1t, ← hfee]
        exact (gasSha3_spec _ r fee mem' n1 hg).1 g hgc
      | copy =>
        rw [hk] at hgc; simp only [] at hgc
        rw [hn2] at hgc
        rw [hn2t, ← hfee, ← c3]
        exact (gasCopy_spec gasFastestStep _ r fee mem' n2 hg).1 g hgc
      | veryLowMem =>
        rw [hk] at hgc; simp only [] at hgc
        rw [← hfee]
        exact (gasMemVeryLow_spec _ r fee mem' hg).1 g hgc
      | memOnly =>
        rw [hk] at hgc; simp only [] at hgc
        rw [gasReturn_spec _ r fee mem' hg] at hgc
        cases hgc
        rw [hfee]; simp
      | unknown => exact absurd hk hgk
    · intro hgc
      unfold implCost at hgc
      unfold specExtra
      cases hk : en.gasK with
      | const c => rw [hk] at hgc; cases hgc
      | exp =>
        exfalso
        rw [hk] at hgc
        simp only [] at hgc
        have hle : eb ≤ 50 := by rcases heb with h | h <;> omega
        have hebn : (UInt64.ofNat eb).toNat = eb := by
          rw [UInt64.toNat_ofNat']; exact Nat.mod_eq_of_lt (by omega)
        have hcond : 32 * (UInt64.ofNat eb).toNat + 10 < 2 ^ 64 := by rw [hebn]; omega
        obtain ⟨g', hgs, _⟩ := gasExp_ok (UInt64.ofNat eb) n1 hn1lt hcond
        rw [hgt, hn1, hgs] at hgc
        cases hgc
      | sha3 =>
        rw [hk] at hgc; simp only [] at hgc
        rw [hn1] at hgc
        rw [hn1t, ← hfee]
        exact (gasSha3_spec _ r fee mem' n1 hg).2 hgc
      | copy =>
        rw [hk] at hgc; simp only [] at hgc
        rw [hn2] at hgc
        rw [hn2t, ← hfee, ← c3]
        exact (gasCopy_spec gasFastestStep _ r fee mem' n2 hg).2 hgc
      | veryLowMem =>
        rw [hk] at hgc; simp only [] at hgc
        rw [← hfee]
        have := (gasMemVeryLow_spec _ r fee mem' hg).2 hgc
        omega
      | memOnly =>
        rw [hk] at hgc; simp only [] at hgc
        rw [gasReturn_spec _ r fee mem' hg] at hgc
        cases hgc
      | unknown => exact absurd hk hgk
end Aqv.Evm

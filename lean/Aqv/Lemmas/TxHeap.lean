/-
  Aqv.Lemmas.TxHeap — container/heap on the heap array, as mirrored in Aqv.Model.TxPriced (`hUp hDown hPush hPop hInit`):
  every operation permutes the array (the multiset changes by exactly the pushed / popped element), `up` and `down` restore
  the heap order from the standard "heap except at one node" preconditions, `Init` establishes it from nothing, and `Pop`
  returns a minimum.  Order: `priceHeap.Less` of this code base compares the gas price only (no nonce tie-break).
-/
import Aqv.Model.TxPriced
namespace Aqv.TxPool

/-- the sort key of the entry at index `i` -/
def hkey (l : List Tx) (i : Nat) : Nat := (l.getD i txDefault).price

/-- min-heap order by price on the first `n` entries of the array -/
def HeapOn (l : List Tx) (n : Nat) : Prop := ∀ k, 0 < k → k < n → hkey l ((k - 1) / 2) ≤ hkey l k

/-- the array is a min-heap by price -/
def IsHeap (l : List Tx) : Prop := HeapOn l l.length

theorem hLess_iff (l : List Tx) (i j : Nat) : hLess l i j = true ↔ hkey l i < hkey l j := by
  unfold hLess hkey; simp

theorem hLess_false (l : List Tx) (i j : Nat) : hLess l i j = false ↔ hkey l j ≤ hkey l i := by
  unfold hLess hkey; simp

/-! ### swap -/

@[simp] theorem hSwap_length (l : List Tx) (i j : Nat) : (hSwap l i j).length = l.length := by
  unfold hSwap; simp

theorem hSwap_getD (l : List Tx) (i j k : Nat) (hi : i < l.length) (hj : j < l.length) :
    (hSwap l i j).getD k txDefault =
      if k = j then l.getD i txDefault else if k = i then l.getD j txDefault else l.getD k txDefault := by
  unfold hSwap
  simp only [List.getD_eq_getElem?_getD, List.getElem?_set, List.length_set]
  by_cases h1 : k = j
  · subst h1; simp [hj]
  · by_cases h2 : k = i
    · subst h2; simp [h1, hi, Ne.symm h1]
    · simp [h1, h2, Ne.symm h1, Ne.symm h2]

theorem hkey_swap_j (l : List Tx) (i j : Nat) (hi : i < l.length) (hj : j < l.length) :
    hkey (hSwap l i j) j = hkey l i := by
  unfold hkey; rw [hSwap_getD l i j j hi hj, if_pos rfl]

theorem hkey_swap_i (l : List Tx) (i j : Nat) (hi : i < l.length) (hj : j < l.length) :
    hkey (hSwap l i j) i = hkey l j := by
  unfold hkey; rw [hSwap_getD l i j i hi hj]
  by_cases e : i = j
  · rw [if_pos e, e]
  · rw [if_neg e, if_pos rfl]

theorem hSwap_getD_ne (l : List Tx) (i j k : Nat) (hi : i < l.length) (hj : j < l.length) (h1 : k ≠ i) (h2 : k ≠ j) :
    (hSwap l i j).getD k txDefault = l.getD k txDefault := by
  rw [hSwap_getD l i j k hi hj, if_neg h2, if_neg h1]

theorem hkey_swap_ne (l : List Tx) (i j k : Nat) (hi : i < l.length) (hj : j < l.length) (h1 : k ≠ i) (h2 : k ≠ j) :
    hkey (hSwap l i j) k = hkey l k := by
  unfold hkey; rw [hSwap_getD_ne l i j k hi hj h1 h2]

theorem getD_eq_get (l : List Tx) (i : Nat) (h : i < l.length) : l.getD i txDefault = l[i] :=
  (List.getElem_eq_getD (h := h) txDefault).symm

theorem count_set_add (l : List Tx) (i : Nat) (a b : Tx) (h : i < l.length) :
    (l.set i a).count b + (if l[i] == b then 1 else 0) = l.count b + (if a == b then 1 else 0) := by
  have h1 := List.count_set (a := a) (b := b) h
  have h2 := List.count_set (a := l[i]) (b := b) (l := l.set i a) (i := i) (by simpa using h)
  have e : (l.set i a).set i l[i] = l := by simp
  rw [e] at h2
  simp only [List.getElem_set_self] at h2
  have hb : List.count b l = List.count b l := rfl
  by_cases c1 : (l[i] == b) = true <;> by_cases c2 : (a == b) = true <;>
    simp only [c1, c2, if_true, if_false, Bool.false_eq_true] at h1 h2 ⊢ <;> omega

theorem hSwap_perm (l : List Tx) (i j : Nat) (hi : i < l.length) (hj : j < l.length) : (hSwap l i j).Perm l := by
  rw [List.perm_iff_count]
  intro b
  unfold hSwap
  rw [getD_eq_get _ _ hi, getD_eq_get _ _ hj]
  have h1 := count_set_add l i l[j] b hi
  have hj' : j < (l.set i l[j]).length := by simpa using hj
  have h2 := count_set_add (l.set i l[j]) j l[i] b hj'
  have e : (l.set i l[j])[j] = l[j] := by
    rw [List.getElem_set]; split <;> rfl
  rw [e] at h2
  omega

/-! ### up -/

theorem hUp_length : ∀ (f : Nat) (l : List Tx) (j : Nat), (hUp f l j).length = l.length := by
  intro f
  induction f with
  | zero => intro l j; rfl
  | succ f ih =>
    intro l j
    unfold hUp
    simp only
    split
    · rfl
    · rw [ih, hSwap_length]

theorem hUp_perm : ∀ (f : Nat) (l : List Tx) (j : Nat), j < l.length → (hUp f l j).Perm l := by
  intro f
  induction f with
  | zero => intro l j _; exact List.Perm.refl _
  | succ f ih =>
    intro l j hj
    unfold hUp
    simp only
    split
    · exact List.Perm.refl _
    · have hi : (j - 1) / 2 < l.length := by omega
      exact (ih _ _ (by rw [hSwap_length]; exact hi)).trans (hSwap_perm l _ _ hi hj)

/-- **heap.up restores the heap order** when it holds everywhere except between `j` and its parent (and `j`'s children
    respect `j`'s parent). -/
theorem heap_up_preserves : ∀ (f : Nat) (l : List Tx) (j : Nat), j ≤ f → j < l.length →
    (∀ k, 0 < k → k < l.length → k ≠ j → hkey l ((k - 1) / 2) ≤ hkey l k) →
    (∀ k, 0 < k → k < l.length → (k - 1) / 2 = j → 0 < j → hkey l ((j - 1) / 2) ≤ hkey l k) →
    IsHeap (hUp f l j) := by
  intro f
  induction f with
  | zero =>
    intro l j hf hj h1 h2 k hk0 hkn
    unfold hUp at hkn ⊢
    exact h1 k hk0 hkn (by omega)
  | succ f ih =>
    intro l j hf hj h1 h2
    unfold hUp
    simp only
    by_cases hc : ((j - 1) / 2 == j || !hLess l j ((j - 1) / 2)) = true
    · rw [if_pos hc]
      intro k hk0 hkn
      by_cases hkj : k = j
      · rw [hkj]
        simp only [Bool.or_eq_true, beq_iff_eq, Bool.not_eq_true'] at hc
        rcases hc with hc | hc
        · omega
        · exact (hLess_false _ _ _).mp hc
      · exact h1 k hk0 hkn hkj
    · rw [if_neg hc]
      simp only [Bool.or_eq_true, beq_iff_eq, Bool.not_eq_true', not_or, Bool.not_eq_false] at hc
      obtain ⟨hne, hlt⟩ := hc
      have hlt' := (hLess_iff _ _ _).mp hlt
      have hi : (j - 1) / 2 < l.length := by omega
      have hj0 : 0 < j := by omega
      apply ih (hSwap l ((j - 1) / 2) j) ((j - 1) / 2) (by omega) (by rw [hSwap_length]; exact hi)
      · intro k hk0 hkn hki
        rw [hSwap_length] at hkn
        by_cases e1 : k = j
        · rw [e1, hkey_swap_i l _ _ hi hj, hkey_swap_j l _ _ hi hj]; omega
        · by_cases e2 : (k - 1) / 2 = j
          · rw [e2, hkey_swap_j l _ _ hi hj, hkey_swap_ne l _ _ k hi hj hki e1]
            exact h2 k hk0 hkn e2 hj0
          · by_cases e3 : (k - 1) / 2 = (j - 1) / 2
            · rw [e3, hkey_swap_i l _ _ hi hj, hkey_swap_ne l _ _ k hi hj hki e1]
              have := h1 k hk0 hkn e1
              rw [e3] at this
              omega
            · rw [hkey_swap_ne l _ _ _ hi hj e3 e2, hkey_swap_ne l _ _ k hi hj hki e1]
              exact h1 k hk0 hkn e1
      · intro k hk0 hkn hpar hi0
        rw [hSwap_length] at hkn
        have hpi := h1 ((j - 1) / 2) hi0 hi (by omega)
        rw [hkey_swap_ne l _ _ (((j - 1) / 2 - 1) / 2) hi hj (by omega) (by omega)]
        by_cases e1 : k = j
        · rw [e1, hkey_swap_j l _ _ hi hj]; exact hpi
        · rw [hkey_swap_ne l _ _ k hi hj (by omega) e1]
          have := h1 k hk0 hkn e1
          rw [hpar] at this
          omega

/-! ### down -/

/-- the child `down` descends to -/
def hChild (l : List Tx) (i n : Nat) : Nat :=
  if 2 * i + 1 + 1 < n && hLess l (2 * i + 1 + 1) (2 * i + 1) then 2 * i + 1 + 1 else 2 * i + 1

theorem hChild_spec (l : List Tx) (i n : Nat) (hn : 2 * i + 1 < n) :
    (hChild l i n = 2 * i + 1 ∧ (2 * i + 2 < n → hkey l (2 * i + 1) ≤ hkey l (2 * i + 2))) ∨
    (hChild l i n = 2 * i + 2 ∧ 2 * i + 2 < n ∧ hkey l (2 * i + 2) < hkey l (2 * i + 1)) := by
  unfold hChild
  by_cases hc : (2 * i + 1 + 1 < n && hLess l (2 * i + 1 + 1) (2 * i + 1)) = true
  · rw [if_pos hc]
    simp only [Bool.and_eq_true, decide_eq_true_eq] at hc
    exact Or.inr ⟨rfl, hc.1, (hLess_iff _ _ _).mp hc.2⟩
  · rw [if_neg hc]
    refine Or.inl ⟨rfl, fun h2 => ?_⟩
    simp only [Bool.and_eq_true, decide_eq_true_eq, not_and, Bool.not_eq_true] at hc
    exact (hLess_false _ _ _).mp (hc h2)

theorem hDown_succ (f : Nat) (l : List Tx) (i n : Nat) :
    hDown (f + 1) l i n =
      if n ≤ 2 * i + 1 then l
      else if !hLess l (hChild l i n) i then l else hDown f (hSwap l i (hChild l i n)) (hChild l i n) n := rfl

theorem hDown_length : ∀ (f : Nat) (l : List Tx) (i n : Nat), (hDown f l i n).length = l.length := by
  intro f
  induction f with
  | zero => intro l i n; rfl
  | succ f ih =>
    intro l i n
    rw [hDown_succ]
    split
    · rfl
    · split
      · rfl
      · rw [ih, hSwap_length]

theorem hDown_perm : ∀ (f : Nat) (l : List Tx) (i n : Nat), n ≤ l.length → (hDown f l i n).Perm l := by
  intro f
  induction f with
  | zero => intro l i n _; exact List.Perm.refl _
  | succ f ih =>
    intro l i n hn
    rw [hDown_succ]
    split
    · exact List.Perm.refl _
    · rename_i h1
      split
      · exact List.Perm.refl _
      · have hc := hChild_spec l i n (by omega)
        have hj : hChild l i n < l.length := by omega
        have hi : i < l.length := by omega
        exact (ih _ _ _ (by rw [hSwap_length]; exact hn)).trans (hSwap_perm l _ _ hi hj)

/-- `down(i, n)` leaves the entries from index `n` on alone -/
theorem hDown_getD_ge : ∀ (f : Nat) (l : List Tx) (i n k : Nat), n ≤ l.length → n ≤ k →
    (hDown f l i n).getD k txDefault = l.getD k txDefault := by
  intro f
  induction f with
  | zero => intro l i n k _ _; rfl
  | succ f ih =>
    intro l i n k hn hk
    rw [hDown_succ]
    split
    · rfl
    · rename_i h1
      split
      · rfl
      · have hc := hChild_spec l i n (by omega)
        have hj : hChild l i n < l.length := by omega
        have hi : i < l.length := by omega
        rw [ih _ _ _ _ (by rw [hSwap_length]; exact hn) hk]
        exact hSwap_getD_ne l _ _ k hi hj (by omega) (by omega)

/-- **heap.down restores the heap order** on the nodes whose parent index is at least `lo`, when it holds there except
    between `i` and its children (and `i`'s children respect `i`'s parent). -/
theorem heap_down_preserves : ∀ (f : Nat) (l : List Tx) (i n lo : Nat), n ≤ f + i → n ≤ l.length → lo ≤ i →
    (∀ k, 0 < k → k < n → lo ≤ (k - 1) / 2 → (k - 1) / 2 ≠ i → hkey l ((k - 1) / 2) ≤ hkey l k) →
    (∀ k, 0 < k → k < n → (k - 1) / 2 = i → 0 < i → lo ≤ (i - 1) / 2 → hkey l ((i - 1) / 2) ≤ hkey l k) →
    ∀ k, 0 < k → k < n → lo ≤ (k - 1) / 2 → hkey (hDown f l i n) ((k - 1) / 2) ≤ hkey (hDown f l i n) k := by
  intro f
  induction f with
  | zero =>
    intro l i n lo hf hn hlo h1 h2 k hk0 hkn hkl
    unfold hDown
    exact h1 k hk0 hkn hkl (by omega)
  | succ f ih =>
    intro l i n lo hf hn hlo h1 h2
    rw [hDown_succ]
    by_cases hnc : n ≤ 2 * i + 1
    · rw [if_pos hnc]
      intro k hk0 hkn hkl
      exact h1 k hk0 hkn hkl (by omega)
    · rw [if_neg hnc]
      have hc := hChild_spec l i n (by omega)
      generalize hChild l i n = j at hc ⊢
      have hj : j < l.length := by omega
      have hi : i < l.length := by omega
      by_cases hl : (!hLess l j i) = true
      · rw [if_pos hl]
        simp only [Bool.not_eq_true'] at hl
        have hij := (hLess_false _ _ _).mp hl
        intro k hk0 hkn hkl
        by_cases e : (k - 1) / 2 = i
        · rw [e]
          rcases (by omega : k = 2 * i + 1 ∨ k = 2 * i + 2) with ek | ek
          · rw [ek]
            rcases hc with ⟨c1, c2⟩ | ⟨c1, c2, c3⟩
            · rw [c1] at hij; exact hij
            · rw [c1] at hij; omega
          · rw [ek]
            rcases hc with ⟨c1, c2⟩ | ⟨c1, c2, c3⟩
            · rw [c1] at hij; have := c2 (by omega); omega
            · rw [c1] at hij; exact hij
        · exact h1 k hk0 hkn hkl e
      · rw [if_neg hl]
        simp only [Bool.not_eq_true', Bool.not_eq_false] at hl
        have hji := (hLess_iff _ _ _).mp hl
        have hjn : j < n := by omega
        have hpj : (j - 1) / 2 = i := by omega
        have hij : i ≠ j := by omega
        apply ih (hSwap l i j) j n lo (by omega) (by rw [hSwap_length]; exact hn) (by omega)
        · intro k hk0 hkn hkl hkj
          by_cases e1 : k = j
          · rw [e1, hpj, hkey_swap_i l _ _ hi hj, hkey_swap_j l _ _ hi hj]; omega
          · by_cases e2 : k = i
            · have hi0 : 0 < i := by omega
              rw [e2, hkey_swap_i l _ _ hi hj, hkey_swap_ne l _ _ ((i - 1) / 2) hi hj (by omega) (by omega)]
              exact h2 j (by omega) hjn hpj hi0 (by rw [e2] at hkl; exact hkl)
            · rw [hkey_swap_ne l _ _ k hi hj e2 e1]
              by_cases e3 : (k - 1) / 2 = i
              · rw [e3, hkey_swap_i l _ _ hi hj]
                -- k is the sibling of j
                rcases hc with ⟨c1, c2⟩ | ⟨c1, c2, c3⟩
                · have ek : k = 2 * i + 2 := by omega
                  rw [ek, c1]; exact c2 (by omega)
                · have ek : k = 2 * i + 1 := by omega
                  rw [ek, c1]; omega
              · rw [hkey_swap_ne l _ _ _ hi hj e3 hkj]
                exact h1 k hk0 hkn hkl e3
        · intro k hk0 hkn hpar hj0 hlo'
          rw [hpj, hkey_swap_i l _ _ hi hj, hkey_swap_ne l _ _ k hi hj (by omega) (by omega)]
          have := h1 k hk0 hkn (by omega) (by omega)
          rw [hpar] at this
          exact this

/-! ### Init -/

theorem hInitLoop_length : ∀ (k : Nat) (l : List Tx), (hInitLoop k l).length = l.length := by
  intro k
  induction k with
  | zero => intro l; rfl
  | succ k ih => intro l; unfold hInitLoop; rw [ih, hDown_length]

theorem hInitLoop_perm : ∀ (k : Nat) (l : List Tx), (hInitLoop k l).Perm l := by
  intro k
  induction k with
  | zero => intro l; exact List.Perm.refl _
  | succ k ih => intro l; unfold hInitLoop; exact (ih _).trans (hDown_perm _ _ _ _ (Nat.le_refl _))

theorem hInitLoop_heap : ∀ (k : Nat) (l : List Tx),
    (∀ m, 0 < m → m < l.length → k ≤ (m - 1) / 2 → hkey l ((m - 1) / 2) ≤ hkey l m) → IsHeap (hInitLoop k l) := by
  intro k
  induction k with
  | zero => intro l h m hm0 hmn; unfold hInitLoop at hmn ⊢; exact h m hm0 hmn (Nat.zero_le _)
  | succ k ih =>
    intro l h
    unfold hInitLoop
    apply ih
    rw [hDown_length]
    exact heap_down_preserves (l.length + 1) l k l.length k (by omega) (Nat.le_refl _) (Nat.le_refl _)
      (fun m hm0 hmn hlo hne => h m hm0 hmn (by omega))
      (fun m hm0 hmn hpar hk0 hlo => by omega)

theorem hInit_length (l : List Tx) : (hInit l).length = l.length := hInitLoop_length _ _

/-- heap.Init permutes the array -/
theorem hInit_perm (l : List Tx) : (hInit l).Perm l := hInitLoop_perm _ _

/-- **heap.Init establishes the heap order** on any array. -/
theorem heap_init_establishes (l : List Tx) : IsHeap (hInit l) :=
  hInitLoop_heap _ _ (fun m hm0 hmn hlo => by omega)

/-! ### Push / Pop -/

theorem hkey_append_left (l : List Tx) (t : Tx) (k : Nat) (h : k < l.length) : hkey (l ++ [t]) k = hkey l k := by
  unfold hkey
  rw [List.getD_eq_getElem?_getD, List.getD_eq_getElem?_getD, List.getElem?_append_left h]

/-- heap.Push adds exactly the pushed element -/
theorem hPush_perm (t : Tx) (l : List Tx) : (hPush t l).Perm (t :: l) := by
  unfold hPush
  exact (hUp_perm _ _ _ (by simp)).trans (List.perm_append_comm)

/-- heap.Push keeps the heap order -/
theorem hPush_heap (t : Tx) (l : List Tx) (h : IsHeap l) : IsHeap (hPush t l) := by
  unfold hPush
  apply heap_up_preserves _ _ _ (by omega) (by simp)
  · intro k hk0 hkn hne
    simp only [List.length_append, List.length_cons, List.length_nil] at hkn
    have hk : k < l.length := by omega
    rw [hkey_append_left l t k hk, hkey_append_left l t _ (by omega)]
    exact h k hk0 hk
  · intro k hk0 hkn hpar
    simp only [List.length_append, List.length_cons, List.length_nil] at hkn
    omega

/-- the root of a heap is a minimum -/
theorem heap_root_min (l : List Tx) (h : IsHeap l) : ∀ k, k < l.length → hkey l 0 ≤ hkey l k := by
  intro k
  induction k using Nat.strongRecOn with
  | _ k ih =>
    intro hk
    by_cases h0 : k = 0
    · rw [h0]; exact Nat.le_refl _
    · have h1 := h k (by omega) hk
      have h2 := ih ((k - 1) / 2) (by omega) (by omega)
      omega

theorem hPop_none {l : List Tx} (h : hPop l = none) : l = [] := by
  unfold hPop at h
  split at h
  · rename_i he; exact List.isEmpty_iff.mp he
  · cases h

theorem hPop_nil : hPop [] = none := rfl

theorem mem_getD (l : List Tx) (y : Tx) (h : y ∈ l) : ∃ k, k < l.length ∧ l.getD k txDefault = y := by
  obtain ⟨k, hk, e⟩ := List.getElem_of_mem h
  exact ⟨k, hk, by rw [getD_eq_get _ _ hk]; exact e⟩

/-- **heap.Pop** on a heap: the popped element is a minimum, the array is the popped element plus the rest (as
    multisets), and the rest is a heap again. -/
theorem heap_pop_spec (l : List Tx) (x : Tx) (rest : List Tx) (h : IsHeap l) (hp : hPop l = some (x, rest)) :
    l.Perm (x :: rest) ∧ (∀ y ∈ l, x.price ≤ y.price) ∧ IsHeap rest := by
  unfold hPop at hp
  split at hp
  · cases hp
  · rename_i hne
    have hlen : 0 < l.length := by
      cases l with
      | nil => simp at hne
      | cons a b => simp
    simp only [Option.some.injEq, Prod.mk.injEq] at hp
    obtain ⟨hx, hr⟩ := hp
    have h0 : 0 < l.length := hlen
    have hn : l.length - 1 < l.length := by omega
    generalize hl2 : hDown (l.length + 1) (hSwap l 0 (l.length - 1)) 0 (l.length - 1) = l2 at hx hr
    have hlen2 : l2.length = l.length := by rw [← hl2, hDown_length, hSwap_length]
    -- the popped element is the old root
    have hxroot : x = l.getD 0 txDefault := by
      rw [← hx, ← hl2, hDown_getD_ge _ _ _ _ _ (by rw [hSwap_length]; omega) (Nat.le_refl _)]
      unfold hkey at *
      rw [hSwap_getD l 0 (l.length - 1) _ h0 hn, if_pos rfl]
    have hperm2 : l2.Perm l := by
      rw [← hl2]
      exact (hDown_perm _ _ _ _ (by rw [hSwap_length]; omega)).trans (hSwap_perm l _ _ h0 hn)
    have hsplit : l2 = rest ++ [x] := by
      rw [← hr, ← hx]
      have hd : l2.drop (l.length - 1) = [l2.getD (l.length - 1) txDefault] := by
        rw [getD_eq_get _ _ (by omega)]
        rw [List.drop_eq_getElem_cons (by omega)]
        rw [List.drop_of_length_le (by omega)]
      rw [← hd, List.take_append_drop]
    refine ⟨?_, ?_, ?_⟩
    · have : l2.Perm (x :: rest) := by rw [hsplit]; exact List.perm_append_comm
      exact hperm2.symm.trans this
    · intro y hy
      obtain ⟨k, hk, e⟩ := mem_getD l y hy
      have := heap_root_min l h k hk
      unfold hkey at this
      rw [hxroot, ← e]; exact this
    · -- heap order of the rest: down from the root over the first n entries
      have hpost := heap_down_preserves (l.length + 1) (hSwap l 0 (l.length - 1)) 0 (l.length - 1) 0 (by omega)
        (by rw [hSwap_length]; omega) (Nat.le_refl _)
        (fun k hk0 hkn _ hne => by
          rw [hkey_swap_ne l _ _ k h0 hn (by omega) (by omega), hkey_swap_ne l _ _ _ h0 hn hne (by omega)]
          exact h k hk0 (by omega))
        (fun k _ _ _ hi0 => by omega)
      rw [hl2] at hpost
      have hrl : rest.length = l.length - 1 := by
        have := congrArg List.length hsplit
        simp only [List.length_append, List.length_cons, List.length_nil] at this
        omega
      intro k hk0 hkn
      rw [hrl] at hkn
      have hk2 : ∀ m, m < l.length - 1 → hkey rest m = hkey l2 m := by
        intro m hm
        unfold hkey
        rw [hsplit, List.getD_eq_getElem?_getD, List.getD_eq_getElem?_getD, List.getElem?_append_left (by omega)]
      rw [hk2 k hkn, hk2 _ (by omega)]
      exact hpost k hk0 hkn (Nat.zero_le _)

/-- **Push / Pop / Init on the mirrored array**: heap order is kept, the multiset changes by exactly the pushed / popped
    element, and Pop returns a minimum. -/
theorem heap_push_pop_spec :
    (∀ t l, IsHeap l → IsHeap (hPush t l) ∧ (hPush t l).Perm (t :: l)) ∧
    (∀ l x rest, IsHeap l → hPop l = some (x, rest) → l.Perm (x :: rest) ∧ (∀ y ∈ l, x.price ≤ y.price) ∧ IsHeap rest) ∧
    (∀ l, hPop l = none ↔ l = []) ∧
    (∀ l, IsHeap (hInit l) ∧ (hInit l).Perm l) :=
  ⟨fun t l h => ⟨hPush_heap t l h, hPush_perm t l⟩, fun l x rest h hp => heap_pop_spec l x rest h hp,
   fun l => ⟨hPop_none, fun h => by rw [h]; rfl⟩, fun l => ⟨heap_init_establishes l, hInit_perm l⟩⟩

/-- the executable check of the driver agrees with the heap order -/
theorem isHeap_iff (l : List Tx) : isHeap l = true ↔ IsHeap l := by
  unfold isHeap IsHeap HeapOn
  simp only [List.all_eq_true, List.mem_range, Bool.or_eq_true, beq_iff_eq, Bool.not_eq_true']
  constructor
  · intro h k hk0 hkn
    rcases h k hkn with e | e
    · omega
    · exact (hLess_false _ _ _).mp e
  · intro h k hkn
    by_cases e : k = 0
    · exact Or.inl e
    · exact Or.inr ((hLess_false _ _ _).mpr (h k (by omega) hkn))

theorem isHeap_nil : IsHeap [] := fun k _ hk => by simp at hk

end Aqv.TxPool

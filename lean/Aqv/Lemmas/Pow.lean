/-
  Aqv.Lemmas.Pow — helper lemmas for C14.
-/
import Aqv.Model.Pow
namespace Aqv.Pow
open Aqv Aqv.Consensus

/-- the verifier's target comparison (Nat division by `difficulty.toNat`) is the statement's `H ≤ 2^256 / difficulty`. -/
theorem target_cmp (r : Nat) (m : Nat) (d : Int) (hd : 0 < d) : ¬ (r > m / d.toNat) ↔ ((r : Int) ≤ (m : Int) / d) := by
  obtain ⟨n, rfl⟩ : ∃ n : Nat, d = (n : Int) := ⟨d.toNat, by omega⟩
  simp only [Int.toNat_natCast]
  rw [← Int.natCast_ediv]
  omega

theorem versionHash_argon (Hs : Hashes) (v : Nat) (data : Bytes) (hv : v = 2 ∨ v = 3 ∨ v = 4) : versionHash Hs v data = .ok (Hs.vh v data) := by
  unfold versionHash
  have : v ≠ 1 := by omega
  simp [this, hv]

theorem versionHash_bad (Hs : Hashes) (v : Nat) (data : Bytes) (h1 : v ≠ 1) (hv : ¬ (v = 2 ∨ v = 3 ∨ v = 4)) : versionHash Hs v data = .panic := by
  unfold versionHash
  simp [h1, hv]

/-- what a successful nonce walk returns meets the target, with the digest of its algorithm. -/
theorem mineFrom_sound (Hs : Hashes) (version number : Nat) (hnn : Bytes) (target : Int) :
    ∀ (fuel start nonce : Nat) (digest : Bytes), mineFrom Hs version number hnn target fuel start = some (nonce, digest) →
      (if version = 1 then digest = (Hs.ethash number hnn nonce).1 ∧ (beNat (Hs.ethash number hnn nonce).2 : Int) ≤ target
       else digest = zeroDigest ∧ (beNat (Hs.vh version (sealSeed hnn nonce)) : Int) ≤ target)
  | 0, _, _, _, h => by simp [mineFrom] at h
  | fuel + 1, start, nonce, digest, h => by
    unfold mineFrom at h
    by_cases hv : version = 1
    · subst hv
      simp only [if_true] at h ⊢
      by_cases hle : (beNat (Hs.ethash number hnn start).2 : Int) ≤ target
      · simp only [hle, if_true, Option.some.injEq, Prod.mk.injEq] at h
        obtain ⟨rfl, rfl⟩ := h
        exact ⟨rfl, hle⟩
      · simp only [hle, if_false] at h
        have := mineFrom_sound Hs 1 number hnn target fuel _ nonce digest h
        simpa using this
    · simp only [hv, if_false] at h ⊢
      by_cases hle : (beNat (Hs.vh version (sealSeed hnn start)) : Int) ≤ target
      · simp only [hle, if_true, Option.some.injEq, Prod.mk.injEq] at h
        obtain ⟨rfl, rfl⟩ := h
        exact ⟨rfl, hle⟩
      · simp only [hle, if_false] at h
        have := mineFrom_sound Hs version number hnn target fuel _ nonce digest h
        simpa [hv] using this

end Aqv.Pow

/-
  Aqv.Lemmas.Pow — helper lemmas for C14.
-/
import Aqv.Model.Pow
namespace Aqv.Pow
open Aqv Aqv.Consensus

/-- the verifier's target comparison (Nat division by `difficulty.toNat`) is the statement's `H ≤ 2^256 / difficulty`. -/
theorem target_cmp (r : Nat) (m : Nat) (d : Int) (hd : 0 < d) : ¬ (r > m / d.toNat) ↔ ((r : Int) ≤ (m : Int) / d) := by
  obtain ⟨n, rfl⟩ : ∃ n : Nat, d = (n : Int) := ⟨d.toNat, by omega⟩
  simp only [Int.toNat_natCast]
  rw [← Int.natCast_ediv]
  omega

theorem versionHash_argon (Hs : Hashes) (v : Nat) (data : Bytes) (hv : v = 2 ∨ v = 3 ∨ v = 4) : versionHash Hs v data = .ok (Hs.vh v data) := by
  unfold versionHash
  have : v ≠ 1 := by omega
  simp [this, hv]

theorem versionHash_bad (Hs : Hashes) (v : Nat) (data : Bytes) (h1 : v ≠ 1) (hv : ¬ (v = 2 ∨ v = 3 ∨ v = 4)) : versionHash Hs v data = .panic := by
  unfold versionHash
  simp [h1, hv]

/-- what a successful nonce walk returns meets the target, with the digest of its algorithm. -/
theorem mineFrom_sound (Hs : Hashes) (version number : Nat) (hnn : Bytes) (target : Int) :
    ∀ (fuel start nonce : Nat) (digest : Bytes), mineFrom Hs version number hnn target fuel start = some (nonce, digest) →
      (if version = 1 then digest = (Hs.ethash number hnn nonce).1 ∧ (beNat (Hs.ethash number hnn nonce).2 : Int) ≤ target
       else digest = zeroDigest ∧ (beNat (Hs.vh version (sealSeed hnn nonce)) : Int) ≤ target)
  | 0, _, _, _, h => by simp [mineFrom] at h
  | fuel + 1, start, nonce, digest, h => by
    unfold mineFrom at h
    by_cases hv : version = 1
    · subst hv
      simp only [if_true] at h ⊢
      by_cases hle : (beNat (Hs.ethash number hnn start).2 : Int) ≤ target
      · simp only [hle, if_true, Option.some.injEq, Prod.mk.injEq] at h
        obtain ⟨rfl, rfl⟩ := h
        exact ⟨rfl, hle⟩
      · simp only [hle, if_false] at h
        have := mineFrom_sound Hs 1 number hnn target fuel _ nonce digest h
        simpa using this
    · simp only [hv, if_false] at h ⊢
      by_cases hle : (beNat (Hs.vh version (sealSeed hnn start)) : Int) ≤ target
      · simp only [hle, if_true, Option.some.injEq, Prod.mk.injEq] at h
        obtain ⟨rfl, rfl⟩ := h
        exact ⟨rfl, hle⟩
      · simp only [hle, if_false] at h
        have := mineFrom_sound Hs version number hnn target fuel _ nonce digest h
        simpa [hv] using this


/-! ## the interleaving model with private buffers -/

/-- invariant of the private-buffer sealer: every thread's buffer / result belongs to ITS OWN current nonce, and what has been
    reported meets the target with the zero digest. -/
structure SealInv (Hs : Hashes) (version : Nat) (hnn : Bytes) (target : Int) (st : SealState) : Prop where
  buf : ∀ m ∈ st.miners, m.pc = .hash → m.buf = sealSeed hnn m.nonce
  res : ∀ m ∈ st.miners, m.pc = .compare → m.res = Hs.vh version (sealSeed hnn m.nonce)
  found : ∀ n d, st.found = some (n, d) → d = zeroDigest ∧ (beNat (Hs.vh version (sealSeed hnn n)) : Int) ≤ target

theorem mem_set_cases {α : Type} (l : List α) (i : Nat) (x y : α) (h : y ∈ l.set i x) : y = x ∨ y ∈ l := by
  rcases List.mem_or_eq_of_mem_set h with h | h
  · exact Or.inr h
  · exact Or.inl h

theorem sealStep_inv (Hs : Hashes) (version : Nat) (hnn : Bytes) (target : Int) (st : SealState) (i : Nat)
    (h : SealInv Hs version hnn target st) : SealInv Hs version hnn target (sealStep Hs version hnn target false st i) := by
  unfold sealStep
  cases hf : st.found with
  | some x => simpa [hf] using h
  | none =>
    simp only
    cases hm : st.miners[i]? with
    | none => simpa using h
    | some m =>
      have hmem : m ∈ st.miners := List.mem_of_getElem? hm
      simp only
      cases hpc : m.pc with
      | write =>
        simp only [Bool.false_eq_true, if_false]
        refine ⟨?_, ?_, ?_⟩
        · intro m' hm' hp
          rcases mem_set_cases _ _ _ _ hm' with rfl | hm'
          · rfl
          · exact h.buf m' hm' hp
        · intro m' hm' hp
          rcases mem_set_cases _ _ _ _ hm' with rfl | hm'
          · cases hp
          · exact h.res m' hm' hp
        · intro n d hnd; simp only [hf] at hnd; cases hnd
      | hash =>
        simp only [Bool.false_eq_true, if_false]
        refine ⟨?_, ?_, ?_⟩
        · intro m' hm' hp
          rcases mem_set_cases _ _ _ _ hm' with rfl | hm'
          · cases hp
          · exact h.buf m' hm' hp
        · intro m' hm' hp
          rcases mem_set_cases _ _ _ _ hm' with rfl | hm'
          · simp only; rw [h.buf m hmem hpc]
          · exact h.res m' hm' hp
        · intro n d hnd; simp only [hf] at hnd; cases hnd
      | compare =>
        simp only
        by_cases hle : (beNat m.res : Int) ≤ target
        · simp only [hle, if_true]
          refine ⟨?_, ?_, ?_⟩
          · intro m' hm' hp
            rcases mem_set_cases _ _ _ _ hm' with rfl | hm'
            · cases hp
            · exact h.buf m' hm' hp
          · intro m' hm' hp
            rcases mem_set_cases _ _ _ _ hm' with rfl | hm'
            · cases hp
            · exact h.res m' hm' hp
          · intro n d hnd
            simp only [Option.some.injEq, Prod.mk.injEq] at hnd
            obtain ⟨rfl, rfl⟩ := hnd
            refine ⟨rfl, ?_⟩
            rw [← h.res m hmem hpc]; exact hle
        · simp only [hle, if_false]
          refine ⟨?_, ?_, ?_⟩
          · intro m' hm' hp
            rcases mem_set_cases _ _ _ _ hm' with rfl | hm'
            · cases hp
            · exact h.buf m' hm' hp
          · intro m' hm' hp
            rcases mem_set_cases _ _ _ _ hm' with rfl | hm'
            · cases hp
            · exact h.res m' hm' hp
          · intro n d hnd; simp only [hf] at hnd; cases hnd
      | done => simpa using h

theorem sealInit_inv (Hs : Hashes) (version : Nat) (hnn : Bytes) (target : Int) (starts : List Nat) :
    SealInv Hs version hnn target (sealInit starts) := by
  refine ⟨?_, ?_, ?_⟩
  · intro m hm hp
    simp only [sealInit, List.mem_map] at hm
    obtain ⟨s, _, rfl⟩ := hm
    cases hp
  · intro m hm hp
    simp only [sealInit, List.mem_map] at hm
    obtain ⟨s, _, rfl⟩ := hm
    cases hp
  · intro n d h; simp [sealInit] at h

theorem sealRun_inv (Hs : Hashes) (version : Nat) (hnn : Bytes) (target : Int) : ∀ (schedule : List Nat) (st : SealState),
    SealInv Hs version hnn target st → SealInv Hs version hnn target (schedule.foldl (sealStep Hs version hnn target false) st)
  | [], _, h => h
  | i :: rest, st, h => sealRun_inv Hs version hnn target rest _ (sealStep_inv Hs version hnn target st i h)

end Aqv.Pow

/-
  Aqv.Lemmas.Supply — helper lemmas for the supply model (C05): how each primitive moves Σ balances.
-/
import Aqv.Model.Supply
import Aqv.Lemmas.Tx
namespace Aqv.Supply
open Aqv.Tx

theorem total_update_eq (m : AMap) (a v : Nat) : total (update m a v) = total m + v - lookup m a := by
  have := total_update m a v
  have := lookup_le_total m a
  omega

theorem total_zeroAll_le (m : AMap) (l : List Addr) : total (zeroAll m l) ≤ total m := by
  induction l generalizing m with
  | nil => exact Nat.le_refl _
  | cons a as ih =>
    simp only [zeroAll]
    have := ih (update m a 0)
    have := total_update_eq m a 0
    have := lookup_le_total m a
    omega

theorem lookup_zeroAll_le (m : AMap) (l : List Addr) (x : Addr) : lookup (zeroAll m l) x ≤ lookup m x := by
  induction l generalizing m with
  | nil => exact Nat.le_refl _
  | cons a as ih =>
    simp only [zeroAll]
    have h1 := ih (update m a 0)
    by_cases h : a = x
    · subst h; rw [lookup_update_eq] at h1; omega
    · rw [lookup_update_ne _ _ h] at h1; exact h1

theorem lookup_zeroAll_mem (m : AMap) (l : List Addr) (x : Addr) (hx : x ∈ l) : lookup (zeroAll m l) x = 0 := by
  induction l generalizing m with
  | nil => cases hx
  | cons a as ih =>
    simp only [zeroAll]
    rcases List.mem_cons.mp hx with h | h
    · subst h
      have := lookup_zeroAll_le (update m x 0) as x
      rw [lookup_update_eq] at this; omega
    · exact ih _ h

theorem lookup_zeroAll_not_mem (m : AMap) (l : List Addr) (x : Addr) (hx : x ∉ l) : lookup (zeroAll m l) x = lookup m x := by
  induction l generalizing m with
  | nil => rfl
  | cons a as ih =>
    simp only [zeroAll]
    have h1 : a ≠ x := fun h => hx (by rw [h]; exact List.mem_cons_self)
    have h2 : x ∉ as := fun h => hx (List.mem_cons_of_mem _ h)
    rw [ih _ h2, lookup_update_ne _ _ h1]

/-- a guarded transfer conserves Σ. -/
theorem total_transfer (s : SState) (a b : Addr) (v : Nat) : total (transfer s a b v).bal = total s.bal := by
  unfold transfer
  split
  · rfl
  · next h =>
    simp only []
    have h1 := total_update_eq s.bal a (lookup s.bal a - v)
    have h2 := total_update_eq (update s.bal a (lookup s.bal a - v)) b (lookup (update s.bal a (lookup s.bal a - v)) b + v)
    have := lookup_le_total s.bal a
    have := lookup_le_total (update s.bal a (lookup s.bal a - v)) b
    omega

theorem transfer_suicided (s : SState) (a b : Addr) (v : Nat) : (transfer s a b v).suicided = s.suicided := by
  unfold transfer; split <;> rfl

/-- SELFDESTRUCT never increases Σ; it conserves Σ unless the beneficiary is the contract itself, in which case the whole
    balance is destroyed. -/
theorem total_suicide (s : SState) (a b : Addr) :
    total (suicide s a b).bal = if a = b then total s.bal - lookup s.bal a else total s.bal := by
  unfold suicide
  simp only []
  have h1 := total_update_eq s.bal b (lookup s.bal b + lookup s.bal a)
  have h2 := total_update_eq (update s.bal b (lookup s.bal b + lookup s.bal a)) a 0
  have := lookup_le_total s.bal b
  have := lookup_le_total s.bal a
  by_cases h : a = b
  · subst h
    rw [if_pos rfl]
    rw [lookup_update_eq] at h2
    omega
  · rw [if_neg h]
    rw [lookup_update_ne _ _ (fun e => h e.symm)] at h2
    omega

theorem total_suicide_le (s : SState) (a b : Addr) : total (suicide s a b).bal ≤ total s.bal := by
  rw [total_suicide]; split <;> omega

theorem total_finalise_le (s : SState) : total (finalise s).bal ≤ total s.bal := total_zeroAll_le _ _

theorem finalise_nil (s : SState) (h : s.suicided = []) : (finalise s).bal = s.bal := by
  unfold finalise; rw [h]; rfl

/-! ### rewards -/

theorem total_payUncles (h : Nat) (us : List Uncle) (w : SWorld) : total (payUncles h us w).bal = total w.bal + uncleSum h us := by
  induction us generalizing w with
  | nil => rfl
  | cons u us ih =>
    obtain ⟨n, c⟩ := u
    show total (payUncles h us (addBal w c (uncleReward h n))).bal = total w.bal + (uncleReward h n + uncleSum h us)
    rw [ih, total_addBal, Nat.add_assoc]

end Aqv.Supply

/-
  Aqv.Lemmas.StateRootSpec — the key-ordered lists built by `Aqv.Model.StateRoot` are strictly sorted and hold exactly the
  intended (secure key, leaf) pairs whenever the hash function is injective on the keys involved.
-/
import Aqv.Model.StateRoot
import Aqv.Lemmas.TrieBuild
import Aqv.Lemmas.TrieCodec
namespace Aqv.State
open Aqv Aqv.Trie Aqv.Rlp

theorem keyLt_trans : ∀ (a b c : List Nib), keyLt a b = true → keyLt b c = true → keyLt a c = true
  | [], [], _, h, _ => by simp [keyLt] at h
  | [], _ :: _, [], _, h => by simp [keyLt] at h
  | [], _ :: _, _ :: _, _, _ => by simp [keyLt]
  | _ :: _, [], _, h, _ => by simp [keyLt] at h
  | _ :: _, _ :: _, [], _, h => by simp [keyLt] at h
  | x :: a, y :: b, z :: c, h1, h2 => by
    simp only [keyLt] at h1 h2 ⊢
    by_cases hxy : x.val < y.val
    · by_cases hyz : y.val < z.val
      · have : x.val < z.val := by omega
        simp [this]
      · by_cases hzy : z.val < y.val
        · simp [hyz, hzy] at h2
        · have : x.val < z.val := by omega
          simp [this]
    · by_cases hyx : y.val < x.val
      · simp [hxy, hyx] at h1
      · simp only [hxy, hyx, if_false] at h1
        have hxe : x.val = y.val := by omega
        by_cases hyz : y.val < z.val
        · have : x.val < z.val := by omega
          simp [this]
        · by_cases hzy : z.val < y.val
          · simp [hyz, hzy] at h2
          · simp only [hyz, hzy, if_false] at h2
            have h3 : ¬ x.val < z.val := by omega
            have h4 : ¬ z.val < x.val := by omega
            simp only [h3, h4, if_false]
            exact keyLt_trans a b c h1 h2

theorem keyLt_total : ∀ (a b : List Nib), a ≠ b → keyLt a b = true ∨ keyLt b a = true
  | [], [], h => (h rfl).elim
  | [], _ :: _, _ => Or.inl (by simp [keyLt])
  | _ :: _, [], _ => Or.inr (by simp [keyLt])
  | x :: a, y :: b, h => by
    simp only [keyLt]
    by_cases hxy : x.val < y.val
    · simp [hxy]
    · by_cases hyx : y.val < x.val
      · simp [hyx]
      · have hxe : x = y := Fin.ext (by omega)
        subst hxe
        have hab : a ≠ b := fun e => h (by rw [e])
        simp only [hxy, if_false]
        exact keyLt_total a b hab

theorem kLt_trans {a b c : Bytes × Bytes} (h1 : kLt a b = true) (h2 : kLt b c = true) : kLt a c = true :=
  keyLt_trans _ _ _ h1 h2

theorem kLt_total {a b : Bytes × Bytes} (h : a.1 ≠ b.1) : kLt a b = true ∨ kLt b a = true :=
  keyLt_total _ _ (fun e => h (keybytesToHex_injective e))

theorem mem_insertKV (x y : Bytes × Bytes) : ∀ (l : List (Bytes × Bytes)), y ∈ insertKV x l ↔ y = x ∨ y ∈ l
  | [] => by simp [insertKV]
  | z :: zs => by
    simp only [insertKV]
    split
    · simp
    · simp only [List.mem_cons, mem_insertKV x y zs]
      constructor
      · rintro (h | h | h)
        · exact Or.inr (Or.inl h)
        · exact Or.inl h
        · exact Or.inr (Or.inr h)
      · rintro (h | h | h)
        · exact Or.inr (Or.inl h)
        · exact Or.inl h
        · exact Or.inr (Or.inr h)

theorem mem_sortKVs (y : Bytes × Bytes) : ∀ (l : List (Bytes × Bytes)), y ∈ sortKVs l ↔ y ∈ l
  | [] => by simp [sortKVs]
  | x :: xs => by
    have ih := mem_sortKVs y xs
    simp only [sortKVs, List.foldr_cons] at ih ⊢
    rw [mem_insertKV, ih]; simp

theorem sorted_insertKV (x : Bytes × Bytes) : ∀ (l : List (Bytes × Bytes)),
    l.Pairwise (fun a b => kLt a b = true) → (∀ y ∈ l, x.1 ≠ y.1) → (insertKV x l).Pairwise (fun a b => kLt a b = true)
  | [], _, _ => by simp [insertKV]
  | z :: zs, hs, hne => by
    simp only [insertKV]
    obtain ⟨hz, hzs⟩ := List.pairwise_cons.mp hs
    by_cases hxz : kLt x z = true
    · simp only [hxz, if_true]
      refine List.pairwise_cons.mpr ⟨fun y hy => ?_, hs⟩
      rcases List.mem_cons.mp hy with h | h
      · subst h; exact hxz
      · exact kLt_trans hxz (hz y h)
    · simp only [hxz]
      have hzx : kLt z x = true := by
        rcases kLt_total (hne z List.mem_cons_self) with h | h
        · exact (hxz h).elim
        · exact h
      refine List.pairwise_cons.mpr ⟨fun y hy => ?_, sorted_insertKV x zs hzs (fun y hy => hne y (List.mem_cons_of_mem _ hy))⟩
      rcases (mem_insertKV x y zs).mp hy with h | h
      · subst h; exact hzx
      · exact hz y h

theorem sorted_sortKVs : ∀ (l : List (Bytes × Bytes)), l.Pairwise (fun a b => a.1 ≠ b.1) →
    (sortKVs l).Pairwise (fun a b => kLt a b = true)
  | [], _ => by simp [sortKVs]
  | x :: xs, h => by
    obtain ⟨hx, hxs⟩ := List.pairwise_cons.mp h
    have ih := sorted_sortKVs xs hxs
    simp only [sortKVs, List.foldr_cons] at ih ⊢
    exact sorted_insertKV x _ ih (fun y hy => hx y ((mem_sortKVs y xs).mp hy))


/-! ### the lists of `Aqv.Model.StateRoot` -/

/-- `H` is injective on the secure-trie keys of the listed addresses. -/
def InjOnAddrs (H : Bytes → Bytes) (addrs : List Addr) : Prop :=
  ∀ a ∈ addrs, ∀ b ∈ addrs, H (addrBytes a) = H (addrBytes b) → a = b

/-- `H` is injective on the secure-trie keys of the listed storage slots. -/
def InjOnSlots (H : Bytes → Bytes) (slots : List Slot) : Prop :=
  ∀ a ∈ slots, ∀ b ∈ slots, H (slotBytes a) = H (slotBytes b) → a = b

theorem pairwise_keys_of_nodup {α : Type} (l : List α) (f : α → Bytes × Bytes) (hnd : l.Nodup)
    (hinj : ∀ a ∈ l, ∀ b ∈ l, (f a).1 = (f b).1 → a = b) : (l.map f).Pairwise (fun x y => x.1 ≠ y.1) := by
  rw [List.pairwise_map]
  have : l.Pairwise (fun a b => a ∈ l ∧ b ∈ l ∧ a ≠ b) := by
    have h1 : l.Pairwise (fun a b => a ≠ b) := hnd
    exact (List.pairwise_iff_forall_sublist.mpr fun {a b} hab =>
      ⟨(hab.subset (by simp)), (hab.subset (by simp)), (List.pairwise_iff_forall_sublist.mp h1) hab⟩)
  exact this.imp (fun {a b} h e => h.2.2 (hinj a h.1 b h.2.1 e))

theorem sorted_storageKVs (H : Bytes → Bytes) (slots : List Slot) (st : Slot → Word) (hnd : slots.Nodup)
    (hinj : InjOnSlots H slots) : (storageKVs H slots st).Pairwise (fun a b => kLt a b = true) := by
  unfold storageKVs
  apply sorted_sortKVs
  apply pairwise_keys_of_nodup _ _ (hnd.filter _)
  intro a ha b hb e
  exact hinj a (List.mem_filter.mp ha).1 b (List.mem_filter.mp hb).1 e

theorem mem_storageKVs (H : Bytes → Bytes) (slots : List Slot) (st : Slot → Word) (kb v : Bytes) :
    (kb, v) ∈ storageKVs H slots st ↔ ∃ k ∈ slots, st k ≠ 0 ∧ kb = H (slotBytes k) ∧ v = storageLeaf (st k) := by
  unfold storageKVs
  rw [mem_sortKVs]
  simp only [List.mem_map, List.mem_filter, bne_iff_ne, ne_eq, Prod.mk.injEq]
  constructor
  · rintro ⟨k, ⟨hk, hne⟩, h1, h2⟩; exact ⟨k, hk, hne, h1.symm, h2.symm⟩
  · rintro ⟨k, hk, hne, h1, h2⟩; exact ⟨k, ⟨hk, hne⟩, h1.symm, h2.symm⟩

theorem sorted_stateKVs (H : Bytes → Bytes) (addrs : List Addr) (slots : List Slot) (c : Addr → Option Acct)
    (hnd : addrs.Nodup) (hinj : InjOnAddrs H addrs) : (stateKVs H addrs slots c).Pairwise (fun a b => kLt a b = true) := by
  unfold stateKVs
  apply sorted_sortKVs
  have hp : addrs.Pairwise (fun a b => a ∈ addrs ∧ b ∈ addrs ∧ a ≠ b) := by
    have h1 : addrs.Pairwise (fun a b => a ≠ b) := hnd
    exact (List.pairwise_iff_forall_sublist.mpr fun {a b} hab =>
      ⟨(hab.subset (by simp)), (hab.subset (by simp)), (List.pairwise_iff_forall_sublist.mp h1) hab⟩)
  refine List.Pairwise.filterMap _ ?_ hp
  intro a a' h x hx y hy e
  cases hca : c a with
  | none => simp [hca] at hx
  | some ca =>
    cases hca' : c a' with
    | none => simp [hca'] at hy
    | some ca' =>
      simp only [hca, Option.map, Option.some.injEq] at hx
      simp only [hca', Option.map, Option.some.injEq] at hy
      subst hx; subst hy
      exact h.2.2 (hinj a h.1 a' h.2.1 e)

theorem mem_stateKVs (H : Bytes → Bytes) (addrs : List Addr) (slots : List Slot) (c : Addr → Option Acct) (kb v : Bytes) :
    (kb, v) ∈ stateKVs H addrs slots c ↔ ∃ a ∈ addrs, ∃ acct, c a = some acct ∧ kb = H (addrBytes a) ∧ v = acctLeaf H slots acct := by
  unfold stateKVs
  rw [mem_sortKVs]
  simp only [List.mem_filterMap, Option.map_eq_some_iff, Prod.mk.injEq]
  constructor
  · rintro ⟨a, ha, acct, hc, h1, h2⟩; exact ⟨a, ha, acct, hc, h1.symm, h2.symm⟩
  · rintro ⟨a, ha, acct, hc, h1, h2⟩; exact ⟨a, ha, acct, hc, h1.symm, h2.symm⟩

end Aqv.State

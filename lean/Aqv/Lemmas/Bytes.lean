import Aqv.Base.Bytes
namespace Aqv

theorem beNat_nil : beNat [] = 0 := rfl

theorem beNat_append_singleton (xs : Bytes) (b : UInt8) :
    beNat (xs ++ [b]) = beNat xs * 256 + b.toNat := by
  simp [beNat, List.foldl_append]

theorem UInt8.toNat_ofNat_mod (n : Nat) : (UInt8.ofNat (n % 256)).toNat = n % 256 := by
  simp [UInt8.toNat_ofNat']

theorem beNat_beBytesF (f n : Nat) (h : n ≤ f) : beNat (beBytesF f n) = n := by
  induction f generalizing n with
  | zero => have : n = 0 := by omega
            subst this; rfl
  | succ f ih =>
    unfold beBytesF
    by_cases hn : n = 0
    · simp [hn, beNat]
    · simp only [hn, if_false]
      rw [beNat_append_singleton, ih (n / 256) (by omega), UInt8.toNat_ofNat_mod]
      omega

theorem beNat_beBytes (n : Nat) : beNat (beBytes n) = n := beNat_beBytesF n n (Nat.le_refl n)

theorem beBytesF_zero (f : Nat) : beBytesF f 0 = [] := by
  cases f <;> simp [beBytesF]

theorem beBytesF_head_ne_zero (f n : Nat) (h : n ≤ f) (b : UInt8) (rest : Bytes)
    (hb : beBytesF f n = b :: rest) : b ≠ 0 := by
  induction f generalizing n b rest with
  | zero => simp [beBytesF] at hb
  | succ f ih =>
    unfold beBytesF at hb
    by_cases hn : n = 0
    · simp [hn] at hb
    · simp only [hn, if_false] at hb
      by_cases hq : n / 256 = 0
      · rw [hq, beBytesF_zero] at hb
        simp at hb
        obtain ⟨hb, _⟩ := hb
        subst hb
        intro h0
        have : (UInt8.ofNat (n % 256)).toNat = 0 := by rw [h0]; rfl
        rw [UInt8.toNat_ofNat_mod] at this
        omega
      · cases hx : beBytesF f (n / 256) with
        | nil =>
          have := beNat_beBytesF f (n/256) (by omega)
          rw [hx] at this
          simp [beNat] at this
          omega
        | cons c cs =>
          rw [hx] at hb
          simp at hb
          obtain ⟨hb, _⟩ := hb
          subst hb
          exact ih (n/256) (by omega) c cs hx

theorem beBytes_head_ne_zero (n : Nat) (b : UInt8) (rest : Bytes) (hb : beBytes n = b :: rest) : b ≠ 0 :=
  beBytesF_head_ne_zero n n (Nat.le_refl n) b rest hb

theorem beBytesF_length_le (f n k : Nat) (h : n < 256 ^ k) : (beBytesF f n).length ≤ k := by
  induction f generalizing n k with
  | zero => simp [beBytesF]
  | succ f ih =>
    unfold beBytesF
    by_cases hn : n = 0
    · simp [hn]
    · simp only [hn, if_false, List.length_append, List.length_singleton]
      cases k with
      | zero => simp at h; omega
      | succ k =>
        have : n / 256 < 256 ^ k := by
          rw [Nat.pow_succ] at h
          exact Nat.div_lt_of_lt_mul (by rw [Nat.mul_comm]; exact h)
        have := ih (n/256) k this
        omega

theorem beBytes_length_le (n k : Nat) (h : n < 256 ^ k) : (beBytes n).length ≤ k :=
  beBytesF_length_le n n k h

theorem beBytes_ne_nil (n : Nat) (h : n ≠ 0) : beBytes n ≠ [] := by
  intro hx
  have := beNat_beBytes n
  rw [hx] at this
  simp [beNat] at this
  omega

/-- any fuel that covers the value gives the same bytes. -/
theorem beBytesF_fuel (f g n : Nat) (hf : n ≤ f) (hg : n ≤ g) : beBytesF f n = beBytesF g n := by
  induction f generalizing n g with
  | zero =>
    have : n = 0 := by omega
    subst this; rw [beBytesF_zero, beBytesF_zero]
  | succ f ih =>
    cases g with
    | zero =>
      have : n = 0 := by omega
      subst this; rw [beBytesF_zero, beBytesF_zero]
    | succ g =>
      unfold beBytesF
      by_cases hn : n = 0
      · simp [hn]
      · simp only [hn, if_false]
        rw [ih g (n/256) (by omega) (by omega)]

theorem beNat_lt (bs : Bytes) : beNat bs < 256 ^ bs.length := by
  rcases List.eq_nil_or_concat bs with h | ⟨xs, b, h⟩
  · subst h; simp [beNat]
  · subst h
    have ih := beNat_lt xs
    rw [List.concat_eq_append, beNat_append_singleton]
    simp only [List.length_append, List.length_singleton, Nat.pow_succ]
    have := b.toNat_lt
    omega
termination_by bs.length
decreasing_by subst h; simp

/-- a byte string without a leading zero is the minimal big-endian form of its value. -/
theorem beBytes_beNat (bs : Bytes) (h : ∀ b rest, bs = b :: rest → b ≠ 0) : beBytes (beNat bs) = bs := by
  rcases List.eq_nil_or_concat bs with hnil | ⟨xs, b, hc⟩
  · subst hnil; rfl
  · subst hc
    rw [List.concat_eq_append] at *
    have hxs : ∀ c rest, xs = c :: rest → c ≠ 0 := by
      intro c rest hx
      apply h c (rest ++ [b])
      simp [hx]
    have ih := beBytes_beNat xs hxs
    rw [beNat_append_singleton]
    have hblt := b.toNat_lt
    by_cases hx0 : xs = []
    · subst hx0
      have hb0 : b ≠ 0 := h b [] (by simp)
      have hbn : b.toNat ≠ 0 := by
        intro hz; apply hb0
        exact UInt8.toNat_inj.mp (by simpa using hz)
      simp only [beNat, List.foldl_nil, Nat.zero_mul, Nat.zero_add, List.nil_append]
      unfold beBytes
      cases hbt : b.toNat with
      | zero => omega
      | succ m =>
        unfold beBytesF
        simp only [Nat.succ_ne_zero, if_false]
        have : (m+1) / 256 = 0 := by omega
        rw [this, beBytesF_zero]
        have : (m+1) % 256 = b.toNat := by omega
        rw [this]
        simp
    · have hpos : beNat xs ≠ 0 := by
        intro hz
        rw [hz] at ih
        exact hx0 (by simpa [beBytes, beBytesF_zero] using ih.symm)
      unfold beBytes
      cases hv : beNat xs * 256 + b.toNat with
      | zero => omega
      | succ m =>
        unfold beBytesF
        simp only [Nat.succ_ne_zero, if_false]
        rw [← hv]
        have h1 : (beNat xs * 256 + b.toNat) / 256 = beNat xs := by omega
        have h2 : (beNat xs * 256 + b.toNat) % 256 = b.toNat := by omega
        rw [h1, h2, beBytesF_fuel m (beNat xs) (beNat xs) (by omega) (Nat.le_refl _)]
        unfold beBytes at ih
        rw [ih]
        simp
termination_by bs.length
decreasing_by subst hc; simp

end Aqv

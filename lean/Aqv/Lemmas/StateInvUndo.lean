/-
  Aqv.Lemmas.StateInvUndo — `BInv` is preserved by the undo of every journal entry except a touch that found the callback
  armed (that undo is the F2 defect), hence by RevertToSnapshot over journal segments without such entries.
-/
import Aqv.Lemmas.StateInv
namespace Aqv.State

theorem look_clean {s : SDB} (hb : BInv s) {a : Addr} {o : Obj} (hl : look s a = some o) (hnd : a ∉ s.dirty) :
    o.armed = true ∧ o.suicided = false ∧ s.trie a = some o.toAcct := by
  unfold look at hl
  cases ho : s.objs a with
  | none =>
    simp only [ho] at hl
    cases ht : s.trie a with
    | none => simp [ht] at hl
    | some c =>
      simp only [ht, Option.map, Option.some.injEq] at hl; subst hl
      exact ⟨rfl, rfl, by rw [toAcct_fromAcct]⟩
  | some q =>
    simp only [ho] at hl
    by_cases hq : q.deleted = true
    · simp [hq] at hl
    · simp only [hq, Bool.false_eq_true, if_false, Option.some.injEq] at hl
      subst hl
      exact hb.ca a q ho (by simpa using hq) hnd

/-- states that agree on everything `BInv` talks about. -/
theorem binv_congr {s t : SDB} (hb : BInv s) (h1 : t.objs = s.objs) (h2 : t.dirty = s.dirty) (h3 : t.trie = s.trie)
    (h4 : t.journal = s.journal) : BInv t :=
  ⟨fun b q hq hqd => by rw [h3]; rw [h1] at hq; exact hb.coh b q hq hqd,
   fun x hx => by rw [h4] at hx; exact hb.jok x hx,
   fun b hbd => by rw [h1]; rw [h2] at hbd; exact hb.dobj b hbd,
   fun b q hq hqd hnd => by rw [h3]; rw [h1] at hq; rw [h2] at hnd; exact hb.ca b q hq hqd hnd,
   fun b p hp => by rw [h4] at hp; rw [h1]; exact hb.jlive b p hp,
   fun pre a post h => by rw [h4] at h; exact hb.jfresh pre a post h,
   fun b p hp => by rw [h4] at hp; rw [h2]; exact hb.jdirty b p hp⟩

theorem binv_pop {s : SDB} {e : Entry} {js : List Entry} (hb : BInv s) (hj : s.journal = e :: js) :
    BInv { s with journal := js } :=
  ⟨hb.coh, fun x hx => hb.jok x (by rw [hj]; exact List.mem_cons_of_mem _ hx), hb.dobj, hb.ca,
   fun b p hp => hb.jlive b p (by rw [hj]; exact List.mem_cons_of_mem _ hp),
   fun pre a post h => hb.jfresh (e :: pre) a post (by rw [hj]; simp only [List.cons_append, List.cons.injEq, true_and]; exact h),
   fun b p hp => hb.jdirty b p (by rw [hj]; exact List.mem_cons_of_mem _ hp)⟩

/-- a field write through the callback, without a journal entry (what the undo functions do). -/
theorem binv_writeObj {s : SDB} (hb : BInv s) (a : Addr) (o0 o' : Obj) (hl : look s a = some o0)
    (harm : o'.armed = o0.armed) (hdel : o'.deleted = false) : BInv (writeObj s a o') := by
  have hdirty : a ∈ (writeObj s a o').dirty := by
    unfold writeObj
    by_cases ha : o'.armed = true
    · simp only [ha, if_true, putObj_dirty]; exact (mem_markDirty s a a).mpr (Or.inl rfl)
    · simp only [ha, putObj_dirty]
      rcases look_armed_or_dirty hb hl with h | h
      · rw [harm] at ha; exact (ha h).elim
      · exact h
  have hsub : ∀ b, b ∈ s.dirty → b ∈ (writeObj s a o').dirty := by
    intro b hbd
    unfold writeObj
    split
    · simp only [putObj_dirty]; exact (mem_markDirty s a b).mpr (Or.inr hbd)
    · exact hbd
  have hsup : ∀ b, b ∈ (writeObj s a o').dirty → b = a ∨ b ∈ s.dirty := by
    intro b hbd
    unfold writeObj at hbd
    split at hbd
    · simp only [putObj_dirty] at hbd; exact (mem_markDirty s a b).mp hbd
    · exact Or.inr hbd
  have hobjs : ∀ b, (writeObj s a o').objs b = if b = a then some { o' with armed := false } else s.objs b := by
    intro b; unfold writeObj; split <;> simp [putObj, upd]
  have hj : (writeObj s a o').journal = s.journal := by simp
  refine ⟨?_, ?_, ?_, ?_, ?_, ?_, ?_⟩
  · intro b q hq hqd
    have := tomb_writeObj (q := q) hdel ⟨hq, hqd⟩
    rw [writeObj_trie]; exact hb.coh b q this.1 this.2
  · intro x hx; rw [hj] at hx; exact hb.jok x hx
  · intro b hbd
    rw [hobjs]
    by_cases hba : b = a
    · simp [hba]
    · simp only [hba, if_false]
      rcases hsup b hbd with h | h
      · exact (hba h).elim
      · exact hb.dobj b h
  · intro b q hq hqd hnd
    rw [hobjs] at hq
    by_cases hba : b = a
    · subst hba; exact (hnd hdirty).elim
    · simp only [hba, if_false] at hq
      rw [writeObj_trie]
      exact hb.ca b q hq hqd (fun h => hnd (hsub b h))
  · intro b p hp; rw [hj] at hp
    obtain ⟨q, hq, hqd⟩ := hb.jlive b p hp
    rw [hobjs]
    by_cases hba : b = a
    · exact ⟨{ o' with armed := false }, by simp [hba], hdel⟩
    · exact ⟨q, by simp [hba, hq], hqd⟩
  · rw [hj]; exact hb.jfresh
  · intro b p hp; rw [hj] at hp; exact hsub b (hb.jdirty b p hp)

/-- re-storing an object that differs from the looked-up one only in fields no invariant reads (`touched`). -/
theorem binv_putObj_eqv {s : SDB} (hb : BInv s) (a : Addr) (o o' : Obj) (hl : look s a = some o)
    (harm : o'.armed = o.armed) (hdel : o'.deleted = false) (hsu : o'.suicided = o.suicided) (hacc : o'.toAcct = o.toAcct) :
    BInv (putObj s a o') := by
  have hobjs : ∀ b, (putObj s a o').objs b = if b = a then some o' else s.objs b := by
    intro b; simp [putObj, upd]
  refine ⟨?_, hb.jok, ?_, ?_, ?_, hb.jfresh, hb.jdirty⟩
  · intro b q hq hqd
    have := tomb_putObj (q := q) hdel ⟨hq, hqd⟩
    exact hb.coh b q this.1 this.2
  · intro b hbd
    rw [hobjs]
    by_cases hba : b = a
    · simp [hba]
    · simp only [hba, if_false]; exact hb.dobj b hbd
  · intro b q hq hqd hnd
    rw [hobjs] at hq
    by_cases hba : b = a
    · subst hba
      simp only [if_true, Option.some.injEq] at hq; subst hq
      obtain ⟨h1, h2, h3⟩ := look_clean hb hl hnd
      exact ⟨by rw [harm]; exact h1, by rw [hsu]; exact h2, by rw [hacc]; exact h3⟩
    · simp only [hba, if_false] at hq
      exact hb.ca b q hq hqd hnd
  · intro b p hp
    obtain ⟨q, hq, hqd⟩ := hb.jlive b p hp
    rw [hobjs]
    by_cases hba : b = a
    · exact ⟨o', by simp [hba], hdel⟩
    · exact ⟨q, by simp [hba, hq], hqd⟩

theorem binv_undo {s : SDB} {e : Entry} {js : List Entry} (hb : BInv s) (hj : s.journal = e :: js)
    (hat : e.armedTouch = false) : BInv (undo e { s with journal := js }) := by
  have h1 := binv_pop hb hj
  have hlk : ∀ b, look { s with journal := js } b = look s b := fun _ => rfl
  cases e with
  | createObject a =>
    have hnr : ∀ p, Entry.resetObject a p ∉ js := hb.jfresh [] a js (by simpa using hj)
    simp only [undo]
    refine ⟨?_, h1.jok, ?_, ?_, ?_, h1.jfresh, ?_⟩
    · intro b q hq hqd
      by_cases hba : b = a
      · simp [upd, hba] at hq
      · simp only [upd, hba, if_false] at hq; exact hb.coh b q hq hqd
    · intro b hbd
      simp only [List.mem_filter, bne_iff_ne, ne_eq] at hbd
      simp only [upd, hbd.2, if_false]
      exact hb.dobj b hbd.1
    · intro b q hq hqd hnd
      by_cases hba : b = a
      · simp [upd, hba] at hq
      · simp only [upd, hba, if_false] at hq
        refine hb.ca b q hq hqd (fun h => hnd ?_)
        simp only [List.mem_filter, bne_iff_ne, ne_eq]; exact ⟨h, hba⟩
    · intro b p hp
      have hba : b ≠ a := fun h => hnr p (h ▸ hp)
      obtain ⟨q, hq, hqd⟩ := h1.jlive b p hp
      exact ⟨q, by simp only [upd, hba, if_false]; exact hq, hqd⟩
    · intro b p hp
      have hba : b ≠ a := fun h => hnr p (h ▸ hp)
      simp only [List.mem_filter, bne_iff_ne, ne_eq]; exact ⟨h1.jdirty b p hp, hba⟩
  | resetObject a prev =>
    have hprev : prev.deleted = false := hb.jok (.resetObject a prev) (by rw [hj]; exact List.mem_cons_self)
    have had : a ∈ s.dirty := hb.jdirty a prev (by rw [hj]; exact List.mem_cons_self)
    simp only [undo]
    have hobjs : ∀ b, (putObj { s with journal := js } a prev).objs b = if b = a then some prev else s.objs b := by
      intro b; simp [putObj, upd]
    refine ⟨?_, h1.jok, ?_, ?_, ?_, h1.jfresh, h1.jdirty⟩
    · intro b q hq hqd
      have := tomb_putObj (q := q) hprev ⟨hq, hqd⟩
      exact hb.coh b q this.1 this.2
    · intro b hbd
      rw [hobjs]
      by_cases hba : b = a
      · simp [hba]
      · simp only [hba, if_false]; exact hb.dobj b hbd
    · intro b q hq hqd hnd
      rw [hobjs] at hq
      by_cases hba : b = a
      · subst hba; exact (hnd had).elim
      · simp only [hba, if_false] at hq; exact hb.ca b q hq hqd hnd
    · intro b p hp
      obtain ⟨q, hq, hqd⟩ := h1.jlive b p hp
      rw [hobjs]
      by_cases hba : b = a
      · exact ⟨prev, by simp [hba], hprev⟩
      · exact ⟨q, by simp only [hba, if_false]; exact hq, hqd⟩
  | suicide a prev pb =>
    simp only [undo]
    cases hl : look { s with journal := js } a with
    | none => exact h1
    | some o =>
      have hod : o.deleted = false := look_not_deleted hl
      exact binv_writeObj h1 a o _ hl rfl hod
  | balance a prev =>
    simp only [undo]
    cases hl : look { s with journal := js } a with
    | none => exact binv_congr h1 rfl rfl rfl rfl
    | some o =>
      have hod : o.deleted = false := look_not_deleted hl
      exact binv_writeObj h1 a o _ hl rfl hod
  | nonce a prev =>
    simp only [undo]
    cases hl : look { s with journal := js } a with
    | none => exact binv_congr h1 rfl rfl rfl rfl
    | some o =>
      have hod : o.deleted = false := look_not_deleted hl
      exact binv_writeObj h1 a o _ hl rfl hod
  | storage a k prev =>
    simp only [undo]
    cases hl : look { s with journal := js } a with
    | none => exact binv_congr h1 rfl rfl rfl rfl
    | some o =>
      have hod : o.deleted = false := look_not_deleted hl
      exact binv_writeObj h1 a o _ hl rfl hod
  | code a prev =>
    simp only [undo]
    cases hl : look { s with journal := js } a with
    | none => exact binv_congr h1 rfl rfl rfl rfl
    | some o =>
      have hod : o.deleted = false := look_not_deleted hl
      exact binv_writeObj h1 a o _ hl rfl hod
  | refund prev => exact binv_congr h1 rfl rfl rfl rfl
  | addLog th => exact binv_congr h1 rfl rfl rfl rfl
  | addPreimage hh => exact binv_congr h1 rfl rfl rfl rfl
  | touch a prev prevDirty =>
    simp only [undo]
    split
    · rename_i hc
      have hpd : prevDirty = true := by
        simp only [Entry.armedTouch] at hat
        simp only [Bool.and_eq_true] at hc
        cases prevDirty
        · simp [hc.1, hc.2] at hat
        · rfl
      cases hl : look { s with journal := js } a with
      | none => exact binv_congr h1 rfl rfl rfl rfl
      | some o =>
        have hod : o.deleted = false := look_not_deleted hl
        simp only [hpd, Bool.not_true, Bool.false_eq_true, if_false]
        exact binv_putObj_eqv h1 a o _ hl rfl hod rfl rfl
    · exact h1

/-- the `k` newest journal entries contain no touch that found the callback armed. -/
def NoAT (k : Nat) (s : SDB) : Prop := ∀ e ∈ s.journal.take k, Entry.armedTouch e = false

theorem binv_undoN : ∀ (k : Nat) {s : SDB}, BInv s → NoAT k s → BInv (undoN k s)
  | 0, _, hb, _ => hb
  | k + 1, s, hb, hn => by
    cases hj : s.journal with
    | nil => rw [undoN_succ_nil k s hj]; exact hb
    | cons e js =>
      rw [undoN_succ_cons k s e js hj]
      have he : e.armedTouch = false := hn e (by rw [hj]; simp)
      apply binv_undoN k (binv_undo hb hj he)
      intro x hx
      rw [undo_journal] at hx
      exact hn x (by rw [hj]; simp only [List.take_succ_cons]; exact List.mem_cons_of_mem _ hx)

theorem binv_snapshot {s : SDB} (hb : BInv s) : BInv (snapshot s).1 := binv_congr hb rfl rfl rfl rfl

theorem binv_revertTo {s t : SDB} {id : Nat} (hb : BInv s) (h : revertTo id s = some t)
    (hn : ∀ r ∈ s.revs, r.1 = id → NoAT (s.journal.length - r.2) s) : BInv t := by
  obtain ⟨r, rest, hdw, hid, ht⟩ := revertTo_eq h
  have hr : r ∈ s.revs := mem_of_mem_dropWhile _ _ _ (by rw [hdw]; exact List.mem_cons_self)
  have := binv_undoN _ hb (hn r hr hid)
  rw [ht]
  exact binv_congr this rfl rfl rfl rfl

end Aqv.State

/-
  Aqv.Lemmas.TxPoolReset — demoteUnexecutables, the nonce synchronisation and reset.
-/
import Aqv.Lemmas.TxPoolOps
namespace Aqv.TxPool

/-! ## the stages of demoteAcct -/

def dP1 (s : Pool) (a : Addr) : TxL := { s.pending a with items := (forward (s.cnonce a) (s.pending a).items).2 }
def dG (s : Pool) (a : Addr) : List Tx × List Tx × TxL := (dP1 s a).filter (s.balance a) s.maxGas
def dS3 (s : Pool) (a : Addr) : Pool :=
  ({ s with all := (s.all.filter (fun t => !decide (t ∈ (forward (s.cnonce a) (s.pending a).items).1))).filter
                    (fun t => !decide (t ∈ (dG s a).1)) } : Pool).setP a (dG s a).2.2
def dS4 (s : Pool) (a : Addr) : Pool := enqueueAll (dS3 s a) (dG s a).2.1
def dKeep (gapFix : Bool) (s : Pool) (a : Addr) : Nat :=
  let p := (dS4 s a).pending a
  if gapFix then (runFrom (s.cnonce a) p.items).1.length
  else if !p.items.isEmpty && (getN p.items (s.cnonce a)).isNone then 0 else p.items.length
def dS5 (gapFix : Bool) (s : Pool) (a : Addr) : Pool :=
  (dS4 s a).setP a { (dS4 s a).pending a with items := ((dS4 s a).pending a).items.take (dKeep gapFix s a) }
def dS6 (gapFix : Bool) (s : Pool) (a : Addr) : Pool :=
  enqueueAll (dS5 gapFix s a) (((dS4 s a).pending a).items.drop (dKeep gapFix s a))

theorem demoteAcct_eq (gapFix : Bool) (s : Pool) (a : Addr) :
    s.demoteAcct gapFix a = (dS6 gapFix s a).setP a (dropIfEmpty ((dS6 gapFix s a).pending a)) := rfl

structure DFacts (s : Pool) (a : Addr) : Prop where
  p2sub    : ∀ t ∈ (dG s a).2.2.items, t ∈ (s.pending a).items ∧ s.cnonce a ≤ t.nonce
  p2sorted : Sorted (dG s a).2.2.items
  p2strict : (dG s a).2.2.strict = true
  p2caps   : CapsOK (dG s a).2.2
  p2pay    : ∀ t ∈ (dG s a).2.2.items, Payable (s.balance a) s.maxGas t
  invsub   : ∀ t ∈ (dG s a).2.1, t ∈ (s.pending a).items
  invabove : ∀ t ∈ (dG s a).2.1, ∀ u ∈ (dG s a).2.2.items, u.nonce < t.nonce
  keepslow : ∀ e ∈ (s.pending a).items, e.nonce = s.cnonce a → Payable (s.balance a) s.maxGas e → e ∈ (dG s a).2.2.items

theorem dfacts (s : Pool) (a : Addr) (hw : Weak (s.pending a) (s.queue a) a) : DFacts s a := by
  have hp1s : Sorted (dP1 s a).items := hw.psorted.filter _
  have hp1c : CapsOK (dP1 s a) := hw.pcaps.sub (fun t ht => (List.mem_filter.mp ht).1)
  have hfs := TxL.filter_spec (dP1 s a) (s.balance a) s.maxGas
  have hp1sub : ∀ t ∈ (dP1 s a).items, t ∈ (s.pending a).items ∧ s.cnonce a ≤ t.nonce := by
    intro t ht
    have := List.mem_filter.mp ht
    exact ⟨this.1, by simpa [Nat.not_lt] using this.2⟩
  exact { p2sub := fun t ht => hp1sub t (hfs.kept_sub t ht)
          p2sorted := hfs.sorted hp1s
          p2strict := by rw [dG, hfs.strict]; exact hw.pstrict
          p2caps := hfs.caps hp1c
          p2pay := hfs.kept_pay hp1c
          invsub := fun t ht => (hp1sub t (hfs.inv_sub t ht)).1
          invabove := hfs.inv_above hp1s
          keepslow := fun e he hen hpay => by
            have he1 : e ∈ (dP1 s a).items := List.mem_filter.mpr ⟨he, by simp [hen]⟩
            rcases hfs.cover e he1 with h | h | h
            · exact h
            · have := hfs.rem_unpay e h
              have hp := unpayable_false.mpr hpay
              rw [hp] at this; cases this
            · obtain ⟨u, hu, hlt⟩ := hfs.inv_low e h
              have := (hp1sub u (hfs.rem_sub u hu)).2
              omega }

theorem dS3_touch (s : Pool) (a : Addr) : Touch s a (dS3 s a) :=
  { env := ⟨rfl, rfl, rfl, rfl⟩, locals := rfl, gasPrice := rfl, pother := fun b hb => upd_other _ _ hb
    qother := fun _ _ => rfl, nother := fun _ _ => rfl, accts := fun _ h => h }

theorem dS3_pending (s : Pool) (a : Addr) : (dS3 s a).pending a = (dG s a).2.2 := upd_same _ _ _

theorem dS3_weak {s : Pool} (a : Addr) (h : WeakAll s) : WeakAll (dS3 s a) := by
  have hd := dfacts s a (h.1 a)
  apply h.touch (dS3_touch s a)
  · rw [dS3_pending]
    exact (h.1 a).subP hd.p2strict (fun t ht => (hd.p2sub t ht).1) hd.p2sorted hd.p2caps
  · intro hna
    have := h.2 a hna
    rw [dS3_pending]
    refine ⟨?_, this.2⟩
    cases hr : (dG s a).2.2.items with
    | nil => rfl
    | cons y ys =>
      have := (hd.p2sub y (by rw [hr]; exact List.mem_cons_self)).1
      rw [(h.2 a hna).1] at this; cases this

theorem dS4_facts {s : Pool} (a : Addr) (h : WeakAll s) :
    WeakAll (dS4 s a) ∧ Touch s a (dS4 s a) ∧ (dS4 s a).pending a = (dG s a).2.2 ∧ (dS4 s a).pnonce = s.pnonce := by
  have hd := dfacts s a (h.1 a)
  have hown : ∀ u ∈ (dG s a).2.1, u.sender = a := fun u hu => (h.1 a).powner u (hd.invsub u hu)
  have hf := enqueueAll_facts (dS3 s a) a (dG s a).2.1 hown
  refine ⟨?_, (dS3_touch s a).trans hf.touch, by rw [dS4, hf.pending, dS3_pending], by rw [dS4, hf.pnonce]; rfl⟩
  apply enqueueAll_weak (dS3_weak a h) hown
  intro u hu p hp
  rw [dS3_pending] at hp
  have := hd.invabove u hu p hp
  omega

theorem dS5_pending (g : Bool) (s : Pool) (a : Addr) :
    (dS5 g s a).pending a = { (dS4 s a).pending a with items := ((dS4 s a).pending a).items.take (dKeep g s a) } := upd_same _ _ _

theorem dS5_touch (g : Bool) (s : Pool) (a : Addr) : Touch (dS4 s a) a (dS5 g s a) :=
  { env := ⟨rfl, rfl, rfl, rfl⟩, locals := rfl, gasPrice := rfl, pother := fun b hb => upd_other _ _ hb
    qother := fun _ _ => rfl, nother := fun _ _ => rfl, accts := fun _ h => h }

/-- everything about the result of demoteAcct that the tiers need -/
structure DemoteFacts (g : Bool) (s : Pool) (a : Addr) (s' : Pool) : Prop where
  weak   : WeakAll s'
  touch  : Touch s a s'
  pnonce : s'.pnonce = s.pnonce
  items  : (s'.pending a).items = (dG s a).2.2.items.take (dKeep g s a)

theorem demoteAcct_facts (g : Bool) {s : Pool} (a : Addr) (h : WeakAll s) : DemoteFacts g s a (s.demoteAcct g a) := by
  have hd := dfacts s a (h.1 a)
  obtain ⟨hw4, ht4, hp4, hn4⟩ := dS4_facts a h
  have hw4a := hw4.1 a
  have hsub5 : ∀ t ∈ ((dS4 s a).pending a).items.take (dKeep g s a), t ∈ ((dS4 s a).pending a).items :=
    fun t ht => List.mem_of_mem_take ht
  have hw5 : WeakAll (dS5 g s a) := by
    apply hw4.touch (dS5_touch g s a)
    · rw [dS5_pending]
      exact hw4a.subP hw4a.pstrict hsub5 (hw4a.psorted.take _) (hw4a.pcaps.sub hsub5)
    · intro hna
      have := hw4.2 a hna
      rw [dS5_pending]
      refine ⟨?_, this.2⟩
      show ((dS4 s a).pending a).items.take _ = []
      rw [this.1]; simp
  have hown : ∀ u ∈ ((dS4 s a).pending a).items.drop (dKeep g s a), u.sender = a :=
    fun u hu => hw4a.powner u (List.mem_of_mem_drop hu)
  have hf6 := enqueueAll_facts (dS5 g s a) a _ hown
  have hw6 : WeakAll (dS6 g s a) := by
    apply enqueueAll_weak hw5 hown
    intro u hu p hp
    rw [dS5_pending] at hp
    have hs := hw4a.psorted
    rw [← List.take_append_drop (dKeep g s a) ((dS4 s a).pending a).items] at hs
    have := (List.pairwise_append.mp hs).2.2 p hp u hu
    omega
  have hp6 : (dS6 g s a).pending a = (dS5 g s a).pending a := by rw [dS6, hf6.pending]
  have htl : Touch (dS6 g s a) a ((dS6 g s a).setP a (dropIfEmpty ((dS6 g s a).pending a))) :=
    { env := ⟨rfl, rfl, rfl, rfl⟩, locals := rfl, gasPrice := rfl, pother := fun b hb => upd_other _ _ hb
      qother := fun _ _ => rfl, nother := fun _ _ => rfl, accts := fun _ h => h }
  rw [demoteAcct_eq]
  have hfin : ((dS6 g s a).setP a (dropIfEmpty ((dS6 g s a).pending a))).pending a = dropIfEmpty ((dS6 g s a).pending a) :=
    upd_same _ _ _
  have hw6a := hw6.1 a
  refine { weak := ?_, touch := ((ht4.trans (dS5_touch g s a)).trans hf6.touch).trans htl, pnonce := ?_, items := ?_ }
  · apply hw6.touch htl
    · rw [hfin]
      exact hw6a.subP (by rw [dropIfEmpty_strict]; exact hw6a.pstrict) (fun t ht => by rwa [dropIfEmpty_items] at ht)
        (by rw [dropIfEmpty_items]; exact hw6a.psorted) (dropIfEmpty_caps hw6a.pcaps)
    · intro hna
      have := hw6.2 a hna
      rw [hfin, dropIfEmpty_items]
      exact this
  · show (dS6 g s a).pnonce = s.pnonce
    rw [dS6, hf6.pnonce]
    show (dS4 s a).pnonce = s.pnonce
    exact hn4
  · rw [hfin, dropIfEmpty_items, hp6, dS5_pending, hp4]

theorem demoteAcct_phase (g : Bool) {s : Pool} (a : Addr) (h : Phase s) : Phase (s.demoteAcct g a) := by
  have hf := demoteAcct_facts g a h.1
  have hd := dfacts s a (h.1.1 a)
  obtain ⟨_, _, hp4, _⟩ := dS4_facts a h.1
  refine ⟨hf.weak, h.2.touch hf.touch ?_⟩
  rw [hf.pnonce]
  rcases h.2 a with hl | ⟨e, he, hen, hpay⟩
  · exact Or.inl hl
  · right
    have he2 := hd.keepslow e he hen hpay
    refine ⟨e, ?_, hen, hpay⟩
    rw [hf.items]
    -- e is the lowest entry and sits at the chain nonce: both variants keep it
    have hge : ∀ t ∈ (dG s a).2.2.items, s.cnonce a ≤ t.nonce := fun t ht => (hd.p2sub t ht).2
    unfold dKeep
    simp only [hp4]
    cases g with
    | true =>
      simp only [if_true]
      rw [take_runFrom]
      exact mem_runFrom_head hd.p2sorted hge he2 hen
    | false =>
      simp only [Bool.false_eq_true, if_false]
      have hsome : (getN (dG s a).2.2.items (s.cnonce a)).isNone = false := by
        have := getN_of_mem hd.p2sorted he2
        rw [hen] at this; rw [this]; rfl
      simp only [hsome, Bool.and_false, Bool.false_eq_true, if_false, List.take_length]
      exact he2

/-- after demotion (code at HEAD, `gapFix = true`) the pending list of the account is a payable run from the chain nonce -/
def RunPay (s : Pool) (b : Addr) : Prop :=
  IsRun (s.cnonce b) (s.pending b).items ∧ ∀ t ∈ (s.pending b).items, Payable (s.balance b) s.maxGas t

theorem RunPay.touch {s s' : Pool} {a b : Addr} (ht : Touch s a s') (hb : b ≠ a) (h : RunPay s b) : RunPay s' b := by
  unfold RunPay at h ⊢
  rw [ht.env.cnonce, ht.env.balance, ht.env.maxGas, ht.pother b hb]; exact h

theorem demoteAcct_runpay {s : Pool} (a : Addr) (h : WeakAll s) : RunPay (s.demoteAcct true a) a := by
  have hf := demoteAcct_facts true a h
  have hd := dfacts s a (h.1 a)
  obtain ⟨_, _, hp4, _⟩ := dS4_facts a h
  have hitems : ((s.demoteAcct true a).pending a).items = (runFrom (s.cnonce a) (dG s a).2.2.items).1 := by
    rw [hf.items]; unfold dKeep; simp only [hp4, if_true]; exact take_runFrom _ _
  unfold RunPay
  rw [hf.touch.env.cnonce, hf.touch.env.balance, hf.touch.env.maxGas, hitems]
  refine ⟨runFrom_isRun _ _, fun t ht => hd.p2pay t ?_⟩
  have := runFrom_append (s.cnonce a) (dG s a).2.2.items
  rw [← this]; exact List.mem_append_left _ ht

theorem demoteAll_spec : ∀ (l : List Addr) (s : Pool), Phase s →
    Phase (l.foldl (fun s a => s.demoteAcct true a) s) ∧
    (∀ b, (b ∈ l ∨ RunPay s b) → RunPay (l.foldl (fun s a => s.demoteAcct true a) s) b) ∧
    (l.foldl (fun s a => s.demoteAcct true a) s).pnonce = s.pnonce ∧
    SameEnv s (l.foldl (fun s a => s.demoteAcct true a) s) ∧
    (∀ b, b ∉ l → (l.foldl (fun s a => s.demoteAcct true a) s).pending b = s.pending b) := by
  intro l
  induction l with
  | nil => intro s h; exact ⟨h, fun b hb => by rcases hb with hb | hb; cases hb; exact hb, rfl, SameEnv.refl s, fun _ _ => rfl⟩
  | cons a rest ih =>
    intro s h
    have hf := demoteAcct_facts true a h.1
    have h1 := demoteAcct_phase true a h
    obtain ⟨ih1, ih2, ih3, ih4, ih5⟩ := ih (s.demoteAcct true a) h1
    simp only [List.foldl_cons]
    refine ⟨ih1, ?_, ih3.trans hf.pnonce, hf.touch.env.trans ih4, ?_⟩
    · intro b hb
      apply ih2 b
      by_cases hba : b = a
      · subst hba; exact Or.inr (demoteAcct_runpay b h.1)
      · rcases hb with hb | hb
        · rcases List.mem_cons.mp hb with e | hb'
          · exact absurd e hba
          · exact Or.inl hb'
        · exact Or.inr (hb.touch hf.touch hba)
    · intro b hb
      have hba : b ≠ a := fun e => hb (by rw [e]; exact List.mem_cons_self)
      rw [ih5 b (fun hc => hb (List.mem_cons_of_mem _ hc)), hf.touch.pother b hba]

/-! ## syncNonces -/

def syncStep (s : Pool) (a : Addr) : Pool :=
  match (s.pending a).items.getLast? with
  | some t => s.setN a (t.nonce + 1)
  | none => s

theorem syncNonces_eq (s : Pool) : s.syncNonces = s.accts.foldl syncStep s := rfl

theorem syncNonces_spec : ∀ (l : List Addr) (s : Pool),
    let s' := l.foldl syncStep s
    s'.pending = s.pending ∧ s'.queue = s.queue ∧ s'.accts = s.accts ∧ SameEnv s s' ∧
    ∀ b, s'.pnonce b = if b ∈ l then (match (s.pending b).items.getLast? with
      | some t => t.nonce + 1
      | none => s.pnonce b) else s.pnonce b := by
  intro l
  induction l with
  | nil => intro s; exact ⟨rfl, rfl, rfl, SameEnv.refl s, fun b => by simp⟩
  | cons a rest ih =>
    intro s
    simp only [List.foldl_cons]
    cases hl : (s.pending a).items.getLast? with
    | none =>
      have hstep : syncStep s a = s := by unfold syncStep; rw [hl]
      rw [hstep]
      obtain ⟨i1, i2, i3, i4, i5⟩ := ih s
      refine ⟨i1, i2, i3, i4, fun b => ?_⟩
      rw [i5 b]
      by_cases hb : b = a
      · subst hb; simp [hl]
      · simp [hb]
    | some t =>
      have hstep : syncStep s a = s.setN a (t.nonce + 1) := by unfold syncStep; rw [hl]
      rw [hstep]
      obtain ⟨i1, i2, i3, i4, i5⟩ := ih (s.setN a (t.nonce + 1))
      refine ⟨i1, i2, i3, ⟨i4.cfg, i4.cnonce, i4.balance, i4.maxGas⟩, fun b => ?_⟩
      rw [i5 b]
      have hpend : (s.setN a (t.nonce + 1)).pending = s.pending := rfl
      rw [hpend]
      by_cases hb : b = a
      · subst hb
        have : (s.setN b (t.nonce + 1)).pnonce b = t.nonce + 1 := upd_same _ _ _
        simp [hl, this]
      · have : (s.setN a (t.nonce + 1)).pnonce b = s.pnonce b := upd_other _ _ hb
        simp [hb, this]

/-- from the state after demotion (Phase, every pending list a payable run) the synchronisation gives Good -/
theorem syncNonces_good {s : Pool} (h : Phase s) (hrp : ∀ b, RunPay s b) : Good s.syncNonces := by
  obtain ⟨h1, h2, h3, h4, h5⟩ := syncNonces_spec s.accts s
  rw [syncNonces_eq]
  constructor
  · intro b
    rw [h4.cnonce, h4.balance, h4.maxGas, h1, h2, h5 b]
    have hrb := hrp b
    exact { h.1.1 b with
      run := hrb.1
      afford := hrb.2
      pn_le := by
        by_cases hb : b ∈ s.accts
        · rw [if_pos hb]
          cases hl : (s.pending b).items.getLast? with
          | none =>
            simp only
            rcases h.2 b with hle | ⟨e, he, _⟩
            · omega
            · rw [List.getLast?_eq_none_iff.mp hl] at he; cases he
          | some t => simp only; have := hrb.1.length_le_of_getLast hl; omega
        · rw [if_neg hb]
          rcases h.2 b with hle | ⟨e, he, _⟩
          · omega
          · rw [(h.1.2 b hb).1] at he; cases he }
  · intro b hb
    rw [h1, h2]; rw [h3] at hb; exact h.1.2 b hb

/-! ## the demotion before c2af732 (front gap only) agrees with the one at HEAD on contiguous lists -/

theorem dKeep_agree {s : Pool} (a : Addr) (h : WeakAll s) {c : Nat} (hc : IsRun c (s.pending a).items) :
    dKeep false s a = dKeep true s a := by
  obtain ⟨_, _, hp4, _⟩ := dS4_facts a h
  have hwa := h.1 a
  have hfs := TxL.filter_spec (dP1 s a) (s.balance a) s.maxGas
  have hrun : IsRun (max c (s.cnonce a)) (dG s a).2.2.items := by
    apply hfs.run (by show (s.pending a).strict = true; exact hwa.pstrict)
    exact hc.filter_ge (s.cnonce a)
  unfold dKeep
  simp only [hp4, Bool.false_eq_true, if_false, if_true]
  cases hl : (dG s a).2.2.items with
  | nil => simp [runFrom]
  | cons x xs =>
    rw [hl] at hrun
    have hx := hrun.1
    by_cases hm : x.nonce = s.cnonce a
    · have hr : IsRun (s.cnonce a) (x :: xs) := by rw [← hm, hx]; exact hrun
      rw [runFrom_of_isRun hr]
      simp [getN, hm]
    · have hnone : getN (x :: xs) (s.cnonce a) = none := by
        apply getN_none.mpr
        intro t ht
        have := (hrun.sorted.2 t ht).1
        omega
      simp [hnone, runFrom, hm]

theorem demoteAcct_agree {s : Pool} (a : Addr) (h : WeakAll s) {c : Nat} (hc : IsRun c (s.pending a).items) :
    s.demoteAcct false a = s.demoteAcct true a := by
  rw [demoteAcct_eq, demoteAcct_eq]
  unfold dS6 dS5
  rw [dKeep_agree a h hc]

/-- no pending list has a hole -/
def NoHole (s : Pool) : Prop := ∀ a, ∃ c, IsRun c (s.pending a).items

theorem demoteAll_agree : ∀ (l : List Addr) (s : Pool), Phase s → NoHole s →
    l.foldl (fun s a => s.demoteAcct false a) s = l.foldl (fun s a => s.demoteAcct true a) s := by
  intro l
  induction l with
  | nil => intro s _ _; rfl
  | cons a rest ih =>
    intro s h hn
    simp only [List.foldl_cons]
    obtain ⟨c, hc⟩ := hn a
    rw [demoteAcct_agree a h.1 hc]
    apply ih _ (demoteAcct_phase true a h)
    intro b
    by_cases hb : b = a
    · subst hb; exact ⟨_, (demoteAcct_runpay b h.1).1⟩
    · obtain ⟨cb, hcb⟩ := hn b
      have := (demoteAcct_facts true a h.1).touch.pother b hb
      exact ⟨cb, by rw [this]; exact hcb⟩

/-! ## reset -/

/-- the state after the view switch and the re-injection of `discarded \ included` -/
def Pool.resetMid (s : Pool) (v : View) (oldNum newNum : Nat) (reorg : Bool) (disc inc : List Tx) (o : ResetOracle) : Pool :=
  let depth := if oldNum ≤ newNum then newNum - oldNum else oldNum - newNum
  let reinject := if reorg && decide (depth ≤ 64) then txDifference disc inc else []
  let s := { s with cnonce := v.nonce, balance := v.balance, maxGas := v.maxGas, pnonce := v.nonce }
  if reinject.isEmpty then s else (s.addTxs reinject false o.victims o.slots1 o.qorder1).2

theorem reset_eq (g : Bool) (s : Pool) (v : View) (oldNum newNum : Nat) (reorg : Bool) (disc inc : List Tx) (o : ResetOracle) :
    s.reset g v oldNum newNum reorg disc inc o =
      (((s.resetMid v oldNum newNum reorg disc inc o).demoteUnexecutables g).syncNonces).promoteExecutables none o.slots2 o.qorder2 := rfl

theorem resetMid_phase (s : Pool) (v : View) (oldNum newNum : Nat) (reorg : Bool) (disc inc : List Tx) (o : ResetOracle)
    (h : Good s) : Phase (s.resetMid v oldNum newNum reorg disc inc o) := by
  unfold Pool.resetMid
  simp only
  have h0 : Phase ({ s with cnonce := v.nonce, balance := v.balance, maxGas := v.maxGas, pnonce := v.nonce } : Pool) :=
    ⟨h.weakAll, fun a => Or.inl (Nat.le_refl _)⟩
  generalize ({ s with cnonce := v.nonce, balance := v.balance, maxGas := v.maxGas, pnonce := v.nonce } : Pool) = s0 at h0 ⊢
  generalize (if (reorg && decide ((if oldNum ≤ newNum then newNum - oldNum else oldNum - newNum) ≤ 64)) = true
      then txDifference disc inc else []) = reinject
  split
  · exact h0
  · exact addTxs_pres addClosed_phase _ _ _ _ _ _ h0

/-- the pre-c2af732 reset is the reset at HEAD whenever the re-injection leaves no hole -/
theorem reset_agree (s : Pool) (v : View) (oldNum newNum : Nat) (reorg : Bool) (disc inc : List Tx) (o : ResetOracle)
    (h : Good s) (hn : NoHole (s.resetMid v oldNum newNum reorg disc inc o)) :
    s.reset false v oldNum newNum reorg disc inc o = s.reset true v oldNum newNum reorg disc inc o := by
  rw [reset_eq, reset_eq]
  unfold Pool.demoteUnexecutables
  rw [demoteAll_agree _ _ (resetMid_phase s v oldNum newNum reorg disc inc o h) hn]


theorem reset_good (s : Pool) (v : View) (oldNum newNum : Nat) (reorg : Bool) (disc inc : List Tx) (o : ResetOracle)
    (h : Good s) : Good (s.reset true v oldNum newNum reorg disc inc o) := by
  unfold Pool.reset
  simp only
  -- the view switch
  have h0 : Phase ({ s with cnonce := v.nonce, balance := v.balance, maxGas := v.maxGas, pnonce := v.nonce } : Pool) :=
    ⟨h.weakAll, fun a => Or.inl (Nat.le_refl _)⟩
  generalize ({ s with cnonce := v.nonce, balance := v.balance, maxGas := v.maxGas, pnonce := v.nonce } : Pool) = s0 at h0 ⊢
  generalize (if (reorg && decide ((if oldNum ≤ newNum then newNum - oldNum else oldNum - newNum) ≤ 64)) = true
      then txDifference disc inc else []) = reinject
  have h1 : Phase (if reinject.isEmpty = true then s0 else (s0.addTxs reinject false o.victims o.slots1 o.qorder1).2) := by
    split
    · exact h0
    · exact addTxs_pres addClosed_phase _ _ _ _ _ _ h0
  generalize (if reinject.isEmpty = true then s0 else (s0.addTxs reinject false o.victims o.slots1 o.qorder1).2) = s1 at h1 ⊢
  obtain ⟨d1, d2, _, _, d5⟩ := demoteAll_spec s1.accts s1 h1
  have hrp : ∀ b, RunPay (s1.demoteUnexecutables true) b := by
    intro b
    by_cases hb : b ∈ s1.accts
    · exact d2 b (Or.inl hb)
    · apply d2 b (Or.inr ?_)
      unfold RunPay
      rw [(h1.1.2 b hb).1]
      exact ⟨trivial, fun t ht => by cases ht⟩
  have h3 := syncNonces_good (s := s1.demoteUnexecutables true) d1 hrp
  exact promoteExecutables_pres closed_good _ none o.slots2 o.qorder2 h3

end Aqv.TxPool

/-
  Lemmas tying Layer A′ (Finalise on real Merkle-Patricia tries, Aqv.Model.BlockImportTrie) to Layer A (Finalise on trie
  CONTENTS) through property C10: a history of trie operations is determined, as far as its root is concerned, by the content
  it produces (`Aqv.Props.C10.root_content_only`).  Hence "equal content" (Layer A, all permutations) becomes "equal root".
-/
import Aqv.Lemmas.BlockImport
import Aqv.Model.BlockImportTrie
import Aqv.Props.C10
namespace Aqv.BlockImport
open Aqv.Trie (Op absOf absStep)

/-- what the byte-level encodings have to satisfy: keys are injective (the secure trie hashes keys: collision-freedom of that
    hash on the keys involved), encoded non-zero words and encoded accounts are non-empty byte strings (they are RLP). -/
structure Codec.Ok (cd : Codec) : Prop where
  slot_inv : ∀ k, cd.slotInv (cd.slotKey k) = some k
  slot_key : ∀ b k, cd.slotInv b = some k → cd.slotKey k = b
  word_ne : ∀ v, v ≠ 0 → (cd.wordVal v).length ≠ 0
  addr_inv : ∀ a, cd.addrInv (cd.addrKey a) = some a
  addr_key : ∀ b a, cd.addrInv b = some a → cd.addrKey a = b
  leaf_ne : ∀ l, (cd.leafVal l).length ≠ 0

/-- the key→value map a storage content denotes. -/
def imgS (cd : Codec) (c : Slot → Word) : Bytes → Option Bytes := fun kb =>
  match cd.slotInv kb with
  | some k => if c k = 0 then none else some (cd.wordVal (c k))
  | none => none

/-- the key→value map an account-trie content denotes. -/
def imgA (cd : Codec) (tr : Addr → Option Leaf) : Bytes → Option Bytes := fun kb =>
  match cd.addrInv kb with
  | some a => (tr a).map cd.leafVal
  | none => none

/-- THE root of a key→value map: the root of (any) history producing it.  Well defined by C10 `root_content_only`. -/
noncomputable def contentRoot (H : Bytes → Bytes) (m : Bytes → Option Bytes) : Bytes :=
  open Classical in if h : ∃ ops, absOf ops = m then trieRoot H (Classical.choose h) else []

theorem trieRoot_eq_of_content (H : Bytes → Bytes) (ops₁ ops₂ : List Op) (h : absOf ops₁ = absOf ops₂) :
    trieRoot H ops₁ = trieRoot H ops₂ := by
  obtain ⟨t₁, r₁, _, _⟩ := Aqv.Props.C10.run_refines ops₁
  obtain ⟨t₂, r₂, _, _⟩ := Aqv.Props.C10.run_refines ops₂
  unfold trieRoot
  rw [r₁, r₂]
  exact (Aqv.Props.C10.root_content_only H ops₁ ops₂ t₁ t₂ r₁ r₂ (fun kb => congrFun h kb)).2

theorem trieRoot_content (H : Bytes → Bytes) (ops : List Op) : trieRoot H ops = contentRoot H (absOf ops) := by
  unfold contentRoot
  have h : ∃ ops', absOf ops' = absOf ops := ⟨ops, rfl⟩
  rw [dif_pos h]
  exact trieRoot_eq_of_content H _ _ (Classical.choose_spec h).symm

/-- the storage-root function of Layer A instantiated with the real trie: a function of the CONTENT by construction. -/
noncomputable def storageRootOf (H : Bytes → Bytes) (cd : Codec) : (Slot → Word) → Hash :=
  fun c => natOfRoot (contentRoot H (imgS cd c))

/-- the account-trie root function of Layer A instantiated with the real trie. -/
noncomputable def accountRootOf (H : Bytes → Bytes) (cd : Codec) : (Addr → Option Leaf) → Hash :=
  fun tr => natOfRoot (contentRoot H (imgA cd tr))

theorem imgS_step (cd : Codec) (ok : cd.Ok) (c : Slot → Word) (k : Slot) (v : Word) :
    absStep (imgS cd c) (slotOp cd k v) = imgS cd (upd c k v) := by
  funext kb
  unfold slotOp
  by_cases hv : v = 0
  · simp only [hv, if_true, absStep, imgS]
    by_cases hk : kb = cd.slotKey k
    · subst hk; simp [ok.slot_inv, upd]
    · simp only [hk, if_false]
      cases hi : cd.slotInv kb with
      | none => rfl
      | some k' =>
        have : k' ≠ k := fun e => hk (by rw [← ok.slot_key kb k' hi, e])
        simp [upd, this]
  · simp only [hv, if_false, absStep, imgS]
    by_cases hk : kb = cd.slotKey k
    · subst hk; simp [ok.slot_inv, upd, hv, ok.word_ne v hv]
    · simp only [hk, if_false]
      cases hi : cd.slotInv kb with
      | none => rfl
      | some k' =>
        have : k' ≠ k := fun e => hk (by rw [← ok.slot_key kb k' hi, e])
        simp [upd, this]

theorem imgA_delete (cd : Codec) (ok : cd.Ok) (tr : Addr → Option Leaf) (a : Addr) :
    absStep (imgA cd tr) (.delete (cd.addrKey a)) = imgA cd (upd tr a none) := by
  funext kb
  simp only [absStep, imgA]
  by_cases hk : kb = cd.addrKey a
  · subst hk; simp [ok.addr_inv, upd]
  · simp only [hk, if_false]
    cases hi : cd.addrInv kb with
    | none => rfl
    | some a' =>
      have : a' ≠ a := fun e => hk (by rw [← ok.addr_key kb a' hi, e])
      simp [upd, this]

theorem imgA_update (cd : Codec) (ok : cd.Ok) (tr : Addr → Option Leaf) (a : Addr) (l : Leaf) :
    absStep (imgA cd tr) (.update (cd.addrKey a) (cd.leafVal l)) = imgA cd (upd tr a (some l)) := by
  funext kb
  simp only [absStep, imgA]
  by_cases hk : kb = cd.addrKey a
  · subst hk; simp [ok.addr_inv, upd, ok.leaf_ne l]
  · simp only [hk, if_false]
    cases hi : cd.addrInv kb with
    | none => rfl
    | some a' =>
      have : a' ≠ a := fun e => hk (by rw [← ok.addr_key kb a' hi, e])
      simp [upd, this]

/-- the flush on the real trie is the flush on the content: same object, and the history denotes the new content. -/
theorem cUpdateTrie_refines (cd : Codec) (ok : cd.Ok) (ks : List Slot) (p : Obj × List Op)
    (h : absOf p.2 = imgS cd p.1.storage) :
    (cUpdateTrie cd ks p).1 = updateTrie ks p.1 ∧ absOf (cUpdateTrie cd ks p).2 = imgS cd (cUpdateTrie cd ks p).1.storage := by
  induction ks generalizing p with
  | nil => exact ⟨rfl, h⟩
  | cons k rest ih =>
    have e : cUpdateTrie cd (k :: rest) p = cUpdateTrie cd rest (cStoreStep cd p k) := rfl
    have e' : updateTrie (k :: rest) p.1 = updateTrie rest (storeStep p.1 k) := rfl
    rw [e, e']
    have hs : (cStoreStep cd p k).1 = storeStep p.1 k ∧ absOf (cStoreStep cd p k).2 = imgS cd (cStoreStep cd p k).1.storage := by
      unfold cStoreStep storeStep
      cases hd : p.1.dirty k with
      | none => exact ⟨rfl, h⟩
      | some v =>
        refine ⟨rfl, ?_⟩
        simp only []
        rw [Aqv.Trie.absOf_snoc, h, imgS_step cd ok]
    obtain ⟨h1, h2⟩ := ih (cStoreStep cd p k) hs.2
    exact ⟨by rw [h1, hs.1], h2⟩

theorem cUpdateRoot_refines (H : Bytes → Bytes) (cd : Codec) (ok : cd.Ok) (ks : List Slot) (p : Obj × List Op)
    (h : absOf p.2 = imgS cd p.1.storage) :
    (cUpdateRoot H cd ks p).1 = updateRoot (storageRootOf H cd) ks p.1 ∧
    absOf (cUpdateRoot H cd ks p).2 = imgS cd (cUpdateRoot H cd ks p).1.storage := by
  obtain ⟨h1, h2⟩ := cUpdateTrie_refines cd ok ks p h
  refine ⟨?_, ?_⟩
  · unfold cUpdateRoot updateRoot storageRootOf
    simp only []
    rw [trieRoot_content, h2, h1]
  · exact h2

/-- coherence of a real-trie StateDB with its content view: every history denotes the content Layer A tracks. -/
structure CCoh (cd : Codec) (s : CSDB) : Prop where
  st : ∀ a o, s.base.objs a = some o → absOf (s.hists a) = imgS cd o.storage
  ac : absOf s.acct = imgA cd s.base.trie

theorem cFinalStep_refines (H : Bytes → Bytes) (cd : Codec) (ok : cd.Ok) (del : Bool) (σ : Addr → List Slot) (s : CSDB)
    (hc : CCoh cd s) (a : Addr) :
    (cFinalStep H cd del σ s a).base = finalStep (storageRootOf H cd) del σ s.base a ∧ CCoh cd (cFinalStep H cd del σ s a) := by
  unfold cFinalStep finalStep
  cases ho : s.base.objs a with
  | none => exact ⟨rfl, ⟨fun a' o h => hc.st a' o h, hc.ac⟩⟩
  | some o =>
    simp only [settle]
    by_cases c : (o.suicided || (del && o.empty)) = true
    · rw [if_pos c, if_pos c]
      refine ⟨rfl, ⟨?_, ?_⟩⟩
      · intro a' o' h'
        simp only [upd] at h'
        split at h'
        · rename_i e; cases h'; subst e; exact hc.st _ o ho
        · exact hc.st a' o' h'
      · simp only []
        rw [Aqv.Trie.absOf_snoc, hc.ac, imgA_delete cd ok]
    · rw [if_neg c, if_neg c]
      obtain ⟨h1, h2⟩ := cUpdateRoot_refines H cd ok (σ a) (o, s.hists a) (hc.st a o ho)
      refine ⟨?_, ⟨?_, ?_⟩⟩
      · simp only [h1]
      · intro a' o' h'
        simp only [upd] at h' ⊢
        split at h'
        · rename_i e; cases h'; simp only [e, if_true]; exact h2
        · rename_i e; simp only [e, if_false]; exact hc.st a' o' h'
      · simp only []
        rw [Aqv.Trie.absOf_snoc, hc.ac, imgA_update cd ok]

theorem cFinalise_refines (H : Bytes → Bytes) (cd : Codec) (ok : cd.Ok) (del : Bool) (π : List Addr) (σ : Addr → List Slot)
    (s : CSDB) (hc : CCoh cd s) :
    (cFinalise H cd del π σ s).base = finalise (storageRootOf H cd) del π σ s.base ∧ CCoh cd (cFinalise H cd del π σ s) := by
  unfold cFinalise finalise
  induction π generalizing s with
  | nil => exact ⟨rfl, hc⟩
  | cons a rest ih =>
    simp only [List.foldl_cons]
    obtain ⟨h1, h2⟩ := cFinalStep_refines H cd ok del σ s hc a
    obtain ⟨h3, h4⟩ := ih (cFinalStep H cd del σ s a) h2
    exact ⟨by rw [h3, h1], h4⟩

end Aqv.BlockImport

/-
  Aqv.Lemmas.EvmExec — helper lemmas for property C08: one executed instruction. The Go data movement (`implExec`: makePush,
  Stack.dup/swap, Memory.Get/GetPtr/Set with Uint64() truncation, getDataBig, PaddedBigBytes, opReturnDataCopy's bounds check,
  destinations.has) equals the Yellow-Paper definitions (`specExec`) on every machine whose memory already spans the touched
  range — which the prologue guarantees; in particular none of the Go slice operations can panic.
-/
import Aqv.Lemmas.EvmAlu
namespace Aqv.Evm
open Aqv Aqv.Big Aqv.Gen.VmTable

theorem uint64_of_nat (v : Int) (n : Nat) (hv : v = (n : Int)) (h : n < 2 ^ 64) : uint64 v = n := by
  subst hv; unfold uint64; simp only [Int.natAbs_natCast]; omega

theorem uint64_zero : uint64 0 = 0 := by decide

theorem specRead_zero (data : Bytes) (off : Nat) : specRead data off 0 = [] :=
  List.eq_nil_of_length_eq_zero (specRead_length _ _ _)

theorem specWrite_nil (mem : Bytes) (off : Nat) : specWrite mem off [] = mem := by
  apply List.ext_getElem?
  intro i
  rw [specWrite_getElem?]
  by_cases hi : i < mem.length
  · rw [if_pos hi, if_neg (by simp)]
  · rw [if_neg hi, List.getElem?_eq_none (by omega)]

theorem memGet_u64 (mem : Bytes) (b0 b1 : Int) (n0 n1 : Nat) (h0 : b0 = (n0 : Int)) (h1 : b1 = (n1 : Int))
    (hcov : n1 ≠ 0 → n0 + n1 ≤ mem.length) (hmem : mem.length < 2 ^ 64) :
    memGet mem (uint64 b0) (uint64 b1) = some (specRead mem n0 n1) := by
  by_cases hz : n1 = 0
  · subst hz
    rw [h1]
    show memGet mem (uint64 b0) (uint64 ((0 : Nat) : Int)) = _
    rw [show uint64 ((0 : Nat) : Int) = 0 from by decide, specRead_zero]
    unfold memGet; simp
  · have hc := hcov hz
    rw [uint64_of_nat b0 n0 h0 (by omega), uint64_of_nat b1 n1 h1 (by omega)]
    exact memGet_spec mem n0 n1 (fun _ => hc)

theorem memSet_u64 (mem : Bytes) (b0 bl : Int) (n0 nl : Nat) (value : Bytes) (h0 : b0 = (n0 : Int)) (hl : bl = (nl : Int))
    (hv : value.length = nl) (hcov : nl ≠ 0 → n0 + nl ≤ mem.length) (hmem : mem.length < 2 ^ 64) :
    memSet mem (uint64 b0) (uint64 bl) value = some (specWrite mem n0 value) := by
  by_cases hz : nl = 0
  · subst hz
    have : value = [] := List.eq_nil_of_length_eq_zero hv
    subst this
    rw [hl, show uint64 ((0 : Nat) : Int) = 0 from by decide, specWrite_nil]
    unfold memSet; simp
  · have hc := hcov hz
    rw [uint64_of_nat b0 n0 h0 (by omega), uint64_of_nat bl nl hl (by omega)]
    exact memSet_spec mem n0 nl value hv (fun _ => hc)

theorem dropTake_eq_specRead (data : Bytes) (off n : Nat) (h : off + n ≤ data.length) :
    (data.drop off).take n = specRead data off n := by
  apply List.ext_getElem?
  intro i
  rw [specRead_getElem?, List.getElem?_take, List.getElem?_drop]
  by_cases hi : i < n
  · rw [if_pos hi, if_pos hi, List.getD_eq_getElem?_getD, List.getElem?_eq_getElem (by omega)]; rfl
  · rw [if_neg hi, if_neg hi]

structure ExecHyp (env : Env) (H : Bytes → Bytes) (en : Entry) (opc : Nat) (m : Machine) : Prop where
  hcode : env.code.size < 2 ^ 62
  hrd : env.returndata.length < 2 ^ 64
  hst : ∀ v ∈ m.stack, InRange v
  hpops : en.pops ≤ m.stack.length
  hk : en.memK = specMemKind opc
  hcov : (touchOf en.memK m.stack).2 ≠ 0 → (touchOf en.memK m.stack).1.toNat + (touchOf en.memK m.stack).2.toNat ≤ m.mem.length
  hmem : m.mem.length < 2 ^ 64
  hsar : ¬ (opc = 0x1d ∧ back m.stack 0 ≥ 256 ∧ back m.stack 1 = 0)
  hdup : ∀ n, decode opc = .dup n → n ≤ en.pops
  hswap : ∀ k, decode opc = .swap k → k + 1 ≤ en.pops

theorem take_two {st : List Int} {p : Nat} {x y : Int} (h : st.take p = [x, y]) : back st 0 = x ∧ back st 1 = y := by
  cases st with
  | nil => simp at h
  | cons a t =>
    cases t with
    | nil => cases p <;> simp at h
    | cons b t =>
      cases p with
      | zero => simp at h
      | succ p =>
        cases p with
        | zero => simp at h
        | succ p =>
          simp only [List.take_succ_cons, List.cons.injEq] at h
          exact ⟨h.1, h.2.1⟩

theorem pushSlice_eq (code : Bytes) (pc n : Nat) :
    rightPad ((code.drop (min code.length (pc + 1))).take (min code.length (min code.length (pc + 1) + n) - min code.length (pc + 1))) n
      = specRead code (pc + 1) n := by
  have := slicePad_eq code (pc + 1) n
  rw [Nat.min_comm (pc + 1) code.length, Nat.min_comm (min code.length (pc + 1) + n) code.length] at this
  exact this

theorem exec_agree (env : Env) (H : Bytes → Bytes) (en : Entry) (opc : Nat) (m : Machine) (h : ExecHyp env H en opc m) :
    implExec env H en opc m = specExec env H en opc m := by
  have hd := decode_sound opc
  have hb := back_inRange m.stack h.hst
  obtain ⟨n0, hn0, hn0lt, hn0t⟩ := nat_of_inRange (hb 0)
  obtain ⟨n1, hn1, hn1lt, hn1t⟩ := nat_of_inRange (hb 1)
  obtain ⟨n2, hn2, hn2lt, hn2t⟩ := nat_of_inRange (hb 2)
  have hcov := h.hcov
  rw [h.hk] at hcov
  unfold implExec specExec
  cases hdec : decode opc with
  | push n => simp only []; rw [pushSlice_eq]
  | dup n =>
    rw [hdec] at hd
    simp only [instrOk] at hd
    simp only []
    have := h.hdup n hdec
    rw [dup_spec m.stack n (by omega) (by have := h.hpops; omega)]
  | swap k =>
    rw [hdec] at hd
    simp only [instrOk] at hd
    simp only []
    have := h.hswap k hdec
    rw [swap_spec m.stack k (by omega) (by have := h.hpops; omega)]
  | alu =>
    simp only []
    rw [alu_agree opc (m.stack.take en.pops) (fun v hv => h.hst v (List.mem_of_mem_take hv))]
    intro ⟨ho, x, y, hxy, hx, hy⟩
    obtain ⟨e0, e1⟩ := take_two hxy
    exact h.hsar ⟨ho, by rw [e0]; exact hx, by rw [e1]; exact hy⟩
  | sha3 =>
    rw [hdec] at hd; simp only [instrOk] at hd; subst hd
    simp only []
    have hc : n1 ≠ 0 → n0 + n1 ≤ m.mem.length := by
      intro hz
      have := hcov (by show back m.stack 1 ≠ 0; rw [hn1]; omega)
      show n0 + n1 ≤ _
      rw [← hn0t, ← hn1t]; exact this
    rw [memGet_u64 m.mem _ _ n0 n1 hn0 hn1 hc h.hmem, hn0t, hn1t]
  | stop => rfl
  | address => rfl
  | origin => rfl
  | caller => rfl
  | callvalue => rfl
  | calldataload =>
    simp only []
    rw [getDataBig_spec _ _ 32 (by decide)]
  | calldatasize => rfl
  | calldatacopy =>
    rw [hdec] at hd; simp only [instrOk] at hd; subst hd
    simp only []
    have hc : n2 ≠ 0 → n0 + n2 ≤ m.mem.length := by
      intro hz
      have := hcov (by show back m.stack 2 ≠ 0; rw [hn2]; omega)
      show n0 + n2 ≤ _
      rw [← hn0t, ← hn2t]; exact this
    have hn2' : n2 < 2 ^ 64 := by
      by_cases hz : n2 = 0
      · omega
      · have := hc hz; have := h.hmem; omega
    rw [hn1t, hn2t, getDataBig_spec _ _ n2 hn2',
      memSet_u64 m.mem _ _ n0 n2 _ hn0 hn2 (specRead_length _ _ _) hc h.hmem, hn0t]
  | codesize => rfl
  | codecopy =>
    rw [hdec] at hd; simp only [instrOk] at hd; subst hd
    simp only []
    have hc : n2 ≠ 0 → n0 + n2 ≤ m.mem.length := by
      intro hz
      have := hcov (by show back m.stack 2 ≠ 0; rw [hn2]; omega)
      show n0 + n2 ≤ _
      rw [← hn0t, ← hn2t]; exact this
    have hn2' : n2 < 2 ^ 64 := by
      by_cases hz : n2 = 0
      · omega
      · have := hc hz; have := h.hmem; omega
    rw [hn1t, hn2t, getDataBig_spec _ _ n2 hn2',
      memSet_u64 m.mem _ _ n0 n2 _ hn0 hn2 (specRead_length _ _ _) hc h.hmem, hn0t]
  | gasprice => rfl
  | returndatasize => rfl
  | returndatacopy =>
    rw [hdec] at hd; simp only [instrOk] at hd; subst hd
    simp only []
    have hc : n2 ≠ 0 → n0 + n2 ≤ m.mem.length := by
      intro hz
      have := hcov (by show back m.stack 2 ≠ 0; rw [hn2]; omega)
      show n0 + n2 ≤ _
      rw [← hn0t, ← hn2t]; exact this
    have hsum : back m.stack 1 + back m.stack 2 = ((n1 + n2 : Nat) : Int) := by rw [hn1, hn2]; simp
    rw [hsum, hn1t, hn2t]
    have hrd := h.hrd
    by_cases hoob : n1 + n2 > env.returndata.length
    · rw [if_pos hoob]
      have : bitLen ((n1 + n2 : Nat) : Int) > 64 ∨ env.returndata.length < uint64 ((n1 + n2 : Nat) : Int) := by
        by_cases hbig : n1 + n2 ≥ 2 ^ 64
        · left; exact (bitLen_natCast_gt (n1 + n2) 64).2 hbig
        · right; rw [uint64_of_nat _ (n1 + n2) rfl (by omega)]; exact hoob
      rw [if_pos this]
    · rw [if_neg hoob]
      have hle : n1 + n2 ≤ env.returndata.length := by omega
      have hnb : ¬ bitLen ((n1 + n2 : Nat) : Int) > 64 := by
        intro hb; have := (bitLen_natCast_gt (n1 + n2) 64).1 hb; omega
      have hu : uint64 ((n1 + n2 : Nat) : Int) = n1 + n2 := uint64_of_nat _ _ rfl (by omega)
      rw [if_neg (by rw [hu]; intro hh; rcases hh with hh | hh; exact hnb hh; omega)]
      rw [hu, uint64_of_nat _ n1 hn1 (by omega)]
      have e : n1 + n2 - n1 = n2 := by omega
      rw [e, dropTake_eq_specRead _ _ _ hle,
        memSet_u64 m.mem _ _ n0 n2 _ hn0 hn2 (specRead_length _ _ _) hc h.hmem, hn0t]
  | coinbase => rfl
  | timestamp => rfl
  | number => rfl
  | difficulty => rfl
  | gaslimit => rfl
  | pop => rfl
  | mload =>
    rw [hdec] at hd; simp only [instrOk] at hd; subst hd
    simp only []
    have hc : (32 : Nat) ≠ 0 → n0 + 32 ≤ m.mem.length := by
      intro _
      have := hcov (by show (32 : Int) ≠ 0; decide)
      show n0 + 32 ≤ _
      rw [← hn0t]; exact this
    have := memGet_u64 m.mem (back m.stack 0) 32 n0 32 hn0 rfl hc h.hmem
    rw [show uint64 (32 : Int) = 32 from by decide] at this
    rw [this, hn0t]
  | mstore =>
    rw [hdec] at hd; simp only [instrOk] at hd; subst hd
    simp only []
    have hc : (32 : Nat) ≠ 0 → n0 + 32 ≤ m.mem.length := by
      intro _
      have := hcov (by show (32 : Int) ≠ 0; decide)
      show n0 + 32 ≤ _
      rw [← hn0t]; exact this
    rw [hn1t, paddedBigBytes_spec n1 hn1lt]
    have hl : (specWord n1).length = 32 := by rw [specWord_eq_digits, digits_length]
    have := memSet_u64 m.mem (back m.stack 0) 32 n0 32 (specWord n1) hn0 rfl hl hc h.hmem
    rw [show uint64 (32 : Int) = 32 from by decide] at this
    rw [this, hn0t]
  | mstore8 =>
    rw [hdec] at hd; simp only [instrOk] at hd; subst hd
    simp only []
    have hlt : n0 + 1 ≤ m.mem.length := by
      have := hcov (by show (1 : Int) ≠ 0; decide)
      show n0 + 1 ≤ _
      rw [← hn0t]; exact this
    rw [uint64_of_nat _ n0 hn0 (by have := h.hmem; omega), if_pos (by omega), set_eq_specWrite _ _ _ (by omega), hn0t, hn1t]
    have : uint64 (back m.stack 1) % 256 = n1 % 256 := by
      rw [hn1]; unfold uint64; simp only [Int.natAbs_natCast]; omega
    rw [this]
  | jump =>
    simp only []
    rw [hn0, hasJumpdest_eq env.code n0 h.hcode, ← hn0, hn0t]
    by_cases hv : EvmSpec.validJumpdest env.code.toList n0 = true
    · rw [if_pos hv, if_pos hv]
      have : n0 < 2 ^ 64 := by
        unfold EvmSpec.validJumpdest at hv
        simp only [Bool.and_eq_true, decide_eq_true_eq, Array.length_toList] at hv
        have := h.hcode; omega
      rw [uint64_of_nat _ n0 hn0 this]
    · rw [if_neg hv, if_neg hv]
  | jumpi =>
    simp only []
    rw [hn0, hasJumpdest_eq env.code n0 h.hcode, ← hn0, hn0t]
    by_cases hc : back m.stack 1 ≠ 0
    · rw [if_pos hc, if_pos hc]
      by_cases hv : EvmSpec.validJumpdest env.code.toList n0 = true
      · rw [if_pos hv, if_pos hv]
        have : n0 < 2 ^ 64 := by
          unfold EvmSpec.validJumpdest at hv
          simp only [Bool.and_eq_true, decide_eq_true_eq, Array.length_toList] at hv
          have := h.hcode; omega
        rw [uint64_of_nat _ n0 hn0 this]
      · rw [if_neg hv, if_neg hv]
    · rw [if_neg hc, if_neg hc]
  | pc => rfl
  | msize => rfl
  | gas => rfl
  | jumpdest => rfl
  | ret =>
    rw [hdec] at hd; simp only [instrOk] at hd
    simp only []
    have hmk : specMemKind opc = .b0b1 := by rcases hd with rfl | rfl <;> rfl
    rw [hmk] at hcov
    have hc : n1 ≠ 0 → n0 + n1 ≤ m.mem.length := by
      intro hz
      have := hcov (by show back m.stack 1 ≠ 0; rw [hn1]; omega)
      show n0 + n1 ≤ _
      rw [← hn0t, ← hn1t]; exact this
    rw [memGet_u64 m.mem _ _ n0 n1 hn0 hn1 hc h.hmem, hn0t, hn1t]
  | other => rfl
end Aqv.Evm

/-
  Aqv.Lemmas.TxPricedLedger — the bookkeeping events of every pool function reproduce its `all`, and the heap keeps
  covering `all` (`priced_consistent`); the concrete machine refines the oracle machine.
-/
import Aqv.Lemmas.TxPriced
namespace Aqv.TxPool

/-! ### the `all` component of a ledger run -/

def allStep (all : List Tx) : LEv → List Tx
  | .insPut t => insertAll t all
  | .insIfNew t => insertAll t all
  | .del t => delAll t all

def allRun (all : List Tx) (evs : List LEv) : List Tx := evs.foldl allStep all

theorem ledger_step_all (L : Ledger) (e : LEv) : (L.step e).all = allStep L.all e := by
  cases e with
  | insPut t => rfl
  | insIfNew t =>
    unfold Ledger.step allStep
    simp only
    split
    · rename_i h; unfold insertAll; rw [if_pos h]
    · rfl
  | del t => rfl

theorem ledger_run_all (L : Ledger) (evs : List LEv) : (L.run evs).all = allRun L.all evs := by
  induction evs generalizing L with
  | nil => rfl
  | cons e rest ih =>
    show ((L.step e).run rest).all = allRun (allStep L.all e) rest
    rw [ih, ledger_step_all]

theorem allRun_append (all : List Tx) (e1 e2 : List LEv) : allRun all (e1 ++ e2) = allRun (allRun all e1) e2 := by
  unfold allRun; rw [List.foldl_append]

theorem ledger_run_append (L : Ledger) (e1 e2 : List LEv) : L.run (e1 ++ e2) = (L.run e1).run e2 := by
  unfold Ledger.run; rw [List.foldl_append]

theorem allRun_dels (all : List Tx) (ts : List Tx) : allRun all (evDels ts) = all.filter (fun t => !decide (t ∈ ts)) := by
  induction ts generalizing all with
  | nil => exact (List.filter_eq_self.mpr (by simp)).symm
  | cons x xs ih =>
    show allRun (delAll x all) (evDels xs) = _
    rw [ih]
    unfold delAll
    rw [List.filter_filter]
    apply List.filter_congr
    intro t _
    by_cases h1 : t = x <;> by_cases h2 : t ∈ xs <;> simp [h1, h2]

/-- events of a fold reproduce `all` when the events of each step do -/
theorem allRun_fold {α : Type} (ev : Pool → α → List LEv) (f : Pool → α → Pool)
    (h : ∀ s x, allRun s.all (ev s x) = (f s x).all) :
    ∀ (xs : List α) (s : Pool), allRun s.all (evFold ev f s xs) = (xs.foldl f s).all := by
  intro xs
  induction xs with
  | nil => intro s; rfl
  | cons x rest ih =>
    intro s
    show allRun s.all (ev s x ++ evFold ev f (f s x) rest) = _
    rw [allRun_append, h s x, ih]; rfl

theorem all_enqueueTx (s : Pool) (t : Tx) : allRun s.all (evEnqueueTx s t) = (s.enqueueTx t).2.2.all := by
  unfold evEnqueueTx Pool.enqueueTx
  simp only
  split
  · rfl
  · cases ((s.queue t.sender).add t s.cfg.priceBump).2.1 <;> rfl

theorem all_promoteTx (a : Addr) (s : Pool) (t : Tx) : allRun s.all (evPromoteTx a s t) = (s.promoteTx a t).all := by
  unfold evPromoteTx Pool.promoteTx
  simp only
  split
  · rfl
  · cases ((s.pending a).add t s.cfg.priceBump).2.1 <;> rfl

theorem all_enqueueAll (s : Pool) (us : List Tx) :
    allRun s.all (evFold evEnqueueTx (fun s u => (s.enqueueTx u).2.2) s us) = (enqueueAll s us).all :=
  allRun_fold _ _ all_enqueueTx us s

theorem lowerN_all (s : Pool) (a : Addr) (n : Nat) : (lowerN s a n).all = s.all := by
  unfold lowerN; split <;> rfl

theorem all_removeTx (s : Pool) (t : Tx) : allRun s.all (evRemoveTx s t) = (s.removeTx t).all := by
  unfold evRemoveTx Pool.removeTx Pool.removeTxG
  by_cases hin : t ∉ s.all
  · rw [if_pos hin, if_pos hin]; rfl
  · rw [if_neg hin, if_neg hin]
    simp only [Bool.true_or, if_true]
    split
    · exact Eq.trans (all_enqueueAll (({ s with all := delAll t s.all } : Pool).setP t.sender
          (dropIfEmpty ((s.pending t.sender).remove t).2.2)) ((s.pending t.sender).remove t).2.1)
        (by unfold enqueueAll; split <;> rfl)
    · rfl

theorem all_dropQueued (s : Pool) (a : Addr) (ts : List Tx) : allRun s.all (evDropQueued s ts) = (s.dropQueued a ts).all :=
  allRun_fold _ _ all_removeTx ts s

theorem capOne_all (s : Pool) (a : Addr) :
    (s.capOne a).all = s.all.filter (fun t => !decide (t ∈ (capL ((s.pending a).items.length - 1) (s.pending a).items).1)) := by
  unfold Pool.capOne
  simp only
  have : ∀ (l : List Tx) (m : Pool),
      (l.foldl (fun s t => if t.nonce < s.pnonce a then s.setN a t.nonce else s) m).all = m.all := by
    intro l
    induction l with
    | nil => intro m; rfl
    | cons x xs ih => intro m; simp only [List.foldl_cons]; rw [ih]; split <;> rfl
  rw [this]

theorem all_capOne (s : Pool) (a : Addr) : allRun s.all (evCapOne s a) = (s.capOne a).all := by
  unfold evCapOne; rw [allRun_dels, capOne_all]

theorem all_promoteAcct (s : Pool) (a : Addr) : allRun s.all (evPromoteAcct s a) = (s.promoteAcct a).all := by
  rw [promoteAcct_eq]
  show _ = (paS5 s a).all
  have e : evPromoteAcct s a =
      evDels (forward (s.cnonce a) (s.queue a).items).1 ++ evDels ((paQ1 s a).filter (s.balance a) s.maxGas).1 ++
      evFold (evPromoteTx a) (fun s t => s.promoteTx a t) (paS3 s a) (paReady s a).1 ++
      (if !(paS4 s a).isLocal a then evDels (capL (paS4 s a).cfg.accountQueue ((paS4 s a).queue a).items).1 else []) := rfl
  rw [e, allRun_append, allRun_append, allRun_append, allRun_dels, allRun_dels]
  have h3 : (s.all.filter (fun t => !decide (t ∈ (forward (s.cnonce a) (s.queue a).items).1))).filter
      (fun t => !decide (t ∈ ((paQ1 s a).filter (s.balance a) s.maxGas).1)) = (paS3 s a).all := rfl
  have h4 := allRun_fold (evPromoteTx a) (fun s t => s.promoteTx a t) (all_promoteTx a) (paReady s a).1 (paS3 s a)
  rw [h3, h4]
  show allRun (paS4 s a).all _ = _
  unfold paS5
  simp only
  split
  · rw [allRun_dels]
  · rfl

theorem all_slotFinish : ∀ (fuel : Nat) (s : Pool), allRun s.all (evSlotFinish fuel s) = (Pool.slotFinish fuel s).all := by
  intro fuel
  induction fuel with
  | zero => intro s; rfl
  | succ n ih =>
    intro s
    unfold evSlotFinish Pool.slotFinish
    by_cases h : s.pendingCount ≤ s.cfg.globalSlots
    · rw [if_pos h, if_pos h]; rfl
    · rw [if_neg h, if_neg h]
      cases hf : s.accts.find? (fun a => s.offender a) with
      | none => rfl
      | some a => simp only; rw [allRun_append, all_capOne, ih]

theorem all_slotEvict (s : Pool) (sched : List Addr) : allRun s.all (evSlotEvict s sched) = (s.slotEvict sched).all := by
  unfold evSlotEvict Pool.slotEvict
  split
  · rfl
  · simp only
    rw [allRun_append]
    have := allRun_fold (fun s a => if s.offender a then evCapOne s a else [])
      (fun (s : Pool) (a : Addr) => if s.offender a then s.capOne a else s)
      (fun s a => by
        by_cases h : s.offender a = true
        · simp only [h, if_true]; exact all_capOne s a
        · simp only [h, Bool.false_eq_true, if_false]; rfl) sched s
    rw [this, all_slotFinish]

theorem all_queueDrop : ∀ (as : List Addr) (d : Nat) (s : Pool), allRun s.all (evQueueDrop d as s) = (Pool.queueDrop d as s).all := by
  intro as
  induction as with
  | nil => intro d s; unfold evQueueDrop Pool.queueDrop; rfl
  | cons a rest ih =>
    intro d s
    cases d with
    | zero => unfold evQueueDrop Pool.queueDrop; rfl
    | succ d =>
      unfold evQueueDrop Pool.queueDrop
      simp only
      split
      · rw [allRun_append, all_dropQueued s a, ih]
      · exact all_dropQueued s a _

theorem all_queueEvict (s : Pool) (order : List Addr) : allRun s.all (evQueueEvict s order) = (s.queueEvict order).all := by
  unfold evQueueEvict Pool.queueEvict
  split
  · rfl
  · exact all_queueDrop _ _ _

theorem all_promoteExecutables (s : Pool) (accounts : Option (List Addr)) (slots qorder : List Addr) :
    allRun s.all (evPromoteExecutables s accounts slots qorder) = (s.promoteExecutables accounts slots qorder).all := by
  unfold evPromoteExecutables Pool.promoteExecutables
  simp only
  rw [allRun_append, allRun_append, allRun_fold _ _ all_promoteAcct, all_slotEvict, all_queueEvict]
  rfl

theorem all_demoteAcct (s : Pool) (a : Addr) : allRun s.all (evDemoteAcct s a) = (s.demoteAcct true a).all := by
  rw [demoteAcct_eq]
  show _ = (dS6 true s a).all
  have e : evDemoteAcct s a =
      evDels (forward (s.cnonce a) (s.pending a).items).1 ++ evDels (dG s a).1 ++
      evFold evEnqueueTx (fun s u => (s.enqueueTx u).2.2) (dS3 s a) (dG s a).2.1 ++
      evFold evEnqueueTx (fun s u => (s.enqueueTx u).2.2) (dS5 true s a)
        (((dS4 s a).pending a).items.drop (dKeep true s a)) := rfl
  rw [e, allRun_append, allRun_append, allRun_append, allRun_dels, allRun_dels]
  have h3 : (s.all.filter (fun t => !decide (t ∈ (forward (s.cnonce a) (s.pending a).items).1))).filter
      (fun t => !decide (t ∈ (dG s a).1)) = (dS3 s a).all := rfl
  rw [h3, all_enqueueAll (dS3 s a) (dG s a).2.1]
  have h5 : (enqueueAll (dS3 s a) (dG s a).2.1).all = (dS5 true s a).all := rfl
  rw [h5]
  exact all_enqueueAll (dS5 true s a) _

theorem all_demoteUnexecutables (s : Pool) : allRun s.all (evDemoteUnexecutables s) = (s.demoteUnexecutables true).all :=
  allRun_fold _ _ all_demoteAcct s.accts s

theorem all_addCore (s : Pool) (t : Tx) (loc : Bool) : allRun s.all (evAddCore s t) = (s.addCore t loc).2.2.all := by
  unfold evAddCore Pool.addCore
  split
  · simp only
    split
    · rfl
    · cases ((s.pending t.sender).add t s.cfg.priceBump).2.1 <;> rfl
  · simp only
    rw [all_enqueueTx]
    split
    · rename_i h
      -- not inserted: enqueueTx left the pool as it was
      have : (s.enqueueTx t).2.2 = s := by
        unfold Pool.enqueueTx; simp only
        unfold Pool.enqueueTx at h; simp only at h
        split
        · rfl
        · rename_i h2; simp [h2] at h
      rw [this]
    · simp only; split <;> rfl

/-! ### coverage: the heap contains everything pooled (`priced_consistent`) -/

/-- the heap covers `all` except the transactions in `owed` (popped as eviction victims, removal pending) -/
def CovO (L : Ledger) (owed : List Tx) : Prop := ∀ x ∈ L.all, x ∉ owed → x ∈ L.priced.items

theorem CovO.mono {L : Ledger} {o o' : List Tx} (h : CovO L o) (hs : ∀ x ∈ o, x ∈ o' ∨ x ∉ L.all) : CovO L o' := by
  intro x hx hn
  apply h x hx
  intro hc
  rcases hs x hc with h1 | h1
  · exact hn h1
  · exact h1 hx

def notDeleted (e : LEv) (x : Tx) : Bool := !decide (e = LEv.del x)

theorem covO_step {L : Ledger} {o : List Tx} (e : LEv) (h : CovO L o) : CovO (L.step e) (o.filter (notDeleted e)) := by
  intro x hx hn
  cases e with
  | insPut t =>
    have hn' : x ∉ o := fun hc => hn (List.mem_filter.mpr ⟨hc, by simp [notDeleted]⟩)
    have hx' : x ∈ insertAll t L.all := hx
    show x ∈ (L.priced.put t).items
    rw [put_mem]
    rcases mem_insertAll.mp hx' with e | e
    · exact Or.inl e
    · exact Or.inr (h x e hn')
  | insIfNew t =>
    have hn' : x ∉ o := fun hc => hn (List.mem_filter.mpr ⟨hc, by simp [notDeleted]⟩)
    unfold Ledger.step at hx ⊢
    simp only at hx ⊢
    split
    · rename_i ht; rw [if_pos ht] at hx; exact h x hx hn'
    · rename_i ht
      rw [if_neg ht] at hx
      show x ∈ (L.priced.put t).items
      rw [put_mem]
      rcases mem_insertAll.mp hx with e | e
      · exact Or.inl e
      · exact Or.inr (h x e hn')
  | del t =>
    have hx' : x ∈ delAll t L.all := hx
    have hxa := mem_delAll.mp hx'
    have hn' : x ∉ o := fun hc => hn (List.mem_filter.mpr ⟨hc, by simp [notDeleted]; exact fun e => hxa.2 e.symm⟩)
    exact (removed_cov L.priced (delAll t L.all) x hx').1 (h x hxa.1 hn')

theorem covO_run : ∀ (evs : List LEv) (L : Ledger) (o : List Tx), CovO L o →
    CovO (L.run evs) (o.filter (fun x => evs.all (fun e => notDeleted e x))) := by
  intro evs
  induction evs with
  | nil =>
    intro L o h
    show CovO L _
    apply h.mono
    intro x hx; left
    exact List.mem_filter.mpr ⟨hx, by simp⟩
  | cons e rest ih =>
    intro L o h
    have := ih (L.step e) _ (covO_step e h)
    show CovO ((L.step e).run rest) _
    apply this.mono
    intro x hx
    left
    have h1 := List.mem_filter.mp hx
    have h2 := List.mem_filter.mp h1.1
    exact List.mem_filter.mpr ⟨h2.1, by simp only [List.all_cons, Bool.and_eq_true]; exact ⟨h2.2, h1.2⟩⟩

/-- running the events of the removals of the victims settles what was owed -/
theorem covO_dropQueued : ∀ (d : List Tx) (s : Pool) (P : Priced) (a : Addr) (owed : List Tx),
    CovO ⟨s.all, P⟩ (d ++ owed) → CovO ((⟨s.all, P⟩ : Ledger).run (evDropQueued s d)) owed := by
  intro d
  induction d with
  | nil => intro s P a owed h; exact h
  | cons v rest ih =>
    intro s P a owed h
    show CovO ((⟨s.all, P⟩ : Ledger).run (evRemoveTx s v ++ evDropQueued (s.removeTx v) rest)) owed
    rw [ledger_run_append]
    have h1 := covO_run (evRemoveTx s v) ⟨s.all, P⟩ (v :: rest ++ owed) h
    have hall : ((⟨s.all, P⟩ : Ledger).run (evRemoveTx s v)).all = (s.removeTx v).all := by
      rw [ledger_run_all]; exact all_removeTx s v
    have h2 : CovO ((⟨s.all, P⟩ : Ledger).run (evRemoveTx s v)) (rest ++ owed) := by
      apply h1.mono
      intro x hx
      have hm := List.mem_filter.mp hx
      rcases List.mem_cons.mp hm.1 with e | e
      · -- x = v: either a `del v` event occurred (then x is filtered out) or v was not in `all` and still is not
        subst e
        right
        by_cases hin : x ∉ s.all
        · rw [hall]; unfold Pool.removeTx Pool.removeTxG; rw [if_pos hin]; exact hin
        · exfalso
          have h3 := hm.2
          unfold evRemoveTx at h3
          rw [if_neg hin] at h3
          simp [notDeleted] at h3
      · exact Or.inl e
    have := ih (s.removeTx v) ((⟨s.all, P⟩ : Ledger).run (evRemoveTx s v)).priced a owed (by rw [← hall]; exact h2)
    rw [← hall] at this
    exact this

/-! ### the concrete machine refines the oracle machine and keeps the heap consistent -/

theorem ledger_step_ok (L : Ledger) (e : LEv) (h : PricedOK true L.priced) : PricedOK true (L.step e).priced := by
  cases e with
  | insPut t => exact put_ok _ t h
  | insIfNew t =>
    unfold Ledger.step
    simp only
    split
    · exact h
    · exact put_ok _ t h
  | del t => exact removed_ok _ _ h

theorem ledger_run_ok : ∀ (evs : List LEv) (L : Ledger), PricedOK true L.priced → PricedOK true (L.run evs).priced := by
  intro evs
  induction evs with
  | nil => intro L h; exact h
  | cons e rest ih => intro L h; exact ih (L.step e) (ledger_step_ok L e h)

/-- `priced_consistent`: every pooled transaction has an entry in the price heap, the heap array is a min-heap by price,
    and the driver's assertion on the heap operations has not fired -/
def Cov (c : CPool) : Prop := (∀ x ∈ c.pool.all, x ∈ c.priced.items) ∧ PricedOK true c.priced

theorem covO_nil_run {L : Ledger} (h : CovO L []) (evs : List LEv) : CovO (L.run evs) [] := by
  have := covO_run evs L [] h
  simpa using this

theorem with_cov {c : CPool} {s' : Pool} {evs : List LEv} (h : Cov c) (hall : allRun c.pool.all evs = s'.all) :
    Cov (c.with s' evs) := by
  have h0 : CovO c.ledger [] := fun x hx _ => h.1 x hx
  have h1 := covO_nil_run h0 evs
  refine ⟨fun x hx => ?_, ledger_run_ok evs c.ledger h.2⟩
  have hx' : x ∈ (c.ledger.run evs).all := by rw [ledger_run_all]; show x ∈ allRun c.pool.all evs; rw [hall]; exact hx
  exact h1 x hx' (by simp)

theorem cpromote_spec (c : CPool) (accounts : Option (List Addr)) (slots qorder : List Addr) (h : Cov c) :
    (c.promoteExecutables accounts slots qorder).pool = c.pool.promoteExecutables accounts slots qorder ∧
    Cov (c.promoteExecutables accounts slots qorder) :=
  ⟨rfl, with_cov h (all_promoteExecutables _ _ _ _)⟩

/-- add: the heap's victims are an admissible oracle for the model's `add`, the results coincide, and the heap stays
    consistent -/
theorem cadd_refines (c : CPool) (t : Tx) (loc : Bool) (sh : Shape) (h : Cov c) :
    (c.add t loc sh).1 = (c.pool.add t loc sh (c.add t loc sh).2.2.1).1 ∧
    (c.add t loc sh).2.1 = (c.pool.add t loc sh (c.add t loc sh).2.2.1).2.1 ∧
    (c.add t loc sh).2.2.2.pool = (c.pool.add t loc sh (c.add t loc sh).2.2.1).2.2 ∧
    Cov (c.add t loc sh).2.2.2 := by
  rw [add_eq_core]
  unfold CPool.add
  simp only
  by_cases hk : sh = .wellformed ∧ t ∈ c.pool.all
  · rw [if_pos hk, if_pos hk]; exact ⟨rfl, rfl, rfl, h⟩
  · rw [if_neg hk, if_neg hk]
    by_cases hv : c.pool.validateTx t loc sh ≠ .ok
    · rw [if_pos hv, if_pos hv]; exact ⟨rfl, rfl, rfl, h⟩
    · rw [if_neg hv, if_neg hv]
      by_cases hfull : c.pool.cfg.globalSlots + c.pool.cfg.globalQueue ≤ c.pool.all.length
      · rw [if_pos hfull]
        have hfd : decide (c.pool.cfg.globalSlots + c.pool.cfg.globalQueue ≤ c.pool.all.length) = true := by simpa using hfull
        obtain ⟨hu1, hu2, hu3⟩ := underpriced_refines c.pool c.priced t h.1 h.2
        rw [hfd]
        simp only [Bool.true_and, if_true]
        by_cases hup : (c.priced.underpriced c.pool.all c.pool.locals t).1 = true
        · rw [if_pos hup]
          rw [hu1] at hup
          rw [if_pos hup]
          exact ⟨rfl, rfl, rfl, hu2, hu3⟩
        · rw [if_neg hup]
          rw [hu1] at hup
          rw [if_neg hup]
          have hd := discard_refines c.pool (c.priced.underpriced c.pool.all c.pool.locals t).2
            (c.pool.all.length + 1 - (c.pool.cfg.globalSlots + c.pool.cfg.globalQueue)) hu2 hu3
          simp only at hd
          obtain ⟨_, _, hsan, _, hcovd, hokd⟩ := hd
          rw [hsan]
          refine ⟨rfl, rfl, rfl, ?_⟩
          -- coverage: the victims are owed until their removeTx has run
          generalize (c.priced.underpriced c.pool.all c.pool.locals t).2.discard c.pool.all c.pool.locals
            (c.pool.all.length + 1 - (c.pool.cfg.globalSlots + c.pool.cfg.globalQueue)) = d at hcovd hokd ⊢
          have h0 : CovO ⟨c.pool.all, d.2⟩ (d.1 ++ []) := fun x hx hn => hcovd x hx (by simpa using hn)
          have h1 := covO_dropQueued d.1 c.pool d.2 0 [] h0
          have hc1 : Cov ((⟨c.pool, d.2⟩ : CPool).with (d.1.foldl (fun s v => s.removeTx v) c.pool) (evDropQueued c.pool d.1)) := by
            refine ⟨fun x hx => ?_, ledger_run_ok _ _ hokd⟩
            have hx' : x ∈ ((⟨c.pool.all, d.2⟩ : Ledger).run (evDropQueued c.pool d.1)).all := by
              rw [ledger_run_all]; show x ∈ allRun c.pool.all _; rw [all_dropQueued c.pool 0 d.1]; exact hx
            exact h1 x hx' (by simp)
          exact with_cov hc1 (all_addCore _ t loc)
      · rw [if_neg hfull]
        have hfd : decide (c.pool.cfg.globalSlots + c.pool.cfg.globalQueue ≤ c.pool.all.length) = false := by simpa using hfull
        rw [hfd]
        simp only [Bool.false_and, Bool.false_eq_true, if_false]
        exact ⟨by first | rfl | trivial, by first | rfl | trivial, by first | rfl | trivial, with_cov h (all_addCore _ t loc)⟩

theorem caddTx_refines (c : CPool) (t : Tx) (loc : Bool) (sh : Shape) (sl qo : List Addr) (h : Cov c) :
    (c.addTx t loc sh sl qo).1 = (c.pool.addTx t loc sh (c.addTx t loc sh sl qo).2.1 sl qo).1 ∧
    (c.addTx t loc sh sl qo).2.2.pool = (c.pool.addTx t loc sh (c.addTx t loc sh sl qo).2.1 sl qo).2 ∧
    Cov (c.addTx t loc sh sl qo).2.2 := by
  have hr := cadd_refines c t (loc && !c.pool.cfg.noLocals) sh h
  unfold CPool.addTx Pool.addTx
  simp only
  generalize c.add t (loc && !c.pool.cfg.noLocals) sh = r at hr ⊢
  obtain ⟨h1, h2, h3, h4⟩ := hr
  by_cases hok : r.1 ≠ .ok
  · rw [if_pos hok]
    simp only
    generalize c.pool.add t (loc && !c.pool.cfg.noLocals) sh r.2.2.1 = ra at h1 h2 h3 ⊢
    rw [if_pos (h1 ▸ hok)]
    exact ⟨h1, h3, h4⟩
  · rw [if_neg hok]
    by_cases hrep : (!r.2.1) = true
    · rw [if_pos hrep]
      simp only
      generalize c.pool.add t (loc && !c.pool.cfg.noLocals) sh r.2.2.1 = ra at h1 h2 h3 ⊢
      rw [if_neg (h1 ▸ hok), if_pos (h2 ▸ hrep)]
      have := cpromote_spec r.2.2.2 (some [t.sender]) sl qo h4
      exact ⟨by first | rfl | trivial, by rw [this.1, h3], this.2⟩
    · rw [if_neg hrep]
      simp only
      generalize c.pool.add t (loc && !c.pool.cfg.noLocals) sh r.2.2.1 = ra at h1 h2 h3 ⊢
      rw [if_neg (h1 ▸ hok), if_neg (h2 ▸ hrep)]
      exact ⟨by first | rfl | trivial, h3, h4⟩

theorem Pool.addMany_cons (s : Pool) (loc : Bool) (t : Tx) (ts : List Tx) (v : List Tx) (vs : List (List Tx)) :
    s.addMany loc (t :: ts) (v :: vs) =
      ((s.add t loc .wellformed v).1 :: ((s.add t loc .wellformed v).2.2.addMany loc ts vs).1,
       (if (s.add t loc .wellformed v).1 = .ok && !(s.add t loc .wellformed v).2.1 then [t.sender] else []) ++
         ((s.add t loc .wellformed v).2.2.addMany loc ts vs).2.1,
       ((s.add t loc .wellformed v).2.2.addMany loc ts vs).2.2) := rfl

theorem CPool.addMany_cons (c : CPool) (loc : Bool) (t : Tx) (ts : List Tx) :
    c.addMany loc (t :: ts) =
      ((c.add t loc .wellformed).1 :: ((c.add t loc .wellformed).2.2.2.addMany loc ts).1,
       (if (c.add t loc .wellformed).1 = .ok && !(c.add t loc .wellformed).2.1 then [t.sender] else []) ++
         ((c.add t loc .wellformed).2.2.2.addMany loc ts).2.1,
       (c.add t loc .wellformed).2.2.1 :: ((c.add t loc .wellformed).2.2.2.addMany loc ts).2.2.1,
       ((c.add t loc .wellformed).2.2.2.addMany loc ts).2.2.2) := rfl

theorem caddMany_refines (loc : Bool) : ∀ (ts : List Tx) (c : CPool), Cov c →
    (c.addMany loc ts).1 = (c.pool.addMany loc ts (c.addMany loc ts).2.2.1).1 ∧
    (c.addMany loc ts).2.1 = (c.pool.addMany loc ts (c.addMany loc ts).2.2.1).2.1 ∧
    (c.addMany loc ts).2.2.2.pool = (c.pool.addMany loc ts (c.addMany loc ts).2.2.1).2.2 ∧
    Cov (c.addMany loc ts).2.2.2 := by
  intro ts
  induction ts with
  | nil => intro c h; exact ⟨rfl, rfl, rfl, h⟩
  | cons t rest ih =>
    intro c h
    have hr := cadd_refines c t loc .wellformed h
    rw [CPool.addMany_cons]
    simp only
    rw [Pool.addMany_cons]
    simp only
    generalize c.add t loc .wellformed = r at hr ⊢
    obtain ⟨h1, h2, h3, h4⟩ := hr
    have hi := ih r.2.2.2 h4
    generalize CPool.addMany r.2.2.2 loc rest = rr at hi ⊢
    obtain ⟨i1, i2, i3, i4⟩ := hi
    rw [← h1, ← h2, ← h3]
    exact ⟨by rw [i1], by rw [i2], i3, i4⟩

theorem caddTxs_refines (c : CPool) (ts : List Tx) (loc : Bool) (sl qo : List Addr) (h : Cov c) :
    (c.addTxs ts loc sl qo).1 = (c.pool.addTxs ts loc (c.addTxs ts loc sl qo).2.1 sl qo).1 ∧
    (c.addTxs ts loc sl qo).2.2.pool = (c.pool.addTxs ts loc (c.addTxs ts loc sl qo).2.1 sl qo).2 ∧
    Cov (c.addTxs ts loc sl qo).2.2 := by
  have hr := caddMany_refines loc ts c h
  unfold CPool.addTxs Pool.addTxs
  simp only
  generalize c.addMany loc ts = r at hr ⊢
  obtain ⟨h1, h2, h3, h4⟩ := hr
  by_cases he : r.2.1.isEmpty = true
  · rw [if_pos he]
    simp only
    generalize c.pool.addMany loc ts r.2.2.1 = ra at h1 h2 h3 ⊢
    rw [if_pos (h2 ▸ he)]
    exact ⟨h1, h3, h4⟩
  · rw [if_neg he]
    simp only
    generalize c.pool.addMany loc ts r.2.2.1 = ra at h1 h2 h3 ⊢
    rw [if_neg (h2 ▸ he)]
    have := cpromote_spec r.2.2.2 (some r.2.1.eraseDups) sl qo h4
    exact ⟨h1, by rw [this.1, h3, h2], this.2⟩

theorem csetGasPrice_refines (c : CPool) (p : Nat) (h : Cov c) :
    (c.setGasPrice p).2.pool = c.pool.setGasPriceO p (c.setGasPrice p).1 ∧
    (∀ v, v ∈ (c.setGasPrice p).1 ↔ v ∈ c.pool.all ∧ v.price < p ∧ v.sender ∉ c.pool.locals) ∧
    Cov (c.setGasPrice p).2 := by
  have hd := cap_refines ({ c.pool with gasPrice := p } : Pool) c.priced p h.1 h.2
  simp only at hd
  unfold CPool.setGasPrice Pool.setGasPriceO
  simp only
  generalize c.priced.cap c.pool.all c.pool.locals p = d at hd ⊢
  obtain ⟨hmem, hcov, hokd⟩ := hd
  have hfil : d.1.filter (fun t => decide (t ∈ c.pool.all) && decide (t.price < p) &&
      !({ c.pool with gasPrice := p } : Pool).isLocal t.sender) = d.1 := by
    rw [List.filter_eq_self]
    intro v hv
    have := (hmem v).mp hv
    simp [Pool.isLocal, this.1, this.2.1, this.2.2]
  refine ⟨?_, hmem, ?_⟩
  · rw [hfil]; rfl
  · have h0 : CovO ⟨c.pool.all, d.2⟩ (d.1 ++ []) := fun x hx hn => hcov x hx (by simpa using hn)
    have h1 := covO_dropQueued d.1 ({ c.pool with gasPrice := p } : Pool) d.2 0 [] h0
    refine ⟨fun x hx => ?_, ledger_run_ok _ _ hokd⟩
    have hx' : x ∈ ((⟨c.pool.all, d.2⟩ : Ledger).run (evDropQueued ({ c.pool with gasPrice := p } : Pool) d.1)).all := by
      rw [ledger_run_all]
      show x ∈ allRun ({ c.pool with gasPrice := p } : Pool).all _
      rw [all_dropQueued _ 0 d.1]; exact hx
    exact h1 x hx' (by simp)

theorem creset_refines (c : CPool) (v : View) (o n : Nat) (rg : Bool) (d i : List Tx) (sl1 qo1 sl2 qo2 : List Addr) (h : Cov c) :
    (c.reset v o n rg d i sl1 qo1 sl2 qo2).2.pool =
      c.pool.reset true v o n rg d i ⟨(c.reset v o n rg d i sl1 qo1 sl2 qo2).1, sl1, qo1, sl2, qo2⟩ ∧
    Cov (c.reset v o n rg d i sl1 qo1 sl2 qo2).2 := by
  unfold CPool.reset Pool.reset
  simp only
  have h0 : Cov (⟨{ c.pool with cnonce := v.nonce, balance := v.balance, maxGas := v.maxGas, pnonce := v.nonce }, c.priced⟩ : CPool) := h
  generalize (if (rg && decide ((if o ≤ n then n - o else o - n) ≤ 64)) = true then txDifference d i else []) = reinject
  -- the re-injection phase
  have key : ∀ (c1 : CPool) (vs : List (List Tx)) (s1 : Pool), c1.pool = s1 → Cov c1 →
      ((⟨(c1.with (c1.pool.demoteUnexecutables true) (evDemoteUnexecutables c1.pool)).pool.syncNonces,
          (c1.with (c1.pool.demoteUnexecutables true) (evDemoteUnexecutables c1.pool)).priced⟩ : CPool).promoteExecutables none sl2 qo2).pool =
        ((s1.demoteUnexecutables true).syncNonces).promoteExecutables none sl2 qo2 ∧
      Cov ((⟨(c1.with (c1.pool.demoteUnexecutables true) (evDemoteUnexecutables c1.pool)).pool.syncNonces,
          (c1.with (c1.pool.demoteUnexecutables true) (evDemoteUnexecutables c1.pool)).priced⟩ : CPool).promoteExecutables none sl2 qo2) := by
    intro c1 vs s1 he hc1
    subst he
    have hc2 : Cov (c1.with (c1.pool.demoteUnexecutables true) (evDemoteUnexecutables c1.pool)) :=
      with_cov hc1 (all_demoteUnexecutables c1.pool)
    have hc3 : Cov (⟨(c1.with (c1.pool.demoteUnexecutables true) (evDemoteUnexecutables c1.pool)).pool.syncNonces,
        (c1.with (c1.pool.demoteUnexecutables true) (evDemoteUnexecutables c1.pool)).priced⟩ : CPool) := by
      refine ⟨fun x hx => ?_, hc2.2⟩
      have hx' : x ∈ (c1.pool.demoteUnexecutables true).syncNonces.all := hx
      rw [(syncNonces_all _).1] at hx'
      exact hc2.1 x hx'
    exact ⟨rfl, (cpromote_spec _ none sl2 qo2 hc3).2⟩
  by_cases he : reinject.isEmpty = true
  · rw [if_pos he, if_pos he]
    exact key _ [] _ rfl h0
  · rw [if_neg he, if_neg he]
    have ha := caddTxs_refines (⟨{ c.pool with cnonce := v.nonce, balance := v.balance, maxGas := v.maxGas, pnonce := v.nonce }, c.priced⟩ : CPool)
      reinject false sl1 qo1 h0
    simp only
    generalize (⟨{ c.pool with cnonce := v.nonce, balance := v.balance, maxGas := v.maxGas, pnonce := v.nonce }, c.priced⟩ : CPool).addTxs
      reinject false sl1 qo1 = a at ha ⊢
    exact key a.2.2 a.2.1 _ ha.2.1 ha.2.2

theorem cevictIdle_refines (c : CPool) (a : Addr) (h : Cov c) :
    (c.evictIdle a).pool = c.pool.evictIdle a ∧ Cov (c.evictIdle a) := by
  unfold CPool.evictIdle Pool.evictIdle
  split
  · exact ⟨rfl, h⟩
  · exact ⟨rfl, with_cov h (all_dropQueued c.pool a _)⟩

/-- **The price heap refines the eviction oracle.**  Every step of the concrete machine (victims of `add` and
    `SetGasPrice` popped from the price heap) is the step of the oracle machine for the operation `(c.step op).1` — the
    same operation with the heap's victims filled in as the oracle — and the heap keeps covering `all`. -/
theorem cstep_refines (c : CPool) (op : COp) (h : Cov c) :
    (c.step op).2.pool = c.pool.step true (c.step op).1 ∧ Cov (c.step op).2 := by
  cases op with
  | add t loc sh sl qo => exact ⟨(caddTx_refines c t loc sh sl qo h).2.1, (caddTx_refines c t loc sh sl qo h).2.2⟩
  | adds ts loc sl qo =>
    exact ⟨(caddTxs_refines c ts (loc && !c.pool.cfg.noLocals) sl qo h).2.1, (caddTxs_refines c ts _ sl qo h).2.2⟩
  | setGasPrice p => exact ⟨(csetGasPrice_refines c p h).1, (csetGasPrice_refines c p h).2.2⟩
  | reset v o n rg d i sl1 qo1 sl2 qo2 => exact creset_refines c v o n rg d i sl1 qo1 sl2 qo2 h
  | evictIdle a => exact cevictIdle_refines c a h

theorem cinit_cov (cfg : Cfg) (v : View) : Cov (CPool.init cfg v) := by
  refine ⟨fun x hx => ?_, ?_, fun _ => rfl⟩
  · cases hx
  · exact isHeap_nil

/-- the concrete machine run over a list of operations: the operations of the oracle machine it amounts to, and the state -/
def CPool.runOps : CPool → List COp → List Op × CPool
  | c, [] => ([], c)
  | c, op :: rest =>
    let r := c.step op
    let rr := CPool.runOps r.2 rest
    (r.1 :: rr.1, rr.2)

theorem crun_refines : ∀ (cops : List COp) (c : CPool), Cov c →
    (c.runOps cops).2.pool = (c.runOps cops).1.foldl (Pool.step true) c.pool ∧ Cov (c.runOps cops).2 := by
  intro cops
  induction cops with
  | nil => intro c h; exact ⟨rfl, h⟩
  | cons op rest ih =>
    intro c h
    obtain ⟨h1, h2⟩ := cstep_refines c op h
    obtain ⟨i1, i2⟩ := ih (c.step op).2 h2
    unfold CPool.runOps
    simp only [List.foldl_cons]
    rw [← h1]
    exact ⟨i1, i2⟩

end Aqv.TxPool

/-
  Aqv.Lemmas.Translated — the `f_translated_eq` theorems: every definition of the generated module `Aqv.Gen.Translated`
  (mini-translator go/extract/cmd/ssa2lean, DESIGN.md 2.2, docs/notes/translator.md) equals / refines the hand-written model
  function the property theorems are stated on.  The theorems live in one file per area so that a change of ONE Go function
  breaks only the properties that consume it (each Props/Cxx.lean imports its area file, not this umbrella):

    Translated/Basic   prelude facts (math/big operations, Int64)                                   —
    Translated/Vm      toWordSize, callGas, memoryGasCost, bigUint64, calcMemSize, gasMLoad/…,      C07, C08
                       (*Contract).UseGas, SafeAdd/SafeSub/SafeMul, BigMax/BigMin/S256
    Translated/Rlp     headsize (intsize is an explicit parameter)                                  C11
    Translated/Rpc     isProtectedMethodName                                                        C18
    Translated/Tx      (*GasPool).SubGas/AddGas/Gas, (*StateTransition).useGas                      C06
    Translated/TxSign  isProtectedV, deriveChainId, ValidateSignatureValues                         C12
    Translated/Params  isForked, IsHF, GetHF, GetBlockVersion, IsHomestead/IsByzantium/…            C13, C14, C08
-/
import Aqv.Lemmas.Translated.Basic
import Aqv.Lemmas.Translated.Vm
import Aqv.Lemmas.Translated.VmNat
import Aqv.Lemmas.Translated.VmPre
import Aqv.Lemmas.Translated.Rlp
import Aqv.Lemmas.Translated.Rpc
import Aqv.Lemmas.Translated.Tx
import Aqv.Lemmas.Translated.TxSign
import Aqv.Lemmas.Translated.Params
import Aqv.Lemmas.Translated.Consensus

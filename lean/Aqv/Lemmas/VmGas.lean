/-
  Aqv.Lemmas.VmGas — arithmetic of the gas / memory model of Aqv.Model.Vm (C07): memory fee accounting, lower bounds of
  every gas function, shape of the CALL-family gas functions (63/64 rule), and the facts about the GENERATED instruction
  tables that the interpreter proofs consume (all by `decide` over `Gen.VmFlags`).
-/
import Aqv.Model.Vm
set_option linter.unusedSimpArgs false
namespace Aqv.Vm
open Aqv.Gen.VmFlags

/-! ### memory fee -/

theorem memFee_mono {a b : Nat} (h : a ≤ b) : memFee a ≤ memFee b := by
  unfold memFee
  exact Nat.add_le_add (Nat.mul_le_mul_right _ h) (Nat.div_le_div_right (Nat.mul_le_mul h h))

theorem memFee_lt {w : Nat} (h : w ≤ 0x7ffffffff) : memFee w < two64 := by
  have h2 : w * w ≤ 0x7ffffffff * 0x7ffffffff := Nat.mul_le_mul h h
  have h3 : w * w / 512 ≤ 0x7ffffffff * 0x7ffffffff / 512 := Nat.div_le_div_right h2
  unfold memFee two64 memoryGas quadCoeffDiv
  omega

theorem memFee_zero : memFee 0 = 0 := by decide

/-- invariant of a frame's memory: word aligned, and lastGasCost is the total fee of the current size -/
def MemInv (m : Mem) : Prop := m.len % 32 = 0 ∧ m.lastGasCost = memFee (m.len / 32) ∧ m.len < two64

theorem MemInv.empty : MemInv ⟨0, 0⟩ := ⟨rfl, by simp [memFee_zero], by decide⟩

theorem memorySizeOf_ok {req : Option Nat} {ms : Nat} (h : memorySizeOf req = .ok ms) : ms % 32 = 0 ∧ ms < two64 := by
  unfold memorySizeOf at h
  split at h
  · cases h; exact ⟨rfl, by decide⟩
  · split at h
    · cases h
    · split at h
      · cases h
      · cases h; constructor <;> omega

theorem memorySizeOf_none : memorySizeOf none = .ok 0 := rfl

/-- memoryGasCost on an aligned request: length untouched, lastGasCost becomes the fee of the larger size, and the returned
    fee is exactly the increase (the unchecked uint64 subtraction does not wrap). -/
theorem memoryGasCost_spec {m : Mem} {ms fee : Nat} {m' : Mem} (hm : MemInv m) (hms : ms % 32 = 0)
    (h : memoryGasCost m ms = some (fee, m')) :
    m'.len = m.len ∧ m'.lastGasCost = memFee (max m.len ms / 32) ∧ m'.lastGasCost = m.lastGasCost + fee := by
  obtain ⟨ha, hl, hb⟩ := hm
  unfold memoryGasCost at h
  split at h
  · next h0 =>
    cases h
    subst h0
    refine ⟨rfl, ?_, rfl⟩
    simp [hl]
  · split at h
    · cases h
    · next hnz hle =>
      have hw : toWordSize ms = ms / 32 := by
        unfold toWordSize two64
        split <;> omega
      have hw32 : ms / 32 * 32 = ms := by omega
      simp only [hw, hw32] at h
      split at h
      · next hgt =>
        cases h
        have hmax : max m.len ms = ms := by omega
        have hmono : memFee (m.len / 32) ≤ memFee (ms / 32) := memFee_mono (by omega)
        have hlt : memFee (ms / 32) < two64 := memFee_lt (by omega)
        refine ⟨rfl, by simp [hmax], ?_⟩
        simp only
        rw [hl]
        unfold two64 at hlt ⊢
        omega
      · next hngt =>
        cases h
        have hmax : max m.len ms = m.len := by omega
        refine ⟨rfl, by simp [hmax, hl], rfl⟩

/-- memoryGasCost succeeds only for requests of at most 0xffffffffe0 bytes -/
theorem memoryGasCost_some_bound {m : Mem} {ms : Nat} {x : Nat × Mem} (h : memoryGasCost m ms = some x) : ms ≤ 0xffffffffe0 := by
  unfold memoryGasCost at h
  split at h
  · omega
  · split at h
    · cases h
    · omega

/-! ### safeAdd / safeMul -/

theorem safeAdd_some {a b c : Nat} (h : safeAdd a b = some c) : c = a + b ∧ c < two64 := by
  unfold safeAdd at h
  split at h
  · cases h
  · cases h; constructor <;> omega

theorem safeMul_some {a b c : Nat} (h : safeMul a b = some c) : c = a * b := by
  unfold safeMul at h
  split at h
  · cases h
  · cases h; rfl

/-! ### what a gas function guarantees about memory -/

/-- the gas function called memoryGasCost on (m, ms), kept its memory result and charged at least the returned fee -/
def ChargesMem (m : Mem) (ms : Nat) (out : GasOut) : Prop :=
  ∃ fee, memoryGasCost m ms = some (fee, out.mem) ∧ fee ≤ out.cost

theorem gasCopyLike_spec {m : Mem} {ms base len perWord : Nat} {out : GasOut}
    (h : gasCopyLike m ms base len perWord = some out) : ChargesMem m ms out ∧ base ≤ out.cost ∧ out.callGasTemp = 0 := by
  unfold gasCopyLike at h
  split at h
  · cases h
  · next g m' hmg =>
    split at h
    · cases h
    · next g1 h1 =>
      split at h
      · cases h
      · split at h
        · cases h
        · next w hw =>
          split at h
          · cases h
          · next g2 h2 =>
            cases h
            have := safeAdd_some h1
            have := safeAdd_some h2
            exact ⟨⟨g, hmg, by simp; omega⟩, by simp; omega, rfl⟩

theorem gasMemPlus_spec {m : Mem} {ms base : Nat} {out : GasOut}
    (h : gasMemPlus m ms base = some out) : ChargesMem m ms out ∧ base ≤ out.cost ∧ out.callGasTemp = 0 := by
  unfold gasMemPlus at h
  split at h
  · cases h
  · next g m' hmg =>
    split at h
    · cases h
    · next g1 h1 =>
      cases h
      have := safeAdd_some h1
      exact ⟨⟨g, hmg, by simp; omega⟩, by simp; omega, rfl⟩

/-- callGas under the 63/64 rule: never more than all but one 64th of what remains after `base` -/
theorem callGas_le {gt : GasTable} {avail base cc tmp : Nat} (hcb : gt.createBySuicide > 0) (hav : avail < two64)
    (hb : base ≤ avail) (h : callGas gt avail base cc = some tmp) : tmp ≤ (avail - base) - (avail - base) / 64 := by
  unfold callGas at h
  simp only [hcb, if_true] at h
  have hav' : (avail + two64 - base) % two64 = avail - base := by unfold two64 at *; omega
  rw [hav'] at h
  split at h
  · cases h; exact Nat.le_refl _
  · next hc =>
    cases h
    simp only [Bool.or_eq_true, decide_eq_true_eq, not_or] at hc
    omega

theorem gasCallTail_spec {gt : GasTable} {cg base cc : Nat} {m' : Mem} {out : GasOut}
    (h : gasCallTail gt cg base cc m' = some out) :
    out.mem = m' ∧ out.cost = base + out.callGasTemp ∧ callGas gt cg base cc = some out.callGasTemp := by
  unfold gasCallTail at h
  split at h
  · cases h
  · next tmp ht =>
    split at h
    · cases h
    · next g hg =>
      cases h
      have := safeAdd_some hg
      exact ⟨rfl, by simp; omega, by simpa using ht⟩

/-! ### lower bound of every gas function -/

/-- a lower bound of the gas function of an opcode, valid for every stack, memory and state -/
def gasFloor (gt : GasTable) (f : OpF) : Nat :=
  match f.gasFn with
  | .constGasFunc => f.constGas
  | .gasPush => f.constGas
  | .gasSwap => f.constGas
  | .gasDup => f.constGas
  | .gasCallDataCopy => gasFastestStep
  | .gasReturnDataCopy => gasFastestStep
  | .gasCodeCopy => gasFastestStep
  | .gasExtCodeCopy => gt.extcodeCopy
  | .gasSha3 => sha3Gas
  | .gasSStore => min sstoreSetGas (min sstoreClearGas sstoreResetGas)
  | .makeGasLog => logGas
  | .gasMLoad => gasFastestStep
  | .gasMStore8 => gasFastestStep
  | .gasMStore => gasFastestStep
  | .gasCreate => createGas
  | .gasBalance => gt.balance
  | .gasExtCodeSize => gt.extcodeSize
  | .gasSLoad => gt.sLoad
  | .gasExp => gasSlowStep
  | .gasCall => gt.calls
  | .gasCallCode => gt.calls
  | .gasDelegateCall => gt.calls
  | .gasStaticCall => gt.calls
  | .gasReturn => 0
  | .gasRevert => 0
  | .gasSuicide => 0

/-- gas functions that charge for memory expansion (all others must belong to opcodes without a memorySize function) -/
def gasChargesMem : GasFn → Bool
  | .gasCallDataCopy => true
  | .gasReturnDataCopy => true
  | .gasCodeCopy => true
  | .gasExtCodeCopy => true
  | .gasSha3 => true
  | .makeGasLog => true
  | .gasMLoad => true
  | .gasMStore8 => true
  | .gasMStore => true
  | .gasCreate => true
  | .gasCall => true
  | .gasCallCode => true
  | .gasDelegateCall => true
  | .gasStaticCall => true
  | .gasReturn => true
  | .gasRevert => true
  | _ => false

def isCallGas : GasFn → Bool
  | .gasCall => true
  | .gasCallCode => true
  | .gasDelegateCall => true
  | .gasStaticCall => true
  | _ => false

/-- value-bearing CALL / CALLCODE as the gas functions see it -/
def valueCase (f : OpF) (a : List Nat) : Bool :=
  (f.gasFn == .gasCall || f.gasFn == .gasCallCode) && back a 2 != 0

variable {W : Type}

theorem gasCost_spec {env : Env} {f : OpF} {i : StepIn W} {cg : Nat} {m : Mem} {ms : Nat} {out : GasOut}
    (h : gasCost env f i cg m ms = some out) :
    gasFloor env.gt f ≤ out.cost ∧
    (gasChargesMem f.gasFn = true → ChargesMem m ms out) ∧
    (gasChargesMem f.gasFn = false → out.mem = m) ∧
    (isCallGas f.gasFn = false → out.callGasTemp = 0) ∧
    (isCallGas f.gasFn = true → ∃ fee base, memoryGasCost m ms = some (fee, out.mem) ∧ out.cost = base + out.callGasTemp ∧
        env.gt.calls + fee + (if valueCase f i.args then callValueTransferGas else 0) ≤ base ∧
        callGas env.gt cg base (back i.args 0) = some out.callGasTemp) := by
  unfold gasCost at h
  cases hg : f.gasFn <;> simp only [hg] at h <;> simp only [gasFloor, gasChargesMem, isCallGas, valueCase, hg]
  case constGasFunc => cases h; simp
  case gasPush => cases h; simp
  case gasSwap => cases h; simp
  case gasDup => cases h; simp
  case gasBalance => cases h; simp
  case gasExtCodeSize => cases h; simp
  case gasSLoad => cases h; simp
  case gasCallDataCopy => have := gasCopyLike_spec h; simp [this]
  case gasReturnDataCopy => have := gasCopyLike_spec h; simp [this]
  case gasCodeCopy => have := gasCopyLike_spec h; simp [this]
  case gasExtCodeCopy => have := gasCopyLike_spec h; simp [this]
  case gasSha3 => have := gasCopyLike_spec h; simp [this]
  case gasMLoad => have := gasMemPlus_spec h; simp [this]
  case gasMStore8 => have := gasMemPlus_spec h; simp [this]
  case gasMStore => have := gasMemPlus_spec h; simp [this]
  case gasCreate => have := gasMemPlus_spec h; simp [this]
  case gasSStore =>
    split at h
    · cases h; simp; omega
    · split at h <;> (cases h; simp; omega)
  case gasExp =>
    split at h
    · cases h
    · next g hgg => cases h; have := safeAdd_some hgg; simp; omega
  case gasSuicide =>
    split at h <;> (cases h; simp)
  case gasReturn =>
    split at h
    · cases h
    · next g m' hmg => cases h; exact ⟨Nat.zero_le _, fun _ => ⟨g, hmg, Nat.le_refl _⟩, by simp, by simp, by simp⟩
  case gasRevert =>
    split at h
    · cases h
    · next g m' hmg => cases h; exact ⟨Nat.zero_le _, fun _ => ⟨g, hmg, Nat.le_refl _⟩, by simp, by simp, by simp⟩
  case makeGasLog =>
    split at h
    · cases h
    · split at h
      · cases h
      · next g m' hmg =>
        split at h
        · cases h
        · next g1 h1 =>
          split at h
          · cases h
          · next g2 h2 =>
            split at h
            · cases h
            · next d hd =>
              split at h
              · cases h
              · next g3 h3 =>
                cases h
                have := safeAdd_some h1
                have := safeAdd_some h2
                have := safeAdd_some h3
                refine ⟨by simp; omega, fun _ => ⟨g, hmg, by simp; omega⟩, by simp, by simp, by simp⟩
  case gasCall =>
    split at h
    · cases h
    · next mg m' hmg =>
      split at h
      · cases h
      · next base hb =>
        obtain ⟨hm', hc, hcg⟩ := gasCallTail_spec h
        have hb' := safeAdd_some hb
        subst hm'
        refine ⟨by rw [hc]; have := hb'.1; split at this <;> split at this <;> split at this <;> omega,
          fun _ => ⟨mg, hmg, by rw [hc]; omega⟩, by simp, by simp, fun _ => ⟨mg, base, hmg, hc, ?_, hcg⟩⟩
        have := hb'.1
        split at this <;> split at this <;> split at this <;> simp_all <;> omega
  case gasCallCode =>
    split at h
    · cases h
    · next mg m' hmg =>
      split at h
      · cases h
      · next base hb =>
        obtain ⟨hm', hc, hcg⟩ := gasCallTail_spec h
        have hb' := safeAdd_some hb
        subst hm'
        refine ⟨by rw [hc]; have := hb'.1; split at this <;> omega,
          fun _ => ⟨mg, hmg, by rw [hc]; omega⟩, by simp, by simp, fun _ => ⟨mg, base, hmg, hc, ?_, hcg⟩⟩
        have := hb'.1
        split at this <;> simp_all <;> omega
  case gasDelegateCall =>
    split at h
    · cases h
    · next mg m' hmg =>
      split at h
      · cases h
      · next base hb =>
        obtain ⟨hm', hc, hcg⟩ := gasCallTail_spec h
        have hb' := safeAdd_some hb
        subst hm'
        refine ⟨by rw [hc]; omega, fun _ => ⟨mg, hmg, by rw [hc]; omega⟩, by simp, by simp,
          fun _ => ⟨mg, base, hmg, hc, by simp; omega, hcg⟩⟩
  case gasStaticCall =>
    split at h
    · cases h
    · next mg m' hmg =>
      split at h
      · cases h
      · next base hb =>
        obtain ⟨hm', hc, hcg⟩ := gasCallTail_spec h
        have hb' := safeAdd_some hb
        subst hm'
        refine ⟨by rw [hc]; omega, fun _ => ⟨mg, hmg, by rw [hc]; omega⟩, by simp, by simp,
          fun _ => ⟨mg, base, hmg, hc, by simp; omega, hcg⟩⟩

end Aqv.Vm

/-
  Lemmas for Layer C of Aqv.Model.BlockImport (store invariants, abort discipline).  Core Lean only.
-/
import Aqv.Lemmas.BlockImportPipe
namespace Aqv.BlockImport

variable {St Tx : Type}

/-- a stored result is justified by SOME parent state whose root is the one committed by the parent header:
    it is the value of the fixed function `result` at (that parent state, the block). -/
def Justified (C : ChainComp St Tx) (cfg : Cfg) (s : Stored Tx) (rs : List Receipt) : Prop :=
  ∃ (pst : St) (ph : Header) (p : Processed St),
    C.hashHeader ph = s.block.header.parentHash ∧ C.root pst = ph.root ∧
    result C.toComp cfg pst s.block = .ok p ∧ p.receipts = rs ∧ p.gasUsed = s.gasUsed ∧ C.root p.st = s.block.header.root

/-- the store invariant carried through every arrival history. -/
structure Inv (C : ChainComp St Tx) (cfg : Cfg) (g : Header) (S : Store St Tx) : Prop where
  keys : ∀ h s, S.blocks h = some s → C.hashHeader s.block.header = h
  states : ∀ r st, S.states r = some st → C.root st = r
  just : ∀ h s rs, S.blocks h = some s → s.receipts = some rs → s = genesisEntry g ∨ Justified C cfg s rs

theorem result_root (C : Comp St Tx) (cfg : Cfg) (pst : St) (b : Block Tx) (p : Processed St)
    (h : result C cfg pst b = .ok p) : C.root p.st = b.header.root := by
  obtain ⟨p', _, hv, hq⟩ := (result_ok_iff C cfg pst b p).1 h
  have := ((validateState_ok_iff C cfg b p'.st p'.receipts p'.gasUsed).1 hv).2.2.2
  subst hq
  exact this

theorem genesis_inv (C : ChainComp St Tx) (cfg : Cfg) (g : Header) (gst : St) (hg : C.root gst = g.root) :
    Inv C cfg g (genesisStore C.toComp g gst) := by
  refine ⟨?_, ?_, ?_⟩
  · intro h s hs
    unfold genesisStore upd at hs
    simp only [] at hs
    split at hs
    · cases hs; rename_i e; exact e.symm
    · cases hs
  · intro r st hs
    unfold genesisStore upd at hs
    simp only [] at hs
    split at hs
    · cases hs; rename_i e; rw [e]; exact hg
    · cases hs
  · intro h s rs hs _
    unfold genesisStore upd at hs
    simp only [] at hs
    split at hs
    · cases hs; exact Or.inl rfl
    · cases hs

theorem write_inv (C : ChainComp St Tx) (cfg : Cfg) (g : Header) (S : Store St Tx) (hI : Inv C cfg g S)
    (b : Block Tx) (ph : Header) (pst : St) (p : Processed St) (coin : Bool)
    (hk : C.hashHeader ph = b.header.parentHash) (hr0 : C.root pst = ph.root)
    (hr : result C.toComp cfg pst b = .ok p) : Inv C cfg g (writeBlockWithState C S b p coin) := by
  have hroot := result_root C.toComp cfg pst b p hr
  refine ⟨?_, ?_, ?_⟩
  · intro h s hs
    unfold writeBlockWithState upd at hs
    simp only [] at hs
    split at hs
    · cases hs; rename_i e; exact e.symm
    · exact hI.keys h s hs
  · intro r st hs
    unfold writeBlockWithState upd at hs
    simp only [] at hs
    split at hs
    · cases hs; rename_i e; rw [e]; exact hroot
    · exact hI.states r st hs
  · intro h s rs hs hrs
    unfold writeBlockWithState upd at hs
    simp only [] at hs
    split at hs
    · cases hs
      simp only [Option.some.injEq] at hrs
      exact Or.inr ⟨pst, ph, p, hk, hr0, hr, hrs, rfl, hroot⟩
    · exact hI.just h s rs hs hrs

theorem writeSide_inv (C : ChainComp St Tx) (cfg : Cfg) (g : Header) (S : Store St Tx) (hI : Inv C cfg g S)
    (b : Block Tx) (td : Nat) : Inv C cfg g (writeBlockWithoutState C S b td) := by
  refine ⟨?_, hI.states, ?_⟩
  · intro h s hs
    unfold writeBlockWithoutState upd at hs
    simp only [] at hs
    split at hs
    · cases hs; rename_i e; exact e.symm
    · exact hI.keys h s hs
  · intro h s rs hs hrs
    unfold writeBlockWithoutState upd at hs
    simp only [] at hs
    split at hs
    · cases hs; cases hrs
    · exact hI.just h s rs hs hrs

theorem tailStep_cases (C : ChainComp St Tx) (cfg : Cfg) (S : Store St Tx) (pst : St) (b : Block Tx) (coin cu ch : Bool) :
    (∃ e, tailStep C cfg S pst b coin cu ch = (.abort e, S)) ∨
    (∃ p, result C.toComp cfg pst b = .ok p ∧ (ch = true → validateAll C.toComp cfg pst b = .ok p) ∧
      tailStep C cfg S pst b coin cu ch = (.written, writeBlockWithState C S b p coin)) := by
  unfold tailStep
  split
  · exact Or.inl ⟨_, rfl⟩
  · split
    · exact Or.inl ⟨_, rfl⟩
    · rename_i p hh
      refine Or.inr ⟨p, ?_, ?_, rfl⟩
      · cases ch
        · simpa using hh
        · simp only [if_true] at hh; exact ((validateAll_ok_iff _ _ _ _ _).1 hh).2
      · intro hc; subst hc; simpa using hh

/-- every failure inside `tailStep` leaves the store exactly as it was. -/
theorem tailStep_abort (C : ChainComp St Tx) (cfg : Cfg) (S : Store St Tx) (pst : St) (b : Block Tx) (coin cu ch : Bool) (e : Err)
    (h : (tailStep C cfg S pst b coin cu ch).1 = .abort e) : (tailStep C cfg S pst b coin cu ch).2 = S := by
  rcases tailStep_cases C cfg S pst b coin cu ch with ⟨e', h'⟩ | ⟨p, _, _, h'⟩
  · rw [h']
  · rw [h'] at h; cases h

theorem tailStep_inv (C : ChainComp St Tx) (cfg : Cfg) (g : Header) (S : Store St Tx) (hI : Inv C cfg g S)
    (b : Block Tx) (ph : Header) (pst : St) (coin cu ch : Bool)
    (hk : C.hashHeader ph = b.header.parentHash) (hst : S.states ph.root = some pst) :
    Inv C cfg g (tailStep C cfg S pst b coin cu ch).2 := by
  rcases tailStep_cases C cfg S pst b coin cu ch with ⟨e, h⟩ | ⟨p, hr, _, h⟩
  · rw [h]; exact hI
  · rw [h]; exact write_inv C cfg g S hI b ph pst p coin hk (hI.states _ _ hst) hr

theorem reimport_inv (C : ChainComp St Tx) (cfg : Cfg) (g : Header) (coin : Bool) (f : Nat) (S : Store St Tx)
    (hI : Inv C cfg g S) (b : Block Tx) : Inv C cfg g (reimport C cfg coin f S b).2 := by
  induction f generalizing S b with
  | zero => exact hI
  | succ f ih =>
    unfold reimport
    split
    · exact hI
    · split
      · exact hI
      · split
        · exact hI
        · rename_i ps hps
          have hk := hI.keys _ _ hps
          split
          · rename_i pst hst
            exact tailStep_inv C cfg g S hI b ps.block.header pst coin _ _ hk hst
          · have hI1 := ih S hI ps.block
            split
            · rename_i e S1 heq; rw [heq] at hI1; exact hI1
            · rename_i o S1 _ heq
              rw [heq] at hI1
              split
              · rename_i pst hst
                exact tailStep_inv C cfg g S1 hI1 b ps.block.header pst coin _ _ hk hst
              · exact hI1

theorem importBlock_inv (C : ChainComp St Tx) (cfg : Cfg) (g : Header) (coin : Bool) (S : Store St Tx)
    (hI : Inv C cfg g S) (b : Block Tx) : Inv C cfg g (importBlock C cfg coin S b).2 := by
  unfold importBlock
  split
  · exact hI
  · split
    · exact hI
    · simp only []
      split
      · exact hI
      · split
        · exact hI
        · rename_i ps hps
          have hk := hI.keys _ _ hps
          split
          · rename_i pst hst
            exact tailStep_inv C cfg g S hI b ps.block.header pst coin _ _ hk hst
          · split
            · exact hI
            · split
              · exact writeSide_inv C cfg g S hI b _
              · have hI1 := reimport_inv C cfg g coin (ps.block.header.number + 1) S hI ps.block
                split
                · rename_i e S1 heq; rw [heq] at hI1; exact hI1
                · rename_i o S1 _ heq
                  rw [heq] at hI1
                  split
                  · rename_i pst hst
                    exact tailStep_inv C cfg g S1 hI1 b ps.block.header pst coin _ _ hk hst
                  · exact hI1

theorem importLoop_inv (C : ChainComp St Tx) (cfg : Cfg) (g : Header) (coins : Nat → Bool) (S : Store St Tx)
    (hI : Inv C cfg g S) (i : Nat) (batch : List (Block Tx)) : Inv C cfg g (importLoop C cfg coins S i batch).2.2 := by
  induction batch generalizing S i with
  | nil => exact hI
  | cons b rest ih =>
    unfold importLoop
    have h1 := importBlock_inv C cfg g (coins i) S hI b
    split
    · rename_i e S' heq; rw [heq] at h1; exact h1
    · rename_i o S' _ heq; rw [heq] at h1; exact ih S' h1 (i + 1)

theorem insertChain_inv (C : ChainComp St Tx) (cfg : Cfg) (g : Header) (coins : Nat → Bool) (S : Store St Tx)
    (hI : Inv C cfg g S) (batch : List (Block Tx)) : Inv C cfg g (insertChain C cfg coins S batch).2.2 := by
  unfold insertChain
  split
  · exact hI
  · exact importLoop_inv C cfg g coins S hI 0 _

theorem apply_inv (C : ChainComp St Tx) (cfg : Cfg) (g : Header) (S : Store St Tx) (hI : Inv C cfg g S) (ev : Event Tx) :
    Inv C cfg g (S.apply C cfg ev) := by
  cases ev with
  | insert batch coins => exact insertChain_inv C cfg g coins S hI batch
  | prune keep =>
    refine ⟨hI.keys, ?_, hI.just⟩
    intro r st hs
    unfold Store.apply at hs
    simp only [] at hs
    split at hs
    · exact hI.states r st hs
    · cases hs
  | restart => exact hI
  | setHead keep head =>
    refine ⟨?_, hI.states, ?_⟩
    · intro h s hs
      unfold Store.apply at hs
      simp only [] at hs
      split at hs
      · exact hI.keys h s hs
      · cases hs
    · intro h s rs hs hrs
      unfold Store.apply at hs
      simp only [] at hs
      split at hs
      · exact hI.just h s rs hs hrs
      · cases hs

theorem run_inv (C : ChainComp St Tx) (cfg : Cfg) (g : Header) (S : Store St Tx) (hI : Inv C cfg g S) (evs : List (Event Tx)) :
    Inv C cfg g (S.run C cfg evs) := by
  unfold Store.run
  induction evs generalizing S with
  | nil => exact hI
  | cons ev rest ih => exact ih (S.apply C cfg ev) (apply_inv C cfg g S hI ev)

/-! ### the abort discipline of a batch -/

/-- with the parent state at hand (the normal path), a refused block leaves the store exactly as it was. -/
theorem importBlock_abort_unchanged (C : ChainComp St Tx) (cfg : Cfg) (coin : Bool) (S : Store St Tx) (b : Block Tx)
    (ps : Stored Tx) (pst : St) (hp : S.blocks b.header.parentHash = some ps) (hst : S.states ps.block.header.root = some pst)
    (e : Err) (h : (importBlock C cfg coin S b).1 = .abort e) : (importBlock C cfg coin S b).2 = S := by
  unfold importBlock at h ⊢
  cases hg : gate C S b with
  | some e' => rfl
  | none =>
    rw [hg] at h
    simp only [] at h ⊢
    cases hbg : bodyGate C b with
    | some e' => rfl
    | none =>
      rw [hbg] at h
      simp only [] at h ⊢
      split
      · rfl
      · rename_i hk
        rw [if_neg hk] at h
        rw [hp] at h ⊢
        simp only [hst] at h ⊢
        exact tailStep_abort C cfg S pst b coin _ _ e h

theorem importLoop_cons (C : ChainComp St Tx) (cfg : Cfg) (coins : Nat → Bool) (S : Store St Tx) (i : Nat)
    (b : Block Tx) (rest : List (Block Tx)) :
    importLoop C cfg coins S i (b :: rest) =
      match importBlock C cfg (coins i) S b with
      | (.abort e, S') => (i, some e, S')
      | (_, S') => importLoop C cfg coins S' (i + 1) rest := by
  rw [importLoop]
  cases importBlock C cfg (coins i) S b with
  | mk o S' => cases o <;> rfl

theorem importLoop_cons_abort (C : ChainComp St Tx) (cfg : Cfg) (coins : Nat → Bool) (S S' : Store St Tx) (i : Nat)
    (b : Block Tx) (rest : List (Block Tx)) (e : Err) (h : importBlock C cfg (coins i) S b = (.abort e, S')) :
    importLoop C cfg coins S i (b :: rest) = (i, some e, S') := by
  unfold importLoop
  rw [h]

theorem importLoop_append (C : ChainComp St Tx) (cfg : Cfg) (coins : Nat → Bool) (S : Store St Tx) (i : Nat)
    (pre post : List (Block Tx)) :
    importLoop C cfg coins S i (pre ++ post) =
      match importLoop C cfg coins S i pre with
      | (j, some e, S') => (j, some e, S')
      | (j, none, S') => importLoop C cfg coins S' j post := by
  induction pre generalizing S i with
  | nil => rfl
  | cons b rest ih =>
    simp only [List.cons_append]
    rw [importLoop_cons, importLoop_cons]
    split
    · rfl
    · exact ih _ _


/-! ### what an accepted block has passed -/

theorem tailStep_written (C : ChainComp St Tx) (cfg : Cfg) (S : Store St Tx) (pst : St) (b : Block Tx) (coin cu ch : Bool)
    (h : (tailStep C cfg S pst b coin cu ch).1 = .written) : ∃ p, result C.toComp cfg pst b = .ok p := by
  rcases tailStep_cases C cfg S pst b coin cu ch with ⟨e, h'⟩ | ⟨p, hr, _, _⟩
  · rw [h'] at h; cases h
  · exact ⟨p, hr⟩

/-- a block for which `WriteBlockWithState` ran has passed the body gate and `Process` + `ValidateState` on some state. -/
theorem importBlock_written (C : ChainComp St Tx) (cfg : Cfg) (coin : Bool) (S : Store St Tx) (b : Block Tx)
    (h : (importBlock C cfg coin S b).1 = .written) :
    bodyGate C b = none ∧ ∃ pst p, result C.toComp cfg pst b = .ok p := by
  unfold importBlock at h
  cases hg : gate C S b with
  | some e => rw [hg] at h; cases h
  | none =>
    rw [hg] at h
    cases hbg : bodyGate C b with
    | some e => rw [hbg] at h; cases h
    | none =>
      rw [hbg] at h
      refine ⟨rfl, ?_⟩
      simp only [] at h
      split at h
      · cases h
      · split at h
        · cases h
        · split at h
          · rename_i pst _
            exact ⟨pst, tailStep_written C cfg S pst b coin _ _ h⟩
          · split at h
            · cases h
            · split at h
              · cases h
              · split at h
                · cases h
                · split at h
                  · rename_i pst _
                    exact ⟨pst, tailStep_written C cfg _ pst b coin _ _ h⟩
                  · cases h

theorem bodyGate_none (C : ChainComp St Tx) (b : Block Tx) (hbf : C.bodyFirst = true) (h : bodyGate C b = none) :
    validateBodyHashes C.toComp b = .ok () := by
  unfold bodyGate at h
  rw [hbf] at h
  simp only [if_true] at h
  cases hv : validateBodyHashes C.toComp b with
  | error e => rw [hv] at h; cases h
  | ok u => cases u; rfl

end Aqv.BlockImport

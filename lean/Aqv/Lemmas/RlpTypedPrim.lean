/-
  Lemmas about the Stream primitives of Aqv.Model.RlpTyped (readBytes, readUint, readBool, readBig, readByteArray,
  readRaw, readList, readItem): round trip on the encoder's output, canonicity of accepted input, no `fuel` outcome.
-/
import Aqv.Lemmas.RlpCanon
import Aqv.Model.RlpTyped
namespace Aqv.Rlp
open Aqv

/-! ### readBytes -/

theorem readBytes_encStr (b : Bytes) (hb : b.length < 2 ^ 64) (rest : Bytes) :
    readBytes (encStr b ++ rest) = .ok (b, rest) := by
  unfold encStr
  split
  · rename_i x
    by_cases hx : x < 0x80
    · simp only [hx, if_true, List.singleton_append, readBytes, readHead]
    · simp only [hx, if_false, readBytes]
      rw [List.append_assoc, readHead_header_str 1 (by omega)]
      simp [hx]
  · rename_i hns
    simp only [readBytes]
    rw [List.append_assoc, readHead_header_str _ hb]
    simp only [List.length_append, List.take_left', List.drop_left']
    rw [if_neg (by omega)]

theorem readBytes_ok (bs s rest : Bytes) (h : readBytes bs = .ok (s, rest)) :
    bs = encStr s ++ rest ∧ s.length < 2 ^ 64 := by
  unfold readBytes at h
  split at h
  · simp at h
  · rename_i b r hh
    simp only [Except.ok.injEq, Prod.mk.injEq] at h
    obtain ⟨hs, hr⟩ := h
    obtain ⟨hbs, hb⟩ := readHead_ok_byte _ _ _ hh
    subst hs; subst hr
    simp [encStr, hb, hbs]
  · rename_i n r hh
    obtain ⟨hbs, hn⟩ := readHead_ok_str _ _ _ hh
    by_cases hl : r.length < n
    · simp [hl] at h
    · simp only [hl, if_false] at h
      have hlen : (r.take n).length = n := by rw [List.length_take]; omega
      split at h
      · rename_i x hx
        by_cases hx80 : x < 0x80
        · simp [hx80] at h
        · simp only [hx80, if_false, Except.ok.injEq, Prod.mk.injEq] at h
          obtain ⟨hs, hr⟩ := h
          subst hs; subst hr
          have hn1 : n = 1 := by rw [hx] at hlen; simpa using hlen.symm
          subst hn1
          refine ⟨?_, by simp⟩
          rw [hbs]
          simp only [encStr, hx80, if_false]
          rw [List.append_assoc]
          congr 1
          rw [← hx, List.take_append_drop]
      · rename_i hns
        simp only [Except.ok.injEq, Prod.mk.injEq] at h
        obtain ⟨hs, hr⟩ := h
        subst hs; subst hr
        refine ⟨?_, by rw [hlen]; exact hn⟩
        rw [hbs]
        unfold encStr
        split
        · rename_i x heq
          exact absurd heq (hns x)
        · rw [hlen, List.append_assoc, List.take_append_drop]
  · simp at h

/-! ### readUint: succeeds exactly when `readBytes` returns a string without leading zero that fits the width -/

theorem readUint_ok_iff (k : Nat) (hk : 1 ≤ k) (bs : Bytes) (n : Nat) (rest : Bytes) :
    readUint k bs = .ok (n, rest) ↔
      ∃ s, readBytes bs = .ok (s, rest) ∧ s.length ≤ k ∧ (∀ b t, s = b :: t → b ≠ 0) ∧ n = beNat s := by
  unfold readUint readBytes
  cases hh : readHead bs with
  | error e => simp
  | ok hd =>
    cases hd with
    | byte b r =>
      simp only
      by_cases hb : b = 0
      · simp [hb]
      · simp only [hb, if_false, Except.ok.injEq, Prod.mk.injEq]
        constructor
        · rintro ⟨rfl, rfl⟩
          exact ⟨[b], ⟨rfl, rfl⟩, by simpa using hk, by simpa using hb, by simp [beNat]⟩
        · rintro ⟨s, ⟨rfl, rfl⟩, _, _, rfl⟩
          simp [beNat]
    | str m r =>
      simp only
      by_cases hl : r.length < m
      · simp [hl]
      · simp only [hl, if_false]
        have hlen : (r.take m).length = m := by rw [List.length_take]; omega
        generalize List.take m r = t at hlen
        generalize List.drop m r = d
        match t, hlen with
        | [], hlen =>
          simp only [List.length_nil] at hlen
          subst hlen
          simp only [Nat.not_lt_zero, if_false, Except.ok.injEq, Prod.mk.injEq]
          constructor
          · rintro ⟨rfl, rfl⟩
            exact ⟨[], ⟨rfl, rfl⟩, by simp, by simp, by simp [beNat]⟩
          · rintro ⟨s, ⟨rfl, rfl⟩, _, _, rfl⟩
            simp [beNat]
        | [x], hlen =>
          simp only [List.length_singleton] at hlen
          subst hlen
          have hk' : ¬ k < 1 := by omega
          simp only [hk', if_false]
          by_cases hx : x < 128
          · simp [hx]
          · have hx0 : x ≠ 0 := by
              intro h0; subst h0; exact hx (by decide)
            simp only [hx, if_false, Except.ok.injEq, Prod.mk.injEq]
            constructor
            · rintro ⟨rfl, rfl⟩
              exact ⟨[x], ⟨rfl, rfl⟩, by simpa using hk, by simpa using hx0, by simp [beNat]⟩
            · rintro ⟨s, ⟨rfl, rfl⟩, _, _, rfl⟩
              simp [beNat]
        | x :: y :: t', hlen =>
          simp only [Except.ok.injEq, Prod.mk.injEq]
          by_cases hkm : k < m
          · simp only [hkm, if_true]
            constructor
            · intro h; simp at h
            · rintro ⟨s, ⟨rfl, rfl⟩, hle, _, _⟩
              omega
          · simp only [hkm, if_false]
            by_cases hx : x = 0
            · simp only [hx, if_true]
              constructor
              · intro h; simp at h
              · rintro ⟨s, ⟨rfl, rfl⟩, _, h0, _⟩
                exact absurd rfl (h0 0 _ rfl)
            · simp only [hx, if_false, Except.ok.injEq, Prod.mk.injEq]
              constructor
              · rintro ⟨rfl, rfl⟩
                refine ⟨x :: y :: t', ⟨rfl, rfl⟩, by omega, ?_, rfl⟩
                intro b t hbt
                simp only [List.cons.injEq] at hbt
                rw [← hbt.1]; exact hx
              · rintro ⟨s, ⟨rfl, rfl⟩, _, _, rfl⟩
                exact ⟨rfl, rfl⟩
    | list m r => simp

theorem lt_pow_of_beBytes_length_le (n k : Nat) (h : (beBytes n).length ≤ k) : n < 256 ^ k := by
  have h1 := beNat_lt (beBytes n)
  rw [beNat_beBytes] at h1
  exact Nat.lt_of_lt_of_le h1 (Nat.pow_le_pow_right (by omega) h)

theorem beNat_lt_of_length_le (s : Bytes) (k : Nat) (h : s.length ≤ k) : beNat s < 256 ^ k :=
  Nat.lt_of_lt_of_le (beNat_lt s) (Nat.pow_le_pow_right (by omega) h)

theorem beBytes_length_lt_2_64 (n : Nat) (k : Nat) (hk : k ≤ 8) (h : n < 256 ^ k) : (beBytes n).length < 2 ^ 64 := by
  have := beBytes_length_le n k h
  omega

theorem readUint_enc (k : Nat) (hk : 1 ≤ k) (n : Nat) (h : n < 256 ^ k) (hsz : (beBytes n).length < 2 ^ 64) (rest : Bytes) :
    readUint k (encStr (beBytes n) ++ rest) = .ok (n, rest) := by
  rw [readUint_ok_iff k hk]
  refine ⟨beBytes n, readBytes_encStr _ hsz rest, beBytes_length_le n k h, ?_, (beNat_beBytes n).symm⟩
  intro b t hbt
  exact beBytes_head_ne_zero n b t hbt

theorem readUint_ok (k : Nat) (hk : 1 ≤ k) (bs : Bytes) (n : Nat) (rest : Bytes) (h : readUint k bs = .ok (n, rest)) :
    bs = encStr (beBytes n) ++ rest ∧ n < 256 ^ k := by
  obtain ⟨s, hs, hlen, h0, hn⟩ := (readUint_ok_iff k hk bs n rest).1 h
  obtain ⟨hbs, _⟩ := readBytes_ok _ _ _ hs
  subst hn
  rw [beBytes_beNat s h0]
  exact ⟨hbs, beNat_lt_of_length_le s k hlen⟩

/-! ### readBool -/

theorem readBool_enc (b : Bool) (rest : Bytes) :
    readBool ((if b then [0x01] else [0x80]) ++ rest) = .ok (b, rest) := by
  cases b <;> rfl

theorem readBool_ok (bs : Bytes) (b : Bool) (rest : Bytes) (h : readBool bs = .ok (b, rest)) :
    bs = (if b then [0x01] else [0x80]) ++ rest := by
  unfold readBool at h
  split at h
  · simp at h
  · rename_i n r hu
    obtain ⟨hbs, _⟩ := readUint_ok 1 (by omega) _ _ _ hu
    by_cases h0 : n = 0
    · simp only [h0, if_true, Except.ok.injEq, Prod.mk.injEq] at h
      obtain ⟨hb, hr⟩ := h
      subst hb; subst hr; subst h0
      simpa [beBytes, beBytesF, encStr, header] using hbs
    · simp only [h0, if_false] at h
      by_cases h1 : n = 1
      · simp only [h1, if_true, Except.ok.injEq, Prod.mk.injEq] at h
        obtain ⟨hb, hr⟩ := h
        subst hb; subst hr; subst h1
        rw [hbs]; rfl
      · simp [h1] at h

/-! ### readBig -/

theorem readBig_enc (n : Nat) (hsz : (beBytes n).length < 2 ^ 64) (rest : Bytes) :
    readBig (encStr (beBytes n) ++ rest) = .ok (n, rest) := by
  unfold readBig
  rw [readBytes_encStr _ hsz]
  simp only
  cases hb : beBytes n with
  | nil =>
    simp only
    have := beNat_beBytes n
    rw [hb] at this
    simp [beNat] at this
    rw [← this]
  | cons b0 t =>
    simp only
    rw [if_neg (beBytes_head_ne_zero n b0 t hb), ← hb, beNat_beBytes]

theorem readBig_ok (bs : Bytes) (n : Nat) (rest : Bytes) (h : readBig bs = .ok (n, rest)) :
    bs = encStr (beBytes n) ++ rest ∧ (beBytes n).length < 2 ^ 64 := by
  unfold readBig at h
  split at h
  · simp at h
  · rename_i s r hs
    obtain ⟨hbs, hlen⟩ := readBytes_ok _ _ _ hs
    split at h
    · rename_i b0 t
      by_cases h0 : b0 = 0
      · simp [h0] at h
      · simp only [h0, if_false, Except.ok.injEq, Prod.mk.injEq] at h
        obtain ⟨hn, hr⟩ := h
        subst hn; subst hr
        have hc : beBytes (beNat (b0 :: t)) = b0 :: t := by
          apply beBytes_beNat
          intro b rest' hbr
          simp only [List.cons.injEq] at hbr
          rw [← hbr.1]; exact h0
        rw [hc]; exact ⟨hbs, hlen⟩
    · simp only [Except.ok.injEq, Prod.mk.injEq] at h
      obtain ⟨hn, hr⟩ := h
      subst hn; subst hr
      have : beBytes 0 = [] := rfl
      rw [this]; exact ⟨hbs, by simp⟩

/-! ### readByteArray = readBytes with the exact length -/

theorem readByteArray_ok_iff (n : Nat) (bs s rest : Bytes) :
    readByteArray n bs = .ok (s, rest) ↔ readBytes bs = .ok (s, rest) ∧ s.length = n := by
  unfold readByteArray readBytes
  cases hh : readHead bs with
  | error e => simp
  | ok hd =>
    cases hd with
    | byte b r =>
      simp only
      by_cases hn : n = 1
      · subst hn
        simp only [if_true, Except.ok.injEq, Prod.mk.injEq]
        constructor
        · rintro ⟨rfl, rfl⟩; exact ⟨⟨rfl, rfl⟩, rfl⟩
        · rintro ⟨⟨rfl, rfl⟩, _⟩; exact ⟨rfl, rfl⟩
      · simp only [hn, if_false]
        constructor
        · intro h; simp at h
        · rintro ⟨h1, h2⟩
          simp only [Except.ok.injEq, Prod.mk.injEq] at h1
          rw [← h1.1] at h2
          simp at h2; omega
    | str m r =>
      simp only
      by_cases hl : r.length < m
      · simp [hl]
      · simp only [hl, if_false]
        have hlen : (r.take m).length = m := by rw [List.length_take]; omega
        by_cases hmn : m = n
        · subst hmn
          simp only [ne_eq, not_true_eq_false, if_false]
          generalize List.take m r = t at hlen
          generalize List.drop m r = d
          constructor
          · intro h
            refine ⟨h, ?_⟩
            split at h
            · split at h
              · simp at h
              · simp only [Except.ok.injEq, Prod.mk.injEq] at h
                rw [← h.1]; exact hlen
            · simp only [Except.ok.injEq, Prod.mk.injEq] at h
              rw [← h.1]; exact hlen
          · rintro ⟨h, _⟩; exact h
        · have hmn' : m ≠ n := hmn
          simp only [ne_eq, hmn', not_false_eq_true, if_true]
          constructor
          · intro h; simp at h
          · rintro ⟨h1, h2⟩
            exfalso
            generalize List.take m r = t at hlen h1
            split at h1
            · split at h1
              · simp at h1
              · simp only [Except.ok.injEq, Prod.mk.injEq] at h1
                rw [← h1.1] at h2; omega
            · simp only [Except.ok.injEq, Prod.mk.injEq] at h1
              rw [← h1.1] at h2; omega
    | list m r => simp

theorem readByteArray_enc (b : Bytes) (hb : b.length < 2 ^ 64) (rest : Bytes) :
    readByteArray b.length (encStr b ++ rest) = .ok (b, rest) :=
  (readByteArray_ok_iff _ _ _ _).2 ⟨readBytes_encStr b hb rest, rfl⟩

theorem readByteArray_ok (n : Nat) (bs s rest : Bytes) (h : readByteArray n bs = .ok (s, rest)) :
    bs = encStr s ++ rest ∧ s.length = n ∧ n < 2 ^ 64 := by
  obtain ⟨h1, h2⟩ := (readByteArray_ok_iff _ _ _ _).1 h
  obtain ⟨h3, h4⟩ := readBytes_ok _ _ _ h1
  exact ⟨h3, h2, by omega⟩

/-! ### readList -/

theorem readList_enc (p : Bytes) (hp : p.length < 2 ^ 64) (rest : Bytes) :
    readList (header 0xC0 p.length ++ p ++ rest) = .ok (p, rest) := by
  unfold readList
  rw [List.append_assoc, readHead_header_list _ hp]
  simp only [List.length_append, List.take_left', List.drop_left']
  rw [if_neg (by omega)]

theorem readList_ok (bs p rest : Bytes) (h : readList bs = .ok (p, rest)) :
    bs = header 0xC0 p.length ++ p ++ rest ∧ p.length < 2 ^ 64 := by
  unfold readList at h
  split at h
  · simp at h
  · rename_i n r hh
    obtain ⟨hbs, hn⟩ := readHead_ok_list _ _ _ hh
    by_cases hl : r.length < n
    · simp [hl] at h
    · simp only [hl, if_false, Except.ok.injEq, Prod.mk.injEq] at h
      obtain ⟨hp, hr⟩ := h
      have hlen : (r.take n).length = n := by rw [List.length_take]; omega
      subst hp; subst hr
      rw [hlen, List.append_assoc, List.take_append_drop]
      exact ⟨hbs, hn⟩
  · simp at h

/-! ### readRaw -/

theorem readRaw_ok (bs b rest : Bytes) (h : readRaw bs = .ok (b, rest)) :
    bs = b ++ rest ∧ readRaw b = .ok (b, []) := by
  unfold readRaw at h
  split at h
  · simp at h
  · rename_i x r hh
    obtain ⟨hbs, hx⟩ := readHead_ok_byte _ _ _ hh
    simp only [Except.ok.injEq, Prod.mk.injEq] at h
    obtain ⟨hb, hr⟩ := h
    subst hb; subst hr
    refine ⟨by simpa using hbs, ?_⟩
    simp [readRaw, readHead, hx]
  · rename_i n r hh
    obtain ⟨hbs, hn⟩ := readHead_ok_str _ _ _ hh
    by_cases hl : r.length < n
    · simp [hl] at h
    · simp only [hl, if_false, Except.ok.injEq, Prod.mk.injEq] at h
      obtain ⟨hb, hr⟩ := h
      have hlen : (r.take n).length = n := by rw [List.length_take]; omega
      subst hb; subst hr
      refine ⟨by rw [List.append_assoc, List.take_append_drop]; exact hbs, ?_⟩
      generalize List.take n r = t at hlen
      subst hlen
      have := readHead_header_str t.length hn t
      rw [← List.append_nil (_ ++ t), List.append_assoc] 
      simp only [readRaw, this, Nat.lt_irrefl, if_false, List.take_length, List.drop_length, List.append_nil]
  · rename_i n r hh
    obtain ⟨hbs, hn⟩ := readHead_ok_list _ _ _ hh
    by_cases hl : r.length < n
    · simp [hl] at h
    · simp only [hl, if_false, Except.ok.injEq, Prod.mk.injEq] at h
      obtain ⟨hb, hr⟩ := h
      have hlen : (r.take n).length = n := by rw [List.length_take]; omega
      subst hb; subst hr
      refine ⟨by rw [List.append_assoc, List.take_append_drop]; exact hbs, ?_⟩
      generalize List.take n r = t at hlen
      subst hlen
      have := readHead_header_list t.length hn t
      rw [← List.append_nil (_ ++ t), List.append_assoc] 
      simp only [readRaw, this, Nat.lt_irrefl, if_false, List.take_length, List.drop_length, List.append_nil]

theorem rawOk_iff (b : Bytes) : rawOk b = true ↔ readRaw b = .ok (b, []) := by
  unfold rawOk
  constructor
  · intro h
    split at h
    · rename_i b' hb'
      have := (readRaw_ok _ _ _ hb').1
      rw [List.append_nil] at this
      rw [hb', ← this]
    · simp at h
  · intro h; rw [h]

/-- a raw value in front of more input is read back as itself. -/
theorem readRaw_enc (b : Bytes) (hb : rawOk b = true) (rest : Bytes) : readRaw (b ++ rest) = .ok (b, rest) := by
  rw [rawOk_iff] at hb
  unfold readRaw at hb
  split at hb
  · simp at hb
  · rename_i x r hh
    obtain ⟨hbs, hx⟩ := readHead_ok_byte _ _ _ hh
    simp only [Except.ok.injEq, Prod.mk.injEq] at hb
    obtain ⟨hb1, hr⟩ := hb
    subst hr
    rw [← hb1]
    simp [readRaw, readHead, hx]
  · rename_i n r hh
    obtain ⟨hbs, hn⟩ := readHead_ok_str _ _ _ hh
    by_cases hl : r.length < n
    · simp [hl] at hb
    · simp only [hl, if_false, Except.ok.injEq, Prod.mk.injEq] at hb
      obtain ⟨hb1, hr⟩ := hb
      have hrn : r.length = n := by
        have := congrArg List.length hr
        simp only [List.length_drop, List.length_nil] at this
        omega
      subst hrn
      rw [hbs, List.append_assoc]
      have := readHead_header_str r.length hn (r ++ rest)
      simp only [readRaw, this, List.length_append, List.take_left', List.drop_left']
      rw [if_neg (by omega)]
  · rename_i n r hh
    obtain ⟨hbs, hn⟩ := readHead_ok_list _ _ _ hh
    by_cases hl : r.length < n
    · simp [hl] at hb
    · simp only [hl, if_false, Except.ok.injEq, Prod.mk.injEq] at hb
      obtain ⟨hb1, hr⟩ := hb
      have hrn : r.length = n := by
        have := congrArg List.length hr
        simp only [List.length_drop, List.length_nil] at this
        omega
      subst hrn
      rw [hbs, List.append_assoc]
      have := readHead_header_list r.length hn (r ++ rest)
      simp only [readRaw, this, List.length_append, List.take_left', List.drop_left']
      rw [if_neg (by omega)]

theorem rawOk_ne_nil (b : Bytes) (hb : rawOk b = true) : b ≠ [] := by
  intro h; subst h; simp [rawOk, readRaw, readHead] at hb

/-! ### readItem -/

theorem readItem_enc (it : Item) (hs : it.sizeOk = true) (rest : Bytes) :
    readItem (enc it ++ rest) = .ok (it, rest) := by
  unfold readItem
  have hw := weight_le it
  rw [decItem_enc it hs _ rest (by simp only [List.length_append]; omega)]

theorem readItem_ok (bs : Bytes) (it : Item) (rest : Bytes) (h : readItem bs = .ok (it, rest)) :
    bs = enc it ++ rest ∧ it.sizeOk = true := by
  unfold readItem at h
  split at h
  · rename_i r hd
    simp only [Except.ok.injEq] at h
    subst h
    exact (dec_canon _).1 _ _ _ hd
  · simp at h

/-! ### the primitives never run out of fuel (only `decItem` and `decMany` are fuelled) -/

theorem readSize_ne_fuel (ll : Nat) (rest : Bytes) : readSize ll rest ≠ .error .fuel := by
  unfold readSize
  split
  · simp
  · dsimp only
    split
    · simp
    · split
      · simp
      · split <;> simp

theorem readHead_ne_fuel (bs : Bytes) : readHead bs ≠ .error .fuel := by
  cases bs with
  | nil => simp [readHead]
  | cons b r =>
    simp only [readHead]
    split
    · simp
    · split
      · simp
      · split
        · have := readSize_ne_fuel (b.toNat - 0xB7) r
          split
          · simp
          · rename_i e he; intro h; simp only [Except.error.injEq] at h; subst h; exact this he
        · split
          · simp
          · have := readSize_ne_fuel (b.toNat - 0xF7) r
            split
            · simp
            · rename_i e he; intro h; simp only [Except.error.injEq] at h; subst h; exact this he

theorem readBytes_ne_fuel (bs : Bytes) : readBytes bs ≠ .error (.rlp .fuel) := by
  unfold readBytes
  have := readHead_ne_fuel bs
  split
  · rename_i e he; intro h; simp only [Except.error.injEq, TErr.rlp.injEq] at h; subst h; exact this he
  · simp
  · split
    · simp
    · split
      · split <;> simp
      · simp
  · simp

theorem readUint_ne_fuel (k : Nat) (bs : Bytes) : readUint k bs ≠ .error (.rlp .fuel) := by
  unfold readUint
  have := readHead_ne_fuel bs
  split
  · rename_i e he; intro h; simp only [Except.error.injEq, TErr.rlp.injEq] at h; subst h; exact this he
  · split <;> simp
  · split
    · simp
    · split
      · simp
      · split
        · simp
        · split <;> simp
        · split <;> simp
  · simp

theorem readBool_ne_fuel (bs : Bytes) : readBool bs ≠ .error (.rlp .fuel) := by
  unfold readBool
  have := readUint_ne_fuel 1 bs
  split
  · rename_i e he; intro h; simp only [Except.error.injEq] at h; subst h; exact this he
  · split
    · simp
    · split <;> simp

theorem readBig_ne_fuel (bs : Bytes) : readBig bs ≠ .error (.rlp .fuel) := by
  unfold readBig
  have := readBytes_ne_fuel bs
  split
  · rename_i e he; intro h; simp only [Except.error.injEq] at h; subst h; exact this he
  · split
    · split <;> simp
    · simp

theorem readByteArray_ne_fuel (n : Nat) (bs : Bytes) : readByteArray n bs ≠ .error (.rlp .fuel) := by
  unfold readByteArray
  have := readHead_ne_fuel bs
  split
  · rename_i e he; intro h; simp only [Except.error.injEq, TErr.rlp.injEq] at h; subst h; exact this he
  · split <;> simp
  · split
    · simp
    · split
      · simp
      · split
        · split <;> simp
        · simp
  · simp

theorem readRaw_ne_fuel (bs : Bytes) : readRaw bs ≠ .error (.rlp .fuel) := by
  unfold readRaw
  have := readHead_ne_fuel bs
  split
  · rename_i e he; intro h; simp only [Except.error.injEq, TErr.rlp.injEq] at h; subst h; exact this he
  · simp
  · split <;> simp
  · split <;> simp

theorem readList_ne_fuel (bs : Bytes) : readList bs ≠ .error (.rlp .fuel) := by
  unfold readList
  have := readHead_ne_fuel bs
  split
  · rename_i e he; intro h; simp only [Except.error.injEq, TErr.rlp.injEq] at h; subst h; exact this he
  · split <;> simp
  · simp

/-- consumption: a successfully decoded item is followed by a strictly shorter rest. -/
theorem decItem_consumes (f : Nat) (bs : Bytes) (it : Item) (rest : Bytes) (h : decItem f bs = .ok (it, rest)) :
    rest.length < bs.length := by
  have := ((dec_canon f).1 _ _ _ h).1
  have hp := enc_length_pos it
  rw [this, List.length_append]; omega

/-- fuel `2·len` (at least 1) suffices for one item, `2·len+1` for a payload: no `fuel` outcome. -/
theorem decItem_ne_fuel (f : Nat) :
    (∀ bs, 1 ≤ f → 2 * bs.length ≤ f → decItem f bs ≠ .error .fuel) ∧
    (∀ bs, 2 * bs.length + 1 ≤ f → decList f bs ≠ .error .fuel) := by
  induction f with
  | zero => constructor <;> intros <;> omega
  | succ f ih =>
    obtain ⟨ihI, ihL⟩ := ih
    constructor
    · intro bs _ hf
      simp only [decItem]
      have hh := readHead_ne_fuel bs
      split
      · rename_i e he; intro h; simp only [Except.error.injEq] at h; subst h; exact hh he
      · simp
      · split
        · simp
        · split
          · split <;> simp
          · simp
      · rename_i n r hr
        split
        · simp
        · rename_i hl
          have hlen : (r.take n).length = n := by rw [List.length_take]; omega
          obtain ⟨hbs, _⟩ := readHead_ok_list _ _ _ hr
          have hhl := header_length_pos 0xC0 n
          have hb : bs.length = (header 0xC0 n).length + r.length := by rw [hbs, List.length_append]
          have := ihL (r.take n) (by omega)
          split
          · simp
          · rename_i e he; intro h; simp only [Except.error.injEq] at h; subst h; exact this he
    · intro bs hf
      cases bs with
      | nil => simp [decList]
      | cons b bs' =>
        simp only [decList]
        simp only [List.length_cons] at hf
        have h1 := ihI (b :: bs') (by omega) (by simp only [List.length_cons]; omega)
        split
        · rename_i x rest hx
          have hc := decItem_consumes _ _ _ _ hx
          simp only [List.length_cons] at hc
          have h2 := ihL rest (by omega)
          split
          · simp
          · rename_i e he; intro h; simp only [Except.error.injEq] at h; subst h; exact h2 he
        · rename_i e he; intro h; simp only [Except.error.injEq] at h; subst h; exact h1 he

theorem readItem_ne_fuel (bs : Bytes) : readItem bs ≠ .error (.rlp .fuel) := by
  unfold readItem
  have := (decItem_ne_fuel (3 * bs.length + 1)).1 bs (by omega) (by omega)
  split
  · simp
  · rename_i e he; intro h; simp only [Except.error.injEq, TErr.rlp.injEq] at h; subst h; exact this he

/-- the untyped decoder never reports `fuel` either (totality of `dec`). -/
theorem dec_ne_fuel (bs : Bytes) : dec bs ≠ .error .fuel := by
  unfold dec
  have := (decItem_ne_fuel (3 * bs.length + 1)).1 bs (by omega) (by omega)
  split
  · simp
  · simp
  · rename_i e he; intro h; simp only [Except.error.injEq] at h; subst h; exact this he

/-! ### consumption: every successful primitive leaves a strictly shorter rest -/

theorem readHead_consumes (bs : Bytes) (hd : Hd) (h : readHead bs = .ok hd) :
    (match hd with | .byte _ r => r.length | .str _ r => r.length | .list _ r => r.length) < bs.length := by
  cases hd with
  | byte b r =>
    obtain ⟨hbs, _⟩ := readHead_ok_byte _ _ _ h
    simp [hbs]
  | str n r =>
    obtain ⟨hbs, _⟩ := readHead_ok_str _ _ _ h
    have := header_length_pos 0x80 n
    simp only [hbs, List.length_append]; omega
  | list n r =>
    obtain ⟨hbs, _⟩ := readHead_ok_list _ _ _ h
    have := header_length_pos 0xC0 n
    simp only [hbs, List.length_append]; omega

theorem readBytes_consumes (bs s rest : Bytes) (h : readBytes bs = .ok (s, rest)) : rest.length < bs.length := by
  obtain ⟨hbs, _⟩ := readBytes_ok _ _ _ h
  have := encStr_ne_nil s
  cases he : encStr s with
  | nil => exact absurd he this
  | cons b t => rw [hbs, he]; simp; omega

theorem readUint_consumes (k : Nat) (bs : Bytes) (n : Nat) (rest : Bytes) (h : readUint k bs = .ok (n, rest)) :
    rest.length < bs.length := by
  unfold readUint at h
  split at h
  · simp at h
  · rename_i b r hh
    have := readHead_consumes _ _ hh
    split at h
    · simp at h
    · simp only [Except.ok.injEq, Prod.mk.injEq] at h
      rw [← h.2]; exact this
  · rename_i m r hh
    have := readHead_consumes _ _ hh
    simp only at this
    have hd : (r.drop m).length ≤ r.length := by simp
    split at h
    · simp at h
    · split at h
      · simp at h
      · split at h
        · simp only [Except.ok.injEq, Prod.mk.injEq] at h
          rw [← h.2]; omega
        · split at h
          · simp at h
          · simp only [Except.ok.injEq, Prod.mk.injEq] at h
            rw [← h.2]; omega
        · split at h
          · simp at h
          · simp only [Except.ok.injEq, Prod.mk.injEq] at h
            rw [← h.2]; omega
  · simp at h

theorem readBool_consumes (bs : Bytes) (b : Bool) (rest : Bytes) (h : readBool bs = .ok (b, rest)) :
    rest.length < bs.length := by
  unfold readBool at h
  split at h
  · simp at h
  · rename_i n r hu
    have := readUint_consumes _ _ _ _ hu
    split at h
    · simp only [Except.ok.injEq, Prod.mk.injEq] at h; rw [← h.2]; exact this
    · split at h
      · simp only [Except.ok.injEq, Prod.mk.injEq] at h; rw [← h.2]; exact this
      · simp at h

theorem readBig_consumes (bs : Bytes) (n : Nat) (rest : Bytes) (h : readBig bs = .ok (n, rest)) :
    rest.length < bs.length := by
  unfold readBig at h
  split at h
  · simp at h
  · rename_i s r hs
    have := readBytes_consumes _ _ _ hs
    split at h
    · split at h
      · simp at h
      · simp only [Except.ok.injEq, Prod.mk.injEq] at h; rw [← h.2]; exact this
    · simp only [Except.ok.injEq, Prod.mk.injEq] at h; rw [← h.2]; exact this

theorem readByteArray_consumes (n : Nat) (bs s rest : Bytes) (h : readByteArray n bs = .ok (s, rest)) :
    rest.length < bs.length :=
  readBytes_consumes _ _ _ ((readByteArray_ok_iff _ _ _ _).1 h).1

theorem readRaw_consumes (bs b rest : Bytes) (h : readRaw bs = .ok (b, rest)) : rest.length < bs.length := by
  obtain ⟨hbs, hb⟩ := readRaw_ok _ _ _ h
  have := rawOk_ne_nil b ((rawOk_iff b).2 hb)
  cases he : b with
  | nil => exact absurd he this
  | cons x t => rw [hbs, he]; simp; omega

theorem readList_consumes (bs p rest : Bytes) (h : readList bs = .ok (p, rest)) : rest.length < bs.length := by
  obtain ⟨hbs, _⟩ := readList_ok _ _ _ h
  have := header_length_pos 0xC0 p.length
  rw [hbs]; simp only [List.length_append]; omega

theorem readItem_consumes (bs : Bytes) (it : Item) (rest : Bytes) (h : readItem bs = .ok (it, rest)) :
    rest.length < bs.length := by
  obtain ⟨hbs, _⟩ := readItem_ok _ _ _ h
  have := enc_length_pos it
  rw [hbs]; simp only [List.length_append]; omega

/-
  Aqv.Lemmas.VmRun — the interpreter / call-wrapper invariants of Aqv.Model.Vm (C07), by induction on the call tree
  (fuel). One predicate `Good` carries everything that has to be threaded through the induction: revision-stack extension,
  leftover ≤ given, no modelled panic, no fuel exhaustion, per-step Spec checks, view preservation in static context.
-/
import Aqv.Lemmas.VmDb
import Aqv.Lemmas.VmTable
namespace Aqv.Vm
open Aqv.Gen.VmFlags

variable {W V : Type}

/-- the gas table is one of the generated ones -/
def EnvOK (env : Env) : Prop := env.gt ∈ gasTables

def FrameInv (fr : Frame) : Prop :=
  fr.gas < two64 ∧ fr.given < two64 ∧ fr.gas + fr.mem.lastGasCost ≤ fr.given ∧ MemInv fr.mem ∧ fr.depth ≤ callCreateDepth + 1

def EvOK (env : Env) (e : Event) : Prop :=
  Spec.memoryPaid e = true ∧ Spec.depthOk e = true ∧ Spec.staticOk env e = true

structure Good (env : Env) (view : W → V) (fuel gas : Nat) (st : Bool) (db : Db W) (r : Res W) : Prop where
  ext : Ext db r.db
  gas_le : r.gas ≤ gas
  no_panic : r.out ≠ .panic
  fuel_ok : gas < fuel → r.out ≠ .outOfFuel
  events : ∀ e ∈ r.trace, EvOK env e
  static : env.byzantium = true → st = true → view r.db.cur = view db.cur

/-- what the wrappers assume about the interpreter they call -/
def Child (env : Env) (view : W → V) (fuel : Nat) (runChild : Frame → Db W → Nat → Res W) : Prop :=
  ∀ fr db t, FrameInv fr → db.WF → Good env view fuel fr.gas fr.ro db (runChild fr db t)

theorem FrameInv.new {gas depth : Nat} {ro : Bool} (hg : gas < two64) (hd : depth ≤ callCreateDepth + 1) :
    FrameInv (newFrame gas depth ro) :=
  ⟨hg, hg, by simp [newFrame], MemInv.empty, hd⟩

/-! ### evm.go run -/

theorem runCode_good {env : Env} {view : W → V} {fuel : Nat} {runChild : Frame → Db W → Nat → Res W}
    (hc : Child env view fuel runChild) {i : StepIn W} {gas depth : Nat} {ro : Bool} {db : Db W} {t : Nat}
    (hw : db.WF) (hg : gas < two64) (hd : depth ≤ callCreateDepth) :
    Good env view fuel gas ro db (runCode runChild i gas depth ro db t) := by
  unfold runCode
  split
  · split
    · exact ⟨Ext.refl _, Nat.le_refl _, by simp, by simp, by simp, fun _ _ => rfl⟩
    · split
      · exact ⟨Ext.refl _, Nat.sub_le _ _, by simp, by simp, by simp, fun _ _ => rfl⟩
      · exact ⟨Ext.refl _, Nat.sub_le _ _, by simp, by simp, by simp, fun _ _ => rfl⟩
  · split
    · exact ⟨Ext.refl _, Nat.le_refl _, by simp, by simp, by simp, fun _ _ => rfl⟩
    · exact hc (newFrame gas (depth + 1) ro) db t (FrameInv.new hg (by omega)) hw

/-! ### error handling of the call wrappers -/

theorem finishCall_spec {db : Db W} {r : Res W} (he : Ext db.snapshot.2 r.db) (hp : r.out ≠ .panic) :
    let r' := finishCall r db.next
    r'.out = r.out ∧ r'.trace = r.trace ∧ r'.gas ≤ r.gas ∧ Ext db r'.db ∧
    (r.out.isErr = true → r'.db.cur = db.cur) ∧ (r.out.isErr = false → r'.db = r.db) ∧
    (∀ e, r.out = .fail e → r'.gas = 0) := by
  have hrev := revert_of_ext he
  have hext := ext_after_revert he
  unfold finishCall
  cases ho : r.out with
  | ok => simp [Outcome.isErr]; exact ⟨ho, (Ext.snapshot db).trans he⟩
  | outOfFuel => simp [Outcome.isErr]; exact ⟨ho, (Ext.snapshot db).trans he⟩
  | panic => exact absurd ho hp
  | revert => simp [hrev, Outcome.isErr]; exact hext
  | fail e => simp [hrev, Outcome.isErr]; exact hext

end Aqv.Vm

namespace Aqv.Vm
open Aqv.Gen.VmFlags
variable {W V : Type}

theorem callWrap_good {env : Env} {view : W → V} {fuel : Nat} {runChild : Frame → Db W → Nat → Res W}
    (hc : Child env view fuel runChild) {k : CallKind} {i : StepIn W} {depth : Nat} {ro : Bool} {gas : Nat} {valueNZ : Bool}
    {db : Db W} {t : Nat} (hw : db.WF) (hg : gas < two64)
    (hN : ∀ w, view (i.neutralEff w) = view w)
    (r : Res W) (hr : r = callWrap env runChild k i depth ro gas valueNZ db t) :
    Good env view fuel gas ((ro || k == .static) && !(k == .call && valueNZ)) db r ∧
    (r.out.isErr = true → r.db.cur = db.cur) := by
  unfold callWrap at hr
  split at hr
  · subst hr; exact ⟨⟨Ext.refl _, Nat.le_refl _, by simp, by simp, by simp, fun _ _ => rfl⟩, fun _ => rfl⟩
  · next hdep =>
    split at hr
    · subst hr; exact ⟨⟨Ext.refl _, Nat.le_refl _, by simp, by simp, by simp, fun _ _ => rfl⟩, fun _ => rfl⟩
    · simp only [Db.snapshot] at hr
      split at hr
      · subst hr
        exact ⟨⟨Ext.snapshot db, Nat.le_refl _, by simp, by simp, by simp, fun _ _ => rfl⟩, by simp [Outcome.isErr]⟩
      · -- the callee runs on db2
        generalize hdb2 : (if (k == CallKind.call) = true then
            if valueNZ = true then Db.app (W := W) ⟨db.cur, (db.next, db.cur) :: db.revs, db.next + 1⟩ i.xferEff
            else Db.app ⟨db.cur, (db.next, db.cur) :: db.revs, db.next + 1⟩ i.neutralEff
          else ⟨db.cur, (db.next, db.cur) :: db.revs, db.next + 1⟩) = db2 at hr
        have hsn : db.snapshot.2 = ⟨db.cur, (db.next, db.cur) :: db.revs, db.next + 1⟩ := rfl
        have he2 : Ext db.snapshot.2 db2 := by
          rw [← hdb2, hsn]; split
          · split <;> exact Ext.app _ _
          · exact Ext.refl _
        have hw2 : db2.WF := ((Ext.snapshot db).trans he2).wf hw
        have hgc := runCode_good hc (i := i) (gas := gas) (depth := depth) (ro := ro || k == .static) (t := t) hw2 hg (by omega)
        have hfin := finishCall_spec (he2.trans hgc.ext) hgc.no_panic
        simp only at hfin
        rw [← hr] at hfin
        obtain ⟨ho, htr, hgl, hext, herr, hok, _⟩ := hfin
        refine ⟨⟨hext, Nat.le_trans hgl hgc.gas_le, by rw [ho]; exact hgc.no_panic, fun h => by rw [ho]; exact hgc.fuel_ok h,
          by rw [htr]; exact hgc.events, ?_⟩, by rw [ho]; exact herr⟩
        intro hbyz hst'
        simp only [Bool.and_eq_true, Bool.not_eq_true'] at hst'
        obtain ⟨hst, hnv⟩ := hst'
        -- view of db2 equals view of db
        have hv2 : view db2.cur = view db.cur := by
          rw [← hdb2]
          by_cases hk : (k == CallKind.call) = true
          · simp only [hk, if_true]
            have : valueNZ = false := by simpa [hk] using hnv
            simp [this, hN]
          · simp [hk]
        cases hie : (runCode runChild i gas depth (ro || k == .static) db2 t).out.isErr with
        | true => rw [herr hie]
        | false => rw [hok hie, hgc.static hbyz hst, hv2]

end Aqv.Vm

/-
  Aqv.Lemmas.TxPoolAll — the lookup table `all` is exactly pending ∪ queue (`AllOK`).  This is internal bookkeeping
  (deliberately not part of `Inv`), but the reorg re-injection clause rests on it: `add` refuses a transaction that is
  in `all`, so a transaction in `all` but in neither list can never be pooled again.
-/
import Aqv.Lemmas.TxPoolReset
namespace Aqv.TxPool

def AllOK (s : Pool) : Prop := ∀ t, t ∈ s.all ↔ s.pooled t

/-- pooled in terms of an account's lists -/
theorem pooled_iff (s : Pool) (t : Tx) : s.pooled t ↔ t ∈ (s.pending t.sender).items ∨ t ∈ (s.queue t.sender).items := Iff.rfl


/-- lists hold only their owner's transactions, so pooled-ness of `u` only looks at `u.sender`'s lists -/
theorem not_mem_other {s : Pool} (hw : WeakAll s) {a : Addr} {u : Tx} (h : u.sender ≠ a) :
    u ∉ (s.pending a).items ∧ u ∉ (s.queue a).items :=
  ⟨fun hc => h ((hw.1 a).powner u hc), fun hc => h ((hw.1 a).qowner u hc)⟩

/-! ### removeTx -/

theorem removeTx_allok {s : Pool} (t : Tx) (hw : WeakAll s) (ha : AllOK s) : AllOK (s.removeTx t) := by
  obtain ⟨ht, _, hc⟩ := removeTx_spec s t hw
  have hwa := hw.1 t.sender
  cases hc with
  | noop e _ => rw [e]; exact ha
  | pend hin hfound hitems hpn hq hqx hall =>
    have htp : t ∈ (s.pending t.sender).items := by
      rcases (ha t).mp hin with h | h
      · exact h
      · cases hg : getN (s.pending t.sender).items t.nonce with
        | none => rw [hg] at hfound; cases hfound
        | some o => exact absurd (getN_some hg).2 (hwa.disj o (getN_some hg).1 t h)
    intro u
    rw [hall u, pooled_iff]
    by_cases hu : u.sender = t.sender
    · rw [hu, hitems, hqx u, ha u, pooled_iff, hu]
      constructor
      · rintro (⟨h1 | h1, hne⟩ | h1)
        · have : u.nonce ≠ t.nonce := fun e => hne (hwa.psorted.nonce_inj h1 htp e)
          by_cases hlt : u.nonce < t.nonce
          · exact Or.inl (List.mem_filter.mpr ⟨h1, by simpa using hlt⟩)
          · exact Or.inr (Or.inr ⟨h1, by omega⟩)
        · exact Or.inr (Or.inl h1)
        · exact Or.inr (Or.inr h1)
      · rintro (h1 | h1 | h1)
        · have := List.mem_filter.mp h1
          have hlt : u.nonce < t.nonce := by simpa using this.2
          exact Or.inl ⟨Or.inl this.1, fun e => by subst e; omega⟩
        · exact Or.inl ⟨Or.inr h1, fun e => by subst e; exact hwa.disj _ htp _ h1 rfl⟩
        · exact Or.inr h1
    · have hno := not_mem_other hw hu
      rw [ht.pother _ hu, ht.qother _ hu, ha u, pooled_iff]
      constructor
      · rintro (⟨h1, _⟩ | ⟨h1, _⟩)
        · exact h1
        · exact absurd h1 hno.1
      · intro h1
        exact Or.inl ⟨h1, fun e => hu (by rw [e])⟩
  | queue hin hp hpn hq hnone hqx hall _ =>
    have htq : t ∈ (s.queue t.sender).items := by
      rcases (ha t).mp hin with h | h
      · exact absurd rfl (getN_none.mp hnone t h)
      · exact h
    intro u
    rw [hall u, pooled_iff]
    by_cases hu : u.sender = t.sender
    · rw [hu, hp, hqx u, ha u, pooled_iff, hu]
      constructor
      · rintro ⟨h1 | h1, hne⟩
        · exact Or.inl h1
        · exact Or.inr ⟨h1, fun e => hne (hwa.qsorted.nonce_inj h1 htq e)⟩
      · rintro (h1 | ⟨h1, h2⟩)
        · exact ⟨Or.inl h1, fun e => by subst e; exact getN_none.mp hnone _ h1 rfl⟩
        · exact ⟨Or.inr h1, fun e => by subst e; exact h2 rfl⟩
    · rw [ht.pother _ hu, ht.qother _ hu, ha u, pooled_iff]
      constructor
      · rintro ⟨h1, _⟩; exact h1
      · intro h1; exact ⟨h1, fun e => hu (by rw [e])⟩

/-! ### capOne -/

theorem capOne_allok {s : Pool} (a : Addr) (hw : WeakAll s) (ha : AllOK s) : AllOK (s.capOne a) := by
  have hf := capOne_facts s a
  have hwa := hw.1 a
  intro u
  rw [pooled_iff]
  rcases hf.shape with ⟨h1, h2, _, hall⟩ | ⟨x, hx, h2, _, hall⟩
  · rw [hall u, ha u, pooled_iff, hf.queue]
    by_cases hu : u.sender = a
    · rw [hu, h1, h2]
    · rw [hf.touch.pother _ hu]
  · rw [hall u, ha u, pooled_iff, hf.queue]
    have hxP : x ∈ (s.pending a).items := List.mem_of_getLast? hx
    by_cases hu : u.sender = a
    · rw [hu, ← h2]
      have hs := hwa.psorted; rw [← h2] at hs
      have hpw := List.pairwise_append.mp hs
      constructor
      · rintro ⟨h | h, hne⟩
        · rcases List.mem_append.mp h with h' | h'
          · exact Or.inl h'
          · simp at h'; exact absurd h' hne
        · exact Or.inr h
      · rintro (h | h)
        · refine ⟨Or.inl (List.mem_append_left _ h), fun e => ?_⟩
          subst e; have := hpw.2.2 u h u (by simp); omega
        · refine ⟨Or.inr h, fun e => ?_⟩
          subst e; exact hwa.disj u hxP u h rfl
    · rw [hf.touch.pother _ hu]
      constructor
      · rintro ⟨h, _⟩; exact h
      · intro h; exact ⟨h, fun e => hu (by rw [e]; exact hwa.powner x hxP)⟩

/-! ### promoteTx / promoteAll on free slots -/

theorem promoteTx_free_all {s : Pool} {a : Addr} {t : Tx}
    (hfree : ∀ p ∈ (s.pending a).items, p.nonce ≠ t.nonce) : ∀ u, u ∈ (s.promoteTx a t).all ↔ u = t ∨ u ∈ s.all := by
  have hnone : getN (s.pending a).items t.nonce = none := getN_none.mpr hfree
  intro u
  unfold Pool.promoteTx
  simp only [TxL.add, hnone, Bool.not_true, Bool.false_eq_true, if_false]
  exact mem_insertAll

theorem promoteAll_all {s : Pool} {a : Addr} {ts : List Tx} (hs : Sorted (s.pending a).items) (hts : Sorted ts)
    (hfreeP : ∀ t ∈ ts, ∀ p ∈ (s.pending a).items, p.nonce ≠ t.nonce) :
    ∀ u, u ∈ (promoteAll s a ts).all ↔ u ∈ ts ∨ u ∈ s.all := by
  induction ts generalizing s with
  | nil => intro u; simp [promoteAll]
  | cons x xs ih =>
    have hfx := promoteTx_free (s := s) (a := a) (t := x) hs (hfreeP x List.mem_cons_self)
    have hax := promoteTx_free_all (s := s) (a := a) (t := x) (hfreeP x List.mem_cons_self)
    have hsx := sorted_cons.mp hts
    have := ih (s := s.promoteTx a x) hfx.2.1 hsx.2 (fun t ht p hp => by
        rcases (hfx.1 p).mp hp with rfl | hp'
        · have := hsx.1 t ht; omega
        · exact hfreeP t (List.mem_cons_of_mem _ ht) p hp')
    intro u
    simp only [promoteAll, List.foldl_cons] at this ⊢
    rw [this u, hax u]; simp only [List.mem_cons]
    constructor
    · rintro (h | h | h)
      · exact Or.inl (Or.inr h)
      · exact Or.inl (Or.inl h)
      · exact Or.inr h
    · rintro ((h | h) | h)
      · exact Or.inr (Or.inl h)
      · exact Or.inl h
      · exact Or.inr (Or.inr h)

/-! ### promoteAcct -/

/-- the queue after the per-account cap and `all` after dropping what the cap cut off -/
theorem paS5_all_queue (s : Pool) (a : Addr) :
    ∃ k, ((paS5 s a).queue a).items = (paReady s a).2.take k ∧
      ∀ u, u ∈ (paS5 s a).all ↔ u ∈ (paS4 s a).all ∧ u ∉ (paReady s a).2.drop k := by
  have hcfg : (paS4 s a).cfg = s.cfg := (paS4_touch s a).env.cfg
  unfold paS5; simp only
  by_cases hl : (!(paS4 s a).isLocal a) = true
  · rw [if_pos hl]
    refine ⟨s.cfg.accountQueue, ?_, fun u => ?_⟩
    · simp only [upd_same, capL, paS4_queue, hcfg]
    · simp only [capL, paS4_queue, hcfg, List.mem_filter, Bool.not_eq_true', decide_eq_false_iff_not]
  · rw [if_neg hl]
    refine ⟨(paReady s a).2.length, ?_, fun u => ?_⟩
    · simp only [paS4_queue, List.take_length]
    · simp

theorem promoteAcct_allok {s : Pool} (a : Addr) (hw : WeakAll s) (ha : AllOK s) : AllOK (s.promoteAcct a) := by
  have hwa := hw.1 a
  have hq := paq s a hwa
  have hf := pa_free a hwa
  have hP := (paS4_weak a hw).2
  have hall4 : ∀ u, u ∈ (paS4 s a).all ↔ u ∈ (paReady s a).1 ∨ u ∈ (paS3 s a).all :=
    promoteAll_all (s := paS3 s a) (a := a) (by rw [paS3_pending]; exact hwa.psorted) hf.1 (by rw [paS3_pending]; exact hf.2.2.1)
  obtain ⟨k, hQ5, hall5⟩ := paS5_all_queue s a
  have hfs := TxL.filter_spec (paQ1 s a) (s.balance a) s.maxGas
  have hq1c : CapsOK (paQ1 s a) := hwa.qcaps.sub (fun t ht => (List.mem_filter.mp ht).1)
  have ht := promoteAcct_touch s a
  have hallfin : (s.promoteAcct a).all = (paS5 s a).all := rfl
  -- membership in the intermediate `all`
  have hall3 : ∀ u, u ∈ (paS3 s a).all ↔ u ∈ s.all ∧ u ∉ (forward (s.cnonce a) (s.queue a).items).1 ∧
      u ∉ ((paQ1 s a).filter (s.balance a) s.maxGas).1 := by
    intro u
    show u ∈ (s.all.filter _).filter _ ↔ _
    simp only [List.mem_filter, Bool.not_eq_true', decide_eq_false_iff_not, and_assoc]
  -- r.2 = take ++ drop, r.1 ++ r.2 = q2
  have hr2 : (paReady s a).2.take k ++ (paReady s a).2.drop k = (paReady s a).2 := List.take_append_drop _ _
  have hs12 : Sorted ((paReady s a).1 ++ (paReady s a).2) := by rw [hq.rapp]; exact hq.q2sorted
  have hpw := List.pairwise_append.mp hs12
  have hs2 : Sorted ((paReady s a).2.take k ++ (paReady s a).2.drop k) := by rw [hr2]; exact hpw.2.1
  have hpw2 := List.pairwise_append.mp hs2
  have hsub2 : ∀ t ∈ (paReady s a).2, t ∈ (paQ2 s a).items := fun t ht => by rw [← hq.rapp]; exact List.mem_append_right _ ht
  intro u
  rw [hallfin, hall5 u, hall4 u, hall3 u, ha u, pooled_iff, pooled_iff]
  by_cases hu : u.sender = a
  · rw [hu, promoteAcct_pending, hP u, promoteAcct_queue_items, hQ5]
    constructor
    · rintro ⟨h | ⟨h | h, hnf, hng⟩, hnd⟩
      · exact Or.inl (Or.inl h)
      · exact Or.inl (Or.inr h)
      · -- u ∈ Q, not below, not removed, not cut off: it is in the run or in the kept part
        have h1 : u ∈ (paQ1 s a).items := by
          by_cases hlt : u.nonce < s.cnonce a
          · exact absurd (List.mem_filter.mpr ⟨h, by simpa using hlt⟩) hnf
          · exact List.mem_filter.mpr ⟨h, by simpa using hlt⟩
        rcases hfs.cover u h1 with h2 | h2 | h2
        · have h2' : u ∈ (paQ2 s a).items := h2
          rw [← hq.rapp] at h2'
          rcases List.mem_append.mp h2' with h3 | h3
          · exact Or.inl (Or.inl h3)
          · rw [← hr2] at h3
            rcases List.mem_append.mp h3 with h4 | h4
            · exact Or.inr h4
            · exact absurd h4 hnd
        · exact absurd h2 hng
        · have := hfs.nonstrict hwa.qstrict
          rw [this] at h2; cases h2
    · rintro ((h | h) | h)
      · refine ⟨Or.inl h, fun hd => ?_⟩
        have := hpw.2.2 u h u (List.mem_of_mem_drop hd); omega
      · have hnQ : ∀ {l : List Tx}, (∀ x ∈ l, x ∈ (s.queue a).items) → u ∉ l :=
          fun hl hc => hwa.disj u h u (hl u hc) rfl
        refine ⟨Or.inr ⟨Or.inl h, hnQ (fun x hx => (List.mem_filter.mp hx).1), hnQ (fun x hx => (List.mem_filter.mp (hfs.rem_sub x hx)).1)⟩,
                hnQ (fun x hx => (hq.q2sub x (hsub2 x (List.mem_of_mem_drop hx))).1)⟩
      · have h2 : u ∈ (paQ2 s a).items := hsub2 u (List.mem_of_mem_take h)
        have hQ := hq.q2sub u h2
        refine ⟨Or.inr ⟨Or.inr hQ.1, fun hc => ?_, fun hc => ?_⟩, fun hd => ?_⟩
        · have := (List.mem_filter.mp hc).2
          have hlt : u.nonce < s.cnonce a := by simpa using this
          omega
        · have h1 := hfs.rem_unpay u hc
          have h3 := unpayable_false.mpr (hq.q2pay u h2)
          rw [h3] at h1; cases h1
        · have := hpw2.2.2 u h u hd; omega
  · have hno := not_mem_other hw hu
    rw [ht.pother _ hu, ht.qother _ hu]
    constructor
    · rintro ⟨h | ⟨h, _, _⟩, _⟩
      · exact absurd (hf.2.1 u h) hu
      · exact h
    · intro h
      have hnQ : ∀ {l : List Tx}, (∀ x ∈ l, x ∈ (s.queue a).items) → u ∉ l :=
        fun hl hc => hno.2 (hl u hc)
      exact ⟨Or.inr ⟨h, hnQ (fun x hx => (List.mem_filter.mp hx).1), hnQ (fun x hx => (List.mem_filter.mp (hfs.rem_sub x hx)).1)⟩,
             hnQ (fun x hx => (hq.q2sub x (hsub2 x (List.mem_of_mem_drop hx))).1)⟩

/-! ### demoteAcct -/

theorem demoteAcct_allok (g : Bool) {s : Pool} (a : Addr) (hw : WeakAll s) (ha : AllOK s) : AllOK (s.demoteAcct g a) := by
  have hwa := hw.1 a
  have hd := dfacts s a hwa
  have hdf := demoteAcct_facts g a hw
  obtain ⟨hw4, ht4, hp4, _⟩ := dS4_facts a hw
  have hfs := TxL.filter_spec (dP1 s a) (s.balance a) s.maxGas
  have hp1s : Sorted (dP1 s a).items := hwa.psorted.filter _
  -- first enqueue: the strict-mode invalids
  have hown1 : ∀ u ∈ (dG s a).2.1, u.sender = a := fun u hu => hwa.powner u (hd.invsub u hu)
  have hx1 := enqueueAll_exact (s := dS3 s a) (a := a) (us := (dG s a).2.1) hwa.qsorted (hfs.inv_sorted hp1s) hown1
    (fun u hu q hq => fun e => hwa.disj u (hd.invsub u hu) q hq e.symm)
  have hq3 : (dS3 s a).queue a = s.queue a := rfl
  rw [hq3] at hx1
  have hall3 : ∀ u, u ∈ (dS3 s a).all ↔ u ∈ s.all ∧ u ∉ (forward (s.cnonce a) (s.pending a).items).1 ∧ u ∉ (dG s a).1 := by
    intro u
    show u ∈ (s.all.filter _).filter _ ↔ _
    simp only [List.mem_filter, Bool.not_eq_true', decide_eq_false_iff_not, and_assoc]
  -- second enqueue: what the gap check cuts off
  have hw4a := hw4.1 a
  have hsub4 : ∀ t ∈ ((dS4 s a).pending a).items, t ∈ (dG s a).2.2.items := fun t ht => by rwa [hp4] at ht
  have hown2 : ∀ u ∈ ((dS4 s a).pending a).items.drop (dKeep g s a), u.sender = a :=
    fun u hu => hw4a.powner u (List.mem_of_mem_drop hu)
  have hq5 : (dS5 g s a).queue a = (dS4 s a).queue a := rfl
  have hx2 := enqueueAll_exact (s := dS5 g s a) (a := a) (us := ((dS4 s a).pending a).items.drop (dKeep g s a))
    (by rw [hq5]; exact hw4a.qsorted) (hw4a.psorted.drop _) hown2
    (fun u hu q hq => by
      rw [hq5] at hq
      exact fun e => hw4a.disj u (List.mem_of_mem_drop hu) q hq e.symm)
  rw [hq5] at hx2
  have hall5 : (dS5 g s a).all = (dS4 s a).all := rfl
  rw [hall5] at hx2
  have hfinall : (s.demoteAcct g a).all = (dS6 g s a).all := rfl
  have hfinq : (s.demoteAcct g a).queue = (dS6 g s a).queue := rfl
  have hsplit : (dG s a).2.2.items.take (dKeep g s a) ++ (dG s a).2.2.items.drop (dKeep g s a) = (dG s a).2.2.items :=
    List.take_append_drop _ _
  have hs2 : Sorted ((dG s a).2.2.items.take (dKeep g s a) ++ (dG s a).2.2.items.drop (dKeep g s a)) := by
    rw [hsplit]; exact hd.p2sorted
  have hpw := List.pairwise_append.mp hs2
  intro u
  rw [hfinall, pooled_iff, hfinq]
  show u ∈ (enqueueAll (dS5 g s a) _).all ↔ u ∈ ((s.demoteAcct g a).pending u.sender).items ∨ u ∈ ((enqueueAll (dS5 g s a) _).queue u.sender).items
  by_cases hu : u.sender = a
  · rw [hu, hx2.2 u, hdf.items, hx2.1 u]
    show _ ∨ u ∈ (enqueueAll (dS3 s a) _).all ↔ _ ∨ (_ ∨ u ∈ ((enqueueAll (dS3 s a) _).queue a).items)
    rw [hx1.2 u, hx1.1 u, hall3 u, ha u, pooled_iff, hu, hp4]
    constructor
    · rintro (h | h | ⟨h | h, hnf, hng⟩)
      · exact Or.inr (Or.inl h)
      · exact Or.inr (Or.inr (Or.inl h))
      · have h1 : u ∈ (dP1 s a).items := by
          by_cases hlt : u.nonce < s.cnonce a
          · exact absurd (List.mem_filter.mpr ⟨h, by simpa using hlt⟩) hnf
          · exact List.mem_filter.mpr ⟨h, by simpa using hlt⟩
        rcases hfs.cover u h1 with h2 | h2 | h2
        · have h2' : u ∈ (dG s a).2.2.items := h2
          rw [← hsplit] at h2'
          rcases List.mem_append.mp h2' with h3 | h3
          · exact Or.inl h3
          · exact Or.inr (Or.inl h3)
        · exact absurd h2 hng
        · exact Or.inr (Or.inr (Or.inl h2))
      · exact Or.inr (Or.inr (Or.inr h))
    · rintro (h | h | h | h)
      · have h2 : u ∈ (dG s a).2.2.items := List.mem_of_mem_take h
        have hP := hd.p2sub u h2
        refine Or.inr (Or.inr ⟨Or.inl hP.1, fun hc => ?_, fun hc => ?_⟩)
        · have := (List.mem_filter.mp hc).2
          have hlt : u.nonce < s.cnonce a := by simpa using this
          omega
        · have h1 := hfs.rem_unpay u hc
          have h3 := unpayable_false.mpr (hd.p2pay u h2)
          rw [h3] at h1; cases h1
      · exact Or.inl h
      · exact Or.inr (Or.inl h)
      · have hnP : ∀ {l : List Tx}, (∀ x ∈ l, x ∈ (s.pending a).items) → u ∉ l :=
          fun hl hc => hwa.disj u (hl u hc) u h rfl
        exact Or.inr (Or.inr ⟨Or.inr h, hnP (fun x hx => (List.mem_filter.mp hx).1),
          hnP (fun x hx => (List.mem_filter.mp (hfs.rem_sub x hx)).1)⟩)
  · have hno := not_mem_other hw hu
    have hf6 := enqueueAll_facts (dS5 g s a) a _ hown2
    have hf4 := enqueueAll_facts (dS3 s a) a _ hown1
    rw [hdf.touch.pother _ hu, hf6.qother _ hu]
    show _ ↔ _ ∨ u ∈ ((dS4 s a).queue u.sender).items
    rw [hx2.2 u]
    show _ ∨ u ∈ (enqueueAll (dS3 s a) _).all ↔ _ ∨ u ∈ ((enqueueAll (dS3 s a) _).queue u.sender).items
    rw [hx1.2 u, hf4.qother _ hu, hall3 u, ha u, pooled_iff]
    show _ ↔ _ ∨ u ∈ (s.queue u.sender).items
    constructor
    · rintro (h | h | ⟨h, _, _⟩)
      · exact absurd (hown2 u h) hu
      · exact absurd (hown1 u h) hu
      · exact h
    · intro h
      have hnP : ∀ {l : List Tx}, (∀ x ∈ l, x ∈ (s.pending a).items) → u ∉ l :=
        fun hl hc => hno.1 (hl u hc)
      exact Or.inr (Or.inr ⟨h, hnP (fun x hx => (List.mem_filter.mp hx).1),
        hnP (fun x hx => (List.mem_filter.mp (hfs.rem_sub x hx)).1)⟩)

/-! ### the two insertion branches of add -/

theorem TxL.add_old {l : TxL} {t o : Tx} {b : Nat} (hg : getN l.items t.nonce = some o) (h : (l.add t b).1 = true) :
    (l.add t b).2.1 = some o := by
  unfold TxL.add at h ⊢
  rw [hg] at h ⊢
  simp only at h ⊢
  split
  · rfl
  · rename_i hb; rw [if_neg hb] at h; cases h

theorem TxL.add_old_none {l : TxL} {t : Tx} {b : Nat} (hg : getN l.items t.nonce = none) : (l.add t b).2.1 = none := by
  unfold TxL.add; rw [hg]

theorem replace_allok {s : Pool} {t : Tx} (hw : WeakAll s) (ha : AllOK s)
    (hov : (s.pending t.sender).overlaps t = true) (hins : ((s.pending t.sender).add t s.cfg.priceBump).1 = true) :
    AllOK { s with pending := upd s.pending t.sender ((s.pending t.sender).add t s.cfg.priceBump).2.2,
                   all := insertAll t (match ((s.pending t.sender).add t s.cfg.priceBump).2.1 with
                     | some o => delAll o s.all
                     | none => s.all) } := by
  have hwa := hw.1 t.sender
  obtain ⟨o, ho⟩ : ∃ o, getN (s.pending t.sender).items t.nonce = some o := by
    cases hg : getN (s.pending t.sender).items t.nonce with
    | none => have := overlaps_true hov; rw [hg] at this; cases this
    | some o => exact ⟨o, rfl⟩
  have hoP := getN_some ho
  have hspec := (TxL.add_spec (s.pending t.sender) t s.cfg.priceBump hwa.psorted).1 hins
  have hold := TxL.add_old ho hins
  intro u
  show u ∈ insertAll t _ ↔ u ∈ (upd s.pending t.sender _ u.sender).items ∨ u ∈ (s.queue u.sender).items
  rw [hold, mem_insertAll, mem_delAll, ha u, pooled_iff]
  by_cases hu : u.sender = t.sender
  · rw [hu, upd_same, hspec.1 u]
    constructor
    · rintro (h | ⟨h | h, hne⟩)
      · exact Or.inl (Or.inl h)
      · exact Or.inl (Or.inr ⟨h, fun e => hne (hwa.psorted.nonce_inj h hoP.1 (by omega))⟩)
      · exact Or.inr h
    · rintro ((h | ⟨h, hne⟩) | h)
      · exact Or.inl h
      · exact Or.inr ⟨Or.inl h, fun e => by subst e; omega⟩
      · exact Or.inr ⟨Or.inr h, fun e => by subst e; exact hwa.disj _ hoP.1 _ h rfl⟩
  · rw [upd_other _ _ hu]
    constructor
    · rintro (h | ⟨h, _⟩)
      · subst h; exact absurd rfl hu
      · exact h
    · intro h
      exact Or.inr ⟨h, fun e => hu (by rw [e]; exact hwa.powner o hoP.1)⟩

theorem enqueueTx_allok {s : Pool} {t : Tx} (hw : WeakAll s) (ha : AllOK s)
    (hfree : ∀ p ∈ (s.pending t.sender).items, p.nonce ≠ t.nonce) : AllOK (s.enqueueTx t).2.2 := by
  have hwa := hw.1 t.sender
  unfold Pool.enqueueTx
  simp only
  split
  · exact ha
  · rename_i hins
    have hins' : ((s.queue t.sender).add t s.cfg.priceBump).1 = true := by simpa using hins
    have hspec := (TxL.add_spec (s.queue t.sender) t s.cfg.priceBump hwa.qsorted).1 hins'
    intro u
    show u ∈ insertAll t _ ↔ u ∈ (s.pending u.sender).items ∨ u ∈ (upd s.queue t.sender _ u.sender).items
    rw [mem_insertAll]
    by_cases hu : u.sender = t.sender
    · rw [hu, upd_same, hspec.1 u]
      cases hg : getN (s.queue t.sender).items t.nonce with
      | none =>
        rw [TxL.add_old_none hg]
        simp only
        rw [ha u, pooled_iff, hu]
        have hfq := getN_none.mp hg
        constructor
        · rintro (h | h | h)
          · exact Or.inr (Or.inl h)
          · exact Or.inl h
          · exact Or.inr (Or.inr ⟨h, hfq u h⟩)
        · rintro (h | h | ⟨h, _⟩)
          · exact Or.inr (Or.inl h)
          · exact Or.inl h
          · exact Or.inr (Or.inr h)
      | some o =>
        rw [TxL.add_old hg hins']
        simp only
        rw [mem_delAll, ha u, pooled_iff, hu]
        have hoQ := getN_some hg
        constructor
        · rintro (h | ⟨h | h, hne⟩)
          · exact Or.inr (Or.inl h)
          · exact Or.inl h
          · exact Or.inr (Or.inr ⟨h, fun e => hne (hwa.qsorted.nonce_inj h hoQ.1 (by omega))⟩)
        · rintro (h | h | ⟨h, hne⟩)
          · exact Or.inr ⟨Or.inl h, fun e => by subst e; exact hfree _ h hoQ.2⟩
          · exact Or.inl h
          · exact Or.inr ⟨Or.inr h, fun e => by subst e; omega⟩
    · rw [upd_other _ _ hu]
      cases hg : getN (s.queue t.sender).items t.nonce with
      | none =>
        rw [TxL.add_old_none hg]
        simp only
        rw [ha u, pooled_iff]
        constructor
        · rintro (h | h)
          · subst h; exact absurd rfl hu
          · exact h
        · exact Or.inr
      | some o =>
        rw [TxL.add_old hg hins']
        simp only
        rw [mem_delAll, ha u, pooled_iff]
        have hoQ := getN_some hg
        constructor
        · rintro (h | ⟨h, _⟩)
          · subst h; exact absurd rfl hu
          · exact h
        · intro h
          exact Or.inr ⟨h, fun e => hu (by rw [e]; exact hwa.qowner o hoQ.1)⟩

/-! ### closure -/

/-- `WeakAll ∧ AllOK` is kept by the primitive moves and by the insertion branches -/
def WA (s : Pool) : Prop := WeakAll s ∧ AllOK s

theorem addClosed_wa : AddClosed WA :=
  { rem := fun _ t h => ⟨removeTx_weak t h.1, removeTx_allok t h.1 h.2⟩
    cap := fun _ a h => ⟨capOne_weak a h.1, capOne_allok a h.1 h.2⟩
    acct := fun _ a h => ⟨promoteAcct_weak a h.1, promoteAcct_allok a h.1 h.2⟩
    replace := fun s t h _ _ hov hins => ⟨(replace_weak _ h.1 hov hins).1, replace_allok h.1 h.2 hov hins⟩
    enqueue := fun s t h _ hov => ⟨enqueueTx_weak h.1 (overlaps_false hov), enqueueTx_allok h.1 h.2 (overlaps_false hov)⟩
    locals := fun _ _ h => h }

theorem AddClosed.and {I J : Pool → Prop} (hi : AddClosed I) (hj : AddClosed J) : AddClosed (fun s => I s ∧ J s) :=
  { rem := fun s t h => ⟨hi.rem s t h.1, hj.rem s t h.2⟩
    cap := fun s a h => ⟨hi.cap s a h.1, hj.cap s a h.2⟩
    acct := fun s a h => ⟨hi.acct s a h.1, hj.acct s a h.2⟩
    replace := fun s t h h1 h2 h3 h4 => ⟨hi.replace s t h.1 h1 h2 h3 h4, hj.replace s t h.2 h1 h2 h3 h4⟩
    enqueue := fun s t h h1 h2 => ⟨hi.enqueue s t h.1 h1 h2, hj.enqueue s t h.2 h1 h2⟩
    locals := fun s L h => ⟨hi.locals s L h.1, hj.locals s L h.2⟩ }

theorem syncNonces_all (s : Pool) : s.syncNonces.all = s.all ∧ s.syncNonces.pending = s.pending ∧ s.syncNonces.queue = s.queue := by
  rw [syncNonces_eq]
  have : ∀ (l : List Addr) (s : Pool), (l.foldl syncStep s).all = s.all := by
    intro l
    induction l with
    | nil => intro s; rfl
    | cons a rest ih =>
      intro s
      simp only [List.foldl_cons]
      rw [ih]
      unfold syncStep; split <;> rfl
  obtain ⟨h1, h2, _⟩ := syncNonces_spec s.accts s
  exact ⟨this _ _, h1, h2⟩

/-- `all` stays exactly pending ∪ queue across a reset (both demotion variants) -/
theorem reset_allok (g : Bool) (s : Pool) (v : View) (oldNum newNum : Nat) (reorg : Bool) (disc inc : List Tx)
    (o : ResetOracle) (h : Good s) (ha : AllOK s) : AllOK (s.reset g v oldNum newNum reorg disc inc o) := by
  unfold Pool.reset
  simp only
  have h0 : Phase ({ s with cnonce := v.nonce, balance := v.balance, maxGas := v.maxGas, pnonce := v.nonce } : Pool) ∧
      WA ({ s with cnonce := v.nonce, balance := v.balance, maxGas := v.maxGas, pnonce := v.nonce } : Pool) :=
    ⟨⟨h.weakAll, fun a => Or.inl (Nat.le_refl _)⟩, h.weakAll, ha⟩
  generalize ({ s with cnonce := v.nonce, balance := v.balance, maxGas := v.maxGas, pnonce := v.nonce } : Pool) = s0 at h0 ⊢
  generalize (if (reorg && decide ((if oldNum ≤ newNum then newNum - oldNum else oldNum - newNum) ≤ 64)) = true
      then txDifference disc inc else []) = reinject
  have hc := addClosed_phase.and addClosed_wa
  have h1 : Phase (if reinject.isEmpty = true then s0 else (s0.addTxs reinject false o.victims o.slots1 o.qorder1).2) ∧
      WA (if reinject.isEmpty = true then s0 else (s0.addTxs reinject false o.victims o.slots1 o.qorder1).2) := by
    split
    · exact h0
    · exact addTxs_pres hc _ _ _ _ _ _ h0
  generalize (if reinject.isEmpty = true then s0 else (s0.addTxs reinject false o.victims o.slots1 o.qorder1).2) = s1 at h1 ⊢
  have h2 : Phase (s1.demoteUnexecutables g) ∧ WA (s1.demoteUnexecutables g) := by
    unfold Pool.demoteUnexecutables
    apply foldl_pres (fun s => Phase s ∧ WA s) _ _ _ _ h1
    intro s a hs
    exact ⟨demoteAcct_phase g a hs.1, (demoteAcct_phase g a hs.1).1, demoteAcct_allok g a hs.1.1 hs.2.2⟩
  have h3 : WA (s1.demoteUnexecutables g).syncNonces := by
    obtain ⟨e1, e2, e3⟩ := syncNonces_all (s1.demoteUnexecutables g)
    obtain ⟨_, _, e4, _⟩ := syncNonces_spec (s1.demoteUnexecutables g).accts (s1.demoteUnexecutables g)
    refine ⟨h2.2.1.congr e2 e3 (by rw [syncNonces_eq]; exact e4), fun t => ?_⟩
    rw [e1, pooled_iff, e2, e3]; exact h2.2.2 t
  exact (promoteExecutables_pres addClosed_wa.toClosed _ none o.slots2 o.qorder2 h3).2

end Aqv.TxPool

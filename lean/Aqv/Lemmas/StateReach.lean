/-
  Aqv.Lemmas.StateReach — the hypotheses of `revert_exact` (TxInv, RevsOK) hold in every state reachable from a freshly
  opened StateDB by a history whose Finalise calls all use the same delete-empty flag.
-/
import Aqv.Lemmas.StateBlock
namespace Aqv.State

/-- every tombstone is one that `Finalise d` would delete again (so re-finalising it is harmless). -/
def TombD (d : Bool) (s : SDB) : Prop := ∀ a o, s.objs a = some o → o.deleted = true → delCond d o = true

/-- `Finalise d`/`Commit d` does not re-insert a deleted object into the trie. -/
def TombOK (d : Bool) (s : SDB) : Prop := ∀ a o, a ∈ s.dirty → s.objs a = some o → o.deleted = true → delCond d o = true

theorem TombD.ok {d : Bool} {s : SDB} (h : TombD d s) : TombOK d s := fun a o _ ho hd => h a o ho hd

structure Reach (d : Bool) (s : SDB) : Prop where
  inv : TxInv s
  revs : RevsOK s
  tomb : TombD d s

theorem reach_fresh (d : Bool) (c : Addr → Option Acct) : Reach d (fresh c) :=
  ⟨⟨fun a o h => by simp [fresh] at h, fun e h => by simp [fresh] at h⟩, fun r h => by simp [fresh] at h,
   fun a o h => by simp [fresh] at h⟩

theorem reach_stepTx {d : Bool} {s t : SDB} (h : Reach d s) (op : TxOp) (hst : stepTx op s = some t) : Reach d t := by
  cases op with
  | mutate m =>
    simp only [stepTx, Option.some.injEq] at hst; subst hst
    have he := ext_applyMut m s h.inv.coh
    refine ⟨he.txinv h.inv, ?_, fun a o ho hd => ?_⟩
    · intro r hr; rw [he.revs] at hr; rw [he.nextId]; exact h.revs r hr
    · obtain ⟨h1, h2⟩ := he.tomb a o ⟨ho, hd⟩; exact h.tomb a o h1 h2
  | snap =>
    simp only [stepTx, Option.some.injEq] at hst; subst hst
    refine ⟨⟨h.inv.coh, h.inv.jok⟩, ?_, h.tomb⟩
    intro r hr
    simp only [snapshot] at hr ⊢
    rcases List.mem_cons.mp hr with h' | h'
    · subst h'; simp
    · have := h.revs r h'; omega
  | revert id =>
    simp only [stepTx] at hst
    obtain ⟨r, rest, hdw, _, ht⟩ := revertTo_eq hst
    refine ⟨txinv_revertTo h.inv hst, ?_, ?_⟩
    · intro x hx
      have hx' : x ∈ rest := by rw [ht] at hx; exact hx
      have : x ∈ r :: rest := List.mem_cons_of_mem _ hx'
      rw [← hdw] at this
      have := h.revs x (mem_of_mem_dropWhile _ _ _ this)
      rw [ht]; simpa using this
    · intro a o ho hd
      have : Tomb (undoN (s.journal.length - r.2) s) a o := by rw [ht] at ho; exact ⟨ho, hd⟩
      obtain ⟨h1, h2⟩ := tomb_undoN _ h.inv.jok this
      exact h.tomb a o h1 h2

theorem delCond_flush (d : Bool) (o : Obj) : delCond d o.flush = delCond d o := rfl
theorem delCond_deleted (d : Bool) (o : Obj) (b : Bool) : delCond d { o with deleted := b } = delCond d o := rfl

theorem coherent_finalise {d : Bool} {s : SDB} (hc : Coherent s) (ht : TombOK d s) : Coherent (finalise d s) := by
  intro a o ho hd
  rw [finalise_objs] at ho
  rw [finalise_trie]
  by_cases ha : a ∈ s.dirty
  · simp only [ha, if_true] at ho ⊢
    cases hso : s.objs a with
    | none => simp [hso] at ho
    | some q =>
      simp only [hso, Option.map, Option.some.injEq] at ho
      simp only [finLeaf]
      by_cases hdc : delCond d q = true
      · simp [hdc]
      · exfalso
        simp only [finObj, hdc] at ho
        subst ho
        exact hdc (ht a q ha hso hd)
  · simp only [ha, if_false] at ho ⊢
    exact hc a o ho hd

theorem reach_finalise {d : Bool} {s : SDB} (h : Reach d s) : Reach d (finalise d s) := by
  refine ⟨⟨coherent_finalise h.inv.coh h.tomb.ok, fun e he => by simp [finalise] at he⟩, fun r hr => by simp [finalise] at hr, ?_⟩
  intro a o ho hd
  rw [finalise_objs] at ho
  by_cases ha : a ∈ s.dirty
  · simp only [ha, if_true] at ho
    cases hso : s.objs a with
    | none => simp [hso] at ho
    | some q =>
      simp only [hso, Option.map, Option.some.injEq, finObj] at ho
      by_cases hdc : delCond d q = true
      · simp only [hdc, if_true] at ho; subst ho; exact hdc
      · simp only [hdc] at ho; subst ho
        exact h.tomb a q hso hd
  · simp only [ha, if_false] at ho
    exact h.tomb a o ho hd

/-- block-level histories whose Finalise calls all use the flag `d` (Commit+Reset may use any flag). -/
def Uniform (d : Bool) (ops : List Op) : Prop := ∀ d', Op.finalise d' ∈ ops → d' = d

theorem reach_run {d : Bool} : ∀ (ops : List Op) (s t : SDB), Uniform d ops → Reach d s → run ops s = some t → Reach d t
  | [], s, t, _, h, hr => by simp only [run, Option.some.injEq] at hr; subst hr; exact h
  | op :: ops, s, t, hu, h, hr => by
    simp only [run] at hr
    cases hst : step op s with
    | none => simp [hst] at hr
    | some s1 =>
      simp only [hst] at hr
      refine reach_run ops s1 t (fun d' hd' => hu d' (List.mem_cons_of_mem _ hd')) ?_ hr
      cases op with
      | tx o => exact reach_stepTx h o hst
      | prepare th =>
        simp only [step, Option.some.injEq] at hst; subst hst
        exact ⟨⟨h.inv.coh, h.inv.jok⟩, h.revs, h.tomb⟩
      | finalise d' =>
        have : d' = d := hu d' List.mem_cons_self
        subst this
        simp only [step, Option.some.injEq] at hst; subst hst
        exact reach_finalise h
      | commitReset d' =>
        simp only [step, Option.some.injEq] at hst; subst hst
        exact ⟨⟨fun a o h => by simp [reset, fresh] at h, fun e h => by simp [reset, fresh] at h⟩,
          fun r h => by simp [reset, fresh] at h, fun a o h => by simp [reset, fresh] at h⟩

end Aqv.State

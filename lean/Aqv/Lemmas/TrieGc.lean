/-
  Aqv.Lemmas.TrieGc — the reference-counting invariant of the node store: `parents n` = outstanding root pins of `n`
  + present parents with a registered edge to `n` (+ pending dereferences during a cascade); hence nothing reachable from
  a pinned root is ever evicted.
-/
import Aqv.Model.TrieGc
namespace Aqv.Gc

variable {α : Type} [DecidableEq α]

theorem dedup_nodup : ∀ (l : List α), (dedup l).Nodup
  | [] => List.nodup_nil
  | x :: xs => by
    simp only [dedup]
    split
    · exact dedup_nodup xs
    · next h => exact List.nodup_cons.2 ⟨h, dedup_nodup xs⟩

theorem mem_dedup : ∀ {l : List α} {a : α}, a ∈ dedup l ↔ a ∈ l
  | [], a => by simp [dedup]
  | x :: xs, a => by
    simp only [dedup]
    split
    · next h =>
      rw [mem_dedup (l := xs), List.mem_cons]
      constructor
      · exact Or.inr
      · rintro (rfl | h')
        · exact mem_dedup.1 h
        · exact h'
    · simp [mem_dedup (l := xs)]

/-- number of present parents with a registered edge to `n`. -/
def inE (s : Store α) (n : α) : Nat := (s.nodes.filter fun p => s.edge p n).length

/-- the invariant, with a stack `W` of dereferences still to be performed. -/
structure GInv (K : α → List α) (s : Store α) (W : List α) : Prop where
  nodup : s.nodes.Nodup
  count : ∀ n ∈ s.nodes, s.parents n = s.pins n + (inE s n : Int) + (W.count n : Int)
  pins_nonneg : ∀ n, 0 ≤ s.pins n
  absent_pins : ∀ n, n ∉ s.nodes → s.pins n = 0
  closed : ∀ p ∈ s.nodes, ∀ c, s.edge p c = true → c ∈ s.nodes
  kids_eq : ∀ n ∈ s.nodes, s.kids n = dedup (K n)
  edge_kids : ∀ p ∈ s.nodes, ∀ c, s.edge p c = true → c ∈ s.kids p

theorem filter_erase_length {l : List α} (hl : l.Nodup) {c : α} (hc : c ∈ l) (f : α → Bool) :
    ((l.erase c).filter f).length + (if f c then 1 else 0) = (l.filter f).length := by
  induction l with
  | nil => cases hc
  | cons x l ih =>
    have hx := (List.nodup_cons.1 hl).1
    have hl' := (List.nodup_cons.1 hl).2
    by_cases hxc : x = c
    · subst hxc
      simp only [List.erase_cons_head, List.filter_cons]
      split <;> simp
    · have hc' : c ∈ l := by
        cases hc with
        | head => exact absurd rfl hxc
        | tail _ h => exact h
      have := ih hl' hc'
      rw [List.erase_cons_tail (by simpa using hxc)]
      simp only [List.filter_cons]
      by_cases hfx : f x = true
      · simp only [hfx, if_true, List.length_cons]; omega
      · simp only [hfx]; exact this

omit [DecidableEq α] in
theorem filter_length_congr {l : List α} {f g : α → Bool} (h : ∀ x ∈ l, f x = g x) :
    (l.filter f).length = (l.filter g).length := by
  rw [List.filter_congr h]

/-- changing the predicate from false to true at exactly one present element adds one. -/
theorem filter_length_flip {l : List α} (hl : l.Nodup) {p : α} (hp : p ∈ l) {f g : α → Bool}
    (hf : f p = false) (hg : g p = true) (h : ∀ x, x ≠ p → f x = g x) :
    (l.filter g).length = (l.filter f).length + 1 := by
  have h1 := filter_erase_length hl hp f
  have h2 := filter_erase_length hl hp g
  have h3 : ((l.erase p).filter f).length = ((l.erase p).filter g).length := by
    apply filter_length_congr
    intro x hx
    exact h x ((hl.mem_erase_iff.1 hx).1)
  simp only [hf, hg] at h1 h2
  simp at h1 h2
  omega

theorem derefLoop_inv (K : α → List α) : ∀ (f : Nat) (W : List α) (s s' : Store α),
    GInv K s W → derefLoop f W s = some s' → GInv K s' [] := by
  intro f
  induction f with
  | zero =>
    intro W s s' hi h
    cases W with
    | nil => simp [derefLoop] at h; subst h; exact hi
    | cons c w => simp [derefLoop] at h
  | succ f ih =>
    intro W s s' hi h
    cases W with
    | nil => simp [derefLoop] at h; subst h; exact hi
    | cons c w =>
      simp only [derefLoop] at h
      by_cases hc : c ∈ s.nodes
      · simp only [hc, not_true_eq_false, if_false] at h
        have hcount := hi.count c hc
        simp only [List.count_cons_self] at hcount
        by_cases hz : s.parents c - 1 = 0
        · simp only [hz, if_true] at h
          apply ih _ _ _ _ h
          have hE0 : inE s c = 0 := by
            have := hi.pins_nonneg c
            omega
          have hp0 : s.pins c = 0 := by
            have := hi.pins_nonneg c
            omega
          have hw0 : w.count c = 0 := by
            have := hi.pins_nonneg c
            omega
          have hnoedge : ∀ p ∈ s.nodes, s.edge p c = false := by
            intro p hp
            cases he : s.edge p c with
            | false => rfl
            | true =>
              have : p ∈ s.nodes.filter fun p => s.edge p c := List.mem_filter.2 ⟨hp, he⟩
              have hlen : 0 < inE s c := List.length_pos_of_mem this
              omega
          refine ⟨hi.nodup.erase c, ?_, hi.pins_nonneg, ?_, ?_, ?_, ?_⟩
          · intro n hn
            obtain ⟨hnc, hn'⟩ := hi.nodup.mem_erase_iff.1 hn
            have hcn := hi.count n hn'
            simp only [List.count_cons, beq_iff_eq] at hcn
            have hcn2 : (if c = n then 1 else 0) = 0 := by simp [Ne.symm hnc]
            have hE := filter_erase_length hi.nodup hc (fun p => s.edge p n)
            simp only [inE] at hcn ⊢
            rw [List.count_append]
            have hk : ((s.kids c).filter (s.edge c)).count n = if s.edge c n then 1 else 0 := by
              have hnd : ((s.kids c).filter (s.edge c)).Nodup := by
                rw [hi.kids_eq c hc]; exact (dedup_nodup _).filter _
              rw [hnd.count]
              by_cases he : s.edge c n = true
              · have := hi.edge_kids c hc n he
                simp [List.mem_filter, this, he]
              · simp [List.mem_filter, he]
            rw [hk]
            simp only [hnc, if_false]
            split at hE <;> simp_all <;> omega
          · intro n hn
            by_cases hnc : n = c
            · subst hnc; exact hp0
            · apply hi.absent_pins
              intro hn'
              exact hn (hi.nodup.mem_erase_iff.2 ⟨hnc, hn'⟩)
          · intro p hp d hd
            obtain ⟨hpc, hp'⟩ := hi.nodup.mem_erase_iff.1 hp
            have hd' := hi.closed p hp' d hd
            apply hi.nodup.mem_erase_iff.2
            refine ⟨?_, hd'⟩
            intro e; subst e
            rw [hnoedge p hp'] at hd; cases hd
          · intro n hn
            exact hi.kids_eq n (hi.nodup.mem_erase_iff.1 hn).2
          · intro p hp d hd
            exact hi.edge_kids p (hi.nodup.mem_erase_iff.1 hp).2 d hd
        · simp only [hz, if_false] at h
          apply ih _ _ _ _ h
          refine ⟨hi.nodup, ?_, hi.pins_nonneg, hi.absent_pins, hi.closed, hi.kids_eq, hi.edge_kids⟩
          intro n hn
          have hcn := hi.count n hn
          simp only [List.count_cons, beq_iff_eq] at hcn
          simp only [inE] at hcn ⊢
          by_cases hnc : n = c
          · subst hnc; simp at hcn ⊢; omega
          · have : ¬ c = n := fun e => hnc e.symm
            simp [hnc, this] at hcn ⊢; omega
      · simp only [hc, not_false_eq_true, if_true] at h
        apply ih _ _ _ _ h
        refine ⟨hi.nodup, ?_, hi.pins_nonneg, hi.absent_pins, hi.closed, hi.kids_eq, hi.edge_kids⟩
        intro n hn
        have hcn := hi.count n hn
        have hne : ¬ c = n := by intro e; subst e; exact hc hn
        simp only [List.count_cons, beq_iff_eq, hne, if_false] at hcn
        simpa using hcn

theorem ginv_empty (K : α → List α) : GInv K (Store.empty : Store α) [] where
  nodup := List.nodup_nil
  count := fun n h => by cases h
  pins_nonneg := fun _ => Int.le_refl _
  absent_pins := fun _ _ => rfl
  closed := fun p h => by cases h
  kids_eq := fun n h => by cases h
  edge_kids := fun p h => by cases h

theorem insertNode_inv (K : α → List α) {s : Store α} (hi : GInv K s []) (h : α) :
    GInv K (insertNode s h (K h)) [] ∧ h ∈ (insertNode s h (K h)).nodes := by
  unfold insertNode
  by_cases hh : h ∈ s.nodes
  · rw [if_pos hh]; exact ⟨hi, hh⟩
  · rw [if_neg hh]
    refine ⟨⟨List.nodup_cons.2 ⟨hh, hi.nodup⟩, ?_, hi.pins_nonneg, ?_, ?_, ?_, ?_⟩, List.mem_cons_self ..⟩
    · intro n hn
      simp only [inE, List.count_nil, Int.natCast_zero, Int.add_zero]
      have hfil : ∀ m, (List.filter (fun p => if p = h then false else s.edge p m) (h :: s.nodes)).length =
          (List.filter (fun p => s.edge p m) s.nodes).length := by
        intro m
        simp only [List.filter_cons, if_true, Bool.false_eq_true, if_false]
        apply filter_length_congr
        intro x hx
        have : x ≠ h := fun e => hh (e ▸ hx)
        simp [this]
      rw [hfil]
      by_cases hnh : n = h
      · subst hnh
        simp only [if_true]
        have h0 : (List.filter (fun p => s.edge p n) s.nodes).length = 0 := by
          rw [List.length_eq_zero_iff, List.filter_eq_nil_iff]
          intro p hp he
          exact hh (hi.closed p hp n he)
        rw [h0, hi.absent_pins n hh]; rfl
      · simp only [hnh, if_false]
        have hn' : n ∈ s.nodes := by
          cases hn with
          | head => exact absurd rfl hnh
          | tail _ h' => exact h'
        have := hi.count n hn'
        simpa [inE] using this
    · intro n hn
      apply hi.absent_pins
      intro h'; exact hn (List.mem_cons_of_mem _ h')
    · intro p hp c hc
      by_cases hph : p = h
      · subst hph; simp at hc
      · simp only [hph, if_false] at hc
        have hp' : p ∈ s.nodes := by
          cases hp with
          | head => exact absurd rfl hph
          | tail _ h' => exact h'
        exact List.mem_cons_of_mem _ (hi.closed p hp' c hc)
    · intro n hn
      by_cases hnh : n = h
      · subst hnh; simp
      · simp only [hnh, if_false]
        cases hn with
        | head => exact absurd rfl hnh
        | tail _ h' => exact hi.kids_eq n h'
    · intro p hp c hc
      by_cases hph : p = h
      · subst hph; simp at hc
      · simp only [hph, if_false] at hc ⊢
        cases hp with
        | head => exact absurd rfl hph
        | tail _ h' => exact hi.edge_kids p h' c hc

theorem referenceNode_inv (K : α → List α) {s : Store α} (hi : GInv K s []) {c p : α} (hp : p ∈ s.nodes)
    (hck : c ∈ s.kids p) : GInv K (referenceNode s c p) [] ∧ (referenceNode s c p).nodes = s.nodes ∧
      (referenceNode s c p).kids = s.kids := by
  unfold referenceNode
  by_cases hc : c ∈ s.nodes
  · by_cases he : s.edge p c = true
    · rw [if_neg (fun h => h hc), if_pos he]; exact ⟨hi, rfl, rfl⟩
    · rw [if_neg (fun h => h hc), if_neg he]
      refine ⟨⟨hi.nodup, ?_, hi.pins_nonneg, hi.absent_pins, ?_, hi.kids_eq, ?_⟩, rfl, rfl⟩
      · intro n hn
        have hcn := hi.count n hn
        simp only [inE, List.count_nil, Int.natCast_zero, Int.add_zero] at hcn ⊢
        by_cases hnc : n = c
        · subst hnc
          simp only [if_true]
          have := filter_length_flip hi.nodup hp (f := fun p' => s.edge p' n)
            (g := fun p' => if p' = p ∧ n = n then true else s.edge p' n) (by simpa using he) (by simp)
            (by intro x hx; simp [hx])
          simp only [and_true] at this ⊢
          rw [this]; simp; omega
        · simp only [hnc, if_false]
          have : (List.filter (fun p' => if p' = p ∧ n = c then true else s.edge p' n) s.nodes).length =
              (List.filter (fun p' => s.edge p' n) s.nodes).length := by
            apply filter_length_congr; intro x _; simp [hnc]
          simp only [hnc, and_false] at this ⊢
          rw [this]; exact hcn
      · intro p' hp' c' hc'
        by_cases h : p' = p ∧ c' = c
        · rw [h.2]; exact hc
        · simp only [h, if_false] at hc'
          exact hi.closed p' hp' c' hc'
      · intro p' hp' c' hc'
        by_cases h : p' = p ∧ c' = c
        · rw [h.1, h.2]; exact hck
        · simp only [h, if_false] at hc'
          exact hi.edge_kids p' hp' c' hc'
  · rw [if_pos hc]; exact ⟨hi, rfl, rfl⟩

theorem storeNode_inv (K : α → List α) {s : Store α} (hi : GInv K s []) (h : α) :
    GInv K (storeNode s h (K h)) [] := by
  unfold storeNode
  obtain ⟨h0, hmem⟩ := insertNode_inv K hi h
  have hk : (insertNode s h (K h)).kids h = dedup (K h) := h0.kids_eq h hmem
  -- fold over the distinct children
  have : ∀ (l : List α) (s₀ : Store α), GInv K s₀ [] → h ∈ s₀.nodes → (∀ c ∈ l, c ∈ s₀.kids h) →
      GInv K (l.foldl (fun s c => referenceNode s c h) s₀) [] := by
    intro l
    induction l with
    | nil => intro s₀ h₀ _ _; exact h₀
    | cons c l ih =>
      intro s₀ h₀ hm hl
      obtain ⟨h1, e1, e2⟩ := referenceNode_inv K h₀ hm (hl c (List.mem_cons_self ..))
      apply ih _ h1 (by rw [e1]; exact hm)
      intro c' hc'
      rw [e2]; exact hl c' (List.mem_cons_of_mem _ hc')
  exact this _ _ h0 hmem (fun c hc => by rw [hk]; exact hc)

theorem pin_inv (K : α → List α) {s : Store α} (hi : GInv K s []) (r : α) : GInv K (pin s r) [] := by
  unfold pin
  by_cases hr : r ∈ s.nodes
  · simp only [hr, not_true_eq_false, if_false]
    refine ⟨hi.nodup, ?_, ?_, ?_, hi.closed, hi.kids_eq, hi.edge_kids⟩
    · intro n hn
      have := hi.count n hn
      simp only [inE] at this ⊢
      by_cases hnr : n = r
      · subst hnr; simp at this ⊢; omega
      · simp [hnr] at this ⊢; exact this
    · intro n
      have := hi.pins_nonneg n
      by_cases hnr : n = r
      · subst hnr; simp; omega
      · simp [hnr]; exact this
    · intro n hn
      have hnr : n ≠ r := fun e => hn (e ▸ hr)
      simp [hnr]; exact hi.absent_pins n hn
  · simp only [hr, not_false_eq_true, if_true]; exact hi

theorem unpin_inv (K : α → List α) {s s' : Store α} (hi : GInv K s []) {r : α} (hp : 1 ≤ s.pins r) {fuel : Nat}
    (h : unpin fuel s r = some s') : GInv K s' [] := by
  unfold unpin at h
  apply derefLoop_inv K fuel [r] _ s' _ h
  have hr : r ∈ s.nodes := by
    apply Classical.byContradiction
    intro hn
    have := hi.absent_pins r hn
    omega
  refine ⟨hi.nodup, ?_, ?_, ?_, hi.closed, hi.kids_eq, hi.edge_kids⟩
  · intro n hn
    have := hi.count n hn
    simp only [inE, List.count_nil, Int.natCast_zero, Int.add_zero] at this
    simp only [inE, List.count_cons, List.count_nil, beq_iff_eq]
    by_cases hnr : n = r
    · subst hnr; simp; omega
    · have : ¬ r = n := fun e => hnr e.symm
      simp [hnr, this]; assumption
  · intro n
    have := hi.pins_nonneg n
    by_cases hnr : n = r
    · subst hnr; simp; omega
    · simp [hnr]; exact this
  · intro n hn
    have hnr : n ≠ r := fun e => hn (e ▸ hr)
    simp [hnr]; exact hi.absent_pins n hn

/-- an operation is legal: a node is always stored with the child list its content determines, and only an outstanding
    pin is released. -/
def Legal (K : α → List α) (s : Store α) : GcOp α → Prop
  | .store h ks => ks = K h
  | .pin _ => True
  | .unpin r => 1 ≤ s.pins r

def LegalRun (K : α → List α) (fuel : Nat) : List (GcOp α) → Store α → Prop
  | [], _ => True
  | op :: ops, s => Legal K s op ∧ ∀ s', gcStep fuel s op = some s' → LegalRun K fuel ops s'

theorem gcRun_inv (K : α → List α) (fuel : Nat) : ∀ (ops : List (GcOp α)) (s s' : Store α), GInv K s [] →
    LegalRun K fuel ops s → gcRun fuel ops s = some s' → GInv K s' [] := by
  intro ops
  induction ops with
  | nil => intro s s' hi _ h; simp [gcRun] at h; subst h; exact hi
  | cons op ops ih =>
    intro s s' hi hl h
    simp only [gcRun] at h
    cases hs : gcStep fuel s op with
    | none => rw [hs] at h; cases h
    | some s₁ =>
      rw [hs] at h
      have hl' := hl.2 s₁ hs
      apply ih s₁ s' _ hl' h
      cases op with
      | store hh ks =>
        have hk : ks = K hh := hl.1
        subst hk
        simp only [gcStep, Option.some.injEq] at hs
        subst hs; exact storeNode_inv K hi hh
      | pin r =>
        simp only [gcStep, Option.some.injEq] at hs
        subst hs; exact pin_inv K hi r
      | unpin r => exact unpin_inv K hi hl.1 hs

/-- `d` is reachable from `r` along registered child references. -/
inductive Desc (s : Store α) : α → α → Prop
  | refl (r : α) : Desc s r r
  | step {r m d : α} : Desc s r m → s.edge m d = true → Desc s r d

theorem ginv_keeps {K : α → List α} {s : Store α} (hi : GInv K s []) {r : α} (hp : 1 ≤ s.pins r) :
    ∀ d, Desc s r d → d ∈ s.nodes := by
  intro d hd
  induction hd with
  | refl =>
    apply Classical.byContradiction
    intro hn
    have := hi.absent_pins r hn
    omega
  | step _ he ih => exact hi.closed _ ih _ he


end Aqv.Gc

/-
  Aqv.Lemmas.EvmTable — helper lemmas for property C08: the generated instruction tables, decoded by function name
  (`implEntry`), are the hand-written specification tables (`specEntry`), hence the two interpreters look up the same entry.
-/
import Aqv.Lemmas.EvmData
namespace Aqv.Evm
open Aqv Aqv.Big Aqv.Gen.VmTable

theorem tables_entries_agree : ∀ e ∈ Epoch.all,
    (table e).map (fun i => (i.op, implEntry i)) = (EvmSpec.opcodeTable (epochLevel e)).map (fun r => (r.op, specEntry r)) := by
  decide

theorem find_map_agree {α β γ : Type} (l1 : List α) (l2 : List β) (k1 : α → Nat) (k2 : β → Nat) (f1 : α → γ) (f2 : β → γ)
    (h : l1.map (fun a => (k1 a, f1 a)) = l2.map (fun b => (k2 b, f2 b))) (opc : Nat) :
    (l1.find? (fun a => k1 a == opc)).map f1 = (l2.find? (fun b => k2 b == opc)).map f2 := by
  induction l1 generalizing l2 with
  | nil => cases l2 with
    | nil => rfl
    | cons _ _ => simp at h
  | cons a as ih =>
    cases l2 with
    | nil => simp at h
    | cons b bs =>
      simp only [List.map_cons, List.cons.injEq, Prod.mk.injEq] at h
      obtain ⟨⟨hk, hf⟩, ht⟩ := h
      simp only [List.find?_cons, hk]
      cases hb : (k2 b == opc)
      · exact ih bs ht
      · simp [hf]

theorem specTab_eq (e : Epoch) : specTab (epochLevel e) = EvmSpec.opcodeTable (epochLevel e) := by
  cases e <;> rfl

theorem all_epochs (e : Epoch) : e ∈ Epoch.all := by cases e <;> decide

theorem lookup_agree (e : Epoch) (opc : Nat) : implLookup e opc = specLookup (epochLevel e) opc := by
  unfold implLookup specLookup specRowAt
  rw [specTab_eq]
  exact find_map_agree _ _ (fun i => i.op) (fun r => r.op) implEntry specEntry (tables_entries_agree e (all_epochs e)) opc

/-- well-formedness of a table row as the prologue uses it -/
def wfEntry (en : Entry) : Prop :=
  match en.gasK with
  | .const g => en.memK = .none ∧ g ≤ 1000
  | .exp => en.memK = .none
  | _ => True

instance (en : Entry) : Decidable (wfEntry en) := by unfold wfEntry; split <;> infer_instance

set_option maxRecDepth 8192 in
theorem spec_rows_wf : ∀ lvl ∈ [0, 1, 2, 3], ∀ r ∈ EvmSpec.opcodeTable lvl, wfEntry (specEntry r) := by decide

theorem specLookup_wf (e : Epoch) (opc : Nat) (en : Entry) (h : specLookup (epochLevel e) opc = some en) : wfEntry en := by
  unfold specLookup specRowAt at h
  rw [specTab_eq] at h
  cases hf : (EvmSpec.opcodeTable (epochLevel e)).find? (fun r => r.op == opc) with
  | none => rw [hf] at h; cases h
  | some r =>
    rw [hf] at h
    simp only [Option.map_some, Option.some.injEq] at h
    subst h
    have hm := List.mem_of_find?_eq_some hf
    have hl : epochLevel e ∈ [0, 1, 2, 3] := by cases e <;> decide
    exact spec_rows_wf _ hl r hm
end Aqv.Evm

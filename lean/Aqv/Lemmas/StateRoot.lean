/-
  Aqv.Lemmas.StateRoot — after Finalise/Commit the account trie holds exactly the content the getters report
  (root commits to content), Copy and reopen read back, and Finalise respects `Sim` when the dirty sets agree on
  the accounts it would delete.
-/
import Aqv.Lemmas.StateInvUndo
namespace Aqv.State

theorem look_finalise_fields (d : Bool) (s : SDB) :
    (finalise d s).dirty = s.dirty ∧ (finalise d s).journal = [] ∧ (finalise d s).revs = [] ∧ (finalise d s).refund = 0 ∧
    (finalise d s).logs = s.logs ∧ (finalise d s).logSize = s.logSize ∧ (finalise d s).preimages = s.preimages ∧
    (finalise d s).thash = s.thash ∧ (finalise d s).nextId = s.nextId := ⟨rfl, rfl, rfl, rfl, rfl, rfl, rfl, rfl, rfl⟩

theorem binv_finalise {d : Bool} {s : SDB} (hb : BInv s) (ht : TombOK d s) : BInv (finalise d s) := by
  refine ⟨coherent_finalise hb.coh ht, fun e he => by simp [finalise] at he, ?_, ?_, fun a p h => by simp [finalise] at h,
    fun pre a post h => by simp [finalise] at h, fun a p h => by simp [finalise] at h⟩
  · intro a ha
    have ha' : a ∈ s.dirty := ha
    obtain ⟨o, ho⟩ := hb.dobj a ha'
    exact ⟨finObj d o, by rw [finalise_objs]; simp [ha', ho]⟩
  · intro a o ho hod hnd
    have hnd' : a ∉ s.dirty := hnd
    rw [finalise_objs] at ho
    simp only [hnd', if_false] at ho
    rw [finalise_trie]
    simp only [hnd', if_false]
    exact hb.ca a o ho hod hnd'

theorem toAcct_flush (o : Obj) : o.flush.toAcct = o.toAcct := by
  simp only [Obj.toAcct, Obj.flush, getState]

/-- what `look` returns after Finalise, in terms of `look` before. -/
theorem look_finalise {d : Bool} {s : SDB} (hb : BInv s) (a : Addr) :
    look (finalise d s) a =
      match look s a with
      | none => none
      | some o => if a ∈ s.dirty then (if delCond d o then none else some o.flush) else some o := by
  unfold look
  rw [finalise_objs, finalise_trie]
  by_cases ha : a ∈ s.dirty
  · obtain ⟨q, hq⟩ := hb.dobj a ha
    simp only [ha, if_true, hq, Option.map]
    by_cases hqd : q.deleted = true
    · have : (finObj d q).deleted = true := by unfold finObj; split <;> simp [Obj.flush, hqd]
      simp [this, hqd]
    · simp only [hqd, Bool.false_eq_true, if_false]
      unfold finObj
      by_cases hdc : delCond d q = true
      · simp [hdc]
      · simp [hdc, Obj.flush, hqd]
  · simp only [ha, if_false]
    cases ho : s.objs a with
    | none =>
      simp only
      cases ht : s.trie a <;> simp
    | some q =>
      simp only
      by_cases hqd : q.deleted = true <;> simp [hqd]

/-- **root commits to content (Finalise)**: under the cache invariant, after `Finalise d` the account trie holds exactly
    the accounts the getters report, with exactly their contents. -/
theorem trie_finalise_eq_content {d : Bool} {s : SDB} (hb : BInv s) (ht : TombOK d s) :
    (finalise d s).trie = contentOf (finalise d s) := by
  funext a
  simp only [contentOf]
  rw [look_finalise hb a, finalise_trie]
  by_cases ha : a ∈ s.dirty
  · obtain ⟨q, hq⟩ := hb.dobj a ha
    simp only [ha, if_true, hq]
    by_cases hqd : q.deleted = true
    · have hl : look s a = none := by simp [look, hq, hqd]
      rw [hl]
      simp [finLeaf, ht a q ha hq hqd]
    · have hl : look s a = some q := by simp [look, hq, hqd]
      rw [hl]
      simp only [finLeaf]
      by_cases hdc : delCond d q = true
      · simp [hdc]
      · simp [hdc, toAcct_flush]
  · simp only [ha, if_false]
    cases hl : look s a with
    | none =>
      simp only [Option.map]
      unfold look at hl
      cases ho : s.objs a with
      | none => simpa [ho] using hl
      | some q =>
        simp only [ho] at hl
        by_cases hqd : q.deleted = true
        · exact hb.coh a q ho hqd
        · simp [hqd] at hl
    | some o =>
      simp only [Option.map]
      exact (look_clean hb hl ha).2.2


/-! ### Commit -/

/-- the deletion test of `Commit`. -/
def cdel (d : Bool) (s : SDB) (a : Addr) (o : Obj) : Bool := o.suicided || (decide (a ∈ s.dirty) && d && o.empty)

theorem commit_objs (d : Bool) (s : SDB) (a : Addr) :
    (commit d s).objs a = match s.objs a with
      | none => none
      | some o => if cdel d s a o then some { o with deleted := true } else if a ∈ s.dirty then some o.flush else some o := rfl

theorem commit_trie (d : Bool) (s : SDB) (a : Addr) :
    (commit d s).trie a = match s.objs a with
      | none => s.trie a
      | some o => if cdel d s a o then none else if a ∈ s.dirty then some o.toAcct else s.trie a := rfl

theorem cdel_of_delCond {d : Bool} {s : SDB} {a : Addr} {o : Obj} (ha : a ∈ s.dirty) (h : delCond d o = true) : cdel d s a o = true := by
  simp only [delCond, Bool.or_eq_true, Bool.and_eq_true] at h
  simp only [cdel, Bool.or_eq_true, Bool.and_eq_true, decide_eq_true_eq]
  rcases h with h | h
  · exact Or.inl h
  · exact Or.inr ⟨⟨ha, h.1⟩, h.2⟩

/-- **root commits to content (Commit)**: the trie committed by `Commit d` holds exactly what the getters of the committed
    StateDB report. -/
theorem trie_commit_eq_content {d : Bool} {s : SDB} (hb : BInv s) (ht : TombOK d s) :
    (commit d s).trie = contentOf (commit d s) := by
  funext a
  simp only [contentOf, look]
  rw [commit_objs, commit_trie]
  cases ho : s.objs a with
  | none =>
    simp only
    cases htr : s.trie a with
    | none => rfl
    | some c => simp [toAcct_fromAcct]
  | some q =>
    simp only
    by_cases hc : cdel d s a q = true
    · simp [hc]
    · simp only [hc, Bool.false_eq_true, if_false]
      by_cases ha : a ∈ s.dirty
      · simp only [ha, if_true]
        by_cases hqd : q.deleted = true
        · exact (hc (cdel_of_delCond ha (ht a q ha ho hqd))).elim
        · have : q.flush.deleted = false := by simpa [Obj.flush] using hqd
          simp [this, toAcct_flush]
      · simp only [ha, if_false]
        by_cases hqd : q.deleted = true
        · simp [hqd, hb.coh a q ho hqd]
        · simp only [hqd, Bool.false_eq_true, if_false, Option.map]
          exact (hb.ca a q ho (by simpa using hqd) ha).2.2

theorem look_commit_not_suicided {d : Bool} {s : SDB} (_hb : BInv s) {a : Addr} {o : Obj} (h : look (commit d s) a = some o) :
    o.suicided = false := by
  simp only [look] at h
  rw [commit_objs, commit_trie] at h
  cases ho : s.objs a with
  | none =>
    simp only [ho] at h
    cases htr : s.trie a with
    | none => simp [htr] at h
    | some c => simp only [htr, Option.map, Option.some.injEq] at h; subst h; rfl
  | some q =>
    simp only [ho] at h
    by_cases hc : cdel d s a q = true
    · simp [hc] at h
    · have hsu : q.suicided = false := by
        simp only [cdel, Bool.or_eq_true, not_or] at hc
        simpa using hc.1
      simp only [hc, Bool.false_eq_true, if_false] at h
      by_cases ha : a ∈ s.dirty
      · simp only [ha, if_true] at h
        split at h
        · simp at h
        · simp only [Option.some.injEq] at h; subst h; exact hsu
      · simp only [ha, if_false] at h
        split at h
        · simp at h
        · simp only [Option.some.injEq] at h; subst h; exact hsu

theorem view_fromAcct_toAcct (o : Obj) (h : o.suicided = false) : (fromAcct o.toAcct).view = o.view := by
  simp only [Obj.view, fromAcct, Obj.toAcct, blank, getState, h]

/-- **reopen reads back**: a StateDB opened at the committed content reports, for every account, exactly what the
    committing StateDB reports after the Commit. -/
theorem reopen_viewAt {d : Bool} {s : SDB} (hb : BInv s) (ht : TombOK d s) (a : Addr) :
    viewAt (fresh (commit d s).trie) a = viewAt (commit d s) a := by
  have hc := congrFun (trie_commit_eq_content hb ht) a
  simp only [viewAt]
  have hl : look (fresh (commit d s).trie) a = ((commit d s).trie a).map fromAcct := by simp [look, fresh]
  rw [hl, hc]
  simp only [contentOf]
  cases hlk : look (commit d s) a with
  | none => rfl
  | some o =>
    simp only [Option.map, Option.some.injEq]
    exact view_fromAcct_toAcct o (look_commit_not_suicided hb hlk)

/-! ### Copy -/

theorem look_copy {s : SDB} (hb : BInv s) (a : Addr) : OOEq (look (copy s) a) (look s a) := by
  simp only [look, copy]
  by_cases ha : a ∈ s.dirty
  · obtain ⟨q, hq⟩ := hb.dobj a ha
    simp only [ha, if_true, hq, Option.map, Obj.deepCopy]
    by_cases hqd : q.deleted = true
    · simp [hqd, OOEq]
    · simp only [hqd, Bool.false_eq_true, if_false, OOEq]
      exact ⟨rfl, rfl, rfl, rfl, fun _ => rfl⟩
  · simp only [ha, if_false]
    cases ho : s.objs a with
    | none => exact OOEq.rfl' _
    | some q =>
      simp only
      by_cases hqd : q.deleted = true
      · simp [hqd, hb.coh a q ho hqd, OOEq]
      · obtain ⟨_, h2, h3⟩ := hb.ca a q ho (by simpa using hqd) ha
        simp only [hqd, Bool.false_eq_true, if_false, h3, Option.map, OOEq]
        exact ⟨rfl, rfl, rfl, by simp [fromAcct, blank, h2], fun _ => rfl⟩

theorem binv_copy {s : SDB} (hb : BInv s) : BInv (copy s) := by
  refine ⟨?_, fun e he => by simp [copy] at he, ?_, ?_, fun a p h => by simp [copy] at h,
    fun pre a post h => by simp [copy] at h, fun a p h => by simp [copy] at h⟩
  · intro a o ho hod
    simp only [copy] at ho ⊢
    by_cases ha : a ∈ s.dirty
    · simp only [ha, if_true] at ho
      cases hq : s.objs a with
      | none => simp [hq] at ho
      | some q =>
        simp only [hq, Option.map, Option.some.injEq] at ho
        subst ho
        exact hb.coh a q hq (by simpa [Obj.deepCopy] using hod)
    · simp [ha] at ho
  · intro a ha
    have ha' : a ∈ s.dirty := ha
    obtain ⟨q, hq⟩ := hb.dobj a ha'
    exact ⟨q.deepCopy, by simp [copy, ha', hq]⟩
  · intro a o ho _ hnd
    have hnd' : a ∉ s.dirty := hnd
    simp [copy, hnd'] at ho

/-! ### Finalise respects `Sim` when the dirty sets agree where it matters -/

theorem OOEq.map_toAcct : ∀ {x y : Option Obj}, OOEq x y → x.map Obj.toAcct = y.map Obj.toAcct
  | none, none, _ => rfl
  | some o, some p, h => by
    simp only [Option.map, Option.some.injEq, Obj.toAcct, Acct.mk.injEq]
    exact ⟨h.1, h.2.1, h.2.2.1, funext h.2.2.2.2⟩
  | none, some _, h => h.elim
  | some _, none, h => h.elim

theorem ObjEq.delCond {o p : Obj} (h : ObjEq o p) (d : Bool) : delCond d o = delCond d p := by
  simp only [State.delCond, h.empty, h.2.2.2.1]

theorem ObjEq.flush_left {o p : Obj} (h : ObjEq o p) : ObjEq o.flush p :=
  ⟨h.1, h.2.1, h.2.2.1, h.2.2.2.1, fun k => by rw [← h.2.2.2.2 k]; simp [Obj.flush, getState]⟩
theorem ObjEq.flush_right {o p : Obj} (h : ObjEq o p) : ObjEq o p.flush := (h.symm.flush_left).symm

theorem finalise_respects_sim {d : Bool} {r s : SDB} (hbr : BInv r) (hbs : BInv s) (htr : TombOK d r) (hts : TombOK d s)
    (hsim : Sim r s)
    (H : ∀ a o, look s a = some o → delCond d o = true → (a ∈ r.dirty ↔ a ∈ s.dirty)) :
    (∀ a, OOEq (look (finalise d r) a) (look (finalise d s) a)) ∧ (finalise d r).trie = (finalise d s).trie := by
  have hobjs : ∀ a, OOEq (look (finalise d r) a) (look (finalise d s) a) := by
    intro a
    rw [look_finalise hbr a, look_finalise hbs a]
    rcases hsim.look_cases a with ⟨h1, h2⟩ | ⟨o, p, h1, h2, hop⟩
    · rw [h1, h2]; trivial
    · rw [h1, h2]
      simp only
      have hdc := hop.delCond d
      by_cases hc : delCond d p = true
      · have hiff := H a p h2 hc
        rw [hdc, hc]
        by_cases ha : a ∈ s.dirty
        · simp [ha, hiff.mpr ha, OOEq]
        · have : a ∉ r.dirty := fun h => ha (hiff.mp h)
          simp only [ha, this, if_false, OOEq]; exact hop
      · rw [hdc]
        simp only [hc, Bool.false_eq_true, if_false]
        by_cases ha : a ∈ s.dirty <;> by_cases har : a ∈ r.dirty <;> simp only [ha, har, if_true, if_false, OOEq]
        · exact hop.flush_left.flush_right
        · exact hop.flush_right
        · exact hop.flush_left
        · exact hop
  refine ⟨hobjs, ?_⟩
  rw [trie_finalise_eq_content hbr htr, trie_finalise_eq_content hbs hts]
  funext a
  exact (hobjs a).map_toAcct

end Aqv.State

/-
  Aqv.Lemmas.TrieBuild — the leaf sequence of a trie is exactly its content in iteration order, and the Yellow-Paper
  construction `build` rebuilds a canonical trie from its own leaf sequence (so `hashRoot t = mptRoot (content t)`).
-/
import Aqv.Lemmas.TrieRun
namespace Aqv.Trie
open Aqv

/-! ### toList is the content -/

theorem mem_toList (n : Node) : ∀ (k : List Nib) (v : Bytes), (k, v) ∈ toList n ↔ lookup n k = some v := by
  induction n with
  | nil => intro k v; simp [toList, lookup]
  | value w =>
    intro k v
    simp only [toList, lookup_value, List.mem_singleton, Prod.mk.injEq]
    by_cases hk : k = []
    · simp [hk, eq_comm]
    · simp [hk]
  | short p c ih =>
    intro k v
    simp only [toList, List.mem_map, Prod.mk.injEq, Prod.exists]
    constructor
    · rintro ⟨r, w, hm, rfl, rfl⟩
      rw [lookup_short_append]
      exact (ih r w).1 hm
    · intro h
      obtain ⟨r, rfl⟩ := short_key_prefix (by rw [h]; simp)
      rw [lookup_short_append] at h
      exact ⟨r, v, (ih r v).2 h, rfl, rfl⟩
  | full cs ih =>
    intro k v
    simp only [toList, List.mem_flatMap, List.mem_map, Prod.mk.injEq, Prod.exists, List.mem_finRange, true_and]
    constructor
    · rintro ⟨i, r, w, hm, rfl, rfl⟩
      rw [lookup_full_cons]
      exact (ih i r w).1 hm
    · intro h
      cases k with
      | nil => simp [lookup] at h
      | cons x r =>
        rw [lookup_full_cons] at h
        exact ⟨x, r, v, (ih x r v).2 h, rfl, rfl⟩

/-! ### the key order -/

theorem keyLt_irrefl : ∀ (a : List Nib), keyLt a a = false
  | [] => rfl
  | x :: a => by simp [keyLt, keyLt_irrefl a]

theorem keyLt_asymm : ∀ (a b : List Nib), keyLt a b = true → keyLt b a = true → False
  | [], [], h, _ => by simp [keyLt] at h
  | [], _ :: _, _, h => by simp [keyLt] at h
  | _ :: _, [], h, _ => by simp [keyLt] at h
  | x :: a, y :: b, h1, h2 => by
    simp only [keyLt] at h1 h2
    by_cases hxy : x.val < y.val
    · have : ¬ y.val < x.val := by omega
      simp [hxy, this] at h2
    · by_cases hyx : y.val < x.val
      · simp [hxy, hyx] at h1
      · simp [hxy, hyx] at h1 h2
        exact keyLt_asymm a b h1 h2

theorem keyLt_append_left (p : List Nib) (a b : List Nib) : keyLt (p ++ a) (p ++ b) = keyLt a b := by
  induction p with
  | nil => rfl
  | cons x p ih => simp [keyLt, ih]

theorem keyLt_cons_lt {x y : Nib} (h : x < y) (a b : List Nib) : keyLt (x :: a) (y :: b) = true := by
  have : x.val < y.val := h
  simp [keyLt, this]

/-- the leaf sequence is strictly increasing in iteration order (no WF needed). -/
theorem toList_sorted (n : Node) : (toList n).Pairwise (fun a b => keyLt a.1 b.1 = true) := by
  induction n with
  | nil => simp [toList]
  | value w => simp [toList]
  | short p c ih =>
    simp only [toList, List.pairwise_map, keyLt_append_left]
    exact ih
  | full cs ih =>
    simp only [toList]
    rw [List.pairwise_flatMap]
    constructor
    · intro i _
      simp only [List.pairwise_map]
      apply (ih i).imp
      intro a b h
      simpa [keyLt] using h
    · apply (List.pairwise_lt_finRange 17).imp
      intro i j hij x hx y hy
      simp only [List.mem_map] at hx hy
      obtain ⟨a, _, rfl⟩ := hx
      obtain ⟨b, _, rfl⟩ := hy
      exact keyLt_cons_lt hij _ _

/-- a list sorted by `keyLt` with exactly the content of `n` is the leaf sequence of `n`. -/
theorem toList_unique (n : Node) (kvs : List (List Nib × Bytes))
    (hs : kvs.Pairwise (fun a b => keyLt a.1 b.1 = true)) (hc : ∀ k v, (k, v) ∈ kvs ↔ lookup n k = some v) :
    kvs = toList n := by
  have nodup_of : ∀ l : List (List Nib × Bytes), l.Pairwise (fun a b => keyLt a.1 b.1 = true) → l.Nodup := by
    intro l hl
    rw [List.nodup_iff_pairwise_ne]
    apply hl.imp
    intro a b h e
    subst e
    rw [keyLt_irrefl] at h; cases h
  apply List.Perm.eq_of_pairwise (le := fun a b => keyLt a.1 b.1 = true) _ hs (toList_sorted n)
  · rw [List.perm_ext_iff_of_nodup (nodup_of _ hs) (nodup_of _ (toList_sorted n))]
    intro ⟨k, v⟩
    rw [hc, mem_toList]
  · intro a b _ _ h1 h2
    exact absurd (keyLt_asymm _ _ h1 h2) id

/-! ### build ∘ toList = id on canonical tries -/

theorem lcp2_prefix_left : ∀ (a b : List Nib), lcp2 a b <+: a
  | [], _ => by simp [lcp2]
  | _ :: _, [] => by simp [lcp2]
  | x :: a, y :: b => by
    simp only [lcp2]
    split
    · exact List.cons_prefix_cons.2 ⟨rfl, lcp2_prefix_left a b⟩
    · simp

theorem lcp2_prefix_right : ∀ (a b : List Nib), lcp2 a b <+: b
  | [], _ => by simp [lcp2]
  | _ :: _, [] => by simp [lcp2]
  | x :: a, y :: b => by
    simp only [lcp2]
    split
    · next h => subst h; exact List.cons_prefix_cons.2 ⟨rfl, lcp2_prefix_right a b⟩
    · simp

/-- `lcpAll` is a prefix of every key. -/
theorem lcpAll_prefix : ∀ (kvs : List (List Nib × Bytes)) (kv : List Nib × Bytes), kv ∈ kvs → lcpAll kvs <+: kv.1
  | [], _, h => by cases h
  | [a], kv, h => by
    simp only [List.mem_singleton] at h; subst h; simp [lcpAll]
  | a :: b :: rest, kv, h => by
    simp only [lcpAll]
    cases h with
    | head => exact lcp2_prefix_left _ _
    | tail _ h => exact (lcp2_prefix_right _ _).trans (lcpAll_prefix (b :: rest) kv h)

theorem lcp2_append (p a b : List Nib) : lcp2 (p ++ a) (p ++ b) = p ++ lcp2 a b := by
  induction p with
  | nil => rfl
  | cons x p ih => simp [lcp2, ih]

theorem lcpAll_map_append (p : List Nib) : ∀ (kvs : List (List Nib × Bytes)), kvs ≠ [] →
    lcpAll (kvs.map fun kv => (p ++ kv.1, kv.2)) = p ++ lcpAll kvs
  | [], h => absurd rfl h
  | [a], _ => by simp [lcpAll]
  | a :: b :: rest, _ => by
    have ih := lcpAll_map_append p (b :: rest) (by simp)
    simp only [List.map_cons] at ih ⊢
    simp only [lcpAll]
    rw [ih, lcp2_append]

/-- two keys with different first nibbles force an empty common prefix. -/
theorem lcpAll_nil_of_heads {kvs : List (List Nib × Bytes)} {i j : Nib} {a b : List Nib} {v w : Bytes} (hij : i ≠ j)
    (h1 : (i :: a, v) ∈ kvs) (h2 : (j :: b, w) ∈ kvs) : lcpAll kvs = [] := by
  have p1 := lcpAll_prefix kvs _ h1
  have p2 := lcpAll_prefix kvs _ h2
  cases hl : lcpAll kvs with
  | nil => rfl
  | cons x r =>
    rw [hl] at p1 p2
    have e1 := (List.cons_prefix_cons.1 p1).1
    have e2 := (List.cons_prefix_cons.1 p2).1
    exact absurd (e1.symm.trans e2) hij

theorem dropKeys_map_append (p : List Nib) (kvs : List (List Nib × Bytes)) :
    dropKeys p.length (kvs.map fun kv => (p ++ kv.1, kv.2)) = kvs := by
  simp [dropKeys, List.map_map, Function.comp_def]

theorem wf_toList_ne_nil {n : Node} (h : WF n) : toList n ≠ [] := by
  obtain ⟨k, hk⟩ := wf_exists_key h
  cases e : lookup n k with
  | none => exact absurd e hk
  | some v =>
    have := (mem_toList n k v).2 e
    intro hnil; rw [hnil] at this; cases this

/-- the leaf sequence of a canonical branch holds two keys with different first nibbles. -/
theorem full_toList_two {cs : Nib → Node} (hw : WF (.full cs)) :
    ∃ i j a b v w, i ≠ j ∧ (i :: a, v) ∈ toList (.full cs) ∧ (j :: b, w) ∈ toList (.full cs) := by
  obtain ⟨i, j, k₁, k₂, hij, hi, hj⟩ := wf_full_two_keys hw
  cases e1 : lookup (.full cs) (i :: k₁) with
  | none => exact absurd e1 hi
  | some v =>
    cases e2 : lookup (.full cs) (j :: k₂) with
    | none => exact absurd e2 hj
    | some w => exact ⟨i, j, k₁, k₂, v, w, hij, (mem_toList _ _ _).2 e1, (mem_toList _ _ _).2 e2⟩

theorem two_le_length_of_two {α} {l : List α} {x y : α} (hx : x ∈ l) (hy : y ∈ l) (hxy : x ≠ y) : ∃ a b r, l = a :: b :: r := by
  cases l with
  | nil => cases hx
  | cons a l =>
    cases l with
    | nil =>
      simp only [List.mem_singleton] at hx hy
      exact absurd (hx.trans hy.symm) hxy
    | cons b r => exact ⟨a, b, r, rfl⟩

/-- selecting the leaves under child `i` from the leaf sequence of a branch. -/
theorem filter_head_flatMap (g : Nib → List (List Nib × Bytes)) (i : Nib) : ∀ (is : List Nib), is.Nodup →
    (is.flatMap fun j => (g j).map fun kv => (j :: kv.1, kv.2)).filter (fun kv => kv.1.head? == some i) =
      if i ∈ is then (g i).map fun kv => (i :: kv.1, kv.2) else []
  | [], _ => by simp
  | j :: is, hnd => by
    have hj : j ∉ is := (List.nodup_cons.1 hnd).1
    have ih := filter_head_flatMap g i is (List.nodup_cons.1 hnd).2
    simp only [List.flatMap_cons, List.filter_append, ih]
    by_cases hji : j = i
    · subst hji
      have : (List.filter (fun kv => kv.1.head? == some j) (List.map (fun kv => (j :: kv.1, kv.2)) (g j))) =
          List.map (fun kv => (j :: kv.1, kv.2)) (g j) := by
        rw [List.filter_eq_self]
        intro a ha
        simp only [List.mem_map] at ha
        obtain ⟨b, _, rfl⟩ := ha
        simp
      rw [this]
      simp [hj]
    · have : (List.filter (fun kv => kv.1.head? == some i) (List.map (fun kv => (j :: kv.1, kv.2)) (g j))) = [] := by
        rw [List.filter_eq_nil_iff]
        intro a ha
        simp only [List.mem_map] at ha
        obtain ⟨b, _, rfl⟩ := ha
        simp [hji]
      rw [this]
      have hij : i ≠ j := fun e => hji e.symm
      simp [hij]

theorem build_toList {n : Node} (h : WF n) : ∀ f, (∀ kv ∈ toList n, kv.1.length < f) → build f (toList n) = n := by
  induction h with
  | leaf k v hk _ =>
    intro f hf
    have hk' := term_ne_nil hk
    have hl : toList (.short k (.value v)) = [(k, v)] := by simp [toList]
    rw [hl] at hf ⊢
    obtain ⟨g, rfl⟩ : ∃ g, f = g + 1 := ⟨f - 1, by have := hf (k, v) (by simp); omega⟩
    simp [build, hk']
  | ext p cs hp hh hw ih =>
    intro f hf
    obtain ⟨i, j, a, b, v, w, hij, m1, m2⟩ := full_toList_two hw
    have hne : toList (.full cs) ≠ [] := by intro e; rw [e] at m1; cases m1
    have hl : toList (.short p (.full cs)) = (toList (.full cs)).map fun kv => (p ++ kv.1, kv.2) := by simp [toList]
    obtain ⟨x, y, r, hxy⟩ := two_le_length_of_two m1 m2 (by simp [hij])
    rw [hl] at hf ⊢
    obtain ⟨g, rfl⟩ : ∃ g, f = g + 1 := ⟨f - 1, by
      have := hf (p ++ (i :: a), v) (List.mem_map.2 ⟨(i :: a, v), m1, rfl⟩); simp at this; omega⟩
    have hlcp : lcpAll ((toList (.full cs)).map fun kv => (p ++ kv.1, kv.2)) = p := by
      rw [lcpAll_map_append p _ hne, lcpAll_nil_of_heads hij m1 m2]; simp
    have hrec : build g (toList (.full cs)) = .full cs := by
      apply ih
      intro kv hkv
      have := hf (p ++ kv.1, kv.2) (List.mem_map.2 ⟨kv, hkv, rfl⟩)
      have hpl : 0 < p.length := List.length_pos_iff.2 hp
      simp at this
      omega
    have hshape : ∃ x' y' r', (toList (.full cs)).map (fun kv => (p ++ kv.1, kv.2)) = x' :: y' :: r' := by
      rw [hxy]; exact ⟨_, _, _, rfl⟩
    obtain ⟨x', y', r', hs⟩ := hshape
    rw [hs, build]
    · rw [← hs, hlcp]
      simp only [ne_eq, hp, not_false_eq_true, if_true]
      rw [dropKeys_map_append, hrec]
    · intro e; cases e
    · intro kv e; cases e
  | full cs c1 c2 c3 ih =>
    intro f hf
    have hw : WF (.full cs) := WF.full cs c1 c2 c3
    obtain ⟨i, j, a, b, v, w, hij, m1, m2⟩ := full_toList_two hw
    obtain ⟨x, y, r, hxy⟩ := two_le_length_of_two m1 m2 (by simp [hij])
    obtain ⟨g, rfl⟩ : ∃ g, f = g + 1 := ⟨f - 1, by have := hf _ m1; simp at this; omega⟩
    have hlcp : lcpAll (toList (.full cs)) = [] := lcpAll_nil_of_heads hij m1 m2
    rw [hxy, build]
    · rw [← hxy, hlcp]
      simp only [ne_eq, not_true_eq_false, if_false]
      congr 1
      funext i'
      have hsel : dropKeys 1 ((toList (.full cs)).filter fun kv => kv.1.head? == some i') = toList (cs i') := by
        simp only [toList]
        rw [filter_head_flatMap (fun j => toList (cs j)) i' _ (List.nodup_finRange 17)]
        simp [dropKeys, List.map_map, Function.comp_def]
      rw [hsel]
      have hlen : ∀ kv ∈ toList (cs i'), kv.1.length < g := by
        intro kv hkv
        have : (i' :: kv.1, kv.2) ∈ toList (.full cs) := by
          simp only [toList, List.mem_flatMap, List.mem_map, List.mem_finRange, true_and]
          exact ⟨i', kv, hkv, rfl⟩
        have := hf _ this
        simp at this
        omega
      by_cases hiT : i' = T
      · subst hiT
        rcases c2 with e | ⟨v', _, e⟩
        · rw [e]; cases g <;> simp [toList, build]
        · rw [e] at hlen ⊢
          have := hlen ([], v') (by simp [toList])
          obtain ⟨g', rfl⟩ : ∃ g', g = g' + 1 := ⟨g - 1, by simp at this; omega⟩
          simp [toList, build]
      · by_cases hn : cs i' = .nil
        · rw [hn]; cases g <;> simp [toList, build]
        · exact ih i' hiT hn g hlen
    · intro e; cases e
    · intro kv e; cases e

theorem length_le_keyLenSum : ∀ (kvs : List (List Nib × Bytes)) (kv : List Nib × Bytes), kv ∈ kvs → kv.1.length ≤ keyLenSum kvs
  | [], _, h => by cases h
  | a :: rest, kv, h => by
    simp only [keyLenSum, List.foldr_cons]
    cases h with
    | head => omega
    | tail _ h =>
      have := length_le_keyLenSum rest kv h
      simp only [keyLenSum] at this
      omega

/-- `hashRoot t = mptRoot (leaf sequence of t)` for every canonical trie and every hash function. -/
theorem hashRoot_eq_mptRoot (H : Bytes → Bytes) {t : Node} (h : WFRoot t) : hashRoot H t = mptRoot H (toList t) := by
  unfold mptRoot
  rcases h with rfl | h
  · simp [toList, build]
  · rw [build_toList h]
    intro kv hkv
    have := length_le_keyLenSum _ kv hkv
    omega

end Aqv.Trie

/-
  Aqv.Lemmas.ConsensusUncles — VerifyUncles (set/map bookkeeping as written) against the declarative uncle rules.
-/
import Aqv.Lemmas.ConsensusHeader
namespace Aqv.Consensus

theorem gatherFamily_ancestors (chain : Chain) : ∀ (fuel parent number : Nat) (f : Family),
    (gatherFamily chain fuel parent number f).ancestors = ((ancestorsOf chain fuel parent number).map (·.header)).reverse ++ f.ancestors
  | 0, _, _, _ => by simp [gatherFamily, ancestorsOf]
  | fuel + 1, parent, number, f => by
    unfold gatherFamily ancestorsOf
    cases h : chain.getBlock parent number with
    | none => simp
    | some a =>
      simp only
      rw [gatherFamily_ancestors chain fuel]
      simp

theorem gatherFamily_pastUncles (chain : Chain) (x : Nat) : ∀ (fuel parent number : Nat) (f : Family),
    x ∈ (gatherFamily chain fuel parent number f).pastUncles ↔
      (x ∈ f.pastUncles ∨ ∃ a ∈ ancestorsOf chain fuel parent number, ∃ v ∈ a.uncles, v.hash = x)
  | 0, _, _, _ => by simp [gatherFamily, ancestorsOf]
  | fuel + 1, parent, number, f => by
    unfold gatherFamily ancestorsOf
    cases h : chain.getBlock parent number with
    | none => simp
    | some a =>
      simp only
      rw [gatherFamily_pastUncles chain x fuel]
      simp only [List.mem_append, List.mem_reverse, List.mem_map, List.mem_cons, exists_eq_or_imp]
      constructor
      · rintro ((h1 | h1) | h1)
        · exact Or.inr (Or.inl h1)
        · exact Or.inl h1
        · exact Or.inr (Or.inr h1)
      · rintro (h1 | h1 | h1)
        · exact Or.inl (Or.inr h1)
        · exact Or.inl (Or.inl h1)
        · exact Or.inr h1

/-- the loop variable `number` ends at `block number − 1 − (ancestors found)`, at most 7 below the start. -/
theorem gatherFamily_number (chain : Chain) : ∀ (fuel parent number : Nat) (f : Family), fuel ≤ number → number < two64 →
    number - fuel ≤ (gatherFamily chain fuel parent number f).number
  | 0, _, _, _, _, _ => by simp [gatherFamily]
  | fuel + 1, parent, number, f, h1, h2 => by
    unfold gatherFamily
    cases h : chain.getBlock parent number with
    | none => simp
    | some a =>
      simp only
      have e : subU64 number 1 = number - 1 := by unfold subU64; unfold two64 at *; omega
      rw [e]
      have := gatherFamily_number chain fuel a.header.parentHash (number - 1)
        { ancestors := a.header :: f.ancestors, pastUncles := (a.uncles.map (·.hash)).reverse ++ f.pastUncles, number := f.number } (by omega) (by omega)
      omega


theorem lookupAnc_cons_ne (a : Header) (l : List Header) (x : Nat) (h : a.hash ≠ x) : lookupAnc (a :: l) x = lookupAnc l x := by
  unfold lookupAnc
  rw [List.find?_cons]
  have : (a.hash == x) = false := by simpa using h
  simp [this]

theorem lookupAnc_isSome (l : List Header) (x : Nat) : (lookupAnc l x).isSome = true ↔ ∃ a ∈ l, a.hash = x := by
  unfold lookupAnc
  simp [List.find?_isSome]

theorem lookupAnc_mem (l : List Header) (x : Nat) (p : Header) (h : lookupAnc l x = some p) : p ∈ l :=
  List.mem_of_find?_eq_some h

/-- hypotheses of the uncle comparison that concern one uncle. -/
structure UncleHyp (block : Block) (u : Header) : Prop where
  nocycle : u.parentHash ≠ block.header.hash
  time64 : u.time < two64

theorem headerValid_uncle_now (S : DiffParams) (cfg : Config) (n m : Nat) (sb : Header → Bool) (u p : Header) (d : Bool) :
    HeaderValid S cfg n sb u p true d ↔ HeaderValid S cfg m sb u p true d := by
  unfold HeaderValid; simp

theorem uncleLoop_iff (env : Env) (chain : Chain) (block : Block) (number : Nat) (past : List Nat)
    (hV : env.V = Spec.vParams) (hord : env.cfg.ordered = true) (hnum : 15000 < number)
    (hpast : ∀ x, x ∈ past ↔ ∃ a ∈ ancestorsOf chain 7 block.header.parentHash (subU64 block.header.number 1), ∃ v ∈ a.uncles, v.hash = x)
    (hgas : ∀ a ∈ ancestorsOf chain 7 block.header.parentHash (subU64 block.header.number 1), a.header.gasLimit < two63) :
    ∀ (us earlier : List Header) (seen : List Nat),
      (∀ u ∈ us, UncleHyp block u) →
      (∀ x, x ∈ seen ↔ (x = block.header.hash ∨ x ∈ past ∨ ∃ v ∈ earlier, v.hash = x)) →
      (uncleLoop env chain block
          (block.header :: ((ancestorsOf chain 7 block.header.parentHash (subU64 block.header.number 1)).map (·.header)).reverse)
          number seen us = none ↔
        UnclesOkFrom env.P env.cfg env.sealBad chain block earlier us)
  | [], _, _, _, _ => by simp [uncleLoop, UnclesOkFrom]
  | u :: rest, earlier, seen, hu, hseen => by
    have huh := hu u List.mem_cons_self
    have ih := uncleLoop_iff env chain block number past hV hord hnum hpast hgas rest (earlier ++ [u]) (u.hash :: seen)
      (fun v hv => hu v (List.mem_cons_of_mem _ hv))
      (by
        intro x
        simp only [List.mem_cons, hseen x, List.mem_append, List.mem_nil_iff, or_false]
        constructor
        · rintro (h | h | h | ⟨v, hv, h⟩)
          · exact Or.inr (Or.inr ⟨u, Or.inr rfl, h.symm⟩)
          · exact Or.inl h
          · exact Or.inr (Or.inl h)
          · exact Or.inr (Or.inr ⟨v, Or.inl hv, h⟩)
        · rintro (h | h | ⟨v, hv | hv, h⟩)
          · exact Or.inr (Or.inl h)
          · exact Or.inr (Or.inr (Or.inl h))
          · exact Or.inr (Or.inr (Or.inr ⟨v, hv, h⟩))
          · subst hv; exact Or.inl h.symm)
    unfold uncleLoop UnclesOkFrom uncleStep UncleOk dupOk uncleTail loopCont
    have hnum' : number > 15000 := hnum
    simp only [hnum', if_true]
    by_cases hc : seen.contains u.hash = true
    · -- already rewarded: Impl rejects, Spec fails one of its first three clauses
      simp only [hc, if_true, Bool.not_false, reduceCtorEq, false_iff, not_and]
      have := (hseen u.hash).1 (by simpa using hc)
      intro ⟨c1, c2, c3, _⟩
      rcases this with h | h | ⟨v, hv, h⟩
      · exact (c2 h).elim
      · obtain ⟨a, ha, v, hv, h⟩ := (hpast _).1 h; exact (c1 a ha v hv h).elim
      · exact (c3 v hv h).elim
    · have hns : u.hash ∉ seen := by simpa using hc
      have hne : u.hash ≠ block.header.hash := fun h => hns ((hseen _).2 (Or.inl h))
      have hnp : ∀ a ∈ ancestorsOf chain 7 block.header.parentHash (subU64 block.header.number 1), ∀ v ∈ a.uncles, v.hash ≠ u.hash :=
        fun a ha v hv h => hns ((hseen _).2 (Or.inr (Or.inl ((hpast _).2 ⟨a, ha, v, hv, h⟩))))
      have hne' : ∀ v ∈ earlier, v.hash ≠ u.hash := fun v hv h => hns ((hseen _).2 (Or.inr (Or.inr ⟨v, hv, h⟩)))
      have hcf : seen.contains u.hash = false := by simpa using hc
      simp only [hcf, Bool.false_eq_true, if_false, Bool.not_true]
      rw [lookupAnc_cons_ne _ _ _ (fun h => hne h.symm), lookupAnc_cons_ne _ _ _ (fun h => huh.nocycle h.symm)]
      by_cases hanc : (lookupAnc ((ancestorsOf chain 7 block.header.parentHash (subU64 block.header.number 1)).map (·.header)).reverse u.hash).isSome = true
      · simp only [hanc, if_true, reduceCtorEq, false_iff, not_and]
        obtain ⟨a, ha, h⟩ := (lookupAnc_isSome _ _).1 hanc
        simp only [List.mem_reverse, List.mem_map] at ha
        obtain ⟨b, hb, rfl⟩ := ha
        intro ⟨_, _, _, c4, _⟩
        exact (c4 b hb h).elim
      · have hanc' : ∀ a ∈ ancestorsOf chain 7 block.header.parentHash (subU64 block.header.number 1), a.header.hash ≠ u.hash := by
          intro a ha h
          apply hanc
          exact (lookupAnc_isSome _ _).2 ⟨a.header, by simp only [List.mem_reverse, List.mem_map]; exact ⟨a, ha, rfl⟩, h⟩
        simp only [hanc, Bool.false_eq_true, if_false]
        by_cases hpp : u.parentHash = block.header.parentHash
        · simp only [hpp, if_true, reduceCtorEq, false_iff, not_and]
          intro ⟨_, _, _, _, c5, _⟩
          exact (c5 rfl).elim
        · simp only [hpp, if_false]
          cases hl : lookupAnc ((ancestorsOf chain 7 block.header.parentHash (subU64 block.header.number 1)).map (·.header)).reverse u.parentHash with
          | none =>
            simp only [reduceCtorEq, false_iff, not_and]
            intro ⟨_, _, _, _, _, c6⟩
            exact c6.elim
          | some p =>
            simp only
            have hpm := lookupAnc_mem _ _ _ hl
            simp only [List.mem_reverse, List.mem_map] at hpm
            obtain ⟨b, hb, hbp⟩ := hpm
            have hpg : p.gasLimit < two63 := by rw [← hbp]; exact hgas b hb
            rw [verifyHeader_eq_rule env u p _ true true hV hord hpg (fun h => by cases h) (fun _ => huh.time64)]
            cases hr : headerRule env.P env.cfg env.now env.sealBad u p true true with
            | some e =>
              simp only [reduceCtorEq, false_iff, not_and]
              intro ⟨_, _, _, _, _, c6⟩
              have := (headerRule_none_iff env.P env.cfg env.now env.sealBad u p true true).2
                ((headerValid_uncle_now _ _ _ _ _ _ _ _).1 c6)
              rw [hr] at this; cases this
            | none =>
              simp only
              rw [ih]
              have hv := (headerValid_uncle_now env.P env.cfg env.now 0 env.sealBad u p true).1
                ((headerRule_none_iff env.P env.cfg env.now env.sealBad u p true true).1 hr)
              constructor
              · intro h; exact ⟨⟨hnp, hne, hne', hanc', hpp, hv⟩, h⟩
              · intro h; exact h.2


theorem verifyUncles_iff_aux (env : Env) (chain : Chain) (block : Block)
    (hV : env.V = Spec.vParams) (hord : env.cfg.ordered = true)
    (hnum : 15000 < (gatherFamily chain 7 block.header.parentHash (subU64 block.header.number 1) { ancestors := [], pastUncles := [], number := 0 }).number)
    (hgas : ∀ a ∈ ancestorsOf chain 7 block.header.parentHash (subU64 block.header.number 1), a.header.gasLimit < two63)
    (hu : ∀ u ∈ block.uncles, UncleHyp block u) :
    verifyUncles env chain block = none ↔ UnclesValid env.P env.cfg env.sealBad chain block := by
  unfold verifyUncles UnclesValid
  rw [hV]
  simp only [Spec.vParams]
  by_cases c1 : block.uncles.length > 2
  · have : ¬ block.uncles.length ≤ (if env.cfg.isHF 5 block.header.number = true then 1 else 2) := by split <;> omega
    simp [c1, this]
  have c1' : ¬ 2 < block.uncles.length := c1
  have ha := gatherFamily_ancestors chain 7 block.header.parentHash (subU64 block.header.number 1) { ancestors := [], pastUncles := [], number := 0 }
  have hp := fun x => gatherFamily_pastUncles chain x 7 block.header.parentHash (subU64 block.header.number 1) { ancestors := [], pastUncles := [], number := 0 }
  rw [List.append_nil] at ha
  generalize gatherFamily chain 7 block.header.parentHash (subU64 block.header.number 1) { ancestors := [], pastUncles := [], number := 0 } = f at *
  have key := uncleLoop_iff env chain block f.number f.pastUncles hV hord hnum
    (fun x => by rw [hp x]; simp) hgas block.uncles [] (block.header.hash :: f.pastUncles) hu (fun x => by simp)
  rw [← ha] at key
  by_cases h5 : env.cfg.isHF 5 block.header.number = true
  · by_cases h1 : 1 < block.uncles.length
    · have : ¬ block.uncles.length ≤ 1 := by omega
      simp only [c1', if_false, h5, h1, decide_true, Bool.and_true, if_true, reduceCtorEq, false_iff, not_and]
      intro h; exact (this h).elim
    · have hle : block.uncles.length ≤ 1 := by omega
      simp only [c1', if_false, h5, h1, decide_false, Bool.and_true, Bool.false_eq_true, if_true]
      rw [key]
      constructor
      · intro h; exact ⟨hle, h⟩
      · intro h; exact h.2
  · have hle : block.uncles.length ≤ 2 := by omega
    simp only [c1', if_false, h5, Bool.and_false, Bool.false_eq_true]
    rw [key]
    constructor
    · intro h; exact ⟨hle, h⟩
    · intro h; exact h.2


/-! ## all heights: with the grandfather clauses -/

theorem lookupAnc_cons_isSome (a : Header) (l : List Header) (x : Nat) :
    (lookupAnc (a :: l) x).isSome = true ↔ (a.hash = x ∨ (lookupAnc l x).isSome = true) := by
  by_cases h : a.hash = x
  · simp [lookupAnc, List.find?_cons, h]
  · rw [lookupAnc_cons_ne a l x h]; simp [h]

theorem uncleLoop_iff_ex (env : Env) (chain : Chain) (block : Block) (number : Nat) (past : List Nat)
    (hV : env.V = Spec.vParams) (hord : env.cfg.ordered = true)
    (hpast : ∀ x, x ∈ past ↔ ∃ a ∈ ancestorsOf chain 7 block.header.parentHash (subU64 block.header.number 1), ∃ v ∈ a.uncles, v.hash = x)
    (hgas : ∀ a ∈ ancestorsOf chain 7 block.header.parentHash (subU64 block.header.number 1), a.header.gasLimit < two63) :
    ∀ (us earlier : List Header) (seen : List Nat),
      (∀ u ∈ us, UncleHyp block u) →
      (∀ x, x ∈ seen ↔ (x = block.header.hash ∨ x ∈ past ∨ ∃ v ∈ earlier, v.hash = x)) →
      (uncleLoop env chain block
          (block.header :: ((ancestorsOf chain 7 block.header.parentHash (subU64 block.header.number 1)).map (·.header)).reverse)
          number seen us = none ↔
        UnclesOkFromEx env.P env.cfg env.sealBad chain block (decide (number ≤ 15000)) earlier us)
  | [], _, _, _, _ => by simp [uncleLoop, UnclesOkFromEx]
  | u :: rest, earlier, seen, hu, hseen => by
    have huh := hu u List.mem_cons_self
    have ih := uncleLoop_iff_ex env chain block number past hV hord hpast hgas rest (earlier ++ [u]) (u.hash :: seen)
      (fun v hv => hu v (List.mem_cons_of_mem _ hv))
      (by
        intro x
        simp only [List.mem_cons, hseen x, List.mem_append, List.mem_nil_iff, or_false]
        constructor
        · rintro (h | h | h | ⟨v, hv, h⟩)
          · exact Or.inr (Or.inr ⟨u, Or.inr rfl, h.symm⟩)
          · exact Or.inl h
          · exact Or.inr (Or.inl h)
          · exact Or.inr (Or.inr ⟨v, Or.inl hv, h⟩)
        · rintro (h | h | ⟨v, hv | hv, h⟩)
          · exact Or.inr (Or.inl h)
          · exact Or.inr (Or.inr (Or.inl h))
          · exact Or.inr (Or.inr (Or.inr ⟨v, hv, h⟩))
          · subst hv; exact Or.inl h.symm)
    -- "rewarded before" in the Spec's terms
    have hnew : (seen.contains u.hash = false) ↔
        ((∀ a ∈ ancestorsOf chain 7 block.header.parentHash (subU64 block.header.number 1), ∀ v ∈ a.uncles, v.hash ≠ u.hash) ∧
          u.hash ≠ block.header.hash ∧ (∀ v ∈ earlier, v.hash ≠ u.hash)) := by
      constructor
      · intro hc
        have hns : u.hash ∉ seen := by simpa using hc
        exact ⟨fun a ha v hv h => hns ((hseen _).2 (Or.inr (Or.inl ((hpast _).2 ⟨a, ha, v, hv, h⟩)))),
          fun h => hns ((hseen _).2 (Or.inl h)), fun v hv h => hns ((hseen _).2 (Or.inr (Or.inr ⟨v, hv, h⟩)))⟩
      · intro ⟨c1, c2, c3⟩
        have : u.hash ∉ seen := by
          intro hm
          rcases (hseen _).1 hm with h | h | ⟨v, hv, h⟩
          · exact c2 h
          · obtain ⟨a, ha, v, hv, h⟩ := (hpast _).1 h; exact c1 a ha v hv h
          · exact c3 v hv h
        simpa using this
    -- the part of the loop body after the duplicate test, against the rest of the Spec clause
    have tail : loopCont (uncleTail env chain block
          (block.header :: ((ancestorsOf chain 7 block.header.parentHash (subU64 block.header.number 1)).map (·.header)).reverse) number (u.hash :: seen) u)
          (fun seen' => uncleLoop env chain block
            (block.header :: ((ancestorsOf chain 7 block.header.parentHash (subU64 block.header.number 1)).map (·.header)).reverse) number seen' rest) = none ↔
        (u.hash ≠ block.header.hash ∧
          (∀ a ∈ ancestorsOf chain 7 block.header.parentHash (subU64 block.header.number 1), a.header.hash ≠ u.hash) ∧
          (match (if u.parentHash = block.header.parentHash then none
                  else lookupAnc (((ancestorsOf chain 7 block.header.parentHash (subU64 block.header.number 1)).map (·.header)).reverse) u.parentHash) with
           | some p => HeaderValid env.P env.cfg 0 env.sealBad u p true true ∧
               UnclesOkFromEx env.P env.cfg env.sealBad chain block (decide (number ≤ 15000)) (earlier ++ [u]) rest
           | none => decide (number ≤ 15000) = true ∧
               ((u.parentHash, u.number) ∈ danglingParentExemptions ∨ (u.hash, u.number) ∈ danglingHashExemptions))) := by
      unfold uncleTail loopCont
      by_cases hanc : (lookupAnc (block.header :: ((ancestorsOf chain 7 block.header.parentHash (subU64 block.header.number 1)).map (·.header)).reverse) u.hash).isSome = true
      · simp only [hanc, if_true, reduceCtorEq, false_iff, not_and]
        rcases (lookupAnc_cons_isSome _ _ _).1 hanc with h | h
        · intro c; exact (c h.symm).elim
        · obtain ⟨a, ha, h'⟩ := (lookupAnc_isSome _ _).1 h
          simp only [List.mem_reverse, List.mem_map] at ha
          obtain ⟨b, hb, rfl⟩ := ha
          intro _ c; exact (c b hb h').elim
      · have hne : u.hash ≠ block.header.hash := fun h => hanc ((lookupAnc_cons_isSome _ _ _).2 (Or.inl h.symm))
        have hanc' : ∀ a ∈ ancestorsOf chain 7 block.header.parentHash (subU64 block.header.number 1), a.header.hash ≠ u.hash := by
          intro a ha h
          apply hanc
          exact (lookupAnc_cons_isSome _ _ _).2 (Or.inr ((lookupAnc_isSome _ _).2
            ⟨a.header, by simp only [List.mem_reverse, List.mem_map]; exact ⟨a, ha, rfl⟩, h⟩))
        simp only [hanc, Bool.false_eq_true, if_false]
        rw [lookupAnc_cons_ne _ _ u.parentHash (fun h => huh.nocycle h.symm)]
        by_cases hpp : u.parentHash = block.header.parentHash
        · simp only [hpp, if_true]
          by_cases hn : number > 15000
          · have : ¬ number ≤ 15000 := by omega
            simp [hn, this]
          · have hl : number ≤ 15000 := by omega
            simp only [hn, if_false, hl, decide_true, true_and]
            by_cases e1 : danglingParentExemptions.contains (block.header.parentHash, u.number) = true
            · have : (block.header.parentHash, u.number) ∈ danglingParentExemptions := by simpa using e1
              simp [e1, this, hne]
              exact hanc'
            · have n1 : (block.header.parentHash, u.number) ∉ danglingParentExemptions := by simpa using e1
              by_cases e2 : danglingHashExemptions.contains (u.hash, u.number) = true
              · have : (u.hash, u.number) ∈ danglingHashExemptions := by simpa using e2
                simp [e1, e2, this, hne]
                exact hanc'
              · have n2 : (u.hash, u.number) ∉ danglingHashExemptions := by simpa using e2
                simp [e1, e2, n1, n2]
        · simp only [hpp, if_false]
          cases hl : lookupAnc ((ancestorsOf chain 7 block.header.parentHash (subU64 block.header.number 1)).map (·.header)).reverse u.parentHash with
          | none =>
            simp only
            by_cases hn : number > 15000
            · have : ¬ number ≤ 15000 := by omega
              simp [hn, this]
            · have hl' : number ≤ 15000 := by omega
              simp only [hn, if_false, hl', decide_true, true_and]
              by_cases e1 : danglingParentExemptions.contains (u.parentHash, u.number) = true
              · have : (u.parentHash, u.number) ∈ danglingParentExemptions := by simpa using e1
                simp [e1, this, hne]
                exact hanc'
              · have n1 : (u.parentHash, u.number) ∉ danglingParentExemptions := by simpa using e1
                by_cases e2 : danglingHashExemptions.contains (u.hash, u.number) = true
                · have : (u.hash, u.number) ∈ danglingHashExemptions := by simpa using e2
                  simp [e1, e2, this, hne]
                  exact hanc'
                · have n2 : (u.hash, u.number) ∉ danglingHashExemptions := by simpa using e2
                  simp [e1, e2, n1, n2]
          | some p =>
            simp only
            have hpm := lookupAnc_mem _ _ _ hl
            simp only [List.mem_reverse, List.mem_map] at hpm
            obtain ⟨b, hb, hbp⟩ := hpm
            have hpg : p.gasLimit < two63 := by rw [← hbp]; exact hgas b hb
            rw [verifyHeader_eq_rule env u p _ true true hV hord hpg (fun h => by cases h) (fun _ => huh.time64)]
            cases hr : headerRule env.P env.cfg env.now env.sealBad u p true true with
            | some e =>
              simp only [reduceCtorEq, false_iff, not_and]
              intro _ _ c6
              have := (headerRule_none_iff env.P env.cfg env.now env.sealBad u p true true).2
                ((headerValid_uncle_now _ _ _ _ _ _ _ _).1 c6)
              rw [hr] at this; cases this
            | none =>
              simp only
              rw [ih]
              have hv := (headerValid_uncle_now env.P env.cfg env.now 0 env.sealBad u p true).1
                ((headerRule_none_iff env.P env.cfg env.now env.sealBad u p true true).1 hr)
              constructor
              · intro h; exact ⟨hne, hanc', hv, h⟩
              · intro h; exact h.2.2.2
    unfold uncleLoop UnclesOkFromEx uncleStep dupOk
    by_cases hc : seen.contains u.hash = true
    · have hnn : ¬ ((∀ a ∈ ancestorsOf chain 7 block.header.parentHash (subU64 block.header.number 1), ∀ v ∈ a.uncles, v.hash ≠ u.hash) ∧
          u.hash ≠ block.header.hash ∧ (∀ v ∈ earlier, v.hash ≠ u.hash)) := by
        intro h; have := hnew.2 h; rw [hc] at this; cases this
      by_cases hn : number > 15000
      · have hl : ¬ number ≤ 15000 := by omega
        simp only [hc, if_true, hn, Bool.not_false, loopCont, reduceCtorEq, false_iff, hl, decide_false, Bool.false_eq_true, false_and, or_false]
        intro h; exact (hnn h.1).elim
      · have hl : number ≤ 15000 := by omega
        by_cases e : dupExemptions.contains (block.header.hash, u.number) = true
        · have em : (block.header.hash, u.number) ∈ dupExemptions := by simpa using e
          simp only [hc, if_true, hn, if_false, e, Bool.not_true, Bool.false_eq_true]
          refine Iff.trans tail ?_
          exact ⟨fun h => ⟨Or.inr ⟨by simp [hl], em⟩, h⟩, fun h => h.2⟩
        · have em : (block.header.hash, u.number) ∉ dupExemptions := by simpa using e
          have ef : dupExemptions.contains (block.header.hash, u.number) = false := by simpa using e
          simp only [hc, if_true, hn, if_false, ef, Bool.not_false, loopCont, reduceCtorEq, false_iff, em, and_false, or_false]
          intro h; exact (hnn h.1).elim
    · have hcf : seen.contains u.hash = false := by simpa using hc
      simp only [hcf, Bool.false_eq_true, if_false, Bool.not_true]
      refine Iff.trans tail ?_
      exact ⟨fun h => ⟨Or.inl (hnew.1 hcf), h⟩, fun h => h.2⟩

theorem verifyUncles_iff_ex_aux (env : Env) (chain : Chain) (block : Block)
    (hV : env.V = Spec.vParams) (hord : env.cfg.ordered = true)
    (hgas : ∀ a ∈ ancestorsOf chain 7 block.header.parentHash (subU64 block.header.number 1), a.header.gasLimit < two63)
    (hu : ∀ u ∈ block.uncles, UncleHyp block u) :
    verifyUncles env chain block = none ↔ UnclesValidEx env.P env.cfg env.sealBad chain block := by
  unfold verifyUncles UnclesValidEx
  rw [hV]
  simp only [Spec.vParams]
  by_cases c1 : block.uncles.length > 2
  · have : ¬ block.uncles.length ≤ (if env.cfg.isHF 5 block.header.number = true then 1 else 2) := by split <;> omega
    simp [c1, this]
  have c1' : ¬ 2 < block.uncles.length := c1
  have ha := gatherFamily_ancestors chain 7 block.header.parentHash (subU64 block.header.number 1) { ancestors := [], pastUncles := [], number := 0 }
  have hp := fun x => gatherFamily_pastUncles chain x 7 block.header.parentHash (subU64 block.header.number 1) { ancestors := [], pastUncles := [], number := 0 }
  rw [List.append_nil] at ha
  generalize gatherFamily chain 7 block.header.parentHash (subU64 block.header.number 1) { ancestors := [], pastUncles := [], number := 0 } = f at *
  have key := uncleLoop_iff_ex env chain block f.number f.pastUncles hV hord
    (fun x => by rw [hp x]; simp) hgas block.uncles [] (block.header.hash :: f.pastUncles) hu (fun x => by simp)
  rw [← ha] at key
  by_cases h5 : env.cfg.isHF 5 block.header.number = true
  · by_cases h1 : 1 < block.uncles.length
    · have : ¬ block.uncles.length ≤ 1 := by omega
      simp only [c1', if_false, h5, h1, decide_true, Bool.and_true, if_true, reduceCtorEq, false_iff, not_and]
      intro h; exact (this h).elim
    · have hle : block.uncles.length ≤ 1 := by omega
      simp only [c1', if_false, h5, h1, decide_false, Bool.and_true, Bool.false_eq_true, if_true]
      rw [key]
      constructor
      · intro h; exact ⟨hle, h⟩
      · intro h; exact h.2
  · have hle : block.uncles.length ≤ 2 := by omega
    simp only [c1', if_false, h5, Bool.and_false, Bool.false_eq_true]
    rw [key]
    constructor
    · intro h; exact ⟨hle, h⟩
    · intro h; exact h.2



end Aqv.Consensus

/-
  Aqv.Lemmas.LogFilterMatcher — the matcher pipeline on one section, bit by bit (C16): AND/OR of vectors, `subMatch`,
  `runSection`; `calcBloomIndexes` vs `bloom9`; the pipeline over generator output equals `bloomFilter` per block.
-/
import Aqv.Lemmas.LogFilterGen
import Aqv.Lemmas.LogFilterMatch
namespace Aqv.LogFilter

/-! ### vectors -/

theorem andBytes_length (a b : Bytes) : (andBytes a b).length = a.length := by
  induction a generalizing b with
  | nil => cases b <;> rfl
  | cons x xs ih => cases b with
    | nil => rfl
    | cons y ys => simp [andBytes, ih]

theorem orBytes_length (a b : Bytes) : (orBytes a b).length = a.length := by
  induction a generalizing b with
  | nil => cases b <;> rfl
  | cons x xs ih => cases b with
    | nil => rfl
    | cons y ys => simp [orBytes, ih]

theorem andBytes_getD (a b : Bytes) (h : a.length ≤ b.length) (j : Nat) :
    (andBytes a b).getD j 0 = a.getD j 0 &&& b.getD j 0 := by
  induction a generalizing b j with
  | nil => cases b <;> simp [andBytes]
  | cons x xs ih => cases b with
    | nil => simp at h
    | cons y ys =>
      cases j with
      | zero => simp [andBytes]
      | succ j => simp only [andBytes, List.getD_cons_succ]; exact ih ys (by simpa using h) j

theorem orBytes_getD (a b : Bytes) (h : a.length = b.length) (j : Nat) :
    (orBytes a b).getD j 0 = a.getD j 0 ||| b.getD j 0 := by
  induction a generalizing b j with
  | nil => cases b with
    | nil => simp [orBytes]
    | cons y ys => simp at h
  | cons x xs ih => cases b with
    | nil => simp at h
    | cons y ys =>
      cases j with
      | zero => simp [orBytes]
      | succ j => simp only [orBytes, List.getD_cons_succ]; exact ih ys (by simpa using h) j

theorem vecBit_andBytes (a b : Bytes) (h : a.length ≤ b.length) (n : Nat) :
    vecBit (andBytes a b) n = (vecBit a n && vecBit b n) := by
  rw [vecBit_eq, vecBit_eq, vecBit_eq, andBytes_getD a b h, UInt8.toNat_and, Nat.testBit_and]

theorem vecBit_orBytes (a b : Bytes) (h : a.length = b.length) (n : Nat) :
    vecBit (orBytes a b) n = (vecBit a n || vecBit b n) := by
  rw [vecBit_eq, vecBit_eq, vecBit_eq, orBytes_getD a b h, UInt8.toNat_or, Nat.testBit_or]

theorem copyN_eq (n : Nat) (data : Bytes) (h : data.length = n) : copyN n data = data := by
  unfold copyN
  rw [← h]
  simp

theorem vecBit_of_testBytes_false (v : Bytes) (h : testBytes v = false) (n : Nat) : vecBit v n = false := by
  unfold testBytes at h
  rw [List.any_eq_false] at h
  rw [vecBit_eq]
  have : v.getD (n / 8) 0 = 0 := by
    rw [List.getD_eq_getElem?_getD]
    cases hv : v[n / 8]? with
    | none => rfl
    | some x =>
      have hx : x ∈ v := List.mem_of_getElem? hv
      have := h x hx
      simpa using this
  rw [this]
  simp

theorem vecBit_replicate_ff (L n : Nat) : vecBit (List.replicate L (0xff : UInt8)) n = decide (n / 8 < L) := by
  rw [vecBit_eq, List.getD_eq_getElem?_getD, List.getElem?_replicate]
  by_cases h : n / 8 < L
  · simp only [h, if_true, Option.getD_some, decide_true]
    have : 7 - n % 8 < 8 := by omega
    have hh : ∀ k, k < 8 → (0xff : UInt8).toNat.testBit k = true := by decide
    exact hh _ this
  · simp [h]

theorem vecBit_replicate_zero (L n : Nat) : vecBit (List.replicate L (0 : UInt8)) n = false := by
  rw [vecBit_eq, getD_replicate_zero]
  simp

/-! ### one sub-matcher -/

/-- bit `n` of the AND of the three vectors of one alternative. -/
def tripleBit (vec : Nat → Bytes) (bits : Nat × Nat × Nat) (n : Nat) : Bool :=
  vecBit (vec bits.1) n && vecBit (vec bits.2.1) n && vecBit (vec bits.2.2) n

theorem andVector_spec (vec : Nat → Bytes) (size : Nat) (bits : Nat × Nat × Nat)
    (hl : ∀ k ∈ [bits.1, bits.2.1, bits.2.2], (vec k).length = size / 8) :
    (andVector vec size bits).length = size / 8 ∧ ∀ n, vecBit (andVector vec size bits) n = tripleBit vec bits n := by
  have h1 := hl bits.1 (by simp)
  have h2 := hl bits.2.1 (by simp)
  have h3 := hl bits.2.2 (by simp)
  unfold andVector tripleBit
  rw [copyN_eq _ _ h1]
  refine ⟨by rw [andBytes_length, andBytes_length, h1], ?_⟩
  intro n
  rw [vecBit_andBytes _ _ (by rw [andBytes_length]; omega), vecBit_andBytes _ _ (by omega)]

theorem orFold_spec (vec : Nat → Bytes) (size : Nat) (rest : List (Nat × Nat × Nat)) (init : Bytes)
    (hinit : init.length = size / 8)
    (hl : ∀ bits ∈ rest, ∀ k ∈ [bits.1, bits.2.1, bits.2.2], (vec k).length = size / 8) :
    (rest.foldl (fun o bits => orBytes o (andVector vec size bits)) init).length = size / 8 ∧
    ∀ n, vecBit (rest.foldl (fun o bits => orBytes o (andVector vec size bits)) init) n =
      (vecBit init n || rest.any (fun bits => tripleBit vec bits n)) := by
  induction rest generalizing init with
  | nil => exact ⟨hinit, fun n => by simp⟩
  | cons x xs ih =>
    simp only [List.foldl_cons]
    have hx := andVector_spec vec size x (hl x (by simp))
    have hi : (orBytes init (andVector vec size x)).length = size / 8 := by rw [orBytes_length, hinit]
    obtain ⟨l1, l2⟩ := ih _ hi (fun bits hb => hl bits (by simp [hb]))
    refine ⟨l1, ?_⟩
    intro n
    rw [l2 n, vecBit_orBytes _ _ (by omega), hx.2 n, List.any_cons, Bool.or_assoc]

theorem orVector_spec (vec : Nat → Bytes) (size : Nat) (bloom : List (Nat × Nat × Nat))
    (hl : ∀ bits ∈ bloom, ∀ k ∈ [bits.1, bits.2.1, bits.2.2], (vec k).length = size / 8) :
    (orVector vec size bloom).length = size / 8 ∧
    ∀ n, vecBit (orVector vec size bloom) n = bloom.any (fun bits => tripleBit vec bits n) := by
  cases bloom with
  | nil => exact ⟨by simp [orVector], fun n => by simp [orVector, vecBit_replicate_zero]⟩
  | cons x xs =>
    unfold orVector
    have hx := andVector_spec vec size x (hl x (by simp))
    obtain ⟨l1, l2⟩ := orFold_spec vec size xs _ hx.1 (fun bits hb => hl bits (by simp [hb]))
    refine ⟨l1, ?_⟩
    intro n
    rw [l2 n, hx.2 n, List.any_cons]

theorem subMatch_spec (vec : Nat → Bytes) (size : Nat) (bloom : List (Nat × Nat × Nat)) (inp : Bytes)
    (hinp : inp.length = size / 8)
    (hl : ∀ bits ∈ bloom, ∀ k ∈ [bits.1, bits.2.1, bits.2.2], (vec k).length = size / 8) :
    (∀ o, subMatch vec size bloom inp = some o → o.length = size / 8) ∧
    ∀ n, sectionBit (subMatch vec size bloom inp) n = (bloom.any (fun bits => tripleBit vec bits n) && vecBit inp n) := by
  obtain ⟨l1, l2⟩ := orVector_spec vec size bloom hl
  unfold subMatch
  simp only
  constructor
  · intro o ho
    split at ho
    · cases ho; rw [andBytes_length, l1]
    · cases ho
  · intro n
    have hb := vecBit_andBytes (orVector vec size bloom) inp (by omega) n
    split
    · simp only [sectionBit]; rw [hb, l2 n]
    · rename_i ht
      have := vecBit_of_testBytes_false _ (by simpa using ht) n
      simp only [sectionBit]
      rw [← l2 n, ← hb, this]

theorem runFold_spec (vec : Nat → Bytes) (size : Nat) (filters : List (List (Nat × Nat × Nat))) (cur : Option Bytes)
    (hcur : ∀ o, cur = some o → o.length = size / 8)
    (hl : ∀ bloom ∈ filters, ∀ bits ∈ bloom, ∀ k ∈ [bits.1, bits.2.1, bits.2.2], (vec k).length = size / 8) (n : Nat) :
    sectionBit (filters.foldl (fun cur bloom => cur.bind (subMatch vec size bloom)) cur) n =
      (sectionBit cur n && filters.all (fun bloom => bloom.any (fun bits => tripleBit vec bits n))) := by
  induction filters generalizing cur with
  | nil => simp
  | cons f fs ih =>
    simp only [List.foldl_cons, List.all_cons]
    have hl' := fun bloom hb => hl bloom (List.mem_cons_of_mem _ hb)
    cases cur with
    | none =>
      rw [show (none : Option Bytes).bind (subMatch vec size f) = none from rfl, ih none (by simp) hl']
      simp [sectionBit]
    | some inp =>
      have hinp := hcur inp rfl
      obtain ⟨s1, s2⟩ := subMatch_spec vec size f inp hinp (hl f (by simp))
      rw [Option.bind_some, ih _ s1 hl', s2 n]
      simp only [sectionBit]
      rw [Bool.and_comm (f.any _), Bool.and_assoc]

/-- the daisy chain on one section: bit `n` survives iff every group has an alternative whose three vectors have bit `n`. -/
theorem runSection_spec (vec : Nat → Bytes) (size : Nat) (filters : List (List (Nat × Nat × Nat)))
    (hl : ∀ bloom ∈ filters, ∀ bits ∈ bloom, ∀ k ∈ [bits.1, bits.2.1, bits.2.2], (vec k).length = size / 8) (n : Nat) :
    sectionBit (runSection vec size filters) n =
      (decide (n / 8 < size / 8) && filters.all (fun bloom => bloom.any (fun bits => tripleBit vec bits n))) := by
  unfold runSection
  rw [runFold_spec vec size filters _ (by intro o ho; cases ho; simp) hl n]
  simp only [sectionBit]
  rw [vecBit_replicate_ff]

theorem runSection_length (vec : Nat → Bytes) (size : Nat) (filters : List (List (Nat × Nat × Nat)))
    (hl : ∀ bloom ∈ filters, ∀ bits ∈ bloom, ∀ k ∈ [bits.1, bits.2.1, bits.2.2], (vec k).length = size / 8)
    (o : Bytes) (h : runSection vec size filters = some o) : o.length = size / 8 := by
  unfold runSection at h
  suffices hs : ∀ (cur : Option Bytes), (∀ o, cur = some o → o.length = size / 8) →
      ∀ o, filters.foldl (fun cur bloom => cur.bind (subMatch vec size bloom)) cur = some o → o.length = size / 8 from
    hs _ (by intro o ho; cases ho; simp) o h
  clear h
  induction filters with
  | nil => intro cur hc o ho; exact hc o ho
  | cons f fs ih =>
    intro cur hc o ho
    simp only [List.foldl_cons] at ho
    refine ih (fun bloom hb => hl bloom (List.mem_cons_of_mem _ hb)) (cur.bind (subMatch vec size f)) ?_ o ho
    intro o' ho'
    cases cur with
    | none => simp at ho'
    | some inp =>
      exact (subMatch_spec vec size f inp (hc inp rfl) (hl f (by simp))).1 o' ho'

end Aqv.LogFilter

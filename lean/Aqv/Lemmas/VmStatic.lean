/-
  Aqv.Lemmas.VmStatic — the readOnly flag across nested calls (C07): every step executed below a frame that runs with
  interpreter.readOnly = true — in particular everything below a STATICCALL, at any depth, through any mix of CALL / CALLCODE /
  DELEGATECALL / STATICCALL / CREATE — runs with readOnly = true.
-/
import Aqv.Lemmas.VmMain
set_option linter.unusedSimpArgs false
namespace Aqv.Vm
open Aqv.Gen.VmFlags
variable {W : Type}

def AllRo (r : Res W) : Prop := ∀ e ∈ r.trace, e.ro = true

/-- the interpreter used for callee frames keeps read-only frames read-only -/
def RoChild (rc : Frame → Db W → Nat → Res W) : Prop := ∀ fr db t, fr.ro = true → AllRo (rc fr db t)

theorem finishCall_trace (r : Res W) (id : Nat) : (finishCall r id).trace = r.trace := by
  unfold finishCall
  split
  · split <;> rfl
  · split <;> rfl
  · rfl

theorem createStore_trace (env : Env) (i : StepIn W) (r : Res W) : (createStore env i r).trace = r.trace :=
  (createStore_spec env i r).1

theorem createFinish_trace (env : Env) (id : Nat) (mx : Bool) (r1 : Res W) : (createFinish env id mx r1).trace = r1.trace := by
  unfold createFinish
  simp only
  (repeat' split) <;> rfl

theorem runCode_ro {rc : Frame → Db W → Nat → Res W} (h : RoChild rc) (i : StepIn W) (gas depth : Nat) (db : Db W) (t : Nat) :
    AllRo (runCode rc i gas depth true db t) := by
  unfold runCode
  split
  · split
    · intro e he; cases he
    · split <;> (intro e he; cases he)
  · split
    · intro e he; cases he
    · exact h _ db t rfl

theorem callWrap_ro {env : Env} {rc : Frame → Db W → Nat → Res W} (h : RoChild rc) (k : CallKind) (i : StepIn W) (depth : Nat)
    (ro : Bool) (gas : Nat) (valueNZ : Bool) (db : Db W) (t : Nat) (hro : (ro || k == .static) = true) :
    AllRo (callWrap env rc k i depth ro gas valueNZ db t) := by
  unfold callWrap
  split
  · intro e he; cases he
  · split
    · intro e he; cases he
    · simp only [Db.snapshot, hro]
      split
      · intro e he; cases he
      · intro e he
        rw [finishCall_trace] at he
        exact runCode_ro h i gas depth _ t e he

theorem createWrap_ro {env : Env} {rc : Frame → Db W → Nat → Res W} (h : RoChild rc) (i : StepIn W) (depth : Nat)
    (gas : Nat) (db : Db W) (t : Nat) : AllRo (createWrap env rc i depth true gas db t) := by
  unfold createWrap
  split
  · intro e he; cases he
  · split
    · intro e he; cases he
    · split
      · intro e he; cases he
      · dsimp only [Db.snapshot]
        generalize db.app i.nonceEff = db0
        generalize (Db.app (W := W) ⟨db0.cur, (db0.next, db0.cur) :: db0.revs, db0.next + 1⟩ i.xferEff) = db2
        have hr0 : AllRo (if i.codeEmpty = true then (⟨.ok, gas, db2, t, 0, []⟩ : Res W)
            else rc (newFrame gas (depth + 1) true) db2 t) := by
          split
          · intro e he; cases he
          · exact h _ db2 t rfl
        generalize (if i.codeEmpty = true then (⟨.ok, gas, db2, t, 0, []⟩ : Res W)
            else rc (newFrame gas (depth + 1) true) db2 t) = r0 at hr0
        split
        · exact hr0
        · intro e he
          rw [createFinish_trace, createStore_trace] at he
          exact hr0 e he

theorem stepWith_ro {env : Env} (o : Nat → StepIn W) {rc : Frame → Db W → Nat → Res W} (h : RoChild rc)
    (fr : Frame) (db : Db W) (t : Nat) (hro : fr.ro = true) : AllRo (stepWith env o rc fr db t) := by
  unfold stepWith
  simp only
  cases hpre : pre env (o t) fr db t with
  | stop r =>
    simp only
    intro e he
    rw [(pre_stop hpre).2.1] at he; cases he
  | go f g ms db1 =>
    simp only
    have hev : (eventOf fr (o t) f g ms).ro = true := hro
    have hfr1 : ∀ x, ({ paidFrame fr f g ms with gas := x } : Frame).ro = true := fun _ => hro
    by_cases hcr : f.execFn = .opCreate
    · simp only [hcr, if_true, hro]
      generalize (if env.eip150 = true then (paidFrame fr f g ms).gas - (paidFrame fr f g ms).gas / 64 else (paidFrame fr f g ms).gas) = fwd
      have hc := createWrap_ro (env := env) h (o t) fr.depth fwd db1 (t + 1)
      generalize createWrap env rc (o t) fr.depth true fwd db1 (t + 1) = r at hc
      split
      · intro e he
        rcases List.mem_cons.mp he with rfl | he
        · exact hev
        · exact hc e he
      · intro e he
        rcases List.mem_cons.mp he with rfl | he
        · exact hev
        · rcases List.mem_append.mp he with he | he
          · exact hc e he
          · exact h _ r.db r.tick (hfr1 _) e he
    · simp only [hcr, if_false]
      cases hk : execKind f.execFn with
      | some k =>
        simp only [hro]
        generalize (if ((k == CallKind.call || k == CallKind.callcode) && valueNZOf f (o t).args) = true then
            (g.callGasTemp + callStipend) % two64 else g.callGasTemp) = cg
        have hc := callWrap_ro (env := env) h k (o t) fr.depth true cg
          ((k == CallKind.call || k == CallKind.callcode) && valueNZOf f (o t).args) db1 (t + 1) (by simp)
        generalize callWrap env rc k (o t) fr.depth true cg
          ((k == CallKind.call || k == CallKind.callcode) && valueNZOf f (o t).args) db1 (t + 1) = r at hc
        split
        · intro e he
          rcases List.mem_cons.mp he with rfl | he
          · exact hev
          · exact hc e he
        · intro e he
          rcases List.mem_cons.mp he with rfl | he
          · exact hev
          · rcases List.mem_append.mp he with he | he
            · exact hc e he
            · exact h _ r.db r.tick (hfr1 _) e he
      | none =>
        simp only
        cases hx : execLocal f (o t) (paidFrame fr f g ms) db1 t (eventOf fr (o t) f g ms) with
        | inl r =>
          simp only
          intro e he
          rw [(execLocal_inl hx).2.1] at he
          simp at he; rw [he]; exact hev
        | inr db2 =>
          simp only
          intro e he
          rcases List.mem_cons.mp he with rfl | he
          · exact hev
          · exact h (paidFrame fr f g ms) db2 (t + 1) hro e he

theorem run_ro (env : Env) (o : Nat → StepIn W) : ∀ fuel, RoChild (run env o fuel) := by
  intro fuel
  induction fuel with
  | zero => intro fr db t _ e he; rw [run_zero] at he; cases he
  | succ n ih => intro fr db t hro; rw [run_succ]; exact stepWith_ro o ih fr db t hro

end Aqv.Vm

/-
  Aqv.Lemmas.Rpc — table-independent facts about the model of the RPC signing lock-down (C18).
  Everything here holds for every `Params` / every method; the generated table enters only in Aqv.Props.C18.
-/
import Aqv.Model.Rpc
namespace Aqv.Lemmas.Rpc
open Aqv.Model.Rpc

/-- a registered, protected, non-subscription method implies that the caller was allowed. -/
theorem allowed_of_exposed_protected (P : Params) (k : Kind) (cfg : Cfg) (env : Env) (t : Transport) (m : Method)
    (hx : exposed P k cfg env t m = true) (hs : m.isSub = false) (hp : isProtected P m.goName = true) :
    allowed P env t = true := by
  simp only [exposed, passesFilter, hs, hp, Bool.and_eq_true, Bool.not_true, Bool.false_or, Bool.not_eq_true'] at hx
  exact hx.2.2

/-- when the flag table is the designated one, "allowed" is "opted in". -/
theorem optedIn_of_allowed (P : Params) (hf : ∀ t, P.flagOf t = some (designated t)) (env : Env) (t : Transport)
    (h : allowed P env t = true) : optedIn env t = true := by
  simpa [allowed, optedIn, hf t] using h

theorem allowed_of_optedIn (P : Params) (hf : ∀ t, P.flagOf t = some (designated t)) (env : Env) (t : Transport)
    (h : optedIn env t = true) : allowed P env t = true := by
  simpa [allowed, optedIn, hf t] using h

/-- the core implication, for an arbitrary table: every exposed method that is protected (and not a subscription) needs the opt-in. -/
theorem optedIn_of_exposed_protected (P : Params) (hf : ∀ t, P.flagOf t = some (designated t))
    (k : Kind) (cfg : Cfg) (env : Env) (t : Transport) (m : Method)
    (hx : exposed P k cfg env t m = true) (hs : m.isSub = false) (hp : isProtected P m.goName = true) :
    optedIn env t = true :=
  optedIn_of_allowed P hf env t (allowed_of_exposed_protected P k cfg env t m hx hs hp)

/-- setting a variable other than the one a transport is gated by does not change what that transport exposes. -/
theorem exposed_set_other (P : Params) (k : Kind) (cfg : Cfg) (env : Env) (t : Transport) (m : Method) (v : EnvVar) (b : Bool)
    (hv : P.flagOf t ≠ some v) : exposed P k cfg (env.set v b) t m = exposed P k cfg env t m := by
  have ha : allowed P (env.set v b) t = allowed P env t := by
    unfold allowed
    cases hft : P.flagOf t with
    | none => rfl
    | some w =>
      have hne : w ≠ v := by intro h; apply hv; rw [hft, h]
      cases w <;> cases v <;> first | (exact absurd rfl hne) | rfl
  simp only [exposed, passesFilter, ha]

/-- an opted-in transport does register the protected methods of every module it serves. -/
theorem exposed_of_optedIn (P : Params) (hf : ∀ t, P.flagOf t = some (designated t))
    (k : Kind) (cfg : Cfg) (env : Env) (t : Transport) (m : Method)
    (ho : optedIn env t = true) (hb : m.builtin = false) (hm : moduleAllowed cfg t m = true) (hp : present k m = true) :
    exposed P k cfg env t m = true := by
  simp [exposed, passesFilter, allowed_of_optedIn P hf env t ho, hb, hm, hp]

/-- membership in a filtered list, the form used to lift facts decided on `signers` to the whole table. -/
theorem mem_filter_of (p : Method → Bool) (l r : List Method) (h : l.filter p = r) (m : Method) (hm : m ∈ l) (hp : p m = true) :
    m ∈ r := by
  rw [← h]; exact List.mem_filter.mpr ⟨hm, hp⟩

/-- Impl ⊑ Spec for the reading of a variable: sense.EnvBool is the documented reading, for every value. -/
theorem envBool_eq_envOn (v : Option String) : envBool v = envOn v := by
  cases v with
  | none => rfl
  | some x =>
    simp only [envBool, envOn, boolString]
    generalize x.toLower = l
    by_cases h0 : l = ""
    · simp [h0]
    · have hne : (l != "") = true := by simp [h0]
      by_cases ht : l ∈ truthyWords
      · have hf : l ∉ falsyWords := by
          simp only [truthyWords, List.mem_cons, List.mem_nil_iff, or_false] at ht
          rcases ht with h | h | h | h | h | h <;> rw [h] <;> decide
        have ht' : l ∈ truthyWords := ht
        simp [h0, ht', hf]
      · by_cases hf : l ∈ falsyWords
        · simp [h0, ht, hf]
        · simp [h0, ht, hf]

theorem optedIn_read (r : RawEnv) (t : Transport) : optedIn r.read t = optedInRaw r t := by
  cases t <;> simp [optedIn, optedInRaw, designated, RawEnv.read, RawEnv.get, Env.get, envBool_eq_envOn]

end Aqv.Lemmas.Rpc

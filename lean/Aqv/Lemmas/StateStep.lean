/-
  Aqv.Lemmas.StateStep — every mutator of the StateDB model is an `Ext` step: the journal entries it appends undo it
  (up to `Sim`). This is the `journal_complete` half of C09.
-/
import Aqv.Lemmas.State
namespace Aqv.State

/-- a deleted cached object (tombstone left by Finalise/Commit) is absent from the account trie. -/
def Coherent (s : SDB) : Prop := ∀ a o, s.objs a = some o → o.deleted = true → s.trie a = none

theorem look_none_trie {s : SDB} (hc : Coherent s) {a : Addr} (h : look s a = none) : s.trie a = none := by
  unfold look at h
  split at h
  · rename_i o ho
    split at h
    · exact hc a o ho (by assumption)
    · simp at h
  · cases ht : s.trie a <;> simp [ht] at h; rfl

theorem createObject_none (u : SDB) (a : Addr) (hl : look u a = none) :
    createObject u a = (putObj (push (markDirty u a) (.createObject a)) a { blank with armed := false }, { blank with armed := false }, none) := by
  simp [createObject, hl]

theorem createObject_some (u : SDB) (a : Addr) (p : Obj) (hl : look u a = some p) :
    createObject u a = (putObj (push (markDirty u a) (.resetObject a p)) a { blank with armed := false }, { blank with armed := false }, some p) := by
  simp [createObject, hl]

theorem ext_createObject_none (u : SDB) (a : Addr) (hc : Coherent u) (hl : look u a = none) :
    Ext u (createObject u a).1 ∧ look (createObject u a).1 a = some { blank with armed := false } := by
  have ht := look_none_trie hc hl
  rw [createObject_none u a hl]
  refine ⟨⟨⟨[.createObject a], by simp [push], ?_, by simp [EntryOK]⟩, by simp [push], by simp [push], by simp [push],
    fun b q hb => by simpa [Tomb, push] using tomb_putObj (o := { blank with armed := false }) rfl hb⟩, ?_⟩
  · rw [List.length_singleton, undoN_succ_cons 0 _ (.createObject a) u.journal (by simp [push]), undoN_zero]
    refine ⟨by simp [undo, push], by simp [undo, push], by simp [undo, push], by simp [undo, push], by simp [undo, push],
      by simp [undo, push], by simp [undo, push], fun b => ?_⟩
    by_cases hb : b = a
    · subst hb; rw [hl]; simp [undo, look, push, putObj, ht, OOEq]
    · simp only [undo, look, push, putObj, upd, hb, if_false, markDirty_objs, markDirty_trie]
      exact OOEq.rfl' _
  · rw [look_putObj]; simp [blank]

theorem ext_createObject_some (u : SDB) (a : Addr) (p : Obj) (hl : look u a = some p) :
    Ext u (createObject u a).1 ∧ look (createObject u a).1 a = some { blank with armed := false } := by
  have hpd := look_not_deleted hl
  rw [createObject_some u a p hl]
  refine ⟨⟨⟨[.resetObject a p], by simp [push], ?_, by simpa [EntryOK] using hpd⟩, by simp [push], by simp [push], by simp [push],
    fun b q hb => by simpa [Tomb, push] using tomb_putObj (o := { blank with armed := false }) rfl hb⟩, ?_⟩
  · rw [List.length_singleton, undoN_succ_cons 0 _ (.resetObject a p) u.journal (by simp [push]), undoN_zero]
    refine ⟨by simp [undo, push], by simp [undo, push], by simp [undo, push], by simp [undo, push], by simp [undo, push],
      by simp [undo, push], by simp [undo, push], fun b => ?_⟩
    simp only [undo]
    rw [look_putObj]
    by_cases hb : b = a
    · subst hb; rw [hl]; simp [hpd, OOEq]; exact ObjEq.rfl' p
    · simp only [hb, if_false, look, push, putObj, upd, markDirty_objs, markDirty_trie]
      exact OOEq.rfl' _
  · rw [look_putObj]; simp [blank]

theorem ext_getOrNew (u : SDB) (a : Addr) (hc : Coherent u) :
    Ext u (getOrNew u a).1 ∧ look (getOrNew u a).1 a = some (getOrNew u a).2 := by
  unfold getOrNew
  cases hl : look u a with
  | some o => exact ⟨Ext.rfl' u, hl⟩
  | none =>
    obtain ⟨h1, h2⟩ := ext_createObject_none u a hc hl
    simp only
    refine ⟨h1, ?_⟩
    rw [h2, createObject_none u a hl]


theorem sim_of_look (w u : SDB) (a : Addr) (o : Obj) (h1 : w.trie = u.trie) (h2 : w.refund = u.refund) (h3 : w.logs = u.logs)
    (h4 : w.logSize = u.logSize) (h5 : w.preimages = u.preimages) (h6 : w.thash = u.thash) (h7 : w.fault = u.fault)
    (h8 : ∀ b, b ≠ a → look w b = look u b) (hl : look u a = some o) (h9 : ∃ q, look w a = some q ∧ ObjEq q o) : Sim w u := by
  refine ⟨h1, h2, h3, h4, h5, h6, h7, fun b => ?_⟩
  by_cases hb : b = a
  · subst hb; obtain ⟨q, hq, hqo⟩ := h9; rw [hq, hl]; exact hqo
  · rw [h8 b hb]; exact OOEq.rfl' _

theorem look_setDirty (s : SDB) (d : List Addr) (a : Addr) : look { s with dirty := d } a = look s a := rfl

theorem ext_touch (u : SDB) (a : Addr) (o : Obj) (hl : look u a = some o) : Ext u (touch u a o) := by
  have hod := look_not_deleted hl
  unfold touch
  refine ⟨⟨[.touch a o.touched (!o.armed)], by simp [push], ?_, by simp [EntryOK]⟩, by simp [push], by simp [push], by simp [push],
    fun b q hb => by simpa [Tomb, push] using tomb_writeObj (o := { o with touched := true }) hod hb⟩
  rw [List.length_singleton, undoN_succ_cons 0 _ (.touch a o.touched (!o.armed)) u.journal (by simp [push]), undoN_zero]
  generalize hw : ({ writeObj (push u (.touch a o.touched (!o.armed))) a { o with touched := true } with journal := u.journal } : SDB) = w
  have hlw : look w a = some { o with touched := true, armed := false } := by
    subst hw; rw [look_setJournal, look_writeObj]; simp [hod]
  have hlb : ∀ b, b ≠ a → look w b = look u b := by
    intro b hb; subst hw; rw [look_setJournal, look_writeObj]; simp [hb]
  have f1 : w.trie = u.trie := by subst hw; simp [push]
  have f2 : w.refund = u.refund := by subst hw; simp [push]
  have f3 : w.logs = u.logs := by subst hw; simp [push]
  have f4 : w.logSize = u.logSize := by subst hw; simp [push]
  have f5 : w.preimages = u.preimages := by subst hw; simp [push]
  have f6 : w.thash = u.thash := by subst hw; simp [push]
  have f7 : w.fault = u.fault := by subst hw; simp [push]
  simp only [undo]
  split
  · rw [hlw]
    simp only
    split
    · refine sim_of_look _ u a o f1 f2 f3 f4 f5 f6 f7 (fun b hb => ?_) hl ⟨{ o with touched := o.touched, armed := false }, ?_, ⟨rfl, rfl, rfl, rfl, fun _ => rfl⟩⟩
      · rw [look_setDirty, look_putObj]; simp [hb, hlb b hb]
      · rw [look_setDirty, look_putObj]; simp [hod]
    · refine sim_of_look _ u a o f1 f2 f3 f4 f5 f6 f7 (fun b hb => ?_) hl ⟨{ o with touched := o.touched, armed := false }, ?_, ⟨rfl, rfl, rfl, rfl, fun _ => rfl⟩⟩
      · rw [look_putObj]; simp [hb, hlb b hb]
      · rw [look_putObj]; simp [hod]
  · exact sim_of_look _ u a o f1 f2 f3 f4 f5 f6 f7 hlb hl ⟨_, hlw, ⟨rfl, rfl, rfl, rfl, fun _ => rfl⟩⟩

theorem undo_balance_some (v : SDB) (a : Addr) (prev : Int) (q : Obj) (h : look v a = some q) :
    undo (.balance a prev) v = writeObj v a { q with balance := prev } := by simp [undo, h]
theorem undo_nonce_some (v : SDB) (a : Addr) (prev : Nat) (q : Obj) (h : look v a = some q) :
    undo (.nonce a prev) v = writeObj v a { q with nonce := prev } := by simp [undo, h]
theorem undo_code_some (v : SDB) (a : Addr) (prev : Bytes) (q : Obj) (h : look v a = some q) :
    undo (.code a prev) v = writeObj v a { q with code := prev } := by simp [undo, h]
theorem undo_storage_some (v : SDB) (a : Addr) (k : Slot) (prev : Word) (q : Obj) (h : look v a = some q) :
    undo (.storage a k prev) v = writeObj v a { q with dirtySt := upd q.dirtySt k (some prev) } := by simp [undo, h]
theorem undo_suicide_some (v : SDB) (a : Addr) (prev : Bool) (pb : Int) (q : Obj) (h : look v a = some q) :
    undo (.suicide a prev pb) v = writeObj v a { q with suicided := prev, balance := pb } := by simp [undo, h]

theorem ext_setBalanceJ (u : SDB) (a : Addr) (o : Obj) (v : Int) (hl : look u a = some o) : Ext u (setBalanceJ u a o v) := by
  have hod := look_not_deleted hl
  exact ext_write u a o { o with balance := v } (.balance a o.balance) (fun q => { q with balance := o.balance }) hl hod
    (fun w q h => undo_balance_some w a _ q h) ⟨rfl, rfl, rfl, rfl, fun _ => rfl⟩ hod trivial

theorem ext_addBalance (u : SDB) (a : Addr) (v : Int) (hc : Coherent u) : Ext u (addBalance u a v) := by
  obtain ⟨h1, h2⟩ := ext_getOrNew u a hc
  unfold addBalance
  simp only
  split
  · split
    · exact h1.trans (ext_touch _ a _ h2)
    · exact h1
  · exact h1.trans (ext_setBalanceJ _ a _ _ h2)

theorem ext_subBalance (u : SDB) (a : Addr) (v : Int) (hc : Coherent u) : Ext u (subBalance u a v) := by
  obtain ⟨h1, h2⟩ := ext_getOrNew u a hc
  unfold subBalance
  simp only
  split
  · exact h1
  · exact h1.trans (ext_setBalanceJ _ a _ _ h2)

theorem ext_setBalance (u : SDB) (a : Addr) (v : Int) (hc : Coherent u) : Ext u (setBalance u a v) := by
  obtain ⟨h1, h2⟩ := ext_getOrNew u a hc
  exact h1.trans (ext_setBalanceJ _ a _ _ h2)

theorem ext_setNonce (u : SDB) (a : Addr) (n : Nat) (hc : Coherent u) : Ext u (setNonce u a n) := by
  obtain ⟨h1, h2⟩ := ext_getOrNew u a hc
  have hod := look_not_deleted h2
  refine h1.trans ?_
  exact ext_write _ a _ { (getOrNew u a).2 with nonce := n } (.nonce a (getOrNew u a).2.nonce)
    (fun q => { q with nonce := (getOrNew u a).2.nonce }) h2 hod
    (fun w q h => undo_nonce_some w a _ q h) ⟨rfl, rfl, rfl, rfl, fun _ => rfl⟩ hod trivial

theorem ext_setCode (u : SDB) (a : Addr) (c : Bytes) (hc : Coherent u) : Ext u (setCode u a c) := by
  obtain ⟨h1, h2⟩ := ext_getOrNew u a hc
  have hod := look_not_deleted h2
  refine h1.trans ?_
  exact ext_write _ a _ { (getOrNew u a).2 with code := c } (.code a (getOrNew u a).2.code)
    (fun q => { q with code := (getOrNew u a).2.code }) h2 hod
    (fun w q h => undo_code_some w a _ q h) ⟨rfl, rfl, rfl, rfl, fun _ => rfl⟩ hod trivial

theorem ext_setState (u : SDB) (a : Addr) (k : Slot) (v : Word) (hc : Coherent u) : Ext u (setState u a k v) := by
  obtain ⟨h1, h2⟩ := ext_getOrNew u a hc
  have hod := look_not_deleted h2
  refine h1.trans ?_
  refine ext_write _ a _ { (getOrNew u a).2 with dirtySt := upd (getOrNew u a).2.dirtySt k (some v) }
    (.storage a k (getState (getOrNew u a).2 k))
    (fun q => { q with dirtySt := upd q.dirtySt k (some (getState (getOrNew u a).2 k)) }) h2 hod
    (fun w q h => undo_storage_some w a k _ q h) ⟨rfl, rfl, rfl, rfl, fun k' => ?_⟩ hod trivial
  simp only [getState, upd]
  by_cases hk : k' = k
  · subst hk; simp
  · simp [hk]

theorem ext_suicide (u : SDB) (a : Addr) : Ext u (suicide u a) := by
  unfold suicide
  cases hl : look u a with
  | none => exact Ext.rfl' u
  | some o =>
    have hod := look_not_deleted hl
    exact ext_write u a o { o with suicided := true, balance := 0 } (.suicide a o.suicided o.balance)
      (fun q => { q with suicided := o.suicided, balance := o.balance }) hl hod
      (fun w q h => undo_suicide_some w a _ _ q h) ⟨rfl, rfl, rfl, rfl, fun _ => rfl⟩ hod trivial

theorem ext_createAccount (u : SDB) (a : Addr) (hc : Coherent u) : Ext u (createAccount u a) := by
  unfold createAccount
  cases hl : look u a with
  | none =>
    rw [createObject_none u a hl]
    simp only
    have := (ext_createObject_none u a hc hl).1
    rwa [createObject_none u a hl] at this
  | some p =>
    have hpd := look_not_deleted hl
    rw [createObject_some u a p hl]
    simp only
    refine ⟨⟨[.resetObject a p], by simp [push], ?_, by simpa [EntryOK] using hpd⟩, by simp [push], by simp [push], by simp [push],
      fun b q hb => ?_⟩
    rotate_left
    · have h1 := tomb_putObj (o := { ({ blank with armed := false } : Obj) with balance := p.balance }) rfl hb
      have h2 := tomb_putObj (o := { blank with armed := false }) rfl h1
      simpa [Tomb, push] using h2
    rw [List.length_singleton, undoN_succ_cons 0 _ (.resetObject a p) u.journal (by simp [push]), undoN_zero]
    refine ⟨by simp [undo, push], by simp [undo, push], by simp [undo, push], by simp [undo, push], by simp [undo, push],
      by simp [undo, push], by simp [undo, push], fun b => ?_⟩
    simp only [undo]
    rw [look_putObj]
    by_cases hb : b = a
    · subst hb; rw [hl]; simp [hpd, OOEq]; exact ObjEq.rfl' p
    · simp only [hb, if_false, look, push, putObj, upd, markDirty_objs, markDirty_trie]
      exact OOEq.rfl' _

theorem ext_addRefund (u : SDB) (g : Nat) : Ext u (addRefund u g) := by
  refine ⟨⟨[.refund u.refund], by simp [addRefund, push], ?_, by simp [EntryOK]⟩, by simp [addRefund, push], by simp [addRefund, push],
    by simp [addRefund, push], fun b q hb => by simpa [Tomb, addRefund, push] using hb⟩
  rw [List.length_singleton, undoN_succ_cons 0 _ (.refund u.refund) u.journal (by simp [addRefund, push]), undoN_zero]
  exact Sim.of_fields rfl rfl rfl rfl rfl rfl rfl rfl

theorem ext_addLog (u : SDB) (t : Nat) : Ext u (addLog u t) := by
  refine ⟨⟨[.addLog u.thash], by simp [addLog, push], ?_, by simp [EntryOK]⟩, by simp [addLog, push], by simp [addLog, push],
    by simp [addLog, push], fun b q hb => by simpa [Tomb, addLog, push] using hb⟩
  rw [List.length_singleton, undoN_succ_cons 0 _ (.addLog u.thash) u.journal (by simp [addLog, push]), undoN_zero]
  exact Sim.of_fields rfl rfl rfl (by simp [undo, addLog, push, popLog]) (by simp [undo, addLog, push]) rfl rfl rfl

theorem ext_addPreimage (u : SDB) (h p : Nat) : Ext u (addPreimage u h p) := by
  unfold addPreimage
  cases hp : u.preimages h with
  | some _ => exact Ext.rfl' u
  | none =>
    simp only
    refine ⟨⟨[.addPreimage h], by simp [push], ?_, by simp [EntryOK]⟩, by simp [push], by simp [push], by simp [push],
      fun b q hb => by simpa [Tomb, push] using hb⟩
    rw [List.length_singleton, undoN_succ_cons 0 _ (.addPreimage h) u.journal (by simp [push]), undoN_zero]
    refine Sim.of_fields rfl rfl rfl rfl rfl ?_ rfl rfl
    funext x
    simp only [undo, push, upd]
    by_cases hx : x = h
    · subst hx; simp [hp]
    · simp [hx]

/-- `journal_complete` (core): every mutator extends the journal by entries that undo it. -/
theorem ext_applyMut (m : Mut) (u : SDB) (hc : Coherent u) : Ext u (applyMut m u) := by
  cases m with
  | createAccount a => exact ext_createAccount u a hc
  | addBalance a v => exact ext_addBalance u a v hc
  | subBalance a v => exact ext_subBalance u a v hc
  | setBalance a v => exact ext_setBalance u a v hc
  | setNonce a n => exact ext_setNonce u a n hc
  | setCode a c => exact ext_setCode u a c hc
  | setState a k v => exact ext_setState u a k v hc
  | suicide a => exact ext_suicide u a
  | addRefund g => exact ext_addRefund u g
  | addLog t => exact ext_addLog u t
  | addPreimage h p => exact ext_addPreimage u h p

end Aqv.State

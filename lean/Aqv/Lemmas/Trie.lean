/-
  Aqv.Lemmas.Trie — basic lemmas for the trie model: keys (Hex/Term/prefixLen), children functions, the `pos` loop,
  and the bridge between the Go-shaped workers (`insert`/`delete`: dirty flag + panic outcome) and their functional
  reading (`ins`/`del`).
-/
import Aqv.Model.Trie
namespace Aqv.Trie
open Aqv

/-! ### keys -/

theorem T_val : (T : Nib).val = 16 := rfl

theorem hex_nil : Hex [] := by intro x hx; cases hx

theorem hex_cons {x : Nib} {k : List Nib} : Hex (x :: k) ↔ x ≠ T ∧ Hex k := by
  unfold Hex
  constructor
  · intro h
    exact ⟨h x (List.mem_cons_self ..), fun y hy => h y (List.mem_cons_of_mem _ hy)⟩
  · intro ⟨h1, h2⟩ y hy
    cases hy with
    | head => exact h1
    | tail _ h => exact h2 y h

theorem hex_append {a b : List Nib} : Hex (a ++ b) ↔ Hex a ∧ Hex b := by
  induction a with
  | nil => simp [hex_nil]
  | cons x a ih => simp [hex_cons, ih, and_assoc]

theorem term_cons {x : Nib} {r : List Nib} : Term (x :: r) ↔ (r = [] ∧ x = T) ∨ (r ≠ [] ∧ x ≠ T ∧ Term r) := by
  cases r with
  | nil => simp [Term]
  | cons y r => simp [Term]

theorem term_ne_nil {k : List Nib} (h : Term k) : k ≠ [] := by
  intro e; subst e; exact h

theorem term_T_cons {r : List Nib} : Term (T :: r) ↔ r = [] := by
  rw [term_cons]; simp

theorem term_single : Term [T] := by simp [Term]

/-- a terminated key is `hex ++ [T]`. -/
theorem term_iff {k : List Nib} : Term k ↔ ∃ h, Hex h ∧ k = h ++ [T] := by
  induction k with
  | nil => simp [Term]
  | cons x r ih =>
    rw [term_cons]
    constructor
    · rintro (⟨rfl, rfl⟩ | ⟨hr, hx, ht⟩)
      · exact ⟨[], hex_nil, rfl⟩
      · obtain ⟨h, hh, rfl⟩ := ih.1 ht
        exact ⟨x :: h, hex_cons.2 ⟨hx, hh⟩, rfl⟩
    · rintro ⟨h, hh, e⟩
      cases h with
      | nil =>
        simp at e
        left; exact ⟨e.2, e.1⟩
      | cons y h =>
        simp at e
        obtain ⟨rfl, rfl⟩ := e
        right
        refine ⟨by simp, (hex_cons.1 hh).1, ih.2 ⟨h, (hex_cons.1 hh).2, rfl⟩⟩

theorem term_append_hex {a b : List Nib} (ha : Hex a) (hb : Term b) : Term (a ++ b) := by
  induction a with
  | nil => simpa using hb
  | cons x a ih =>
    have := hex_cons.1 ha
    show Term (x :: (a ++ b))
    rw [term_cons]
    right
    exact ⟨by simp [term_ne_nil hb], this.1, ih this.2⟩

/-- splitting a terminated key after a proper prefix: the prefix is hex, the rest is terminated. -/
theorem term_split {a b : List Nib} (h : Term (a ++ b)) (hb : b ≠ []) : Hex a ∧ Term b := by
  induction a with
  | nil => exact ⟨hex_nil, by simpa using h⟩
  | cons x a ih =>
    have h' : Term (x :: (a ++ b)) := h
    rw [term_cons] at h'
    rcases h' with ⟨e, _⟩ | ⟨_, hx, ht⟩
    · simp [hb] at e
    · have := ih ht
      exact ⟨hex_cons.2 ⟨hx, this.1⟩, this.2⟩

theorem term_not_hex {k : List Nib} (h : Term k) : ¬ Hex k := by
  obtain ⟨a, _, rfl⟩ := term_iff.1 h
  intro hh
  exact (hex_append.1 hh).2 T (by simp) rfl

/-- a terminated key has no proper terminated extension / prefix. -/
theorem term_prefix_eq {a b : List Nib} (ha : Term a) (hab : Term (a ++ b)) : b = [] := by
  by_cases hb : b = []
  · exact hb
  · exact absurd (term_split hab hb).1 (term_not_hex ha)

theorem term_hasTerm {k : List Nib} (h : Term k) : hasTerm k = true := by
  obtain ⟨a, _, rfl⟩ := term_iff.1 h
  simp [hasTerm, List.getLast?_append]

theorem hex_not_hasTerm {k : List Nib} (h : Hex k) : hasTerm k = false := by
  unfold hasTerm
  cases hl : k.getLast? with
  | none => simp
  | some x =>
    have : x ∈ k := List.mem_of_getLast? hl
    have := h x this
    simp [this]

/-! ### prefixLen -/

/-- the common-prefix decomposition computed by `prefixLen`. -/
theorem prefixLen_decomp (key nk : List Nib) :
    ∃ cp ka kb, key = cp ++ ka ∧ nk = cp ++ kb ∧ prefixLen key nk = cp.length ∧
      (ka = [] ∨ kb = [] ∨ ka.head? ≠ kb.head?) := by
  induction key generalizing nk with
  | nil => exact ⟨[], [], nk, rfl, rfl, by simp [prefixLen], Or.inl rfl⟩
  | cons a as ih =>
    cases nk with
    | nil => exact ⟨[], a :: as, [], rfl, rfl, by simp [prefixLen], Or.inr (Or.inl rfl)⟩
    | cons b bs =>
      by_cases hab : a = b
      · subst hab
        obtain ⟨cp, ka, kb, h1, h2, h3, h4⟩ := ih bs
        exact ⟨a :: cp, ka, kb, by simp [h1], by simp [h2], by simp [prefixLen, h3], h4⟩
      · exact ⟨[], a :: as, b :: bs, rfl, rfl, by simp [prefixLen, hab], Or.inr (Or.inr (by simp [hab]))⟩

theorem prefixLen_append_left (cp ka kb : List Nib) : prefixLen (cp ++ ka) (cp ++ kb) = cp.length + prefixLen ka kb := by
  induction cp with
  | nil => simp
  | cons x cp ih => simp [prefixLen, ih]; omega

theorem prefixLen_le_right (a b : List Nib) : prefixLen a b ≤ b.length := by
  induction a generalizing b with
  | nil => simp [prefixLen]
  | cons x a ih =>
    cases b with
    | nil => simp [prefixLen]
    | cons y b =>
      simp only [prefixLen]
      split
      · have := ih b; simp; omega
      · simp

theorem prefixLen_le_left (a b : List Nib) : prefixLen a b ≤ a.length := by
  induction a generalizing b with
  | nil => simp [prefixLen]
  | cons x a ih =>
    cases b with
    | nil => simp [prefixLen]
    | cons y b =>
      simp only [prefixLen]
      split
      · have := ih b; simp; omega
      · simp

/-! ### children functions -/

@[simp] theorem setChild_same (cs : Nib → Node) (i : Nib) (n : Node) : setChild cs i n i = n := by simp [setChild]

theorem setChild_other (cs : Nib → Node) {i j : Nib} (n : Node) (h : j ≠ i) : setChild cs i n j = cs j := by
  simp [setChild, h]

theorem setChild_self (cs : Nib → Node) (i : Nib) : setChild cs i (cs i) = cs := by
  funext j; unfold setChild; split
  · next h => rw [h]
  · rfl

@[simp] theorem emptyCs_apply (i : Nib) : emptyCs i = .nil := rfl

theorem isNil_iff {n : Node} : n.isNil = true ↔ n = .nil := by
  cases n <;> simp [Node.isNil]

/-! ### the `pos` loop -/

theorem filter_eq_singleton {α} [DecidableEq α] (p : α → Bool) (l : List α) (hl : l.Nodup) (i : α) :
    l.filter p = [i] ↔ (i ∈ l ∧ p i = true ∧ ∀ j ∈ l, p j = true → j = i) := by
  induction l with
  | nil => simp
  | cons x l ih =>
    have hx : x ∉ l := (List.nodup_cons.1 hl).1
    have hl' := (List.nodup_cons.1 hl).2
    by_cases hp : p x = true
    · rw [List.filter_cons_of_pos hp]
      constructor
      · intro h
        simp only [List.cons.injEq] at h
        obtain ⟨rfl, h2⟩ := h
        refine ⟨List.mem_cons_self .., hp, ?_⟩
        intro j hj hpj
        cases hj with
        | head => rfl
        | tail _ hj =>
          have := List.filter_eq_nil_iff.1 h2 j hj
          exact absurd hpj this
      · rintro ⟨_, _, h3⟩
        have hxi : x = i := h3 x (List.mem_cons_self ..) hp
        subst hxi
        simp only [List.cons.injEq, true_and]
        apply List.filter_eq_nil_iff.2
        intro a ha hpa
        have := h3 a (List.mem_cons_of_mem _ ha) hpa
        subst this
        exact hx ha
    · rw [List.filter_cons_of_neg hp, ih hl']
      constructor
      · rintro ⟨h1, h2, h3⟩
        refine ⟨List.mem_cons_of_mem _ h1, h2, ?_⟩
        intro j hj hpj
        cases hj with
        | head => exact absurd hpj hp
        | tail _ hj => exact h3 j hj hpj
      · rintro ⟨h1, h2, h3⟩
        refine ⟨?_, h2, fun j hj hpj => h3 j (List.mem_cons_of_mem _ hj) hpj⟩
        cases h1 with
        | head => exact absurd h2 hp
        | tail _ h => exact h

theorem onlyChild_some {cs : Nib → Node} {p : Nib} :
    onlyChild cs = some p ↔ (cs p ≠ .nil ∧ ∀ j, cs j ≠ .nil → j = p) := by
  unfold onlyChild
  have key := filter_eq_singleton (fun i => !(cs i).isNil) (List.finRange 17) (List.nodup_finRange 17)
  constructor
  · intro h
    split at h
    · next i hi =>
      simp only [Option.some.injEq] at h
      subst h
      have := (key i).1 hi
      refine ⟨?_, ?_⟩
      · have h2 := this.2.1
        intro e; simp [e, Node.isNil] at h2
      · intro j hj
        apply this.2.2 j (List.mem_finRange j)
        cases hc : cs j <;> simp_all [Node.isNil]
    · cases h
  · rintro ⟨h1, h2⟩
    have : (List.finRange 17).filter (fun i => !(cs i).isNil) = [p] := by
      apply (key p).2
      refine ⟨List.mem_finRange p, ?_, ?_⟩
      · cases hc : cs p <;> simp_all [Node.isNil]
      · intro j _ hj
        apply h2
        intro e; simp [e, Node.isNil] at hj
    rw [this]

theorem onlyChild_none_of_two {cs : Nib → Node} {i j : Nib} (hij : i ≠ j) (hi : cs i ≠ .nil) (hj : cs j ≠ .nil) :
    onlyChild cs = none := by
  cases h : onlyChild cs with
  | none => rfl
  | some p =>
    have := onlyChild_some.1 h
    exact absurd ((this.2 i hi).trans (this.2 j hj).symm) hij

/-- when the loop finds no single child and some child is non-nil, two distinct children are non-nil. -/
theorem two_of_onlyChild_none {cs : Nib → Node} (h : onlyChild cs = none) {i : Nib} (hi : cs i ≠ .nil) :
    ∃ j, j ≠ i ∧ cs j ≠ .nil := by
  apply Classical.byContradiction
  intro hne
  have : onlyChild cs = some i := by
    apply onlyChild_some.2
    refine ⟨hi, ?_⟩
    intro j hj
    apply Classical.byContradiction
    intro hji
    exact hne ⟨j, hji, hj⟩
  rw [h] at this; cases this

end Aqv.Trie

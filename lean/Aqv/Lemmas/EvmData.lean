/-
  Aqv.Lemmas.EvmData — helper lemmas for property C08: the Go data-movement primitives of Aqv.Model.EvmRun
  (getDataBig / RightPadBytes, Memory.Get/Set, PaddedBigBytes, Stack.dup/swap on the top-last slice) against the pointwise
  Spec definitions (specRead, specWrite, specWord, list indexing from the top).
-/
import Aqv.Lemmas.EvmBitmap
import Aqv.Lemmas.Bytes
import Aqv.Model.EvmRun
namespace Aqv.Evm
open Aqv Aqv.Big

theorem specRead_length (data : Bytes) (off n : Nat) : (specRead data off n).length = n := by
  unfold specRead; simp; omega

theorem specRead_getElem? (data : Bytes) (off n i : Nat) :
    (specRead data off n)[i]? = if i < n then some (data.getD (off + i) 0) else none := by
  unfold specRead
  simp only []
  have hl : ((data.drop off).take n).length = min n (data.length - off) := by simp
  rw [List.getElem?_append, hl]
  by_cases h : i < n
  · rw [if_pos h]
    by_cases h1 : i < min n (data.length - off)
    · rw [if_pos h1, List.getElem?_take, if_pos h, List.getElem?_drop, List.getD_eq_getElem?_getD,
        List.getElem?_eq_getElem (by omega)]; rfl
    · rw [if_neg h1, List.getElem?_replicate, if_pos (by omega), List.getD_eq_getElem?_getD,
        List.getElem?_eq_none (by omega)]; rfl
  · rw [if_neg h, if_neg (by omega), List.getElem?_replicate, if_neg (by omega)]

/-- slicing with clamped bounds and right-padding = reading with zeros past the end (getDataBig, makePush) -/
theorem slicePad_eq (data : Bytes) (start size : Nat) :
    rightPad ((data.drop (min start data.length)).take (min (min start data.length + size) data.length - min start data.length)) size
      = specRead data start size := by
  apply List.ext_getElem?
  intro i
  rw [specRead_getElem?]
  unfold rightPad
  have hlen : ((data.drop (min start data.length)).take (min (min start data.length + size) data.length - min start data.length)).length
      = min size (data.length - min start data.length) := by
    simp only [List.length_take, List.length_drop]; omega
  rw [if_neg (by rw [hlen]; omega)]
  rw [List.getElem?_append, hlen]
  by_cases h1 : i < min size (data.length - min start data.length)
  · rw [if_pos h1, List.getElem?_take, if_pos (by omega), List.getElem?_drop]
    have : i < size := by omega
    rw [if_pos this, List.getD_eq_getElem?_getD]
    have e : min start data.length + i = start + i := by omega
    rw [e]
    have : start + i < data.length := by omega
    rw [List.getElem?_eq_getElem this]; rfl
  · rw [if_neg h1, List.getElem?_replicate]
    by_cases h2 : i < size
    · rw [if_pos h2, if_pos (by omega)]
      rw [List.getD_eq_getElem?_getD, List.getElem?_eq_none (by omega)]; rfl
    · rw [if_neg h2, if_neg (by omega)]

theorem getDataBig_spec (data : Bytes) (start size : Nat) (h : size < 2 ^ 64) :
    getDataBig data start size = specRead data start size := by
  unfold getDataBig
  simp only []
  rw [Nat.mod_eq_of_lt h]
  exact slicePad_eq data start size

theorem memGet_spec (mem : Bytes) (off size : Nat) (h : size ≠ 0 → off + size ≤ mem.length) :
    memGet mem off size = some (specRead mem off size) := by
  unfold memGet
  by_cases hs : size = 0
  · subst hs
    rw [if_pos rfl, List.eq_nil_of_length_eq_zero (specRead_length mem off 0)]
  · have hc := h hs
    rw [if_neg hs, if_pos (by omega), if_pos hc]
    congr 1
    apply List.ext_getElem?
    intro i
    rw [specRead_getElem?, List.getElem?_take, List.getElem?_drop]
    by_cases hi : i < size
    · rw [if_pos hi, if_pos hi, List.getD_eq_getElem?_getD, List.getElem?_eq_getElem (by omega)]; rfl
    · rw [if_neg hi, if_neg hi]

theorem specWrite_length (mem : Bytes) (off : Nat) (bs : Bytes) : (specWrite mem off bs).length = mem.length := by
  unfold specWrite
  split
  · rfl
  · simp; omega

theorem specWrite_getElem? (mem : Bytes) (off : Nat) (bs : Bytes) (i : Nat) :
    (specWrite mem off bs)[i]? = if i < mem.length then
      (if off ≤ i ∧ i < off + bs.length then some (bs.getD (i - off) 0) else mem[i]?) else none := by
  unfold specWrite
  by_cases hoff : off ≥ mem.length
  · rw [if_pos hoff]
    by_cases hi : i < mem.length
    · rw [if_pos hi, if_neg (by omega)]
    · rw [if_neg hi, List.getElem?_eq_none (by omega)]
  · rw [if_neg hoff]
    have hl1 : (mem.take off).length = off := by simp; omega
    have hl2 : (bs.take (mem.length - off)).length = min (mem.length - off) bs.length := by simp
    by_cases hi : i < mem.length
    · rw [if_pos hi]
      by_cases h1 : i < off
      · rw [List.append_assoc, List.getElem?_append_left (by omega), List.getElem?_take, if_pos h1, if_neg (by omega)]
      · rw [List.append_assoc, List.getElem?_append_right (by omega), hl1]
        by_cases h2 : i < off + bs.length
        · rw [List.getElem?_append_left (by omega), List.getElem?_take, if_pos (by omega), if_pos (by omega),
            List.getD_eq_getElem?_getD, List.getElem?_eq_getElem (by omega)]; rfl
        · rw [List.getElem?_append_right (by omega), hl2, List.getElem?_drop, if_neg (by omega)]
          congr 1; omega
    · rw [if_neg hi]
      apply List.getElem?_eq_none
      simp; omega

theorem memSet_spec (mem : Bytes) (off size : Nat) (value : Bytes) (hv : value.length = size)
    (h : size ≠ 0 → off + size ≤ mem.length) : memSet mem off size value = some (specWrite mem off value) := by
  unfold memSet
  by_cases hs : size = 0
  · subst hs
    have : value = [] := List.eq_nil_of_length_eq_zero hv
    subst this
    rw [if_neg (by omega), if_neg (by omega)]
    congr 1
    apply List.ext_getElem?
    intro i
    rw [specWrite_getElem?]
    by_cases hi : i < mem.length
    · rw [if_pos hi, if_neg (by simp)]
    · rw [if_neg hi, List.getElem?_eq_none (by omega)]
  · have hc := h hs
    rw [if_neg (by omega), if_pos (by omega), if_pos hc]
    simp only []
    have hn : min size value.length = size := by omega
    rw [hn]
    congr 1
    apply List.ext_getElem?
    intro i
    rw [specWrite_getElem?, hv]
    rw [List.take_of_length_le (l := value) (by omega)]
    by_cases h1 : i < off
    · rw [List.append_assoc, List.getElem?_append_left (by simp; omega), List.getElem?_take, if_pos h1]
      rw [if_pos (by omega), if_neg (by omega)]
    · have hlt : (mem.take off).length = off := by simp; omega
      rw [List.append_assoc, List.getElem?_append_right (by omega), hlt]
      by_cases h2 : i < off + size
      · rw [List.getElem?_append_left (by omega), if_pos (by omega), if_pos (by omega)]
        rw [List.getD_eq_getElem?_getD, List.getElem?_eq_getElem (by omega)]; rfl
      · rw [List.getElem?_append_right (by omega), List.getElem?_drop, hv]
        have e : off + size + (i - off - size) = i := by omega
        rw [e]
        by_cases hi : i < mem.length
        · rw [if_pos hi, if_neg (by omega)]
        · rw [if_neg hi, List.getElem?_eq_none (by omega)]

theorem set_eq_specWrite (mem : Bytes) (off : Nat) (b : UInt8) (h : off < mem.length) :
    mem.set off b = specWrite mem off [b] := by
  apply List.ext_getElem?
  intro i
  rw [specWrite_getElem?, List.getElem?_set]
  by_cases hi : i < mem.length
  · rw [if_pos hi]
    by_cases he : off = i
    · subst he; simp [h]
    · rw [if_neg he, if_neg (by simp; omega)]
  · rw [if_neg hi]
    by_cases he : off = i
    · omega
    · rw [if_neg he, List.getElem?_eq_none (by omega)]

theorem dup_spec (st : List Int) (n : Nat) (h1 : 1 ≤ n) (h2 : n ≤ st.length) :
    st.reverse.getD (st.reverse.length - n) 0 = st.getD (n - 1) 0 := by
  rw [List.getD_eq_getElem?_getD, List.getD_eq_getElem?_getD, List.length_reverse]
  rw [List.getElem?_reverse (by omega)]
  have : st.length - 1 - (st.length - n) = n - 1 := by omega
  rw [this]

theorem swap_spec (st : List Int) (k : Nat) (h1 : 1 ≤ k) (h2 : k + 1 ≤ st.length) :
    ((st.reverse.set (st.reverse.length - (k + 1)) (st.reverse.getD (st.reverse.length - 1) 0)).set (st.reverse.length - 1)
        (st.reverse.getD (st.reverse.length - (k + 1)) 0)).reverse
      = (st.set 0 (st.getD k 0)).set k (st.getD 0 0) := by
  have hl : st.reverse.length = st.length := List.length_reverse
  rw [hl]
  have ha : st.reverse.getD (st.length - 1) 0 = st.getD 0 0 := by
    have := dup_spec st 1 (by omega) (by omega); rw [hl] at this; simpa using this
  have hb : st.reverse.getD (st.length - (k + 1)) 0 = st.getD k 0 := by
    have := dup_spec st (k + 1) (by omega) h2; rw [hl] at this; simpa using this
  rw [ha, hb]
  apply List.ext_getElem?
  intro i
  by_cases hi : i < st.length
  · rw [List.getElem?_reverse (by simp; omega)]
    simp only [List.length_set, List.length_reverse, List.getElem?_set]
    have e1 : (st.length - 1 = st.length - 1 - i) = (i = 0) := by apply propext; omega
    have e2 : (st.length - (k + 1) = st.length - 1 - i) = (i = k) := by apply propext; omega
    have e3 : (k = i) = (i = k) := by apply propext; omega
    have e4 : (0 = i) = (i = 0) := by apply propext; omega
    simp only [e1, e2, e3, e4]
    by_cases h0 : i = 0
    · subst h0
      have : ¬ (0 = k) := by omega
      simp [this, List.getD_eq_getElem?_getD, List.getElem?_eq_getElem (show k < st.length by omega)]
      rw [if_pos (by omega), if_pos (by omega)]
    · by_cases hk : i = k
      · subst hk
        simp [h0, List.getD_eq_getElem?_getD, List.getElem?_eq_getElem (show 0 < st.length by omega)]
        try rw [if_pos (by omega), if_pos (by omega)]
      · simp only [h0, hk, if_false]
        rw [List.getElem?_reverse (by omega)]
        have : st.length - 1 - (st.length - 1 - i) = i := by omega
        rw [this]
  · rw [List.getElem?_eq_none (by simp; omega), List.getElem?_eq_none (by simp; omega)]
theorem foldl_beNat (ys : Bytes) (acc : Nat) :
    ys.foldl (fun a b => a * 256 + b.toNat) acc = acc * 256 ^ ys.length + beNat ys := by
  induction ys generalizing acc with
  | nil => simp [beNat]
  | cons y ys ih =>
    simp only [List.foldl_cons, List.length_cons, beNat]
    rw [ih, ih (0 * 256 + y.toNat), Nat.pow_succ]
    simp only [Nat.zero_mul, Nat.zero_add]
    rw [Nat.add_mul, Nat.mul_assoc, Nat.mul_comm 256, Nat.add_assoc]

theorem beNat_append (xs ys : Bytes) : beNat (xs ++ ys) = beNat xs * 256 ^ ys.length + beNat ys := by
  unfold beNat
  rw [List.foldl_append, foldl_beNat]
  rfl

theorem beNat_cons (x : UInt8) (xs : Bytes) : beNat (x :: xs) = x.toNat * 256 ^ xs.length + beNat xs := by
  have := beNat_append [x] xs
  simpa [beNat] using this

theorem beNat_replicate_zero (n : Nat) : beNat (List.replicate n (0 : UInt8)) = 0 := by
  induction n with
  | zero => rfl
  | succ n ih => rw [List.replicate_succ, beNat_cons, ih]; simp

theorem beNat_inj_of_length (a b : Bytes) (hl : a.length = b.length) (h : beNat a = beNat b) : a = b := by
  induction a generalizing b with
  | nil => cases b with
    | nil => rfl
    | cons _ _ => simp at hl
  | cons x xs ih =>
    cases b with
    | nil => simp at hl
    | cons y ys =>
      simp only [List.length_cons, Nat.add_right_cancel_iff] at hl
      rw [beNat_cons, beNat_cons, hl] at h
      have h1 := beNat_lt xs
      have h2 := beNat_lt ys
      rw [hl] at h1
      have hp : 0 < 256 ^ ys.length := Nat.pow_pos (by decide)
      have hx : x.toNat = y.toNat := by
        have e1 : (x.toNat * 256 ^ ys.length + beNat xs) / 256 ^ ys.length = x.toNat := by
          rw [Nat.mul_comm, Nat.mul_add_div hp, Nat.div_eq_of_lt h1]; rfl
        have e2 : (y.toNat * 256 ^ ys.length + beNat ys) / 256 ^ ys.length = y.toNat := by
          rw [Nat.mul_comm, Nat.mul_add_div hp, Nat.div_eq_of_lt h2]; rfl
        rw [← e1, ← e2, h]
      have hxy : x = y := UInt8.toNat_inj.1 hx
      subst hxy
      have hb : beNat xs = beNat ys := by omega
      rw [ih ys hl hb]

def digits (k v : Nat) : Bytes := (List.range k).map fun i => UInt8.ofNat (v / 256 ^ (k - 1 - i) % 256)

theorem digits_succ (k v : Nat) : digits (k + 1) v = digits k (v / 256) ++ [UInt8.ofNat (v % 256)] := by
  unfold digits
  rw [List.range_succ, List.map_append]
  congr 1
  · apply List.map_congr_left
    intro i hi
    have hi' : i < k := List.mem_range.1 hi
    have e : k + 1 - 1 - i = (k - 1 - i) + 1 := by omega
    rw [e, Nat.pow_succ, Nat.mul_comm, Nat.div_div_eq_div_mul]
  · simp

theorem beNat_digits (k v : Nat) : beNat (digits k v) = v % 256 ^ k := by
  induction k generalizing v with
  | zero => simp [digits, beNat, Nat.mod_one]
  | succ k ih =>
    rw [digits_succ, beNat_append_singleton, ih, UInt8.toNat_ofNat_mod]
    rw [Nat.pow_succ, Nat.mul_comm (256 ^ k) 256, Nat.mod_mul]
    omega

theorem digits_length (k v : Nat) : (digits k v).length = k := by unfold digits; simp

theorem specWord_eq_digits (v : Nat) : specWord v = digits 32 v := rfl

theorem paddedBigBytes_spec (v : Nat) (hv : v < 2 ^ 256) : paddedBigBytes v 32 = specWord v := by
  have h256 : (2 : Nat) ^ 256 = 256 ^ 32 := by decide
  rw [h256] at hv
  apply beNat_inj_of_length
  · rw [specWord_eq_digits, digits_length]
    unfold paddedBigBytes
    have hle := beBytes_length_le v 32 hv
    split
    · rename_i hbig
      -- bit length ≥ 256 → at least 32 bytes
      have hge : v ≥ 256 ^ 31 := by
        have := natBitLen_gt_iff v 248
        have h31 : (256 : Nat) ^ 31 = 2 ^ 248 := by decide
        rw [h31]; omega
      have := beNat_lt (beBytes v)
      rw [beNat_beBytes] at this
      have hlen : ¬ (beBytes v).length ≤ 31 := by
        intro hc
        have : 256 ^ (beBytes v).length ≤ 256 ^ 31 := Nat.pow_le_pow_right (by decide) hc
        omega
      omega
    · simp; omega
  · rw [specWord_eq_digits, beNat_digits, Nat.mod_eq_of_lt hv]
    unfold paddedBigBytes
    split
    · exact beNat_beBytes v
    · rw [beNat_append, beNat_replicate_zero, beNat_beBytes]; simp
end Aqv.Evm

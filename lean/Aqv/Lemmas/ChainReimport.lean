/-
  Aqv.Lemmas.ChainReimport — re-feeding blocks to a chain whose head lags behind its store (the situation after a crash:
  property C04, clause "feeding the original blocks again converges").  Works on the chain model of C02/C03
  (`Aqv.Model.Chain`: `importOne`, `writeBlockWithState`, fork choice with the 130fc0e rule "a known block heavier than
  the head is re-imported"), but under a WEAKER invariant than C02's `Inv`: nothing is assumed about transaction lookups,
  canonical entries above the head, or the head being the heaviest stored block — exactly what a crash leaves open.
-/
import Aqv.Lemmas.ChainHist
namespace Aqv.Chain

variable {U : Map Blk}

/-- `t` is the total difficulty of block `x` in the universe (genesis difficulty + the difficulties along its ancestry) -/
def TDof (U : Map Blk) (g : Blk) (x : Blk) (t : Nat) : Prop := ∃ l, Path U x l g ∧ t = g.diff + diffSum l

theorem TDof.unique {g x : Blk} {t t' : Nat} (h : TDof U g x t) (h' : TDof U g x t') : t = t' := by
  obtain ⟨l, hl, rfl⟩ := h
  obtain ⟨l', hl', rfl⟩ := h'
  rw [(hl.det hl' rfl).1]

theorem TDof.ge_genesis {g x : Blk} {t : Nat} (h : TDof U g x t) : g.diff ≤ t := by
  obtain ⟨l, _, rfl⟩ := h
  omega

/-- what a recovered archive image satisfies: the stored blocks are blocks of the universe, ancestor-closed, each with its
    state and a correct total-difficulty record; the head is a stored block.  NOT assumed: head heaviest, lookups,
    canonical entries, LastHeader/LastFast. -/
structure WInv (U : Map Blk) (g : Blk) (s : St) : Prop where
  gen : s.genesis = g
  gnum : g.number = 0
  sub : StoreExt s.store U
  closed : Closed s
  tdOk : ∀ k x, s.store k = some x → ∃ t, s.td k = some t ∧ TDof U g x t
  headStored : ∃ hb, s.store s.head = some hb
  state : ∀ k x, s.store k = some x → s.hasState k = true

theorem WInv.ids (W : World U) {g : Blk} {s : St} (h : WInv U g s) {k : Nat} {x : Blk} (hx : s.store k = some x) :
    x.id = k := W.ids k x (h.sub k x hx)

theorem storeExt_upd' (W : World U) {g : Blk} {s : St} (h : WInv U g s) {b : Blk} (hbU : U b.id = some b) :
    StoreExt s.store (upd s.store b.id (some b)) ∧ StoreExt (upd s.store b.id (some b)) U := by
  constructor
  · intro k x hx
    by_cases hk : k = b.id
    · subst hk
      have := h.sub _ _ hx
      rw [hbU] at this
      cases this
      simp
    · rw [upd_other _ _ _ _ hk]; exact hx
  · intro k x hx
    by_cases hk : k = b.id
    · subst hk; simp at hx; subst hx; exact hbU
    · rw [upd_other _ _ _ _ hk] at hx; exact h.sub _ _ hx

/-- the total difficulty of a block whose parent is stored -/
theorem tdof_child (W : World U) {g : Blk} {s : St} (h : WInv U g s) {b p : Blk} {ptd : Nat}
    (hpar : parentOf s.store b = some p) (hptd : s.td b.parent = some ptd) : TDof U g b (ptd + b.diff) := by
  obtain ⟨hps, _⟩ := parentOf_some hpar
  obtain ⟨t, ht, l, hl, rfl⟩ := h.tdOk _ _ hps
  rw [hptd] at ht; cases ht
  refine ⟨b :: l, .cons (parentOf_mono h.sub hpar) hl, ?_⟩
  rw [diffSum_cons]; omega

/-- writing the record of `b` again does not change the record of any stored block -/
theorem td_upd_stored (W : World U) {g : Blk} {s : St} (h : WInv U g s) {b p : Blk} {ptd : Nat}
    (hbU : U b.id = some b) (hpar : parentOf s.store b = some p) (hptd : s.td b.parent = some ptd) {k : Nat} {x : Blk}
    (hx : s.store k = some x) : upd s.td b.id (some (ptd + b.diff)) k = s.td k := by
  by_cases hk : k = b.id
  · subst hk
    have hxb : x = b := by
      have := h.sub _ _ hx
      rw [hbU] at this; cases this; rfl
    subst hxb
    obtain ⟨t, ht, htd⟩ := h.tdOk _ _ hx
    rw [upd_same, ht, (tdof_child W h hpar hptd).unique htd]
  · exact upd_other _ _ _ _ hk

/-- with an ancestor-closed store `reorg` finds the common ancestor (C02's `reorg_ok_of_closed` under the weak invariant) -/
theorem reorg_ok_weak (W : World U) {g : Blk} {s : St} (h : WInv U g s) {hb b p : Blk} (hhs : s.store s.head = some hb)
    (hbU : U b.id = some b) (hpar : parentOf s.store b = some p) (ptd : Nat) :
    reorg (afterStored s b ptd) hb b ≠ none := by
  have hext : StoreExt s.store (afterStored s b ptd).store := (storeExt_upd' W h hbU).1
  obtain ⟨lp, hlp⟩ := h.closed _ _ (parentOf_some hpar).1
  obtain ⟨C, hC⟩ := h.closed _ _ hhs
  have hbp : Path (afterStored s b ptd).store b (b :: lp) s.genesis :=
    .cons (parentOf_mono hext hpar) (hlp.mono hext)
  have hhp : Path (afterStored s b ptd).store hb C s.genesis := hC.mono hext
  have hg : s.genesis.number = 0 := by rw [h.gen]; exact h.gnum
  have hm1 : min hb.number b.number ≤ hb.number := Nat.min_le_left _ _
  have hm2 : min hb.number b.number ≤ b.number := Nat.min_le_right _ _
  obtain ⟨O1, O2, o, hO, hO1, hO2, hon⟩ := hhp.split (min hb.number b.number) (by rw [hg]; omega) hm1
  obtain ⟨N1, N2, n, hN, hN1, hN2, hnn⟩ := hbp.split (min hb.number b.number) (by rw [hg]; omega) hm2
  have hr1 : reduce (afterStored s b ptd).store (hb.number + 1) hb (min hb.number b.number) = some (o, O1) := by
    rw [← hon]; exact reduce_of_path hO1 _ (by have := hO1.number; omega)
  have hr2 : reduce (afterStored s b ptd).store (b.number + 1) b (min hb.number b.number) = some (n, N1) := by
    rw [← hnn]; exact reduce_of_path hN1 _ (by have := hN1.number; omega)
  have hlen : O2.length = N2.length := by
    have h1 := hO2.number
    have h2 := hN2.number
    omega
  obtain ⟨r, hr⟩ := walkBoth_of_paths hO2 n N2 hN2 hlen (min hb.number b.number + 1) (by have := hO2.number; omega)
  obtain ⟨c, oc, nc⟩ := r
  unfold reorg
  simp only [hr1, hr2, hr]
  simp

/-- the state after a successful `WriteBlockWithState`, field by field -/
structure Wrote (s s' : St) (b : Blk) (ptd : Nat) : Prop where
  store : s'.store = upd s.store b.id (some b)
  td : s'.td = upd s.td b.id (some (ptd + b.diff))
  hasState : s'.hasState = updB s.hasState b.id true
  genesis : s'.genesis = s.genesis
  head : s'.head = b.id ∨ s'.head = s.head

theorem afterCanon_hasState {s s2 : St} {b cur : Blk} {ptd : Nat}
    (hs2 : s2 = afterTd s b ptd ∨ reorg (afterStored s b ptd) cur b = some s2) :
    (afterCanon s2 b).hasState = updB s.hasState b.id true := by
  rcases hs2 with hs2 | hr
  · subst hs2; simp [afterCanon, insertHead, afterTd]
  · obtain ⟨o, n, c, c', oc1, nc1, oc2, nc2, _, _, _, _, _, _, _, _, hs2⟩ := reorg_spec hr
    subst hs2
    simp [afterCanon, insertHead, reorgApply_hasState, afterStored, afterTd]

/-- `WriteBlockWithState` on a weakly invariant state never fails; afterwards the block is stored with state and a
    correct record, and the head is the block (if the fork choice preferred it) or unchanged — in both cases at least as
    heavy as before and as the block. -/
theorem wbws_weak (W : World U) {g : Blk} {s : St} (h : WInv U g s) {b p : Blk} (hbU : U b.id = some b)
    (hpar : parentOf s.store b = some p) (coin : Bool) :
    ∃ s' ptd lt, writeBlockWithState s b coin = ⟨s', none⟩ ∧ s.td b.parent = some ptd ∧ s.td s.head = some lt ∧
      Wrote s s' b ptd ∧ ((s'.head = b.id ∧ lt ≤ ptd + b.diff) ∨ (s'.head = s.head ∧ ptd + b.diff ≤ lt)) := by
  obtain ⟨hps, _⟩ := parentOf_some hpar
  obtain ⟨ptd, hptd, _⟩ := h.tdOk _ _ hps
  obtain ⟨hb, hhs⟩ := h.headStored
  obtain ⟨lt, hlt, _⟩ := h.tdOk _ _ hhs
  rcases wbws_cases s b coin with ⟨e, he, _⟩ | ⟨ptd', cur, hptd', hcur, hr, _⟩ |
      ⟨ptd', s2, cur, lt', hptd', hcur, hlt', hdec, hs2, he⟩ | ⟨ptd', cur, lt', hptd', hcur, hlt', hdec, he⟩
  · -- an early error return is impossible: the parent's record, the head block and its record exist
    exfalso
    rename_i hne
    have herr := congrArg Out.err he
    unfold writeBlockWithState at herr
    simp only [hptd, hhs, hlt] at herr
    split at herr
    · split at herr
      · split at herr
        · simp only [Option.some.injEq] at herr; exact hne herr.symm
        · cases herr
      · cases herr
    · cases herr
  · exfalso
    rw [hptd] at hptd'; cases hptd'
    rw [hhs] at hcur; cases hcur
    exact reorg_ok_weak W h hhs hbU hpar ptd hr
  · rw [hptd] at hptd'; cases hptd'
    rw [hlt] at hlt'; cases hlt'
    obtain ⟨hh, htd, _, hst, hgen⟩ := afterCanon_fields hs2
    exact ⟨_, ptd, lt, he, hptd, hlt, ⟨hst, htd, afterCanon_hasState hs2, hgen, .inl hh⟩, .inl ⟨hh, decideReorg_ge hdec⟩⟩
  · rw [hptd] at hptd'; cases hptd'
    rw [hlt] at hlt'; cases hlt'
    refine ⟨_, ptd, lt, he, hptd, hlt, ⟨?_, ?_, ?_, ?_, .inr ?_⟩, .inr ⟨?_, decideReorg_false_le hdec⟩⟩ <;>
      simp [afterSide, afterTd]

/-- the weak invariant survives, the store grows by exactly the block, the head's total difficulty does not decrease and
    is at least the block's -/
theorem winv_wrote (W : World U) {g : Blk} {s s' : St} (h : WInv U g s) {b p : Blk} {ptd lt : Nat}
    (hbU : U b.id = some b) (hpar : parentOf s.store b = some p) (hptd : s.td b.parent = some ptd)
    (hlt : s.td s.head = some lt) (hw : Wrote s s' b ptd)
    (hhead : (s'.head = b.id ∧ lt ≤ ptd + b.diff) ∨ (s'.head = s.head ∧ ptd + b.diff ≤ lt)) :
    WInv U g s' ∧ StoreExt s.store s'.store ∧ s'.store b.id = some b ∧
      (∀ k x, s'.store k = some x → s.store k = some x ∨ x = b) ∧
      ∃ th, s'.td s'.head = some th ∧ lt ≤ th ∧ ptd + b.diff ≤ th := by
  obtain ⟨hext, hsubU⟩ := storeExt_upd' W h hbU
  have hstore' : ∀ k x, s'.store k = some x → s.store k = some x ∨ x = b := by
    intro k x hx
    rw [hw.store] at hx
    by_cases hk : k = b.id
    · subst hk; simp at hx; exact .inr hx.symm
    · rw [upd_other _ _ _ _ hk] at hx; exact .inl hx
  have hbs : s'.store b.id = some b := by rw [hw.store]; simp
  have htdb : s'.td b.id = some (ptd + b.diff) := by rw [hw.td]; simp
  have htdk : ∀ k x, s.store k = some x → s'.td k = s.td k := fun k x hx => by
    rw [hw.td]; exact td_upd_stored W h hbU hpar hptd hx
  have hclosed : Closed s' := by
    intro k x hx
    rw [hw.genesis]
    have := closed_upd h.closed hpar hext (fun k x hx => by
      by_cases hk : k = b.id
      · subst hk; simp at hx; exact .inr hx.symm
      · rw [upd_other _ _ _ _ hk] at hx; exact .inl hx) k x (by rw [← hw.store]; exact hx)
    rw [hw.store]; exact this
  refine ⟨⟨by rw [hw.genesis]; exact h.gen, h.gnum, by rw [hw.store]; exact hsubU, hclosed, ?_, ?_, ?_⟩,
    by rw [hw.store]; exact hext, hbs, hstore', ?_⟩
  · intro k x hx
    rcases hstore' k x hx with hx' | rfl
    · obtain ⟨t, ht, htd⟩ := h.tdOk k x hx'
      exact ⟨t, by rw [htdk k x hx']; exact ht, htd⟩
    · have hk : k = x.id := by
        have := W.ids k x (by rw [hw.store] at hx; exact hsubU k x hx)
        exact this.symm
      subst hk
      exact ⟨_, htdb, tdof_child W h hpar hptd⟩
  · rcases hw.head with hh | hh
    · exact ⟨b, by rw [hh]; exact hbs⟩
    · obtain ⟨hb, hhs⟩ := h.headStored
      exact ⟨hb, by rw [hh, hw.store]; exact hext _ _ hhs⟩
  · intro k x hx
    rw [hw.hasState]
    rcases hstore' k x hx with hx' | rfl
    · exact updB_true_of _ _ _ (h.state k x hx')
    · have hk : k = x.id := (W.ids k x (by rw [hw.store] at hx; exact hsubU k x hx)).symm
      subst hk; simp [updB]
  · rcases hhead with ⟨hh, hle⟩ | ⟨hh, hle⟩
    · exact ⟨ptd + b.diff, by rw [hh]; exact htdb, hle, Nat.le_refl _⟩
    · obtain ⟨hb, hhs⟩ := h.headStored
      exact ⟨lt, by rw [hh, htdk _ _ hhs]; exact hlt, Nat.le_refl _, hle⟩

/-- one block of the re-import: `importOne` never fails on a block of the universe whose parent is stored; afterwards the
    block is stored and the head is at least as heavy as before and as the block. -/
theorem importOne_weak (W : World U) {g : Blk} {s : St} (h : WInv U g s) {b p : Blk} (hbU : U b.id = some b)
    (hpar : parentOf s.store b = some p) (coins : List Bool) :
    ∃ s', importOne s b coins = ⟨s', none⟩ ∧ WInv U g s' ∧ StoreExt s.store s'.store ∧ s'.store b.id = some b ∧
      (∀ k x, s'.store k = some x → s.store k = some x ∨ x = b) ∧
      ∃ lt th tb, s.td s.head = some lt ∧ s'.td s'.head = some th ∧ TDof U g b tb ∧ lt ≤ th ∧ tb ≤ th := by
  obtain ⟨hps, hpn⟩ := parentOf_some hpar
  obtain ⟨hb, hhs⟩ := h.headStored
  obtain ⟨lt, hlt, _⟩ := h.tdOk _ _ hhs
  obtain ⟨ptd, hptd, _⟩ := h.tdOk _ _ hps
  have hpstate : s.hasState b.parent = true := h.state _ _ hps
  -- the header check: parent and (above height 1) grandparent are stored
  have hhc : headerCheck s.store b = none := by
    unfold headerCheck
    rw [hpar]
    simp only
    split
    · rename_i hgt
      obtain ⟨l, hl⟩ := h.closed _ _ hps
      cases hl with
      | nil =>
        have : s.genesis.number = 0 := by rw [h.gen]; exact h.gnum
        omega
      | cons hpp _ => rw [hpp]
    · rfl
  -- the write itself
  have hwrite : ∀ coin, ∃ s', writeBlockWithState s b coin = ⟨s', none⟩ ∧ WInv U g s' ∧ StoreExt s.store s'.store ∧
      s'.store b.id = some b ∧ (∀ k x, s'.store k = some x → s.store k = some x ∨ x = b) ∧
      ∃ lt th tb, s.td s.head = some lt ∧ s'.td s'.head = some th ∧ TDof U g b tb ∧ lt ≤ th ∧ tb ≤ th := by
    intro coin
    obtain ⟨s', ptd', lt', he, hptd', hlt', hw, hhead⟩ := wbws_weak W h hbU hpar coin
    obtain ⟨h1, h2, h3, h4, th, hth, hle1, hle2⟩ := winv_wrote W h hbU hpar hptd' hlt' hw hhead
    exact ⟨s', he, h1, h2, h3, h4, lt', th, _, hlt', hth, tdof_child W h hpar hptd', hle1, hle2⟩
  -- the import loop either skips the block (stored, not above the head, not heavier) or writes it
  have hio : (known s b.id = true ∧ heavierThan s b lt = false ∧ importOne s b coins = ⟨s, none⟩) ∨
      importOne s b coins = writeBlockWithState s b (coins.headD false) := by
    unfold importOne
    rw [hhc]
    simp only [hhs, hlt]
    by_cases hk : known s b.id = true
    · simp only [hk, if_true]
      split
      · rename_i hskip
        simp only [Bool.and_eq_true, decide_eq_true_eq, Bool.not_eq_true'] at hskip
        exact .inl ⟨by first | rfl | trivial, hskip.2, by first | rfl | trivial⟩
      · refine .inr ?_
        simp [hpstate]
    · have hk' : known s b.id = false := by simpa using hk
      have hkp : known s b.parent = true := by
        unfold known
        rw [hps, hpstate]; rfl
      refine .inr ?_
      simp [hk', hkp]
  rcases hio with ⟨hk, hnh, he⟩ | he
  · have hbst : ∃ x, s.store b.id = some x := by
      unfold known at hk
      simp only [Bool.and_eq_true] at hk
      exact Option.isSome_iff_exists.mp hk.1
    obtain ⟨x, hx⟩ := hbst
    have hxb : x = b := by have := h.sub _ _ hx; rw [hbU] at this; cases this; rfl
    subst hxb
    obtain ⟨tb, htb, htd⟩ := h.tdOk _ _ hx
    have hle : tb ≤ lt := by
      unfold heavierThan at hnh
      rw [htb] at hnh
      simpa using hnh
    exact ⟨s, he, h, fun _ _ hx => hx, hx, fun k x hx => .inl hx, lt, lt, tb, hlt, hlt, htd, Nat.le_refl _, hle⟩
  · rw [he]; exact hwrite _

/-! ### a whole re-import -/

/-- the blocks arrive parents first (relative to what is stored) -/
def POrder (store : Map Blk) : List Blk → Prop
  | [] => True
  | b :: rest => (∃ p, parentOf store b = some p) ∧ POrder (upd store b.id (some b)) rest

theorem POrder.mono : ∀ {l : List Blk} {store store' : Map Blk}, StoreExt store store' → POrder store l → POrder store' l
  | [], _, _, _, _ => trivial
  | b :: rest, store, store', he, ⟨⟨p, hp⟩, hr⟩ => by
    refine ⟨⟨p, parentOf_mono he hp⟩, POrder.mono ?_ hr⟩
    intro k x hx
    by_cases hk : k = b.id
    · subst hk; simpa using hx
    · rw [upd_other _ _ _ _ hk] at hx ⊢; exact he _ _ hx

/-- feeding a parent-first list of blocks of the universe: no call fails, every fed block ends up stored, and the final
    head is at least as heavy as the initial head and as EVERY fed block. -/
theorem importSeq_weak (W : World U) {g : Blk} : ∀ (l : List Blk) {s : St}, WInv U g s → (∀ b ∈ l, U b.id = some b) →
    POrder s.store l → ∀ (coins : List (List Bool)) (i : Nat),
    ∃ s', (importSeq s l coins i).1 = ⟨s', none⟩ ∧ WInv U g s' ∧ StoreExt s.store s'.store ∧
      (∀ k x, s'.store k = some x → s.store k = some x ∨ x ∈ l) ∧
      ∃ lt th, s.td s.head = some lt ∧ s'.td s'.head = some th ∧ lt ≤ th ∧
        ∀ b ∈ l, ∃ tb, TDof U g b tb ∧ tb ≤ th := by
  intro l
  induction l with
  | nil =>
    intro s h _ _ coins i
    obtain ⟨hb, hhs⟩ := h.headStored
    obtain ⟨lt, hlt, _⟩ := h.tdOk _ _ hhs
    exact ⟨s, rfl, h, fun _ _ hx => hx, fun k x hx => .inl hx, lt, lt, hlt, hlt, Nat.le_refl _, by simp⟩
  | cons b rest ih =>
    intro s h hU hord coins i
    obtain ⟨⟨p, hpar⟩, hrest⟩ := hord
    obtain ⟨s1, he1, h1, hext1, hb1, hsub1, lt, th1, tb, hlt, hth1, htb, hle1, hle2⟩ :=
      importOne_weak W h (hU b (by simp)) hpar (coins.headD [])
    have hord1 : POrder s1.store rest := by
      refine POrder.mono ?_ hrest
      intro k x hx
      by_cases hk : k = b.id
      · subst hk; simp at hx; subst hx; exact hb1
      · rw [upd_other _ _ _ _ hk] at hx; exact hext1 _ _ hx
    obtain ⟨s2, he2, h2, hext2, hsub2, lt2, th2, hlt2, hth2, hle3, hall⟩ :=
      ih h1 (fun b' hb' => hU b' (List.mem_cons_of_mem _ hb')) hord1 coins.tail (i + 1)
    rw [hth1] at hlt2; cases hlt2
    refine ⟨s2, ?_, h2, fun k x hx => hext2 _ _ (hext1 _ _ hx), ?_, lt, th2, hlt, hth2, by omega, ?_⟩
    · unfold importSeq
      simp only [he1]
      exact he2
    · intro k x hx
      rcases hsub2 k x hx with hx' | hx'
      · rcases hsub1 k x hx' with hx'' | rfl
        · exact .inl hx''
        · exact .inr (by simp)
      · exact .inr (List.mem_cons_of_mem _ hx')
    · intro b' hb'
      rcases List.mem_cons.mp hb' with rfl | hb'
      · exact ⟨tb, htb, by omega⟩
      · exact hall b' hb'

/-! ### comparison with the crash-free run -/

/-- **Re-import converges.**  `s` is any weakly invariant state (what recovery exposes after a crash); `ops` is the
    crash-free history (imports and restarts from genesis) in which every block of the universe got fully validated.
    Feeding all blocks again, parents first, never fails and ends with a head of exactly the crash-free head's total
    difficulty; when total difficulties are injective on the universe (no exact tie) it is the same head. -/
theorem refeed_matches_crashfree (W : World U) (g : Blk) (hgU : U g.id = some g) (hg0 : g.number = 0) (hgt : g.txs = [])
    {s : St} (h : WInv U g s) (L : List Blk) (hLU : ∀ b ∈ L, U b.id = some b)
    (hcover : ∀ k x, U k = some x → x = g ∨ x ∈ L) (hord : POrder s.store L) (coins : List (List Bool)) (i : Nat)
    (archive : Bool) (ops : List Op) (hops : ∀ op ∈ ops, IsImport op ∧ OpOk U (init g archive) op)
    (hall : ∀ k x, U k = some x → (run (init g archive) ops).seen k = true) :
    ∃ s', (importSeq s L coins i).1 = ⟨s', none⟩ ∧ WInv U g s' ∧
      s'.td s'.head = (run (init g archive) ops).td (run (init g archive) ops).head ∧
      ((∀ x y t, U x.id = some x → U y.id = some y → TDof U g x t → TDof U g y t → x = y) →
        s'.head = (run (init g archive) ops).head) := by
  obtain ⟨s', he, h', _, hsub, lt, th', _, hth', _, hall'⟩ := importSeq_weak W L h hLU hord coins i
  obtain ⟨_, hG⟩ := imports_admissible W ops (good_init g archive hgU hg0 hgt) hops
  obtain ⟨⟨hbs, C, hI⟩, _, hmax, hstd, ⟨ths, hths, _⟩, hgen⟩ := hG
  -- the two heads as blocks of the universe, with their total difficulties
  obtain ⟨hb', hhs'⟩ := h'.headStored
  have hb'U : U s'.head = some hb' := h'.sub _ _ hhs'
  have hid' : hb'.id = s'.head := W.ids _ _ hb'U
  obtain ⟨t', ht', htd'⟩ := h'.tdOk _ _ hhs'
  rw [hth'] at ht'; cases ht'
  have hbsU : U (run (init g archive) ops).head = some hbs := hI.sub _ _ hI.headStored
  have hids : hbs.id = (run (init g archive) ops).head := W.ids _ _ hbsU
  have htds : TDof U g hbs ths := by
    obtain ⟨x, l, hx, hp, ht⟩ := hI.tdIntr _ _ hths
    rw [hbsU] at hx; cases hx
    rw [hgen] at hp ht
    exact ⟨l, hp, ht⟩
  -- ≤ : the refeed head was fully validated in the crash-free run, whose head is maximal
  have hle : th' ≤ ths := by
    have hseen := hall _ _ hb'U
    obtain ⟨t, ht⟩ := Option.isSome_iff_exists.mp (hstd _ hseen)
    obtain ⟨th2, hth2, hle⟩ := hmax _ _ hseen ht
    rw [hths] at hth2; cases hth2
    obtain ⟨x, l, hx, hp, htt⟩ := hI.tdIntr _ _ ht
    rw [hb'U] at hx; cases hx
    rw [hgen] at hp htt
    have : t = th' := TDof.unique ⟨l, hp, htt⟩ htd'
    omega
  -- ≥ : the crash-free head is the genesis block or one of the fed blocks
  have hge : ths ≤ th' := by
    rcases hcover _ _ hbsU with hg | hL
    · have : ths = g.diff := by
        rw [hg] at htds
        exact htds.unique ⟨[], .nil g, by simp [diffSum]⟩
      rw [this]; exact htd'.ge_genesis
    · obtain ⟨tb, htb, hle⟩ := hall' _ hL
      rw [htds.unique htb]; exact hle
  have heq : th' = ths := by omega
  refine ⟨s', he, h', by rw [hth', hths, heq], fun hinj => ?_⟩
  have := hinj hb' hbs th' (by rw [hid']; exact hb'U) (by rw [hids]; exact hbsU) htd' (by rw [heq]; exact htds)
  rw [← hid', ← hids, this]

end Aqv.Chain

/-
  Aqv.Lemmas.LogFilterQuery — sections concatenate; `buildIndex` succeeds for committed sections; `indexedLogs` and
  `unindexedLogs` as scans of block ranges; `Filter.Logs` equals the brute-force scan (C16).
-/
import Aqv.Lemmas.LogFilterExtract
namespace Aqv.LogFilter

/-! ### sections concatenate -/

theorem secLo_eq (size b s : Nat) : secLo size b s = max b (s * size) := by
  unfold secLo; split <;> omega

theorem secHi_eq (size e t : Nat) : secHi size e t = min (e + 1) (t * size) := by
  unfold secHi; split <;> omega

theorem range'_glue (p : Nat → Bool) (L0 L1 n1 n2 n : Nat)
    (h : (n1 = 0 ∧ ((n2 = 0 ∧ n = 0) ∨ (L1 = L0 ∧ n2 = n))) ∨ (n2 = 0 ∧ n1 = n) ∨ (L1 = L0 + n1 ∧ n1 + n2 = n)) :
    (List.range' L0 n1).filter p ++ (List.range' L1 n2).filter p = (List.range' L0 n).filter p := by
  rcases h with ⟨h1, (⟨h2, h3⟩ | ⟨h2, h3⟩)⟩ | ⟨h1, h2⟩ | ⟨h1, h2⟩
  · subst h1 h2 h3; rfl
  · subst h1 h2 h3; rfl
  · subst h1 h2; simp
  · subst h1 h2
    rw [← List.filter_append]
    have := @List.range'_append L0 n1 n2 1
    rw [Nat.one_mul] at this
    rw [this]

/-- the matches of one section (the body of the section loop). -/
def sectionPiece (r : Option Bytes) (size b e s : Nat) : List Nat :=
  match r with
  | some bitset => extract size b e s bitset
  | none => []

theorem matcherSections_succ (index : List (List Bytes)) (size : Nat) (filters : List (List (Nat × Nat × Nat))) (b e k s : Nat) :
    matcherSections index size filters b e (k + 1) s =
      sectionPiece (runSection (indexVec index s) size filters) size b e s ++ matcherSections index size filters b e k (s + 1) := by
  rw [matcherSections]
  cases runSection (indexVec index s) size filters <;> rfl

theorem matcherSections_spec (index : List (List Bytes)) (size : Nat) (hs : 0 < size) (h8 : size % 8 = 0)
    (filters : List (List (Nat × Nat × Nat))) (b e : Nat) (P : Nat → Bool) (k s : Nat)
    (hP : ∀ t, s ≤ t → t < s + k → ∀ n, n < size → sectionBit (runSection (indexVec index t) size filters) n = P (t * size + n)) :
    matcherSections index size filters b e k s =
      (List.range' (secLo size b s) (secHi size e (s + k) - secLo size b s)).filter P := by
  induction k generalizing s with
  | zero =>
    have : secHi size e (s + 0) - secLo size b s = 0 := by
      rw [Nat.add_zero, secLo_eq, secHi_eq]; omega
    rw [this]; rfl
  | succ k ih =>
    rw [matcherSections_succ, ih (s + 1) (fun t h1 h2 => hP t (by omega) (by omega))]
    have e1 : (s + 1) * size = s * size + size := by rw [Nat.add_mul, Nat.one_mul]
    have e2 : s + 1 + k = s + (k + 1) := by omega
    have hmono : (s + 1) * size ≤ (s + (k + 1)) * size := Nat.mul_le_mul_right _ (by omega)
    -- the piece of section s, as a filter of P
    have hpiece : sectionPiece (runSection (indexVec index s) size filters) size b e s = (List.range' (secLo size b s) (secHi size e (s + 1) - secLo size b s)).filter P := by
      have hPs := hP s (Nat.le_refl _) (by omega)
      have hmem : ∀ j, j ∈ List.range' (secLo size b s) (secHi size e (s + 1) - secLo size b s) → s * size ≤ j ∧ j - s * size < size := by
        intro j hj
        rw [List.mem_range'_1] at hj
        have h1 : s * size ≤ secLo size b s := by unfold secLo; split <;> omega
        have h2 : secHi size e (s + 1) ≤ s * size + size := by unfold secHi; rw [e1]; split <;> omega
        omega
      cases hr : runSection (indexVec index s) size filters with
      | none =>
        simp only [sectionPiece]
        symm
        rw [List.filter_eq_nil_iff]
        intro j hj
        obtain ⟨h1, h2⟩ := hmem j hj
        have := hPs (j - s * size) h2
        rw [hr] at this
        have e : s * size + (j - s * size) = j := by omega
        rw [e] at this
        simp [← this, sectionBit]
      | some bitset =>
        simp only [sectionPiece]
        rw [extract_spec size b e s hs h8]
        apply List.filter_congr
        intro j hj
        obtain ⟨h1, h2⟩ := hmem j hj
        have := hPs (j - s * size) h2
        rw [hr] at this
        have e : s * size + (j - s * size) = j := by omega
        rw [e] at this
        exact this
    rw [hpiece, e2]
    apply range'_glue
    rw [secLo_eq, secLo_eq, secHi_eq, secHi_eq, e1]
    generalize (s + (k + 1)) * size = T at *
    omega

/-- `matcherRun` delivers exactly the block numbers of `[begin, end]` whose section bit is set, in increasing order. -/
theorem matcherRun_spec (index : List (List Bytes)) (size : Nat) (hs : 0 < size) (h8 : size % 8 = 0)
    (filters : List (List (Nat × Nat × Nat))) (b e : Nat) (P : Nat → Bool)
    (hP : ∀ t, t ≤ e / size → ∀ n, n < size → sectionBit (runSection (indexVec index t) size filters) n = P (t * size + n)) :
    matcherRun index size filters b e = (List.range' b (e + 1 - b)).filter P := by
  unfold matcherRun
  rw [matcherSections_spec index size hs h8 filters b e P _ _ (fun t _ h2 n hn => hP t (by omega) n hn)]
  have hb1 : b / size * size ≤ b := Nat.div_mul_le_self b size
  have hb2 : b < (b / size + 1) * size := by
    rw [Nat.add_mul, Nat.one_mul]; exact Nat.lt_div_mul_add hs
  have he1 : e / size * size ≤ e := Nat.div_mul_le_self e size
  have he2 : e < (e / size + 1) * size := by
    rw [Nat.add_mul, Nat.one_mul]; exact Nat.lt_div_mul_add hs
  have hlo : secLo size b (b / size) = b := by unfold secLo; split <;> omega
  rw [hlo]
  by_cases hbe : b ≤ e
  · have hdiv : b / size ≤ e / size := Nat.div_le_div_right hbe
    have e3 : b / size + (e / size + 1 - b / size) = e / size + 1 := by omega
    have hhi : secHi size e (b / size + (e / size + 1 - b / size)) = e + 1 := by
      rw [e3]; unfold secHi; split <;> omega
    rw [hhi]
  · have z1 : e + 1 - b = 0 := by omega
    have hdiv : e / size ≤ b / size := Nat.div_le_div_right (by omega)
    have hle : secHi size e (b / size + (e / size + 1 - b / size)) ≤ e + 1 := by unfold secHi; split <;> omega
    have z2 : secHi size e (b / size + (e / size + 1 - b / size)) - b = 0 := by omega
    rw [z1, z2]

/-! ### the committed index -/

theorem buildIndex_spec (size : Nat) (h8 : size % 8 = 0) (h2048 : 2048 ≤ size) (blooms : List Bytes) (sections : Nat)
    (h : sections * size ≤ blooms.length) :
    ∃ idx, buildIndex size blooms sections = .ok idx ∧ idx.length = sections ∧
      ∀ s, s < sections → generateSection size ((blooms.drop (s * size)).take size) = .ok (idx.getD s []) := by
  induction sections with
  | zero => exact ⟨[], rfl, rfl, fun s hs => by omega⟩
  | succ k ih =>
    have e1 : (k + 1) * size = k * size + size := by rw [Nat.add_mul, Nat.one_mul]
    obtain ⟨idx, hidx, hlen, hsec⟩ := ih (by omega)
    have hl : ((blooms.drop (k * size)).take size).length = size := by
      rw [List.length_take, List.length_drop]; omega
    obtain ⟨vs, hgen, _, _⟩ := generateSection_spec size h8 h2048 _ hl
    refine ⟨idx ++ [vs], ?_, by simp [hlen], ?_⟩
    · unfold buildIndex
      rw [hidx]
      simp only
      rw [hgen]
    · intro s hs
      by_cases hsk : s < k
      · rw [List.getD_eq_getElem?_getD, List.getElem?_append_left (by omega), ← List.getD_eq_getElem?_getD]
        exact hsec s hsk
      · have : s = k := by omega
        subst this
        rw [List.getD_eq_getElem?_getD, List.getElem?_append_right (by omega), hlen]
        simpa using hgen

/-! ### the two scans -/

theorem checkMatches_eq (c : Criteria) (blk : Block) : checkMatches c blk = filterLogs blk.logs c := by
  unfold checkMatches
  simp only
  split
  · rename_i h; rw [h]
  · rename_i l ls h
    split
    · rfl
    · rw [h]

/-- header bloom of block `n` (all-zero-length default beyond the head; never consulted there). -/
def bloomAt (chain : List Block) (n : Nat) : Bytes := (chain.getD n default).bloom

/-- per-block answer of the brute-force scan. -/
def blockAnswer (chain : List Block) (c : Criteria) (n : Nat) : List Log := filterLogs (chain.getD n default).logs c

theorem indexedLoop_spec (chain : List Block) (c : Criteria) (endNext : Nat) (ms : List Nat) (h : ∀ n ∈ ms, n < chain.length) :
    indexedLoop chain c endNext ms = (ms.flatMap (blockAnswer chain c), endNext) := by
  induction ms with
  | nil => rfl
  | cons n rest ih =>
    unfold indexedLoop
    have hn := h n (by simp)
    rw [List.getElem?_eq_getElem hn]
    simp only
    rw [ih (fun m hm => h m (by simp [hm])), checkMatches_eq, List.flatMap_cons]
    have : chain.getD n default = chain[n] := by rw [List.getD_eq_getElem?_getD, List.getElem?_eq_getElem hn]; rfl
    unfold blockAnswer
    rw [this]

/-- every canonical block satisfies `header.Bloom = CreateBloom(receipts)` (ValidateState). -/
def ChainValid (H : HashFn) (chain : List Block) : Prop := ∀ blk ∈ chain, blk.valid H

theorem block_bloom_has_logs (H : HashFn) (blk : Block) (hv : blk.valid H) : ∀ log ∈ blk.logs, BloomHasLog H blk.bloom log := by
  intro log hlog
  unfold Block.logs at hlog
  rw [List.mem_flatten] at hlog
  obtain ⟨r, hr, hlr⟩ := hlog
  unfold Block.valid at hv
  rw [hv]
  have hcov := createBloomNat_covers H blk.receipts r hr
  constructor
  · rw [bloomLookup_iff_covers, beNat_createBloom]
    exact covers_trans hcov (logsBloom_covers_address H r log hlr)
  · intro t ht
    rw [bloomLookup_iff_covers, beNat_createBloom]
    exact covers_trans hcov (logsBloom_covers_topic H r log hlr t ht)

/-- `bloomFilter_sound` at block level: a negative bloom test means no log of the block passes `filterLogs`. -/
theorem guarded_eq (H : HashFn) (blk : Block) (hv : blk.valid H) (c : Criteria) :
    (if bloomFilter H blk.bloom c then filterLogs blk.logs c else []) = filterLogs blk.logs c := by
  split
  · rfl
  · rename_i hf
    symm
    exact filterLogs_nil_of_bloomFilter_false H blk.bloom c blk.logs (block_bloom_has_logs H blk hv) (by simpa using hf)

theorem unindexedLogs_spec (H : HashFn) (chain : List Block) (hv : ChainValid H chain) (c : Criteria) (e fuel b : Nat)
    (hf : e + 1 - b ≤ fuel) :
    unindexedLogs H chain c e fuel b =
      (List.range' b ((if e + 1 < chain.length then e + 1 else chain.length) - b)).flatMap (blockAnswer chain c) := by
  induction fuel generalizing b with
  | zero =>
    have : (if e + 1 < chain.length then e + 1 else chain.length) - b = 0 := by split <;> omega
    rw [this]; rfl
  | succ fuel ih =>
    unfold unindexedLogs
    by_cases hgt : b > e
    · have : (if e + 1 < chain.length then e + 1 else chain.length) - b = 0 := by split <;> omega
      rw [this]; simp [hgt]
    · simp only [hgt, if_false]
      by_cases hb : b < chain.length
      · rw [List.getElem?_eq_getElem hb]
        simp only
        have hn : (if e + 1 < chain.length then e + 1 else chain.length) - b =
            ((if e + 1 < chain.length then e + 1 else chain.length) - (b + 1)) + 1 := by split <;> omega
        rw [hn, List.range'_succ, List.flatMap_cons, ih (b + 1) (by omega), checkMatches_eq,
          guarded_eq H _ (hv _ (List.getElem_mem hb))]
        have : chain.getD b default = chain[b] := by rw [List.getD_eq_getElem?_getD, List.getElem?_eq_getElem hb]; rfl
        unfold blockAnswer
        rw [this]
      · rw [List.getElem?_eq_none (by omega)]
        have : (if e + 1 < chain.length then e + 1 else chain.length) - b = 0 := by split <;> omega
        rw [this]; rfl

theorem flatMap_filter_guard {α β : Type} (p : α → Bool) (f : α → List β) (l : List α) (h : ∀ a ∈ l, p a = false → f a = []) :
    (l.filter p).flatMap f = l.flatMap f := by
  induction l with
  | nil => rfl
  | cons a as ih =>
    rw [List.filter_cons, List.flatMap_cons]
    have ih' := ih (fun x hx => h x (by simp [hx]))
    cases hp : p a
    · simp only [Bool.false_eq_true, if_false]
      rw [ih', h a (by simp) hp, List.nil_append]
    · simp only [if_true, List.flatMap_cons, ih']

theorem range_filter_interval (len b e : Nat) :
    (List.range len).filter (fun n => decide (b ≤ n) && decide (n ≤ e)) = List.range' b (min (e + 1) len - b) := by
  induction len with
  | zero => simp
  | succ n ih =>
    rw [List.range_succ, List.filter_append, ih]
    by_cases h : b ≤ n ∧ n ≤ e
    · have h1 : min (e + 1) n - b = n - b := by omega
      have h2 : min (e + 1) (n + 1) - b = (n - b) + 1 := by omega
      rw [h1, h2, List.range'_concat]
      have : b + 1 * (n - b) = n := by omega
      rw [this]
      simp [h.1, h.2]
    · have h2 : min (e + 1) (n + 1) - b = min (e + 1) n - b := by omega
      rw [h2]
      have : (decide (b ≤ n) && decide (n ≤ e)) = false := by
        rw [Bool.and_eq_false_iff]; simp only [decide_eq_false_iff_not]; omega
      simp [this]

theorem indexed_part (H : HashFn) (chain : List Block) (hv : ChainValid H chain) (size : Nat) (h8 : size % 8 = 0)
    (h2048 : 2048 ≤ size) (index : List (List Bytes))
    (hidx : index.length * size ≤ chain.length)
    (hsec : ∀ s, s < index.length → generateSection size (((chain.map (·.bloom)).drop (s * size)).take size) = .ok (index.getD s []))
    (c : Criteria) (b e' : Nat) (he' : e' < index.length * size) :
    indexedLogs H index chain size c b e' = ((List.range' b (e' + 1 - b)).flatMap (blockAnswer chain c), e' + 1) := by
  have hs : 0 < size := by omega
  let P : Nat → Bool := fun n => bloomFilter H (bloomAt chain n) c
  have hrun : matcherRun index size (newMatcherFilters H (flattenCriteria c)) b e' = (List.range' b (e' + 1 - b)).filter P := by
    apply matcherRun_spec index size hs h8
    intro t ht n hn
    have htl : t < index.length := by
      have : e' / size < index.length := Nat.div_lt_of_lt_mul (by rw [Nat.mul_comm]; exact he')
      omega
    have hbound : (t + 1) * size ≤ index.length * size := Nat.mul_le_mul_right _ (by omega)
    have e1 : (t + 1) * size = t * size + size := by rw [Nat.add_mul, Nat.one_mul]
    have hl : (((chain.map (·.bloom)).drop (t * size)).take size).length = size := by
      rw [List.length_take, List.length_drop, List.length_map]; omega
    have h256 : ∀ x ∈ ((chain.map (·.bloom)).drop (t * size)).take size, x.length = 256 := by
      intro x hx
      have hx2 := List.mem_of_mem_drop (List.mem_of_mem_take hx)
      rw [List.mem_map] at hx2
      obtain ⟨blk, hblk, rfl⟩ := hx2
      have := hv blk hblk
      unfold Block.valid at this
      rw [this]; exact createBloom_length H _
    have := section_matcher_spec H size h8 h2048 _ hl h256 _ (hsec t htl) c n hn
    have hvec : indexVec index t = fun bit => (index.getD t []).getD bit [] := rfl
    rw [hvec, this]
    show bloomFilter H _ c = bloomFilter H (bloomAt chain (t * size + n)) c
    congr 1
    unfold bloomAt
    have hnl : t * size + n < chain.length := by omega
    rw [List.getD_eq_getElem?_getD, List.getD_eq_getElem?_getD, List.getElem?_take, List.getElem?_drop, List.getElem?_map,
      List.getElem?_eq_getElem hnl]
    simp [hn]
  unfold indexedLogs
  rw [hrun, indexedLoop_spec]
  · congr 1
    apply flatMap_filter_guard
    intro n hn hp
    rw [List.mem_range'_1] at hn
    have hnl : n < chain.length := by omega
    have hblk : chain.getD n default = chain[n] := by rw [List.getD_eq_getElem?_getD, List.getElem?_eq_getElem hnl]; rfl
    have hval := hv chain[n] (List.getElem_mem hnl)
    unfold blockAnswer
    rw [hblk]
    apply filterLogs_nil_of_bloomFilter_false H chain[n].bloom c _ (block_bloom_has_logs H _ hval)
    have : P n = bloomFilter H chain[n].bloom c := by
      show bloomFilter H (bloomAt chain n) c = _
      unfold bloomAt; rw [hblk]
    rw [← this]; exact hp
  · intro n hn
    rw [List.mem_filter, List.mem_range'_1] at hn
    omega

/-- the body of `Filter.Logs` after the range ends are resolved: indexed part, then header scan, equals one scan of
    `[b, min(e, head)]`. -/
theorem query_core (H : HashFn) (chain : List Block) (hv : ChainValid H chain) (size : Nat) (index : List (List Bytes))
    (hsz : 0 < index.length → size % 8 = 0 ∧ 2048 ≤ size)
    (hidx : index.length * size ≤ chain.length)
    (hsec : ∀ s, s < index.length → generateSection size (((chain.map (·.bloom)).drop (s * size)).take size) = .ok (index.getD s []))
    (c : Criteria) (b e : Nat) (r : List Log × Nat)
    (hr : r = if index.length * size > b then
        if index.length * size > e then indexedLogs H index chain size c b e
        else indexedLogs H index chain size c b (index.length * size - 1)
      else ([], b)) :
    r.1 ++ unindexedLogs H chain c e (e + 1 - r.2) r.2 =
      (List.range' b (min (e + 1) chain.length - b)).flatMap (blockAnswer chain c) := by
  have hmin : (if e + 1 < chain.length then e + 1 else chain.length) = min (e + 1) chain.length := by split <;> omega
  by_cases hgt : index.length * size > b
  · have hpos : 0 < index.length := by
      cases hl : index.length with
      | zero => rw [hl] at hgt; simp at hgt
      | succ n => omega
    obtain ⟨h8, h2048⟩ := hsz hpos
    rw [if_pos hgt] at hr
    by_cases hge : index.length * size > e
    · rw [if_pos hge, indexed_part H chain hv size h8 h2048 index hidx hsec c b e hge] at hr
      subst hr
      simp only
      rw [unindexedLogs_spec H chain hv c e _ _ (Nat.le_refl _), hmin]
      have z : min (e + 1) chain.length - (e + 1) = 0 := by omega
      have z2 : min (e + 1) chain.length - b = e + 1 - b := by omega
      rw [z, z2]; simp
    · rw [if_neg hge, indexed_part H chain hv size h8 h2048 index hidx hsec c b _ (by omega)] at hr
      subst hr
      simp only
      rw [unindexedLogs_spec H chain hv c e _ _ (Nat.le_refl _), hmin, ← List.flatMap_append]
      have e1 : index.length * size - 1 + 1 = index.length * size := by omega
      rw [e1]
      have := @List.range'_append b (index.length * size - b) (min (e + 1) chain.length - index.length * size) 1
      rw [Nat.one_mul] at this
      have e2 : b + (index.length * size - b) = index.length * size := by omega
      rw [e2] at this
      show (List.range' b (index.length * size - b) ++ List.range' (index.length * size) _).flatMap (blockAnswer chain c) = _
      rw [this]
      congr 2
      omega
  · rw [if_neg hgt] at hr
    subst hr
    simp only [List.nil_append]
    rw [unindexedLogs_spec H chain hv c e _ _ (Nat.le_refl _), hmin]

end Aqv.LogFilter

/-
  Aqv.Lemmas.Chain — basic lemmas about `Aqv.Model.Chain`: finite-map updates, parent walks (`Path`), the walks of
  `reorg`, closed forms of the lookup/canonical-number folds.
-/
import Aqv.Model.Chain
namespace Aqv.Chain

/-! ### maps -/

@[simp] theorem upd_same {α : Type} (m : Map α) (k : Nat) (v : Option α) : upd m k v k = v := by simp [upd]

theorem upd_other {α : Type} (m : Map α) (k x : Nat) (v : Option α) (h : x ≠ k) : upd m k v x = m x := by
  simp [upd, h]

@[simp] theorem updB_same (m : Nat → Bool) (k : Nat) (v : Bool) : updB m k v k = v := by simp [updB]

theorem updB_other (m : Nat → Bool) (k x : Nat) (v : Bool) (h : x ≠ k) : updB m k v x = m x := by
  simp [updB, h]

@[simp] theorem upd_upd_same {α : Type} (m : Map α) (k : Nat) (v w : Option α) : upd (upd m k v) k w = upd m k w := by
  funext x; unfold upd; split <;> rfl

@[simp] theorem updB_updB_same (m : Nat → Bool) (k : Nat) (v w : Bool) : updB (updB m k v) k w = updB m k w := by
  funext x; unfold updB; split <;> rfl

theorem updB_true_of (m : Nat → Bool) (k x : Nat) (h : m x = true) : updB m k true x = true := by
  unfold updB; split <;> simp_all

/-! ### parentOf and paths -/

theorem parentOf_some {store : Map Blk} {x p : Blk} (h : parentOf store x = some p) :
    store x.parent = some p ∧ p.number + 1 = x.number := by
  unfold parentOf at h
  split at h
  · cases h
  · rename_i n hn
    split at h
    · rename_i q hq
      split at h
      · rename_i hqn
        cases h
        exact ⟨hq, by omega⟩
      · cases h
    · cases h

theorem parentOf_of {store : Map Blk} {x p : Blk} (h1 : store x.parent = some p) (h2 : p.number + 1 = x.number) :
    parentOf store x = some p := by
  unfold parentOf
  split
  · omega
  · rename_i n hn
    rw [h1]
    simp
    omega

/-- `store'` contains everything `store` contains -/
def StoreExt (store store' : Map Blk) : Prop := ∀ k x, store k = some x → store' k = some x

theorem parentOf_mono {store store' : Map Blk} (he : StoreExt store store') {x p : Blk}
    (h : parentOf store x = some p) : parentOf store' x = some p := by
  obtain ⟨h1, h2⟩ := parentOf_some h
  exact parentOf_of (he _ _ h1) h2

/-- `Path store x l y`: walking parent links from `x` reaches `y`; `l` lists the blocks visited, `x` first, `y` excluded. -/
inductive Path (store : Map Blk) : Blk → List Blk → Blk → Prop
  | nil (x : Blk) : Path store x [] x
  | cons {x p : Blk} {l : List Blk} {y : Blk} : parentOf store x = some p → Path store p l y → Path store x (x :: l) y

theorem Path.mono {store store' : Map Blk} (he : StoreExt store store') {x y : Blk} {l : List Blk}
    (h : Path store x l y) : Path store' x l y := by
  induction h with
  | nil x => exact .nil x
  | cons hp _ ih => exact .cons (parentOf_mono he hp) ih

theorem Path.number {store : Map Blk} {x y : Blk} {l : List Blk} (h : Path store x l y) :
    x.number = y.number + l.length := by
  induction h with
  | nil x => simp
  | cons hp _ ih =>
    have := (parentOf_some hp).2
    simp
    omega

theorem Path.mem_number {store : Map Blk} {x y : Blk} {l : List Blk} (h : Path store x l y) :
    ∀ z ∈ l, y.number < z.number ∧ z.number ≤ x.number := by
  induction h with
  | nil x => simp
  | cons hp hrest ih =>
    intro z hz
    have hn := (parentOf_some hp).2
    have hnum := hrest.number
    rcases List.mem_cons.mp hz with rfl | hz
    · omega
    · have := ih z hz
      omega

theorem Path.cover {store : Map Blk} {x y : Blk} {l : List Blk} (h : Path store x l y) :
    ∀ n, y.number < n → n ≤ x.number → ∃ z ∈ l, z.number = n := by
  induction h with
  | nil x => intro n h1 h2; omega
  | cons hp hrest ih =>
    rename_i x p l y
    intro n h1 h2
    have hn := (parentOf_some hp).2
    by_cases hx : n = x.number
    · exact ⟨x, by simp, hx.symm⟩
    · obtain ⟨z, hz, hzn⟩ := ih n h1 (by omega)
      exact ⟨z, List.mem_cons_of_mem _ hz, hzn⟩

theorem Path.num_inj {store : Map Blk} {x y : Blk} {l : List Blk} (h : Path store x l y) :
    ∀ z ∈ l, ∀ w ∈ l, z.number = w.number → z = w := by
  induction h with
  | nil x => simp
  | cons hp hrest ih =>
    rename_i x p l y
    intro z hz w hw hzw
    have hn := (parentOf_some hp).2
    have hm := hrest.mem_number
    rcases List.mem_cons.mp hz with hzx | hz'
    · rcases List.mem_cons.mp hw with hwx | hw'
      · rw [hzx, hwx]
      · have := hm w hw'
        subst hzx
        omega
    · rcases List.mem_cons.mp hw with hwx | hw'
      · have := hm z hz'
        subst hwx
        omega
      · exact ih z hz' w hw' hzw

theorem Path.append {store : Map Blk} {x y z : Blk} {l1 l2 : List Blk} (h1 : Path store x l1 y)
    (h2 : Path store y l2 z) : Path store x (l1 ++ l2) z := by
  induction h1 with
  | nil x => simpa using h2
  | cons hp _ ih => exact .cons hp (ih h2)

/-- parent walks are deterministic -/
theorem Path.det {store : Map Blk} {x y y' : Blk} {l l' : List Blk} (h : Path store x l y) (h' : Path store x l' y')
    (hn : y.number = y'.number) : l = l' ∧ y = y' := by
  induction h generalizing l' y' with
  | nil x =>
    cases h' with
    | nil => exact ⟨rfl, rfl⟩
    | cons hp hrest =>
      have := (Path.cons hp hrest).number
      simp at this
      omega
  | cons hp hrest ih =>
    cases h' with
    | nil =>
      have := (Path.cons hp hrest).number
      simp at this
      omega
    | cons hp' hrest' =>
      rw [hp] at hp'
      cases hp'
      obtain ⟨h1, h2⟩ := ih hrest' hn
      exact ⟨by rw [h1], h2⟩

/-- split a path at a given height -/
theorem Path.split {store : Map Blk} {x y : Blk} {l : List Blk} (h : Path store x l y) :
    ∀ n, y.number ≤ n → n ≤ x.number →
      ∃ l1 l2 z, l = l1 ++ l2 ∧ Path store x l1 z ∧ Path store z l2 y ∧ z.number = n := by
  induction h with
  | nil x =>
    intro n h1 h2
    exact ⟨[], [], x, rfl, .nil x, .nil x, by omega⟩
  | cons hp hrest ih =>
    rename_i x p l y
    intro n h1 h2
    have hn := (parentOf_some hp).2
    by_cases hx : n = x.number
    · exact ⟨[], x :: l, x, rfl, .nil x, .cons hp hrest, hx.symm⟩
    · obtain ⟨l1, l2, z, hl, hp1, hp2, hz⟩ := ih n h1 (by omega)
      exact ⟨x :: l1, l2, z, by simp [hl], .cons hp hp1, hp2, hz⟩

theorem Path.head_eq {store : Map Blk} {x y : Blk} {l : List Blk} (h : Path store x l y) :
    l = [] ∧ x = y ∨ ∃ l', l = x :: l' := by
  cases h with
  | nil => exact .inl ⟨rfl, rfl⟩
  | cons hp hr => exact .inr ⟨_, rfl⟩

/-- every block of a path except possibly the first is stored; the end is stored if the path is non-empty -/
theorem Path.end_stored {store : Map Blk} {x y : Blk} {l : List Blk} (h : Path store x l y) (hne : l ≠ []) :
    ∃ w, store w = some y := by
  induction h with
  | nil x => exact absurd rfl hne
  | cons hp hrest ih =>
    rename_i x p l y
    by_cases hl : l = []
    · subst hl
      cases hrest
      exact ⟨_, (parentOf_some hp).1⟩
    · exact ih hl

theorem Path.stored_of {store : Map Blk} (hid : ∀ k x, store k = some x → x.id = k) {x y : Blk} {l : List Blk}
    (h : Path store x l y) (hx : store x.id = some x) : (∀ z ∈ l, store z.id = some z) ∧ store y.id = some y := by
  induction h with
  | nil x => exact ⟨by simp, hx⟩
  | cons hp hrest ih =>
    rename_i x p l y
    have h1 := (parentOf_some hp).1
    have hpid := hid _ _ h1
    have := ih (by rw [hpid]; exact h1)
    refine ⟨?_, this.2⟩
    intro z hz
    rcases List.mem_cons.mp hz with rfl | hz
    · exact hx
    · exact this.1 z hz

/-- a walk that starts at or below the height of `b` cannot use the freshly stored `b` as a parent -/
theorem Path.unupd {store : Map Blk} {b : Blk} : ∀ {l : List Blk} {x y : Blk},
    Path (upd store b.id (some b)) x l y → x.number ≤ b.number → Path store x l y := by
  intro l
  induction l with
  | nil => intro x y h _; cases h; exact .nil _
  | cons a l ih =>
    intro x y h hnum
    cases h with
    | cons hp hrest =>
      rename_i p
      obtain ⟨h1, h2⟩ := parentOf_some hp
      by_cases hk : a.parent = b.id
      · rw [hk] at h1
        simp at h1
        subst h1
        omega
      · rw [upd_other _ _ _ _ hk] at h1
        exact .cons (parentOf_of h1 h2) (ih hrest (by omega))

/-! ### the walks of `reorg` -/

theorem reduce_spec {store : Map Blk} : ∀ (f : Nat) (x : Blk) (n : Nat) (y : Blk) (l : List Blk),
    reduce store f x n = some (y, l) → Path store x l y ∧ y.number = n := by
  intro f
  induction f with
  | zero => intro x n y l h; simp [reduce] at h
  | succ f ih =>
    intro x n y l h
    unfold reduce at h
    split at h
    · rename_i hx
      cases h
      exact ⟨.nil _, hx⟩
    · split at h
      · cases h
      · rename_i p hp
        split at h
        · cases h
        · rename_i y' l' hr
          cases h
          obtain ⟨h1, h2⟩ := ih p n _ _ hr
          exact ⟨.cons hp h1, h2⟩

/-- with enough fuel `reduce` follows any existing path -/
theorem reduce_of_path {store : Map Blk} {x y : Blk} {l : List Blk} (h : Path store x l y) :
    ∀ f, l.length < f → reduce store f x y.number = some (y, l) := by
  induction h with
  | nil x =>
    intro f hf
    cases f with
    | zero => omega
    | succ f => simp [reduce]
  | cons hp hrest ih =>
    rename_i x p l y
    intro f hf
    cases f with
    | zero => omega
    | succ f =>
      have hnum := (Path.cons hp hrest).number
      simp at hnum
      unfold reduce
      rw [if_neg (by omega), hp]
      simp only
      rw [ih f (by simp at hf; omega)]

theorem walkBoth_spec {store : Map Blk} : ∀ (f : Nat) (o n c : Blk) (oc nc : List Blk),
    walkBoth store f o n = some (c, oc, nc) →
      ∃ c', Path store o oc c ∧ Path store n nc c' ∧ c.id = c'.id := by
  intro f
  induction f with
  | zero => intro o n c oc nc h; simp [walkBoth] at h
  | succ f ih =>
    intro o n c oc nc h
    unfold walkBoth at h
    split at h
    · rename_i hid
      cases h
      exact ⟨n, .nil _, .nil _, hid⟩
    · split at h
      · rename_i o' n' ho hn
        split at h
        · cases h
        · rename_i c' oc' nc' hw
          cases h
          obtain ⟨c'', h1, h2, h3⟩ := ih o' n' _ _ _ hw
          exact ⟨c'', .cons ho h1, .cons hn h2, h3⟩
      · cases h

/-- `walkBoth` succeeds when both blocks have paths of equal length to a common block -/
theorem walkBoth_of_paths {store : Map Blk} {o c : Blk} {lo : List Blk} (ho : Path store o lo c) :
    ∀ (n : Blk) (ln : List Blk), Path store n ln c → lo.length = ln.length → ∀ f, lo.length < f →
      ∃ r, walkBoth store f o n = some r := by
  induction ho with
  | nil x =>
    intro n ln hn hlen f hf
    have : ln = [] := by simpa using hlen.symm
    subst this
    cases hn
    cases f with
    | zero => omega
    | succ f => exact ⟨(x, [], []), by simp [walkBoth]⟩
  | cons hp hrest ih =>
    rename_i x p l y
    intro n ln hn hlen f hf
    cases hn with
    | nil => simp at hlen
    | cons hp' hrest' =>
      cases f with
      | zero => omega
      | succ f =>
        unfold walkBoth
        split
        · exact ⟨_, rfl⟩
        · rw [hp, hp']
          simp only
          obtain ⟨r, hr⟩ := ih _ _ hrest' (by simpa using hlen) f (by simp at hf; omega)
          rw [hr]
          obtain ⟨c, oc, nc⟩ := r
          exact ⟨_, rfl⟩

/-! ### lookups -/

theorem writeLookupsFrom_not_mem (lk : Map Loc) (b : Blk) : ∀ (ts : List Nat) (i t : Nat), t ∉ ts →
    writeLookupsFrom lk b i ts t = lk t := by
  intro ts
  induction ts generalizing lk with
  | nil => intro i t _; rfl
  | cons a ts ih =>
    intro i t ht
    simp only [List.mem_cons, not_or] at ht
    unfold writeLookupsFrom
    rw [ih _ _ _ ht.2, upd_other _ _ _ _ ht.1]

theorem writeLookupsFrom_mem (lk : Map Loc) (b : Blk) : ∀ (ts : List Nat) (i j t : Nat), ts.Nodup → ts[j]? = some t →
    writeLookupsFrom lk b i ts t = some ⟨b.id, b.number, i + j⟩ := by
  intro ts
  induction ts generalizing lk with
  | nil => intro i j t _ h; simp at h
  | cons a ts ih =>
    intro i j t hnd hj
    have hnd' := List.nodup_cons.mp hnd
    unfold writeLookupsFrom
    cases j with
    | zero =>
      simp at hj
      subst hj
      rw [writeLookupsFrom_not_mem _ _ _ _ _ hnd'.1]
      simp
    | succ j =>
      simp at hj
      rw [ih _ (i + 1) j t hnd'.2 hj]
      congr 2
      omega

theorem writeLookups_not_mem (lk : Map Loc) (b : Blk) (t : Nat) (h : t ∉ b.txs) : writeLookups lk b t = lk t :=
  writeLookupsFrom_not_mem lk b b.txs 0 t h

theorem writeLookups_mem (lk : Map Loc) (b : Blk) (j t : Nat) (hnd : b.txs.Nodup) (h : b.txs[j]? = some t) :
    writeLookups lk b t = some ⟨b.id, b.number, j⟩ := by
  have := writeLookupsFrom_mem lk b b.txs 0 j t hnd h
  simpa [writeLookups] using this

theorem delLookups_apply (lk : Map Loc) : ∀ (ts : List Nat) (t : Nat),
    delLookups lk ts t = if t ∈ ts then none else lk t := by
  intro ts
  induction ts generalizing lk with
  | nil => intro t; simp [delLookups]
  | cons a ts ih =>
    intro t
    unfold delLookups
    rw [ih]
    by_cases h1 : t ∈ ts
    · simp [h1]
    · by_cases h2 : t = a
      · subst h2; simp [h1]
      · simp [h1, h2, upd_other]

theorem mem_txDifference (a b : List Nat) (t : Nat) : t ∈ txDifference a b ↔ t ∈ a ∧ t ∉ b := by
  simp [txDifference]

theorem dropLookupsOf_apply (x : Blk) : ∀ (ts : List Nat) (lk : Map Loc) (t : Nat),
    dropLookupsOf lk x ts t = if t ∈ ts ∧ (∃ l, lk t = some l ∧ l.blk = x.id) then none else lk t := by
  intro ts lk t
  unfold dropLookupsOf
  cases hl : lk t with
  | none => simp
  | some l =>
    simp only
    by_cases hc : l.blk = x.id ∧ t ∈ ts
    · rw [if_pos hc, if_pos ⟨hc.2, l, rfl, hc.1⟩]
    · rw [if_neg hc, if_neg]
      rintro ⟨h1, l', h2, h3⟩
      cases h2
      exact hc ⟨h3, h1⟩

/-! ### canonical-number loops -/

/-- `delCanonAbove` only ever deletes at or above its start -/
theorem delCanonAbove_below : ∀ (f : Nat) (canon : Map Nat) (i n : Nat), n < i → delCanonAbove canon f i n = canon n := by
  intro f
  induction f with
  | zero => intro canon i n _; rfl
  | succ f ih =>
    intro canon i n hn
    unfold delCanonAbove
    cases hci : canon i with
    | none => rfl
    | some v =>
      simp only
      rw [ih _ _ _ (by omega), upd_other _ _ _ _ (by omega)]

/-- if the entries are contiguous from `i` up to (excluding) `top`, nothing is mapped from `top` on, and the fuel
    covers the distance, then everything from `i` on is unmapped afterwards (the loop stops at the gap, not on fuel) -/
theorem delCanonAbove_clears : ∀ (f : Nat) (canon : Map Nat) (i top : Nat), top ≤ i + f →
    (∀ n, i ≤ n → n < top → (canon n).isSome = true) →
    (∀ n, top ≤ n → canon n = none) → ∀ n, i ≤ n → delCanonAbove canon f i n = none := by
  intro f
  induction f with
  | zero =>
    intro canon i top hf _ hnone n hn
    exact hnone n (by omega)
  | succ f ih =>
    intro canon i top hf hsome hnone n hn
    unfold delCanonAbove
    cases hci : canon i with
    | none =>
      simp only
      have : top ≤ i := by
        apply Nat.le_of_not_lt
        intro hlt
        have := hsome i (Nat.le_refl _) hlt
        rw [hci] at this
        simp at this
      exact hnone n (by omega)
    | some v =>
      simp only
      by_cases h : n = i
      · subst h
        rw [delCanonAbove_below _ _ _ _ (by omega)]
        simp
      · exact ih (upd canon i none) (i + 1) top (by omega)
          (fun k hk1 hk2 => by rw [upd_other _ _ _ _ (by omega)]; exact hsome k (by omega) hk2)
          (fun k hk => by
            by_cases hki : k = i
            · subst hki; simp
            · rw [upd_other _ _ _ _ hki]; exact hnone k hk) n (by omega)

/-! ### the loops of `BlockChain.insert` (fix 3f14ce8) -/

theorem dropAt_apply (store : Map Blk) (lk : Map Loc) (n o t : Nat) :
    dropAt store lk n o t =
      if ∃ y, store o = some y ∧ y.number = n ∧ t ∈ y.txs ∧ ∃ l, lk t = some l ∧ l.blk = y.id then none else lk t := by
  unfold dropAt
  cases hy : store o with
  | none => simp
  | some y =>
    simp only
    by_cases hn : y.number = n
    · rw [if_pos hn, dropLookupsOf_apply]
      by_cases hc : t ∈ y.txs ∧ ∃ l, lk t = some l ∧ l.blk = y.id
      · rw [if_pos hc, if_pos ⟨y, rfl, hn, hc.1, hc.2⟩]
      · rw [if_neg hc, if_neg]
        rintro ⟨y', hy', _, h1, h2⟩
        cases hy'
        exact hc ⟨h1, h2⟩
    · rw [if_neg hn, if_neg]
      rintro ⟨y', hy', hn', _⟩
      cases hy'
      exact hn hn'

/-- the number-index component of the "entries above" loop of `insert` is the loop of `HeaderChain.WriteHeader` -/
theorem dropAbove_fst (store : Map Blk) (pre : Map Nat) : ∀ (f i : Nat) (c : Map Nat) (lk : Map Loc),
    (∀ n, i ≤ n → c n = pre n) → (dropAbove store pre f i c lk).1 = delCanonAbove c f i := by
  intro f
  induction f with
  | zero => intro i c lk _; rfl
  | succ f ih =>
    intro i c lk hag
    unfold dropAbove delCanonAbove
    rw [hag i (Nat.le_refl _)]
    cases hp : pre i with
    | none => rfl
    | some o =>
      simp only
      exact ih (i + 1) _ _ (fun n hn => by rw [upd_other _ _ _ _ (by omega)]; exact hag n (by omega))

/-- the lookup component only deletes, and only lookups that point into a block indexed at or above the start -/
theorem dropAbove_lk (store : Map Blk) (pre : Map Nat) : ∀ (f i : Nat) (c : Map Nat) (lk : Map Loc) (t : Nat),
    (dropAbove store pre f i c lk).2 t = lk t ∨
      ((dropAbove store pre f i c lk).2 t = none ∧ ∃ l m o y, lk t = some l ∧ i ≤ m ∧ pre m = some o ∧
        store o = some y ∧ y.number = m ∧ t ∈ y.txs ∧ l.blk = y.id) := by
  intro f
  induction f with
  | zero => intro i c lk t; exact .inl rfl
  | succ f ih =>
    intro i c lk t
    unfold dropAbove
    cases hp : pre i with
    | none => exact .inl rfl
    | some o =>
      simp only
      have hd := dropAt_apply store lk i o t
      rcases ih (i + 1) (upd c i none) (dropAt store lk i o) t with h | ⟨h1, l, m, o', y, hl, hm, hpm, hy, hyn, hty, hlb⟩
      · rw [h, hd]
        split
        · rename_i hex
          obtain ⟨y, hy, hyn, hty, l, hl, hlb⟩ := hex
          exact .inr ⟨rfl, l, i, o, y, hl, Nat.le_refl _, hp, hy, hyn, hty, hlb⟩
        · exact .inl rfl
      · rw [h1]
        rw [hd] at hl
        split at hl
        · cases hl
        · exact .inr ⟨rfl, l, m, o', y, hl, by omega, hpm, hy, hyn, hty, hlb⟩

theorem dropAbove_none (store : Map Blk) (pre : Map Nat) (f i : Nat) (c : Map Nat) (lk : Map Loc) (t : Nat)
    (h : lk t = none) : (dropAbove store pre f i c lk).2 t = none := by
  rcases dropAbove_lk store pre f i c lk t with h1 | ⟨h1, _⟩
  · rw [h1, h]
  · exact h1

/-- while the entries are contiguous and the fuel lasts, every lookup into a block indexed in the range is deleted -/
theorem dropAbove_drops (store : Map Blk) (pre : Map Nat) : ∀ (f i : Nat) (c : Map Nat) (lk : Map Loc) (top : Nat),
    top ≤ i + f → (∀ n, i ≤ n → n < top → (pre n).isSome = true) →
    ∀ m, i ≤ m → m < top → ∀ o y, pre m = some o → store o = some y → y.number = m → ∀ t, t ∈ y.txs →
      ∀ l, lk t = some l → l.blk = y.id → (dropAbove store pre f i c lk).2 t = none := by
  intro f
  induction f with
  | zero => intro i c lk top hf _ m hm1 hm2; omega
  | succ f ih =>
    intro i c lk top hf hsome m hm1 hm2 o y hpm hy hyn t hty l hl hlb
    unfold dropAbove
    cases hp : pre i with
    | none =>
      have := hsome i (Nat.le_refl _) (by omega)
      rw [hp] at this
      cases this
    | some o' =>
      simp only
      have hd := dropAt_apply store lk i o' t
      by_cases hmi : m = i
      · subst hmi
        rw [hp] at hpm
        cases hpm
        apply dropAbove_none
        rw [hd, if_pos ⟨y, hy, hyn, hty, l, hl, hlb⟩]
      · cases hl' : dropAt store lk i o' t with
        | none => exact dropAbove_none _ _ _ _ _ _ _ hl'
        | some l' =>
          have : l' = l := by
            rw [hd] at hl'
            split at hl'
            · cases hl'
            · rw [hl] at hl'; cases hl'; rfl
          subst this
          exact ih (i + 1) _ _ top (by omega) (fun n hn1 hn2 => hsome n (by omega) hn2) m (by omega) hm2 o y hpm hy hyn t
            hty l' hl' hlb

theorem repointBelow_stop (store : Map Blk) (pre : Map Nat) (f hash number : Nat) (c : Map Nat) (lk : Map Loc)
    (h : pre number = some hash) : repointBelow store pre f hash number c lk = (c, lk) := by
  cases f with
  | zero => rfl
  | succ f => unfold repointBelow; rw [if_pos h]

/-- where the read-only walk succeeds, the number-index component of the "stale entries below" loop of `insert` is the
    overwrite loop of `HeaderChain.WriteHeader` -/
theorem repointBelow_fst (store : Map Blk) (pre : Map Nat) : ∀ (f hash number : Nat) (c : Map Nat) (lk : Map Loc)
    (c2 : Map Nat), (∀ n, n ≤ number → c n = pre n) → overwriteStale store f c hash number = (c2, true) →
      (repointBelow store pre f hash number c lk).1 = c2 := by
  intro f
  induction f with
  | zero => intro hash number c lk c2 _ h; simp [overwriteStale] at h
  | succ f ih =>
    intro hash number c lk c2 hag h
    unfold overwriteStale at h
    unfold repointBelow
    rw [hag number (Nat.le_refl _)] at h
    by_cases hc : pre number = some hash
    · rw [if_pos hc] at h ⊢
      cases h; rfl
    · rw [if_neg hc] at h ⊢
      simp only at h
      cases hx : store hash with
      | none => rw [hx] at h; cases h
      | some x =>
        rw [hx] at h
        simp only at h ⊢
        by_cases hxn : x.number ≠ number
        · rw [if_pos hxn] at h; cases h
        · rw [if_neg hxn] at h ⊢
          cases number with
          | zero => cases h
          | succ k =>
            simp only at h ⊢
            exact ih _ _ _ _ _ (fun n hn => by rw [upd_other _ _ _ _ (by omega)]; exact hag n (by omega)) h

end Aqv.Chain

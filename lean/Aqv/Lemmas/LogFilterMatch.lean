/-
  Aqv.Lemmas.LogFilterMatch — `filterLogs`/`bloomFilter` (aqua/filters/filter.go): a matching log forces a positive bloom test;
  the loop-shaped `logMatches` equals the declarative `Spec.logMatches`.
-/
import Aqv.Lemmas.LogFilterBloom
namespace Aqv.LogFilter

/-- `bloom` tests positive for the address and every topic of `log`. -/
def BloomHasLog (H : HashFn) (bloom : Bytes) (log : Log) : Prop :=
  bloomLookup H bloom log.address = true ∧ ∀ t ∈ log.topics, bloomLookup H bloom t = true

theorem topics_all_of_topicsOk (H : HashFn) (bloom : Bytes) (lt : List Bytes) (hlt : ∀ t ∈ lt, bloomLookup H bloom t = true)
    (ts : List (List Bytes)) (i : Nat) (hlen : i + ts.length ≤ lt.length) (hok : topicsOk lt i ts = true) :
    ts.all (fun sub => sub.length == 0 || sub.any (fun topic => bloomLookup H bloom topic)) = true := by
  induction ts generalizing i with
  | nil => rfl
  | cons sub rest ih =>
    simp only [topicsOk, Bool.and_eq_true, Bool.or_eq_true] at hok
    simp only [List.length_cons] at hlen
    simp only [List.all_cons, Bool.and_eq_true, Bool.or_eq_true]
    refine ⟨?_, ih (i + 1) (by omega) hok.2⟩
    cases hok.1 with
    | inl h => exact Or.inl h
    | inr h =>
      right
      rw [List.any_eq_true] at h ⊢
      obtain ⟨topic, hmem, heq⟩ := h
      refine ⟨topic, hmem, ?_⟩
      have hi : i < lt.length := by omega
      have : lt.getD i [] = topic := by simpa using heq
      rw [← this]
      apply hlt
      rw [List.getD_eq_getElem?_getD, List.getElem?_eq_getElem hi]
      simp

/-- no false negative at filter level: a log that passes `filterLogs` makes `bloomFilter` true on any bloom containing it. -/
theorem bloomFilter_of_logMatches (H : HashFn) (bloom : Bytes) (c : Criteria) (log : Log) (hb : BloomHasLog H bloom log)
    (hm : logMatches c log = true) : bloomFilter H bloom c = true := by
  unfold logMatches at hm
  unfold bloomFilter
  split at hm
  · cases hm
  · rename_i haddr
    split at hm
    · cases hm
    · rename_i hlen
      rw [Bool.and_eq_true]
      constructor
      · split
        · rename_i hpos
          simp only [hpos] at haddr
          have hinc : includes c.addresses log.address = true := by
            cases h : includes c.addresses log.address
            · simp [h] at haddr
            · rfl
          unfold includes at hinc
          rw [List.any_eq_true] at hinc ⊢
          obtain ⟨addr, hmem, heq⟩ := hinc
          refine ⟨addr, hmem, ?_⟩
          have : addr = log.address := by simpa using heq
          rw [this]; exact hb.1
        · rfl
      · exact topics_all_of_topicsOk H bloom log.topics hb.2 c.topics 0 (by simp at hlen; omega) hm

theorem filterLogs_nil_of_bloomFilter_false (H : HashFn) (bloom : Bytes) (c : Criteria) (logs : List Log)
    (hb : ∀ log ∈ logs, BloomHasLog H bloom log) (hf : bloomFilter H bloom c = false) : filterLogs logs c = [] := by
  unfold filterLogs
  rw [List.filter_eq_nil_iff]
  intro log hmem hm
  have := bloomFilter_of_logMatches H bloom c log (hb log hmem) hm
  rw [hf] at this
  cases this

/-! ### the loop and the declarative matcher agree -/

theorem any_beq_eq_contains (sub : List Bytes) (x : Bytes) : sub.any (fun topic => x == topic) = sub.contains x := by
  induction sub with
  | nil => rfl
  | cons a as ih => simp only [List.any_cons, List.contains_cons, ih]

theorem topicsOk_eq_range (lt : List Bytes) (ts : List (List Bytes)) (k : Nat) :
    topicsOk lt k ts =
      (List.range ts.length).all (fun i => (ts.getD i []).isEmpty || (ts.getD i []).contains (lt.getD (k + i) [])) := by
  induction ts generalizing k with
  | nil => rfl
  | cons sub rest ih =>
    rw [topicsOk, ih (k + 1), List.length_cons, List.range_succ_eq_map, List.all_cons, List.all_map]
    congr 1
    · simp only [List.getD_cons_zero, Nat.add_zero]
      congr 1
      · cases sub <;> rfl
      · exact any_beq_eq_contains _ _
    · apply List.all_congr rfl
      intro i
      simp only [Function.comp, List.getD_cons_succ]
      have : k + 1 + i = k + (i + 1) := by omega
      rw [this]

theorem logMatches_eq_spec (c : Criteria) (log : Log) : logMatches c log = Spec.logMatches c log := by
  unfold logMatches Spec.logMatches
  rw [topicsOk_eq_range]
  simp only [Nat.zero_add]
  have hinc : includes c.addresses log.address = c.addresses.contains log.address := by
    unfold includes
    rw [Bool.eq_iff_iff]
    simp [List.any_eq_true]
  rw [hinc]
  cases haddr : c.addresses with
  | nil => 
    simp only [List.length_nil, List.isEmpty_nil, Bool.true_or, Bool.true_and]
    by_cases hl : c.topics.length ≤ log.topics.length
    · simp [hl, Nat.not_lt.mpr hl]
    · simp [hl, Nat.lt_of_not_le hl]
  | cons a as =>
    simp only [List.length_cons, List.isEmpty_cons, Bool.false_or]
    cases hc : (a :: as).contains log.address
    · simp
    · by_cases hl : c.topics.length ≤ log.topics.length
      · simp [hl, Nat.not_lt.mpr hl]
      · simp [hl, Nat.lt_of_not_le hl]

end Aqv.LogFilter

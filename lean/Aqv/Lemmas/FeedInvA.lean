/-
  Aqv.Lemmas.FeedInvA — control invariants of the Feed transition system (Aqv.Model.Feed), preserved by every step:
  the sendLock token is held by at most one goroutine (`tok/hs/hr`), inbox ++ sendCases has no duplicates, where a
  subscription's channel sits as a function of the program counter of its `remove` (`loc_*`), `delete(find(ch))` is
  never called with a channel that is absent (`no_panic_*`), and `len(cases) ≤ len(f.sendCases)`.
-/
import Aqv.Lemmas.FeedList
namespace Aqv.Feed

@[simp, grind =] theorem upd_apply {α : Type} (f : Nat → α) (a : Nat) (v : α) (x : Nat) :
    upd f a v x = if x = a then v else f x := rfl

/-- the Send call holds the sendLock token -/
def SPc.held : SPc → Bool
  | .locked | .sweep _ | .sel | .removing _ | .panicked => true
  | _ => false
/-- the Send call has merged the inbox and is inside its delivery loop -/
def SPc.merged : SPc → Bool
  | .sweep _ | .sel | .removing _ => true
  | _ => false
/-- the `remove` call holds the sendLock token -/
def RPc.held : RPc → Bool
  | .token | .deleted | .panicked => true
  | _ => false

theorem merged_held (p : SPc) : p.merged = true → p.held = true := by cases p <;> simp [SPc.merged, SPc.held]

structure InvA (s : St) : Prop where
  tok : s.tokenFree = true ↔ s.holder = .none
  hs : ∀ g, (s.spc g).held = true ↔ s.holder = .sender g
  hr : ∀ c, (s.rpc c).held = true ↔ s.holder = .remover c
  nodup : (s.inbox ++ s.sendCases).Nodup
  sub_mem : ∀ c, c ∈ s.inbox ∨ c ∈ s.sendCases → s.subscribed c = true
  unsub_sub : ∀ c, s.rpc c ≠ .idle → s.subscribed c = true
  loc_idle : ∀ c, s.subscribed c = true → (s.rpc c = .idle ∨ s.rpc c = .start) → c ∈ s.inbox ∨ c ∈ s.sendCases
  loc_sel : ∀ c, (s.rpc c = .sel ∨ s.rpc c = .token) → c ∈ s.sendCases
  loc_del : ∀ c, s.rpc c = .deleted → c ∉ s.inbox ∧ c ∉ s.sendCases
  loc_done : ∀ c, s.rpc c = .done → c ∉ s.inbox ∧
    (c ∈ s.sendCases → match s.holder with | .sender g => s.spc g = .removing c | _ => False)
  removing : ∀ g c, s.spc g = .removing c → c ∈ s.sendCases ∧ s.rpc c = .done
  no_panic_s : ∀ g, s.spc g ≠ .panicked
  no_panic_r : ∀ c, s.rpc c ≠ .panicked
  act_le : ∀ g, (s.spc g).merged = true → s.active ≤ s.sendCases.length

theorem invA_init : InvA init := by
  constructor <;> simp [init, SPc.held, RPc.held, SPc.merged]

macro "step_split" hs:ident : tactic =>
  `(tactic| (simp only [step, place] at $hs:ident; (repeat' split at $hs:ident) <;> (try cases $hs:ident)))

macro "inv_auto" : tactic =>
  `(tactic| (constructor <;> simp only [] <;> (try assumption) <;> (try grind [SPc.held, RPc.held, SPc.merged])))

set_option linter.unusedSimpArgs false

theorem invA_subscribe (s s' : St) (c k : Nat) (h : InvA s) (hs : step s (.subscribe c k) = some s') : InvA s' := by
  obtain ⟨h1,h2,h3,h4,h5,h6,h7,h8,h9,h10,h11,h12,h13,h14⟩ := h
  step_split hs
  all_goals inv_auto

theorem invA_sendCall (s s' : St) (g : Nat) (h : InvA s) (hs : step s (.sendCall g) = some s') : InvA s' := by
  obtain ⟨h1,h2,h3,h4,h5,h6,h7,h8,h9,h10,h11,h12,h13,h14⟩ := h
  step_split hs
  all_goals inv_auto

theorem invA_acquire (s s' : St) (g : Nat) (h : InvA s) (hs : step s (.acquire g) = some s') : InvA s' := by
  obtain ⟨h1,h2,h3,h4,h5,h6,h7,h8,h9,h10,h11,h12,h13,h14⟩ := h
  step_split hs
  all_goals inv_auto

theorem invA_merge (s s' : St) (g : Nat) (h : InvA s) (hs : step s (.merge g) = some s') : InvA s' := by
  obtain ⟨h1,h2,h3,h4,h5,h6,h7,h8,h9,h10,h11,h12,h13,h14⟩ := h
  step_split hs
  all_goals inv_auto

theorem invA_tryOk (s s' : St) (g : Nat) (h : InvA s) (hs : step s (.tryOk g) = some s') : InvA s' := by
  obtain ⟨h1,h2,h3,h4,h5,h6,h7,h8,h9,h10,h11,h12,h13,h14⟩ := h
  step_split hs
  rename_i i heq hg
  have hle := h14 g (by simp [heq, SPc.merged])
  have hm := mem_swapAt s.sendCases i (s.active - 1) (by omega) (by omega)
  have hnd := nodup_swapAt s.sendCases i (s.active - 1) (by omega) (by omega)
  have hl := swapAt_length s.sendCases i (s.active - 1)
  simp only [List.nodup_append] at h4 ⊢
  all_goals inv_auto

theorem invA_tryFail (s s' : St) (g : Nat) (h : InvA s) (hs : step s (.tryFail g) = some s') : InvA s' := by
  obtain ⟨h1,h2,h3,h4,h5,h6,h7,h8,h9,h10,h11,h12,h13,h14⟩ := h
  step_split hs
  all_goals inv_auto

theorem invA_sweepEnd (s s' : St) (g : Nat) (h : InvA s) (hs : step s (.sweepEnd g) = some s') : InvA s' := by
  obtain ⟨h1,h2,h3,h4,h5,h6,h7,h8,h9,h10,h11,h12,h13,h14⟩ := h
  step_split hs
  all_goals inv_auto

theorem invA_selPlace (s s' : St) (g i : Nat) (h : InvA s) (hs : step s (.selPlace g i) = some s') : InvA s' := by
  obtain ⟨h1,h2,h3,h4,h5,h6,h7,h8,h9,h10,h11,h12,h13,h14⟩ := h
  step_split hs
  rename_i hg
  have hle := h14 g (by simp [hg.1, SPc.merged])
  have hm := mem_swapAt s.sendCases i (s.active - 1) (by omega) (by omega)
  have hnd := nodup_swapAt s.sendCases i (s.active - 1) (by omega) (by omega)
  have hl := swapAt_length s.sendCases i (s.active - 1)
  simp only [List.nodup_append] at h4 ⊢
  all_goals inv_auto

theorem invA_selRecv (s s' : St) (g c : Nat) (h : InvA s) (hs : step s (.selRecv g c) = some s') : InvA s' := by
  obtain ⟨h1,h2,h3,h4,h5,h6,h7,h8,h9,h10,h11,h12,h13,h14⟩ := h
  step_split hs
  all_goals inv_auto

theorem invA_doRemove (s s' : St) (g : Nat) (h : InvA s) (hs : step s (.doRemove g) = some s') : InvA s' := by
  obtain ⟨h1,h2,h3,h4,h5,h6,h7,h8,h9,h10,h11,h12,h13,h14⟩ := h
  simp only [step] at hs
  split at hs
  · rename_i c heq
    have hc := h11 g c heq
    have hlt := List.idxOf_lt_length_iff.mpr hc.1
    simp only [hlt, if_true] at hs
    cases hs
    simp only [List.nodup_append] at h4 ⊢
    have hme := mem_eraseIdx_idxOf s.sendCases c h4.2.1
    have hnd := h4.2.1.eraseIdx (List.idxOf c s.sendCases)
    have hl := List.length_eraseIdx_of_lt hlt
    have hle := h14 g (by simp [heq, SPc.merged])
    inv_auto
  · cases hs

theorem invA_unsubCall (s s' : St) (c : Nat) (h : InvA s) (hs : step s (.unsubCall c) = some s') : InvA s' := by
  obtain ⟨h1,h2,h3,h4,h5,h6,h7,h8,h9,h10,h11,h12,h13,h14⟩ := h
  step_split hs
  all_goals inv_auto

theorem invA_rmInbox (s s' : St) (c : Nat) (h : InvA s) (hs : step s (.rmInbox c) = some s') : InvA s' := by
  obtain ⟨h1,h2,h3,h4,h5,h6,h7,h8,h9,h10,h11,h12,h13,h14⟩ := h
  step_split hs
  all_goals simp only [List.nodup_append] at h4 ⊢
  all_goals have hme := mem_eraseIdx_idxOf s.inbox c h4.1
  all_goals have hnd := h4.1.eraseIdx (List.idxOf c s.inbox)
  all_goals have hlt := @List.idxOf_lt_length_iff _ _ _ s.inbox c
  all_goals inv_auto

theorem invA_rmToken (s s' : St) (c : Nat) (h : InvA s) (hs : step s (.rmToken c) = some s') : InvA s' := by
  obtain ⟨h1,h2,h3,h4,h5,h6,h7,h8,h9,h10,h11,h12,h13,h14⟩ := h
  step_split hs
  all_goals inv_auto

theorem invA_rmDelete (s s' : St) (c : Nat) (h : InvA s) (hs : step s (.rmDelete c) = some s') : InvA s' := by
  obtain ⟨h1,h2,h3,h4,h5,h6,h7,h8,h9,h10,h11,h12,h13,h14⟩ := h
  step_split hs
  all_goals simp only [List.nodup_append] at h4 ⊢
  all_goals have hme := mem_eraseIdx_idxOf s.sendCases c h4.2.1
  all_goals have hnd := h4.2.1.eraseIdx (List.idxOf c s.sendCases)
  all_goals have hlt := @List.idxOf_lt_length_iff _ _ _ s.sendCases c
  all_goals have mh := merged_held
  all_goals inv_auto

theorem invA_rmRelease (s s' : St) (c : Nat) (h : InvA s) (hs : step s (.rmRelease c) = some s') : InvA s' := by
  obtain ⟨h1,h2,h3,h4,h5,h6,h7,h8,h9,h10,h11,h12,h13,h14⟩ := h
  step_split hs
  all_goals inv_auto

theorem invA_recvBegin (s s' : St) (c : Nat) (h : InvA s) (hs : step s (.recvBegin c) = some s') : InvA s' := by
  obtain ⟨h1,h2,h3,h4,h5,h6,h7,h8,h9,h10,h11,h12,h13,h14⟩ := h
  step_split hs
  all_goals inv_auto

theorem invA_recvTake (s s' : St) (c : Nat) (h : InvA s) (hs : step s (.recvTake c) = some s') : InvA s' := by
  obtain ⟨h1,h2,h3,h4,h5,h6,h7,h8,h9,h10,h11,h12,h13,h14⟩ := h
  step_split hs
  all_goals inv_auto

theorem invA_step (s s' : St) (a : Act) (h : InvA s) (hs : step s a = some s') : InvA s' := by
  cases a with
  | subscribe c k => exact invA_subscribe s s' c k h hs
  | sendCall g => exact invA_sendCall s s' g h hs
  | acquire g => exact invA_acquire s s' g h hs
  | merge g => exact invA_merge s s' g h hs
  | tryOk g => exact invA_tryOk s s' g h hs
  | tryFail g => exact invA_tryFail s s' g h hs
  | sweepEnd g => exact invA_sweepEnd s s' g h hs
  | selPlace g i => exact invA_selPlace s s' g i h hs
  | selRecv g c => exact invA_selRecv s s' g c h hs
  | doRemove g => exact invA_doRemove s s' g h hs
  | unsubCall c => exact invA_unsubCall s s' c h hs
  | rmInbox c => exact invA_rmInbox s s' c h hs
  | rmToken c => exact invA_rmToken s s' c h hs
  | rmDelete c => exact invA_rmDelete s s' c h hs
  | rmRelease c => exact invA_rmRelease s s' c h hs
  | recvBegin c => exact invA_recvBegin s s' c h hs
  | recvTake c => exact invA_recvTake s s' c h hs

theorem invA_reach {s : St} (h : Reach s) : InvA s := by
  induction h with
  | init => exact invA_init
  | step a _ hs ih => exact invA_step _ _ a ih hs

end Aqv.Feed

/-
  Aqv.Lemmas.ConsensusBatch — the result-ordering goroutine of VerifyHeaders emits errors[0..n-1] in order for every
  completion order of the workers.
-/
import Aqv.Model.Consensus
namespace Aqv.Consensus

variable {α : Type}

/-- the invariant of the coordinator state between two `select` rounds. -/
structure Coord.Inv (errors : Nat → α) (n : Nat) (c : Coord α) : Prop where
  emitted : c.emitted = (List.range c.out).map errors
  le : c.out ≤ n
  below : ∀ i, i < c.out → i ∈ c.checked
  stop : c.out < n → c.out ∉ c.checked

theorem Coord.drain_checked (errors : Nat → α) (n : Nat) : ∀ (fuel : Nat) (c : Coord α), (Coord.drain errors n fuel c).checked = c.checked
  | 0, c => rfl
  | fuel + 1, c => by
    unfold Coord.drain
    split
    · rw [Coord.drain_checked errors n fuel]
    · rfl

/-- draining with enough fuel re-establishes the invariant from its "emitted / below" half. -/
theorem Coord.drain_inv (errors : Nat → α) (n : Nat) : ∀ (fuel : Nat) (c : Coord α),
    c.emitted = (List.range c.out).map errors → c.out ≤ n → (∀ i, i < c.out → i ∈ c.checked) → n - c.out ≤ fuel →
    Coord.Inv errors n (Coord.drain errors n fuel c)
  | 0, c, he, hle, hb, hf => by
    unfold Coord.drain
    exact ⟨he, hle, hb, fun h => by omega⟩
  | fuel + 1, c, he, hle, hb, hf => by
    unfold Coord.drain
    split
    · rename_i hc
      apply Coord.drain_inv errors n fuel
      · simp only [he, List.range_succ, List.map_append, List.map_cons, List.map_nil]
      · simp only; omega
      · intro i hi
        simp only at hi ⊢
        by_cases h : i = c.out
        · subst h; simpa using hc.2
        · exact hb i (by omega)
      · simp only; omega
    · rename_i hc
      refine ⟨he, hle, hb, fun h hm => hc ⟨h, ?_⟩⟩
      simpa using hm

theorem Coord.onDone_inv (errors : Nat → α) (n : Nat) (c : Coord α) (index : Nat) (h : Coord.Inv errors n c) :
    Coord.Inv errors n (Coord.onDone errors n c index) := by
  unfold Coord.onDone
  apply Coord.drain_inv
  · exact h.emitted
  · exact h.le
  · intro i hi; exact List.mem_cons_of_mem _ (h.below i hi)
  · simp only; omega

theorem Coord.onDone_checked (errors : Nat → α) (n : Nat) (c : Coord α) (index : Nat) :
    (Coord.onDone errors n c index).checked = index :: c.checked := by
  unfold Coord.onDone; rw [Coord.drain_checked]

theorem Coord.foldl_inv (errors : Nat → α) (n : Nat) : ∀ (completion : List Nat) (c : Coord α), Coord.Inv errors n c →
    Coord.Inv errors n (completion.foldl (Coord.onDone errors n) c) ∧
    ∀ i, i ∈ completion → i ∈ (completion.foldl (Coord.onDone errors n) c).checked
  | [], c, h => ⟨h, fun _ hi => by cases hi⟩
  | x :: rest, c, h => by
    simp only [List.foldl_cons]
    have ih := Coord.foldl_inv errors n rest _ (Coord.onDone_inv errors n c x h)
    refine ⟨ih.1, ?_⟩
    intro i hi
    rcases List.mem_cons.1 hi with rfl | hi
    · -- the index stays checked
      have : ∀ (l : List Nat) (c : Coord α), i ∈ c.checked → i ∈ (l.foldl (Coord.onDone errors n) c).checked := by
        intro l
        induction l with
        | nil => intro c hc; exact hc
        | cons y ys ihy =>
          intro c hc
          simp only [List.foldl_cons]
          apply ihy
          rw [Coord.onDone_checked]; exact List.mem_cons_of_mem _ hc
      apply this
      rw [Coord.onDone_checked]; exact List.mem_cons_self
    · exact ih.2 i hi

theorem Coord.init_inv (errors : Nat → α) (n : Nat) : Coord.Inv errors n { checked := [], out := 0, emitted := [] } :=
  ⟨rfl, Nat.zero_le _, fun i hi => absurd hi (Nat.not_lt_zero i), fun _ h => by cases h⟩

/-- whatever part of the workers has completed, in whatever order: the results sent so far are `errors 0, errors 1, …`
    in input order (a prefix of the final sequence). -/
theorem coordinator_prefix_aux (errors : Nat → α) (n : Nat) (completion : List Nat) :
    ∃ k, k ≤ n ∧ coordinator errors n completion = (List.range k).map errors := by
  have h := (Coord.foldl_inv errors n completion _ (Coord.init_inv errors n)).1
  exact ⟨_, h.le, h.emitted⟩

/-- once every worker has completed (in any order, repetitions harmless) the results are `errors 0 … errors (n-1)` in order. -/
theorem coordinator_complete_aux (errors : Nat → α) (n : Nat) (completion : List Nat) (hall : ∀ i, i < n → i ∈ completion) :
    coordinator errors n completion = (List.range n).map errors := by
  have h := Coord.foldl_inv errors n completion _ (Coord.init_inv errors n)
  have hout : (completion.foldl (Coord.onDone errors n) { checked := [], out := 0, emitted := [] }).out = n := by
    have hle := h.1.le
    by_cases hlt : (completion.foldl (Coord.onDone errors n) { checked := [], out := 0, emitted := [] }).out < n
    · exact absurd (h.2 _ (hall _ hlt)) (h.1.stop hlt)
    · omega
  unfold coordinator
  rw [h.1.emitted, hout]


/-! ## workers vs one-by-one verification -/

/-- the chain reader after the headers of `l` have been written, in order. -/
def insertAll (chain : Chain) (l : List Header) : Chain := l.foldl Chain.insert chain

theorem insertAll_append (chain : Chain) (l : List Header) (x : Header) : insertAll chain (l ++ [x]) = (insertAll chain l).insert x := by
  unfold insertAll; rw [List.foldl_append]; rfl

theorem insertAll_miss (hash n : Nat) : ∀ (l : List Header) (chain : Chain), (∀ x ∈ l, x.number ≠ n) →
    (insertAll chain l).getHeader hash n = chain.getHeader hash n
  | [], _, _ => rfl
  | y :: ys, chain, h => by
    have : insertAll chain (y :: ys) = insertAll (chain.insert y) ys := rfl
    rw [this, insertAll_miss hash n ys _ (fun x hx => h x (List.mem_cons_of_mem _ hx))]
    unfold Chain.insert
    have := h y List.mem_cons_self
    simp only
    rw [if_neg]
    intro hh; exact this hh.2.symm

theorem insert_hit (chain : Chain) (x : Header) : (chain.insert x).getHeader x.hash x.number = some x := by
  unfold Chain.insert; simp

theorem insert_miss (chain : Chain) (x : Header) (hash n : Nat) (h : n ≠ x.number) : (chain.insert x).getHeader hash n = chain.getHeader hash n := by
  unfold Chain.insert; simp only; rw [if_neg]; intro hh; exact h hh.2

theorem subU64_one (a : Nat) (h1 : 1 ≤ a) (h2 : a < two64) : subU64 a 1 = a - 1 := by
  unfold subU64; unfold two64 at *; omega

theorem subU64_two (a : Nat) (h1 : 2 ≤ a) (h2 : a < two64) : subU64 a 2 = a - 2 := by
  unfold subU64; unfold two64 at *; omega

/-- preconditions under which batch verification is compared with one-by-one verification. -/
structure BatchOk (chain : Chain) (hs : List Header) : Prop where
  /-- numbers ascend by one and each header names its predecessor's hash (what `ValidateHeaderChain` / `insertChain` enforce) -/
  contiguous : ∀ i a b, hs[i]? = some a → hs[i + 1]? = some b → b.number = a.number + 1 ∧ b.parentHash = a.hash
  /-- no genesis in the batch; numbers are uint64 -/
  first : ∀ a, hs[0]? = some a → 1 ≤ a.number
  small : ∀ a ∈ hs, a.number < two64
  /-- the reader returns what was asked for -/
  wf : ∀ hash n x, chain.getHeader hash n = some x → x.hash = hash ∧ x.number = n
  /-- the database is closed under parents, as far as the batch can see: a known batch header has a known parent and,
      above height 2, a known grandparent -/
  closed : ∀ a ∈ hs, (chain.getHeader a.hash a.number).isSome →
    ∃ p, chain.getHeader a.parentHash (a.number - 1) = some p ∧ (2 < a.number → (chain.getHeader p.parentHash (a.number - 2)).isSome)
  /-- a stored header with the hash of a batch header is that header (collision-freedom of the header hash on this finite set) -/
  nocoll : ∀ hash n x, chain.getHeader hash n = some x → ∀ y ∈ hs, y.hash = x.hash → y = x

theorem BatchOk.number_at {chain : Chain} {hs : List Header} (ok : BatchOk chain hs) :
    ∀ i a a0, hs[0]? = some a0 → hs[i]? = some a → a.number = a0.number + i
  | 0, a, a0, h0, hi => by rw [h0] at hi; cases hi; rfl
  | i + 1, a, a0, h0, hi => by
    have hlt : i + 1 < hs.length := by
      rcases List.getElem?_eq_some_iff.1 hi with ⟨h, _⟩; exact h
    have : hs[i]? = some hs[i] := List.getElem?_eq_getElem (by omega)
    have hc := ok.contiguous i _ _ this hi
    have ih := ok.number_at i _ a0 h0 this
    omega


theorem worker_eq_entry_zero (env : Env) (chain : Chain) (hs : List Header) (seals : List Bool) (ok : BatchOk chain hs)
    (h0 : Header) (hj : hs[0]? = some h0) :
    workerResult env chain hs seals 0 = verifyHeaderEntry env chain h0 (seals.getD 0 false) := by
  have hmem : h0 ∈ hs := List.mem_of_getElem? hj
  have h1 := ok.first h0 hj
  have hsm := ok.small h0 hmem
  unfold workerResult verifyHeaderEntry
  simp only [hj, if_true]
  rw [subU64_one _ h1 hsm]
  cases hp : chain.getHeader h0.parentHash (h0.number - 1) with
  | none =>
    have hn0 : h0.number ≠ 0 := by omega
    simp only [hn0, ne_eq, not_false_eq_true, if_true]
    cases hk : chain.getHeader h0.hash h0.number with
    | none => simp
    | some k =>
      obtain ⟨p, hp', _⟩ := ok.closed h0 hmem (by simp [hk])
      rw [hp] at hp'; cases hp'
  | some p =>
    have hpn : p.number = h0.number - 1 := (ok.wf _ _ _ hp).2
    simp only
    cases hk : chain.getHeader h0.hash h0.number with
    | some k =>
      obtain ⟨p', hp', hg⟩ := ok.closed h0 hmem (by simp [hk])
      rw [hp] at hp'; cases hp'
      by_cases h2 : 2 < h0.number
      · have := hg h2
        rw [subU64_two _ (by omega) hsm]
        simp [h2]
        intro hnone; rw [hnone] at this; cases this
      · have : ¬ p.number > 1 := by omega
        simp [h2, this]
    | none =>
      by_cases h2 : h0.number > 2
      · have : p.number > 1 := by omega
        simp [h2, this]
      · have : ¬ p.number > 1 := by omega
        simp [h2, this]


theorem worker_eq_entry_one (env : Env) (chain : Chain) (hs : List Header) (seals : List Bool) (ok : BatchOk chain hs)
    (h0 h1 : Header) (hj0 : hs[0]? = some h0) (hj1 : hs[1]? = some h1) :
    workerResult env chain hs seals 1 = verifyHeaderEntry env (chain.insert h0) h1 (seals.getD 1 false) := by
  have hmem0 : h0 ∈ hs := List.mem_of_getElem? hj0
  have hmem1 : h1 ∈ hs := List.mem_of_getElem? hj1
  have hn0 := ok.first h0 hj0
  have hsm0 := ok.small h0 hmem0
  have hsm1 := ok.small h1 hmem1
  obtain ⟨hnum, hlink⟩ := ok.contiguous 0 h0 h1 hj0 hj1
  unfold workerResult verifyHeaderEntry
  simp only [hj0, hj1, Nat.one_ne_zero, if_false, if_true]
  have e1 : subU64 h1.number 1 = h0.number := by rw [subU64_one _ (by omega) hsm1]; omega
  have e2 : subU64 h1.number 2 = h0.number - 1 := by rw [subU64_two _ (by omega) hsm1]; omega
  have e3 : subU64 h0.number 1 = h0.number - 1 := subU64_one _ hn0 hsm0
  rw [e1, e2, e3, hlink, insert_hit]
  rw [insert_miss chain h0 h1.hash h1.number (by omega)]
  simp only
  rw [insert_miss chain h0 h0.parentHash (h0.number - 1) (by omega)]
  have hres : resolveGrand (chain.insert h0) h0 = resolveGrand chain h0 := by
    funext g
    unfold resolveGrand
    cases g with
    | some g => rfl
    | none => simp only [e3]; rw [insert_miss chain h0 h0.parentHash (h0.number - 1) (by omega)]
  rw [hres]
  have hcond : (h1.number > 2) = (h0.number > 1) := by apply propext; omega
  cases hk : chain.getHeader h1.hash h1.number with
  | none =>
    simp only [hcond, Option.isSome_none, Bool.false_eq_true, if_false]
    by_cases c : h0.number > 1 <;> simp [c]
  | some k =>
    obtain ⟨p, hp, hg⟩ := ok.closed h1 hmem1 (by simp [hk])
    have hph : p.hash = h0.hash := by rw [(ok.wf _ _ _ hp).1, hlink]
    have hpe : h0 = p := ok.nocoll _ _ _ hp h0 hmem0 hph.symm
    subst hpe
    simp only [Option.isSome_some, if_true]
    by_cases c : h0.number > 1
    · have hg' := hg (by omega)
      have e : h1.number - 2 = h0.number - 1 := by omega
      rw [e] at hg'
      simp [c, hg']
      intro hnone; rw [hnone] at hg'; cases hg'
    · simp [c]


theorem worker_eq_entry_ge_two (env : Env) (chain : Chain) (hs : List Header) (seals : List Bool) (ok : BatchOk chain hs)
    (j : Nat) (g p h : Header) (hg : hs[j]? = some g) (hp : hs[j + 1]? = some p) (hh : hs[j + 2]? = some h) :
    workerResult env chain hs seals (j + 2) = verifyHeaderEntry env (insertAll chain (hs.take (j + 2))) h (seals.getD (j + 2) false) := by
  have hlen : j + 2 < hs.length := (List.getElem?_eq_some_iff.1 hh).1
  have h0e : hs[0]? = some hs[0] := List.getElem?_eq_getElem (by omega)
  have hn0 := ok.first _ h0e
  have ng := ok.number_at j g _ h0e hg
  have np := ok.number_at (j + 1) p _ h0e hp
  have nh := ok.number_at (j + 2) h _ h0e hh
  have hsm := ok.small h (List.mem_of_getElem? hh)
  have lp := (ok.contiguous j g p hg hp).2
  have lh := (ok.contiguous (j + 1) p h hp hh).2
  have htake : hs.take (j + 2) = hs.take j ++ [g] ++ [p] := by
    rw [List.take_add_one, List.take_add_one, hg, hp]; simp
  have hmiss : ∀ x ∈ hs.take j, x.number ≠ h.number := by
    intro x hx
    obtain ⟨i, hi, rfl⟩ := List.mem_iff_getElem.1 hx
    have hil : i < j := by
      have := List.length_take_le j hs; omega
    have e : (hs.take j)[i] = hs[i]'(by omega) := by simp
    rw [e]
    have := ok.number_at i (hs[i]'(by omega)) _ h0e (List.getElem?_eq_getElem (by omega))
    omega
  unfold workerResult verifyHeaderEntry
  have i2 : j + 2 ≠ 0 := by omega
  have i3 : j + 2 ≠ 1 := by omega
  simp only [hh, h0e, i2, i3, if_false, Nat.add_sub_cancel, show j + 2 - 1 = j + 1 by omega, hp, hg, lh, if_true]
  rw [htake, insertAll_append, insertAll_append]
  have e1 : subU64 h.number 1 = p.number := by rw [subU64_one _ (by omega) hsm]; omega
  have e2 : subU64 h.number 2 = g.number := by rw [subU64_two _ (by omega) hsm]; omega
  rw [e1, e2, insert_hit]
  rw [insert_miss _ p h.hash h.number (by omega), insert_miss _ g h.hash h.number (by omega), insertAll_miss _ _ _ _ hmiss]
  simp only
  rw [lp, insert_miss _ p g.hash g.number (by omega), insert_hit]
  have h2 : h.number > 2 := by omega
  simp [h2, resolveGrand]


/-- the worker for index `j` computes what `VerifyHeader` computes for `hs[j]` once `hs[0..j-1]` have been written. -/
theorem worker_eq_entry (env : Env) (chain : Chain) (hs : List Header) (seals : List Bool) (ok : BatchOk chain hs)
    (j : Nat) (h : Header) (hj : hs[j]? = some h) :
    workerResult env chain hs seals j = verifyHeaderEntry env (insertAll chain (hs.take j)) h (seals.getD j false) := by
  have hlen : j < hs.length := (List.getElem?_eq_some_iff.1 hj).1
  match j, hj, hlen with
  | 0, hj, _ => simpa [insertAll] using worker_eq_entry_zero env chain hs seals ok h hj
  | 1, hj, hlen =>
    have h0e : hs[0]? = some hs[0] := List.getElem?_eq_getElem (by omega)
    have : hs.take 1 = [hs[0]] := by
      rw [List.take_add_one, h0e]; simp
    rw [this]
    exact worker_eq_entry_one env chain hs seals ok _ h h0e hj
  | j + 2, hj, hlen =>
    exact worker_eq_entry_ge_two env chain hs seals ok j _ _ h (List.getElem?_eq_getElem (by omega)) (List.getElem?_eq_getElem (by omega)) hj

theorem sequential_eq_aux (env : Env) (chain : Chain) (hs : List Header) (seals : List Bool) (ok : BatchOk chain hs) :
    ∀ (rest pre : List Header), hs = pre ++ rest →
      sequentialFirstFailure env seals (insertAll chain pre) rest pre.length =
        (firstFailure ((List.range rest.length).map (fun k => workerResult env chain hs seals (pre.length + k)))).map
          (fun ie => (ie.1 + pre.length, ie.2))
  | [], pre, _ => by simp [sequentialFirstFailure, firstFailure]
  | h :: rest, pre, hsplit => by
    have hj : hs[pre.length]? = some h := by rw [hsplit]; simp
    have htake : hs.take pre.length = pre := by rw [hsplit]; simp
    have hw := worker_eq_entry env chain hs seals ok pre.length h hj
    rw [htake] at hw
    unfold sequentialFirstFailure
    rw [← hw]
    simp only [List.length_cons, List.range_succ_eq_map, List.map_cons, List.map_map, Nat.add_zero]
    cases hres : workerResult env chain hs seals pre.length with
    | some e => simp [firstFailure]
    | none =>
      simp only [firstFailure]
      have ih := sequential_eq_aux env chain hs seals ok rest (pre ++ [h]) (by rw [hsplit]; simp)
      rw [insertAll_append] at ih
      simp only [List.length_append, List.length_cons, List.length_nil, Nat.zero_add] at ih
      rw [ih]
      have : ((fun k => workerResult env chain hs seals (pre.length + k)) ∘ Nat.succ) = (fun k => workerResult env chain hs seals (pre.length + 1 + k)) := by
        funext k; simp only [Function.comp]; congr 1; omega
      rw [this]
      cases firstFailure (List.map (fun k => workerResult env chain hs seals (pre.length + 1 + k)) (List.range rest.length)) with
      | none => rfl
      | some ie => simp only [Option.map_some, Option.some.injEq, Prod.mk.injEq, and_true]; omega

theorem sequential_eq_workers (env : Env) (chain : Chain) (hs : List Header) (seals : List Bool) (ok : BatchOk chain hs) :
    sequentialFirstFailure env seals chain hs 0 = firstFailure ((List.range hs.length).map (workerResult env chain hs seals)) := by
  have := sequential_eq_aux env chain hs seals ok hs [] rfl
  simp only [insertAll, List.foldl_nil, List.length_nil, Nat.zero_add, Nat.add_zero] at this
  rw [this]
  cases firstFailure (List.map (fun k => workerResult env chain hs seals k) (List.range hs.length)) <;> rfl


/-! ## the linkage pre-check of ValidateHeaderChain -/

theorem linked_contiguous : ∀ (hs : List Header), linked hs = true → (∀ a ∈ hs, a.number + 1 < two64) →
    ∀ i a b, hs[i]? = some a → hs[i + 1]? = some b → b.number = a.number + 1 ∧ b.parentHash = a.hash
  | [], _, _, i, a, b, ha, _ => by simp at ha
  | [x], _, _, i, a, b, ha, hb => by simp at hb
  | x :: y :: rest, hl, hsm, i, a, b, ha, hb => by
    unfold linked at hl
    simp only [Bool.and_eq_true, decide_eq_true_eq] at hl
    obtain ⟨⟨hn, hp⟩, hrest⟩ := hl
    match i with
    | 0 =>
      simp at ha hb
      subst ha hb
      have h1 := hsm x List.mem_cons_self
      have h2 := hsm y (List.mem_cons_of_mem _ List.mem_cons_self)
      unfold two64 at *
      exact ⟨by omega, hp⟩
    | i + 1 =>
      have ha' : (y :: rest)[i]? = some a := by simpa using ha
      have hb' : (y :: rest)[i + 1]? = some b := by simpa using hb
      exact linked_contiguous (y :: rest) hrest (fun c hc => hsm c (List.mem_cons_of_mem _ hc)) i a b ha' hb'

theorem contiguous_linked : ∀ (hs : List Header),
    (∀ i a b, hs[i]? = some a → hs[i + 1]? = some b → b.number = a.number + 1 ∧ b.parentHash = a.hash) → linked hs = true
  | [], _ => rfl
  | [x], _ => rfl
  | x :: y :: rest, h => by
    unfold linked
    have h0 := h 0 x y (by simp) (by simp)
    have hr := contiguous_linked (y :: rest) (fun i a b ha hb => h (i + 1) a b (by simpa using ha) (by simpa using hb))
    simp only [Bool.and_eq_true, decide_eq_true_eq]
    refine ⟨⟨?_, h0.2⟩, hr⟩
    rw [h0.1]; simp [Nat.add_mod]


/-! ## positional consumption of the result channel -/

theorem consumeResults_lockstep {α : Type} : ∀ (rs : List α) (i : Nat),
    consumeResults (fun _ => false) i rs.length rs = (List.range' i rs.length).zip rs
  | [], _ => by simp [consumeResults]
  | r :: rest, i => by
    simp only [List.length_cons, consumeResults, Bool.false_eq_true, if_false, List.range'_succ, List.zip_cons_cons]
    rw [consumeResults_lockstep rest (i + 1)]

end Aqv.Consensus

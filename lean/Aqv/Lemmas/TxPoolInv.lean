/-
  Aqv.Lemmas.TxPoolInv — the inductive invariant of the pool model and its preservation by the primitive operations
  (enqueueTx, promoteTx, removeTx, fairness eviction, per-account promotion and demotion).

  Three tiers, per account (P = pending list, Q = queue list, pn = virtual next nonce):
  * `Weak`   sortedness, ownership, sound caps, strict flags, no nonce in both lists.  Preserved by every primitive
             unconditionally — it also holds in the middle of a reset, when the lists are not yet adjusted to the new head.
  * `Lite`   `pn ≤ cn` or the pending list has a payable entry at the chain nonce `cn`.  Also holds inside a reset.
  * `Strong` Weak + the pending list is a payable run starting at `cn` + `pn ≤ cn + |P|`.  Holds between operations.
-/
import Aqv.Lemmas.TxList
namespace Aqv.TxPool

@[simp] theorem upd_same {α : Type} (f : Addr → α) (a : Addr) (v : α) : upd f a v a = v := by simp [upd]
theorem upd_other {α : Type} (f : Addr → α) {a b : Addr} (v : α) (h : b ≠ a) : upd f a v b = f b := by simp [upd, h]

structure Weak (P Q : TxL) (a : Addr) : Prop where
  pstrict : P.strict = true
  qstrict : Q.strict = false
  psorted : Sorted P.items
  qsorted : Sorted Q.items
  powner  : ∀ t ∈ P.items, t.sender = a
  qowner  : ∀ t ∈ Q.items, t.sender = a
  pcaps   : CapsOK P
  qcaps   : CapsOK Q
  disj    : ∀ t ∈ P.items, ∀ u ∈ Q.items, t.nonce ≠ u.nonce

def Payable (bal mg : Nat) (t : Tx) : Prop := t.cost ≤ bal ∧ t.gas ≤ mg

def Lite (cn bal mg : Nat) (P : TxL) (pn : Nat) : Prop :=
  pn ≤ cn ∨ ∃ t ∈ P.items, t.nonce = cn ∧ Payable bal mg t

structure Strong (cn bal mg : Nat) (P Q : TxL) (pn : Nat) (a : Addr) : Prop extends Weak P Q a where
  run    : IsRun cn P.items
  pn_le  : pn ≤ cn + P.items.length
  afford : ∀ t ∈ P.items, Payable bal mg t

/-- accounts outside the iteration domain own nothing -/
def Support (s : Pool) : Prop := ∀ a, a ∉ s.accts → (s.pending a).items = [] ∧ (s.queue a).items = []

def WeakAll (s : Pool) : Prop := (∀ a, Weak (s.pending a) (s.queue a) a) ∧ Support s
def LiteAll (s : Pool) : Prop := ∀ a, Lite (s.cnonce a) (s.balance a) s.maxGas (s.pending a) (s.pnonce a)
def Good (s : Pool) : Prop :=
  (∀ a, Strong (s.cnonce a) (s.balance a) s.maxGas (s.pending a) (s.queue a) (s.pnonce a) a) ∧ Support s

/-- the chain view and the configuration are untouched -/
structure SameEnv (s s' : Pool) : Prop where
  cfg : s'.cfg = s.cfg
  cnonce : s'.cnonce = s.cnonce
  balance : s'.balance = s.balance
  maxGas : s'.maxGas = s.maxGas

theorem SameEnv.refl (s : Pool) : SameEnv s s := ⟨rfl, rfl, rfl, rfl⟩
theorem SameEnv.trans {a b c : Pool} (h1 : SameEnv a b) (h2 : SameEnv b c) : SameEnv a c :=
  ⟨h2.cfg.trans h1.cfg, h2.cnonce.trans h1.cnonce, h2.balance.trans h1.balance, h2.maxGas.trans h1.maxGas⟩

theorem Strong.lite {cn bal mg : Nat} {P Q : TxL} {pn : Nat} {a : Addr} (h : Strong cn bal mg P Q pn a) :
    Lite cn bal mg P pn := by
  by_cases hp : pn ≤ cn
  · exact Or.inl hp
  · right
    have hlen : 0 < P.items.length := by have := h.pn_le; omega
    cases hP : P.items with
    | nil => rw [hP] at hlen; cases hlen
    | cons x xs =>
      have hr := h.run; rw [hP] at hr
      exact ⟨x, List.mem_cons_self, hr.1, h.afford x (by rw [hP]; exact List.mem_cons_self)⟩

theorem Good.weakAll {s : Pool} (h : Good s) : WeakAll s := ⟨fun a => (h.1 a).toWeak, h.2⟩
theorem Good.liteAll {s : Pool} (h : Good s) : LiteAll s := fun a => (h.1 a).lite

theorem Weak.empty (a : Addr) : Weak (TxL.empty true) (TxL.empty false) a :=
  { pstrict := rfl, qstrict := rfl, psorted := Sorted.nil, qsorted := Sorted.nil
    powner := by simp [TxL.empty], qowner := by simp [TxL.empty]
    pcaps := CapsOK.empty _, qcaps := CapsOK.empty _, disj := by simp [TxL.empty] }

theorem dropIfEmpty_items (l : TxL) : (dropIfEmpty l).items = l.items := by
  unfold dropIfEmpty; split
  · rename_i h; simp [TxL.empty, List.isEmpty_iff.mp h]
  · rfl

theorem dropIfEmpty_strict (l : TxL) : (dropIfEmpty l).strict = l.strict := by
  unfold dropIfEmpty; split <;> rfl

theorem dropIfEmpty_caps {l : TxL} (h : CapsOK l) : CapsOK (dropIfEmpty l) := by
  unfold dropIfEmpty; split
  · exact CapsOK.empty _
  · exact h

/-- replacing the pending list of a Weak account by a sub-list keeps Weak -/
theorem Weak.subP {P Q : TxL} {a : Addr} (h : Weak P Q a) {P' : TxL} (hst : P'.strict = true)
    (hsub : ∀ t ∈ P'.items, t ∈ P.items) (hsorted : Sorted P'.items) (hcaps : CapsOK P') : Weak P' Q a :=
  { h with pstrict := hst, psorted := hsorted, powner := fun t ht => h.powner t (hsub t ht), pcaps := hcaps
           disj := fun t ht u hu => h.disj t (hsub t ht) u hu }

theorem Weak.subQ {P Q : TxL} {a : Addr} (h : Weak P Q a) {Q' : TxL} (hst : Q'.strict = false)
    (hsub : ∀ t ∈ Q'.items, t ∈ Q.items) (hsorted : Sorted Q'.items) (hcaps : CapsOK Q') : Weak P Q' a :=
  { h with qstrict := hst, qsorted := hsorted, qowner := fun t ht => h.qowner t (hsub t ht), qcaps := hcaps
           disj := fun t ht u hu => h.disj t ht u (hsub u hu) }

/-! ## enqueueTx -/

structure EnqFacts (s : Pool) (t : Tx) (s' : Pool) : Prop where
  env     : SameEnv s s'
  pending : s'.pending = s.pending
  pnonce  : s'.pnonce = s.pnonce
  locals  : s'.locals = s.locals
  gasPrice : s'.gasPrice = s.gasPrice
  qother  : ∀ b, b ≠ t.sender → s'.queue b = s.queue b
  qsub    : ∀ u ∈ (s'.queue t.sender).items, u = t ∨ u ∈ (s.queue t.sender).items
  accts   : ∀ b, b ∈ s.accts → b ∈ s'.accts

theorem enqueueTx_facts (s : Pool) (t : Tx) : EnqFacts s t (s.enqueueTx t).2.2 := by
  unfold Pool.enqueueTx
  simp only
  split
  · exact { env := SameEnv.refl s, pending := rfl, pnonce := rfl, locals := rfl, gasPrice := rfl, qother := fun _ _ => rfl
            qsub := fun u hu => Or.inr hu, accts := fun _ h => h }
  · exact { env := ⟨rfl, rfl, rfl, rfl⟩, pending := rfl, pnonce := rfl, locals := rfl, gasPrice := rfl
            qother := fun b hb => upd_other _ _ hb
            qsub := fun u hu => by
              simp only [upd_same] at hu
              exact TxL.add_items_sub _ _ _ u hu
            accts := fun b hb => by
              simp only; split
              · exact hb
              · exact List.mem_cons_of_mem _ hb }

theorem enqueueTx_weak {s : Pool} {t : Tx} (h : WeakAll s)
    (hfree : ∀ p ∈ (s.pending t.sender).items, p.nonce ≠ t.nonce) : WeakAll (s.enqueueTx t).2.2 := by
  have hf := enqueueTx_facts s t
  unfold Pool.enqueueTx at hf ⊢
  simp only at hf ⊢
  split
  · exact h
  · rename_i hins
    simp only [Bool.not_eq_true'] at hins
    constructor
    · intro a
      by_cases ha : a = t.sender
      · subst ha
        have hw := h.1 t.sender
        have hspec := TxL.add_spec (s.queue t.sender) t s.cfg.priceBump hw.qsorted
        simp only at hspec
        have hins' : ((s.queue t.sender).add t s.cfg.priceBump).1 = true := by
          cases hh : ((s.queue t.sender).add t s.cfg.priceBump).1 <;> simp_all
        obtain ⟨hmem, hsorted, hstrict⟩ := hspec.1 hins'
        simp only [upd_same]
        exact { hw with
          qstrict := by rw [hstrict]; exact hw.qstrict
          qsorted := hsorted
          qowner := fun u hu => by
            rcases (hmem u).mp hu with rfl | ⟨hu', _⟩
            · rfl
            · exact hw.qowner u hu'
          qcaps := TxL.add_caps _ _ _ hw.qcaps
          disj := fun p hp u hu => by
            rcases (hmem u).mp hu with rfl | ⟨hu', _⟩
            · exact hfree p hp
            · exact hw.disj p hp u hu' }
      · simp only [upd_other _ _ ha]; exact h.1 a
    · intro a ha
      have ha' : a ∉ s.accts := by
        intro hc; apply ha; simp only; split
        · exact hc
        · exact List.mem_cons_of_mem _ hc
      have hne : a ≠ t.sender := by
        intro e; subst e; apply ha; simp only; split
        · assumption
        · exact List.mem_cons_self
      simp only [upd_other _ _ hne]
      exact h.2 a ha'

/-- folding enqueueTx over transactions of one sender whose nonces are free in the pending list -/
def enqueueAll (s : Pool) (us : List Tx) : Pool := us.foldl (fun s u => (s.enqueueTx u).2.2) s

structure EnqAllFacts (s : Pool) (a : Addr) (us : List Tx) (s' : Pool) : Prop where
  env     : SameEnv s s'
  pending : s'.pending = s.pending
  pnonce  : s'.pnonce = s.pnonce
  locals  : s'.locals = s.locals
  gasPrice : s'.gasPrice = s.gasPrice
  qother  : ∀ b, b ≠ a → s'.queue b = s.queue b
  qsub    : ∀ u ∈ (s'.queue a).items, u ∈ us ∨ u ∈ (s.queue a).items
  accts   : ∀ b, b ∈ s.accts → b ∈ s'.accts

theorem enqueueAll_facts (s : Pool) (a : Addr) (us : List Tx) (hown : ∀ u ∈ us, u.sender = a) :
    EnqAllFacts s a us (enqueueAll s us) := by
  induction us generalizing s with
  | nil => exact { env := SameEnv.refl s, pending := rfl, pnonce := rfl, locals := rfl, gasPrice := rfl
                   qother := fun _ _ => rfl, qsub := fun u hu => Or.inr hu, accts := fun _ h => h }
  | cons x xs ih =>
    have hx : x.sender = a := hown x List.mem_cons_self
    have h1 := enqueueTx_facts s x
    have h2 := ih (s.enqueueTx x).2.2 (fun u hu => hown u (List.mem_cons_of_mem _ hu))
    simp only [enqueueAll, List.foldl_cons] at h2 ⊢
    exact { env := h1.env.trans h2.env, pending := h2.pending.trans h1.pending, pnonce := h2.pnonce.trans h1.pnonce
            locals := h2.locals.trans h1.locals, gasPrice := h2.gasPrice.trans h1.gasPrice
            qother := fun b hb => (h2.qother b hb).trans (h1.qother b (by rw [hx]; exact hb))
            qsub := fun u hu => by
              rcases h2.qsub u hu with h | h
              · exact Or.inl (List.mem_cons_of_mem _ h)
              · rw [← hx] at h
                rcases h1.qsub u h with rfl | h'
                · exact Or.inl List.mem_cons_self
                · rw [hx] at h'; exact Or.inr h'
            accts := fun b hb => h2.accts b (h1.accts b hb) }

theorem enqueueAll_weak {s : Pool} {a : Addr} {us : List Tx} (h : WeakAll s) (hown : ∀ u ∈ us, u.sender = a)
    (hfree : ∀ u ∈ us, ∀ p ∈ (s.pending a).items, p.nonce ≠ u.nonce) : WeakAll (enqueueAll s us) := by
  induction us generalizing s with
  | nil => exact h
  | cons x xs ih =>
    have hx : x.sender = a := hown x List.mem_cons_self
    have h1 := enqueueTx_facts s x
    simp only [enqueueAll, List.foldl_cons]
    apply ih (enqueueTx_weak h (by rw [hx]; exact hfree x List.mem_cons_self))
      (fun u hu => hown u (List.mem_cons_of_mem _ hu))
    intro u hu p hp
    rw [h1.pending] at hp
    exact hfree u (List.mem_cons_of_mem _ hu) p hp

theorem mem_insertAll {t u : Tx} {l : List Tx} : u ∈ insertAll t l ↔ u = t ∨ u ∈ l := by
  unfold insertAll; split
  · rename_i h; constructor
    · exact Or.inr
    · rintro (rfl | h')
      · exact h
      · exact h'
  · simp

theorem mem_delAll {t u : Tx} {l : List Tx} : u ∈ delAll t l ↔ u ∈ l ∧ u ≠ t := by
  unfold delAll; simp [List.mem_filter]

/-! ### enqueueTx into a slot that is free in both lists -/

theorem enqueueTx_free {s : Pool} {t : Tx} (hq : Sorted (s.queue t.sender).items)
    (hfreeQ : ∀ q ∈ (s.queue t.sender).items, q.nonce ≠ t.nonce) :
    (∀ u, u ∈ ((s.enqueueTx t).2.2.queue t.sender).items ↔ u = t ∨ u ∈ (s.queue t.sender).items) ∧
    (∀ u, u ∈ (s.enqueueTx t).2.2.all ↔ u = t ∨ u ∈ s.all) := by
  have hnone : getN (s.queue t.sender).items t.nonce = none := getN_none.mpr hfreeQ
  unfold Pool.enqueueTx
  simp only [TxL.add, hnone, Bool.not_true, Bool.false_eq_true, if_false, upd_same]
  refine ⟨fun u => ?_, fun u => mem_insertAll⟩
  simp only [TxL.putTx]
  rw [mem_put hq]
  constructor
  · rintro (h | ⟨h, _⟩)
    · exact Or.inl h
    · exact Or.inr h
  · rintro (h | h)
    · exact Or.inl h
    · exact Or.inr ⟨h, hfreeQ u h⟩

theorem enqueueAll_exact {s : Pool} {a : Addr} {us : List Tx} (hq : Sorted (s.queue a).items) (hus : Sorted us)
    (hown : ∀ u ∈ us, u.sender = a)
    (hfreeQ : ∀ u ∈ us, ∀ q ∈ (s.queue a).items, q.nonce ≠ u.nonce) :
    (∀ x, x ∈ ((enqueueAll s us).queue a).items ↔ x ∈ us ∨ x ∈ (s.queue a).items) ∧
    (∀ x, x ∈ (enqueueAll s us).all ↔ x ∈ us ∨ x ∈ s.all) := by
  induction us generalizing s with
  | nil => simp [enqueueAll]
  | cons y ys ih =>
    have hy : y.sender = a := hown y List.mem_cons_self
    have hsy := sorted_cons.mp hus
    have h1 := enqueueTx_free (s := s) (t := y) (by rw [hy]; exact hq) (by rw [hy]; exact hfreeQ y List.mem_cons_self)
    rw [hy] at h1
    have hq1 : Sorted ((s.enqueueTx y).2.2.queue a).items := by
      have := enqueueTx_facts s y
      unfold Pool.enqueueTx
      simp only
      split
      · exact hq
      · simp only [← hy, upd_same]
        have hs : Sorted (s.queue y.sender).items := by rw [hy]; exact hq
        rename_i hins
        have hins' : ((s.queue y.sender).add y s.cfg.priceBump).1 = true := by simpa using hins
        exact ((TxL.add_spec _ _ _ hs).1 hins').2.1
    have := ih (s := (s.enqueueTx y).2.2) hq1 hsy.2 (fun u hu => hown u (List.mem_cons_of_mem _ hu))
      (fun u hu q hq' => by
        rcases (h1.1 q).mp hq' with rfl | hq''
        · have := hsy.1 u hu; omega
        · exact hfreeQ u (List.mem_cons_of_mem _ hu) q hq'')
    simp only [enqueueAll, List.foldl_cons] at this ⊢
    refine ⟨fun x => ?_, fun x => ?_⟩
    · rw [this.1 x, h1.1 x]; simp only [List.mem_cons]
      constructor
      · rintro (h | h | h)
        · exact Or.inl (Or.inr h)
        · exact Or.inl (Or.inl h)
        · exact Or.inr h
      · rintro ((h | h) | h)
        · exact Or.inr (Or.inl h)
        · exact Or.inl h
        · exact Or.inr (Or.inr h)
    · rw [this.2 x, h1.2 x]; simp only [List.mem_cons]
      constructor
      · rintro (h | h | h)
        · exact Or.inl (Or.inr h)
        · exact Or.inl (Or.inl h)
        · exact Or.inr h
      · rintro ((h | h) | h)
        · exact Or.inr (Or.inl h)
        · exact Or.inl h
        · exact Or.inr (Or.inr h)


/-! ## promoteTx -/

def promoteAll (s : Pool) (a : Addr) (ts : List Tx) : Pool := ts.foldl (fun s t => s.promoteTx a t) s

structure PromFacts (s : Pool) (a : Addr) (s' : Pool) : Prop where
  env     : SameEnv s s'
  queue   : s'.queue = s.queue
  locals  : s'.locals = s.locals
  gasPrice : s'.gasPrice = s.gasPrice
  pother  : ∀ b, b ≠ a → s'.pending b = s.pending b
  nother  : ∀ b, b ≠ a → s'.pnonce b = s.pnonce b
  accts   : ∀ b, b ∈ s.accts → b ∈ s'.accts

theorem PromFacts.refl (s : Pool) (a : Addr) : PromFacts s a s :=
  { env := SameEnv.refl s, queue := rfl, locals := rfl, gasPrice := rfl, pother := fun _ _ => rfl
    nother := fun _ _ => rfl, accts := fun _ h => h }

theorem PromFacts.trans {s1 s2 s3 : Pool} {a : Addr} (h1 : PromFacts s1 a s2) (h2 : PromFacts s2 a s3) : PromFacts s1 a s3 :=
  { env := h1.env.trans h2.env, queue := h2.queue.trans h1.queue, locals := h2.locals.trans h1.locals
    gasPrice := h2.gasPrice.trans h1.gasPrice
    pother := fun b hb => (h2.pother b hb).trans (h1.pother b hb)
    nother := fun b hb => (h2.nother b hb).trans (h1.nother b hb)
    accts := fun b hb => h2.accts b (h1.accts b hb) }

theorem promoteTx_facts (s : Pool) (a : Addr) (t : Tx) : PromFacts s a (s.promoteTx a t) := by
  unfold Pool.promoteTx
  simp only
  split
  · exact { env := ⟨rfl, rfl, rfl, rfl⟩, queue := rfl, locals := rfl, gasPrice := rfl, pother := fun _ _ => rfl
            nother := fun _ _ => rfl, accts := fun _ h => h }
  · exact { env := ⟨rfl, rfl, rfl, rfl⟩, queue := rfl, locals := rfl, gasPrice := rfl
            pother := fun b hb => upd_other _ _ hb, nother := fun b hb => upd_other _ _ hb
            accts := fun b hb => by
              simp only; split
              · exact hb
              · exact List.mem_cons_of_mem _ hb }

theorem promoteAll_facts (s : Pool) (a : Addr) (ts : List Tx) : PromFacts s a (promoteAll s a ts) := by
  induction ts generalizing s with
  | nil => exact PromFacts.refl s a
  | cons x xs ih =>
    simp only [promoteAll, List.foldl_cons]
    exact (promoteTx_facts s a x).trans (ih _)

/-- promoting a transaction into a free slot of the pending list: the list gains exactly that entry -/
theorem promoteTx_free {s : Pool} {a : Addr} {t : Tx} (hs : Sorted (s.pending a).items)
    (hfree : ∀ p ∈ (s.pending a).items, p.nonce ≠ t.nonce) :
    (∀ u, u ∈ ((s.promoteTx a t).pending a).items ↔ u = t ∨ u ∈ (s.pending a).items) ∧
    Sorted ((s.promoteTx a t).pending a).items ∧
    ((s.promoteTx a t).pending a).strict = (s.pending a).strict ∧
    (CapsOK (s.pending a) → CapsOK ((s.promoteTx a t).pending a)) ∧
    (s.promoteTx a t).pnonce a = t.nonce + 1 ∧
    ((s.promoteTx a t).pending a).items = put t (s.pending a).items := by
  have hnone : getN (s.pending a).items t.nonce = none := getN_none.mpr hfree
  unfold Pool.promoteTx
  simp only [TxL.add, hnone, Bool.not_true, Bool.false_eq_true, if_false, upd_same]
  refine ⟨fun u => ?_, put_sorted hs, rfl, fun hc => hc.putTx t, trivial, rfl⟩
  simp only [TxL.putTx]
  rw [mem_put hs]
  constructor
  · rintro (h | ⟨h, _⟩)
    · exact Or.inl h
    · exact Or.inr h
  · rintro (h | h)
    · exact Or.inl h
    · exact Or.inr ⟨h, hfree u h⟩

/-- Weak through a fold of promotions into free slots (transactions taken out of the queue) -/
theorem promoteAll_weak {s : Pool} {a : Addr} {ts : List Tx} (h : WeakAll s) (hts : Sorted ts)
    (hown : ∀ t ∈ ts, t.sender = a)
    (hfreeP : ∀ t ∈ ts, ∀ p ∈ (s.pending a).items, p.nonce ≠ t.nonce)
    (hfreeQ : ∀ t ∈ ts, ∀ q ∈ (s.queue a).items, q.nonce ≠ t.nonce) :
    WeakAll (promoteAll s a ts) ∧
    (∀ u, u ∈ ((promoteAll s a ts).pending a).items ↔ u ∈ ts ∨ u ∈ (s.pending a).items) := by
  induction ts generalizing s with
  | nil => exact ⟨h, fun u => by simp [promoteAll]⟩
  | cons x xs ih =>
    have hw := h.1 a
    have hfx := promoteTx_free (s := s) (a := a) (t := x) hw.psorted (hfreeP x List.mem_cons_self)
    have hf := promoteTx_facts s a x
    have hsx := sorted_cons.mp hts
    have hweak1 : WeakAll (s.promoteTx a x) := by
      constructor
      · intro b
        by_cases hb : b = a
        · subst hb
          rw [hf.queue]
          exact { hw with
            pstrict := by rw [hfx.2.2.1]; exact hw.pstrict
            psorted := hfx.2.1
            powner := fun u hu => by
              rcases (hfx.1 u).mp hu with rfl | hu'
              · exact hown _ List.mem_cons_self
              · exact hw.powner u hu'
            pcaps := hfx.2.2.2.1 hw.pcaps
            disj := fun u hu q hq => by
              rcases (hfx.1 u).mp hu with rfl | hu'
              · exact fun e => hfreeQ _ List.mem_cons_self q hq e.symm
              · exact hw.disj u hu' q hq }
        · rw [hf.pother b hb, hf.queue]; exact h.1 b
      · intro b hb
        have hb' : b ∉ s.accts := fun hc => hb (hf.accts b hc)
        have hne : b ≠ a := by
          intro e; subst e; apply hb
          unfold Pool.promoteTx; simp only; split
          · -- not inserted: impossible here, but the account list is unchanged and b ∉ it means empty lists
            rename_i hni
            have : getN (s.pending b).items x.nonce = none := getN_none.mpr (hfreeP x List.mem_cons_self)
            simp [TxL.add, this] at hni
          · simp only
            first
              | exact List.mem_cons_self
              | (split
                 · assumption
                 · exact List.mem_cons_self)
        rw [hf.pother b hne, hf.queue]; exact h.2 b hb'
    have := ih hweak1 hsx.2 (fun t ht => hown t (List.mem_cons_of_mem _ ht))
      (fun t ht p hp => by
        rcases (hfx.1 p).mp hp with rfl | hp'
        · have := hsx.1 t ht; omega
        · exact hfreeP t (List.mem_cons_of_mem _ ht) p hp')
      (fun t ht q hq => by rw [hf.queue] at hq; exact hfreeQ t (List.mem_cons_of_mem _ ht) q hq)
    simp only [promoteAll, List.foldl_cons] at this ⊢
    refine ⟨this.1, fun u => ?_⟩
    rw [this.2 u, hfx.1 u]
    simp only [List.mem_cons]
    constructor
    · rintro (h1 | h1 | h1)
      · exact Or.inl (Or.inr h1)
      · exact Or.inl (Or.inl h1)
      · exact Or.inr h1
    · rintro ((h1 | h1) | h1)
      · exact Or.inr (Or.inl h1)
      · exact Or.inl h1
      · exact Or.inr (Or.inr h1)

/-- the virtual nonce after a fold of promotions into free slots -/
theorem promoteAll_pnonce {s : Pool} {a : Addr} {ts : List Tx} (hs : Sorted (s.pending a).items) (hts : Sorted ts)
    (hfreeP : ∀ t ∈ ts, ∀ p ∈ (s.pending a).items, p.nonce ≠ t.nonce) :
    (promoteAll s a ts).pnonce a = match ts.getLast? with
      | some l => l.nonce + 1
      | none => s.pnonce a := by
  induction ts generalizing s with
  | nil => simp [promoteAll]
  | cons x xs ih =>
    have hfx := promoteTx_free (s := s) (a := a) (t := x) hs (hfreeP x List.mem_cons_self)
    have hsx := sorted_cons.mp hts
    have := ih (s := s.promoteTx a x) hfx.2.1 hsx.2 (fun t ht p hp => by
        rcases (hfx.1 p).mp hp with rfl | hp'
        · have := hsx.1 t ht; omega
        · exact hfreeP t (List.mem_cons_of_mem _ ht) p hp')
    simp only [promoteAll, List.foldl_cons] at this ⊢
    rw [this]
    cases xs with
    | nil => simp [hfx.2.2.2.2.1]
    | cons y ys =>
      rw [List.getLast?_cons_cons]
      cases hl : (y :: ys).getLast? with
      | none => simp at hl
      | some l => rfl

/-- appending a run at the end of a run (the Strong case of promotion) -/
theorem promoteAll_run {s : Pool} {a : Addr} {ts : List Tx} {cn : Nat} (hrun : IsRun cn (s.pending a).items)
    (hts : IsRun (cn + (s.pending a).items.length) ts) :
    ((promoteAll s a ts).pending a).items = (s.pending a).items ++ ts := by
  induction ts generalizing s with
  | nil => simp [promoteAll]
  | cons x xs ih =>
    have hfree : ∀ p ∈ (s.pending a).items, p.nonce ≠ x.nonce := by
      intro p hp; have := (hrun.sorted.2 p hp).2; have := hts.1; omega
    have hfx := promoteTx_free (s := s) (a := a) (t := x) hrun.sorted.1 hfree
    have hput := hrun.put_next (t := x) hts.1
    have hitems : ((s.promoteTx a x).pending a).items = (s.pending a).items ++ [x] := by rw [hfx.2.2.2.2.2, hput.1]
    have := ih (s := s.promoteTx a x) (by rw [hitems]; exact hput.2)
      (by rw [hitems]; simp only [List.length_append, List.length_cons, List.length_nil]
          have := hts.2; rwa [show cn + (s.pending a).items.length + 1 = cn + ((s.pending a).items.length + 0 + 1) by omega] at this)
    simp only [promoteAll, List.foldl_cons] at this ⊢
    rw [this, hitems]; simp

/-! ## generic transport -/

/-- only account `a`'s lists / virtual nonce (and `all`, `accts`) change -/
structure Touch (s : Pool) (a : Addr) (s' : Pool) : Prop where
  env     : SameEnv s s'
  locals  : s'.locals = s.locals
  gasPrice : s'.gasPrice = s.gasPrice
  pother  : ∀ b, b ≠ a → s'.pending b = s.pending b
  qother  : ∀ b, b ≠ a → s'.queue b = s.queue b
  nother  : ∀ b, b ≠ a → s'.pnonce b = s.pnonce b
  accts   : ∀ b, b ∈ s.accts → b ∈ s'.accts

theorem Touch.refl (s : Pool) (a : Addr) : Touch s a s :=
  { env := SameEnv.refl s, locals := rfl, gasPrice := rfl, pother := fun _ _ => rfl, qother := fun _ _ => rfl
    nother := fun _ _ => rfl, accts := fun _ h => h }

theorem Touch.trans {s1 s2 s3 : Pool} {a : Addr} (h1 : Touch s1 a s2) (h2 : Touch s2 a s3) : Touch s1 a s3 :=
  { env := h1.env.trans h2.env, locals := h2.locals.trans h1.locals, gasPrice := h2.gasPrice.trans h1.gasPrice
    pother := fun b hb => (h2.pother b hb).trans (h1.pother b hb)
    qother := fun b hb => (h2.qother b hb).trans (h1.qother b hb)
    nother := fun b hb => (h2.nother b hb).trans (h1.nother b hb)
    accts := fun b hb => h2.accts b (h1.accts b hb) }

theorem PromFacts.touch {s s' : Pool} {a : Addr} (h : PromFacts s a s') : Touch s a s' :=
  { env := h.env, locals := h.locals, gasPrice := h.gasPrice, pother := h.pother
    qother := fun b _ => by rw [h.queue], nother := h.nother, accts := h.accts }

theorem EnqAllFacts.touch {s s' : Pool} {a : Addr} {us : List Tx} (h : EnqAllFacts s a us s') : Touch s a s' :=
  { env := h.env, locals := h.locals, gasPrice := h.gasPrice, pother := fun b _ => by rw [h.pending]
    qother := h.qother, nother := fun b _ => by rw [h.pnonce], accts := h.accts }

/-- WeakAll after an update that touches one account -/
theorem WeakAll.touch {s s' : Pool} {a : Addr} (h : WeakAll s) (ht : Touch s a s')
    (hw : Weak (s'.pending a) (s'.queue a) a)
    (hsupp : a ∉ s'.accts → (s'.pending a).items = [] ∧ (s'.queue a).items = []) : WeakAll s' := by
  constructor
  · intro b
    by_cases hb : b = a
    · subst hb; exact hw
    · rw [ht.pother b hb, ht.qother b hb]; exact h.1 b
  · intro b hb
    by_cases hba : b = a
    · subst hba; exact hsupp hb
    · rw [ht.pother b hba, ht.qother b hba]; exact h.2 b (fun hc => hb (ht.accts b hc))

theorem LiteAll.touch {s s' : Pool} {a : Addr} (h : LiteAll s) (ht : Touch s a s')
    (hl : Lite (s.cnonce a) (s.balance a) s.maxGas (s'.pending a) (s'.pnonce a)) : LiteAll s' := by
  intro b
  rw [ht.env.cnonce, ht.env.balance, ht.env.maxGas]
  by_cases hb : b = a
  · subst hb; exact hl
  · rw [ht.pother b hb, ht.nother b hb]; exact h b

theorem Good.touch {s s' : Pool} {a : Addr} (h : Good s) (ht : Touch s a s')
    (hst : Strong (s.cnonce a) (s.balance a) s.maxGas (s'.pending a) (s'.queue a) (s'.pnonce a) a)
    (hsupp : a ∉ s'.accts → (s'.pending a).items = [] ∧ (s'.queue a).items = []) : Good s' := by
  constructor
  · intro b
    rw [ht.env.cnonce, ht.env.balance, ht.env.maxGas]
    by_cases hb : b = a
    · subst hb; exact hst
    · rw [ht.pother b hb, ht.qother b hb, ht.nother b hb]; exact h.1 b
  · intro b hb
    by_cases hba : b = a
    · subst hba; exact hsupp hb
    · rw [ht.pother b hba, ht.qother b hba]; exact h.2 b (fun hc => hb (ht.accts b hc))

/-! ## lowering the virtual nonce -/

/-- `if nonce := tx.Nonce(); pool.pendingState.GetNonce(addr) > nonce { SetNonce(addr, nonce) }` -/
def lowerN (s : Pool) (a : Addr) (n : Nat) : Pool := if n < s.pnonce a then s.setN a n else s

theorem lowerN_spec (s : Pool) (a : Addr) (n : Nat) :
    Touch s a (lowerN s a n) ∧ (lowerN s a n).pending = s.pending ∧ (lowerN s a n).queue = s.queue ∧
    (lowerN s a n).accts = s.accts ∧ (lowerN s a n).pnonce a = (if n < s.pnonce a then n else s.pnonce a) := by
  unfold lowerN
  split
  · refine ⟨{ env := ⟨rfl, rfl, rfl, rfl⟩, locals := rfl, gasPrice := rfl, pother := fun _ _ => rfl
              qother := fun _ _ => rfl, nother := fun b hb => upd_other _ _ hb, accts := fun _ h => h }, rfl, rfl, rfl, ?_⟩
    show upd s.pnonce a n a = n
    exact upd_same _ _ _
  · exact ⟨Touch.refl _ _, rfl, rfl, rfl, rfl⟩

theorem WeakAll.congr {s s' : Pool} (h : WeakAll s) (hp : s'.pending = s.pending) (hq : s'.queue = s.queue)
    (ha : s'.accts = s.accts) : WeakAll s' := by
  unfold WeakAll Support at h ⊢
  rw [hp, hq, ha]; exact h

/-! ## removeTx -/

/-- what removeTx does to the lists of the sender (besides `all`):
    nothing; or the pending entry at the nonce and everything above it leaves the pending list (the followers are
    re-queued) and the virtual nonce is lowered; or the queue entry at the nonce is removed. -/
inductive RemCase (s : Pool) (t : Tx) (s' : Pool) : Prop
  | noop (h : s' = s) (hnin : t ∉ s.all)
  | pend (hin : t ∈ s.all) (hfound : (getN (s.pending t.sender).items t.nonce).isSome)
         (hitems : (s'.pending t.sender).items = (s.pending t.sender).items.filter (fun u => decide (u.nonce < t.nonce)))
         (hpn : s'.pnonce t.sender = if t.nonce < s.pnonce t.sender then t.nonce else s.pnonce t.sender)
         (hq : ∀ u ∈ (s'.queue t.sender).items, u ∈ (s.queue t.sender).items ∨
                 (u ∈ (s.pending t.sender).items ∧ t.nonce < u.nonce))
         (hqx : ∀ u, u ∈ (s'.queue t.sender).items ↔ u ∈ (s.queue t.sender).items ∨
                 (u ∈ (s.pending t.sender).items ∧ t.nonce < u.nonce))
         (hall : ∀ u, u ∈ s'.all ↔ (u ∈ s.all ∧ u ≠ t) ∨ (u ∈ (s.pending t.sender).items ∧ t.nonce < u.nonce))
  | queue (hin : t ∈ s.all) (hp : s'.pending t.sender = s.pending t.sender) (hpn : s'.pnonce t.sender = s.pnonce t.sender)
          (hq : ∀ u ∈ (s'.queue t.sender).items, u ∈ (s.queue t.sender).items ∧ u.nonce ≠ t.nonce)
          (hnone : getN (s.pending t.sender).items t.nonce = none)
          (hqx : ∀ u, u ∈ (s'.queue t.sender).items ↔ u ∈ (s.queue t.sender).items ∧ u.nonce ≠ t.nonce)
          (hall : ∀ u, u ∈ s'.all ↔ u ∈ s.all ∧ u ≠ t)
          (hqitems : (s'.queue t.sender).items = (s.queue t.sender).items.filter (fun u => !decide (u.nonce = t.nonce)))

theorem removeTx_spec (s : Pool) (t : Tx) (hw : WeakAll s) :
    Touch s t.sender (s.removeTx t) ∧ WeakAll (s.removeTx t) ∧ RemCase s t (s.removeTx t) := by
  unfold Pool.removeTx Pool.removeTxG
  by_cases hall : t ∉ s.all
  · rw [if_pos hall]; exact ⟨Touch.refl _ _, hw, RemCase.noop rfl hall⟩
  · rw [if_neg hall]
    simp only [Bool.true_or, if_true]
    have hwa := hw.1 t.sender
    have hrs := TxL.remove_spec (s.pending t.sender) t
    cases hr1 : ((s.pending t.sender).remove t).1 with
    | true =>
      simp only [hr1, if_true]
      -- the state after taking the entry out of the pending list
      let s2 : Pool := ({ s with all := delAll t s.all } : Pool).setP t.sender (dropIfEmpty ((s.pending t.sender).remove t).2.2)
      have hkept := hrs.kept_strict hwa.pstrict hr1
      have hs2p : (s2.pending t.sender).items = (s.pending t.sender).items.filter (fun u => decide (u.nonce < t.nonce)) := by
        show (upd s.pending t.sender (dropIfEmpty ((s.pending t.sender).remove t).2.2) t.sender).items = _
        rw [upd_same, dropIfEmpty_items, hkept]
      have ht2 : Touch s t.sender s2 :=
        { env := ⟨rfl, rfl, rfl, rfl⟩, locals := rfl, gasPrice := rfl, pother := fun b hb => upd_other _ _ hb
          qother := fun _ _ => rfl, nother := fun _ _ => rfl, accts := fun _ h => h }
      have hw2 : WeakAll s2 := by
        apply hw.touch ht2
        · show Weak (upd s.pending t.sender (dropIfEmpty ((s.pending t.sender).remove t).2.2) t.sender) _ _
          rw [upd_same]
          apply hwa.subP
          · rw [dropIfEmpty_strict, hrs.strict]; exact hwa.pstrict
          · intro u hu; rw [dropIfEmpty_items] at hu; exact (hrs.kept_sub u hu).1
          · rw [dropIfEmpty_items]; exact hrs.sorted hwa.psorted
          · apply dropIfEmpty_caps
            intro u hu
            have := hwa.pcaps u (hrs.kept_sub u hu).1
            rw [hrs.caps_eq.1, hrs.caps_eq.2]; exact this
        · intro hna
          have := hw.2 t.sender hna
          refine ⟨?_, this.2⟩
          rw [hs2p, this.1]; rfl
      have hinvown : ∀ u ∈ ((s.pending t.sender).remove t).2.1, u.sender = t.sender :=
        fun u hu => hwa.powner u (hrs.inv_sub u hu).1
      have hfacts := enqueueAll_facts s2 t.sender _ hinvown
      have hw3 := enqueueAll_weak hw2 hinvown (by
        intro u hu p hp
        rw [hs2p] at hp
        have h1 := (List.mem_filter.mp hp).2
        have h2 := (hrs.inv_sub u hu).2
        simp only [decide_eq_true_eq] at h1
        omega)
      have ht3 : Touch s t.sender (enqueueAll s2 ((s.pending t.sender).remove t).2.1) := ht2.trans hfacts.touch
      have hq3 : ∀ u ∈ ((enqueueAll s2 ((s.pending t.sender).remove t).2.1).queue t.sender).items,
          u ∈ (s.queue t.sender).items ∨ (u ∈ (s.pending t.sender).items ∧ t.nonce < u.nonce) := by
        intro u hu
        rcases hfacts.qsub u hu with h | h
        · exact Or.inr (hrs.inv_sub u h)
        · exact Or.inl h
      have hp3 : ((enqueueAll s2 ((s.pending t.sender).remove t).2.1).pending t.sender).items =
          (s.pending t.sender).items.filter (fun u => decide (u.nonce < t.nonce)) := by rw [hfacts.pending]; exact hs2p
      have hn3 : (enqueueAll s2 ((s.pending t.sender).remove t).2.1).pnonce t.sender = s.pnonce t.sender := by
        rw [hfacts.pnonce]; rfl
      have hl := lowerN_spec (enqueueAll s2 ((s.pending t.sender).remove t).2.1) t.sender t.nonce
      show Touch s t.sender (lowerN (enqueueAll s2 ((s.pending t.sender).remove t).2.1) t.sender t.nonce) ∧
           WeakAll (lowerN (enqueueAll s2 ((s.pending t.sender).remove t).2.1) t.sender t.nonce) ∧
           RemCase s t (lowerN (enqueueAll s2 ((s.pending t.sender).remove t).2.1) t.sender t.nonce)
      refine ⟨ht3.trans hl.1, hw3.congr hl.2.1 hl.2.2.1 hl.2.2.2.1, ?_⟩
      have hexact := enqueueAll_exact (s := s2) (a := t.sender) (us := ((s.pending t.sender).remove t).2.1)
        hwa.qsorted (hrs.inv_sorted hwa.psorted) hinvown
        (fun u hu q hq => by
          have := hwa.disj u (hrs.inv_sub u hu).1 q hq
          exact fun e => this e.symm)
      have hinvx : ∀ u, u ∈ ((s.pending t.sender).remove t).2.1 ↔ (u ∈ (s.pending t.sender).items ∧ t.nonce < u.nonce) := by
        intro u
        constructor
        · exact hrs.inv_sub u
        · rintro ⟨h1, h2⟩
          have := hrs.inv_all hwa.pstrict hr1 u h1 h2
          exact this
      have hlall : (lowerN (enqueueAll s2 ((s.pending t.sender).remove t).2.1) t.sender t.nonce).all
          = (enqueueAll s2 ((s.pending t.sender).remove t).2.1).all := by
        unfold lowerN; split <;> rfl
      apply RemCase.pend (Decidable.not_not.mp hall) (hrs.found hr1)
      · rw [hl.2.1]; exact hp3
      · rw [hl.2.2.2.2, hn3]
      · rw [hl.2.2.1]; exact hq3
      · intro u
        rw [hl.2.2.1, hexact.1 u, hinvx u]
        constructor
        · rintro (h | h)
          · exact Or.inr h
          · exact Or.inl h
        · rintro (h | h)
          · exact Or.inr h
          · exact Or.inl h
      · intro u
        rw [hlall, hexact.2 u, hinvx u]
        have : u ∈ s2.all ↔ u ∈ s.all ∧ u ≠ t := mem_delAll
        rw [this]
        constructor
        · rintro (h | h)
          · exact Or.inr h
          · exact Or.inl h
        · rintro (h | h)
          · exact Or.inr h
          · exact Or.inl h
    | false =>
      simp only [hr1, Bool.false_eq_true, if_false]
      have hqs := TxL.remove_spec (s.queue t.sender) t
      have htq : Touch s t.sender (({ s with all := delAll t s.all } : Pool).setQ t.sender (dropIfEmpty ((s.queue t.sender).remove t).2.2)) :=
        { env := ⟨rfl, rfl, rfl, rfl⟩, locals := rfl, gasPrice := rfl, pother := fun _ _ => rfl
          qother := fun b hb => upd_other _ _ hb, nother := fun _ _ => rfl, accts := fun _ h => h }
      refine ⟨htq, ?_, ?_⟩
      · apply hw.touch htq
        · show Weak _ (upd s.queue t.sender (dropIfEmpty ((s.queue t.sender).remove t).2.2) t.sender) _
          rw [upd_same]
          apply hwa.subQ
          · rw [dropIfEmpty_strict, hqs.strict]; exact hwa.qstrict
          · intro u hu; rw [dropIfEmpty_items] at hu; exact (hqs.kept_sub u hu).1
          · rw [dropIfEmpty_items]; exact hqs.sorted hwa.qsorted
          · apply dropIfEmpty_caps
            intro u hu
            have := hwa.qcaps u (hqs.kept_sub u hu).1
            rw [hqs.caps_eq.1, hqs.caps_eq.2]; exact this
        · intro hna
          have := hw.2 t.sender hna
          refine ⟨this.1, ?_⟩
          show (upd s.queue t.sender (dropIfEmpty ((s.queue t.sender).remove t).2.2) t.sender).items = []
          rw [upd_same, dropIfEmpty_items]
          cases hq : ((s.queue t.sender).remove t).2.2.items with
          | nil => rfl
          | cons y ys =>
            have := (hqs.kept_sub y (by rw [hq]; exact List.mem_cons_self)).1
            rw [(hw.2 t.sender hna).2] at this; cases this
      · refine RemCase.queue (Decidable.not_not.mp hall) (by rfl) (by rfl) ?_ ?_ ?_ ?_ ?_
        · intro u hu
          have : u ∈ (upd s.queue t.sender (dropIfEmpty ((s.queue t.sender).remove t).2.2) t.sender).items := hu
          rw [upd_same, dropIfEmpty_items] at this
          exact hqs.kept_sub u this
        · exact (hrs.notfound hr1).2.2
        · intro u
          show u ∈ (upd s.queue t.sender (dropIfEmpty ((s.queue t.sender).remove t).2.2) t.sender).items ↔ _
          rw [upd_same, dropIfEmpty_items]
          constructor
          · exact hqs.kept_sub u
          · rintro ⟨h1, h2⟩
            exact hqs.kept_all hwa.qstrict u h1 h2
        · intro u; exact mem_delAll
        · show (upd s.queue t.sender (dropIfEmpty ((s.queue t.sender).remove t).2.2) t.sender).items = _
          rw [upd_same, dropIfEmpty_items]
          exact hqs.loose_items hwa.qstrict

theorem removeTx_weak {s : Pool} (t : Tx) (h : WeakAll s) : WeakAll (s.removeTx t) := (removeTx_spec s t h).2.1

theorem removeTx_lite {s : Pool} (t : Tx) (hw : WeakAll s) (h : LiteAll s) : LiteAll (s.removeTx t) := by
  obtain ⟨ht, _, hc⟩ := removeTx_spec s t hw
  cases hc with
  | noop e _ => rw [e]; exact h
  | pend _ hfound hitems hpn hq _ _ =>
    apply h.touch ht
    rcases h t.sender with hl | ⟨e, he, hen, hpay⟩
    · left; rw [hpn]; split <;> omega
    · by_cases hc : s.cnonce t.sender < t.nonce
      · right
        refine ⟨e, ?_, hen, hpay⟩
        rw [hitems]; exact List.mem_filter.mpr ⟨he, by simp only [decide_eq_true_eq]; omega⟩
      · left; rw [hpn]; split <;> omega
  | queue _ hp hpn hq hnone _ _ _ =>
    apply h.touch ht
    rw [hp, hpn]; exact h t.sender

theorem removeTx_good {s : Pool} (t : Tx) (h : Good s) : Good (s.removeTx t) := by
  obtain ⟨ht, hw', hc⟩ := removeTx_spec s t h.weakAll
  cases hc with
  | noop e _ => rw [e]; exact h
  | pend _ hfound hitems hpn hq _ _ =>
    have hs := h.1 t.sender
    apply h.touch ht _ (hw'.2 t.sender)
    have hmem : ∃ o, getN (s.pending t.sender).items t.nonce = some o := by
      cases hg : getN (s.pending t.sender).items t.nonce with
      | none => rw [hg] at hfound; cases hfound
      | some o => exact ⟨o, rfl⟩
    obtain ⟨o, ho⟩ := hmem
    have hob := hs.run.sorted.2 o (getN_some ho).1
    have hon := (getN_some ho).2
    have hlen := hs.run.length_filter_lt t.nonce (by omega) (by omega)
    exact { hw'.1 t.sender with
      run := by rw [hitems]; exact hs.run.filter_lt _
      pn_le := by rw [hpn, hitems]; split <;> omega
      afford := fun u hu => by rw [hitems] at hu; exact hs.afford u (List.mem_filter.mp hu).1 }
  | queue _ hp hpn hq hnone _ _ _ =>
    have hs := h.1 t.sender
    apply h.touch ht _ (hw'.2 t.sender)
    exact { hw'.1 t.sender with
      run := by rw [hp]; exact hs.run
      pn_le := by rw [hp, hpn]; exact hs.pn_le
      afford := by rw [hp]; exact hs.afford }

/-! ## fairness eviction (capOne) -/

theorem split_last {α : Type} (l : List α) :
    (l = [] ∧ l.drop (l.length - 1) = [] ∧ l.getLast? = none) ∨
    (∃ x, l.getLast? = some x ∧ l.drop (l.length - 1) = [x] ∧ l.take (l.length - 1) ++ [x] = l) := by
  induction l with
  | nil => left; simp
  | cons a as ih =>
    right
    rcases ih with ⟨he, _, _⟩ | ⟨x, hx, hd, ht⟩
    · subst he; exact ⟨a, by simp⟩
    · refine ⟨x, ?_, ?_, ?_⟩
      · cases as with
        | nil => simp at hx
        | cons b bs => rw [List.getLast?_cons_cons]; exact hx
      · cases as with
        | nil => simp at hx
        | cons b bs =>
          simp only [List.length_cons, Nat.add_sub_cancel] at hd ⊢
          rw [List.drop_succ_cons]; exact hd
      · cases as with
        | nil => simp at hx
        | cons b bs =>
          simp only [List.length_cons, Nat.add_sub_cancel] at ht ⊢
          rw [List.take_succ_cons, List.cons_append, ht]

structure CapFacts (s : Pool) (a : Addr) (s' : Pool) : Prop where
  touch  : Touch s a s'
  queue  : s'.queue = s.queue
  accts  : s'.accts = s.accts
  strict : (s'.pending a).strict = (s.pending a).strict
  caps   : (s'.pending a).costcap = (s.pending a).costcap ∧ (s'.pending a).gascap = (s.pending a).gascap
  shape  : ((s.pending a).items = [] ∧ (s'.pending a).items = [] ∧ s'.pnonce a = s.pnonce a ∧ (∀ u, u ∈ s'.all ↔ u ∈ s.all)) ∨
           (∃ x, (s.pending a).items.getLast? = some x ∧ (s'.pending a).items ++ [x] = (s.pending a).items ∧
                 (s'.pnonce a = if x.nonce < s.pnonce a then x.nonce else s.pnonce a) ∧
                 (∀ u, u ∈ s'.all ↔ u ∈ s.all ∧ u ≠ x))

theorem capOne_facts (s : Pool) (a : Addr) : CapFacts s a (s.capOne a) := by
  unfold Pool.capOne capL
  simp only
  rcases split_last (s.pending a).items with ⟨he, hd, hl⟩ | ⟨x, hx, hd, ht⟩
  · rw [hd]
    simp only [List.foldl_nil]
    exact { touch := { env := ⟨rfl, rfl, rfl, rfl⟩, locals := rfl, gasPrice := rfl, pother := fun b hb => by first | rfl | exact upd_other _ _ hb
                       qother := fun _ _ => rfl, nother := fun _ _ => rfl, accts := fun _ h => h }
            queue := rfl, accts := rfl
            strict := by simp only [upd_same], caps := by simp only [upd_same, and_self]
            shape := Or.inl ⟨he, by simp only [upd_same, he, List.take_nil], rfl, fun u => by simp [List.mem_filter]⟩ }
  · rw [hd]
    simp only [List.foldl_cons, List.foldl_nil]
    let s1 : Pool := { s with pending := upd s.pending a { s.pending a with items := (s.pending a).items.take ((s.pending a).items.length - 1) }
                              all := s.all.filter (fun t => !decide (t ∈ [x])) }
    have ht1 : Touch s a s1 :=
      { env := ⟨rfl, rfl, rfl, rfl⟩, locals := rfl, gasPrice := rfl, pother := fun b hb => upd_other _ _ hb
        qother := fun _ _ => rfl, nother := fun _ _ => rfl, accts := fun _ h => h }
    have hl := lowerN_spec s1 a x.nonce
    have hp1 : s1.pending a = { s.pending a with items := (s.pending a).items.take ((s.pending a).items.length - 1) } := upd_same _ _ _
    show CapFacts s a (lowerN s1 a x.nonce)
    exact { touch := ht1.trans hl.1
            queue := hl.2.2.1, accts := hl.2.2.2.1
            strict := by rw [hl.2.1, hp1]
            caps := by rw [hl.2.1, hp1]; exact ⟨rfl, rfl⟩
            shape := Or.inr ⟨x, hx, by rw [hl.2.1, hp1]; exact ht, hl.2.2.2.2, fun u => by
              have : (lowerN s1 a x.nonce).all = s1.all := by unfold lowerN; split <;> rfl
              rw [this]
              show u ∈ s.all.filter (fun t => !decide (t ∈ [x])) ↔ _
              simp [List.mem_filter]⟩ }

theorem capOne_weak {s : Pool} (a : Addr) (h : WeakAll s) : WeakAll (s.capOne a) := by
  have hf := capOne_facts s a
  have hwa := h.1 a
  have hsub : ∀ t ∈ ((s.capOne a).pending a).items, t ∈ (s.pending a).items := by
    intro t ht
    rcases hf.shape with ⟨_, h2, _⟩ | ⟨x, _, h2, _⟩
    · rw [h2] at ht; cases ht
    · rw [← h2]; exact List.mem_append_left _ ht
  have hsorted : Sorted ((s.capOne a).pending a).items := by
    rcases hf.shape with ⟨_, h2, _⟩ | ⟨x, _, h2, _⟩
    · rw [h2]; exact Sorted.nil
    · have := hwa.psorted; rw [← h2] at this
      exact List.Pairwise.sublist (List.sublist_append_left _ _) this
  apply h.touch hf.touch
  · rw [hf.queue]
    apply hwa.subP (by rw [hf.strict]; exact hwa.pstrict) hsub hsorted
    intro t ht
    have := hwa.pcaps t (hsub t ht)
    rw [hf.caps.1, hf.caps.2]; exact this
  · intro hna
    rw [hf.accts] at hna
    have := h.2 a hna
    rw [hf.queue]
    refine ⟨?_, this.2⟩
    cases hp : ((s.capOne a).pending a).items with
    | nil => rfl
    | cons y ys => have := hsub y (by rw [hp]; exact List.mem_cons_self); rw [(h.2 a hna).1] at this; cases this

theorem capOne_lite {s : Pool} (a : Addr) (h : LiteAll s) : LiteAll (s.capOne a) := by
  have hf := capOne_facts s a
  apply h.touch hf.touch
  rcases hf.shape with ⟨h1, h2, h3, _⟩ | ⟨x, hx, h2, h3, _⟩
  · rcases h a with hl | ⟨e, he, _⟩
    · left; rw [h3]; exact hl
    · rw [h1] at he; cases he
  · rcases h a with hl | ⟨e, he, hen, hpay⟩
    · left; rw [h3]; split <;> omega
    · rw [← h2] at he
      rcases List.mem_append.mp he with he' | he'
      · exact Or.inr ⟨e, he', hen, hpay⟩
      · simp only [List.mem_singleton] at he'; subst he'
        left; rw [h3]; split <;> omega

theorem capOne_good {s : Pool} (a : Addr) (h : Good s) : Good (s.capOne a) := by
  have hf := capOne_facts s a
  have hw' := capOne_weak a h.weakAll
  have hs := h.1 a
  apply h.touch hf.touch _ (hw'.2 a)
  rcases hf.shape with ⟨h1, h2, h3, _⟩ | ⟨x, hx, h2, h3, _⟩
  · exact { hw'.1 a with
      run := by rw [h2]; trivial
      pn_le := by have := hs.pn_le; rw [h1] at this; rw [h2, h3]; exact this
      afford := by rw [h2]; intro t ht; cases ht }
  · have hlast := hs.run.length_le_of_getLast hx
    have hlen : ((s.capOne a).pending a).items.length + 1 = (s.pending a).items.length := by
      rw [← h2]; simp
    exact { hw'.1 a with
      run := by
        have := hs.run.take ((s.capOne a).pending a).items.length
        rw [← h2] at this; simpa using this
      pn_le := by rw [h3]; split <;> omega
      afford := fun t ht => hs.afford t (by rw [← h2]; exact List.mem_append_left _ ht) }

end Aqv.TxPool

/-
  A small concrete instance of the abstract components of Aqv.Model.BlockImport, used for the non-vacuity examples and
  for the concrete witnesses of property C01 (no theorem about the real code depends on it).
    state      = a single number (think: the sum of all balances touched)
    transaction = a number added to the state; every transaction costs 1 gas and emits no logs
    txRoot     = an ORDER-SENSITIVE digest of the list (as DeriveSha is), receiptRoot/uncleHash = list lengths
-/
import Aqv.Lemmas.BlockImportChain
import Aqv.Lemmas.BlockImportCache
import Aqv.Lemmas.BlockImportRoot
namespace Aqv.BlockImport.Toy

open Aqv.BlockImport

def comp : Comp Nat Nat :=
  { applyMsg := fun _ _ st pool tx => if pool = 0 then .error 1 else .ok { st := st + tx, gas := 1, failed := false, logs := [], pool := pool - 1 },
    finalise := fun _ st => st,
    root := fun st => st,
    hf4Edit := fun st => st + 1000,
    hf5Edit := fun st => st,
    addBalance := fun st _ v => st + v.toNat,
    txRoot := fun txs => txs.foldl (fun acc t => acc * 10 + t) 7,
    uncleHash := fun us => us.length,
    receiptRoot := fun rs => rs.length,
    logBloom := fun _ => 0,
    hashHeader := fun h => h.number * 1000 + h.extra,
    blockReward := 0,
    maxMoney := 100,
    calcGasLimit := fun _ => 50,
    calcDifficulty := fun _ _ => 1 }

def chain (bodyFirst : Bool) : ChainComp Nat Nat :=
  { comp with verifyHeader := fun _ _ => true, verifyUncles := fun _ _ => true, blacklisted := fun _ => false,
              bodyFirst := bodyFirst }

def cfg : Cfg := { hf4 := some 4, hf5 := some 5, byzantium := some 0, eip158 := some 0 }

def hdr (number extra parent difficulty root txHash receiptHash gasUsed : Nat) : Header :=
  { parentHash := parent, number := number, coinbase := 9, gasLimit := 50, time := number * 10, difficulty := difficulty,
    extra := extra, uncleHash := 0, root := root, txHash := txHash, receiptHash := receiptHash, bloom := 0, gasUsed := gasUsed }

/-- genesis: hash 0, state 0, difficulty 10. -/
def g : Header := hdr 0 0 0 10 0 7 0 0
/-- A1: a heavy empty block on genesis (hash 1001). -/
def a1 : Block Nat := { header := hdr 1 1 0 10 0 7 0 0, txs := [], uncles := [] }
/-- B1, B2: a longer but lighter branch (hashes 1002, 2002); B2 carries the transactions 1 and 2. -/
def b1 : Block Nat := { header := hdr 1 2 0 1 0 7 0 0, txs := [], uncles := [] }
def b2 : Block Nat := { header := hdr 2 2 1002 1 3 712 2 2, txs := [1, 2], uncles := [] }
/-- B2 with its two transactions swapped: same header (same hash), same receipts/root/gas, but tx root 721 ≠ 712. -/
def b2swapped : Block Nat := { b2 with txs := [2, 1] }
/-- B2 with a wrong state root. -/
def b2badRoot : Block Nat := { b2 with header := { b2.header with root := 4 } }

def noCoin : Nat → Bool := fun _ => false

/-- the store after importing A1, then [B1, B2]: head = A1 (height 1, td 20), B2 known with state at height 2 (td 12). -/
def forked (k : Bool) : Store Nat Nat :=
  (genesisStore comp g 0).run (chain k) cfg [.insert [a1] noCoin, .insert [b1, b2] noCoin]


/-! a toy byte codec for Layer A′: keys in unary (injective, invertible), one-byte values. -/

def unary (n : Nat) : Bytes := List.replicate n 1
def unaryInv (bs : Bytes) : Option Nat := if bs.all (· == 1) then some bs.length else none

theorem unaryInv_unary (n : Nat) : unaryInv (unary n) = some n := by
  unfold unaryInv unary
  simp

theorem unary_of_inv (bs : Bytes) (n : Nat) (h : unaryInv bs = some n) : unary n = bs := by
  unfold unaryInv at h
  split at h
  · rename_i ha
    cases h
    unfold unary
    induction bs with
    | nil => rfl
    | cons x rest ih =>
      simp only [List.all_cons, Bool.and_eq_true, beq_iff_eq] at ha
      simp only [List.length_cons, List.replicate_succ]
      rw [ih ha.2, ha.1]
  · cases h

def codec : Codec :=
  { slotKey := unary, slotInv := unaryInv, wordVal := fun v => [UInt8.ofNat v], addrKey := unary, addrInv := unaryInv,
    leafVal := fun l => [UInt8.ofNat l.nonce, UInt8.ofNat l.balance, UInt8.ofNat l.sroot] }

theorem codec_ok : codec.Ok :=
  { slot_inv := unaryInv_unary, slot_key := unary_of_inv, word_ne := fun _ _ => by simp [codec],
    addr_inv := unaryInv_unary, addr_key := unary_of_inv, leaf_ne := fun _ => by simp [codec] }

/-- a fresh real-trie StateDB: empty tries, two dirty accounts. -/
def csdb : CSDB :=
  { base := { trie := fun _ => none,
              objs := upd (upd (fun _ => none) 1 (some { nonce := 1, balance := 5, codeHash := 0, sroot := 0, storage := fun _ => 0,
                                                           dirty := upd (upd (fun _ => none) 5 (some 7)) 6 (some 3), suicided := false, deleted := false }))
                          2 (some { nonce := 0, balance := 9, codeHash := 0, sroot := 0, storage := fun _ => 0,
                                    dirty := fun _ => none, suicided := false, deleted := false }),
              dirty := fun a => a == 1 || a == 2, fault := false },
    hists := fun _ => [], acct := [] }

end Aqv.BlockImport.Toy

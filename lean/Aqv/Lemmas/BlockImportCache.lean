/-
  Lemmas for Layer D of Aqv.Model.BlockImport (runtime caches).  Core Lean only.
-/
import Aqv.Lemmas.BlockImportChain
import Aqv.Model.BlockImportCache
namespace Aqv.BlockImport

variable {St Tx : Type}

/-! ### a generic preservation principle for the import loop -/

section Preserve
variable (C : ChainComp St Tx) (cfg : Cfg) (g : Header) (P : Store St Tx → Prop)

/-- what a property of stores has to satisfy to be carried through every import: it implies the store invariant, and it is
    kept by the two write functions under the facts the import path has established when it calls them. -/
structure Carried : Prop where
  inv : ∀ S, P S → Inv C cfg g S
  withState : ∀ S (b : Block Tx) p coin ph pst, P S → bodyGate C b = none → C.hashHeader ph = b.header.parentHash →
    S.states ph.root = some pst → result C.toComp cfg pst b = .ok p → P (writeBlockWithState C S b p coin)
  withoutState : ∀ S (b : Block Tx) td, P S → bodyGate C b = none → P (writeBlockWithoutState C S b td)

variable {C cfg g P}

theorem tailStep_carried (hc : Carried C cfg g P) (S : Store St Tx) (hP : P S) (b : Block Tx) (hbg : bodyGate C b = none)
    (ph : Header) (pst : St) (coin cu ch : Bool) (hk : C.hashHeader ph = b.header.parentHash) (hst : S.states ph.root = some pst) :
    P (tailStep C cfg S pst b coin cu ch).2 := by
  rcases tailStep_cases C cfg S pst b coin cu ch with ⟨e, h⟩ | ⟨p, hr, _, h⟩
  · rw [h]; exact hP
  · rw [h]; exact hc.withState S b p coin ph pst hP hbg hk hst hr

theorem reimport_carried (hc : Carried C cfg g P) (coin : Bool) (f : Nat) (S : Store St Tx) (hP : P S) (b : Block Tx) :
    P (reimport C cfg coin f S b).2 := by
  induction f generalizing S b with
  | zero => exact hP
  | succ f ih =>
    unfold reimport
    split
    · exact hP
    · split
      · exact hP
      · rename_i hbg
        split
        · exact hP
        · rename_i ps hps
          have hk := (hc.inv S hP).keys _ _ hps
          split
          · rename_i pst hst
            exact tailStep_carried hc S hP b hbg ps.block.header pst coin _ _ hk hst
          · have h1 := ih S hP ps.block
            split
            · rename_i e S1 heq; rw [heq] at h1; exact h1
            · rename_i o S1 _ heq
              rw [heq] at h1
              split
              · rename_i pst hst
                exact tailStep_carried hc S1 h1 b hbg ps.block.header pst coin _ _ hk hst
              · exact h1

theorem importBlock_carried (hc : Carried C cfg g P) (coin : Bool) (S : Store St Tx) (hP : P S) (b : Block Tx) :
    P (importBlock C cfg coin S b).2 := by
  unfold importBlock
  split
  · exact hP
  · split
    · exact hP
    · rename_i hbg
      simp only []
      split
      · exact hP
      · split
        · exact hP
        · rename_i ps hps
          have hk := (hc.inv S hP).keys _ _ hps
          split
          · rename_i pst hst
            exact tailStep_carried hc S hP b hbg ps.block.header pst coin _ _ hk hst
          · split
            · exact hP
            · split
              · exact hc.withoutState S b _ hP hbg
              · have h1 := reimport_carried hc coin (ps.block.header.number + 1) S hP ps.block
                split
                · rename_i e S1 heq; rw [heq] at h1; exact h1
                · rename_i o S1 _ heq
                  rw [heq] at h1
                  split
                  · rename_i pst hst
                    exact tailStep_carried hc S1 h1 b hbg ps.block.header pst coin _ _ hk hst
                  · exact h1

theorem importLoop_carried (hc : Carried C cfg g P) (coins : Nat → Bool) (S : Store St Tx) (hP : P S) (i : Nat)
    (batch : List (Block Tx)) : P (importLoop C cfg coins S i batch).2.2 := by
  induction batch generalizing S i with
  | nil => exact hP
  | cons b rest ih =>
    rw [importLoop_cons]
    have h1 := importBlock_carried hc (coins i) S hP b
    split
    · rename_i e S' heq; rw [heq] at h1; exact h1
    · rename_i o S' _ heq; rw [heq] at h1; exact ih S' h1 (i + 1)

theorem insertChain_carried (hc : Carried C cfg g P) (coins : Nat → Bool) (S : Store St Tx) (hP : P S)
    (batch : List (Block Tx)) : P (insertChain C cfg coins S batch).2.2 := by
  unfold insertChain
  split
  · exact hP
  · exact importLoop_carried hc coins S hP 0 _

end Preserve

/-! ### every stored body matches its header (for the current order of checks) -/

/-- every stored block has passed the two body-hash checks. -/
def BodiesOk (C : ChainComp St Tx) (S : Store St Tx) : Prop :=
  ∀ h s, S.blocks h = some s → validateBodyHashes C.toComp s.block = .ok ()

/-- collision-freedom of the hashes the cache argument relies on. -/
structure CollisionFree (C : ChainComp St Tx) : Prop where
  root : ∀ s₁ s₂ : St, C.root s₁ = C.root s₂ → s₁ = s₂
  header : ∀ h₁ h₂ : Header, C.hashHeader h₁ = C.hashHeader h₂ → h₁ = h₂
  txs : ∀ a b : List Tx, C.txRoot a = C.txRoot b → a = b
  uncles : ∀ a b : List Header, C.uncleHash a = C.uncleHash b → a = b

/-- `S'` extends `S₀`: no block body and no state that `S₀` holds has been replaced by a different one. -/
def Ext (S₀ S' : Store St Tx) : Prop :=
  (∀ h s, S₀.blocks h = some s → ∃ s', S'.blocks h = some s' ∧ s'.block = s.block) ∧
  (∀ r st, S₀.states r = some st → S'.states r = some st)

/-- the bundle carried through an import: the store invariant, matching bodies, and extension of a fixed earlier store. -/
def Good (C : ChainComp St Tx) (cfg : Cfg) (g : Header) (S₀ S : Store St Tx) : Prop :=
  Inv C cfg g S ∧ BodiesOk C S ∧ Ext S₀ S

theorem bodies_of_gate (C : ChainComp St Tx) (hbf : C.bodyFirst = true) (b : Block Tx) (h : bodyGate C b = none) :
    validateBodyHashes C.toComp b = .ok () := bodyGate_none C b hbf h

theorem block_eq_of_hashes (C : ChainComp St Tx) (cf : CollisionFree C) (b₁ b₂ : Block Tx)
    (hh : C.hashHeader b₁.header = C.hashHeader b₂.header)
    (v₁ : validateBodyHashes C.toComp b₁ = .ok ()) (v₂ : validateBodyHashes C.toComp b₂ = .ok ()) : b₁ = b₂ := by
  have eh := cf.header _ _ hh
  obtain ⟨u₁, t₁⟩ := (validateBodyHashes_ok_iff C.toComp b₁).1 v₁
  obtain ⟨u₂, t₂⟩ := (validateBodyHashes_ok_iff C.toComp b₂).1 v₂
  have et : b₁.txs = b₂.txs := cf.txs _ _ (by rw [t₁, t₂, eh])
  have eu : b₁.uncles = b₂.uncles := cf.uncles _ _ (by rw [u₁, u₂, eh])
  cases b₁; cases b₂
  simp only [] at eh et eu
  subst eh; subst et; subst eu; rfl

theorem good_carried (C : ChainComp St Tx) (cfg : Cfg) (g : Header) (hbf : C.bodyFirst = true) (cf : CollisionFree C)
    (S₀ : Store St Tx) : Carried C cfg g (Good C cfg g S₀) := by
  refine ⟨fun S h => h.1, ?_, ?_⟩
  · intro S b p coin ph pst hG hbg hk hst hr
    obtain ⟨hI, hB, hE⟩ := hG
    have hv := bodies_of_gate C hbf b hbg
    have hroot := result_root C.toComp cfg pst b p hr
    refine ⟨write_inv C cfg g S hI b ph pst p coin hk (hI.states _ _ hst) hr, ?_, ?_, ?_⟩
    · intro h s hs
      unfold writeBlockWithState upd at hs
      simp only [] at hs
      split at hs
      · cases hs; exact hv
      · exact hB h s hs
    · intro h s₀ hs₀
      obtain ⟨s, hs, es⟩ := hE.1 h s₀ hs₀
      unfold writeBlockWithState upd
      simp only []
      by_cases e : h = C.hashHeader b.header
      · refine ⟨_, by rw [if_pos e], ?_⟩
        simp only []
        rw [← es]
        apply block_eq_of_hashes C cf b s.block _ hv (hB h s hs)
        rw [hI.keys h s hs, e]
      · exact ⟨s, by rw [if_neg e]; exact hs, es⟩
    · intro r st hs₀
      have hs := hE.2 r st hs₀
      unfold writeBlockWithState upd
      simp only []
      by_cases e : r = b.header.root
      · rw [if_pos e]
        have : p.st = st := cf.root _ _ (by rw [hroot, hI.states r st hs, e])
        rw [this]
      · rw [if_neg e]; exact hs
  · intro S b td hG hbg
    obtain ⟨hI, hB, hE⟩ := hG
    have hv := bodies_of_gate C hbf b hbg
    refine ⟨writeSide_inv C cfg g S hI b td, ?_, ?_, ?_⟩
    · intro h s hs
      unfold writeBlockWithoutState upd at hs
      simp only [] at hs
      split at hs
      · cases hs; exact hv
      · exact hB h s hs
    · intro h s₀ hs₀
      obtain ⟨s, hs, es⟩ := hE.1 h s₀ hs₀
      unfold writeBlockWithoutState upd
      simp only []
      by_cases e : h = C.hashHeader b.header
      · refine ⟨_, by rw [if_pos e], ?_⟩
        simp only []
        rw [← es]
        apply block_eq_of_hashes C cf b s.block _ hv (hB h s hs)
        rw [hI.keys h s hs, e]
      · exact ⟨s, by rw [if_neg e]; exact hs, es⟩
    · exact hE.2

theorem ext_refl (S : Store St Tx) : Ext S S := ⟨fun _ s hs => ⟨s, hs, rfl⟩, fun _ _ h => h⟩

/-! ### coherence of the caches -/

/-- every cached entry equals what the store holds for that key / what the content-addressed table holds. -/
structure Coh (codeDb : Hash → Option Nat) (K : Caches St Tx) (S : Store St Tx) : Prop where
  block : ∀ h b, K.block h = some b → ∃ s, S.blocks h = some s ∧ s.block = b
  td : ∀ h n, K.td h = some n → ∃ s, S.blocks h = some s ∧ s.td = n
  state : ∀ r st, K.state r = some st → S.states r = some st
  code : ∀ c n, K.codeSize c = some n → codeDb c = some n

theorem coh_empty (codeDb : Hash → Option Nat) (S : Store St Tx) : Coh codeDb (Caches.empty : Caches St Tx) S :=
  { block := fun _ _ h => (by cases h), td := fun _ _ h => (by cases h), state := fun _ _ h => (by cases h),
    code := fun _ _ h => (by cases h) }

/-- reading through coherent caches is reading the store. -/
theorem view_eq (codeDb : Hash → Option Nat) (K : Caches St Tx) (S : Store St Tx) (hc : Coh codeDb K S) : view K S = S := by
  have hb : readBlock K S = S.blocks := by
    funext h
    unfold readBlock
    cases hk : K.block h with
    | some b =>
      obtain ⟨s, hs, eb⟩ := hc.block h b hk
      rw [hs]
      simp only []
      cases ht : K.td h with
      | some n =>
        obtain ⟨s', hs', et⟩ := hc.td h n ht
        rw [hs] at hs'; cases hs'
        cases s; simp only [] at eb et; subst eb; subst et; rfl
      | none => cases s; simp only [] at eb; subst eb; rfl
    | none =>
      cases hs : S.blocks h with
      | none => rfl
      | some s =>
        simp only []
        cases ht : K.td h with
        | some n =>
          obtain ⟨s', hs', et⟩ := hc.td h n ht
          rw [hs] at hs'; cases hs'
          cases s; simp only [] at et; subst et; rfl
        | none => rfl
  have hs : readState K S = S.states := by
    funext r
    unfold readState
    cases hk : K.state r with
    | some st => exact (hc.state r st hk).symm
    | none => rfl
  unfold view
  rw [hb, hs]

/-- caches that were coherent with `S₀` stay coherent with any store extending it once the write-through td cache is refreshed. -/
theorem coh_ext (codeDb : Hash → Option Nat) (K : Caches St Tx) (S₀ S' : Store St Tx) (hc : Coh codeDb K S₀) (he : Ext S₀ S') :
    Coh codeDb (refreshTd K S') S' := by
  refine ⟨?_, ?_, ?_, hc.code⟩
  · intro h b hk
    obtain ⟨s, hs, eb⟩ := hc.block h b hk
    obtain ⟨s', hs', eb'⟩ := he.1 h s hs
    exact ⟨s', hs', by rw [eb', eb]⟩
  · intro h n hk
    unfold refreshTd at hk
    simp only [] at hk
    cases ht : K.td h with
    | none => rw [ht] at hk; cases hk
    | some m =>
      rw [ht] at hk
      simp only [] at hk
      cases hs' : S'.blocks h with
      | none => rw [hs'] at hk; cases hk
      | some s' => rw [hs'] at hk; simp only [Option.map_some, Option.some.injEq] at hk; exact ⟨s', rfl, hk⟩
  · intro r st hk
    exact he.2 r st (hc.state r st hk)


/-! ### the node with caches behaves as the node without -/

/-- the invariant of a running node. -/
structure NInv (C : ChainComp St Tx) (cfg : Cfg) (g : Header) (codeDb : Hash → Option Nat) (N : NodeK St Tx) : Prop where
  inv : Inv C cfg g N.store
  bodies : BodiesOk C N.store
  coh : Coh codeDb N.caches N.store

theorem bodies_apply (C : ChainComp St Tx) (cfg : Cfg) (S : Store St Tx) (hB : BodiesOk C S) (keep : Hash → Bool) (head : Hash) :
    BodiesOk C (S.apply C cfg (.setHead keep head)) := by
  intro h s hs
  unfold Store.apply at hs
  simp only [] at hs
  split at hs
  · exact hB h s hs
  · cases hs

theorem nodeK_step (C : ChainComp St Tx) (cfg : Cfg) (g : Header) (codeDb : Hash → Option Nat) (hbf : C.bodyFirst = true)
    (cf : CollisionFree C) (N : NodeK St Tx) (hN : NInv C cfg g codeDb N) (ev : EventK St Tx) :
    (N.apply C cfg ev).store = (stripK [ev]).foldl (Store.apply C cfg) N.store ∧ NInv C cfg g codeDb (N.apply C cfg ev) := by
  cases ev with
  | chain e =>
    cases e with
    | insert batch coins =>
      have hv := view_eq codeDb N.caches N.store hN.coh
      have hG : Good C cfg g N.store N.store := ⟨hN.inv, hN.bodies, ext_refl _⟩
      have hG' := insertChain_carried (good_carried C cfg g hbf cf N.store) coins N.store hG batch
      refine ⟨?_, ?_⟩
      · show (insertChain C cfg coins (view N.caches N.store) batch).2.2 = _
        rw [hv]; rfl
      · refine ⟨?_, ?_, ?_⟩
        · show Inv C cfg g (insertChain C cfg coins (view N.caches N.store) batch).2.2
          rw [hv]; exact hG'.1
        · show BodiesOk C (insertChain C cfg coins (view N.caches N.store) batch).2.2
          rw [hv]; exact hG'.2.1
        · show Coh codeDb (refreshTd N.caches (insertChain C cfg coins (view N.caches N.store) batch).2.2)
            (insertChain C cfg coins (view N.caches N.store) batch).2.2
          rw [hv]; exact coh_ext codeDb N.caches N.store _ hN.coh hG'.2.2
    | prune keep =>
      refine ⟨rfl, ⟨apply_inv C cfg g N.store hN.inv (.prune keep), hN.bodies, ?_⟩⟩
      refine ⟨hN.coh.block, hN.coh.td, ?_, hN.coh.code⟩
      intro r st hk
      show (if keep r then N.store.states r else none) = some st
      have hk' : (if keep r then N.caches.state r else none) = some st := hk
      by_cases e : keep r = true
      · rw [if_pos e] at hk' ⊢; exact hN.coh.state r st hk'
      · rw [if_neg e] at hk'; cases hk'
    | restart => exact ⟨rfl, ⟨hN.inv, hN.bodies, coh_empty codeDb N.store⟩⟩
    | setHead keep head =>
      refine ⟨rfl, ⟨apply_inv C cfg g N.store hN.inv (.setHead keep head), bodies_apply C cfg N.store hN.bodies keep head, ?_⟩⟩
      exact { block := fun _ _ h => (by cases h), td := fun _ _ h => (by cases h), state := hN.coh.state, code := hN.coh.code }
  | evict kb kt ks kc =>
    refine ⟨rfl, ⟨hN.inv, hN.bodies, ?_⟩⟩
    refine ⟨?_, ?_, ?_, ?_⟩
    · intro h b hk
      have hk' : (if kb h then N.caches.block h else none) = some b := hk
      by_cases e : kb h = true
      · rw [if_pos e] at hk'; exact hN.coh.block h b hk'
      · rw [if_neg e] at hk'; cases hk'
    · intro h n hk
      have hk' : (if kt h then N.caches.td h else none) = some n := hk
      by_cases e : kt h = true
      · rw [if_pos e] at hk'; exact hN.coh.td h n hk'
      · rw [if_neg e] at hk'; cases hk'
    · intro r st hk
      have hk' : (if ks r then N.caches.state r else none) = some st := hk
      by_cases e : ks r = true
      · rw [if_pos e] at hk'; exact hN.coh.state r st hk'
      · rw [if_neg e] at hk'; cases hk'
    · intro c n hk
      have hk' : (if kc c then N.caches.codeSize c else none) = some n := hk
      by_cases e : kc c = true
      · rw [if_pos e] at hk'; exact hN.coh.code c n hk'
      · rw [if_neg e] at hk'; cases hk'
  | fill fb ft fs =>
    refine ⟨rfl, ⟨hN.inv, hN.bodies, ?_⟩⟩
    refine ⟨?_, ?_, ?_, hN.coh.code⟩
    · intro h b hk
      have hk' : (if fb h then (match N.store.blocks h with | some s => some s.block | none => N.caches.block h) else N.caches.block h) = some b := hk
      by_cases e : fb h = true
      · rw [if_pos e] at hk'
        cases hs : N.store.blocks h with
        | some s => rw [hs] at hk'; simp only [Option.some.injEq] at hk'; exact ⟨s, hs, hk'⟩
        | none => rw [hs] at hk'; obtain ⟨s, hs', _⟩ := hN.coh.block h b hk'; rw [hs] at hs'; cases hs'
      · rw [if_neg e] at hk'; exact hN.coh.block h b hk'
    · intro h n hk
      have hk' : (if ft h then (match N.store.blocks h with | some s => some s.td | none => N.caches.td h) else N.caches.td h) = some n := hk
      by_cases e : ft h = true
      · rw [if_pos e] at hk'
        cases hs : N.store.blocks h with
        | some s => rw [hs] at hk'; simp only [Option.some.injEq] at hk'; exact ⟨s, hs, hk'⟩
        | none => rw [hs] at hk'; obtain ⟨s, hs', _⟩ := hN.coh.td h n hk'; rw [hs] at hs'; cases hs'
      · rw [if_neg e] at hk'; exact hN.coh.td h n hk'
    · intro r st hk
      have hk' : (if fs r then (match N.store.states r with | some st => some st | none => N.caches.state r) else N.caches.state r) = some st := hk
      by_cases e : fs r = true
      · rw [if_pos e] at hk'
        cases hs : N.store.states r with
        | some st' => rw [hs] at hk'; simp only [Option.some.injEq] at hk'; rw [← hk']; exact hs
        | none => rw [hs] at hk'; have := hN.coh.state r st hk'; rw [hs] at this; cases this
      · rw [if_neg e] at hk'; exact hN.coh.state r st hk'

theorem stripK_cons_fold (C : ChainComp St Tx) (cfg : Cfg) (S : Store St Tx) (ev : EventK St Tx) (rest : List (EventK St Tx)) :
    (stripK (ev :: rest)).foldl (Store.apply C cfg) S = (stripK rest).foldl (Store.apply C cfg) ((stripK [ev]).foldl (Store.apply C cfg) S) := by
  cases ev <;> rfl

/-- a node whose reads all go through caches — arbitrary coherent contents, filled and evicted arbitrarily along the way —
    ends every history with exactly the store of the node without caches. -/
theorem nodeK_run (C : ChainComp St Tx) (cfg : Cfg) (g : Header) (codeDb : Hash → Option Nat) (hbf : C.bodyFirst = true)
    (cf : CollisionFree C) (evs : List (EventK St Tx)) (N : NodeK St Tx) (hN : NInv C cfg g codeDb N) :
    (N.run C cfg evs).store = N.store.run C cfg (stripK evs) ∧ NInv C cfg g codeDb (N.run C cfg evs) := by
  unfold NodeK.run Store.run
  induction evs generalizing N with
  | nil => exact ⟨rfl, hN⟩
  | cons ev rest ih =>
    simp only [List.foldl_cons]
    obtain ⟨h1, h2⟩ := nodeK_step C cfg g codeDb hbf cf N hN ev
    obtain ⟨h3, h4⟩ := ih (N.apply C cfg ev) h2
    refine ⟨?_, h4⟩
    rw [h3, h1, stripK_cons_fold C cfg N.store ev rest]

/-! ### the code-size cache -/

/-- keyed by code hash, a coherent cache answers what the content-addressed table answers — for every account of every state
    (fork) — and stays coherent. -/
theorem codeSize_byHash (cache : Nat → Option Nat) (db : Hash → Option Nat) (hc : ∀ c n, cache c = some n → db c = some n)
    (a : Addr) (ch : Hash) :
    (codeSizeLookup keyByCodeHash cache db a ch).1 = db ch ∧
    ∀ c n, (codeSizeLookup keyByCodeHash cache db a ch).2 c = some n → db c = some n := by
  unfold codeSizeLookup keyByCodeHash
  cases hk : cache ch with
  | some n => exact ⟨(hc ch n hk).symm, hc⟩
  | none =>
    cases hd : db ch with
    | none => exact ⟨rfl, hc⟩
    | some n =>
      refine ⟨rfl, ?_⟩
      intro c m hm
      simp only [upd] at hm
      split at hm
      · rename_i e; cases hm; rw [e]; exact hd
      · exact hc c m hm

end Aqv.BlockImport

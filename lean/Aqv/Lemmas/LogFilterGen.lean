/-
  Aqv.Lemmas.LogFilterGen — the bloom-bits generator transposes: invariant of `AddBloom`, result of `generateSection`
  and of `buildIndex` (C16).
-/
import Aqv.Lemmas.LogFilterBits
namespace Aqv.LogFilter

/-- bit `i` of the `n`-th bloom added so far (false beyond). -/
def colBit (done : List Bytes) (i n : Nat) : Bool := ((done[n]?).map (fun b => bloomBit b.toArray i)).getD false

/-- generator invariant after the blooms `done` were added in order. -/
structure GenInv (g : Generator) (size : Nat) (done : List Bytes) : Prop where
  sections : g.sections = size
  nextBit : g.nextBit = done.length
  len : g.blooms.length = 2048
  vlen : ∀ i, i < 2048 → (g.blooms.getD i []).length = size / 8
  bits : ∀ i, i < 2048 → ∀ n, vecBit (g.blooms.getD i []) n = colBit done i n

theorem getD_replicate_zero (k j : Nat) : (List.replicate k (0 : UInt8)).getD j 0 = 0 := by
  rw [List.getD_eq_getElem?_getD, List.getElem?_replicate]
  split <;> rfl

theorem genInv_new (size : Nat) (h8 : size % 8 = 0) :
    ∃ g, newGenerator size = .ok g ∧ GenInv g size [] := by
  refine ⟨⟨List.replicate 2048 (List.replicate (size / 8) 0), size, 0⟩, ?_, ?_⟩
  · unfold newGenerator
    rw [h8]
    rfl
  · refine ⟨rfl, rfl, List.length_replicate, ?_, ?_⟩
    · intro i hi
      show ((List.replicate 2048 (List.replicate (size / 8) (0 : UInt8))).getD i []).length = size / 8
      rw [List.getD_eq_getElem?_getD, List.getElem?_replicate]; simp only [hi, if_true, Option.getD_some, List.length_replicate]
    · intro i hi n
      show vecBit ((List.replicate 2048 (List.replicate (size / 8) (0 : UInt8))).getD i []) n = colBit [] i n
      rw [List.getD_eq_getElem?_getD, List.getElem?_replicate]
      simp only [hi, if_true, Option.getD_some]
      rw [vecBit_eq, getD_replicate_zero]
      simp [colBit]

theorem getD_modify (v : Bytes) (k j : Nat) (f : UInt8 → UInt8) :
    (v.modify k f).getD j 0 = if k = j ∧ j < v.length then f (v.getD j 0) else v.getD j 0 := by
  rw [List.getD_eq_getElem?_getD, List.getD_eq_getElem?_getD, List.getElem?_modify]
  by_cases hj : j < v.length
  · rw [List.getElem?_eq_getElem hj]
    by_cases hk : k = j <;> simp [hk, hj]
  · rw [List.getElem?_eq_none (by omega)]
    simp [hj]

/-- the state `AddBloom` produces when its two checks pass. -/
def addBloomResult (g : Generator) (b : Bytes) : Generator :=
  { g with
    blooms := g.blooms.mapIdx (fun i v => if bloomBit b.toArray i then v.modify (g.nextBit / 8) (fun x => x ||| ((1 : UInt8) <<< (7 - g.nextBit % 8).toUInt8)) else v)
    nextBit := g.nextBit + 1 }

theorem addBloom_ok (g : Generator) (b : Bytes) (h : g.nextBit < g.sections) : g.addBloom g.nextBit b = .ok (addBloomResult g b) := by
  unfold Generator.addBloom addBloomResult
  simp only [ge_iff_le, Nat.not_le.mpr h, if_false, bne_self_eq_false, Bool.false_eq_true]

theorem genInv_add (g : Generator) (size : Nat) (h8 : size % 8 = 0) (done : List Bytes) (b : Bytes) (hinv : GenInv g size done)
    (hlt : done.length < size) :
    ∃ g', g.addBloom done.length b = .ok g' ∧ GenInv g' size (done ++ [b]) := by
  obtain ⟨hs, hn, hl, hv, hb⟩ := hinv
  refine ⟨addBloomResult g b, ?_, ?_⟩
  · rw [← hn]; exact addBloom_ok g b (by omega)
  · unfold addBloomResult
    rw [hn]
    have hgetD : ∀ i, i < 2048 →
        (List.mapIdx (fun i v => if bloomBit b.toArray i then v.modify (done.length / 8) (fun x => x ||| ((1 : UInt8) <<< (7 - done.length % 8).toUInt8)) else v) g.blooms).getD i []
          = if bloomBit b.toArray i then (g.blooms.getD i []).modify (done.length / 8) (fun x => x ||| ((1 : UInt8) <<< (7 - done.length % 8).toUInt8)) else g.blooms.getD i [] := by
      intro i hi
      rw [List.getD_eq_getElem?_getD, List.getElem?_mapIdx, List.getD_eq_getElem?_getD, List.getElem?_eq_getElem (by omega)]
      simp
    refine ⟨hs, ?_, ?_, ?_, ?_⟩
    · simp
    · simp only [List.length_mapIdx]; exact hl
    · intro i hi
      rw [hgetD i hi]
      split
      · rw [List.length_modify]; exact hv i hi
      · exact hv i hi
    · intro i hi n
      rw [hgetD i hi]
      have hcol : colBit (done ++ [b]) i n = if n = done.length then bloomBit b.toArray i else colBit done i n := by
        unfold colBit
        by_cases hnd : n = done.length
        · subst hnd
          simp
        · simp only [hnd, if_false]
          by_cases hlt2 : n < done.length
          · rw [List.getElem?_append_left hlt2]
          · rw [List.getElem?_eq_none (by simp; omega), List.getElem?_eq_none (by omega)]
      rw [hcol]
      by_cases hbit : bloomBit b.toArray i = true
      · simp only [hbit, if_true]
        rw [vecBit_eq, getD_modify, hv i hi]
        by_cases hsame : done.length / 8 = n / 8
        · have hnlt : n / 8 < size / 8 := by omega
          simp only [hsame, hnlt, and_self, if_true]
          rw [or_mask_testBit _ _ _ (by omega), ← vecBit_eq, hb i hi n]
          by_cases hnd : n = done.length
          · subst hnd; simp
          · have : ¬ (7 - done.length % 8 = 7 - n % 8) := by omega
            simp [hnd, this]
        · have hnd : n ≠ done.length := fun h => hsame (by rw [h])
          simp only [hsame, false_and, if_false, hnd]
          rw [← vecBit_eq, hb i hi n]
      · have hbf : bloomBit b.toArray i = false := by simpa using hbit
        simp only [hbf, Bool.false_eq_true, if_false]
        rw [hb i hi n]
        by_cases hnd : n = done.length
        · subst hnd
          simp [colBit]
        · simp [hnd]

/-- the `Process` fold over the remaining blooms of a section (errors of AddBloom are discarded, as in the code). -/
theorem genInv_fold (size : Nat) (h8 : size % 8 = 0) (rest : List Bytes) (g : Generator) (done : List Bytes)
    (hinv : GenInv g size done) (hlen : done.length + rest.length ≤ size) :
    GenInv ((rest.zipIdx done.length).foldl (fun g (bi : Bytes × Nat) =>
      match g.addBloom bi.2 bi.1 with
      | .ok g' => g'
      | .error _ => g) g) size (done ++ rest) := by
  induction rest generalizing g done with
  | nil => simpa using hinv
  | cons b rest ih =>
    simp only [List.zipIdx_cons, List.foldl_cons]
    simp only [List.length_cons] at hlen
    obtain ⟨g', hadd, hinv'⟩ := genInv_add g size h8 done b hinv (by omega)
    rw [hadd]
    have := ih g' (done ++ [b]) hinv' (by simp; omega)
    simpa using this

theorem mapM_ok {α β ε : Type} (f : α → Except ε β) (g : α → β) (l : List α) (h : ∀ a ∈ l, f a = .ok (g a)) :
    l.mapM f = .ok (l.map g) := by
  induction l with
  | nil => rfl
  | cons a as ih =>
    rw [List.mapM_cons, h a (by simp), ih (fun x hx => h x (by simp [hx]))]
    rfl

theorem mapM_error {α β ε : Type} (f : α → Except ε β) (g : α → β) (l1 : List α) (a : α) (l2 : List α) (e : ε)
    (h1 : ∀ x ∈ l1, f x = .ok (g x)) (ha : f a = .error e) : (l1 ++ a :: l2).mapM f = .error e := by
  induction l1 with
  | nil => rw [List.nil_append, List.mapM_cons, ha]; rfl
  | cons x xs ih =>
    rw [List.cons_append, List.mapM_cons, h1 x (by simp), ih (fun y hy => h1 y (by simp [hy]))]
    rfl

/-- `transpose_spec` in functional form: a full section of `size` blooms yields 2048 vectors of `size/8` bytes with
    `bit (vector i) n = bit (bloom n) i`. Needs `size % 8 = 0` (NewGenerator) and `2048 ≤ size` (Bitset's comparison). -/
theorem generateSection_spec (size : Nat) (h8 : size % 8 = 0) (h2048 : 2048 ≤ size) (blooms : List Bytes)
    (hlen : blooms.length = size) :
    ∃ vs, generateSection size blooms = .ok vs ∧ vs.length = 2048 ∧
      ∀ i, i < 2048 → (vs.getD i []).length = size / 8 ∧ ∀ n, vecBit (vs.getD i []) n = colBit blooms i n := by
  obtain ⟨g0, hnew, hinv0⟩ := genInv_new size h8
  have hinv := genInv_fold size h8 blooms g0 [] hinv0 (by simp; omega)
  simp only [List.length_nil, List.nil_append] at hinv
  unfold generateSection
  rw [hnew]
  simp only
  generalize (blooms.zipIdx 0).foldl _ g0 = g at hinv
  have : blooms.zipIdx = blooms.zipIdx 0 := rfl
  obtain ⟨hs, hn, hl, hv, hb⟩ := hinv
  have hbit : ∀ i ∈ List.range 2048, g.bitset i = .ok (g.blooms.getD i []) := by
    intro i hi
    have hi' : i < 2048 := List.mem_range.mp hi
    unfold Generator.bitset
    rw [hn, hs, hlen]
    simp only [bne_self_eq_false, Bool.false_eq_true, if_false, ge_iff_le, Nat.not_le.mpr (show i < size by omega)]
    rw [List.getElem?_eq_getElem (by omega)]
    simp [List.getD_eq_getElem?_getD, List.getElem?_eq_getElem (show i < g.blooms.length by omega)]
  refine ⟨(List.range 2048).map (fun i => g.blooms.getD i []), mapM_ok _ _ _ hbit, by simp, ?_⟩
  intro i hi
  have : ((List.range 2048).map (fun i => g.blooms.getD i [])).getD i [] = g.blooms.getD i [] := by
    rw [List.getD_eq_getElem?_getD, List.getElem?_map, List.getElem?_range hi]
    rfl
  rw [this]
  exact ⟨hv i hi, hb i hi⟩

end Aqv.LogFilter

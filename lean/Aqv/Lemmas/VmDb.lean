/-
  Aqv.Lemmas.VmDb — the StateDB revision stack of Aqv.Model.Vm: well-formedness, extension order, exact revert (C07).
-/
import Aqv.Model.Vm
namespace Aqv.Vm

variable {W : Type}

/-- every live revision id is below nextRevisionId -/
def Db.WF (d : Db W) : Prop := ∀ p ∈ d.revs, p.1 < d.next

/-- `d'` was reached from `d` by snapshots, mutations and reverts to revisions taken after `d`:
    the revisions of `d` are still there, underneath newer ones. -/
def Ext (d d' : Db W) : Prop :=
  d.next ≤ d'.next ∧ ∃ extra, d'.revs = extra ++ d.revs ∧ ∀ p ∈ extra, d.next ≤ p.1 ∧ p.1 < d'.next

theorem Ext.refl (d : Db W) : Ext d d := ⟨Nat.le_refl _, [], rfl, by simp⟩

theorem Ext.trans {a b c : Db W} (h1 : Ext a b) (h2 : Ext b c) : Ext a c := by
  obtain ⟨n1, e1, he1, hp1⟩ := h1
  obtain ⟨n2, e2, he2, hp2⟩ := h2
  refine ⟨Nat.le_trans n1 n2, e2 ++ e1, ?_, ?_⟩
  · rw [he2, he1, List.append_assoc]
  · intro p hp
    rcases List.mem_append.mp hp with h | h
    · have := hp2 p h; omega
    · have := hp1 p h; omega

theorem Ext.app (d : Db W) (f : W → W) : Ext d (d.app f) := ⟨Nat.le_refl _, [], rfl, by simp⟩

theorem Ext.app_right {d d' : Db W} (h : Ext d d') (f : W → W) : Ext d (d'.app f) := h.trans (Ext.app d' f)

theorem Ext.wf {d d' : Db W} (hw : d.WF) (h : Ext d d') : d'.WF := by
  obtain ⟨n, e, he, hp⟩ := h
  intro p hp'
  rw [he] at hp'
  rcases List.mem_append.mp hp' with h | h
  · exact (hp p h).2
  · have := hw p h; omega

theorem Db.WF.app {d : Db W} (hw : d.WF) (f : W → W) : (d.app f).WF := hw

theorem Ext.snapshot (d : Db W) : Ext d d.snapshot.2 :=
  ⟨by simp [Db.snapshot], [(d.next, d.cur)], by simp [Db.snapshot], by simp [Db.snapshot]⟩

@[simp] theorem Db.snapshot_fst (d : Db W) : d.snapshot.1 = d.next := rfl
@[simp] theorem Db.app_next (d : Db W) (f : W → W) : (d.app f).next = d.next := rfl
@[simp] theorem Db.app_revs (d : Db W) (f : W → W) : (d.app f).revs = d.revs := rfl
@[simp] theorem Db.app_cur (d : Db W) (f : W → W) : (d.app f).cur = f d.cur := rfl

theorem dropTo_skip (id : Nat) (w : W) (rest : List (Nat × W)) :
    ∀ extra : List (Nat × W), (∀ p ∈ extra, id < p.1) → dropTo id (extra ++ (id, w) :: rest) = some (w, rest) := by
  intro extra
  induction extra with
  | nil => intro _; simp [dropTo]
  | cons p ps ih =>
    intro h
    have hp : id < p.1 := h p (by simp)
    obtain ⟨i, v⟩ := p
    simp only [List.cons_append, dropTo]
    have : ¬ i = id := by simp at hp; omega
    simp only [this, if_false]
    simp at hp
    simp only [hp, if_true]
    exact ih (fun q hq => h q (by simp [hq]))

/-- RevertToSnapshot of the id obtained from `Snapshot()` succeeds (no "revision id cannot be reverted" panic) after any
    well-nested activity, restores exactly the world of the snapshot and removes the revision and everything newer. -/
theorem revert_of_ext {d d' : Db W} (h : Ext d.snapshot.2 d') :
    d'.revert d.next = some ⟨d.cur, d.revs, d'.next⟩ := by
  obtain ⟨n, e, he, hp⟩ := h
  have hd : dropTo d.next d'.revs = some (d.cur, d.revs) := by
    rw [he]
    simp only [Db.snapshot]
    apply dropTo_skip
    intro p hp'
    have := (hp p hp').1
    simp [Db.snapshot] at this
    omega
  simp [Db.revert, hd]

theorem ext_after_revert {d d' : Db W} (h : Ext d.snapshot.2 d') : Ext d (⟨d.cur, d.revs, d'.next⟩ : Db W) := by
  obtain ⟨n, _⟩ := h
  simp [Db.snapshot] at n
  exact ⟨by simp; omega, [], by simp, by simp⟩

end Aqv.Vm

/-
  Aqv.Lemmas.ChainMixedIdx — the index-level mixed model `XSt` (`Aqv.Model.ChainMixed`): the header-chain invariant of the
  projection `toH` is established by any full-import history and preserved by every header import.
-/
import Aqv.Model.ChainMixed
import Aqv.Lemmas.ChainHdr
import Aqv.Lemmas.ChainHist
namespace Aqv.Chain

variable {U : Map Blk}

/-- after a history of full imports the shared fields satisfy the header-chain invariant (the header store being the
    block store) -/
theorem hinv_of_inv (W : World U) {s : St} (h : Inv U s) : HInv U (toH ⟨s, s.store⟩) := by
  obtain ⟨hb, C, hI⟩ := h
  exact ⟨hb, C,
    { sub := hI.sub
      headStored := by show s.store s.hhead = some hb; rw [hI.hheadEq]; exact hI.headStored
      path := hI.path
      canon := hI.canon
      tdIntr := hI.tdIntr
      storeTd := hI.storeTd
      genNum := hI.genNum }⟩

theorem toH_importHeaders (W : World U) (s : XSt) (h : HInv U (toH s)) (chain : List Blk)
    (hU : ∀ x ∈ chain, U x.id = some x) (coins : List Bool) :
    toH (xImportHeaders s chain coins).1 = (hImportChain (toH s) chain coins).1.st := by
  have hg := (hstep_importChain W h chain hU coins).gen
  have h1 : toH (xImportHeaders s chain coins).1 =
      { (hImportChain (toH s) chain coins).1.st with genesis := s.full.genesis } := rfl
  rw [h1]
  generalize (hImportChain (toH s) chain coins).1.st = r at hg ⊢
  cases r
  simp only [toH] at hg
  subst hg
  rfl

/-- a phase of header imports on the shared database -/
def xHeaderPhase (s : XSt) : List (List Blk × List Bool) → XSt
  | [] => s
  | (chain, coins) :: rest => xHeaderPhase (xImportHeaders s chain coins).1 rest

theorem hinv_headerPhase (W : World U) : ∀ (hs : List (List Blk × List Bool)) (s : XSt), HInv U (toH s) →
    (∀ c ∈ hs, ∀ x ∈ c.1, U x.id = some x) → HInv U (toH (xHeaderPhase s hs)) := by
  intro hs
  induction hs with
  | nil => intro s h _; exact h
  | cons c rest ih =>
    intro s h hU
    obtain ⟨chain, coins⟩ := c
    apply ih
    · rw [toH_importHeaders W s h chain (hU (chain, coins) (by simp)) coins]
      exact (hstep_importChain W h chain (hU (chain, coins) (by simp)) coins).inv
    · intro c' hc'; exact hU c' (List.mem_cons_of_mem _ hc')

end Aqv.Chain

/-
  Aqv.Lemmas.ChainMixedIdx — the index-level mixed model `XSt` (`Aqv.Model.ChainMixed`): ONE chain fed through
  `InsertChain` and `InsertHeaderChain` in any order.  Since fix 3f14ce8 (`BlockChain.insert` deletes the number entries
  above the block it makes the head and re-points stale entries below) the header-chain invariant of the projection `toH`
  — the number index is exactly the ancestry of the header head, nothing above — holds after EVERY mixed history
  (`mixInv_run`).
-/
import Aqv.Model.ChainMixed
import Aqv.Lemmas.ChainHdr
import Aqv.Lemmas.ChainHist
import Aqv.Lemmas.ChainMixed
namespace Aqv.Chain

variable {U : Map Blk}

/-! ### the header store during a block batch -/

/-- the header chain as `HeaderChain` sees it while blocks are written -/
def hview (H0 : Map Blk) (s : St) : HSt :=
  { genesis := s.genesis, store := overlay s.store H0, td := s.td, canon := s.canon, hhead := s.hhead }

theorem overlay_ext (store H0 : Map Blk) : StoreExt store (overlay store H0) := by
  intro k x hx
  simp [overlay, hx]

theorem overlay_upd (store H0 : Map Blk) (k : Nat) (b : Blk) :
    overlay (upd store k (some b)) H0 = upd (overlay store H0) k (some b) := by
  funext x
  unfold overlay upd
  by_cases hx : x = k
  · simp [hx]
  · simp [hx]

theorem overlay_of_ext {store H0 : Map Blk} (h : StoreExt store H0) : overlay store H0 = H0 := by
  funext k
  unfold overlay
  cases hk : store k with
  | none => rfl
  | some b => simp only; exact (h _ _ hk).symm

theorem overlay_idem (store H0 : Map Blk) : overlay store (overlay store H0) = overlay store H0 :=
  overlay_of_ext (overlay_ext store H0)

/-- the height of the block stored under a hash (0 if there is none) -/
def numAt (store : Map Blk) (k : Nat) : Nat :=
  match store k with
  | some x => x.number
  | none => 0

/-- the bound of the "entries above" loop covers the header head: it is not higher than the ghost bound `top`, or it is
    a stored block -/
def FuelOk (H0 : Map Blk) (s : St) : Prop :=
  ∀ hh, overlay s.store H0 s.hhead = some hh → hh.number ≤ max s.top (numAt s.store s.hhead)

theorem numAt_some {store : Map Blk} {k : Nat} {x : Blk} (h : store k = some x) : numAt store k = x.number := by
  simp [numAt, h]

theorem indexFuel_ge (s : St) : max s.top (numAt s.store s.hhead) ≤ indexFuel s := by
  unfold indexFuel numAt
  cases s.store s.hhead with
  | none => simp only; omega
  | some y => simp only; omega

/-- what a block batch maintains on a chain that also takes header batches -/
structure MixP (U : Map Blk) (H0 : Map Blk) (s : St) : Prop where
  hinv : HInv U (hview H0 s)
  closed : Closed s
  headStored : ∃ hb, s.store s.head = some hb
  fuel : FuelOk H0 s

theorem mixP_congr {H0 : Map Blk} {s s' : St} (h : MixP U H0 s) (h1 : s'.store = s.store) (h2 : s'.genesis = s.genesis)
    (h3 : s'.td = s.td) (h4 : s'.canon = s.canon) (h5 : s'.hhead = s.hhead) (h6 : s'.head = s.head)
    (h7 : s'.top = s.top) : MixP U H0 s' := by
  cases s
  cases s'
  simp only at h1 h2 h3 h4 h5 h6 h7
  subst h1 h2 h3 h4 h5 h6 h7
  exact ⟨h.hinv, h.closed, h.headStored, h.fuel⟩

theorem MixP.fuel_le {H0 : Map Blk} {s : St} (h : MixP U H0 s) {hh : Blk} {HC : List Blk}
    (hI : HInvC U (hview H0 s) hh HC) : hh.number ≤ indexFuel s := by
  have := h.fuel hh hI.headStored
  have := indexFuel_ge s
  omega

theorem HInvC.toIdxC {s : HSt} {hb : Blk} {C : List Blk} (W : World U) (h : HInvC U s hb C) :
    IdxC U s.store s.genesis s.canon hb C :=
  { sub := h.sub, headStored := by rw [h.headId W]; exact h.headStored, path := h.path, canon := h.canon,
    genNum := h.genNum }

/-- the store and the td table grew (by blocks of the universe with intrinsic td records), index and header head are
    the same: the header-chain invariant is kept -/
theorem hinvC_mono (W : World U) {H0 : Map Blk} {s s' : St} {hh : Blk} {HC : List Blk}
    (h : HInvC U (hview H0 s) hh HC) (hgen : s'.genesis = s.genesis) (hcanon : s'.canon = s.canon)
    (hhh : s'.hhead = s.hhead) (hext : StoreExt s.store s'.store) (hsub : StoreExt (overlay s'.store H0) U)
    (htdI : ∀ k t, s'.td k = some t → ∃ x l, U k = some x ∧ Path U x l s.genesis ∧ t = s.genesis.diff + diffSum l)
    (hstd : ∀ k x, overlay s'.store H0 k = some x → (s'.td k).isSome = true) :
    HInvC U (hview H0 s') hh HC := by
  have hov : StoreExt (overlay s.store H0) (overlay s'.store H0) := by
    intro k x hx
    have hxU := h.sub k x hx
    unfold overlay at hx ⊢
    cases hk : s.store k with
    | some y =>
      rw [hk] at hx
      simp only at hx
      rw [hext _ _ hk]
      exact hx
    | none =>
      rw [hk] at hx
      simp only at hx
      cases hk' : s'.store k with
      | none => exact hx
      | some y =>
        simp only
        have : overlay s'.store H0 k = some y := by simp [overlay, hk']
        have hyU := hsub _ _ this
        rw [hxU] at hyU
        exact hyU.symm
  exact
    { sub := hsub
      headStored := by show overlay s'.store H0 s'.hhead = some hh; rw [hhh]; exact hov _ _ h.headStored
      path := by show Path (overlay s'.store H0) hh HC s'.genesis; rw [hgen]; exact h.path.mono hov
      canon := by
        have := h.canon
        simp only [hview] at this ⊢
        rw [hcanon, hgen]; exact this
      tdIntr := by
        simp only [hview]
        rw [hgen]; exact htdI
      storeTd := hstd
      genNum := by show s'.genesis.number = 0; rw [hgen]; exact h.genNum }

theorem fuelOk_mono {H0 : Map Blk} {s s' : St} (h : FuelOk H0 s) (hsubU : StoreExt (overlay s'.store H0) U)
    (hsub0 : StoreExt (overlay s.store H0) U) (W : World U)
    (hext : StoreExt s.store s'.store) (hhh : s'.hhead = s.hhead) (htop : s.top ≤ s'.top)
    (hhead : ∀ hh, overlay s'.store H0 s.hhead = some hh → overlay s.store H0 s.hhead = some hh ∨ s'.store s.hhead = some hh) :
    FuelOk H0 s' := by
  intro hh hhs
  rw [hhh] at hhs ⊢
  rcases hhead hh hhs with h0 | h1
  · have := h hh h0
    have hle : numAt s.store s.hhead ≤ numAt s'.store s.hhead := by
      unfold numAt
      cases hk : s.store s.hhead with
      | none => simp only; omega
      | some y => rw [hext _ _ hk]; simp only; omega
    omega
  · rw [numAt_some h1]
    omega

/-- a block of the universe is written next to the chain (td record, block): `WriteBlockWithState` on its side branch,
    `WriteBlockWithoutState`, or the first half of the canonical branches -/
theorem mixP_grow (W : World U) {H0 : Map Blk} {s s' : St} (h : MixP U H0 s) {b p : Blk} (hbU : U b.id = some b)
    (hpar : parentOf s.store b = some p) {ptd : Nat} (hptd : s.td b.parent = some ptd)
    (hgen : s'.genesis = s.genesis) (hcanon : s'.canon = s.canon) (hhh : s'.hhead = s.hhead) (hhead : s'.head = s.head)
    (htop : s'.top = s.top) (htd : s'.td = upd s.td b.id (some (ptd + b.diff)))
    (hstore : s'.store = upd s.store b.id (some b)) : MixP U H0 s' := by
  obtain ⟨hh, HC, hI⟩ := h.hinv
  have hsubS : StoreExt s.store U := fun k x hx => hI.sub _ _ (overlay_ext _ _ _ _ hx)
  obtain ⟨he1, he2⟩ := storeExt_updK hsubS hbU
  have hsubO : StoreExt (overlay s'.store H0) U := by
    rw [hstore, overlay_upd]
    exact (storeExt_updK hI.sub hbU).2
  have hext : StoreExt s.store s'.store := by rw [hstore]; exact he1
  refine ⟨⟨hh, HC, hinvC_mono W hI hgen hcanon hhh hext hsubO ?_ ?_⟩, ?_, ?_, ?_⟩
  · rw [htd]
    exact tdIntr_updK W hsubS hI.tdIntr hbU hpar hptd
  · intro k x hx
    rw [htd]
    by_cases hk : k = b.id
    · subst hk; simp
    · rw [upd_other _ _ _ _ hk]
      rw [hstore, overlay_upd, upd_other _ _ _ _ hk] at hx
      exact hI.storeTd k x hx
  · intro k x hx
    rw [hgen]
    rw [hstore] at hx ⊢
    apply closed_upd h.closed hpar he1 _ k x hx
    intro k' x' hx'
    by_cases hk : k' = b.id
    · subst hk; simp at hx'; exact .inr hx'.symm
    · rw [upd_other _ _ _ _ hk] at hx'; exact .inl hx'
  · obtain ⟨hb, hhb⟩ := h.headStored
    exact ⟨hb, by rw [hhead]; exact hext _ _ hhb⟩
  · apply fuelOk_mono h.fuel hsubO hI.sub W hext hhh (by omega)
    intro hh' hhs
    rw [hstore, overlay_upd] at hhs
    by_cases hk : s.hhead = b.id
    · right
      rw [hk] at hhs ⊢
      rw [hstore]
      simpa using hhs
    · left
      rw [upd_other _ _ _ _ hk] at hhs
      exact hhs

/-- one call of `BlockChain.insert` for a stored block -/
theorem mixP_insert (W : World U) {H0 : Map Blk} {t : St} (h : MixP U H0 t) {x : Blk} (hxs : t.store x.id = some x) :
    MixP U H0 (insertHead t x) := by
  obtain ⟨hh, HC, hI⟩ := h.hinv
  have hIc := hI.toIdxC W
  by_cases hc : t.canon x.number = some x.id
  · rw [insertHead_same hc]
    exact ⟨h.hinv, h.closed, ⟨x, hxs⟩, h.fuel⟩
  · obtain ⟨lx, hlx⟩ := h.closed _ _ hxs
    cases hlx with
    | nil =>
      -- `x` is the genesis block, which is always indexed
      exfalso
      apply hc
      have := (hI.canon 0 t.genesis.id).mpr
        ⟨t.genesis, List.mem_append_right _ (List.mem_singleton.mpr rfl), hI.genNum, rfl⟩
      have hg0 : t.genesis.number = 0 := hI.genNum
      rw [hg0]
      exact this
    | cons hpar hrest =>
      obtain ⟨HC', hnew, hhh⟩ := insert_index W (overlay_ext t.store H0) hIc (h.fuel_le hI) hxs hpar hrest hc
      refine ⟨⟨x, HC', ?_⟩, h.closed, ⟨x, hxs⟩, ?_⟩
      · exact
          { sub := hI.sub
            headStored := by
              show overlay t.store H0 (insertHead t x).hhead = some x
              rw [hhh]; exact overlay_ext _ _ _ _ hxs
            path := hnew.path
            canon := hnew.canon
            tdIntr := hI.tdIntr
            storeTd := hI.storeTd
            genNum := hI.genNum }
      · intro hh' hhs
        have h1 : (insertHead t x).hhead = x.id := hhh
        have h2 : (insertHead t x).store = t.store := rfl
        rw [h1, h2] at hhs ⊢
        rw [numAt_some hxs]
        have : overlay t.store H0 x.id = some x := overlay_ext _ _ _ _ hxs
        rw [this] at hhs
        cases hhs
        omega

/-- the re-insertion loop of `reorg` -/
theorem mixP_fold (W : World U) {H0 : Map Blk} {t : St} (h : MixP U H0 t) : ∀ (N : List Blk),
    (∀ x ∈ N, t.store x.id = some x) → MixP U H0 (N.foldr reorgStep t) := by
  intro N
  induction N with
  | nil => intro _; exact h
  | cons x N ih =>
    intro hN
    have h1 := ih (fun y hy => hN y (List.mem_cons_of_mem _ hy))
    have hxs : (N.foldr reorgStep t).store x.id = some x := by rw [foldr_store]; exact hN x (by simp)
    have h2 := mixP_insert W h1 hxs
    exact mixP_congr h2 rfl rfl rfl rfl rfl rfl rfl

theorem upd_self {α : Type} (m : Map α) (k : Nat) (v : Option α) (h : m k = v) : upd m k v = m := by
  funext x
  unfold upd
  split
  · rename_i hx; rw [hx, h]
  · rfl

/-- `WriteBlockWithState` -/
theorem mixP_wbws (W : World U) {H0 : Map Blk} {s : St} (h : MixP U H0 s) {b p : Blk} (hbU : U b.id = some b)
    (hpar : parentOf s.store b = some p) (coin : Bool) :
    MixP U H0 (writeBlockWithState s b coin).st ∧ (writeBlockWithState s b coin).err ≠ some .reorgFail := by
  obtain ⟨hh, HC, hI⟩ := h.hinv
  have hsubS : StoreExt s.store U := fun k x hx => hI.sub _ _ (overlay_ext _ _ _ _ hx)
  rcases wbws_cases s b coin with ⟨e, he, hne⟩ | ⟨ptd, cur, hptd, hcur, hr, he⟩ |
    ⟨ptd, s2, cur, lt, hptd, hcur, hlt, hdec, hs2, he⟩ | ⟨ptd, cur, lt, hptd, _, _, _, he⟩
  · rw [he]; exact ⟨h, by simpa using hne⟩
  · exact absurd hr (reorg_ok_of_closedK hsubS h.closed hI.genNum hcur hbU hpar ptd)
  · rw [he]
    refine ⟨?_, by simp⟩
    -- the database with the records of `b`
    have hB : MixP U H0 (afterStored s b ptd) := mixP_grow W h hbU hpar hptd rfl rfl rfl rfl rfl rfl rfl
    have hbs : (afterStored s b ptd).store b.id = some b := by
      show upd s.store b.id (some b) b.id = some b; simp
    rcases hs2 with hs2 | hr
    · subst hs2
      have h1 : MixP U H0 { afterTd s b ptd with
          store := upd s.store b.id (some b)
          receipts := updB s.receipts b.id true
          lookup := writeLookups s.lookup b
          seen := updB s.seen b.id true } := mixP_congr hB rfl rfl rfl rfl rfl rfl rfl
      exact mixP_insert W h1 (by show upd s.store b.id (some b) b.id = some b; simp)
    · obtain ⟨o, n, c, c', oc1, nc1, oc2, nc2, _, _, hp2', _, _, hw2', _, _, hs2⟩ := reorg_spec hr
      subst hs2
      have hids : ∀ k y, (afterStored s b ptd).store k = some y → y.id = k := by
        obtain ⟨hh1, HC1, hI1⟩ := hB.hinv
        exact fun k y hy => W.ids _ _ (hI1.sub _ _ (overlay_ext _ _ _ _ hy))
      have hN := (hp2'.append hw2').stored_of hids hbs
      have h1 := mixP_fold W hB (nc1 ++ nc2) hN.1
      have hst : (reorgApply (afterStored s b ptd) (oc1 ++ oc2) (nc1 ++ nc2)).store = (afterStored s b ptd).store :=
        reorgApply_store _ _ _
      have hbs2 : (reorgApply (afterStored s b ptd) (oc1 ++ oc2) (nc1 ++ nc2)).store b.id = some b := by
        rw [hst]; exact hbs
      have h2 : MixP U H0 { reorgApply (afterStored s b ptd) (oc1 ++ oc2) (nc1 ++ nc2) with
          store := upd (reorgApply (afterStored s b ptd) (oc1 ++ oc2) (nc1 ++ nc2)).store b.id (some b)
          receipts := updB (reorgApply (afterStored s b ptd) (oc1 ++ oc2) (nc1 ++ nc2)).receipts b.id true
          lookup := writeLookups (reorgApply (afterStored s b ptd) (oc1 ++ oc2) (nc1 ++ nc2)).lookup b
          seen := updB (reorgApply (afterStored s b ptd) (oc1 ++ oc2) (nc1 ++ nc2)).seen b.id true } := by
        refine mixP_congr h1 ?_ rfl rfl rfl rfl rfl rfl
        show upd (reorgApply (afterStored s b ptd) (oc1 ++ oc2) (nc1 ++ nc2)).store b.id (some b) = _
        rw [upd_self _ _ _ hbs2]
        exact (foldr_store _ _).symm ▸ rfl
      exact mixP_insert W h2 (by
        show upd (reorgApply (afterStored s b ptd) (oc1 ++ oc2) (nc1 ++ nc2)).store b.id (some b) b.id = some b
        simp)
  · rw [he]
    exact ⟨mixP_grow W h hbU hpar hptd rfl rfl rfl rfl rfl rfl rfl, by simp⟩

theorem mixP_base {H0 : Map Blk} {s : St} (h : MixP U H0 s) : Base U s := by
  obtain ⟨hh, HC, hI⟩ := h.hinv
  exact ⟨fun k x hx => hI.sub _ _ (overlay_ext _ _ _ _ hx), h.headStored,
    fun k x hx => hI.storeTd k x (overlay_ext _ _ _ _ hx)⟩

theorem mixP_stable (W : World U) (H0 : Map Blk) : Stable U (MixP U H0) True where
  base := fun _ h => mixP_base h
  wbws := fun s b p coin h hbU hpar _ => ⟨fun _ => (mixP_wbws W h hbU hpar coin).1, fun _ => (mixP_wbws W h hbU hpar coin).2⟩
  without := fun s b p ptd h hbU hpar hptd => mixP_grow W h hbU hpar hptd rfl rfl rfl rfl rfl rfl rfl

/-! ### the mixed model -/

/-- the invariant of a chain fed through both import paths -/
structure MixInv (U : Map Blk) (x : XSt) : Prop where
  p : MixP U x.hdrs x.full
  ext : StoreExt x.full.store x.hdrs

theorem MixInv.hinv {x : XSt} (h : MixInv U x) : HInv U (toH x) := by
  have := h.p.hinv
  unfold hview at this
  rw [overlay_of_ext h.ext] at this
  exact this

theorem mixInv_init (g : Blk) (hgU : U g.id = some g) (hg0 : g.number = 0) : MixInv U (xinit g) := by
  have hst : (xinit g).full.store = (xinit g).hdrs := rfl
  refine ⟨⟨?_, ?_, ⟨g, by simp [xinit, init]⟩, ?_⟩, by rw [hst]; exact fun _ _ hx => hx⟩
  · have : hview (xinit g).hdrs (xinit g).full = hinit g := by
      unfold hview
      rw [hst, overlay_of_ext (fun _ _ hx => hx)]
      rfl
    rw [this]
    exact ⟨g, [], hinvC_init g hgU hg0⟩
  · intro k x hx
    have hx' : upd (fun _ => none) g.id (some g) k = some x := hx
    by_cases hk : k = g.id
    · subst hk; simp at hx'; subst hx'; exact ⟨[], .nil _⟩
    · rw [upd_other _ _ _ _ hk] at hx'; cases hx'
  · intro hh hhs
    have h1 : (xinit g).full.hhead = g.id := rfl
    have h2 : (xinit g).full.store g.id = some g := by simp [xinit, init]
    rw [h1] at hhs ⊢
    rw [numAt_some h2]
    have : overlay (xinit g).full.store (xinit g).hdrs g.id = some g := overlay_ext _ _ _ _ h2
    rw [this] at hhs
    cases hhs
    omega

theorem raiseTop_le (s : St) (chain : List Blk) : s.top ≤ (raiseTop s chain).top ∧
    ∀ y ∈ chain, y.number ≤ (raiseTop s chain).top := by
  unfold raiseTop
  simp only
  generalize s.top = m
  induction chain generalizing m with
  | nil => exact ⟨Nat.le_refl _, by simp⟩
  | cons a l ih =>
    simp only [List.foldl_cons]
    obtain ⟨h1, h2⟩ := ih (max m a.number)
    refine ⟨by omega, ?_⟩
    intro y hy
    rcases List.mem_cons.mp hy with rfl | hy
    · omega
    · exact h2 y hy

/-- raising the ghost bound changes nothing else -/
theorem mixP_raiseTop {x : XSt} (h : MixInv U x) (chain : List Blk) : MixP U x.hdrs (raiseTop x.full chain) := by
  refine ⟨h.p.hinv, h.p.closed, h.p.headStored, ?_⟩
  intro hh' hhs
  have := h.p.fuel hh' hhs
  have hle := (raiseTop_le x.full chain).1
  show hh'.number ≤ max (raiseTop x.full chain).top (numAt x.full.store x.full.hhead)
  omega

/-- a block batch -/
theorem mixInv_blocks (W : World U) {x : XSt} (h : MixInv U x) (chain : List Blk) (hU : ∀ b ∈ chain, U b.id = some b)
    (coins : List (List Bool)) : MixInv U (xImportChain x chain coins).1 := by
  have h0 := mixP_raiseTop h chain
  have h1 := (stable_importChain W (mixP_stable W x.hdrs) h0 chain hU coins)
  have hP := h1.1 (h1.2.1 trivial)
  have hx' : (xImportChain x chain coins).1 =
      ⟨(importChain (raiseTop x.full chain) chain coins).1.st,
        overlay (importChain (raiseTop x.full chain) chain coins).1.st.store x.hdrs⟩ := rfl
  rw [hx']
  generalize (importChain (raiseTop x.full chain) chain coins).1.st = r at hP
  refine ⟨?_, overlay_ext _ _⟩
  obtain ⟨hh', HC', hI'⟩ := hP.hinv
  refine ⟨⟨hh', HC', ?_⟩, hP.closed, hP.headStored, ?_⟩
  · have : hview (overlay r.store x.hdrs) r = hview x.hdrs r := by
      unfold hview; rw [overlay_idem]
    rw [this]; exact hI'
  · intro hh'' hhs
    rw [overlay_idem] at hhs
    exact hP.fuel hh'' hhs

/-- the header head after a header batch is the old one or one of the headers of the batch -/
theorem writeHeader_hhead (s : HSt) (h : Blk) (coin : Bool) :
    (writeHeader s h coin).st.hhead = s.hhead ∨ (writeHeader s h coin).st.hhead = h.id := by
  unfold writeHeader
  cases s.td h.parent with
  | none => exact .inl rfl
  | some ptd =>
    simp only
    cases s.store s.hhead with
    | none => exact .inl rfl
    | some cur =>
      cases s.td s.hhead with
      | none => exact .inl rfl
      | some localTd =>
        simp only
        split
        · cases h.number with
          | zero => exact .inl rfl
          | succ k =>
            simp only
            split
            · exact .inl rfl
            · split
              · exact .inl rfl
              · exact .inr rfl
        · exact .inl rfl

theorem hInsertSeq_hhead : ∀ (l : List Blk) (s : HSt) (coins : List Bool) (i : Nat),
    (hInsertSeq s l coins i).1.st.hhead = s.hhead ∨ ∃ y ∈ l, (hInsertSeq s l coins i).1.st.hhead = y.id := by
  intro l
  induction l with
  | nil => intro s coins i; exact .inl rfl
  | cons h rest ih =>
    intro s coins i
    unfold hInsertSeq
    split
    · rcases ih s coins (i + 1) with h1 | ⟨y, hy, h1⟩
      · exact .inl h1
      · exact .inr ⟨y, List.mem_cons_of_mem _ hy, h1⟩
    · simp only
      have hw := writeHeader_hhead s h (coins.headD false)
      split
      · rcases hw with hw | hw
        · exact .inl hw
        · exact .inr ⟨h, by simp, hw⟩
      · rcases ih (writeHeader s h (coins.headD false)).st coins.tail (i + 1) with h1 | ⟨y, hy, h1⟩
        · rcases hw with hw | hw
          · exact .inl (by rw [h1, hw])
          · exact .inr ⟨h, by simp, by rw [h1, hw]⟩
        · exact .inr ⟨y, List.mem_cons_of_mem _ hy, h1⟩

theorem hImportChain_hhead (s : HSt) (chain : List Blk) (coins : List Bool) :
    (hImportChain s chain coins).1.st.hhead = s.hhead ∨ ∃ y ∈ chain, (hImportChain s chain coins).1.st.hhead = y.id := by
  unfold hImportChain
  split
  · exact .inl rfl
  · split
    · exact .inl rfl
    · split
      · exact .inl rfl
      · exact hInsertSeq_hhead _ s coins 0

/-- a header batch -/
theorem mixInv_headers (W : World U) {x : XSt} (h : MixInv U x) (chain : List Blk) (hU : ∀ b ∈ chain, U b.id = some b)
    (coins : List Bool) : MixInv U (xImportHeaders x chain coins).1 := by
  have hH := h.hinv
  have hstep := hstep_importChain W hH chain hU coins
  have hhd := hImportChain_hhead (toH x) chain coins
  have hx' : (xImportHeaders x chain coins).1 =
      ⟨{ raiseTop x.full chain with
          td := (hImportChain (toH x) chain coins).1.st.td
          canon := (hImportChain (toH x) chain coins).1.st.canon
          hhead := (hImportChain (toH x) chain coins).1.st.hhead },
        (hImportChain (toH x) chain coins).1.st.store⟩ := rfl
  rw [hx']
  generalize (hImportChain (toH x) chain coins).1.st = r at hstep hhd
  have hext : StoreExt x.full.store r.store := fun k y hy => hstep.ext _ _ (h.ext _ _ hy)
  have hgen : r.genesis = x.full.genesis := hstep.gen
  refine ⟨⟨?_, ?_, h.p.headStored, ?_⟩, hext⟩
  · have : hview r.store { raiseTop x.full chain with td := r.td, canon := r.canon, hhead := r.hhead } = r := by
      cases r
      simp only [hview, HSt.mk.injEq, and_true]
      exact ⟨hgen.symm, overlay_of_ext hext⟩
    rw [this]
    exact hstep.inv
  · exact h.p.closed
  · intro hh hhs
    have hhs' : overlay x.full.store r.store r.hhead = some hh := hhs
    rw [overlay_of_ext hext] at hhs'
    show hh.number ≤ max (raiseTop x.full chain).top (numAt x.full.store r.hhead)
    have htop := raiseTop_le x.full chain
    rcases hhd with hold | ⟨y, hy, hnew⟩
    · -- the header head did not move
      have hold' : r.hhead = x.full.hhead := hold
      rw [hold'] at hhs' ⊢
      obtain ⟨hh0, HC0, hI0⟩ := hH
      have h0 : x.hdrs x.full.hhead = some hh0 := hI0.headStored
      have h1 : r.store x.full.hhead = some hh0 := hstep.ext _ _ h0
      rw [h1] at hhs'
      cases hhs'
      have := h.p.fuel hh (by rw [overlay_of_ext h.ext]; exact h0)
      omega
    · -- it is a header of the batch, whose height `top` covers
      obtain ⟨hh1, HC1, hI1⟩ := hstep.inv
      have hyU := hU y hy
      have hhU : U r.hhead = some hh := hI1.sub _ _ hhs'
      rw [hnew, hyU] at hhU
      cases hhU
      have := htop.2 hh hy
      omega

theorem mixInv_step (W : World U) {x : XSt} (h : MixInv U x) (op : MOp) (hop : MOpOk U op) : MixInv U (xstep x op) := by
  cases op with
  | blocks chain cs => exact mixInv_blocks W h chain hop _
  | headers chain coins => exact mixInv_headers W h chain hop coins

/-- the invariant holds after every mixed history -/
theorem mixInv_run (W : World U) : ∀ (ops : List MOp) {x : XSt}, MixInv U x → (∀ op ∈ ops, MOpOk U op) →
    MixInv U (xrun x ops) := by
  intro ops
  induction ops with
  | nil => intro x h _; exact h
  | cons op ops ih =>
    intro x h hops
    exact ih (mixInv_step W h op (hops op (by simp))) (fun o ho => hops o (List.mem_cons_of_mem _ ho))

end Aqv.Chain

/-
  Aqv.Lemmas.VmMemAccess — the memory ranges dereferenced by the execute functions (GENERATED from the source of core/vm by
  go/extract/cmd/vmaccess: `OpF.execRanges`) are covered by the memory-size function of the same opcode (C07).
-/
import Aqv.Lemmas.VmTable
set_option linter.unusedSimpArgs false
namespace Aqv.Vm
open Aqv.Gen.VmFlags

theorem memorySizeOf_ge {m ms : Nat} (h : memorySizeOf (some m) = .ok ms) : m ≤ ms := by
  unfold memorySizeOf at h
  simp only at h
  split at h
  · cases h
  · split at h
    · cases h
    · cases h
      unfold toWordSize two64 at *
      split <;> omega

theorem calc_le (off len : Nat) (h : 0 < len) : off + len ≤ calcMemSize off len := by
  unfold calcMemSize; split <;> omega

theorem foldl_max_ge (a : List Nat) (l : List (Opnd × Opnd)) :
    ∀ init : Nat, init ≤ l.foldl (fun m r => max m (calcMemSize (r.1.eval a) (r.2.eval a))) init ∧
      ∀ r ∈ l, calcMemSize (r.1.eval a) (r.2.eval a) ≤ l.foldl (fun m r => max m (calcMemSize (r.1.eval a) (r.2.eval a))) init := by
  induction l with
  | nil => intro init; exact ⟨Nat.le_refl _, by simp⟩
  | cons x xs ih =>
    intro init
    simp only [List.foldl_cons]
    obtain ⟨h1, h2⟩ := ih (max init (calcMemSize (x.1.eval a) (x.2.eval a)))
    refine ⟨by omega, ?_⟩
    intro r hr
    rcases List.mem_cons.mp hr with h | h
    · subst h; omega
    · exact h2 r h

/-- every memory range an execute function dereferences lies within the size its opcode's memory-size function requested,
    hence within the memory after Resize -/
theorem exec_ranges_covered {ep : Epoch} {f : OpF} (hf : f ∈ table ep) (a : List Nat) (ms : Nat)
    (hms : memorySizeOf (memReq f.memFn a) = .ok ms) :
    ∀ r ∈ f.execRanges, 0 < r.2.eval a → r.1.eval a + r.2.eval a ≤ ms := by
  have hok := List.all_eq_true.mp (table_ok ep) f hf
  simp only [opOK, Bool.and_eq_true] at hok
  have h9 := hok.2
  intro r hr hpos
  have hmem : r ∈ memFnRanges f.memFn := by
    have := List.all_eq_true.mp h9 r hr
    simpa using this
  have hne : f.memFn ≠ .none := by
    intro h; rw [h] at hmem; simp [memFnRanges] at hmem
  simp only [memReq, hne, if_false] at hms
  have hge := memorySizeOf_ge hms
  have := (foldl_max_ge a (memFnRanges f.memFn) 0).2 r hmem
  have := calc_le (r.1.eval a) (r.2.eval a) hpos
  omega

end Aqv.Vm

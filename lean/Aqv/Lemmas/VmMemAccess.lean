/-
  Aqv.Lemmas.VmMemAccess — the memory ranges touched by the execute functions are covered by the memory-size function of the
  same opcode (C07, part of `no_modelled_panic_partial`).
-/
import Aqv.Lemmas.VmTable
set_option linter.unusedSimpArgs false
namespace Aqv.Vm
open Aqv.Gen.VmFlags

/-- the memory ranges (offset, length) the body of an execute function reads (memory.Get / GetPtr) or writes (memory.Set,
    memory.store[off]), transcribed from instructions.go; a range of length 0 is never dereferenced -/
def execMemRanges (f : OpF) (a : List Nat) : List (Nat × Nat) :=
  match f.execFn with
  | .opSha3 => [(back a 0, back a 1)]
  | .opCallDataCopy => [(back a 0, back a 2)]
  | .opCodeCopy => [(back a 0, back a 2)]
  | .opReturnDataCopy => [(back a 0, back a 2)]
  | .opExtCodeCopy => [(back a 1, back a 3)]
  | .opMload => [(back a 0, 32)]
  | .opMstore => [(back a 0, 32)]
  | .opMstore8 => [(back a 0, 1)]
  | .opCreate => [(back a 1, back a 2)]
  | .opCall => [(back a 3, back a 4), (back a 5, back a 6)]
  | .opCallCode => [(back a 3, back a 4), (back a 5, back a 6)]
  | .opDelegateCall => [(back a 2, back a 3), (back a 4, back a 5)]
  | .opStaticCall => [(back a 2, back a 3), (back a 4, back a 5)]
  | .opReturn => [(back a 0, back a 1)]
  | .opRevert => [(back a 0, back a 1)]
  | .makeLog => [(back a 0, back a 1)]
  | _ => []

/-- the memory-size function an execute function that touches memory must be paired with -/
def execMemFn : ExecFn → Option MemFn
  | .opSha3 => some .memorySha3
  | .opCallDataCopy => some .memoryCallDataCopy
  | .opCodeCopy => some .memoryCodeCopy
  | .opReturnDataCopy => some .memoryReturnDataCopy
  | .opExtCodeCopy => some .memoryExtCodeCopy
  | .opMload => some .memoryMLoad
  | .opMstore => some .memoryMStore
  | .opMstore8 => some .memoryMStore8
  | .opCreate => some .memoryCreate
  | .opCall => some .memoryCall
  | .opCallCode => some .memoryCall
  | .opDelegateCall => some .memoryDelegateCall
  | .opStaticCall => some .memoryStaticCall
  | .opReturn => some .memoryReturn
  | .opRevert => some .memoryRevert
  | .makeLog => some .memoryLog
  | _ => none

def memPairOK (f : OpF) : Bool :=
  match execMemFn f.execFn with
  | some m => f.memFn == m
  | none => true

theorem table_memPair_ok : ∀ ep : Epoch, (table ep).all memPairOK = true := by
  intro ep
  cases ep <;> decide

theorem memorySizeOf_ge {m ms : Nat} (h : memorySizeOf (some m) = .ok ms) : m ≤ ms := by
  unfold memorySizeOf at h
  simp only at h
  split at h
  · cases h
  · split at h
    · cases h
    · cases h
      unfold toWordSize two64 at *
      split <;> omega

theorem calc_le (off len : Nat) (h : 0 < len) : off + len ≤ calcMemSize off len := by
  unfold calcMemSize; split <;> omega

/-- every memory range an execute function touches lies within the size its opcode's memory-size function requested, hence
    within the memory after Resize -/
theorem exec_ranges_covered {ep : Epoch} {f : OpF} (hf : f ∈ table ep) (a : List Nat) (ms : Nat)
    (hms : memorySizeOf (memReq f.memFn a) = .ok ms) :
    ∀ r ∈ execMemRanges f a, 0 < r.2 → r.1 + r.2 ≤ ms := by
  have hp := List.all_eq_true.mp (table_memPair_ok ep) f hf
  unfold memPairOK at hp
  intro r hr hpos
  obtain ⟨off, len⟩ := r
  simp only at hpos ⊢
  unfold execMemRanges at hr
  cases he : f.execFn <;> simp only [he, execMemFn, beq_iff_eq, List.mem_cons, List.mem_nil_iff, or_false, Prod.mk.injEq,
    List.not_mem_nil] at hp hr <;>
    (rw [hp] at hms
     simp only [memReq] at hms
     have hge := memorySizeOf_ge hms
     simp only [calcMemSize] at hge
     first
     | (obtain ⟨rfl, rfl⟩ := hr; split at hge <;> omega)
     | (rw [Nat.max_le] at hge
        obtain ⟨h1, h2⟩ := hge
        rcases hr with ⟨rfl, rfl⟩ | ⟨rfl, rfl⟩ <;> split at h1 <;> split at h2 <;> omega))

end Aqv.Vm

/-
  Aqv.Lemmas.TxPoolReplace — "a same-nonce replacement is accepted only with the configured price bump" at pool level:
  an AddLocal/AddRemote on a pool that is not full can change the occupant of a (sender, nonce) slot only to the submitted
  transaction, and only if it meets the bump rule of txList.Add.
-/
import Aqv.Lemmas.TxPoolLimits
namespace Aqv.TxPool

/-- nothing is pooled in `s` that was not pooled in `s0` -/
def NoNew (s0 s : Pool) : Prop := ∀ u, s.pooled u → s0.pooled u

theorem pooled_of_touch {s s' : Pool} {a : Addr} (ht : Touch s a s') {u : Tx} (hu : u.sender ≠ a) :
    s'.pooled u ↔ s.pooled u := by
  rw [pooled_iff, pooled_iff, ht.pother _ hu, ht.qother _ hu]

theorem removeTx_nonew {s : Pool} (t : Tx) (hw : WeakAll s) : NoNew s (s.removeTx t) := by
  obtain ⟨ht, _, hc⟩ := removeTx_spec s t hw
  intro u hu
  by_cases hs : u.sender = t.sender
  · rw [pooled_iff, hs] at hu ⊢
    cases hc with
    | noop e _ => rw [e] at hu; exact hu
    | pend _ _ hitems _ hq _ _ =>
      rcases hu with h | h
      · rw [hitems] at h; exact Or.inl (List.mem_filter.mp h).1
      · rcases hq u h with h' | h'
        · exact Or.inr h'
        · exact Or.inl h'.1
    | queue _ hp _ hq _ _ _ _ =>
      rcases hu with h | h
      · rw [hp] at h; exact Or.inl h
      · exact Or.inr (hq u h).1
  · exact (pooled_of_touch ht hs).mp hu

theorem capOne_nonew {s : Pool} (a : Addr) : NoNew s (s.capOne a) := by
  have hf := capOne_facts s a
  intro u hu
  by_cases hs : u.sender = a
  · rw [pooled_iff, hs] at hu ⊢
    rw [hf.queue] at hu
    rcases hu with h | h
    · left
      rcases hf.shape with ⟨_, h2, _⟩ | ⟨x, _, h2, _⟩
      · rw [h2] at h; cases h
      · rw [← h2]; exact List.mem_append_left _ h
    · exact Or.inr h
  · exact (pooled_of_touch hf.touch hs).mp hu

theorem promoteAcct_nonew {s : Pool} (a : Addr) (hw : WeakAll s) : NoNew s (s.promoteAcct a) := by
  have hwa := hw.1 a
  have hq := paq s a hwa
  have hf := pa_free a hwa
  have hP := (paS4_weak a hw).2
  have hsub2 : ∀ t ∈ (paReady s a).2, t ∈ (paQ2 s a).items := fun t ht => by rw [← hq.rapp]; exact List.mem_append_right _ ht
  intro u hu
  by_cases hs : u.sender = a
  · rw [pooled_iff, hs] at hu ⊢
    rw [promoteAcct_pending, promoteAcct_queue_items] at hu
    rcases hu with h | h
    · rcases (hP u).mp h with h' | h'
      · exact Or.inr (hq.q2sub u (hf.2.2.2.2 u h')).1
      · exact Or.inl h'
    · right
      have : u ∈ (paReady s a).2 := by
        rcases (paS5_queue s a).1 with e | e <;> rw [e] at h
        · exact h
        · exact List.mem_of_mem_take h
      exact (hq.q2sub u (hsub2 u this)).1
  · exact (pooled_of_touch (promoteAcct_touch s a) hs).mp hu

theorem closed_nonew (s0 : Pool) : Closed (fun s => WeakAll s ∧ NoNew s0 s) :=
  { rem := fun s t h => ⟨removeTx_weak t h.1, fun u hu => h.2 u (removeTx_nonew t h.1 u hu)⟩
    cap := fun s a h => ⟨capOne_weak a h.1, fun u hu => h.2 u (capOne_nonew a u hu)⟩
    acct := fun s a h => ⟨promoteAcct_weak a h.1, fun u hu => h.2 u (promoteAcct_nonew a h.1 u hu)⟩ }

/-- the core of `add` when the pool is not full -/
theorem add_notfull {s : Pool} {t : Tx} {loc : Bool} {sh : Shape} {vs : List Tx}
    (hnf : s.all.length < s.cfg.globalSlots + s.cfg.globalQueue) (hw : WeakAll s)
    (hok : (s.add t loc sh vs).1 = .ok) :
    (∀ u, (s.add t loc sh vs).2.2.pooled u → u = t ∨ s.pooled u) ∧
    (∀ o, s.pooled o → o.sender = t.sender → o.nonce = t.nonce → bumpOK o t s.cfg.priceBump = true) := by
  have hfull : decide (s.cfg.globalSlots + s.cfg.globalQueue ≤ s.all.length) = false := by
    simp only [decide_eq_false_iff_not, Nat.not_le]; exact hnf
  have hwa := hw.1 t.sender
  unfold Pool.add at hok ⊢
  split at hok
  · cases hok
  · rename_i hknown
    simp only [hfull, Bool.false_and, Bool.false_eq_true, if_false] at hok ⊢
    rw [if_neg hknown]
    split at hok
    · rename_i he; simp only at hok; exact absurd hok he
    · rename_i hval
      rw [if_neg hval]
      by_cases hov : (s.pending t.sender).overlaps t = true
      · rw [if_pos hov] at hok ⊢
        by_cases hins : (!((s.pending t.sender).add t s.cfg.priceBump).1) = true
        · rw [if_pos hins] at hok; cases hok
        · rw [if_neg hins]
          have hins' : ((s.pending t.sender).add t s.cfg.priceBump).1 = true := by simpa using hins
          have hspec := (TxL.add_spec (s.pending t.sender) t s.cfg.priceBump hwa.psorted)
          obtain ⟨o', ho'⟩ : ∃ o, getN (s.pending t.sender).items t.nonce = some o := by
            cases hg : getN (s.pending t.sender).items t.nonce with
            | none => have := overlaps_true hov; rw [hg] at this; cases this
            | some o => exact ⟨o, rfl⟩
          have hb := (hspec.2.2.1 o' (TxL.add_old ho' hins')).2.1
          refine ⟨fun u hu => ?_, fun o hpo hs hn => ?_⟩
          · by_cases hu' : u.sender = t.sender
            · have : u ∈ (upd s.pending t.sender ((s.pending t.sender).add t s.cfg.priceBump).2.2 u.sender).items ∨
                  u ∈ (s.queue u.sender).items := hu
              rw [hu', upd_same] at this
              rcases this with h | h
              · rcases ((hspec.1 hins').1 u).mp h with h' | ⟨h', _⟩
                · exact Or.inl h'
                · right; rw [pooled_iff, hu']; exact Or.inl h'
              · right; rw [pooled_iff, hu']; exact Or.inr h
            · right
              have : u ∈ (upd s.pending t.sender ((s.pending t.sender).add t s.cfg.priceBump).2.2 u.sender).items ∨
                  u ∈ (s.queue u.sender).items := hu
              rw [upd_other _ _ hu'] at this
              exact this
          · rw [pooled_iff, hs] at hpo
            rcases hpo with h | h
            · have := hwa.psorted.nonce_inj h (getN_some ho').1 (by rw [hn, (getN_some ho').2])
              rw [this]; exact hb
            · exact absurd ((getN_some ho').2.trans hn.symm) (hwa.disj o' (getN_some ho').1 o h)
      · rw [if_neg hov] at hok ⊢
        by_cases hins : (!(s.enqueueTx t).2.1) = true
        · rw [if_pos hins] at hok; cases hok
        · rw [if_neg hins]
          have hfq := enqueueTx_facts s t
          have hfree := overlaps_false (by simpa using hov : (s.pending t.sender).overlaps t = false)
          refine ⟨fun u hu => ?_, fun o hpo hs hn => ?_⟩
          · have hu2 : (s.enqueueTx t).2.2.pooled u := by
              simp only at hu
              split at hu
              · exact hu
              · exact hu
            rw [pooled_iff, hfq.pending] at hu2
            by_cases hu' : u.sender = t.sender
            · rw [hu'] at hu2
              rcases hu2 with h | h
              · right; rw [pooled_iff, hu']; exact Or.inl h
              · rcases hfq.qsub u h with h' | h'
                · exact Or.inl h'
                · right; rw [pooled_iff, hu']; exact Or.inr h'
            · right; rw [hfq.qother _ hu'] at hu2; exact hu2
          · rw [pooled_iff, hs] at hpo
            rcases hpo with h | h
            · exact absurd hn (hfree o h)
            · -- the queue holds `o` at that nonce: enqueueTx inserted, so the bump rule was met
              have hg : getN (s.queue t.sender).items t.nonce = some o := by
                rw [← hn]; exact getN_of_mem hwa.qsorted h
              have hins' : ((s.queue t.sender).add t s.cfg.priceBump).1 = true := by
                have : (s.enqueueTx t).2.1 = true := by simpa using hins
                unfold Pool.enqueueTx at this
                simp only at this
                split at this
                · cases this
                · rename_i h1; simpa using h1
              exact ((TxL.add_spec (s.queue t.sender) t s.cfg.priceBump hwa.qsorted).2.2.1 o (TxL.add_old hg hins')).2.1

theorem add_fail_notfull {s : Pool} {t : Tx} {loc : Bool} {sh : Shape} {vs : List Tx}
    (hnf : s.all.length < s.cfg.globalSlots + s.cfg.globalQueue) (hne : (s.add t loc sh vs).1 ≠ .ok) :
    (s.add t loc sh vs).2.2 = s := by
  have hfull : decide (s.cfg.globalSlots + s.cfg.globalQueue ≤ s.all.length) = false := by
    simp only [decide_eq_false_iff_not, Nat.not_le]; exact hnf
  unfold Pool.add at hne ⊢
  split
  · rfl
  · simp only [hfull, Bool.false_and, Bool.false_eq_true, if_false] at hne ⊢
    rename_i hknown
    rw [if_neg hknown] at hne
    split
    · rfl
    · rename_i hval
      rw [if_neg hval] at hne
      by_cases hov : (s.pending t.sender).overlaps t = true
      · rw [if_pos hov] at hne ⊢
        by_cases hins : (!((s.pending t.sender).add t s.cfg.priceBump).1) = true
        · rw [if_pos hins]
        · rw [if_neg hins] at hne; exact absurd rfl hne
      · rw [if_neg hov] at hne ⊢
        by_cases hins : (!(s.enqueueTx t).2.1) = true
        · rw [if_pos hins]
        · rw [if_neg hins] at hne; exact absurd rfl hne

/-- AddLocal / AddRemote on a pool that is not full: whichever slot changes its occupant, the new occupant is the submitted
    transaction and it met the price bump against the old one. -/
theorem addTx_replacement (s : Pool) (t : Tx) (loc : Bool) (sh : Shape) (vs : List Tx) (sl qo : List Addr) (h : Good s)
    (hnf : s.all.length < s.cfg.globalSlots + s.cfg.globalQueue) :
    ReplacementOK s (s.addTx t loc sh vs sl qo).2 := by
  have hw := h.weakAll
  -- nothing but `t` is new after the operation
  have key : ∀ n, (s.addTx t loc sh vs sl qo).2.pooled n →
      (n = t ∧ (s.add t (loc && !s.cfg.noLocals) sh vs).1 = .ok) ∨ s.pooled n := by
    have hA : (s.add t (loc && !s.cfg.noLocals) sh vs).1 = .ok →
        ∀ u, (s.add t (loc && !s.cfg.noLocals) sh vs).2.2.pooled u → u = t ∨ s.pooled u :=
      fun hok => (add_notfull hnf hw hok).1
    have hB : (s.add t (loc && !s.cfg.noLocals) sh vs).1 ≠ .ok → (s.add t (loc && !s.cfg.noLocals) sh vs).2.2 = s :=
      add_fail_notfull hnf
    have hW : WeakAll (s.add t (loc && !s.cfg.noLocals) sh vs).2.2 :=
      (add_pres addClosed_phase s t (loc && !s.cfg.noLocals) sh vs h.phase).1
    intro n hn
    unfold Pool.addTx at hn
    simp only at hn
    generalize s.add t (loc && !s.cfg.noLocals) sh vs = r at hA hB hW hn ⊢
    by_cases hok : r.1 = .ok
    · rw [if_neg (fun hc => hc hok)] at hn
      have hn2 : r.2.2.pooled n := by
        split at hn
        · exact (promoteExecutables_pres (closed_nonew r.2.2) r.2.2 (some [t.sender]) sl qo ⟨hW, fun u hu => hu⟩).2 n hn
        · exact hn
      rcases hA hok n hn2 with e | hp
      · exact Or.inl ⟨e, hok⟩
      · exact Or.inr hp
    · rw [if_pos hok] at hn
      rw [hB hok] at hn
      exact Or.inr hn
  intro o n ho hn hs hno hne
  rcases key n hn with ⟨e, hok⟩ | hp
  · subst e
    exact (add_notfull hnf hw hok).2 o ho hs hno
  · -- both were pooled before: one slot, one transaction
    exfalso
    apply hne
    have hso := h.1 o.sender
    rw [pooled_iff] at ho hp
    rw [← hs] at hp
    rcases ho with h1 | h1 <;> rcases hp with h2 | h2
    · exact hso.psorted.nonce_inj h1 h2 hno
    · exact absurd hno (hso.disj o h1 n h2)
    · exact absurd hno.symm (hso.disj n h2 o h1)
    · exact hso.qsorted.nonce_inj h1 h2 hno

end Aqv.TxPool

/-
  Aqv.Lemmas.EvmOps — helper lemmas for property C08: the Int-level models of the computational opcodes
  (Aqv.Model.EvmOps, mirroring core/vm/instructions.go) against the BitVec 256 specification (Aqv.Model.EvmSpec).
-/
import Aqv.Lemmas.Big
import Aqv.Model.EvmOps
import Aqv.Model.EvmSpec
namespace Aqv.Evm
open Aqv Aqv.Big

abbrev W := BitVec 256

theorem opAdd_spec (a b : W) : opAdd a.toNat b.toNat = (EvmSpec.add a b).toNat := by
  unfold opAdd EvmSpec.add
  rw [u256_eq_emod, BitVec.toNat_add]
  omega

theorem opSub_spec (a b : W) : opSub a.toNat b.toNat = (EvmSpec.sub a b).toNat := by
  unfold opSub EvmSpec.sub
  rw [u256_eq_emod, BitVec.toNat_sub]
  have := a.isLt; have := b.isLt
  omega

theorem opMul_spec (a b : W) : opMul a.toNat b.toNat = (EvmSpec.mul a b).toNat := by
  unfold opMul EvmSpec.mul
  rw [u256_eq_emod, BitVec.toNat_mul]
  rw [← Int.natCast_mul]
  omega

theorem w_ne_zero_iff (b : W) : b = 0 ↔ b.toNat = 0 := by
  constructor
  · intro h; rw [h]; rfl
  · intro h; apply BitVec.eq_of_toNat_eq; simpa using h

theorem opDiv_spec (a b : W) : opDiv a.toNat b.toNat = (EvmSpec.div a b).toNat := by
  unfold opDiv EvmSpec.div
  by_cases hb : b = 0
  · subst hb; simp
  · have hb' : b.toNat ≠ 0 := fun h => hb ((w_ne_zero_iff b).2 h)
    have : (b.toNat : Int) ≠ 0 := by omega
    simp only [this, hb, ne_eq, not_false_eq_true, if_true, if_false, BitVec.toNat_udiv]
    rw [← Int.natCast_ediv, u256_of_lt]
    have := Nat.div_le_self a.toNat b.toNat
    have := a.isLt
    omega

theorem opMod_spec (a b : W) : opMod a.toNat b.toNat = (EvmSpec.mod a b).toNat := by
  unfold opMod EvmSpec.mod
  by_cases hb : b = 0
  · subst hb; simp
  · have hb' : b.toNat ≠ 0 := fun h => hb ((w_ne_zero_iff b).2 h)
    have : (b.toNat : Int) ≠ 0 := by omega
    simp only [this, hb, if_false, BitVec.toNat_umod]
    rw [← Int.natCast_emod, u256_of_lt]
    have := Nat.mod_lt a.toNat (Nat.pos_of_ne_zero hb')
    have := b.isLt
    omega

theorem opLt_spec (a b : W) : opLt a.toNat b.toNat = (EvmSpec.lt a b).toNat := by
  unfold opLt EvmSpec.lt EvmSpec.bool
  simp only [BitVec.ult, Int.ofNat_lt]
  by_cases h : a.toNat < b.toNat <;> simp [h]

theorem opGt_spec (a b : W) : opGt a.toNat b.toNat = (EvmSpec.gt a b).toNat := by
  unfold opGt EvmSpec.gt EvmSpec.bool
  simp only [BitVec.ult, gt_iff_lt, Int.ofNat_lt]
  by_cases h : b.toNat < a.toNat <;> simp [h]

theorem opEq_spec (a b : W) : opEq a.toNat b.toNat = (EvmSpec.eq a b).toNat := by
  unfold opEq EvmSpec.eq EvmSpec.bool
  by_cases h : a = b
  · subst h; simp
  · have : a.toNat ≠ b.toNat := fun e => h (BitVec.eq_of_toNat_eq e)
    have h2 : ((a.toNat : Int) = b.toNat) = False := by simp; omega
    simp [h, h2]

theorem opIszero_spec (a : W) : opIszero a.toNat = (EvmSpec.iszero a).toNat := by
  unfold opIszero EvmSpec.iszero EvmSpec.bool
  by_cases h : a = 0
  · subst h; simp
  · have : a.toNat ≠ 0 := fun e => h ((w_ne_zero_iff a).2 e)
    have h2 : 0 < a.toNat := by omega
    have h3 : ¬ (a = 0#256) := h
    simp [h3, h2]

theorem opAnd_spec (a b : W) : opAnd a.toNat b.toNat = (EvmSpec.and a b).toNat := by
  unfold opAnd EvmSpec.and
  rw [BitVec.toNat_and]; rfl
theorem opOr_spec (a b : W) : opOr a.toNat b.toNat = (EvmSpec.or a b).toNat := by
  unfold opOr EvmSpec.or
  rw [BitVec.toNat_or]; rfl
theorem opXor_spec (a b : W) : opXor a.toNat b.toNat = (EvmSpec.xor a b).toNat := by
  unfold opXor EvmSpec.xor
  rw [BitVec.toNat_xor]; rfl
theorem opNot_spec (a : W) : opNot a.toNat = (EvmSpec.not a).toNat := by
  unfold opNot EvmSpec.not
  rw [BitVec.toNat_not, u256_eq_emod]
  show (Int.negSucc a.toNat) % 2 ^ 256 = _
  rw [Int.negSucc_emod _ (by decide)]
  have := a.isLt
  omega

theorem s256_toNat (a : W) : s256 (a.toNat : Int) = a.toInt := by
  unfold s256
  rw [BitVec.toInt_eq_toNat_cond, tt255_eq, tt256_eq]
  have := a.isLt
  split <;> split <;> omega

theorem toInt_bounds (a : W) : -(2 ^ 255 : Int) ≤ a.toInt ∧ a.toInt < 2 ^ 255 := by
  rw [BitVec.toInt_eq_toNat_cond]
  have := a.isLt
  split <;> omega

theorem s256_idem (a : W) : s256 a.toInt = a.toInt := by
  unfold s256
  have := (toInt_bounds a).2
  rw [tt255_eq]
  split <;> omega

theorem opSlt_spec (a b : W) : opSlt a.toNat b.toNat = (EvmSpec.slt a b).toNat := by
  unfold opSlt EvmSpec.slt EvmSpec.bool
  simp only [s256_toNat, s256_idem, BitVec.slt]
  by_cases h : a.toInt < b.toInt <;> simp [h]

theorem opSgt_spec (a b : W) : opSgt a.toNat b.toNat = (EvmSpec.sgt a b).toNat := by
  unfold opSgt EvmSpec.sgt EvmSpec.bool
  simp only [s256_toNat, BitVec.slt, gt_iff_lt]
  by_cases h : b.toInt < a.toInt <;> simp [h]

theorem opAddmod_spec (a b n : W) : opAddmod a.toNat b.toNat n.toNat = (EvmSpec.addmod a b n).toNat := by
  unfold opAddmod EvmSpec.addmod
  by_cases hn : n = 0
  · subst hn; simp
  · have hn' : n.toNat ≠ 0 := fun h => hn ((w_ne_zero_iff n).2 h)
    have hpos : (n.toNat : Int) > 0 := by omega
    simp only [hpos, hn, if_true, if_false, BitVec.toNat_ofNat]
    have hlt := Nat.mod_lt (a.toNat + b.toNat) (Nat.pos_of_ne_zero hn')
    have := n.isLt
    rw [← Int.natCast_add, ← Int.natCast_emod, u256_of_lt _ (Nat.lt_trans hlt this), Nat.mod_eq_of_lt (Nat.lt_trans hlt this)]

theorem opMulmod_spec (a b n : W) : opMulmod a.toNat b.toNat n.toNat = (EvmSpec.mulmod a b n).toNat := by
  unfold opMulmod EvmSpec.mulmod
  by_cases hn : n = 0
  · subst hn; simp
  · have hn' : n.toNat ≠ 0 := fun h => hn ((w_ne_zero_iff n).2 h)
    have hpos : (n.toNat : Int) > 0 := by omega
    simp only [hpos, hn, if_true, if_false, BitVec.toNat_ofNat]
    have hlt := Nat.mod_lt (a.toNat * b.toNat) (Nat.pos_of_ne_zero hn')
    have := n.isLt
    rw [← Int.natCast_mul, ← Int.natCast_emod, u256_of_lt _ (Nat.lt_trans hlt this), Nat.mod_eq_of_lt (Nat.lt_trans hlt this)]

theorem abs_of_nonneg {x : Int} (h : 0 ≤ x) : Big.abs x = x := by
  unfold Big.abs; exact Int.natAbs_of_nonneg h
theorem abs_of_nonpos {x : Int} (h : x ≤ 0) : Big.abs x = -x := by
  unfold Big.abs; exact Int.ofNat_natAbs_of_nonpos h

theorem sdiv_core (x y : Int) (hy : y ≠ 0) :
    Big.abs x / Big.abs y * (if x * y < 0 then -1 else 1) = x.tdiv y := by
  by_cases hx : 0 ≤ x
  · by_cases hy' : 0 < y
    · have : ¬ x * y < 0 := by have := Int.mul_nonneg hx (Int.le_of_lt hy'); omega
      rw [abs_of_nonneg hx, abs_of_nonneg (Int.le_of_lt hy'), if_neg this, Int.tdiv_eq_ediv_of_nonneg hx]; omega
    · have hyn : y < 0 := by omega
      rw [abs_of_nonneg hx, abs_of_nonpos (Int.le_of_lt hyn)]
      have e : y = -(-y) := by omega
      rw [e, Int.tdiv_neg, Int.tdiv_eq_ediv_of_nonneg hx, ← e]
      by_cases hx0 : x = 0
      · subst hx0; simp
      · have : x * y < 0 := Int.mul_neg_of_pos_of_neg (by omega) hyn
        rw [if_pos this]; omega
  · have hxn : x < 0 := by omega
    have ex : x = -(-x) := by omega
    by_cases hy' : 0 < y
    · have : x * y < 0 := Int.mul_neg_of_neg_of_pos hxn hy'
      rw [abs_of_nonpos (Int.le_of_lt hxn), abs_of_nonneg (Int.le_of_lt hy'), if_pos this]
      rw [ex, Int.neg_tdiv, Int.tdiv_eq_ediv_of_nonneg (by omega), ← ex]; omega
    · have hyn : y < 0 := by omega
      have : ¬ x * y < 0 := by
        have := Int.mul_nonneg_of_nonpos_of_nonpos (Int.le_of_lt hxn) (Int.le_of_lt hyn); omega
      rw [abs_of_nonpos (Int.le_of_lt hxn), abs_of_nonpos (Int.le_of_lt hyn), if_neg this]
      have ey : y = -(-y) := by omega
      rw [ex, ey, Int.neg_tdiv, Int.tdiv_neg, Int.tdiv_eq_ediv_of_nonneg (by omega), ← ex, ← ey]; omega

theorem toNat_eq_toInt_emod (a : W) : (a.toNat : Int) = a.toInt % 2 ^ 256 := by
  rw [BitVec.toInt_eq_toNat_cond]
  have := a.isLt
  split <;> omega

theorem toInt_eq_zero_iff (b : W) : b.toInt = 0 ↔ b = 0 := by
  rw [w_ne_zero_iff, BitVec.toInt_eq_toNat_cond]
  have := b.isLt
  split <;> omega

theorem opSdiv_spec (a b : W) : opSdiv a.toNat b.toNat = (EvmSpec.sdiv a b).toNat := by
  unfold opSdiv EvmSpec.sdiv
  simp only [s256_toNat]
  by_cases hb : b = 0
  · simp [hb]
  · have hb' : b.toInt ≠ 0 := fun h => hb ((toInt_eq_zero_iff b).1 h)
    simp only [hb', hb, if_false]
    rw [sdiv_core _ _ hb', u256_eq_emod, toNat_eq_toInt_emod, BitVec.toInt_sdiv]
    have := @Int.bmod_emod (a.toInt.tdiv b.toInt) (2 ^ 256)
    simpa using this.symm

theorem smod_core (x y : Int) :
    Big.abs x % Big.abs y * (if x < 0 then -1 else 1) = x.tmod y := by
  have hn : ∀ z : Int, Big.abs z = (z.natAbs : Int) := fun _ => rfl
  by_cases hx : 0 ≤ x
  · have : ¬ x < 0 := by omega
    rw [if_neg this, hn, hn, ← Int.natCast_emod, ← Int.natAbs_tmod]
    have := Int.tmod_nonneg y hx
    omega
  · have hxn : x < 0 := by omega
    rw [if_pos hxn, hn, hn, ← Int.natCast_emod, ← Int.natAbs_tmod]
    have ex : x = -(-x) := by omega
    have : (x.tmod y) ≤ 0 := by
      rw [ex, Int.neg_tmod]
      have := Int.tmod_nonneg y (show 0 ≤ -x by omega)
      omega
    omega

theorem opSmod_spec (a b : W) : opSmod a.toNat b.toNat = (EvmSpec.smod a b).toNat := by
  unfold opSmod EvmSpec.smod
  simp only [s256_toNat]
  by_cases hb : b = 0
  · simp [hb]
  · have hb' : b.toInt ≠ 0 := fun h => hb ((toInt_eq_zero_iff b).1 h)
    simp only [hb', hb, if_false]
    rw [smod_core, u256_eq_emod, toNat_eq_toInt_emod, BitVec.toInt_srem]

theorem uint64_natCast (n : Nat) (h : n < 2 ^ 64) : uint64 (n : Int) = n := by
  unfold uint64; simp [Nat.mod_eq_of_lt h]

theorem opByte_spec (i x : W) : opByte i.toNat x.toNat = (EvmSpec.byte i x).toNat := by
  unfold opByte EvmSpec.byte
  by_cases h : i.toNat < 32
  · have h' : (i.toNat : Int) < 32 := by omega
    rw [if_pos h', if_pos h, uint64_natCast _ (by omega)]
    unfold byteAt
    rw [if_neg (by omega), BitVec.toNat_and, BitVec.toNat_ushiftRight]
    have : BitVec.toNat (0xff : W) = 2 ^ 8 - 1 := by decide
    rw [this, Nat.and_two_pow_sub_one_eq_mod]
    simp
  · have h' : ¬ (i.toNat : Int) < 32 := by omega
    rw [if_neg h', if_neg h]; rfl

theorem lsh_natCast (v n : Nat) : lsh (v : Int) n = ((v <<< n : Nat) : Int) := by
  unfold lsh; rw [Nat.shiftLeft_eq, Int.natCast_mul]

theorem opSHL_spec (s v : W) : opSHL s.toNat v.toNat = (EvmSpec.shl s v).toNat := by
  unfold opSHL EvmSpec.shl
  rw [u256_of_lt _ s.isLt, u256_of_lt _ v.isLt]
  by_cases h : s.toNat ≥ 256
  · have h' : (s.toNat : Int) ≥ 256 := by omega
    rw [if_pos h', if_pos h]; rfl
  · have h' : ¬ (s.toNat : Int) ≥ 256 := by omega
    rw [if_neg h', if_neg h, uint64_natCast _ (by omega), lsh_natCast, u256_natCast, BitVec.toNat_shiftLeft]

theorem opSHR_spec (s v : W) : opSHR s.toNat v.toNat = (EvmSpec.shr s v).toNat := by
  unfold opSHR EvmSpec.shr
  rw [u256_of_lt _ s.isLt, u256_of_lt _ v.isLt]
  by_cases h : s.toNat ≥ 256
  · have h' : (s.toNat : Int) ≥ 256 := by omega
    rw [if_pos h', if_pos h]; rfl
  · have h' : ¬ (s.toNat : Int) ≥ 256 := by omega
    rw [if_neg h', if_neg h, uint64_natCast _ (by omega), BitVec.toNat_ushiftRight]
    show u256 ((v.toNat >>> s.toNat : Nat) : Int) = _
    rw [u256_of_lt]
    have := Nat.shiftRight_le v.toNat s.toNat
    have := v.isLt
    omega

theorem rsh_eq_shiftRight (x : Int) (n : Nat) : rsh x n = x >>> n := by
  cases x <;> rfl

theorem u256_neg_one : u256 (-1) = 2 ^ 256 - 1 := by rw [u256_eq_emod]; decide
theorem u256_zero : u256 0 = 0 := by rw [u256_eq_emod]; decide

theorem sar_zero_witness : opSAR 256 0 = 2 ^ 256 - 1 ∧ ((EvmSpec.sar 256 0).toNat : Int) = 0 ∧
    opSAR 256 0 ≠ ((EvmSpec.sar 256 0).toNat : Int) := by
  have h1 : opSAR 256 0 = 2 ^ 256 - 1 := by
    unfold opSAR; simp only [u256_eq_emod]; decide
  have h2 : ((EvmSpec.sar 256 0).toNat : Int) = 0 := by decide
  refine ⟨h1, h2, ?_⟩
  rw [h1, h2]; decide

theorem opSAR_spec_partial (s v : W) (h : ¬ (s.toNat ≥ 256 ∧ v = 0)) :
    opSAR s.toNat v.toNat = (EvmSpec.sar s v).toNat := by
  unfold opSAR EvmSpec.sar
  rw [u256_of_lt _ s.isLt, s256_toNat]
  by_cases hs : s.toNat ≥ 256
  · have hs' : (s.toNat : Int) ≥ 256 := by omega
    have hv : v.toInt ≠ 0 := fun e => h ⟨hs, (toInt_eq_zero_iff v).1 e⟩
    rw [if_pos hs', if_pos hs, BitVec.msb_eq_toInt]
    by_cases hp : v.toInt > 0
    · have : ¬ v.toInt < 0 := by omega
      simp [hp, this, u256_zero]
    · have : v.toInt < 0 := by omega
      simp [hp, this, u256_neg_one]
  · have hs' : ¬ (s.toNat : Int) ≥ 256 := by omega
    rw [if_neg hs', if_neg hs, uint64_natCast _ (by omega), rsh_eq_shiftRight, u256_eq_emod,
      toNat_eq_toInt_emod, BitVec.toInt_sshiftRight]

/-- low (k+1) bits = low k bits plus bit k -/
theorem mod_two_pow_succ (x k : Nat) : x % 2 ^ (k + 1) = x % 2 ^ k + (if x.testBit k then 2 ^ k else 0) := by
  rw [Nat.mod_pow_succ, Nat.testBit_eq_decide_div_mod_eq]
  have : x / 2 ^ k % 2 < 2 := Nat.mod_lt _ (by decide)
  by_cases h : x / 2 ^ k % 2 = 1
  · simp [h]
  · have : x / 2 ^ k % 2 = 0 := by omega
    simp [this]

/-- `x | -(2^k)` for x ≥ 0 (math/big Or with a negative operand): low k bits of x, all higher bits set. -/
theorem or_neg_two_pow (a k : Nat) : Big.or (a : Int) (Big.not ((2 ^ k - 1 : Nat) : Int)) = ((a % 2 ^ k : Nat) : Int) - 2 ^ k := by
  show Int.negSucc (natAndNot (2 ^ k - 1) a) = _
  rw [natAndNot_mask, Int.negSucc_eq]
  have h : a % 2 ^ k < 2 ^ k := Nat.mod_lt _ (Nat.two_pow_pos k)
  have : ((2 ^ k : Nat) : Int) = (2 : Int) ^ k := by simp
  omega

theorem and_mask (a k : Nat) : Big.and (a : Int) ((2 ^ k - 1 : Nat) : Int) = ((a % 2 ^ k : Nat) : Int) := by
  show Int.ofNat (a &&& (2 ^ k - 1)) = _
  rw [Nat.and_two_pow_sub_one_eq_mod]; rfl

theorem lsh_one_sub_one (k : Nat) : lsh 1 k - 1 = ((2 ^ k - 1 : Nat) : Int) := by
  unfold lsh
  have := Nat.two_pow_pos k
  omega

theorem opSignExtend_spec (b x : W) : opSignExtend b.toNat x.toNat = (EvmSpec.signextend b x).toNat := by
  unfold opSignExtend EvmSpec.signextend
  by_cases h : b.toNat < 31
  · have h' : (b.toNat : Int) < 31 := by omega
    rw [if_pos h', if_pos h, uint64_natCast _ (by omega)]
    simp only []
    rw [lsh_one_sub_one, BitVec.toNat_signExtend, BitVec.toNat_setWidth, BitVec.toNat_setWidth, BitVec.msb_setWidth,
      ← BitVec.testBit_toNat]
    have hk : 8 * (b.toNat + 1) - 1 = b.toNat * 8 + 7 := by omega
    have hk2 : 8 * (b.toNat + 1) = (b.toNat * 8 + 7) + 1 := by omega
    have hpos : 0 < 8 * (b.toNat + 1) := by omega
    rw [hk, hk2]
    generalize hbit : b.toNat * 8 + 7 = bit
    have hbit_lt : bit < 256 := by omega
    have hp1 : 2 ^ (bit + 1) ≤ 2 ^ 256 := Nat.pow_le_pow_right (by decide) (by omega)
    have hp2 : 2 ^ bit < 2 ^ (bit + 1) := Nat.pow_lt_pow_right (by decide) (by omega)
    have hm := mod_two_pow_succ x.toNat bit
    have hlt : x.toNat % 2 ^ bit < 2 ^ bit := Nat.mod_lt _ (Nat.two_pow_pos bit)
    have hmm : x.toNat % 2 ^ (bit + 1) % 2 ^ 256 = x.toNat % 2 ^ (bit + 1) := by
      apply Nat.mod_eq_of_lt
      have := Nat.mod_lt x.toNat (Nat.two_pow_pos (bit + 1))
      omega
    rw [hmm]
    have hpc : ((2 ^ bit : Nat) : Int) = (2 : Int) ^ bit := by simp
    by_cases ht : x.toNat.testBit bit
    · have hb : Big.bit (x.toNat : Int) bit > 0 := by
        show (if x.toNat.testBit bit then 1 else 0) > 0
        simp [ht]
      rw [if_pos hb, or_neg_two_pow, u256_eq_emod]
      simp only [ht, if_true] at hm
      simp only [ht, Bool.and_self, if_true, show decide (0 < bit + 1) = true by simp]
      omega
    · have hb : ¬ Big.bit (x.toNat : Int) bit > 0 := by
        show ¬ (if x.toNat.testBit bit then 1 else 0) > 0
        simp [ht]
      rw [if_neg hb, and_mask, u256_natCast]
      simp only [ht, Bool.false_eq_true, if_false, Nat.add_zero] at hm
      simp only [ht, Bool.and_false, Bool.false_eq_true, if_false, Nat.add_zero]
      rw [hm, Nat.mod_eq_of_lt (by omega)]
  · have h' : ¬ (b.toNat : Int) < 31 := by omega
    rw [if_neg h', if_neg h]

def M : Nat := 2 ^ 256

def expIterN : Nat → Nat → Nat → Nat → Nat
  | 0, r, _, _ => r
  | k + 1, r, b, e =>
    expIterN k (if e % 2 = 1 then (r * b) % M else r) ((b * b) % M) (e / 2)

theorem expIter_natCast (k r b e : Nat) : expIter k (r : Int) (b : Int) e = ((expIterN k r b e : Nat) : Int) := by
  induction k generalizing r b e with
  | zero => rfl
  | succ k ih =>
    unfold expIter expIterN
    simp only []
    rw [← Int.natCast_mul, ← Int.natCast_mul, u256_natCast, u256_natCast]
    have : (if e % 2 = 1 then ((r * b % 2 ^ 256 : Nat) : Int) else (r : Int)) = ((if e % 2 = 1 then (r * b) % M else r : Nat) : Int) := by
      split <;> rfl
    rw [this]
    exact ih _ _ _

theorem pow_split (b e : Nat) : b ^ e = b ^ (e % 2) * (b * b) ^ (e / 2) := by
  have : e = e % 2 + 2 * (e / 2) := by omega
  conv => lhs; rw [this]
  rw [Nat.pow_add, Nat.pow_mul, Nat.pow_two]

theorem expIterN_eq (k : Nat) : ∀ r b e, e < 2 ^ k → expIterN k r b e = if e = 0 then r else (r * b ^ e) % M := by
  induction k with
  | zero => intro r b e h; have : e = 0 := by simpa using h
            subst this; simp [expIterN]
  | succ k ih =>
    intro r b e h
    unfold expIterN
    have h2 : e / 2 < 2 ^ k := by rw [Nat.pow_succ] at h; omega
    rw [ih _ _ _ h2]
    by_cases he : e = 0
    · subst he; simp
    · rw [if_neg he]
      have key : ∀ r', r' % M = (r * b ^ (e % 2)) % M → (r' * ((b * b) % M) ^ (e / 2)) % M = (r * b ^ e) % M := by
        intro r' hr
        rw [Nat.mul_mod, ← Nat.pow_mod, hr, ← Nat.mul_mod, pow_split b e, Nat.mul_assoc]
      by_cases h0 : e / 2 = 0
      · have e1 : e = 1 := by omega
        subst e1
        simp
      · rw [if_neg h0]
        by_cases hodd : e % 2 = 1
        · rw [if_pos hodd]
          apply key
          rw [hodd, Nat.pow_one, Nat.mod_mod]
        · rw [if_neg hodd]
          apply key
          have : e % 2 = 0 := by omega
          rw [this, Nat.pow_zero, Nat.mul_one]

theorem exp_natCast (b e : Nat) : Big.exp (b : Int) (e : Int) = ((b ^ e % 2 ^ 256 : Nat) : Int) := by
  unfold Big.exp
  simp only [Int.natAbs_natCast]
  have h1 : (1 : Int) = ((1 : Nat) : Int) := rfl
  rw [h1, expIter_natCast, expIterN_eq]
  · by_cases he : e = 0
    · subst he; simp
    · rw [if_neg he, Nat.one_mul]; rfl
  · have hb : e < 2 ^ natBitLen e := by
      unfold natBitLen
      by_cases he : e = 0
      · subst he; simp
      · rw [if_neg he]; exact Nat.lt_log2_self
    have : natBitLen e ≤ 64 * ((natBitLen e + 63) / 64) := by omega
    exact Nat.lt_of_lt_of_le hb (Nat.pow_le_pow_right (by decide) this)

theorem powModF_eq (f : Nat) : ∀ a e m, e < 2 ^ f → EvmSpec.powModF f a e m = a ^ e % m := by
  induction f with
  | zero => intro a e m h; have : e = 0 := by simpa using h
            subst this; simp [EvmSpec.powModF]
  | succ f ih =>
    intro a e m h
    unfold EvmSpec.powModF
    have h2 : e / 2 < 2 ^ f := by rw [Nat.pow_succ] at h; omega
    by_cases he : e = 0
    · subst he; simp
    · rw [if_neg he]
      simp only []
      rw [ih _ _ _ h2, ← Nat.pow_mod]
      conv => rhs; rw [pow_split a e]
      by_cases hodd : e % 2 = 1
      · rw [if_pos hodd, hodd, Nat.pow_one, Nat.mul_mod, Nat.mod_mod, ← Nat.mul_mod]
      · have : e % 2 = 0 := by omega
        rw [if_neg hodd, this, Nat.pow_zero, Nat.one_mul]

theorem powMod_eq (a e m : Nat) : EvmSpec.powMod a e m = a ^ e % m := by
  unfold EvmSpec.powMod
  exact powModF_eq _ _ _ _ Nat.lt_log2_self

theorem opExp_spec (a e : W) : opExp a.toNat e.toNat = (EvmSpec.exp a e).toNat := by
  unfold opExp EvmSpec.exp
  rw [exp_natCast, powMod_eq, BitVec.toNat_ofNat, Nat.mod_mod]

theorem exp_meaning (a e : W) : (EvmSpec.exp a e).toNat = a.toNat ^ e.toNat % 2 ^ 256 := by
  unfold EvmSpec.exp
  rw [powMod_eq, BitVec.toNat_ofNat, Nat.mod_mod]

theorem shl_meaning (s v : W) : EvmSpec.shl s v = v <<< s.toNat := by
  unfold EvmSpec.shl
  split
  · rename_i h; rw [BitVec.shiftLeft_eq_zero h]; rfl
  · rfl

theorem shr_meaning (s v : W) : EvmSpec.shr s v = v >>> s.toNat := by
  unfold EvmSpec.shr
  split
  · rename_i h; rw [BitVec.ushiftRight_eq_zero h]; rfl
  · rfl

theorem sar_meaning (s v : W) : EvmSpec.sar s v = v.sshiftRight s.toNat := by
  unfold EvmSpec.sar
  split
  · rename_i h
    apply BitVec.eq_of_toInt_eq
    rw [BitVec.toInt_sshiftRight, Int.shiftRight_eq_div_pow, BitVec.msb_eq_toInt]
    have hb := toInt_bounds v
    have hp : (2 : Nat) ^ 256 ≤ 2 ^ s.toNat := Nat.pow_le_pow_right (by decide) h
    have hp' : ((2 ^ 256 : Nat) : Int) ≤ ((2 ^ s.toNat : Nat) : Int) := Int.ofNat_le.2 hp
    generalize ((2 ^ s.toNat : Nat) : Int) = b at hp'
    by_cases hneg : v.toInt < 0
    · simp only [hneg, decide_true, if_true, BitVec.toInt_allOnes]
      have : (v.toInt / b = -1 ∧ v.toInt % b = v.toInt + b) := by
        rw [Int.ediv_emod_unique (by omega)]
        refine ⟨by omega, by omega, by omega⟩
      rw [this.1]; rfl
    · simp only [hneg, decide_false, Bool.false_eq_true, if_false]
      rw [Int.ediv_eq_zero_of_lt (by omega) (by omega)]; rfl
  · rfl
end Aqv.Evm

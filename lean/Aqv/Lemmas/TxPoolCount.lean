/-
  Aqv.Lemmas.TxPoolCount — the counting argument behind "no limit binds while the pool is small":
  `accts` and `all` are duplicate-free (further invariants), hence every list length and both pool-wide counters are
  bounded by the size of any list that contains everything pooled.
-/
import Aqv.Lemmas.TxPoolReorg
namespace Aqv.TxPool

/-- the iteration domain and the lookup table hold no duplicates (they are Go maps) -/
def ND (s : Pool) : Prop := s.accts.Nodup ∧ s.all.Nodup

theorem insertAll_nodup {t : Tx} {l : List Tx} (h : l.Nodup) : (insertAll t l).Nodup := by
  unfold insertAll; split
  · exact h
  · rename_i hn; exact List.nodup_cons.mpr ⟨hn, h⟩

theorem delAll_nodup {t : Tx} {l : List Tx} (h : l.Nodup) : (delAll t l).Nodup :=
  List.Nodup.sublist List.filter_sublist h

theorem filter_nodup {l : List Tx} (p : Tx → Bool) (h : l.Nodup) : (l.filter p).Nodup :=
  List.Nodup.sublist List.filter_sublist h

theorem consIfNew_nodup {a : Addr} {l : List Addr} (h : l.Nodup) : (if a ∈ l then l else a :: l).Nodup := by
  split
  · exact h
  · rename_i hn; exact List.nodup_cons.mpr ⟨hn, h⟩

theorem enqueueTx_nd {s : Pool} (t : Tx) (h : ND s) : ND (s.enqueueTx t).2.2 := by
  unfold Pool.enqueueTx
  simp only
  split
  · exact h
  · refine ⟨consIfNew_nodup h.1, insertAll_nodup ?_⟩
    split
    · exact delAll_nodup h.2
    · exact h.2

theorem promoteTx_nd {s : Pool} (a : Addr) (t : Tx) (h : ND s) : ND (s.promoteTx a t) := by
  unfold Pool.promoteTx
  simp only
  split
  · exact ⟨h.1, delAll_nodup h.2⟩
  · refine ⟨consIfNew_nodup h.1, insertAll_nodup ?_⟩
    split
    · exact delAll_nodup h.2
    · exact h.2

theorem enqueueAll_nd {s : Pool} (us : List Tx) (h : ND s) : ND (enqueueAll s us) :=
  foldl_pres ND _ (fun s u hs => enqueueTx_nd u hs) us s h

theorem promoteAll_nd {s : Pool} (a : Addr) (ts : List Tx) (h : ND s) : ND (promoteAll s a ts) :=
  foldl_pres ND _ (fun s t hs => promoteTx_nd a t hs) ts s h

theorem lowerN_nd {s : Pool} (a : Addr) (n : Nat) (h : ND s) : ND (lowerN s a n) := by
  unfold lowerN; split <;> exact h

theorem removeTx_nd {s : Pool} (t : Tx) (h : ND s) : ND (s.removeTx t) := by
  unfold Pool.removeTx Pool.removeTxG
  split
  · exact h
  · simp only [Bool.true_or, if_true]
    have h1 : ND ({ s with all := delAll t s.all } : Pool) := ⟨h.1, delAll_nodup h.2⟩
    split
    · have h2 : ND (({ s with all := delAll t s.all } : Pool).setP t.sender
          (dropIfEmpty (({ s with all := delAll t s.all } : Pool).pending t.sender |>.remove t).2.2)) := h1
      have h3 := enqueueAll_nd (({ s with all := delAll t s.all } : Pool).pending t.sender |>.remove t).2.1 h2
      exact lowerN_nd t.sender t.nonce h3
    · exact h1

theorem capOne_nd {s : Pool} (a : Addr) (h : ND s) : ND (s.capOne a) := by
  have hf := capOne_facts s a
  refine ⟨by rw [hf.accts]; exact h.1, ?_⟩
  unfold Pool.capOne capL
  simp only
  have : ∀ (l : List Tx) (m : Pool), m.all.Nodup →
      (l.foldl (fun s t => if t.nonce < s.pnonce a then s.setN a t.nonce else s) m).all.Nodup := by
    intro l
    induction l with
    | nil => intro m hm; exact hm
    | cons x xs ih => intro m hm; simp only [List.foldl_cons]; apply ih; split <;> exact hm
  apply this
  exact filter_nodup _ h.2

theorem promoteAcct_nd {s : Pool} (a : Addr) (h : ND s) : ND (s.promoteAcct a) := by
  rw [promoteAcct_eq]
  have h3 : ND (paS3 s a) := ⟨h.1, filter_nodup _ (filter_nodup _ h.2)⟩
  have h4 : ND (paS4 s a) := promoteAll_nd a _ h3
  have h5 : ND (paS5 s a) := by
    unfold paS5; simp only; split
    · exact ⟨h4.1, filter_nodup _ h4.2⟩
    · exact h4
  exact h5

theorem demoteAcct_nd (g : Bool) {s : Pool} (a : Addr) (h : ND s) : ND (s.demoteAcct g a) := by
  rw [demoteAcct_eq]
  have h3 : ND (dS3 s a) := ⟨h.1, filter_nodup _ (filter_nodup _ h.2)⟩
  have h4 : ND (dS4 s a) := enqueueAll_nd _ h3
  have h5 : ND (dS5 g s a) := h4
  have h6 : ND (dS6 g s a) := enqueueAll_nd _ h5
  exact h6

theorem addClosed_nd : AddClosed ND :=
  { rem := fun _ t h => removeTx_nd t h
    cap := fun _ a h => capOne_nd a h
    acct := fun _ a h => promoteAcct_nd a h
    replace := fun s t h _ _ _ _ => ⟨h.1, insertAll_nodup (by split; exact delAll_nodup h.2; exact h.2)⟩
    enqueue := fun _ t h _ _ => enqueueTx_nd t h
    locals := fun _ _ h => h }

theorem syncNonces_nd {s : Pool} (h : ND s) : ND s.syncNonces := by
  obtain ⟨e1, _, _⟩ := syncNonces_all s
  obtain ⟨_, _, e4, _⟩ := syncNonces_spec s.accts s
  exact ⟨by rw [syncNonces_eq, e4]; exact h.1, by rw [e1]; exact h.2⟩

/-! ### counting -/

theorem nodup_subset_length {α : Type} [DecidableEq α] : ∀ (l1 l2 : List α), l1.Nodup → (∀ x ∈ l1, x ∈ l2) → l1.length ≤ l2.length := by
  intro l1
  induction l1 with
  | nil => intro l2 _ _; exact Nat.zero_le _
  | cons x xs ih =>
    intro l2 hn hsub
    have hx : x ∈ l2 := hsub x List.mem_cons_self
    have hn' := List.nodup_cons.mp hn
    have := ih (l2.erase x) hn'.2 (fun y hy => by
      have hne : y ≠ x := fun e => hn'.1 (e ▸ hy)
      exact (List.mem_erase_of_ne hne).mpr (hsub y (List.mem_cons_of_mem _ hy)))
    rw [List.length_erase_of_mem hx] at this
    have hpos : 0 < l2.length := List.length_pos_of_mem hx
    simp only [List.length_cons]; omega

theorem Sorted.nodup {l : List Tx} (h : Sorted l) : l.Nodup :=
  List.nodup_iff_pairwise_ne.mpr (List.Pairwise.imp (fun hlt e => by subst e; omega) h)

theorem sumLen_eq_flatMap (f : Addr → TxL) (as : List Addr) : sumLen f as = (as.flatMap (fun a => (f a).items)).length := by
  rw [List.length_flatMap]; rfl

/-- the concatenation of the lists of distinct accounts has no duplicates -/
theorem flatMap_nodup {f : Addr → TxL} {as : List Addr} (hnd : as.Nodup) (hs : ∀ a, Sorted (f a).items)
    (hown : ∀ a, ∀ t ∈ (f a).items, t.sender = a) : (as.flatMap (fun a => (f a).items)).Nodup := by
  rw [List.nodup_iff_pairwise_ne, List.pairwise_flatMap]
  refine ⟨fun a _ => List.nodup_iff_pairwise_ne.mp (hs a).nodup, ?_⟩
  exact List.Pairwise.imp (fun {a b} hab x hx y hy e => by
    subst e; exact hab ((hown a x hx).symm.trans (hown b x hy))) (List.nodup_iff_pairwise_ne.mp hnd)

/-- everything pooled is in `A` -/
def Within (A : List Tx) (s : Pool) : Prop := ∀ u, s.pooled u → u ∈ A

/-- **counting lemma**: if everything pooled is in `A`, both pool-wide counters, every single list and the lookup table are
    at most `|A|` -/
theorem count_le {A : List Tx} {s : Pool} (hw : WeakAll s) (ha : AllOK s) (hnd : ND s) (hin : Within A s) :
    s.pendingCount ≤ A.length ∧ s.queuedCount ≤ A.length ∧ (∀ a, (s.queue a).items.length ≤ A.length) ∧
    s.all.length ≤ A.length := by
  refine ⟨?_, ?_, fun a => ?_, ?_⟩
  · unfold Pool.pendingCount
    rw [sumLen_eq_flatMap]
    apply nodup_subset_length _ _ (flatMap_nodup hnd.1 (fun a => (hw.1 a).psorted) (fun a => (hw.1 a).powner))
    intro x hx
    obtain ⟨a, _, hxa⟩ := List.mem_flatMap.mp hx
    exact hin x (by rw [pooled_iff, (hw.1 a).powner x hxa]; exact Or.inl hxa)
  · unfold Pool.queuedCount
    rw [sumLen_eq_flatMap]
    apply nodup_subset_length _ _ (flatMap_nodup hnd.1 (fun a => (hw.1 a).qsorted) (fun a => (hw.1 a).qowner))
    intro x hx
    obtain ⟨a, _, hxa⟩ := List.mem_flatMap.mp hx
    exact hin x (by rw [pooled_iff, (hw.1 a).qowner x hxa]; exact Or.inr hxa)
  · apply nodup_subset_length _ _ (hw.1 a).qsorted.nodup
    intro x hx
    exact hin x (by rw [pooled_iff, (hw.1 a).qowner x hx]; exact Or.inr hx)
  · apply nodup_subset_length _ _ hnd.2
    intro x hx
    exact hin x ((ha x).mp hx)

/-! ### a reset on a pool with room: no limit binds, so a valid transaction is never dropped -/

/-- everything the re-injection phase and the tail of a reset maintain, relative to the view-switched pool `B` and a list
    `A` containing everything that is or will be pooled -/
structure Room (B : Pool) (A : List Tx) (m : Pool) : Prop where
  inv    : LoopInv B m
  nd     : ND m
  within : Within A m

/-- the pool-capacity condition: the pool content plus the re-injected transactions fit every limit -/
structure Fits (B : Pool) (A : List Tx) : Prop where
  pos : 1 ≤ A.length
  aq  : A.length ≤ B.cfg.accountQueue
  gq  : A.length ≤ B.cfg.globalQueue
  gs  : A.length ≤ B.cfg.globalSlots

theorem Room.counts {B : Pool} {A : List Tx} {m : Pool} (h : Room B A m) (hf : Fits B A) :
    m.pendingCount ≤ m.cfg.globalSlots ∧ m.queuedCount ≤ m.cfg.globalQueue ∧
    (∀ a, (m.queue a).items.length ≤ m.cfg.accountQueue) ∧ m.all.length < m.cfg.globalSlots + m.cfg.globalQueue := by
  obtain ⟨c1, c2, c3, c4⟩ := count_le h.inv.wa.1 h.inv.wa.2 h.nd h.within
  rw [h.inv.env.cfg]
  have := hf.pos; have := hf.aq; have := hf.gq; have := hf.gs
  exact ⟨by omega, by omega, fun a => by have := c3 a; omega, by omega⟩

theorem slotEvict_id {m : Pool} (sched : List Addr) (h : m.pendingCount ≤ m.cfg.globalSlots) : m.slotEvict sched = m := by
  unfold Pool.slotEvict; rw [if_pos h]

theorem queueEvict_id {m : Pool} (order : List Addr) (h : m.queuedCount ≤ m.cfg.globalQueue) : m.queueEvict order = m := by
  unfold Pool.queueEvict; rw [if_pos h]

theorem afterDiscard_id {m : Pool} (vs : List Tx) (h : m.all.length < m.cfg.globalSlots + m.cfg.globalQueue) :
    m.afterDiscard vs = m := by
  unfold Pool.afterDiscard
  simp only
  rw [if_neg]
  simp only [decide_eq_true_eq, Nat.not_le]; exact h

/-- promoteAcct keeps a valid pooled transaction when the queue cap does not bind -/
theorem promoteAcct_keeps_cap {s : Pool} (a : Addr) {u : Tx} (hw : WeakAll s) (hp : s.pooled u) (hv : ValidIn s u)
    (hcap : (s.queue a).items.length ≤ s.cfg.accountQueue) : (s.promoteAcct a).pooled u := by
  by_cases hs : u.sender = a
  · subst hs
    have hwa := hw.1 u.sender
    have hq := paq s u.sender hwa
    have hP := (paS4_weak u.sender hw).2
    have hfs := TxL.filter_spec (paQ1 s u.sender) (s.balance u.sender) s.maxGas
    have hsub2 : ∀ t ∈ (paReady s u.sender).2, t ∈ (paQ2 s u.sender).items :=
      fun t ht => by rw [← hq.rapp]; exact List.mem_append_right _ ht
    -- the remaining queue is no longer than the queue was, so the cap cuts nothing
    have hlen : (paReady s u.sender).2.length ≤ s.cfg.accountQueue := by
      have h1 : (paReady s u.sender).2.length ≤ (s.queue u.sender).items.length := by
        apply nodup_subset_length
        · have := hq.q2sorted; rw [← hq.rapp] at this
          exact Sorted.nodup (List.Pairwise.sublist (List.sublist_append_right _ _) this)
        · intro x hx; exact (hq.q2sub x (hsub2 x hx)).1
      omega
    have hQ : ((paS5 s u.sender).queue u.sender).items = (paReady s u.sender).2 := by
      rcases (paS5_queue s u.sender).1 with e | e
      · exact e
      · rw [e, List.take_of_length_le hlen]
    rw [pooled_iff, promoteAcct_pending, promoteAcct_queue_items, hQ]
    rcases hp with h | h
    · exact Or.inl ((hP u).mpr (Or.inr h))
    · have h1 : u ∈ (paQ1 s u.sender).items := List.mem_filter.mpr ⟨h, by simp [Nat.not_lt]; exact hv.1⟩
      rcases hfs.cover u h1 with h2 | h2 | h2
      · have h2' : u ∈ (paQ2 s u.sender).items := h2
        rw [← hq.rapp] at h2'
        rcases List.mem_append.mp h2' with h3 | h3
        · exact Or.inl ((hP u).mpr (Or.inl h3))
        · exact Or.inr h3
      · have := hfs.rem_unpay u h2
        rw [unpayable_false.mpr hv.2] at this; cases this
      · rw [hfs.nonstrict hwa.qstrict] at h2; cases h2
  · exact (pooled_of_touch (promoteAcct_touch s a) hs).mpr hp

theorem promoteAcct_room {B : Pool} {A : List Tx} {m : Pool} (a : Addr) (h : Room B A m) : Room B A (m.promoteAcct a) := by
  have ht := promoteAcct_touch m a
  exact { inv := ⟨addClosed_wa.acct m a h.inv.wa, ht.locals.trans h.inv.locals, h.inv.env.trans ht.env,
                  ht.gasPrice.trans h.inv.gasPrice⟩
          nd := promoteAcct_nd a h.nd
          within := fun u hu => h.within u (promoteAcct_nonew a h.inv.wa.1 u hu) }

theorem promoteExecutables_room {B : Pool} {A : List Tx} {u : Tx} (hf : Fits B A) (hv : ValidIn B u) (m : Pool)
    (accounts : Option (List Addr)) (slots qorder : List Addr) (h : Room B A m) (hp : m.pooled u) :
    Room B A (m.promoteExecutables accounts slots qorder) ∧ (m.promoteExecutables accounts slots qorder).pooled u := by
  unfold Pool.promoteExecutables
  simp only
  have hfold : ∀ (l : List Addr) (m : Pool), Room B A m → m.pooled u →
      Room B A (l.foldl (fun s a => s.promoteAcct a) m) ∧ (l.foldl (fun s a => s.promoteAcct a) m).pooled u := by
    intro l
    induction l with
    | nil => intro m h hp; exact ⟨h, hp⟩
    | cons a rest ih =>
      intro m h hp
      simp only [List.foldl_cons]
      exact ih _ (promoteAcct_room a h)
        (promoteAcct_keeps_cap a h.inv.wa.1 hp (hv.env h.inv.env) ((h.counts hf).2.2.1 a))
  have key : ∀ (as : List Addr),
      Room B A (((as.foldl (fun s a => s.promoteAcct a) m).slotEvict slots).queueEvict qorder) ∧
      (((as.foldl (fun s a => s.promoteAcct a) m).slotEvict slots).queueEvict qorder).pooled u := by
    intro as
    obtain ⟨h1, hp1⟩ := hfold as m h hp
    generalize as.foldl (fun s a => s.promoteAcct a) m = m1 at h1 hp1 ⊢
    rw [slotEvict_id slots (h1.counts hf).1, queueEvict_id qorder (h1.counts hf).2.1]
    exact ⟨h1, hp1⟩
  cases accounts with
  | none => exact key _
  | some l => exact key _

/-- demoteAcct introduces nothing new -/
theorem demoteAcct_nonew (g : Bool) {s : Pool} (a : Addr) (hw : WeakAll s) : NoNew s (s.demoteAcct g a) := by
  have hx := demote_exact g a hw
  have hd := dfacts s a (hw.1 a)
  intro u hu
  by_cases hs : u.sender = a
  · subst hs
    rw [pooled_iff] at hu ⊢
    rw [hx.pitems, hx.qmem u] at hu
    rcases hu with h | h | h | h
    · exact Or.inl (hd.p2sub u (List.mem_of_mem_take h)).1
    · exact Or.inl (hd.p2sub u (List.mem_of_mem_drop h)).1
    · exact Or.inl (hd.invsub u h)
    · exact Or.inr h
  · exact (pooled_of_touch (demoteAcct_facts g a hw).touch hs).mp hu

theorem demoteAcct_room (g : Bool) {B : Pool} {A : List Tx} {m : Pool} (a : Addr) (h : Room B A m) :
    Room B A (m.demoteAcct g a) := by
  have hf := demoteAcct_facts g a h.inv.wa.1
  exact { inv := ⟨⟨hf.weak, demoteAcct_allok g a h.inv.wa.1 h.inv.wa.2⟩, hf.touch.locals.trans h.inv.locals,
                  h.inv.env.trans hf.touch.env, hf.touch.gasPrice.trans h.inv.gasPrice⟩
          nd := demoteAcct_nd g a h.nd
          within := fun u hu => h.within u (demoteAcct_nonew g a h.inv.wa.1 u hu) }

theorem demoteUnexecutables_room (g : Bool) {B : Pool} {A : List Tx} {u : Tx} (hv : ValidIn B u) (m : Pool) (h : Room B A m)
    (hp : m.pooled u) : Room B A (m.demoteUnexecutables g) ∧ (m.demoteUnexecutables g).pooled u := by
  unfold Pool.demoteUnexecutables
  have : ∀ (l : List Addr) (m : Pool), Room B A m → m.pooled u →
      Room B A (l.foldl (fun s a => s.demoteAcct g a) m) ∧ (l.foldl (fun s a => s.demoteAcct g a) m).pooled u := by
    intro l
    induction l with
    | nil => intro m h hp; exact ⟨h, hp⟩
    | cons a rest ih =>
      intro m h hp
      simp only [List.foldl_cons]
      exact ih _ (demoteAcct_room g a h) (demoteAcct_keeps g a h.inv.wa.1 hp (hv.env h.inv.env))
  exact this _ m h hp

theorem syncNonces_room {B : Pool} {A : List Tx} {u : Tx} (m : Pool) (h : Room B A m) (hp : m.pooled u) :
    Room B A m.syncNonces ∧ m.syncNonces.pooled u := by
  have hk := syncNonces_kept (B := B) (L := B.locals) (u := u) m ⟨h.inv.wa.1, h.inv.locals, hp, h.inv.env⟩
  obtain ⟨e1, e2, e3⟩ := syncNonces_all m
  have hgp : m.syncNonces.gasPrice = m.gasPrice := by
    rw [syncNonces_eq]
    have : ∀ (l : List Addr) (s : Pool), (l.foldl syncStep s).gasPrice = s.gasPrice := by
      intro l
      induction l with
      | nil => intro s; rfl
      | cons a rest ih => intro s; simp only [List.foldl_cons]; rw [ih]; unfold syncStep; split <;> rfl
    exact this _ _
  refine ⟨{ inv := ⟨⟨hk.weak, fun t => by rw [e1, pooled_iff, e2, e3]; exact h.inv.wa.2 t⟩, hk.locals, hk.env, hgp.trans h.inv.gasPrice⟩
            nd := syncNonces_nd h.nd
            within := fun w hw => h.within w (by rw [pooled_iff, e2, e3] at hw; exact hw) }, hk.pooled⟩

/-! ### the re-injection loop with room -/

theorem add_room {B : Pool} {A : List Tx} {m : Pool} (x : Tx) (sh : Shape) (vs : List Tx) (h : Room B A m) (hx : x ∈ A) :
    Room B A (m.add x false sh vs).2.2 := by
  obtain ⟨hinv, hsub⟩ := add_loopInv x sh vs h.inv
  exact { inv := hinv
          nd := add_pres addClosed_nd m x false sh vs h.nd
          within := fun w hw => by
            rcases hsub w hw with e | hp
            · exact e ▸ hx
            · exact h.within w hp }

/-- with room in the pool a valid transaction whose slot is free is accepted, whoever sent it -/
theorem add_enters_room {B : Pool} {A : List Tx} {m : Pool} (t : Tx) (vs : List Tx) (h : Room B A m) (hf : Fits B A)
    (hval : B.validateTx t false .wellformed = .ok)
    (hfree : ∀ p, m.pooled p → p.sender = t.sender → p.nonce ≠ t.nonce) :
    (m.add t false .wellformed vs).2.2.pooled t := by
  have hv : m.validateTx t false .wellformed = .ok := by
    rw [validate_congr h.inv.env h.inv.locals h.inv.gasPrice]; exact hval
  have hnotin : t ∉ m.all := fun hc => hfree t ((h.inv.wa.2 t).mp hc) rfl rfl
  have hroom := (h.counts hf).2.2.2
  have he := addCore_enters (s := m) t h.inv.wa.1 hfree
  have hfull : decide (m.cfg.globalSlots + m.cfg.globalQueue ≤ m.all.length) = false := by
    simp only [decide_eq_false_iff_not, Nat.not_le]; exact hroom
  rw [add_eq_core]
  rw [if_neg (fun hc => hnotin hc.2)]
  simp only [hv, ne_eq, not_true_eq_false, if_false, hfull, Bool.false_and, Bool.false_eq_true]
  exact he.2.1

theorem add_keeps_room {B : Pool} {A : List Tx} {m : Pool} {u : Tx} (x : Tx) (sh : Shape) (vs : List Tx) (h : Room B A m)
    (hf : Fits B A) (hp : m.pooled u) (hslot : SlotNe x u) : (m.add x false sh vs).2.2.pooled u := by
  have hk : Kept B B.locals u m := ⟨h.inv.wa.1, h.inv.locals, hp, h.inv.env⟩
  rcases add_cases m x false sh vs with ⟨e, _⟩ | ⟨e, _, _⟩
  · rw [e]; exact hp
  · rw [e, afterDiscard_id vs (h.counts hf).2.2.2]; exact (addCore_kept x hk hslot).pooled

theorem addMany_room {B : Pool} {A : List Tx} {u : Tx} (hf : Fits B A) (hval : B.validateTx u false .wellformed = .ok) :
    ∀ (l : List Tx) (vs : List (List Tx)) (m : Pool), Room B A m → (∀ x ∈ l, x ∈ A) → Fresh m l → l.Pairwise SlotNe →
      (u ∈ l ∨ (m.pooled u ∧ ∀ x ∈ l, SlotNe x u)) →
      Room B A (m.addMany false l vs).2.2 ∧ (m.addMany false l vs).2.2.pooled u := by
  intro l
  induction l with
  | nil =>
    intro vs m h _ _ _ hu
    rcases hu with hu | hu
    · cases hu
    · exact ⟨h, hu.1⟩
  | cons x rest ih =>
    intro vs m h hA hfresh hpw hu
    have hpw' := List.pairwise_cons.mp hpw
    have hroom' := add_room x .wellformed (vs.headD []) h (hA x List.mem_cons_self)
    have hsub := (add_loopInv x .wellformed (vs.headD []) h.inv).2
    have hfresh' : Fresh (m.add x false .wellformed (vs.headD [])).2.2 rest := by
      intro y hy p hp hs
      rcases hsub p hp with e | hp'
      · subst e; exact hpw'.1 y hy hs
      · exact hfresh y (List.mem_cons_of_mem _ hy) p hp' hs
    have hstep : (m.addMany false (x :: rest) vs).2.2 =
        ((m.add x false .wellformed (vs.headD [])).2.2.addMany false rest vs.tail).2.2 := rfl
    rw [hstep]
    apply ih vs.tail _ hroom' (fun y hy => hA y (List.mem_cons_of_mem _ hy)) hfresh' hpw'.2
    rcases hu with hu | ⟨hp, hne⟩
    · rcases List.mem_cons.mp hu with e | hu'
      · subst e
        right
        refine ⟨add_enters_room u (vs.headD []) h hf hval (hfresh u List.mem_cons_self), fun y hy => ?_⟩
        intro hs hn; exact hpw'.1 y hy hs.symm hn.symm
      · exact Or.inl hu'
    · right
      exact ⟨add_keeps_room x .wellformed (vs.headD []) h hf hp (hne x List.mem_cons_self),
             fun y hy => hne y (List.mem_cons_of_mem _ hy)⟩

/-- **the only refusal.** A well-formed transaction that validates and whose slot is free is either accepted by `add`
    (and pooled afterwards) or refused as underpriced — and the latter only when the pool is full and the transaction is
    underpriced (its sender is not local and its price does not exceed the cheapest pooled price): the code's
    `ErrUnderpriced` / discard path. -/
theorem add_refusal_only_underpriced {m : Pool} (t : Tx) (loc : Bool) (vs : List Tx) (hwa : WA m)
    (hval : m.validateTx t loc .wellformed = .ok)
    (hfree : ∀ p, m.pooled p → p.sender = t.sender → p.nonce ≠ t.nonce) :
    ((m.add t loc .wellformed vs).1 = .ok ∧ (m.add t loc .wellformed vs).2.2.pooled t) ∨
    ((m.add t loc .wellformed vs).1 = .underpriced ∧ m.cfg.globalSlots + m.cfg.globalQueue ≤ m.all.length ∧
      m.underpriced t = true) := by
  have hnotin : t ∉ m.all := fun hc => hfree t ((hwa.2 t).mp hc) rfl rfl
  obtain ⟨d1, d2, _, _, _, _⟩ := afterDiscard_facts vs hwa.1
  have hfree' : ∀ p, (m.afterDiscard vs).pooled p → p.sender = t.sender → p.nonce ≠ t.nonce :=
    fun p hp => hfree p (d2 p hp)
  -- the insertion core accepts it, for either value of `loc`
  have hcore : ((m.afterDiscard vs).addCore t loc).1 = .ok ∧ ((m.afterDiscard vs).addCore t loc).2.2.pooled t := by
    have hw1 := d1.1 t.sender
    have hfp : ∀ p ∈ ((m.afterDiscard vs).pending t.sender).items, p.nonce ≠ t.nonce := fun p hp =>
      hfree' p (by rw [pooled_iff, hw1.powner p hp]; exact Or.inl hp) (hw1.powner p hp)
    have hfq : ∀ p ∈ ((m.afterDiscard vs).queue t.sender).items, p.nonce ≠ t.nonce := fun p hp =>
      hfree' p (by rw [pooled_iff, hw1.qowner p hp]; exact Or.inr hp) (hw1.qowner p hp)
    have hov : ((m.afterDiscard vs).pending t.sender).overlaps t = false := by
      unfold TxL.overlaps; rw [getN_none.mpr hfp]; rfl
    have hx := enqueueTx_free (s := m.afterDiscard vs) (t := t) hw1.qsorted hfq
    have hf := enqueueTx_facts (m.afterDiscard vs) t
    have hins : ((m.afterDiscard vs).enqueueTx t).2.1 = true := by
      unfold Pool.enqueueTx
      simp only [TxL.add, getN_none.mpr hfq, Bool.not_true, Bool.false_eq_true, if_false]
    unfold Pool.addCore
    rw [hov]
    simp only [Bool.false_eq_true, if_false, hins, Bool.not_true]
    refine ⟨trivial, ?_⟩
    have hq : t ∈ (((m.afterDiscard vs).enqueueTx t).2.2.queue t.sender).items := (hx.1 t).mpr (Or.inl rfl)
    split
    · exact Or.inr hq
    · exact Or.inr hq
  rw [add_eq_core]
  rw [if_neg (fun hc => hnotin hc.2)]
  simp only [hval, ne_eq, not_true_eq_false, if_false]
  by_cases hfu : (decide (m.cfg.globalSlots + m.cfg.globalQueue ≤ m.all.length) && m.underpriced t) = true
  · rw [if_pos hfu]
    simp only [Bool.and_eq_true, decide_eq_true_eq] at hfu
    exact Or.inr ⟨rfl, hfu.1, hfu.2⟩
  · rw [if_neg hfu]
    exact Or.inl hcore

/-- **reorg re-injection, every sender.** After `reset` across a reorganisation within the 64-block horizon every
    transaction of `discarded \ included` that validates against the new head is in pending ∪ queue — for both demotion
    variants and every eviction oracle — when the pool has room: what is pooled plus what is re-injected fits the
    per-account queue cap, the pool-wide queue cap and the pending-slot limit (then the pool never fills up and no limit
    binds during the reset).  The dropped transactions occupy distinct slots that are free in the pool. -/
theorem reset_reinjects (g : Bool) (s : Pool) (v : View) (oldNum newNum : Nat) (disc inc : List Tx) (o : ResetOracle)
    (h : Good s) (ha : AllOK s) (hnd : ND s)
    (hdepth : (if oldNum ≤ newNum then newNum - oldNum else oldNum - newNum) ≤ 64)
    (t : Tx) (ht : t ∈ txDifference disc inc)
    (hval : ({ s with cnonce := v.nonce, balance := v.balance, maxGas := v.maxGas, pnonce := v.nonce } : Pool).validateTx t false .wellformed = .ok)
    (hfresh : Fresh s (txDifference disc inc)) (hdistinct : (txDifference disc inc).Pairwise SlotNe)
    (hroom : (s.all ++ txDifference disc inc).length ≤ s.cfg.accountQueue ∧
             (s.all ++ txDifference disc inc).length ≤ s.cfg.globalQueue ∧
             (s.all ++ txDifference disc inc).length ≤ s.cfg.globalSlots) :
    (s.reset g v oldNum newNum true disc inc o).pooled t := by
  rw [reset_eq]
  unfold Pool.resetMid
  simp only [Bool.true_and, hdepth, decide_true, if_true]
  have hne : (txDifference disc inc).isEmpty = false := by
    cases hd : txDifference disc inc with
    | nil => rw [hd] at ht; cases ht
    | cons _ _ => rfl
  rw [hne]
  simp only [Bool.false_eq_true, if_false]
  have hA : ∀ x ∈ txDifference disc inc, x ∈ s.all ++ txDifference disc inc := fun x hx => List.mem_append_right _ hx
  have hfit : Fits ({ s with cnonce := v.nonce, balance := v.balance, maxGas := v.maxGas, pnonce := v.nonce } : Pool)
      (s.all ++ txDifference disc inc) :=
    ⟨by rw [List.length_append]; have := List.length_pos_of_mem ht; omega, hroom.1, hroom.2.1, hroom.2.2⟩
  have h0 : Room ({ s with cnonce := v.nonce, balance := v.balance, maxGas := v.maxGas, pnonce := v.nonce } : Pool)
      (s.all ++ txDifference disc inc)
      ({ s with cnonce := v.nonce, balance := v.balance, maxGas := v.maxGas, pnonce := v.nonce } : Pool) :=
    { inv := ⟨⟨h.weakAll, ha⟩, rfl, SameEnv.refl _, rfl⟩, nd := hnd
      within := fun u hu => List.mem_append_left _ ((ha u).mpr hu) }
  have hfresh0 : Fresh ({ s with cnonce := v.nonce, balance := v.balance, maxGas := v.maxGas, pnonce := v.nonce } : Pool)
      (txDifference disc inc) := hfresh
  have hvalid : ValidIn ({ s with cnonce := v.nonce, balance := v.balance, maxGas := v.maxGas, pnonce := v.nonce } : Pool) t :=
    validate_ok hval
  generalize ({ s with cnonce := v.nonce, balance := v.balance, maxGas := v.maxGas, pnonce := v.nonce } : Pool) = B
    at h0 hfresh0 hval hvalid hfit ⊢
  generalize s.all ++ txDifference disc inc = A at h0 hfit hA
  obtain ⟨hr1, hp1⟩ := addMany_room hfit hval (txDifference disc inc) o.victims B h0 hA hfresh0 hdistinct (Or.inl ht)
  have hk2 : Room B A (B.addTxs (txDifference disc inc) false o.victims o.slots1 o.qorder1).2 ∧
      (B.addTxs (txDifference disc inc) false o.victims o.slots1 o.qorder1).2.pooled t := by
    unfold Pool.addTxs
    simp only
    generalize B.addMany false (txDifference disc inc) o.victims = r at hr1 hp1 ⊢
    split
    · exact ⟨hr1, hp1⟩
    · exact promoteExecutables_room hfit hvalid r.2.2 (some r.2.1.eraseDups) o.slots1 o.qorder1 hr1 hp1
  generalize (B.addTxs (txDifference disc inc) false o.victims o.slots1 o.qorder1).2 = m2 at hk2 ⊢
  have hk3 := demoteUnexecutables_room g hvalid m2 hk2.1 hk2.2
  generalize m2.demoteUnexecutables g = m3 at hk3 ⊢
  have hk4 := syncNonces_room m3 hk3.1 hk3.2
  generalize m3.syncNonces = m4 at hk4 ⊢
  exact (promoteExecutables_room hfit hvalid m4 none o.slots2 o.qorder2 hk4.1 hk4.2).2

end Aqv.TxPool

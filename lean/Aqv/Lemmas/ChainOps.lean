/-
  Aqv.Lemmas.ChainOps — `WriteBlockWithState` (extension, reorganisation, side block) and the side-chain writes preserve
  the invariant.  Everything is proved for `GInvC` (the block head may lag behind the header head, see `ChainK`); the
  statements for `InvC` (all heads equal) are corollaries.
-/
import Aqv.Lemmas.ChainK
namespace Aqv.Chain

/-! ### frame lemma: operations that leave the canonical chain alone -/

theorem invC_frame {U : Map Blk} {s s' : St} {hb : Blk} {C : List Blk} (h : InvC U s hb C)
    (hext : StoreExt s.store s'.store) (hsub : StoreExt s'.store U)
    (hgen : s'.genesis = s.genesis)
    (hcanon : ∀ n, s'.canon n = s.canon n) (hlookup : ∀ t, s'.lookup t = s.lookup t)
    (hhead : s'.head = s.head) (hhh : s'.hhead = s.hhead) (hfh : s'.fhead = s.fhead)
    (hseen : ∀ k, s.seen k = true → s'.seen k = true)
    (hclosed : ∀ k x, s'.seen k = true → U k = some x → x.number ≠ 0 → s'.seen x.parent = true)
    (hstate : ∀ k, s'.hasState k = true → s'.seen k = true)
    (hdisk : ∀ k, s'.onDisk k = true → s'.hasState k = true)
    (hrcpt : ∀ k, s'.seen k = true → s'.receipts k = true)
    (htd : ∀ k t, s'.td k = some t → ∃ x l, U k = some x ∧ Path U x l s.genesis ∧ t = s.genesis.diff + diffSum l)
    (hstd : ∀ k x, s'.store k = some x → (s'.td k).isSome = true)
    (hgs : s'.onDisk s.genesis.id = true) (hhs : s'.hasState s.head = true) :
    InvC U s' hb C :=
  { sub := hsub
    headStored := by rw [hhead]; exact hext _ _ h.headStored
    path := by rw [hgen]; exact h.path.mono hext
    canon := by intro n i; rw [hcanon, hgen]; exact h.canon n i
    lookup := by intro t l; rw [hlookup, hgen]; exact h.lookup t l
    canonSeen := by intro x hx; rw [hgen] at hx; exact hseen _ (h.canonSeen x hx)
    seenClosed := hclosed
    stateSeen := hstate
    diskState := hdisk
    seenRcpt := hrcpt
    tdIntr := by rw [hgen]; exact htd
    storeTd := hstd
    hheadEq := by rw [hhh, hhead]; exact h.hheadEq
    fheadEq := by rw [hfh, hhead]; exact h.fheadEq
    genNum := by rw [hgen]; exact h.genNum
    genTxs := by rw [hgen]; exact h.genTxs
    genState := by rw [hgen]; exact hgs
    headState := by rw [hhead]; exact hhs }

/-- adding the block `b` (a block of the universe) to the store -/
theorem storeExt_updK {U : Map Blk} {store : Map Blk} (hsub : StoreExt store U) {b : Blk} (hbU : U b.id = some b) :
    StoreExt store (upd store b.id (some b)) ∧ StoreExt (upd store b.id (some b)) U := by
  constructor
  · intro k x hx
    by_cases hk : k = b.id
    · subst hk
      have := hsub _ _ hx
      rw [hbU] at this
      cases this
      simp
    · rw [upd_other _ _ _ _ hk]; exact hx
  · intro k x hx
    by_cases hk : k = b.id
    · subst hk; simp at hx; subst hx; exact hbU
    · rw [upd_other _ _ _ _ hk] at hx; exact hsub _ _ hx

theorem storeExt_upd {U : Map Blk} {s : St} {hb : Blk} {C : List Blk} (h : InvC U s hb C) {b : Blk}
    (hbU : U b.id = some b) :
    StoreExt s.store (upd s.store b.id (some b)) ∧ StoreExt (upd s.store b.id (some b)) U :=
  storeExt_updK h.sub hbU

/-- the intrinsic total difficulty of `b`, given its parent's record -/
theorem tdIntr_childK {U : Map Blk} (W : World U) {s : St} (hsub : StoreExt s.store U)
    (htdI : ∀ k t, s.td k = some t → ∃ x l, U k = some x ∧ Path U x l s.genesis ∧ t = s.genesis.diff + diffSum l)
    {b p : Blk} (hbU : U b.id = some b) (hpar : parentOf s.store b = some p) {ptd : Nat}
    (hptd : s.td b.parent = some ptd) :
    ∃ x l, U b.id = some x ∧ Path U x l s.genesis ∧ ptd + b.diff = s.genesis.diff + diffSum l := by
  obtain ⟨p', lp, hp'U, hpp, htp⟩ := htdI _ _ hptd
  have hpU : U b.parent = some p := hsub _ _ (parentOf_some hpar).1
  rw [hpU] at hp'U; cases hp'U
  refine ⟨b, b :: lp, hbU, .cons (parentOf_mono hsub hpar) hpp, ?_⟩
  rw [diffSum_cons, htp]
  omega

theorem tdIntr_child {U : Map Blk} (W : World U) {s : St} {hb : Blk} {C : List Blk} (h : InvC U s hb C) {b p : Blk}
    (hbU : U b.id = some b) (hpar : parentOf s.store b = some p) {ptd : Nat} (hptd : s.td b.parent = some ptd) :
    ∃ x l, U b.id = some x ∧ Path U x l s.genesis ∧ ptd + b.diff = s.genesis.diff + diffSum l :=
  tdIntr_childK W h.sub h.tdIntr hbU hpar hptd

/-- the td table after `hc.WriteTd(b, ptd + b.diff)` is still intrinsic -/
theorem tdIntr_updK {U : Map Blk} (W : World U) {s : St} (hsub : StoreExt s.store U)
    (htdI : ∀ k t, s.td k = some t → ∃ x l, U k = some x ∧ Path U x l s.genesis ∧ t = s.genesis.diff + diffSum l)
    {b p : Blk} (hbU : U b.id = some b) (hpar : parentOf s.store b = some p) {ptd : Nat}
    (hptd : s.td b.parent = some ptd) :
    ∀ k t, upd s.td b.id (some (ptd + b.diff)) k = some t →
      ∃ x l, U k = some x ∧ Path U x l s.genesis ∧ t = s.genesis.diff + diffSum l := by
  intro k t hk
  by_cases hkb : k = b.id
  · subst hkb
    simp at hk
    subst hk
    exact tdIntr_childK W hsub htdI hbU hpar hptd
  · rw [upd_other _ _ _ _ hkb] at hk
    exact htdI k t hk

theorem tdIntr_upd {U : Map Blk} (W : World U) {s : St} {hb : Blk} {C : List Blk} (h : InvC U s hb C) {b p : Blk}
    (hbU : U b.id = some b) (hpar : parentOf s.store b = some p) {ptd : Nat} (hptd : s.td b.parent = some ptd) :
    ∀ k t, upd s.td b.id (some (ptd + b.diff)) k = some t →
      ∃ x l, U k = some x ∧ Path U x l s.genesis ∧ t = s.genesis.diff + diffSum l :=
  tdIntr_updK W h.sub h.tdIntr hbU hpar hptd

/-! ### what the re-insertion loop of `reorg` leaves alone -/

section fold
variable (s : St)

theorem foldr_store (l : List Blk) : (l.foldr reorgStep s).store = s.store := by
  induction l with
  | nil => rfl
  | cons x l ih => simpa [reorgStep, insertHead] using ih

theorem foldr_td (l : List Blk) : (l.foldr reorgStep s).td = s.td := by
  induction l with
  | nil => rfl
  | cons x l ih => simpa [reorgStep, insertHead] using ih

theorem foldr_receipts (l : List Blk) : (l.foldr reorgStep s).receipts = s.receipts := by
  induction l with
  | nil => rfl
  | cons x l ih => simpa [reorgStep, insertHead] using ih

theorem foldr_hasState (l : List Blk) : (l.foldr reorgStep s).hasState = s.hasState := by
  induction l with
  | nil => rfl
  | cons x l ih => simpa [reorgStep, insertHead] using ih

theorem foldr_onDisk (l : List Blk) : (l.foldr reorgStep s).onDisk = s.onDisk := by
  induction l with
  | nil => rfl
  | cons x l ih => simpa [reorgStep, insertHead] using ih

theorem foldr_seen (l : List Blk) : (l.foldr reorgStep s).seen = s.seen := by
  induction l with
  | nil => rfl
  | cons x l ih => simpa [reorgStep, insertHead] using ih

theorem foldr_genesis (l : List Blk) : (l.foldr reorgStep s).genesis = s.genesis := by
  induction l with
  | nil => rfl
  | cons x l ih => simpa [reorgStep, insertHead] using ih

theorem foldr_archive (l : List Blk) : (l.foldr reorgStep s).archive = s.archive := by
  induction l with
  | nil => rfl
  | cons x l ih => simpa [reorgStep, insertHead] using ih

theorem foldr_head_cons (x : Blk) (l : List Blk) : ((x :: l).foldr reorgStep s).head = x.id := by
  simp [reorgStep, insertHead]

end fold

section apply
variable (s : St) (O N : List Blk)

theorem reorgApply_store : (reorgApply s O N).store = s.store := foldr_store s N
theorem reorgApply_td : (reorgApply s O N).td = s.td := foldr_td s N
theorem reorgApply_receipts : (reorgApply s O N).receipts = s.receipts := foldr_receipts s N
theorem reorgApply_hasState : (reorgApply s O N).hasState = s.hasState := foldr_hasState s N
theorem reorgApply_onDisk : (reorgApply s O N).onDisk = s.onDisk := foldr_onDisk s N
theorem reorgApply_seen : (reorgApply s O N).seen = s.seen := foldr_seen s N
theorem reorgApply_genesis : (reorgApply s O N).genesis = s.genesis := foldr_genesis s N
theorem reorgApply_archive : (reorgApply s O N).archive = s.archive := foldr_archive s N

end apply

/-! ### what `reorg` computes -/

theorem walkBoth_same {store : Map Blk} {f : Nat} {o n c : Blk} {oc nc : List Blk}
    (h : walkBoth store f o n = some (c, oc, nc)) (hid : o.id = n.id) : oc = [] ∧ nc = [] := by
  cases f with
  | zero => simp [walkBoth] at h
  | succ f =>
    unfold walkBoth at h
    rw [if_pos hid] at h
    cases h
    exact ⟨rfl, rfl⟩

/-- The result of a successful `reorg old new`, with the walks it performed. -/
theorem reorg_spec {s s2 : St} {old new : Blk} (h : reorg s old new = some s2) :
    ∃ (o n c c' : Blk) (oc1 nc1 oc2 nc2 : List Blk),
      Path s.store old oc1 o ∧ o.number = min old.number new.number ∧
      Path s.store new nc1 n ∧ n.number = min old.number new.number ∧
      Path s.store o oc2 c ∧ Path s.store n nc2 c' ∧ c.id = c'.id ∧
      (o.id = n.id → oc2 = [] ∧ nc2 = []) ∧
      s2 = reorgApply s (oc1 ++ oc2) (nc1 ++ nc2) := by
  unfold reorg at h
  simp only at h
  split at h
  · cases h
  · rename_i o oc1 hr1
    split at h
    · cases h
    · rename_i n nc1 hr2
      split at h
      · cases h
      · rename_i c oc2 nc2 hw
        obtain ⟨hp1, hn1⟩ := reduce_spec _ _ _ _ _ hr1
        obtain ⟨hp2, hn2⟩ := reduce_spec _ _ _ _ _ hr2
        obtain ⟨c', hw1, hw2, hid⟩ := walkBoth_spec _ _ _ _ _ _ hw
        cases h
        exact ⟨o, n, c, c', oc1, nc1, oc2, nc2, hp1, hn1, hp2, hn2, hw1, hw2, hid, walkBoth_same hw, rfl⟩


/-! ### WriteBlockWithState -/

theorem afterTd_onDisk (s : St) (b : Blk) (ptd : Nat) :
    (∀ k, (afterTd s b ptd).onDisk k = true → s.onDisk k = true ∨ k = b.id) ∧
    (∀ k, s.onDisk k = true → (afterTd s b ptd).onDisk k = true) := by
  constructor
  · intro k hk
    simp only [afterTd] at hk
    split at hk
    · by_cases hkb : k = b.id
      · exact .inr hkb
      · rw [updB_other _ _ _ _ hkb] at hk; exact .inl hk
    · exact .inl hk
  · intro k hk
    simp only [afterTd]
    split
    · exact updB_true_of _ _ _ hk
    · exact hk

theorem afterStored_onDisk (s : St) (b : Blk) (ptd : Nat) : (afterStored s b ptd).onDisk = (afterTd s b ptd).onDisk := rfl

/-! ### writes that leave index, lookups and heads alone -/

theorem ginvC_frame {U : Map Blk} {s s' : St} {hh : Blk} {HC : List Blk} (h : GInvC U s hh HC)
    (hext : StoreExt s.store s'.store) (hsub : StoreExt s'.store U)
    (hgen : s'.genesis = s.genesis)
    (hcanon : ∀ n, s'.canon n = s.canon n) (hlookup : ∀ t, s'.lookup t = s.lookup t)
    (hhead : s'.head = s.head) (hhh : s'.hhead = s.hhead) (hfh : s'.fhead = s.fhead)
    (hseen : ∀ k, s.seen k = true → s'.seen k = true)
    (hclosed : ∀ k x, s'.seen k = true → U k = some x → x.number ≠ 0 → s'.seen x.parent = true)
    (hstate : ∀ k, s'.hasState k = true → s'.seen k = true)
    (hdisk : ∀ k, s'.onDisk k = true → s'.hasState k = true)
    (hrcpt : ∀ k, s'.seen k = true → s'.receipts k = true)
    (htd : ∀ k t, s'.td k = some t → ∃ x l, U k = some x ∧ Path U x l s.genesis ∧ t = s.genesis.diff + diffSum l)
    (hstd : ∀ k x, s'.store k = some x → (s'.td k).isSome = true)
    (hgs : s'.onDisk s.genesis.id = true) (hhs : s'.hasState s.head = true) :
    GInvC U s' hh HC :=
  { k :=
      { il := h.k.il.mono hext hsub hgen hcanon hlookup hhh
        canonSeen := by intro x hx; rw [hgen] at hx; exact hseen _ (h.k.canonSeen x hx)
        seenClosed := hclosed
        stateSeen := hstate
        diskState := hdisk
        seenRcpt := hrcpt
        tdIntr := by rw [hgen]; exact htd
        storeTd := hstd
        genState := by rw [hgen]; exact hgs }
    headOn := by rw [hgen, hhead]; exact h.headOn
    fheadOn := by rw [hgen, hfh]; exact h.fheadOn
    headState := by rw [hhead]; exact hhs }

/-- a side block: `WriteBlockWithState` of a block that does not become the head -/
theorem ginv_side {U : Map Blk} (W : World U) {s : St} {hh : Blk} {HC : List Blk} (h : GInvC U s hh HC) {b p : Blk}
    (hbU : U b.id = some b) (hpar : parentOf s.store b = some p) (hps : s.hasState b.parent = true)
    {ptd : Nat} (hptd : s.td b.parent = some ptd) : GInvC U (afterSide s b ptd) hh HC := by
  have hsub := h.k.il.idx.sub
  obtain ⟨he1, he2⟩ := storeExt_updK hsub hbU
  refine ginvC_frame h he1 he2 rfl (fun _ => rfl) (fun _ => rfl) rfl rfl rfl ?_ ?_ ?_ ?_ ?_ ?_ ?_ ?_ ?_
  · intro k hk; exact updB_true_of _ _ _ hk
  · intro k x hk hxU hx0
    simp only [afterSide, afterTd] at hk ⊢
    by_cases hkb : k = b.id
    · subst hkb
      rw [hbU] at hxU; cases hxU
      exact updB_true_of _ _ _ (h.k.stateSeen _ hps)
    · rw [updB_other _ _ _ _ hkb] at hk
      exact updB_true_of _ _ _ (h.k.seenClosed k x hk hxU hx0)
  · intro k hk
    simp only [afterSide, afterTd] at hk ⊢
    by_cases hkb : k = b.id
    · subst hkb; simp
    · rw [updB_other _ _ _ _ hkb] at hk
      exact updB_true_of _ _ _ (h.k.stateSeen k hk)
  · intro k hk
    have := (afterTd_onDisk s b ptd).1 k hk
    show updB s.hasState b.id true k = true
    rcases this with hk' | hk'
    · exact updB_true_of _ _ _ (h.k.diskState k hk')
    · subst hk'; simp
  · intro k hk
    simp only [afterSide, afterTd] at hk ⊢
    by_cases hkb : k = b.id
    · subst hkb; simp
    · rw [updB_other _ _ _ _ hkb] at hk
      exact updB_true_of _ _ _ (h.k.seenRcpt k hk)
  · exact tdIntr_updK W hsub h.k.tdIntr hbU hpar hptd
  · intro k x hx
    simp only [afterSide, afterTd] at hx ⊢
    by_cases hkb : k = b.id
    · subst hkb; simp
    · rw [upd_other _ _ _ _ hkb] at hx ⊢
      exact h.k.storeTd k x hx
  · exact (afterTd_onDisk s b ptd).2 _ h.k.genState
  · exact updB_true_of _ _ _ h.headState

/-- `WriteBlockWithoutState` -/
theorem ginv_withoutState {U : Map Blk} (W : World U) {s : St} {hh : Blk} {HC : List Blk} (h : GInvC U s hh HC)
    {b p : Blk} (hbU : U b.id = some b) (hpar : parentOf s.store b = some p) {ptd : Nat}
    (hptd : s.td b.parent = some ptd) :
    GInvC U { s with td := upd s.td b.id (some (ptd + b.diff)), store := upd s.store b.id (some b) } hh HC := by
  have hsub := h.k.il.idx.sub
  obtain ⟨he1, he2⟩ := storeExt_updK hsub hbU
  refine ginvC_frame h he1 he2 rfl (fun _ => rfl) (fun _ => rfl) rfl rfl rfl (fun _ hk => hk) h.k.seenClosed
    h.k.stateSeen h.k.diskState h.k.seenRcpt (tdIntr_updK W hsub h.k.tdIntr hbU hpar hptd) ?_ h.k.genState h.headState
  intro k x hx
  simp only at hx ⊢
  by_cases hkb : k = b.id
  · subst hkb; simp
  · rw [upd_other _ _ _ _ hkb] at hx ⊢
    exact h.k.storeTd k x hx

theorem invC_side {U : Map Blk} (W : World U) {s : St} {hb : Blk} {C : List Blk} (h : InvC U s hb C) {b p : Blk}
    (hbU : U b.id = some b) (hpar : parentOf s.store b = some p) (hps : s.hasState b.parent = true)
    {ptd : Nat} (hptd : s.td b.parent = some ptd) : InvC U (afterSide s b ptd) hb C :=
  (ginv_side W (h.toG W) hbU hpar hps hptd).toC h.hheadEq h.fheadEq

theorem invC_withoutState {U : Map Blk} (W : World U) {s : St} {hb : Blk} {C : List Blk} (h : InvC U s hb C) {b p : Blk}
    (hbU : U b.id = some b) (hpar : parentOf s.store b = some p) {ptd : Nat} (hptd : s.td b.parent = some ptd) :
    InvC U { s with td := upd s.td b.id (some (ptd + b.diff)), store := upd s.store b.id (some b) } hb C :=
  (ginv_withoutState W (h.toG W) hbU hpar hptd).toC h.hheadEq h.fheadEq

/-! ### the block becomes the head -/

/-- Re-establishing the invariant once index and lookups of the new database are known to describe a chain through the
    new block head `b` (`hI`, `hbm`): the remaining fields are those of the old database plus the records of `b`. -/
theorem ginv_assemble {U : Map Blk} (W : World U) {s s' : St} {hh : Blk} {HC : List Blk} (hG : GInvC U s hh HC)
    {b p : Blk} (hbU : U b.id = some b) (hpar : parentOf s.store b = some p) (hps : s.hasState b.parent = true)
    {ptd : Nat} (hptd : s.td b.parent = some ptd)
    (hstore : s'.store = upd s.store b.id (some b)) (hgen : s'.genesis = s.genesis)
    (htd : s'.td = upd s.td b.id (some (ptd + b.diff)))
    (hseen : s'.seen = updB s.seen b.id true) (hrc : s'.receipts = updB s.receipts b.id true)
    (hst : s'.hasState = updB s.hasState b.id true)
    (hdisk : ∀ k, s'.onDisk k = true → s.onDisk k = true ∨ k = b.id)
    (hdisk' : ∀ k, s.onDisk k = true → s'.onDisk k = true)
    (hhead : s'.head = b.id)
    {hh' : Blk} {HC' : List Blk} (hI : IdxL U s' hh' HC') (hbm : b ∈ HC' ++ [s.genesis])
    (hcase : (hh' = hh ∧ HC' = HC ∧ s'.fhead = s.fhead) ∨ (hh' = b ∧ s'.fhead = b.id)) :
    GInvC U s' hh' HC' := by
  have hK := hG.k
  have hsub := hK.il.idx.sub
  obtain ⟨hps', hpn⟩ := parentOf_some hpar
  have hpid : p.id = b.parent := W.ids _ _ (hsub _ _ hps')
  have hpU : U p.id = some p := by rw [hpid]; exact hsub _ _ hps'
  have hpseen : s.seen p.id = true := by rw [hpid]; exact hK.stateSeen _ hps
  obtain ⟨hext, hsub'⟩ := storeExt_updK hsub hbU
  have hg0 := hK.il.idx.genNum
  refine
    { k :=
        { il := hI
          canonSeen := ?_, seenClosed := ?_, stateSeen := ?_, diskState := ?_, seenRcpt := ?_, tdIntr := ?_,
          storeTd := ?_
          genState := by rw [hgen]; exact hdisk' _ hK.genState }
      headOn := ⟨b, by rw [hgen]; exact hbm, hhead⟩
      fheadOn := ?_
      headState := by rw [hhead, hst]; simp }
  · -- canonSeen
    intro x hx
    rw [hgen] at hx
    rw [hseen]
    rcases hcase with ⟨_, hC, _⟩ | ⟨hb', _⟩
    · subst hC; exact updB_true_of _ _ _ (hK.canonSeen x hx)
    · have hb'' : b = hh' := hb'.symm
      subst hb''
      have hpath : Path (upd s.store b.id (some b)) b HC' s.genesis := by
        have := hI.idx.path
        rwa [hstore, hgen] at this
      rcases hpath.head_eq with ⟨_, h2⟩ | ⟨L, hL⟩
      · rw [h2] at hpn; omega
      · subst hL
        cases hpath with
        | cons hp' hrest =>
          rename_i p'
          have hpp : p' = p := by
            have := parentOf_mono hext hpar
            rw [hp'] at this
            cases this; rfl
          subst hpp
          have hrestS : Path s.store p' L s.genesis := Path.unupd hrest (by omega)
          simp only [List.cons_append] at hx
          rcases List.mem_cons.mp hx with rfl | hx
          · simp
          · apply updB_true_of
            rcases List.mem_append.mp hx with hx | hx
            · exact seen_along W hsub hK.seenClosed hrestS hpseen hpU x hx
            · simp at hx; subst hx; exact hK.canonSeen _ (by simp)
  · -- seenClosed
    intro k x hk hxU hx0
    rw [hseen] at hk ⊢
    by_cases hkb : k = b.id
    · subst hkb
      rw [hbU] at hxU
      cases hxU
      apply updB_true_of
      exact hK.stateSeen _ hps
    · rw [updB_other _ _ _ _ hkb] at hk
      exact updB_true_of _ _ _ (hK.seenClosed k x hk hxU hx0)
  · -- stateSeen
    intro k hk
    rw [hst] at hk
    rw [hseen]
    by_cases hkb : k = b.id
    · subst hkb; simp
    · rw [updB_other _ _ _ _ hkb] at hk
      exact updB_true_of _ _ _ (hK.stateSeen k hk)
  · -- diskState
    intro k hk
    rw [hst]
    rcases hdisk k hk with hk | hk
    · exact updB_true_of _ _ _ (hK.diskState k hk)
    · subst hk; simp
  · -- seenRcpt
    intro k hk
    rw [hseen] at hk
    rw [hrc]
    by_cases hkb : k = b.id
    · subst hkb; simp
    · rw [updB_other _ _ _ _ hkb] at hk
      exact updB_true_of _ _ _ (hK.seenRcpt k hk)
  · -- tdIntr
    rw [htd, hgen]
    exact tdIntr_updK W hsub hK.tdIntr hbU hpar hptd
  · -- storeTd
    intro k x hx
    rw [htd]
    by_cases hkb : k = b.id
    · subst hkb; simp
    · rw [hstore, upd_other _ _ _ _ hkb] at hx
      rw [upd_other _ _ _ _ hkb]
      exact hK.storeTd k x hx
  · -- the fast head
    rcases hcase with ⟨_, hC, hf⟩ | ⟨hb', hf⟩
    · subst hC
      obtain ⟨fb, hfb, hfe⟩ := hG.fheadOn
      exact ⟨fb, by rw [hgen]; exact hfb, by rw [hf, hfe]⟩
    · exact ⟨b, by rw [hgen]; exact hbm, hf⟩

/-- what the canonical branch of `WriteBlockWithState` establishes: the invariant, the block head on `b`, and either
    `b` was on the indexed chain already (only the block head moved) or all three heads are `b` now -/
def CanonOutcome (U : Map Blk) (s s' : St) (HC : List Blk) (b : Blk) : Prop :=
  GInv U s' ∧ s'.head = b.id ∧
    ((b ∈ HC ++ [s.genesis] ∧ s'.hhead = s.hhead ∧ s'.fhead = s.fhead) ∨
     (b ∉ HC ++ [s.genesis] ∧ s'.hhead = b.id ∧ s'.fhead = b.id))

/-- extension of the block head: `b.parent = head` -/
theorem ginv_ext {U : Map Blk} (W : World U) {s : St} {hh : Blk} {HC : List Blk} (hG : GInvC U s hh HC) {b p : Blk}
    (hbU : U b.id = some b) (hpar : parentOf s.store b = some p) (hps : s.hasState b.parent = true)
    {ptd : Nat} (hptd : s.td b.parent = some ptd) (hext : b.parent = s.head) :
    CanonOutcome U s (afterCanon (afterTd s b ptd) b) HC b := by
  have hsub := hG.k.il.idx.sub
  obtain ⟨he1, he2⟩ := storeExt_updK hsub hbU
  obtain ⟨cb, hcbm, hcbid, hcbs⟩ := hG.headStored W
  have hpcb : p = cb := by
    have h1 := (parentOf_some hpar).1
    rw [hext, hcbs] at h1
    cases h1; rfl
  subst hpcb
  -- the database with the records of `b`, before the lookups are written and `insert` is called
  let sB : St := { afterTd s b ptd with
    store := upd s.store b.id (some b)
    receipts := updB s.receipts b.id true
    seen := updB s.seen b.id true }
  have hIB : IdxL U sB hh HC := hG.k.il.mono he1 he2 rfl (fun _ => rfl) (fun _ => rfl) rfl
  have hrw : afterCanon (afterTd s b ptd) b = insertHead { sB with lookup := writeLookups sB.lookup b } b := rfl
  have hstep := idxL_insert_after_write W hIB (x := b) (p := p) (by show upd s.store b.id (some b) b.id = some b; simp)
    (parentOf_mono he1 hpar) hcbm
  rw [hrw]
  have hdata : ∀ {hh' : Blk} {HC' : List Blk},
      IdxL U (insertHead { sB with lookup := writeLookups sB.lookup b } b) hh' HC' → b ∈ HC' ++ [s.genesis] →
      ((hh' = hh ∧ HC' = HC ∧ (insertHead { sB with lookup := writeLookups sB.lookup b } b).fhead = s.fhead) ∨
        (hh' = b ∧ (insertHead { sB with lookup := writeLookups sB.lookup b } b).fhead = b.id)) →
      GInvC U (insertHead { sB with lookup := writeLookups sB.lookup b } b) hh' HC' := by
    intro hh' HC' hI hbm hcase
    exact ginv_assemble W hG (s' := insertHead { sB with lookup := writeLookups sB.lookup b } b) hbU hpar hps hptd
      rfl rfl rfl rfl rfl rfl
      (fun k hk => (afterTd_onDisk s b ptd).1 k hk) (fun k hk => (afterTd_onDisk s b ptd).2 k hk) rfl hI hbm hcase
  by_cases hbm : b ∈ HC ++ [s.genesis]
  · obtain ⟨hI, hf⟩ := hstep.1 hbm
    exact ⟨⟨hh, HC, hdata hI hbm (.inl ⟨rfl, rfl, hf⟩)⟩, rfl, .inl ⟨hbm, by rw [hI.hhead, hG.k.il.hhead], hf⟩⟩
  · obtain ⟨O, R, _, _, hI, hf⟩ := hstep.2 hbm
    exact ⟨⟨b, b :: R, hdata hI (by simp) (.inr ⟨rfl, hf⟩)⟩, rfl, .inr ⟨hbm, hI.hhead, hf⟩⟩

/-- `WriteBlockWithState` after `reorg`: the block is indexed by then, so `insert` only moves the block head -/
theorem afterCanon_indexed (sF : St) (L : Map Loc) (b : Blk) (hc : sF.canon b.number = some b.id) :
    afterCanon { sF with lookup := L } b =
      { sF with
        store := upd sF.store b.id (some b)
        receipts := updB sF.receipts b.id true
        lookup := writeLookups L b
        seen := updB sF.seen b.id true
        head := b.id } := by
  unfold afterCanon
  rw [insertHead_same (by exact hc)]

/-- the end of the reorganisation branch: `sF` is the database after the re-insertion loop, `L` its lookups after the
    deletion of `deleted \ added` (which by then changes nothing) -/
theorem ginv_reorg_final {U : Map Blk} (W : World U) {s : St} {hh : Blk} {HC : List Blk} (hG : GInvC U s hh HC)
    {b p : Blk} (hbU : U b.id = some b) (hpar : parentOf s.store b = some p) (hps : s.hasState b.parent = true)
    {ptd : Nat} (hptd : s.td b.parent = some ptd) (sF : St)
    (hst : sF.store = upd s.store b.id (some b)) (hgen : sF.genesis = s.genesis)
    (htd : sF.td = upd s.td b.id (some (ptd + b.diff))) (hseen : sF.seen = s.seen)
    (hrc : sF.receipts = updB s.receipts b.id true) (hhs : sF.hasState = updB s.hasState b.id true)
    (hod : sF.onDisk = (afterTd s b ptd).onDisk)
    {hh' : Blk} {HC' : List Blk} (hI : IdxL U sF hh' HC') (hbm : b ∈ HC' ++ [s.genesis]) (L : Map Loc)
    (hL : ∀ t, L t = sF.lookup t)
    (hcase : (hh' = hh ∧ HC' = HC ∧ sF.fhead = s.fhead) ∨ (hh' = b ∧ sF.fhead = b.id)) :
    GInvC U (afterCanon { sF with lookup := L } b) hh' HC' ∧
      (afterCanon { sF with lookup := L } b).hhead = sF.hhead ∧
      (afterCanon { sF with lookup := L } b).fhead = sF.fhead ∧
      (afterCanon { sF with lookup := L } b).head = b.id := by
  have hsub := hG.k.il.idx.sub
  obtain ⟨he1, he2⟩ := storeExt_updK hsub hbU
  have hbm' : b ∈ HC' ++ [sF.genesis] := by rw [hgen]; exact hbm
  have hbst : sF.store b.id = some b := by rw [hst]; simp
  have hcb' : sF.canon b.number = some b.id := (hI.idx.canon_iff_mem W hbst).mpr hbm'
  have hhU : U hh'.id = some hh' := hI.idx.sub _ _ hI.idx.headStored
  rw [afterCanon_indexed sF L b hcb']
  refine ⟨?_, rfl, rfl, rfl⟩
  have hI' : IdxL U
      { sF with
        store := upd sF.store b.id (some b)
        receipts := updB sF.receipts b.id true
        lookup := writeLookups L b
        seen := updB sF.seen b.id true
        head := b.id } hh' HC' := by
    refine hI.mono ?_ ?_ rfl (fun _ => rfl) ?_ rfl
    · intro k x hx
      show upd sF.store b.id (some b) k = some x
      by_cases hk : k = b.id
      · subst hk; rw [hbst] at hx; cases hx; simp
      · rw [upd_other _ _ _ _ hk]; exact hx
    · intro k x hx
      have hx' : upd sF.store b.id (some b) k = some x := hx
      rw [hst, upd_upd_same] at hx'
      exact he2 _ _ hx'
    · intro t
      show writeLookups L b t = sF.lookup t
      by_cases htb : t ∈ b.txs
      · obtain ⟨j, hj⟩ := List.mem_iff_getElem?.mp htb
        have hbC : b ∈ HC' := by
          rcases List.mem_append.mp hbm' with h | h
          · exact h
          · simp at h; rw [h, hI.genTxs] at htb; simp at htb
        rw [writeLookups_mem _ _ _ _ (W.txs_nodup hhU (hI.idx.path.mono hI.idx.sub) hbC) hj]
        exact ((hI.lookup t ⟨b.id, b.number, j⟩).mpr ⟨b, hbm', rfl, rfl, hj⟩).symm
      · rw [writeLookups_not_mem _ _ _ htb, hL]
  exact ginv_assemble W hG
    (s' := { sF with
        store := upd sF.store b.id (some b)
        receipts := updB sF.receipts b.id true
        lookup := writeLookups L b
        seen := updB sF.seen b.id true
        head := b.id }) hbU hpar hps hptd
    (by show upd sF.store b.id (some b) = _; rw [hst, upd_upd_same])
    hgen htd
    (by show updB sF.seen b.id true = _; rw [hseen])
    (by show updB sF.receipts b.id true = _; rw [hrc, updB_updB_same])
    hhs
    (fun k hk => (afterTd_onDisk s b ptd).1 k (by rw [← hod]; exact hk))
    (fun k hk => by show sF.onDisk k = true; rw [hod]; exact (afterTd_onDisk s b ptd).2 k hk)
    rfl hI' hbm hcase

/-- reorganisation from the block head `cb` onto `b` (`b.parent ≠ head`, total difficulty at least the head's) -/
theorem ginv_reorg {U : Map Blk} (W : World U) {s : St} {hh : Blk} {HC : List Blk} (hG : GInvC U s hh HC) {b p cb : Blk}
    (hbU : U b.id = some b) (hpar : parentOf s.store b = some p) (hps : s.hasState b.parent = true)
    {ptd : Nat} (hptd : s.td b.parent = some ptd) (hcb : s.store s.head = some cb)
    {lt : Nat} (hlt : s.td s.head = some lt) (hge : lt ≤ ptd + b.diff)
    {s2 : St} (hr : reorg (afterStored s b ptd) cb b = some s2) :
    CanonOutcome U s (afterCanon s2 b) HC b := by
  have hK := hG.k
  have hIs := hK.il
  have hsub := hIs.idx.sub
  have hids := hIs.idx.storeIds W
  obtain ⟨he1, he2⟩ := storeExt_updK hsub hbU
  obtain ⟨cb', hcbm, hcbid, hcbs⟩ := hG.headStored W
  have hcbe : cb' = cb := by rw [hcb] at hcbs; cases hcbs; rfl
  subst hcbe
  obtain ⟨hps', hpn⟩ := parentOf_some hpar
  have hpid : p.id = b.parent := hids _ _ hps'
  have hcbU : U cb'.id = some cb' := hsub _ _ (by rw [← hcbid]; exact hcb)
  obtain ⟨o, n, c, c', oc1, nc1, oc2, nc2, hp1', ho, hp2', hn, hw1', hw2', hid, hsame, hs2⟩ := reorg_spec hr
  -- the database the walks and the re-insertion loop run on
  have hI1 : IdxL U (afterStored s b ptd) hh HC := hIs.mono he1 he2 rfl (fun _ => rfl) (fun _ => rfl) rfl
  have hbs1 : (afterStored s b ptd).store b.id = some b := by
    show upd s.store b.id (some b) b.id = some b; simp
  -- the old side of the fork lies on the indexed chain
  obtain ⟨hp1, hom⟩ := hIs.idx.path_from_mem hcbm he1 hp1'
  obtain ⟨hO, hcm⟩ := hIs.idx.path_from_mem hcbm he1 (hp1'.append hw1')
  have hcs := hIs.idx.chainStored W c hcm
  have hcU : U c.id = some c := hsub _ _ hcs
  have hN' : Path (afterStored s b ptd).store b (nc1 ++ nc2) c' := hp2'.append hw2'
  have hcc : c' = c := by
    by_cases hNe : nc1 ++ nc2 = []
    · rw [hNe] at hN'
      cases hN'
      rw [← hid, hcU] at hbU
      cases hbU; rfl
    · obtain ⟨w, hw⟩ := hN'.end_stored hNe
      have hwU := he2 _ _ hw
      have := W.ids _ _ hwU
      rw [← this, ← hid, hcU] at hwU
      cases hwU; rfl
  subst hcc
  subst hs2
  obtain ⟨hfst, hfgen, hfA, hfB⟩ := idxL_fold W hI1 (nc1 ++ nc2) b c' hbs1 hN' hcm
  generalize hsF : (nc1 ++ nc2).foldr reorgStep (afterStored s b ptd) = sF at hfst hfgen hfA hfB
  have hrA : reorgApply (afterStored s b ptd) (oc1 ++ oc2) (nc1 ++ nc2) =
      { sF with lookup := (delLookups sF.lookup
          (txDifference ((oc1 ++ oc2).flatMap (·.txs)) ((nc1 ++ nc2).flatMap (·.txs)))) } := by
    rw [← hsF]; rfl
  rw [hrA]
  have hfd : sF.td = upd s.td b.id (some (ptd + b.diff)) := by rw [← hsF, foldr_td]; rfl
  have hfs : sF.seen = s.seen := by rw [← hsF, foldr_seen]; rfl
  have hfr : sF.receipts = updB s.receipts b.id true := by rw [← hsF, foldr_receipts]; rfl
  have hfh : sF.hasState = updB s.hasState b.id true := by rw [← hsF, foldr_hasState]; rfl
  have hfo : sF.onDisk = (afterTd s b ptd).onDisk := by rw [← hsF, foldr_onDisk]; rfl
  have hdl : (∀ t, t ∈ txDifference ((oc1 ++ oc2).flatMap (·.txs)) ((nc1 ++ nc2).flatMap (·.txs)) → sF.lookup t = none) →
      ∀ t, delLookups sF.lookup (txDifference ((oc1 ++ oc2).flatMap (·.txs)) ((nc1 ++ nc2).flatMap (·.txs))) t =
        sF.lookup t := by
    intro hdel t
    rw [delLookups_apply]
    split
    · rename_i hmem; exact (hdel t hmem).symm
    · rfl
  by_cases hbm : b ∈ HC ++ [s.genesis]
  · -- `b` lies on the indexed chain (which is ahead of the block head): nothing is displaced
    obtain ⟨hIf, hff⟩ := hfA hbm
    have hOnil : oc1 ++ oc2 = [] := by
      obtain ⟨hp2, hnm⟩ := hIs.idx.path_from_mem hbm he1 hp2'
      have hon : o = n := hIs.idx.chainNumInj o hom n hnm (by rw [ho, hn])
      obtain ⟨h1, h2⟩ := hsame (by rw [hon])
      rw [h1]
      simp only [List.append_nil]
      by_cases hle : cb'.number ≤ b.number
      · have := hp1.number
        have hmin : min cb'.number b.number = cb'.number := Nat.min_eq_left hle
        rw [hmin] at ho
        cases oc1 with
        | nil => rfl
        | cons a l => simp at this; omega
      · -- `b` would be a proper ancestor of the block head, hence strictly lighter
        exfalso
        have hmin : min cb'.number b.number = b.number := Nat.min_eq_right (by omega)
        rw [hmin] at hn
        have hnc1 : nc1 = [] := by
          have := hp2.number
          cases nc1 with
          | nil => rfl
          | cons a l => simp at this; omega
        have hnb : b = n := by
          rw [hnc1] at hp2
          cases hp2
          rfl
        rw [hon, ← hnb] at hp1
        have hne : oc1 ≠ [] := by
          intro h0
          rw [h0] at hp1
          have := hp1.number
          simp at this
          omega
        have hbs : s.store b.id = some b := hIs.idx.chainStored W b hbm
        obtain ⟨tb, htb⟩ := Option.isSome_iff_exists.mp (hK.storeTd _ _ hbs)
        have h1' := td_child_eq W hK.tdIntr hbU (parentOf_mono hsub hpar) htb (by rw [hpid]; exact hptd)
        have h2' := td_lt_of_path W hK.tdIntr hcbU hbU (hp1.mono hsub) hne (by rw [← hcbid]; exact hlt) htb
        omega
    have hdel : ∀ t, t ∈ txDifference ((oc1 ++ oc2).flatMap (·.txs)) ((nc1 ++ nc2).flatMap (·.txs)) →
        sF.lookup t = none := by
      intro t ht
      rw [hOnil] at ht
      simp [txDifference] at ht
    obtain ⟨hG', hh1, hf1, hd1⟩ := ginv_reorg_final W hG hbU hpar hps hptd sF hfst hfgen hfd hfs hfr hfh hfo hIf hbm _
      (hdl hdel) (.inl ⟨rfl, rfl, by rw [hff]; rfl⟩)
    exact ⟨⟨hh, HC, hG'⟩, hd1, .inl ⟨hbm, by rw [hh1, hIf.hhead, hIs.hhead], by rw [hf1, hff]; rfl⟩⟩
  · -- the index switches to the chain of `b`
    obtain ⟨Oc, R, hsplit, hR, hIf, hff⟩ := hfB hbm
    have hRU : Path U c' R s.genesis := hR.mono he2
    have hORU : Path U cb' ((oc1 ++ oc2) ++ R) s.genesis := (hO.mono hsub).append hRU
    have hbm2 : b ∈ (nc1 ++ nc2 ++ R) ++ [s.genesis] := by
      have : b ∈ (nc1 ++ nc2 ++ R) ++ [sF.genesis] := hIf.idx.headMem
      rwa [hfgen] at this
    have hdel : ∀ t, t ∈ txDifference ((oc1 ++ oc2).flatMap (·.txs)) ((nc1 ++ nc2).flatMap (·.txs)) →
        sF.lookup t = none := by
      intro t ht
      rw [mem_txDifference] at ht
      obtain ⟨htO, htN⟩ := ht
      obtain ⟨y0, hy0, hty0⟩ := List.mem_flatMap.mp htO
      cases hl : sF.lookup t with
      | none => rfl
      | some l =>
        exfalso
        obtain ⟨y, hy, _, _, hyt⟩ := (hIf.lookup t l).mp hl
        have hty := mem_txs_of_getElem? hyt
        rcases List.mem_append.mp hy with hy | hy
        · rcases List.mem_append.mp hy with hy | hy
          · exact htN (List.mem_flatMap.mpr ⟨y, hy, hty⟩)
          · exact W.disjoint hcbU hORU hy0 hy hty0 hty
        · simp at hy
          rw [hy, hIf.genTxs] at hty
          simp at hty
    obtain ⟨hG', hh1, hf1, hd1⟩ := ginv_reorg_final W hG hbU hpar hps hptd sF hfst hfgen hfd hfs hfr hfh hfo hIf hbm2 _
      (hdl hdel) (.inr ⟨rfl, hff⟩)
    exact ⟨⟨b, nc1 ++ nc2 ++ R, hG'⟩, hd1, .inr ⟨hbm, by rw [hh1, hIf.hhead], by rw [hf1, hff]⟩⟩

theorem decideReorg_ge {e l bn hn : Nat} {coin : Bool} (h : decideReorg e l bn hn coin = true) : l ≤ e := by
  unfold decideReorg at h
  simp only [Bool.or_eq_true, Bool.and_eq_true, decide_eq_true_eq, beq_iff_eq] at h
  omega

theorem decideReorg_false_le {e l bn hn : Nat} {coin : Bool} (h : decideReorg e l bn hn coin = false) : e ≤ l := by
  unfold decideReorg at h
  simp only [Bool.or_eq_false_iff, decide_eq_false_iff_not] at h
  omega

/-! ### insertChain2 -/

theorem headerCheck_none {store : Map Blk} {b : Blk} (h : headerCheck store b = none) :
    ∃ p, parentOf store b = some p := by
  unfold headerCheck at h
  cases hp : parentOf store b with
  | none => rw [hp] at h; cases h
  | some p => exact ⟨p, rfl⟩

/-- the possible outcomes of `WriteBlockWithState`, with the reason for the extension branch -/
theorem wbws_cases' (s : St) (b : Blk) (coin : Bool) :
    (∃ e, writeBlockWithState s b coin = ⟨s, some e⟩ ∧ e ≠ .reorgFail) ∨
    (∃ ptd cur, s.td b.parent = some ptd ∧ s.store s.head = some cur ∧ reorg (afterStored s b ptd) cur b = none ∧
      writeBlockWithState s b coin = ⟨afterStored s b ptd, some .reorgFail⟩) ∨
    (∃ ptd s2 cur localTd, s.td b.parent = some ptd ∧ s.store s.head = some cur ∧ s.td s.head = some localTd ∧
      decideReorg (ptd + b.diff) localTd b.number cur.number coin = true ∧
      ((s2 = afterTd s b ptd ∧ b.parent = cur.id) ∨ reorg (afterStored s b ptd) cur b = some s2) ∧
      writeBlockWithState s b coin = ⟨afterCanon s2 b, none⟩) ∨
    (∃ ptd cur localTd, s.td b.parent = some ptd ∧ s.store s.head = some cur ∧ s.td s.head = some localTd ∧
      decideReorg (ptd + b.diff) localTd b.number cur.number coin = false ∧
      writeBlockWithState s b coin = ⟨afterSide s b ptd, none⟩) := by
  unfold writeBlockWithState
  cases hptd : s.td b.parent with
  | none => exact .inl ⟨_, rfl, by simp⟩
  | some ptd =>
    simp only
    cases hh : s.store s.head with
    | none => exact .inl ⟨_, rfl, by simp⟩
    | some cur =>
      cases hl : s.td s.head with
      | none => exact .inl ⟨_, rfl, by simp⟩
      | some localTd =>
        simp only
        cases hdec : decideReorg (ptd + b.diff) localTd b.number cur.number coin with
        | false =>
          simp only [Bool.false_eq_true, if_false]
          exact .inr (.inr (.inr ⟨ptd, cur, localTd, rfl, rfl, rfl, hdec, rfl⟩))
        | true =>
          simp only [if_true]
          by_cases hext : (b.parent != cur.id) = true
          · simp only [hext, if_true]
            cases hr : reorg (afterStored s b ptd) cur b with
            | none => exact .inr (.inl ⟨ptd, cur, rfl, rfl, hr, rfl⟩)
            | some s2 => exact .inr (.inr (.inl ⟨ptd, s2, cur, localTd, rfl, rfl, rfl, hdec, .inr hr, rfl⟩))
          · simp only [hext]
            have hpe : b.parent = cur.id := by simpa using hext
            exact .inr (.inr (.inl ⟨ptd, _, cur, localTd, rfl, rfl, rfl, hdec, .inl ⟨rfl, hpe⟩, rfl⟩))

/-- the possible outcomes of `WriteBlockWithState` -/
theorem wbws_cases (s : St) (b : Blk) (coin : Bool) :
    (∃ e, writeBlockWithState s b coin = ⟨s, some e⟩ ∧ e ≠ .reorgFail) ∨
    (∃ ptd cur, s.td b.parent = some ptd ∧ s.store s.head = some cur ∧ reorg (afterStored s b ptd) cur b = none ∧
      writeBlockWithState s b coin = ⟨afterStored s b ptd, some .reorgFail⟩) ∨
    (∃ ptd s2 cur localTd, s.td b.parent = some ptd ∧ s.store s.head = some cur ∧ s.td s.head = some localTd ∧
      decideReorg (ptd + b.diff) localTd b.number cur.number coin = true ∧
      (s2 = afterTd s b ptd ∨ reorg (afterStored s b ptd) cur b = some s2) ∧
      writeBlockWithState s b coin = ⟨afterCanon s2 b, none⟩) ∨
    (∃ ptd cur localTd, s.td b.parent = some ptd ∧ s.store s.head = some cur ∧ s.td s.head = some localTd ∧
      decideReorg (ptd + b.diff) localTd b.number cur.number coin = false ∧
      writeBlockWithState s b coin = ⟨afterSide s b ptd, none⟩) := by
  rcases wbws_cases' s b coin with h | h | ⟨ptd, s2, cur, lt, h1, h2, h3, h4, h5, h6⟩ | h
  · exact .inl h
  · exact .inr (.inl h)
  · refine .inr (.inr (.inl ⟨ptd, s2, cur, lt, h1, h2, h3, h4, ?_, h6⟩))
    rcases h5 with ⟨h5, _⟩ | h5
    · exact .inl h5
    · exact .inr h5
  · exact .inr (.inr (.inr h))

/-- the canonical branch of `WriteBlockWithState`, whatever way it is reached -/
theorem ginv_canon {U : Map Blk} (W : World U) {s : St} {hh : Blk} {HC : List Blk} (hG : GInvC U s hh HC) {b p cur : Blk}
    (hbU : U b.id = some b) (hpar : parentOf s.store b = some p) (hps : s.hasState b.parent = true)
    {ptd lt : Nat} (hptd : s.td b.parent = some ptd) (hcur : s.store s.head = some cur) (hlt : s.td s.head = some lt)
    {coin : Bool} (hdec : decideReorg (ptd + b.diff) lt b.number cur.number coin = true) {s2 : St}
    (hs2 : (s2 = afterTd s b ptd ∧ b.parent = cur.id) ∨ reorg (afterStored s b ptd) cur b = some s2) :
    CanonOutcome U s (afterCanon s2 b) HC b := by
  rcases hs2 with ⟨hs2, hpe⟩ | hr
  · subst hs2
    have hcid : cur.id = s.head := W.ids _ _ (hG.k.il.idx.sub _ _ hcur)
    exact ginv_ext W hG hbU hpar hps hptd (by rw [hpe, hcid])
  · exact ginv_reorg W hG hbU hpar hps hptd hcur hlt (decideReorg_ge hdec) hr

/-- `WriteBlockWithState` preserves the invariant, also when the block head lags behind the header head (unless `reorg`
    fails on a broken ancestry, see `reorg_ok_of_closed`) -/
theorem ginv_wbws {U : Map Blk} (W : World U) {s : St} (h : GInv U s) {b p : Blk} (hbU : U b.id = some b)
    (hpar : parentOf s.store b = some p) (hps : s.hasState b.parent = true) (coin : Bool)
    (hok : (writeBlockWithState s b coin).err ≠ some .reorgFail) : GInv U (writeBlockWithState s b coin).st := by
  obtain ⟨hh, HC, hG⟩ := h
  rcases wbws_cases' s b coin with ⟨e, he, _⟩ | ⟨ptd, _, _, _, _, he⟩ | ⟨ptd, s2, cur, lt, hptd, hcur, hlt, hdec, hs2, he⟩ |
    ⟨ptd, cur, lt, hptd, _, _, _, he⟩
  · rw [he]; exact ⟨hh, HC, hG⟩
  · rw [he] at hok; exact absurd rfl hok
  · rw [he]; exact (ginv_canon W hG hbU hpar hps hptd hcur hlt hdec hs2).1
  · rw [he]; exact ⟨hh, HC, ginv_side W hG hbU hpar hps hptd⟩

/-- `WriteBlockWithState` preserves the invariant (unless `reorg` fails on a broken ancestry, see `reorg_ok_of_closed`). -/
theorem inv_wbws {U : Map Blk} (W : World U) {s : St} (h : Inv U s) {b p : Blk} (hbU : U b.id = some b)
    (hpar : parentOf s.store b = some p) (hps : s.hasState b.parent = true) (coin : Bool)
    (hok : (writeBlockWithState s b coin).err ≠ some .reorgFail) : Inv U (writeBlockWithState s b coin).st := by
  obtain ⟨hb, C, h⟩ := h
  rcases wbws_cases' s b coin with ⟨e, he, _⟩ | ⟨ptd, _, _, _, _, he⟩ | ⟨ptd, s2, cur, lt, hptd, hcur, hlt, hdec, hs2, he⟩ |
    ⟨ptd, cur, lt, hptd, _, _, _, he⟩
  · rw [he]; exact ⟨hb, C, h⟩
  · rw [he] at hok; exact absurd rfl hok
  · rw [he]
    obtain ⟨⟨hh', HC', hG'⟩, hhead, hcase⟩ := ginv_canon W (h.toG W) hbU hpar hps hptd hcur hlt hdec hs2
    have hcurb : cur = hb := by rw [h.headStored] at hcur; cases hcur; rfl
    subst hcurb
    rcases hcase with ⟨hbm, hhh, hfh⟩ | ⟨_, hhh, hfh⟩
    · -- a block of the canonical chain at least as heavy as the head is the head
      have hbh : b = cur := by
        apply Classical.byContradiction
        intro hne'
        have hbs := h.chainStored W b hbm
        obtain ⟨tb, htb⟩ := Option.isSome_iff_exists.mp (h.storeTd _ _ hbs)
        have hth : s.td cur.id = some lt := by rw [h.headId W]; exact hlt
        have hpid : p.id = b.parent := W.ids _ _ (h.sub _ _ (parentOf_some hpar).1)
        have h1 := h.tdParent W hbU (parentOf_mono h.sub hpar) htb (by rw [hpid]; exact hptd)
        have h2 := h.tdStrict W hbm hne' htb hth
        have := decideReorg_ge hdec
        omega
      subst hbh
      exact ⟨hh', HC', hG'.toC (by rw [hhh, hhead, h.hheadEq, h.headId W]) (by rw [hfh, hhead, h.fheadEq, h.headId W])⟩
    · exact ⟨hh', HC', hG'.toC (by rw [hhh, hhead]) (by rw [hfh, hhead])⟩
  · rw [he]; exact ⟨hb, C, invC_side W h hbU hpar hps hptd⟩

theorem wbws_hasState (s : St) (b : Blk) (coin : Bool) (h : (writeBlockWithState s b coin).err = none) :
    (writeBlockWithState s b coin).st.hasState b.id = true := by
  rcases wbws_cases s b coin with ⟨e, he, _⟩ | ⟨ptd, _, _, _, _, he⟩ | ⟨ptd, s2, cur, lt, _, _, _, _, hs2, he⟩ | ⟨ptd, cur, lt, _, _, _, _, he⟩
  · rw [he] at h; cases h
  · rw [he] at h; cases h
  · rw [he]
    simp only [afterCanon, insertHead]
    rcases hs2 with hs2 | hr
    · subst hs2; simp [afterTd]
    · obtain ⟨o, n, c, c', oc1, nc1, oc2, nc2, _, _, _, _, _, _, _, _, hs2⟩ := reorg_spec hr
      rw [hs2, reorgApply_hasState]
      simp [afterStored, afterTd]
  · rw [he]; simp [afterSide, afterTd]

/-- the store only grows in `WriteBlockWithState` -/
theorem wbws_storeExtK {U : Map Blk} {s : St} (hsub : StoreExt s.store U) {b : Blk} (hbU : U b.id = some b) (coin : Bool) :
    StoreExt s.store (writeBlockWithState s b coin).st.store := by
  have hup := (storeExt_updK hsub hbU).1
  rcases wbws_cases s b coin with ⟨e, he, _⟩ | ⟨ptd, _, _, _, _, he⟩ | ⟨ptd, s2, cur, lt, _, _, _, _, hs2, he⟩ | ⟨ptd, cur, lt, _, _, _, _, he⟩
  · rw [he]; exact fun _ _ hx => hx
  · rw [he]; exact hup
  · rw [he]
    simp only [afterCanon, insertHead]
    rcases hs2 with hs2 | hr
    · subst hs2; exact hup
    · obtain ⟨o, n, c, c', oc1, nc1, oc2, nc2, _, _, _, _, _, _, _, _, hs2⟩ := reorg_spec hr
      rw [hs2, reorgApply_store]
      simpa [afterStored] using hup
  · rw [he]; exact hup

theorem wbws_storeExt {U : Map Blk} {s : St} (h : Inv U s) {b : Blk} (hbU : U b.id = some b) (coin : Bool) :
    StoreExt s.store (writeBlockWithState s b coin).st.store := by
  obtain ⟨hb, C, h⟩ := h
  exact wbws_storeExtK h.sub hbU coin

theorem processWinners_cons_err {s : St} {w : Blk} {l : List Blk} {coins : List Bool} {e : Err}
    (h : (processWinners s l coins).err = some e) : processWinners s (w :: l) coins = processWinners s l coins := by
  rw [processWinners]; simp only [h]

theorem processWinners_cons_hc {s : St} {w : Blk} {l : List Blk} {coins : List Bool} {e : Err}
    (h : (processWinners s l coins).err = none) (hc : headerCheck (processWinners s l coins).st.store w = some e) :
    processWinners s (w :: l) coins = ⟨(processWinners s l coins).st, some e⟩ := by
  rw [processWinners]; simp only [h, hc]

theorem processWinners_cons_ok {s : St} {w : Blk} {l : List Blk} {coins : List Bool}
    (h : (processWinners s l coins).err = none) (hc : headerCheck (processWinners s l coins).st.store w = none) :
    processWinners s (w :: l) coins =
      writeBlockWithState (processWinners s l coins).st w ((coins.drop l.length).headD false) := by
  rw [processWinners]; simp only [h, hc]

end Aqv.Chain

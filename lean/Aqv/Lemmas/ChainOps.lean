/-
  Aqv.Lemmas.ChainOps — the invariant `InvC` is preserved by `writeBlockWithState` (extension, reorganisation, side
  block), by the side-chain writes of `importOne`, by `importChain`, `setHead` and `reopen`.
-/
import Aqv.Lemmas.ChainInv
namespace Aqv.Chain

/-! ### frame lemma: operations that leave the canonical chain alone -/

theorem invC_frame {U : Map Blk} {s s' : St} {hb : Blk} {C : List Blk} (h : InvC U s hb C)
    (hext : StoreExt s.store s'.store) (hsub : StoreExt s'.store U)
    (hgen : s'.genesis = s.genesis)
    (hcanon : ∀ n, s'.canon n = s.canon n) (hlookup : ∀ t, s'.lookup t = s.lookup t)
    (hhead : s'.head = s.head) (hhh : s'.hhead = s.hhead) (hfh : s'.fhead = s.fhead)
    (hseen : ∀ k, s.seen k = true → s'.seen k = true)
    (hclosed : ∀ k x, s'.seen k = true → U k = some x → x.number ≠ 0 → s'.seen x.parent = true)
    (hstate : ∀ k, s'.hasState k = true → s'.seen k = true)
    (hdisk : ∀ k, s'.onDisk k = true → s'.hasState k = true)
    (hrcpt : ∀ k, s'.seen k = true → s'.receipts k = true)
    (htd : ∀ k t, s'.td k = some t → ∃ x l, U k = some x ∧ Path U x l s.genesis ∧ t = s.genesis.diff + diffSum l)
    (hstd : ∀ k x, s'.store k = some x → (s'.td k).isSome = true)
    (hgs : s'.onDisk s.genesis.id = true) (hhs : s'.hasState s.head = true) :
    InvC U s' hb C :=
  { sub := hsub
    headStored := by rw [hhead]; exact hext _ _ h.headStored
    path := by rw [hgen]; exact h.path.mono hext
    canon := by intro n i; rw [hcanon, hgen]; exact h.canon n i
    lookup := by intro t l; rw [hlookup, hgen]; exact h.lookup t l
    canonSeen := by intro x hx; rw [hgen] at hx; exact hseen _ (h.canonSeen x hx)
    seenClosed := hclosed
    stateSeen := hstate
    diskState := hdisk
    seenRcpt := hrcpt
    tdIntr := by rw [hgen]; exact htd
    storeTd := hstd
    hheadEq := by rw [hhh, hhead]; exact h.hheadEq
    fheadEq := by rw [hfh, hhead]; exact h.fheadEq
    genNum := by rw [hgen]; exact h.genNum
    genTxs := by rw [hgen]; exact h.genTxs
    genState := by rw [hgen]; exact hgs
    headState := by rw [hhead]; exact hhs }

/-- adding the block `b` (a block of the universe whose parent is stored) to the store -/
theorem storeExt_upd {U : Map Blk} {s : St} {hb : Blk} {C : List Blk} (h : InvC U s hb C) {b : Blk}
    (hbU : U b.id = some b) :
    StoreExt s.store (upd s.store b.id (some b)) ∧ StoreExt (upd s.store b.id (some b)) U := by
  constructor
  · intro k x hx
    by_cases hk : k = b.id
    · subst hk
      have := h.sub _ _ hx
      rw [hbU] at this
      cases this
      simp
    · rw [upd_other _ _ _ _ hk]; exact hx
  · intro k x hx
    by_cases hk : k = b.id
    · subst hk; simp at hx; subst hx; exact hbU
    · rw [upd_other _ _ _ _ hk] at hx; exact h.sub _ _ hx

/-- the intrinsic total difficulty of `b`, given its parent's record -/
theorem tdIntr_child {U : Map Blk} (W : World U) {s : St} {hb : Blk} {C : List Blk} (h : InvC U s hb C) {b p : Blk}
    (hbU : U b.id = some b) (hpar : parentOf s.store b = some p) {ptd : Nat} (hptd : s.td b.parent = some ptd) :
    ∃ x l, U b.id = some x ∧ Path U x l s.genesis ∧ ptd + b.diff = s.genesis.diff + diffSum l := by
  obtain ⟨p', lp, hp'U, hpp, htp⟩ := h.tdIntr _ _ hptd
  have hpU : U b.parent = some p := h.sub _ _ (parentOf_some hpar).1
  rw [hpU] at hp'U; cases hp'U
  refine ⟨b, b :: lp, hbU, .cons (parentOf_mono h.sub hpar) hpp, ?_⟩
  rw [diffSum_cons, htp]
  omega

/-- the td table after `hc.WriteTd(b, ptd + b.diff)` is still intrinsic -/
theorem tdIntr_upd {U : Map Blk} (W : World U) {s : St} {hb : Blk} {C : List Blk} (h : InvC U s hb C) {b p : Blk}
    (hbU : U b.id = some b) (hpar : parentOf s.store b = some p) {ptd : Nat} (hptd : s.td b.parent = some ptd) :
    ∀ k t, upd s.td b.id (some (ptd + b.diff)) k = some t →
      ∃ x l, U k = some x ∧ Path U x l s.genesis ∧ t = s.genesis.diff + diffSum l := by
  intro k t hk
  by_cases hkb : k = b.id
  · subst hkb
    simp at hk
    subst hk
    exact tdIntr_child W h hbU hpar hptd
  · rw [upd_other _ _ _ _ hkb] at hk
    exact h.tdIntr k t hk

/-! ### closed forms of the re-insertion loop of `reorg` -/

section fold
variable (s : St)

theorem foldr_store (l : List Blk) : (l.foldr reorgStep s).store = s.store := by
  induction l with
  | nil => rfl
  | cons x l ih => simpa [reorgStep, insertHead] using ih

theorem foldr_td (l : List Blk) : (l.foldr reorgStep s).td = s.td := by
  induction l with
  | nil => rfl
  | cons x l ih => simpa [reorgStep, insertHead] using ih

theorem foldr_receipts (l : List Blk) : (l.foldr reorgStep s).receipts = s.receipts := by
  induction l with
  | nil => rfl
  | cons x l ih => simpa [reorgStep, insertHead] using ih

theorem foldr_hasState (l : List Blk) : (l.foldr reorgStep s).hasState = s.hasState := by
  induction l with
  | nil => rfl
  | cons x l ih => simpa [reorgStep, insertHead] using ih

theorem foldr_onDisk (l : List Blk) : (l.foldr reorgStep s).onDisk = s.onDisk := by
  induction l with
  | nil => rfl
  | cons x l ih => simpa [reorgStep, insertHead] using ih

theorem foldr_seen (l : List Blk) : (l.foldr reorgStep s).seen = s.seen := by
  induction l with
  | nil => rfl
  | cons x l ih => simpa [reorgStep, insertHead] using ih

theorem foldr_genesis (l : List Blk) : (l.foldr reorgStep s).genesis = s.genesis := by
  induction l with
  | nil => rfl
  | cons x l ih => simpa [reorgStep, insertHead] using ih

theorem foldr_archive (l : List Blk) : (l.foldr reorgStep s).archive = s.archive := by
  induction l with
  | nil => rfl
  | cons x l ih => simpa [reorgStep, insertHead] using ih

theorem foldr_canon_cons (x : Blk) (l : List Blk) :
    ((x :: l).foldr reorgStep s).canon = upd (l.foldr reorgStep s).canon x.number (some x.id) := by
  simp [reorgStep, insertHead]

theorem foldr_canon_notin (l : List Blk) (n : Nat) (hn : ∀ x ∈ l, x.number ≠ n) :
    (l.foldr reorgStep s).canon n = s.canon n := by
  induction l with
  | nil => rfl
  | cons x l ih =>
    rw [foldr_canon_cons, upd_other _ _ _ _ (by have := hn x (by simp); omega)]
    exact ih (fun y hy => hn y (List.mem_cons_of_mem _ hy))

theorem foldr_canon_in (l : List Blk) (hinj : ∀ z ∈ l, ∀ w ∈ l, z.number = w.number → z = w) (x : Blk) (hx : x ∈ l) :
    (l.foldr reorgStep s).canon x.number = some x.id := by
  induction l with
  | nil => cases hx
  | cons y l ih =>
    rw [foldr_canon_cons]
    by_cases hxy : x.number = y.number
    · have := hinj x hx y (by simp) hxy
      subst this
      simp
    · rw [upd_other _ _ _ _ hxy]
      rcases List.mem_cons.mp hx with rfl | hx'
      · exact absurd rfl hxy
      · exact ih (fun z hz w hw => hinj z (List.mem_cons_of_mem _ hz) w (List.mem_cons_of_mem _ hw)) hx'

theorem foldr_lookup_cons (x : Blk) (l : List Blk) :
    ((x :: l).foldr reorgStep s).lookup = writeLookups (l.foldr reorgStep s).lookup x := by
  simp [reorgStep, insertHead]

theorem foldr_lookup_notin (l : List Blk) (t : Nat) (ht : t ∉ l.flatMap (·.txs)) :
    (l.foldr reorgStep s).lookup t = s.lookup t := by
  induction l with
  | nil => rfl
  | cons x l ih =>
    simp only [List.flatMap_cons, List.mem_append, not_or] at ht
    rw [foldr_lookup_cons, writeLookups_not_mem _ _ _ ht.1]
    exact ih ht.2

theorem foldr_lookup_in (l : List Blk) (hnd : (l.flatMap (·.txs)).Nodup) (x : Blk) (hx : x ∈ l) (j t : Nat)
    (hj : x.txs[j]? = some t) : (l.foldr reorgStep s).lookup t = some ⟨x.id, x.number, j⟩ := by
  induction l with
  | nil => cases hx
  | cons y l ih =>
    simp only [List.flatMap_cons] at hnd
    have hnd' := List.nodup_append.mp hnd
    rw [foldr_lookup_cons]
    rcases List.mem_cons.mp hx with rfl | hx'
    · exact writeLookups_mem _ _ _ _ hnd'.1 hj
    · have hty : t ∉ y.txs := by
        intro hty
        exact hnd'.2.2 t hty t (List.mem_flatMap.mpr ⟨x, hx', mem_txs_of_getElem? hj⟩) rfl
      rw [writeLookups_not_mem _ _ _ hty]
      exact ih hnd'.2.1 hx'

theorem foldr_head_cons (x : Blk) (l : List Blk) : ((x :: l).foldr reorgStep s).head = x.id := by
  simp [reorgStep, insertHead]

theorem foldr_hhead_cons (x : Blk) (l : List Blk) (hne : (l.foldr reorgStep s).canon x.number ≠ some x.id) :
    ((x :: l).foldr reorgStep s).hhead = x.id ∧ ((x :: l).foldr reorgStep s).fhead = x.id := by
  simp [reorgStep, insertHead, hne]

end fold

section apply
variable (s : St) (n : Nat) (O N : List Blk)

theorem reorgApply_store : (reorgApply s n O N).store = s.store := by
  cases N with
  | nil => rfl
  | cons x l => exact foldr_store s (x :: l)
theorem reorgApply_td : (reorgApply s n O N).td = s.td := by
  cases N with
  | nil => rfl
  | cons x l => exact foldr_td s (x :: l)
theorem reorgApply_receipts : (reorgApply s n O N).receipts = s.receipts := by
  cases N with
  | nil => rfl
  | cons x l => exact foldr_receipts s (x :: l)
theorem reorgApply_hasState : (reorgApply s n O N).hasState = s.hasState := by
  cases N with
  | nil => rfl
  | cons x l => exact foldr_hasState s (x :: l)
theorem reorgApply_onDisk : (reorgApply s n O N).onDisk = s.onDisk := by
  cases N with
  | nil => rfl
  | cons x l => exact foldr_onDisk s (x :: l)
theorem reorgApply_seen : (reorgApply s n O N).seen = s.seen := by
  cases N with
  | nil => rfl
  | cons x l => exact foldr_seen s (x :: l)
theorem reorgApply_genesis : (reorgApply s n O N).genesis = s.genesis := by
  cases N with
  | nil => rfl
  | cons x l => exact foldr_genesis s (x :: l)
theorem reorgApply_archive : (reorgApply s n O N).archive = s.archive := by
  cases N with
  | nil => rfl
  | cons x l => exact foldr_archive s (x :: l)

end apply

/-! ### what `reorg` computes -/

theorem walkBoth_same {store : Map Blk} {f : Nat} {o n c : Blk} {oc nc : List Blk}
    (h : walkBoth store f o n = some (c, oc, nc)) (hid : o.id = n.id) : oc = [] ∧ nc = [] := by
  cases f with
  | zero => simp [walkBoth] at h
  | succ f =>
    unfold walkBoth at h
    rw [if_pos hid] at h
    cases h
    exact ⟨rfl, rfl⟩

/-- The result of a successful `reorg old new`, with the walks it performed. -/
theorem reorg_spec {s s2 : St} {old new : Blk} (h : reorg s old new = some s2) :
    ∃ (o n c c' : Blk) (oc1 nc1 oc2 nc2 : List Blk),
      Path s.store old oc1 o ∧ o.number = min old.number new.number ∧
      Path s.store new nc1 n ∧ n.number = min old.number new.number ∧
      Path s.store o oc2 c ∧ Path s.store n nc2 c' ∧ c.id = c'.id ∧
      (o.id = n.id → oc2 = [] ∧ nc2 = []) ∧
      s2 = reorgApply s (reorgFuel s old) (oc1 ++ oc2) (nc1 ++ nc2) := by
  unfold reorg at h
  simp only at h
  split at h
  · cases h
  · rename_i o oc1 hr1
    split at h
    · cases h
    · rename_i n nc1 hr2
      split at h
      · cases h
      · rename_i c oc2 nc2 hw
        obtain ⟨hp1, hn1⟩ := reduce_spec _ _ _ _ _ hr1
        obtain ⟨hp2, hn2⟩ := reduce_spec _ _ _ _ _ hr2
        obtain ⟨c', hw1, hw2, hid⟩ := walkBoth_spec _ _ _ _ _ _ hw
        cases h
        exact ⟨o, n, c, c', oc1, nc1, oc2, nc2, hp1, hn1, hp2, hn2, hw1, hw2, hid, walkBoth_same hw, rfl⟩


/-! ### WriteBlockWithState -/

theorem afterTd_onDisk (s : St) (b : Blk) (ptd : Nat) :
    (∀ k, (afterTd s b ptd).onDisk k = true → s.onDisk k = true ∨ k = b.id) ∧
    (∀ k, s.onDisk k = true → (afterTd s b ptd).onDisk k = true) := by
  constructor
  · intro k hk
    simp only [afterTd] at hk
    split at hk
    · by_cases hkb : k = b.id
      · exact .inr hkb
      · rw [updB_other _ _ _ _ hkb] at hk; exact .inl hk
    · exact .inl hk
  · intro k hk
    simp only [afterTd]
    split
    · exact updB_true_of _ _ _ hk
    · exact hk

theorem afterStored_onDisk (s : St) (b : Blk) (ptd : Nat) : (afterStored s b ptd).onDisk = (afterTd s b ptd).onDisk := rfl

/-- extension of the head: `b.parent = head` -/
theorem invC_extend {U : Map Blk} (W : World U) {s : St} {hb : Blk} {C : List Blk} (h : InvC U s hb C) {b p : Blk}
    (hbU : U b.id = some b) (hpar : parentOf s.store b = some p) (hps : s.hasState b.parent = true)
    {ptd : Nat} (hptd : s.td b.parent = some ptd) (hext : b.parent = hb.id) :
    InvC U (afterCanon (afterTd s b ptd) b) b (b :: C) := by
  have hph : p = hb := by
    have h1 := (parentOf_some hpar).1
    rw [hext, h.headId W, h.headStored] at h1
    cases h1; rfl
  subst hph
  have hnum := (parentOf_some hpar).2
  have habove : s.canon b.number = none := h.canonAbove _ (by omega)
  have hNpath : Path s.store b [b] p := .cons hpar (.nil _)
  have hbnd : b.txs.Nodup := by
    have := W.nodup _ _ _ _ hbU (hNpath.mono h.sub)
    simpa using this
  have := invC_newchain W (s := s) (s' := afterCanon (afterTd s b ptd) b) (O := []) (R := C) (N := [b]) (b := b) (c := p)
    h (by simp) (.nil _) h.path hbU hNpath (by simp)
    (by simp [afterCanon, afterTd, insertHead])
    (by simp [afterCanon, afterTd, insertHead])
    (by intro x hx; simp at hx; subst hx; simp [afterCanon, afterTd, insertHead])
    (by intro n hn; simp only [afterCanon, afterTd, insertHead]; rw [upd_other _ _ _ _ (by omega)])
    (by intro n hn; simp only [afterCanon, afterTd, insertHead]; rw [upd_other _ _ _ _ (by omega)]; exact h.canonAbove _ (by omega))
    (by
      intro x hx j t hj
      simp at hx; subst hx
      simp only [afterCanon, afterTd, insertHead]
      exact writeLookups_mem _ _ _ _ hbnd hj)
    (by intro t _ ht; simp at ht)
    (by
      intro t ht _
      simp only [afterCanon, afterTd, insertHead]
      exact writeLookups_not_mem _ _ _ (by simpa using ht))
    (by simp [afterCanon, afterTd, insertHead])
    (by simp [afterCanon, afterTd, insertHead, habove])
    (by simp [afterCanon, afterTd, insertHead, habove])
    (by simp [afterCanon, afterTd, insertHead])
    (by simp [afterCanon, afterTd, insertHead])
    (by simp [afterCanon, afterTd, insertHead])
    (by intro k hk; exact (afterTd_onDisk s b ptd).1 k (by simpa [afterCanon, insertHead] using hk))
    (by intro k hk; have := (afterTd_onDisk s b ptd).2 k hk; simpa [afterCanon, insertHead] using this)
    hps ⟨ptd, hptd, by simp [afterCanon, afterTd, insertHead]⟩
  simpa using this


/-- reorganisation onto a block `b` whose chain `N` (non-empty) leaves the canonical chain at `c` -/
theorem invC_reorg {U : Map Blk} (W : World U) {s : St} {hb : Blk} {C O R N : List Blk} (h : InvC U s hb C) {b p c : Blk}
    (hbU : U b.id = some b) (hpar : parentOf s.store b = some p) (hps : s.hasState b.parent = true)
    {ptd : Nat} (hptd : s.td b.parent = some ptd)
    (hsplit : C = O ++ R) (hO : Path s.store hb O c) (hR : Path s.store c R s.genesis)
    (hN : Path s.store b N c) (hNne : N ≠ []) (hnc : s.canon b.number ≠ some b.id) {F : Nat} (hF : hb.number ≤ F) :
    InvC U (afterCanon (reorgApply (afterStored s b ptd) F O N) b) b (N ++ R) := by
  obtain ⟨N', hNeq⟩ : ∃ N', N = b :: N' := by
    rcases hN.head_eq with ⟨h1, _⟩ | ⟨l', h1⟩
    · exact absurd h1 hNne
    · exact ⟨l', h1⟩
  have hbN : b ∈ N := by rw [hNeq]; simp
  have hNnum := hN.mem_number
  have hinj := hN.num_inj
  have hpathU : Path U b (N ++ R) s.genesis := (hN.mono h.sub).append (hR.mono h.sub)
  have hndAll := W.nodup _ _ _ _ hbU hpathU
  have hndN : (N.flatMap (·.txs)).Nodup := by
    rw [List.flatMap_append] at hndAll
    exact (List.nodup_append.mp hndAll).1
  have hbnd : b.txs.Nodup := hndN.sublist (txs_sublist_flatMap N b hbN)
  have hcnum : c.number < b.number := (hNnum b hbN).1
  -- abbreviations
  let s1 := afterStored s b ptd
  have hs1c : s1.canon = s.canon := rfl
  have hs1l : s1.lookup = s.lookup := rfl
  -- closed forms of the final state
  have hfc : (afterCanon (reorgApply s1 F O N) b).canon =
      upd (delCanonAbove (N.foldr reorgStep s1).canon (F + 1) (b.number + 1)) b.number (some b.id) := by
    rw [hNeq]; simp [afterCanon, insertHead, reorgApply]
  have hfl : (afterCanon (reorgApply s1 F O N) b).lookup =
      writeLookups (delLookups (N.foldr reorgStep s1).lookup (txDifference (O.flatMap (·.txs)) (N.flatMap (·.txs)))) b := by
    rw [hNeq]; simp [afterCanon, insertHead, reorgApply]
  -- the fold's canonical entries
  have hfoldb : (N.foldr reorgStep s1).canon b.number = some b.id := foldr_canon_in s1 N hinj b hbN
  have hlow : ∀ n, n < b.number + 1 →
      delCanonAbove (N.foldr reorgStep s1).canon (F + 1) (b.number + 1) n = (N.foldr reorgStep s1).canon n :=
    fun n hn => delCanonAbove_below _ _ _ _ hn
  have hheads : (afterCanon (reorgApply s1 F O N) b).hhead = b.id ∧
      (afterCanon (reorgApply s1 F O N) b).fhead = b.id := by
    have hne : (N'.foldr reorgStep s1).canon b.number ≠ some b.id := by
      rw [foldr_canon_notin]
      · exact hnc
      · intro x hx hxe
        have := hinj x (by rw [hNeq]; exact List.mem_cons_of_mem _ hx) b hbN hxe
        subst this
        -- b ∈ N' contradicts the strictly decreasing numbers: the tail lies below b
        rw [hNeq] at hN
        cases hN with
        | cons hp' hr' =>
          have := (hr'.mem_number _ hx).2
          have := (parentOf_some hp').2
          omega
    have h2 := foldr_hhead_cons s1 b N' hne
    have hcb : delCanonAbove ((b :: N').foldr reorgStep s1).canon (F + 1) (b.number + 1) b.number = some b.id := by
      rw [delCanonAbove_below _ _ _ _ (by omega), ← hNeq]; exact hfoldb
    rw [hNeq]
    simp only [afterCanon, insertHead, reorgApply, hcb]
    simpa using h2
  have := invC_newchain W (s := s) (s' := afterCanon (reorgApply s1 F O N) b) (O := O) (R := R) (N := N) (b := b) (c := c)
    h hsplit hO hR hbU hN hNne
    (by simp [afterCanon, insertHead, reorgApply_store, s1, afterStored, afterTd])
    (by simp [afterCanon, insertHead, reorgApply_genesis, s1, afterStored, afterTd])
    (by
      intro x hx
      rw [hfc]
      by_cases hxb : x.number = b.number
      · have := hinj x hx b hbN hxb
        subst this; simp
      · rw [upd_other _ _ _ _ hxb, hlow _ (by have := (hNnum x hx).2; omega)]
        exact foldr_canon_in s1 N hinj x hx)
    (by
      intro n hn
      rw [hfc, upd_other _ _ _ _ (by omega), hlow _ (by omega), foldr_canon_notin, hs1c]
      intro x hx
      have := (hNnum x hx).1
      omega)
    (by
      intro n hn
      rw [hfc, upd_other _ _ _ _ (by omega)]
      apply delCanonAbove_clears (F + 1) _ (b.number + 1) (max hb.number b.number + 1) (by omega)
      · intro k hk1 hk2
        rw [foldr_canon_notin _ _ _ (by intro x hx; have := (hNnum x hx).2; omega), hs1c]
        obtain ⟨x, hx, hxn⟩ := h.canonBelow k (by omega)
        rw [(h.canon k x.id).mpr ⟨x, hx, hxn, rfl⟩]
        rfl
      · intro k hk
        rw [foldr_canon_notin _ _ _ (by intro x hx; have := (hNnum x hx).2; omega), hs1c]
        exact h.canonAbove k (by omega)
      · omega)
    (by
      intro x hx j t hj
      rw [hfl]
      have hfold := foldr_lookup_in s1 N hndN x hx j t hj
      have htN : t ∈ N.flatMap (·.txs) := List.mem_flatMap.mpr ⟨x, hx, mem_txs_of_getElem? hj⟩
      have hdel : delLookups (N.foldr reorgStep s1).lookup (txDifference (O.flatMap (·.txs)) (N.flatMap (·.txs))) t
          = some ⟨x.id, x.number, j⟩ := by
        rw [delLookups_apply, if_neg (by rw [mem_txDifference]; exact fun hh => hh.2 htN)]
        exact hfold
      by_cases htb : t ∈ b.txs
      · obtain ⟨j', hj'⟩ := List.mem_iff_getElem?.mp htb
        rw [writeLookups_mem _ _ _ _ hbnd hj']
        have := foldr_lookup_in s1 N hndN b hbN j' t hj'
        rw [hfold] at this
        exact this.symm
      · rw [writeLookups_not_mem _ _ _ htb]; exact hdel)
    (by
      intro t h1 h2
      rw [hfl, writeLookups_not_mem _ _ _ (fun hh => h1 (List.mem_flatMap.mpr ⟨b, hbN, hh⟩)), delLookups_apply,
        if_pos (by rw [mem_txDifference]; exact ⟨h2, h1⟩)])
    (by
      intro t h1 h2
      rw [hfl, writeLookups_not_mem _ _ _ (fun hh => h1 (List.mem_flatMap.mpr ⟨b, hbN, hh⟩)), delLookups_apply,
        if_neg (by rw [mem_txDifference]; exact fun hh => h2 hh.1), foldr_lookup_notin _ _ _ h1, hs1l])
    (by rw [hNeq]; simp [afterCanon, insertHead])
    hheads.1 hheads.2
    (by simp [afterCanon, insertHead, reorgApply_seen, s1, afterStored, afterTd])
    (by simp [afterCanon, insertHead, reorgApply_receipts, s1, afterStored, afterTd])
    (by simp [afterCanon, insertHead, reorgApply_hasState, s1, afterStored, afterTd])
    (by
      intro k hk
      apply (afterTd_onDisk s b ptd).1 k
      simpa [afterCanon, insertHead, reorgApply_onDisk, s1, afterStored_onDisk] using hk)
    (by
      intro k hk
      have := (afterTd_onDisk s b ptd).2 k hk
      simpa [afterCanon, insertHead, reorgApply_onDisk, s1, afterStored_onDisk] using this)
    hps ⟨ptd, hptd, by simp [afterCanon, insertHead, reorgApply_td, s1, afterStored, afterTd]⟩
  exact this


theorem invC_side {U : Map Blk} (W : World U) {s : St} {hb : Blk} {C : List Blk} (h : InvC U s hb C) {b p : Blk}
    (hbU : U b.id = some b) (hpar : parentOf s.store b = some p) (hps : s.hasState b.parent = true)
    {ptd : Nat} (hptd : s.td b.parent = some ptd) : InvC U (afterSide s b ptd) hb C := by
  obtain ⟨he1, he2⟩ := storeExt_upd h hbU
  refine invC_frame h he1 he2 rfl (fun _ => rfl) (fun _ => rfl) rfl rfl rfl ?_ ?_ ?_ ?_ ?_ ?_ ?_ ?_ ?_
  · intro k hk; exact updB_true_of _ _ _ hk
  · intro k x hk hxU hx0
    simp only [afterSide, afterTd] at hk ⊢
    by_cases hkb : k = b.id
    · subst hkb
      rw [hbU] at hxU; cases hxU
      exact updB_true_of _ _ _ (h.stateSeen _ hps)
    · rw [updB_other _ _ _ _ hkb] at hk
      exact updB_true_of _ _ _ (h.seenClosed k x hk hxU hx0)
  · intro k hk
    simp only [afterSide, afterTd] at hk ⊢
    by_cases hkb : k = b.id
    · subst hkb; simp
    · rw [updB_other _ _ _ _ hkb] at hk
      exact updB_true_of _ _ _ (h.stateSeen k hk)
  · intro k hk
    have := (afterTd_onDisk s b ptd).1 k hk
    show updB s.hasState b.id true k = true
    rcases this with hk' | hk'
    · exact updB_true_of _ _ _ (h.diskState k hk')
    · subst hk'; simp
  · intro k hk
    simp only [afterSide, afterTd] at hk ⊢
    by_cases hkb : k = b.id
    · subst hkb; simp
    · rw [updB_other _ _ _ _ hkb] at hk
      exact updB_true_of _ _ _ (h.seenRcpt k hk)
  · exact tdIntr_upd W h hbU hpar hptd
  · intro k x hx
    simp only [afterSide, afterTd] at hx ⊢
    by_cases hkb : k = b.id
    · subst hkb; simp
    · rw [upd_other _ _ _ _ hkb] at hx ⊢
      exact h.storeTd k x hx
  · exact (afterTd_onDisk s b ptd).2 _ h.genState
  · exact updB_true_of _ _ _ h.headState

/-- `WriteBlockWithoutState` -/
theorem invC_withoutState {U : Map Blk} (W : World U) {s : St} {hb : Blk} {C : List Blk} (h : InvC U s hb C) {b p : Blk}
    (hbU : U b.id = some b) (hpar : parentOf s.store b = some p) {ptd : Nat} (hptd : s.td b.parent = some ptd) :
    InvC U { s with td := upd s.td b.id (some (ptd + b.diff)), store := upd s.store b.id (some b) } hb C := by
  obtain ⟨he1, he2⟩ := storeExt_upd h hbU
  refine invC_frame h he1 he2 rfl (fun _ => rfl) (fun _ => rfl) rfl rfl rfl (fun _ hk => hk) h.seenClosed h.stateSeen
    h.diskState h.seenRcpt (tdIntr_upd W h hbU hpar hptd) ?_ h.genState h.headState
  intro k x hx
  simp only at hx ⊢
  by_cases hkb : k = b.id
  · subst hkb; simp
  · rw [upd_other _ _ _ _ hkb] at hx ⊢
    exact h.storeTd k x hx

/-- the degenerate "reorganisation" onto the head itself: every write repeats what is already there -/
theorem invC_rehead {U : Map Blk} (W : World U) {s : St} {hb : Blk} {C : List Blk} (h : InvC U s hb C) {p : Blk}
    (hpar : parentOf s.store hb = some p) {ptd : Nat} (hptd : s.td hb.parent = some ptd) (F : Nat) :
    InvC U (afterCanon (reorgApply (afterStored s hb ptd) F [] []) hb) hb C := by
  have hbU := h.headU W
  have hid := h.headId W
  obtain ⟨he1, he2⟩ := storeExt_upd h hbU
  have hmem : hb ∈ C ++ [s.genesis] := by
    rcases h.path.head_eq with ⟨h1, h2⟩ | ⟨l', h1⟩
    · rw [h2]; simp
    · rw [h1]; simp
  have hbnd : hb.txs.Nodup := by
    have := W.nodup _ _ _ _ hbU (Path.cons (parentOf_mono h.sub hpar) (.nil p))
    simpa using this
  have hcanon : ∀ n, (afterCanon (reorgApply (afterStored s hb ptd) F [] []) hb).canon n = s.canon n := by
    intro n
    simp only [afterCanon, insertHead, reorgApply, afterStored, afterTd, List.foldr_nil, upd_upd_same, updB_updB_same]
    by_cases hn : n = hb.number
    · subst hn; simp [h.canonHead]
    · rw [upd_other _ _ _ _ hn]
  refine invC_frame h (s' := afterCanon (reorgApply (afterStored s hb ptd) F [] []) hb) ?_ ?_ rfl hcanon ?_ ?_ ?_ ?_
    ?_ ?_ ?_ ?_ ?_ ?_ ?_ ?_ ?_
  · simpa [afterCanon, insertHead, reorgApply, afterStored, afterTd] using he1
  · simpa [afterCanon, insertHead, reorgApply, afterStored, afterTd] using he2
  · intro t
    simp only [afterCanon, insertHead, reorgApply, afterStored, afterTd, List.foldr_nil, List.flatMap_nil, txDifference,
      List.filter_nil, delLookups]
    by_cases ht : t ∈ hb.txs
    · obtain ⟨j, hj⟩ := List.mem_iff_getElem?.mp ht
      rw [writeLookups_mem _ _ _ _ hbnd hj]
      exact ((h.lookup t ⟨hb.id, hb.number, j⟩).mpr ⟨hb, hmem, rfl, rfl, hj⟩).symm
    · rw [writeLookups_not_mem _ _ _ ht]
  · simp [afterCanon, insertHead, hid]
  · simp [afterCanon, insertHead, reorgApply, afterStored, afterTd, h.canonHead]
  · simp [afterCanon, insertHead, reorgApply, afterStored, afterTd, h.canonHead]
  · intro k hk
    simp only [afterCanon, insertHead, reorgApply, afterStored, afterTd, List.foldr_nil, upd_upd_same, updB_updB_same]
    exact updB_true_of _ _ _ hk
  · intro k x hk hxU hx0
    simp only [afterCanon, insertHead, reorgApply, afterStored, afterTd, List.foldr_nil, upd_upd_same, updB_updB_same] at hk ⊢
    by_cases hkb : k = hb.id
    · subst hkb
      rw [hbU] at hxU; cases hxU
      exact updB_true_of _ _ _ (h.seenClosed _ _ (h.canonSeen _ hmem) hbU hx0)
    · rw [updB_other _ _ _ _ hkb] at hk
      exact updB_true_of _ _ _ (h.seenClosed k x hk hxU hx0)
  · intro k hk
    simp only [afterCanon, insertHead, reorgApply, afterStored, afterTd, List.foldr_nil, upd_upd_same, updB_updB_same] at hk ⊢
    by_cases hkb : k = hb.id
    · subst hkb; simp
    · rw [updB_other _ _ _ _ hkb] at hk
      exact updB_true_of _ _ _ (h.stateSeen k hk)
  · intro k hk
    have hk' : (afterTd s hb ptd).onDisk k = true := by
      simpa [afterCanon, insertHead, reorgApply, afterStored_onDisk] using hk
    have := (afterTd_onDisk s hb ptd).1 k hk'
    show updB s.hasState hb.id true k = true
    rcases this with hk'' | hk''
    · exact updB_true_of _ _ _ (h.diskState k hk'')
    · subst hk''; simp
  · intro k hk
    simp only [afterCanon, insertHead, reorgApply, afterStored, afterTd, List.foldr_nil, upd_upd_same, updB_updB_same] at hk ⊢
    by_cases hkb : k = hb.id
    · subst hkb; simp
    · rw [updB_other _ _ _ _ hkb] at hk
      exact updB_true_of _ _ _ (h.seenRcpt k hk)
  · have := tdIntr_upd W h hbU hpar hptd
    simpa [afterCanon, insertHead, reorgApply, afterStored, afterTd] using this
  · intro k x hx
    simp only [afterCanon, insertHead, reorgApply, afterStored, afterTd, List.foldr_nil, upd_upd_same, updB_updB_same] at hx ⊢
    by_cases hkb : k = hb.id
    · subst hkb; simp
    · rw [upd_other _ _ _ _ hkb] at hx ⊢
      exact h.storeTd k x hx
  · have := (afterTd_onDisk s hb ptd).2 _ h.genState
    simpa [afterCanon, insertHead, reorgApply, afterStored_onDisk] using this
  · show updB s.hasState hb.id true s.head = true
    exact updB_true_of _ _ _ h.headState


theorem decideReorg_ge {e l bn hn : Nat} {coin : Bool} (h : decideReorg e l bn hn coin = true) : l ≤ e := by
  unfold decideReorg at h
  simp only [Bool.or_eq_true, Bool.and_eq_true, decide_eq_true_eq, beq_iff_eq] at h
  omega

theorem decideReorg_false_le {e l bn hn : Nat} {coin : Bool} (h : decideReorg e l bn hn coin = false) : e ≤ l := by
  unfold decideReorg at h
  simp only [Bool.or_eq_false_iff, decide_eq_false_iff_not] at h
  omega

/-- `WriteBlockWithState` preserves the invariant (unless `reorg` fails on a broken ancestry, see `reorg_ok_of_closed`). -/
theorem inv_wbws {U : Map Blk} (W : World U) {s : St} (h : Inv U s) {b p : Blk} (hbU : U b.id = some b)
    (hpar : parentOf s.store b = some p) (hps : s.hasState b.parent = true) (coin : Bool)
    (hok : (writeBlockWithState s b coin).err ≠ some .reorgFail) : Inv U (writeBlockWithState s b coin).st := by
  obtain ⟨hb, C, h⟩ := h
  unfold writeBlockWithState at hok ⊢
  cases hptd : s.td b.parent with
  | none => exact ⟨hb, C, h⟩
  | some ptd =>
    simp only [hptd] at hok ⊢
    rw [h.headStored] at hok ⊢
    have hhtd := h.storeTd _ _ h.headStored
    cases hlt : s.td s.head with
    | none => rw [hlt] at hhtd; cases hhtd
    | some localTd =>
      simp only [hlt] at hok ⊢
      by_cases hdec : decideReorg (ptd + b.diff) localTd b.number hb.number coin = true
      · rw [if_pos hdec] at hok ⊢
        by_cases hext : b.parent = hb.id
        · have : (b.parent != hb.id) = false := by simp [hext]
          simp only [this, Bool.false_eq_true, if_false]
          exact ⟨b, b :: C, invC_extend W h hbU hpar hps hptd hext⟩
        · have hne : (b.parent != hb.id) = true := by simp [hext]
          simp only [hne, if_true] at hok ⊢
          cases hr : reorg (afterStored s b ptd) hb b with
          | none => rw [hr] at hok; exact absurd rfl hok
          | some s2 =>
            simp only
            obtain ⟨o, n, c, c', oc1, nc1, oc2, nc2, hp1', ho, hp2', hn, hw1', hw2', hid, hsame, hs2⟩ := reorg_spec hr
            -- the walks were made on the store that already holds b: bring them back to the old store
            have hext' : StoreExt s.store (afterStored s b ptd).store := (storeExt_upd h hbU).1
            have hp1 : Path s.store hb oc1 o := h.pathFromHead hext' hp1'
            have hO : Path s.store hb (oc1 ++ oc2) c := h.pathFromHead hext' (hp1'.append hw1')
            have hmle : min hb.number b.number ≤ b.number := Nat.min_le_right _ _
            have hp2 : Path s.store b nc1 n := Path.unupd hp2' (Nat.le_refl _)
            have hw2 : Path s.store n nc2 c' := Path.unupd hw2' (by omega)
            have hN := hp2.append hw2
            obtain ⟨hcmem, R, hsplit, hR⟩ := h.memOfPath hO
            have hcU : U c.id = some c := h.sub _ _ (h.chainStored W c hcmem)
            have hcc : c' = c := by
              by_cases hNe : nc1 ++ nc2 = []
              · rw [hNe] at hN
                cases hN
                rw [← hid, hcU] at hbU
                cases hbU; rfl
              · obtain ⟨w, hw⟩ := hN.end_stored hNe
                have hwU := h.sub _ _ hw
                have := W.ids _ _ hwU
                rw [← this, ← hid, hcU] at hwU
                cases hwU; rfl
            subst hcc
            subst hs2
            have hfuel : hb.number ≤ reorgFuel (afterStored s b ptd) hb := by
              have h1 : (afterStored s b ptd).store s.head = some hb := hext' _ _ h.headStored
              simp [reorgFuel, afterStored, afterTd, h.hheadEq] at h1 ⊢
              rw [h1]; simp
              omega
            generalize reorgFuel (afterStored s b ptd) hb = F at hfuel ⊢
            have hpid : p.id = b.parent := W.ids _ _ (h.sub _ _ (parentOf_some hpar).1)
            by_cases hNe : nc1 ++ nc2 = []
            · -- b is the common block, hence canonical; by total difficulty it is the head itself
              have hcb : b = c' := by rw [hNe] at hN; cases hN; rfl
              subst hcb
              have hbh : b = hb := by
                apply Classical.byContradiction
                intro hne'
                have hbs := h.chainStored W b hcmem
                obtain ⟨tb, htb⟩ := Option.isSome_iff_exists.mp (h.storeTd _ _ hbs)
                have hth : s.td hb.id = some localTd := by rw [h.headId W]; exact hlt
                have h1 := h.tdParent W hbU (parentOf_mono h.sub hpar) htb (by rw [hpid]; exact hptd)
                have h2 := h.tdStrict W hcmem hne' htb hth
                have := decideReorg_ge hdec
                omega
              subst hbh
              have hOe : oc1 ++ oc2 = [] := by
                have := hO.number
                cases hl : oc1 ++ oc2 with
                | nil => rfl
                | cons a l => rw [hl] at this; simp at this
              rw [hOe, hNe]
              exact ⟨b, C, invC_rehead W h hpar hptd F⟩
            · have hnc : s.canon b.number ≠ some b.id := by
                intro hc
                obtain ⟨x, hx, hxn, hxi⟩ := (h.canon _ _).mp hc
                have hxU := h.sub _ _ (h.chainStored W x hx)
                rw [hxi, hbU] at hxU
                cases hxU
                have hle := h.chainNumber _ hx
                have hmin : min hb.number b.number = b.number := Nat.min_eq_right hle
                rw [hmin] at hn ho
                have hnc1 : nc1 = [] := by
                  have := hp2.number
                  cases hl : nc1 with
                  | nil => rfl
                  | cons a l => rw [hl] at this; simp at this; omega
                subst hnc1
                cases hp2
                have homem := (h.memOfPath hp1).1
                have hob := h.chainNumInj o homem _ hx ho
                subst hob
                have := (hsame rfl).2
                simp [this] at hNe
              exact ⟨b, (nc1 ++ nc2) ++ R, invC_reorg W h hbU hpar hps hptd hsplit hO hR hN hNe hnc hfuel⟩
      · have hdec' : decideReorg (ptd + b.diff) localTd b.number hb.number coin = false := by
          cases hd : decideReorg (ptd + b.diff) localTd b.number hb.number coin
          · rfl
          · exact absurd hd hdec
        simp only [hdec', Bool.false_eq_true, if_false]
        exact ⟨hb, C, invC_side W h hbU hpar hps hptd⟩


/-! ### insertChain2 -/

theorem headerCheck_none {store : Map Blk} {b : Blk} (h : headerCheck store b = none) :
    ∃ p, parentOf store b = some p := by
  unfold headerCheck at h
  cases hp : parentOf store b with
  | none => rw [hp] at h; cases h
  | some p => exact ⟨p, rfl⟩

/-- the possible outcomes of `WriteBlockWithState` -/
theorem wbws_cases (s : St) (b : Blk) (coin : Bool) :
    (∃ e, writeBlockWithState s b coin = ⟨s, some e⟩ ∧ e ≠ .reorgFail) ∨
    (∃ ptd cur, s.td b.parent = some ptd ∧ s.store s.head = some cur ∧ reorg (afterStored s b ptd) cur b = none ∧
      writeBlockWithState s b coin = ⟨afterStored s b ptd, some .reorgFail⟩) ∨
    (∃ ptd s2 cur localTd, s.td b.parent = some ptd ∧ s.store s.head = some cur ∧ s.td s.head = some localTd ∧
      decideReorg (ptd + b.diff) localTd b.number cur.number coin = true ∧
      (s2 = afterTd s b ptd ∨ reorg (afterStored s b ptd) cur b = some s2) ∧
      writeBlockWithState s b coin = ⟨afterCanon s2 b, none⟩) ∨
    (∃ ptd cur localTd, s.td b.parent = some ptd ∧ s.store s.head = some cur ∧ s.td s.head = some localTd ∧
      decideReorg (ptd + b.diff) localTd b.number cur.number coin = false ∧
      writeBlockWithState s b coin = ⟨afterSide s b ptd, none⟩) := by
  unfold writeBlockWithState
  cases hptd : s.td b.parent with
  | none => exact .inl ⟨_, rfl, by simp⟩
  | some ptd =>
    simp only
    cases hh : s.store s.head with
    | none => exact .inl ⟨_, rfl, by simp⟩
    | some cur =>
      cases hl : s.td s.head with
      | none => exact .inl ⟨_, rfl, by simp⟩
      | some localTd =>
        simp only
        cases hdec : decideReorg (ptd + b.diff) localTd b.number cur.number coin with
        | false =>
          simp only [Bool.false_eq_true, if_false]
          exact .inr (.inr (.inr ⟨ptd, cur, localTd, rfl, rfl, rfl, hdec, rfl⟩))
        | true =>
          simp only [if_true]
          by_cases hext : (b.parent != cur.id) = true
          · simp only [hext, if_true]
            cases hr : reorg (afterStored s b ptd) cur b with
            | none => exact .inr (.inl ⟨ptd, cur, rfl, rfl, hr, rfl⟩)
            | some s2 => exact .inr (.inr (.inl ⟨ptd, s2, cur, localTd, rfl, rfl, rfl, hdec, .inr hr, rfl⟩))
          · simp only [hext]
            exact .inr (.inr (.inl ⟨ptd, _, cur, localTd, rfl, rfl, rfl, hdec, .inl rfl, rfl⟩))

theorem wbws_hasState (s : St) (b : Blk) (coin : Bool) (h : (writeBlockWithState s b coin).err = none) :
    (writeBlockWithState s b coin).st.hasState b.id = true := by
  rcases wbws_cases s b coin with ⟨e, he, _⟩ | ⟨ptd, _, _, _, _, he⟩ | ⟨ptd, s2, cur, lt, _, _, _, _, hs2, he⟩ | ⟨ptd, cur, lt, _, _, _, _, he⟩
  · rw [he] at h; cases h
  · rw [he] at h; cases h
  · rw [he]
    simp only [afterCanon, insertHead]
    rcases hs2 with hs2 | hr
    · subst hs2; simp [afterTd]
    · obtain ⟨o, n, c, c', oc1, nc1, oc2, nc2, _, _, _, _, _, _, _, _, hs2⟩ := reorg_spec hr
      rw [hs2, reorgApply_hasState]
      simp [afterStored, afterTd]
  · rw [he]; simp [afterSide, afterTd]

/-- the store only grows in `WriteBlockWithState` -/
theorem wbws_storeExt {U : Map Blk} {s : St} (h : Inv U s) {b : Blk} (hbU : U b.id = some b) (coin : Bool) :
    StoreExt s.store (writeBlockWithState s b coin).st.store := by
  obtain ⟨hb, C, h⟩ := h
  have hup := (storeExt_upd h hbU).1
  rcases wbws_cases s b coin with ⟨e, he, _⟩ | ⟨ptd, _, _, _, _, he⟩ | ⟨ptd, s2, cur, lt, _, _, _, _, hs2, he⟩ | ⟨ptd, cur, lt, _, _, _, _, he⟩
  · rw [he]; exact fun _ _ hx => hx
  · rw [he]; exact hup
  · rw [he]
    simp only [afterCanon, insertHead]
    rcases hs2 with hs2 | hr
    · subst hs2; exact hup
    · obtain ⟨o, n, c, c', oc1, nc1, oc2, nc2, _, _, _, _, _, _, _, _, hs2⟩ := reorg_spec hr
      rw [hs2, reorgApply_store]
      simpa [afterStored] using hup
  · rw [he]; exact hup

theorem processWinners_cons_err {s : St} {w : Blk} {l : List Blk} {coins : List Bool} {e : Err}
    (h : (processWinners s l coins).err = some e) : processWinners s (w :: l) coins = processWinners s l coins := by
  rw [processWinners]; simp only [h]

theorem processWinners_cons_hc {s : St} {w : Blk} {l : List Blk} {coins : List Bool} {e : Err}
    (h : (processWinners s l coins).err = none) (hc : headerCheck (processWinners s l coins).st.store w = some e) :
    processWinners s (w :: l) coins = ⟨(processWinners s l coins).st, some e⟩ := by
  rw [processWinners]; simp only [h, hc]

theorem processWinners_cons_ok {s : St} {w : Blk} {l : List Blk} {coins : List Bool}
    (h : (processWinners s l coins).err = none) (hc : headerCheck (processWinners s l coins).st.store w = none) :
    processWinners s (w :: l) coins =
      writeBlockWithState (processWinners s l coins).st w ((coins.drop l.length).headD false) := by
  rw [processWinners]; simp only [h, hc]

end Aqv.Chain

import Aqv.Model.Rlp
import Aqv.Lemmas.Bytes
namespace Aqv.Rlp
open Aqv

theorem u8_toNat_ofNat (k : Nat) (h : k < 256) : (UInt8.ofNat k).toNat = k := by
  simp [UInt8.toNat_ofNat', Nat.mod_eq_of_lt h]

theorem u8_lt_iff (a b : UInt8) : a < b ↔ a.toNat < b.toNat := UInt8.lt_iff_toNat_lt

theorem header_ne_nil (base n : Nat) : header base n ≠ [] := by
  unfold header; split <;> simp

theorem header_length_pos (base n : Nat) : 0 < (header base n).length := by
  have := header_ne_nil base n
  cases h : header base n with
  | nil => exact absurd h this
  | cons _ _ => simp

theorem beBytes_len_bounds (n : Nat) (h56 : 56 ≤ n) (h : n < 2 ^ 64) :
    1 ≤ (beBytes n).length ∧ (beBytes n).length ≤ 8 := by
  constructor
  · have := beBytes_ne_nil n (by omega)
    cases hb : beBytes n with
    | nil => exact absurd hb this
    | cons _ _ => simp
  · exact beBytes_length_le n 8 (by simpa using h)

theorem readSize_beBytes (n : Nat) (h56 : 56 ≤ n) (rest : Bytes) :
    readSize (beBytes n).length (beBytes n ++ rest) = .ok (n, rest) := by
  unfold readSize
  have hne := beBytes_ne_nil n (by omega)
  simp only [List.length_append, List.take_left', List.drop_left']
  rw [if_neg (by omega)]
  cases hb : beBytes n with
  | nil => exact absurd hb hne
  | cons b0 t =>
    have h0 := beBytes_head_ne_zero n b0 t hb
    simp only [h0, if_false]
    rw [← hb, beNat_beBytes]
    rw [if_neg (by omega)]

/-- reading back a string header written by `header 0x80`, except the single-byte short cut. -/
theorem readHead_header_str (n : Nat) (h : n < 2 ^ 64) (rest : Bytes) :
    readHead (header 0x80 n ++ rest) = .ok (.str n rest) := by
  unfold header
  by_cases hn : n < 56
  · simp only [hn, if_true, List.singleton_append, readHead]
    have h1 : ¬ (UInt8.ofNat (0x80 + n) < 0x80) := by
      rw [u8_lt_iff, u8_toNat_ofNat _ (by omega)]; simp
    have h2 : UInt8.ofNat (0x80 + n) < 0xB8 := by
      rw [u8_lt_iff, u8_toNat_ofNat _ (by omega)]; simp; omega
    simp only [h1, h2, if_true, if_false]
    rw [u8_toNat_ofNat _ (by omega)]
    simp
  · simp only [hn, if_false, List.cons_append, readHead]
    obtain ⟨hl1, hl8⟩ := beBytes_len_bounds n (by omega) h
    have h1 : ¬ (UInt8.ofNat (0x80 + 55 + (beBytes n).length) < 0x80) := by
      rw [u8_lt_iff, u8_toNat_ofNat _ (by omega)]; simp; omega
    have h2 : ¬ (UInt8.ofNat (0x80 + 55 + (beBytes n).length) < 0xB8) := by
      rw [u8_lt_iff, u8_toNat_ofNat _ (by omega)]; simp; omega
    have h3 : UInt8.ofNat (0x80 + 55 + (beBytes n).length) < 0xC0 := by
      rw [u8_lt_iff, u8_toNat_ofNat _ (by omega)]; simp; omega
    simp only [h1, h2, h3, if_true, if_false]
    rw [u8_toNat_ofNat _ (by omega)]
    have : 0x80 + 55 + (beBytes n).length - 0xB7 = (beBytes n).length := by omega
    rw [this, readSize_beBytes n (by omega)]

theorem readHead_header_list (n : Nat) (h : n < 2 ^ 64) (rest : Bytes) :
    readHead (header 0xC0 n ++ rest) = .ok (.list n rest) := by
  unfold header
  by_cases hn : n < 56
  · simp only [hn, if_true, List.singleton_append, readHead]
    have h1 : ¬ (UInt8.ofNat (0xC0 + n) < 0x80) := by
      rw [u8_lt_iff, u8_toNat_ofNat _ (by omega)]; simp; omega
    have h2 : ¬ UInt8.ofNat (0xC0 + n) < 0xB8 := by
      rw [u8_lt_iff, u8_toNat_ofNat _ (by omega)]; simp; omega
    have h3 : ¬ UInt8.ofNat (0xC0 + n) < 0xC0 := by
      rw [u8_lt_iff, u8_toNat_ofNat _ (by omega)]; simp
    have h4 : UInt8.ofNat (0xC0 + n) < 0xF8 := by
      rw [u8_lt_iff, u8_toNat_ofNat _ (by omega)]; simp; omega
    simp only [h1, h2, h3, h4, if_true, if_false]
    rw [u8_toNat_ofNat _ (by omega)]
    simp
  · simp only [hn, if_false, List.cons_append, readHead]
    obtain ⟨hl1, hl8⟩ := beBytes_len_bounds n (by omega) h
    have h1 : ¬ (UInt8.ofNat (0xC0 + 55 + (beBytes n).length) < 0x80) := by
      rw [u8_lt_iff, u8_toNat_ofNat _ (by omega)]; simp; omega
    have h2 : ¬ (UInt8.ofNat (0xC0 + 55 + (beBytes n).length) < 0xB8) := by
      rw [u8_lt_iff, u8_toNat_ofNat _ (by omega)]; simp; omega
    have h3 : ¬ UInt8.ofNat (0xC0 + 55 + (beBytes n).length) < 0xC0 := by
      rw [u8_lt_iff, u8_toNat_ofNat _ (by omega)]; simp; omega
    have h4 : ¬ UInt8.ofNat (0xC0 + 55 + (beBytes n).length) < 0xF8 := by
      rw [u8_lt_iff, u8_toNat_ofNat _ (by omega)]; simp; omega
    simp only [h1, h2, h3, h4, if_false]
    rw [u8_toNat_ofNat _ (by omega)]
    have : 0xC0 + 55 + (beBytes n).length - 0xF7 = (beBytes n).length := by omega
    rw [this, readSize_beBytes n (by omega)]

mutual
  def weight : Item → Nat
    | .str _ => 1
    | .list xs => 1 + weightList xs
  def weightList : List Item → Nat
    | [] => 1
    | x :: xs => 1 + weight x + weightList xs
end

theorem encStr_ne_nil (b : Bytes) : encStr b ≠ [] := by
  unfold encStr
  split
  · split <;> simp [header]
  · intro h
    have := header_ne_nil 0x80 b.length
    simp at h
    exact this h.1

theorem enc_ne_nil (it : Item) : enc it ≠ [] := by
  cases it with
  | str b => simp only [enc]; exact encStr_ne_nil b
  | list xs =>
    simp only [enc]
    intro h
    simp at h
    exact header_ne_nil _ _ h.1

theorem enc_length_pos (it : Item) : 0 < (enc it).length := by
  have := enc_ne_nil it
  cases h : enc it with
  | nil => exact absurd h this
  | cons _ _ => simp

mutual
  theorem weight_le (it : Item) : weight it + 1 ≤ 3 * (enc it).length := by
    cases it with
    | str b =>
      have := enc_length_pos (.str b)
      simp only [weight]; omega
    | list xs =>
      have := weightList_le xs
      have := header_length_pos 0xC0 (encList xs).length
      simp only [weight, enc, List.length_append]
      omega
  theorem weightList_le (xs : List Item) : weightList xs ≤ 3 * (encList xs).length + 1 := by
    cases xs with
    | nil => simp [weightList, encList]
    | cons x xs =>
      have := weight_le x
      have := weightList_le xs
      simp only [weightList, encList, List.length_append]
      omega
end

theorem decItem_str (f : Nat) (b : Bytes) (hb : b.length < 2 ^ 64) (rest : Bytes) :
    decItem (f + 1) (encStr b ++ rest) = .ok (.str b, rest) := by
  unfold encStr
  split
  · rename_i x
    by_cases hx : x < 0x80
    · simp only [hx, if_true, List.singleton_append, decItem, readHead]
    · simp only [hx, if_false, decItem]
      rw [List.append_assoc, readHead_header_str 1 (by omega)]
      simp [hx]
  · rename_i hns
    simp only [decItem]
    rw [List.append_assoc, readHead_header_str _ hb]
    simp only [List.length_append, List.take_left', List.drop_left']
    rw [if_neg (by omega)]

mutual
  theorem decItem_enc (it : Item) (hs : it.sizeOk = true) (f : Nat) (rest : Bytes) (hf : weight it ≤ f) :
      decItem f (enc it ++ rest) = .ok (it, rest) := by
    cases it with
    | str b =>
      simp only [weight] at hf
      obtain ⟨g, rfl⟩ : ∃ g, f = g + 1 := ⟨f - 1, by omega⟩
      simp only [Item.sizeOk, decide_eq_true_eq] at hs
      simp only [enc]
      exact decItem_str g b hs rest
    | list xs =>
      simp only [weight] at hf
      obtain ⟨g, rfl⟩ : ∃ g, f = g + 1 := ⟨f - 1, by omega⟩
      simp only [Item.sizeOk, Bool.and_eq_true, decide_eq_true_eq] at hs
      simp only [enc, decItem]
      rw [List.append_assoc, readHead_header_list _ hs.1]
      simp only [List.length_append, List.take_left', List.drop_left']
      rw [if_neg (by omega)]
      rw [decList_encList xs hs.2 g (by omega)]
  theorem decList_encList (xs : List Item) (hs : Item.sizeOkList xs = true) (f : Nat) (hf : weightList xs ≤ f) :
      decList f (encList xs) = .ok xs := by
    cases xs with
    | nil =>
      simp only [weightList] at hf
      obtain ⟨g, rfl⟩ : ∃ g, f = g + 1 := ⟨f - 1, by omega⟩
      simp [encList, decList]
    | cons x xs =>
      simp only [weightList] at hf
      obtain ⟨g, rfl⟩ : ∃ g, f = g + 1 := ⟨f - 1, by omega⟩
      simp only [Item.sizeOkList, Bool.and_eq_true] at hs
      simp only [encList]
      cases he : enc x with
      | nil => exact absurd he (enc_ne_nil x)
      | cons b bs =>
        simp only [List.cons_append, decList]
        rw [← List.cons_append, ← he, decItem_enc x hs.1 g (encList xs) (by omega)]
        simp only
        rw [decList_encList xs hs.2 g (by omega)]
end

end Aqv.Rlp

/-
  Aqv.Lemmas.StateCache — reads only fill the object cache: `look`, the invariants and everything Copy/Finalise compute are
  unchanged by `loadObj`/`warm`.
-/
import Aqv.Model.StateCache
import Aqv.Lemmas.StateGood
namespace Aqv.State

theorem loadObj_cases (s : SDB) (a : Addr) :
    loadObj s a = s ∨ (∃ c, s.objs a = none ∧ s.trie a = some c ∧ loadObj s a = putObj s a (fromAcct c)) := by
  unfold loadObj
  cases ho : s.objs a with
  | some o => exact Or.inl rfl
  | none =>
    cases ht : s.trie a with
    | none => exact Or.inl rfl
    | some c => exact Or.inr ⟨c, rfl, rfl, rfl⟩

theorem look_loadObj (s : SDB) (a b : Addr) : look (loadObj s a) b = look s b := by
  rcases loadObj_cases s a with h | ⟨c, ho, ht, h⟩
  · rw [h]
  · rw [h, look_putObj]
    by_cases hb : b = a
    · subst hb; simp [look, ho, ht, fromAcct, blank]
    · simp [hb]

theorem loadObj_fields (s : SDB) (a : Addr) :
    (loadObj s a).trie = s.trie ∧ (loadObj s a).dirty = s.dirty ∧ (loadObj s a).journal = s.journal ∧ (loadObj s a).revs = s.revs ∧
    (loadObj s a).nextId = s.nextId ∧ (loadObj s a).refund = s.refund ∧ (loadObj s a).thash = s.thash ∧ (loadObj s a).logs = s.logs ∧
    (loadObj s a).logSize = s.logSize ∧ (loadObj s a).preimages = s.preimages ∧ (loadObj s a).fault = s.fault := by
  rcases loadObj_cases s a with h | ⟨c, _, _, h⟩ <;> rw [h] <;> simp

/-- on dirty addresses (which have a cached object under `BInv`) the raw cache entry is untouched. -/
theorem loadObj_objs_dirty {s : SDB} (hb : BInv s) (a b : Addr) (hd : b ∈ s.dirty) : (loadObj s a).objs b = s.objs b := by
  rcases loadObj_cases s a with h | ⟨c, ho, _, h⟩
  · rw [h]
  · rw [h]
    by_cases hba : b = a
    · subst hba; obtain ⟨o, hq⟩ := hb.dobj b hd; rw [ho] at hq; simp at hq
    · simp [putObj, upd, hba]

theorem good_loadObj {d : Bool} {s : SDB} (hg : Good d s) (a : Addr) : Good d (loadObj s a) := by
  rcases loadObj_cases s a with h | ⟨c, ho, ht, h⟩
  · rw [h]; exact hg
  · rw [h]
    have hl : look s a = some (fromAcct c) := by simp [look, ho, ht]
    refine ⟨binv_putObj_eqv hg.binv a (fromAcct c) (fromAcct c) hl rfl rfl rfl rfl, hg.revs, ?_⟩
    intro b o hq hqd
    have := tomb_putObj (q := o) (o := fromAcct c) rfl ⟨hq, hqd⟩
    exact hg.tomb b o this.1 this.2

theorem look_warm (reads : List Addr) : ∀ (s : SDB) (b : Addr), look (warm s reads) b = look s b := by
  induction reads with
  | nil => intro s b; rfl
  | cons a as ih => intro s b; simp only [warm, List.foldl_cons]; exact (ih (loadObj s a) b).trans (look_loadObj s a b)

theorem good_warm {d : Bool} (reads : List Addr) : ∀ {s : SDB}, Good d s → Good d (warm s reads) := by
  induction reads with
  | nil => intro s hg; exact hg
  | cons a as ih => intro s hg; simp only [warm, List.foldl_cons]; exact ih (good_loadObj hg a)

theorem warm_fields (reads : List Addr) : ∀ (s : SDB),
    (warm s reads).trie = s.trie ∧ (warm s reads).dirty = s.dirty ∧ (warm s reads).journal = s.journal ∧ (warm s reads).revs = s.revs ∧
    (warm s reads).refund = s.refund ∧ (warm s reads).logs = s.logs ∧ (warm s reads).logSize = s.logSize ∧
    (warm s reads).preimages = s.preimages ∧ (warm s reads).fault = s.fault ∧ (warm s reads).nextId = s.nextId ∧ (warm s reads).thash = s.thash := by
  induction reads with
  | nil => intro s; exact ⟨rfl, rfl, rfl, rfl, rfl, rfl, rfl, rfl, rfl, rfl, rfl⟩
  | cons a as ih =>
    intro s
    simp only [warm, List.foldl_cons]
    obtain ⟨h1, h2, h3, h4, h5, h6, h7, h8, h9, h10, h11⟩ := ih (loadObj s a)
    obtain ⟨g1, g2, g3, g4, g5, g6, g7, g8, g9, g10, g11⟩ := loadObj_fields s a
    exact ⟨h1.trans g1, h2.trans g2, h3.trans g3, h4.trans g4, h5.trans g6, h6.trans g8, h7.trans g9, h8.trans g10, h9.trans g11,
      h10.trans g5, h11.trans g7⟩

theorem warm_objs_dirty {d : Bool} (reads : List Addr) : ∀ {s : SDB}, Good d s → ∀ b, b ∈ s.dirty → (warm s reads).objs b = s.objs b := by
  induction reads with
  | nil => intro s _ b _; rfl
  | cons a as ih =>
    intro s hg b hb
    simp only [warm, List.foldl_cons]
    have hd : b ∈ (loadObj s a).dirty := by rw [(loadObj_fields s a).2.1]; exact hb
    exact (ih (good_loadObj hg a) b hd).trans (loadObj_objs_dirty hg.binv a b hb)

end Aqv.State

/-
  Aqv.Lemmas.FeedExec — building infinite executions from finite schedules (run the schedule, then stutter), and a
  sufficient condition for such an execution to be fair: it ends in a quiescent state (token free, no Send or remove
  pending) in which every subscribed channel can accept a value (its receiver is waiting or it has a free slot).
  Used to show that the fairness assumptions of the liveness theorems are satisfiable on non-trivial executions.
-/
import Aqv.Lemmas.FeedLive
namespace Aqv.Feed
set_option linter.unusedSimpArgs false
set_option linter.unusedVariables false

theorem run_take_succ : ∀ (as : List Act) (s F : St) (n : Nat) (hn : n < as.length), run s as = some F →
    ∃ s1 s2, run s (as.take n) = some s1 ∧ step s1 as[n] = some s2 ∧ run s (as.take (n + 1)) = some s2 := by
  intro as
  induction as with
  | nil => intro s F n hn; simp at hn
  | cons a rest ih =>
    intro s F n hn hrun
    simp only [run] at hrun
    cases hst : step s a with
    | none => simp [hst] at hrun
    | some s' =>
      simp only [hst] at hrun
      cases n with
      | zero => exact ⟨s, s', by simp [run], by simpa using hst, by simp [run, hst]⟩
      | succ k =>
        obtain ⟨s1, s2, h1, h2, h3⟩ := ih s' F k (by simpa using hn) hrun
        exact ⟨s1, s2, by simpa [run, hst] using h1, by simpa using h2, by simpa [run, hst] using h3⟩

/-- run the schedule `as` from the empty feed, then stutter forever -/
def Exec.ofSchedule (as : List Act) (F : St) (h : run Feed.init as = some F) : Exec where
  σ n := (run Feed.init (as.take n)).getD Feed.init
  a n := as[n]?
  init := by simp [run]; exact Reach.init
  next n := by
    by_cases hn : n < as.length
    · left
      obtain ⟨s1, s2, h1, h2, h3⟩ := run_take_succ as Feed.init F n hn h
      exact ⟨as[n], by simp [hn], by simp only [h1, h3, Option.getD_some]; exact h2⟩
    · right
      have h1 : as.take n = as := List.take_of_length_le (by omega)
      have h2 : as.take (n + 1) = as := List.take_of_length_le (by omega)
      exact ⟨by simp; omega, by simp only [h1, h2]⟩

theorem Exec.ofSchedule_tail (as : List Act) (F : St) (h : run Feed.init as = some F) (m : Nat) (hm : as.length ≤ m) :
    (Exec.ofSchedule as F h).σ m = F := by
  simp only [Exec.ofSchedule, List.take_of_length_le hm, h, Option.getD_some]

theorem sendEnabled_held {s : St} {g : Sid} (h : SendEnabled s g) : (s.spc g).held = true := by
  obtain ⟨x, hx, hen⟩ := h
  simp only [IsSendAct] at hx
  cases x <;> simp only [actSender, Option.some.injEq, reduceCtorEq] at hx <;> subst hx
  all_goals simp only [step] at hen
  all_goals (repeat' split at hen) <;> simp_all [SPc.held]

theorem remEnabled_phase {s : St} {c : Chan} (h : RemEnabled s c) : soloPhase (s.rpc c) := by
  obtain ⟨x, hx, hen⟩ := h
  simp only [IsRemAct] at hx
  cases x <;> simp only [actRemover, Option.some.injEq, reduceCtorEq] at hx <;> subst hx
  all_goals simp only [step] at hen
  all_goals (repeat' split at hen) <;> simp_all [soloPhase]

/-- a schedule that ends quiescent with every subscriber ready to receive yields a fair execution -/
theorem fair_of_quiescent_tail (as : List Act) (F : St) (h : run init as = some F)
    (htok : F.tokenFree = true) (hs : ∀ g, F.spc g ≠ .start) (hr : ∀ c, F.rpc c ≠ .start ∧ F.rpc c ≠ .sel)
    (hrecv : ∀ c ∈ F.sendCases, canPlace F c = true) : Fair (Exec.ofSchedule as F h) := by
  have hreach : Reach F := reach_run Reach.init h
  have ha := invA_reach hreach
  have hnone := ha.tok.mp htok
  have tail := Exec.ofSchedule_tail as F h
  constructor
  · intro g n hen
    have := sendEnabled_held (hen (max n as.length) (Nat.le_max_left _ _))
    rw [tail _ (Nat.le_max_right _ _)] at this
    have := (ha.hs g).mp this
    rw [hnone] at this; cases this
  · intro c n hen
    have := remEnabled_phase (hen (max n as.length) (Nat.le_max_left _ _))
    rw [tail _ (Nat.le_max_right _ _)] at this
    rcases this with h0 | h0 | h0
    · exact absurd h0 (hr c).1
    · have := (ha.hr c).mp (by simp [h0, RPc.held]); rw [hnone] at this; cases this
    · have := (ha.hr c).mp (by simp [h0, RPc.held]); rw [hnone] at this; cases this
  · intro c n
    refine ⟨max n as.length, Nat.le_max_left _ _, ?_⟩
    rw [tail _ (Nat.le_max_right _ _)]
    by_cases hc : c ∈ F.sendCases
    · exact Or.inl (hrecv c hc)
    · exact Or.inr hc
  · intro g n hall _
    have := hall (max n as.length) (Nat.le_max_left _ _)
    rw [tail _ (Nat.le_max_right _ _)] at this
    exact hs g this
  · intro c n hall _
    have := hall (max n as.length) (Nat.le_max_left _ _)
    rw [tail _ (Nat.le_max_right _ _)] at this
    exact (hr c).2 this

end Aqv.Feed

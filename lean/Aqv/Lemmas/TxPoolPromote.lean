/-
  Aqv.Lemmas.TxPoolPromote — the per-account body of promoteExecutables (`promoteAcct`) preserves the three tiers.
-/
import Aqv.Lemmas.TxPoolInv
namespace Aqv.TxPool

/-- the stages of `promoteAcct`, named -/
def paQ1 (s : Pool) (a : Addr) : TxL := { s.queue a with items := (forward (s.cnonce a) (s.queue a).items).2 }
def paQ2 (s : Pool) (a : Addr) : TxL := ((paQ1 s a).filter (s.balance a) s.maxGas).2.2
def paReady (s : Pool) (a : Addr) : List Tx × List Tx := ready (s.pnonce a) (paQ2 s a).items
def paS3 (s : Pool) (a : Addr) : Pool :=
  ({ s with all := (s.all.filter (fun t => !decide (t ∈ (forward (s.cnonce a) (s.queue a).items).1))).filter
                    (fun t => !decide (t ∈ ((paQ1 s a).filter (s.balance a) s.maxGas).1)) } : Pool).setQ a
    { paQ2 s a with items := (paReady s a).2 }
def paS4 (s : Pool) (a : Addr) : Pool := promoteAll (paS3 s a) a (paReady s a).1
def paS5 (s : Pool) (a : Addr) : Pool :=
  let s4 := paS4 s a
  if !s4.isLocal a then
    { s4 with all := s4.all.filter (fun t => !decide (t ∈ (capL s4.cfg.accountQueue (s4.queue a).items).1)),
              queue := upd s4.queue a { (s4.queue a) with items := (capL s4.cfg.accountQueue (s4.queue a).items).2 } }
  else s4

theorem promoteAcct_eq (s : Pool) (a : Addr) :
    s.promoteAcct a = (paS5 s a).setQ a (dropIfEmpty ((paS5 s a).queue a)) := rfl

/-- facts about the queue stages that need only Weak -/
structure PAQ (s : Pool) (a : Addr) : Prop where
  q2sub    : ∀ t ∈ (paQ2 s a).items, t ∈ (s.queue a).items ∧ s.cnonce a ≤ t.nonce
  q2sorted : Sorted (paQ2 s a).items
  q2strict : (paQ2 s a).strict = false
  q2caps   : CapsOK (paQ2 s a)
  q2pay    : ∀ t ∈ (paQ2 s a).items, Payable (s.balance a) s.maxGas t
  rapp     : (paReady s a).1 ++ (paReady s a).2 = (paQ2 s a).items

theorem paq (s : Pool) (a : Addr) (hw : Weak (s.pending a) (s.queue a) a) : PAQ s a := by
  have hq1s : Sorted (paQ1 s a).items := hw.qsorted.filter _
  have hq1c : CapsOK (paQ1 s a) := hw.qcaps.sub (fun t ht => (List.mem_filter.mp ht).1)
  have hfs := TxL.filter_spec (paQ1 s a) (s.balance a) s.maxGas
  have hq1sub : ∀ t ∈ (paQ1 s a).items, t ∈ (s.queue a).items ∧ s.cnonce a ≤ t.nonce := by
    intro t ht
    have := List.mem_filter.mp ht
    exact ⟨this.1, by simpa [Nat.not_lt] using this.2⟩
  exact { q2sub := fun t ht => hq1sub t (hfs.kept_sub t ht)
          q2sorted := hfs.sorted hq1s
          q2strict := by rw [paQ2, hfs.strict]; exact hw.qstrict
          q2caps := hfs.caps hq1c
          q2pay := hfs.kept_pay hq1c
          rapp := ready_append _ _ }

theorem paS3_touch (s : Pool) (a : Addr) : Touch s a (paS3 s a) :=
  { env := ⟨rfl, rfl, rfl, rfl⟩, locals := rfl, gasPrice := rfl, pother := fun _ _ => rfl
    qother := fun b hb => upd_other _ _ hb, nother := fun _ _ => rfl, accts := fun _ h => h }

theorem paS3_queue (s : Pool) (a : Addr) : (paS3 s a).queue a = { paQ2 s a with items := (paReady s a).2 } := upd_same _ _ _
theorem paS3_pending (s : Pool) (a : Addr) : (paS3 s a).pending = s.pending := rfl
theorem paS3_pnonce (s : Pool) (a : Addr) : (paS3 s a).pnonce = s.pnonce := rfl
theorem paS3_accts (s : Pool) (a : Addr) : (paS3 s a).accts = s.accts := rfl

theorem paS3_weak {s : Pool} (a : Addr) (h : WeakAll s) : WeakAll (paS3 s a) := by
  have hq := paq s a (h.1 a)
  have hsub2 : ∀ t ∈ (paReady s a).2, t ∈ (paQ2 s a).items := fun t ht => by rw [← hq.rapp]; exact List.mem_append_right _ ht
  apply h.touch (paS3_touch s a)
  · rw [paS3_queue, paS3_pending]
    apply Weak.subQ (Q' := { paQ2 s a with items := (paReady s a).2 }) (h.1 a) hq.q2strict (fun t ht => (hq.q2sub t (hsub2 t ht)).1)
    · have := hq.q2sorted; rw [← hq.rapp] at this
      exact List.Pairwise.sublist (List.sublist_append_right _ _) this
    · exact hq.q2caps.sub hsub2
  · intro hna
    have := h.2 a hna
    rw [paS3_queue, paS3_pending]
    refine ⟨this.1, ?_⟩
    cases hr : (paReady s a).2 with
    | nil => rfl
    | cons y ys =>
      have := (hq.q2sub y (hsub2 y (by rw [hr]; exact List.mem_cons_self))).1
      rw [(h.2 a hna).2] at this; cases this

/-- the promoted transactions are free slots of the pending list and of the remaining queue -/
theorem pa_free {s : Pool} (a : Addr) (hw : Weak (s.pending a) (s.queue a) a) :
    Sorted (paReady s a).1 ∧ (∀ t ∈ (paReady s a).1, t.sender = a) ∧
    (∀ t ∈ (paReady s a).1, ∀ p ∈ (s.pending a).items, p.nonce ≠ t.nonce) ∧
    (∀ t ∈ (paReady s a).1, ∀ q ∈ (paReady s a).2, q.nonce ≠ t.nonce) ∧
    (∀ t ∈ (paReady s a).1, t ∈ (paQ2 s a).items) := by
  have hq := paq s a hw
  have hsub1 : ∀ t ∈ (paReady s a).1, t ∈ (paQ2 s a).items := fun t ht => by rw [← hq.rapp]; exact List.mem_append_left _ ht
  have hs := hq.q2sorted; rw [← hq.rapp] at hs
  have hpw := List.pairwise_append.mp hs
  refine ⟨hpw.1, fun t ht => hw.qowner t (hq.q2sub t (hsub1 t ht)).1, ?_, ?_, hsub1⟩
  · intro t ht p hp
    exact hw.disj p hp t (hq.q2sub t (hsub1 t ht)).1
  · intro t ht q hq'
    have := hpw.2.2 t ht q hq'
    omega

theorem paS4_touch (s : Pool) (a : Addr) : Touch s a (paS4 s a) :=
  (paS3_touch s a).trans (promoteAll_facts _ _ _).touch

theorem paS4_weak {s : Pool} (a : Addr) (h : WeakAll s) :
    WeakAll (paS4 s a) ∧ (∀ u, u ∈ ((paS4 s a).pending a).items ↔ u ∈ (paReady s a).1 ∨ u ∈ (s.pending a).items) := by
  have hf := pa_free a (h.1 a)
  have := promoteAll_weak (s := paS3 s a) (a := a) (ts := (paReady s a).1) (paS3_weak a h) hf.1 hf.2.1
    (by rw [paS3_pending]; exact hf.2.2.1) (by rw [paS3_queue]; exact hf.2.2.2.1)
  rw [paS3_pending] at this
  exact this

theorem paS4_queue (s : Pool) (a : Addr) : (paS4 s a).queue a = { paQ2 s a with items := (paReady s a).2 } := by
  rw [paS4, (promoteAll_facts _ _ _).queue, paS3_queue]

theorem paS5_touch (s : Pool) (a : Addr) : Touch s a (paS5 s a) := by
  unfold paS5; simp only; split
  · exact (paS4_touch s a).trans
      { env := ⟨rfl, rfl, rfl, rfl⟩, locals := rfl, gasPrice := rfl, pother := fun _ _ => rfl
        qother := fun b hb => upd_other _ _ hb, nother := fun _ _ => rfl, accts := fun _ h => h }
  · exact paS4_touch s a

theorem paS5_pending (s : Pool) (a : Addr) : (paS5 s a).pending = (paS4 s a).pending := by
  unfold paS5; simp only; split <;> rfl
theorem paS5_pnonce (s : Pool) (a : Addr) : (paS5 s a).pnonce = (paS4 s a).pnonce := by
  unfold paS5; simp only; split <;> rfl
theorem paS5_accts (s : Pool) (a : Addr) : (paS5 s a).accts = (paS4 s a).accts := by
  unfold paS5; simp only; split <;> rfl
theorem paS5_locals (s : Pool) (a : Addr) : (paS5 s a).locals = s.locals := (paS5_touch s a).locals

/-- the queue of the account after the per-account limit: a prefix of what was left, capped for non-locals -/
theorem paS5_queue (s : Pool) (a : Addr) :
    (((paS5 s a).queue a).items = (paReady s a).2 ∨
      ((paS5 s a).queue a).items = (paReady s a).2.take s.cfg.accountQueue) ∧
    (a ∉ s.locals → ((paS5 s a).queue a).items.length ≤ s.cfg.accountQueue) ∧
    ((paS5 s a).queue a).strict = (paQ2 s a).strict ∧
    ((paS5 s a).queue a).costcap = (paQ2 s a).costcap ∧ ((paS5 s a).queue a).gascap = (paQ2 s a).gascap := by
  have hloc : (paS4 s a).locals = s.locals := (paS4_touch s a).locals
  have hcfg : (paS4 s a).cfg = s.cfg := (paS4_touch s a).env.cfg
  unfold paS5; simp only
  by_cases hl : (!(paS4 s a).isLocal a) = true
  · rw [if_pos hl]
    simp only [upd_same, capL, paS4_queue, hcfg]
    refine ⟨Or.inr (by first | rfl | trivial), fun _ => ?_, by first | rfl | trivial, by first | rfl | trivial, by first | rfl | trivial⟩
    rw [List.length_take]; exact Nat.min_le_left _ _
  · rw [if_neg hl]
    simp only [paS4_queue]
    refine ⟨Or.inl (by first | rfl | trivial), fun hna => ?_, by first | rfl | trivial, by first | rfl | trivial, by first | rfl | trivial⟩
    exfalso; apply hl
    simp only [Pool.isLocal, hloc, Bool.not_eq_true', decide_eq_false_iff_not]; exact hna

theorem promoteAcct_touch (s : Pool) (a : Addr) : Touch s a (s.promoteAcct a) := by
  rw [promoteAcct_eq]
  exact (paS5_touch s a).trans
    { env := ⟨rfl, rfl, rfl, rfl⟩, locals := rfl, gasPrice := rfl, pother := fun _ _ => rfl
      qother := fun b hb => upd_other _ _ hb, nother := fun _ _ => rfl, accts := fun _ h => h }

theorem promoteAcct_pending (s : Pool) (a : Addr) : (s.promoteAcct a).pending = (paS4 s a).pending := by
  rw [promoteAcct_eq]; exact paS5_pending s a
theorem promoteAcct_pnonce (s : Pool) (a : Addr) : (s.promoteAcct a).pnonce = (paS4 s a).pnonce := by
  rw [promoteAcct_eq]; exact paS5_pnonce s a
theorem promoteAcct_queue_items (s : Pool) (a : Addr) :
    ((s.promoteAcct a).queue a).items = ((paS5 s a).queue a).items := by
  rw [promoteAcct_eq]
  show (upd (paS5 s a).queue a (dropIfEmpty ((paS5 s a).queue a)) a).items = _
  rw [upd_same, dropIfEmpty_items]

theorem promoteAcct_weak {s : Pool} (a : Addr) (h : WeakAll s) : WeakAll (s.promoteAcct a) := by
  have h4 := paS4_weak a h
  have hq := paq s a (h.1 a)
  have hq5 := paS5_queue s a
  have hsub2 : ∀ t ∈ (paReady s a).2, t ∈ (paQ2 s a).items := fun t ht => by rw [← hq.rapp]; exact List.mem_append_right _ ht
  have hsub5 : ∀ t ∈ ((paS5 s a).queue a).items, t ∈ (paReady s a).2 := by
    intro t ht
    rcases hq5.1 with e | e <;> rw [e] at ht
    · exact ht
    · exact List.mem_of_mem_take ht
  have hw4 := h4.1.1 a
  rw [paS4_queue] at hw4
  apply h.touch (promoteAcct_touch s a)
  · rw [promoteAcct_pending]
    have hwq : Weak ((paS4 s a).pending a) ((paS5 s a).queue a) a := by
      apply hw4.subQ (by rw [hq5.2.2.1]; exact hq.q2strict) hsub5
      · have hs : Sorted (paReady s a).2 := by
          have := hq.q2sorted; rw [← hq.rapp] at this
          exact List.Pairwise.sublist (List.sublist_append_right _ _) this
        rcases hq5.1 with e | e <;> rw [e]
        · exact hs
        · exact hs.take _
      · intro t ht
        have := hq.q2caps t (hsub2 t (hsub5 t ht))
        rw [hq5.2.2.2.1, hq5.2.2.2.2]; exact this
    rw [promoteAcct_eq]
    show Weak _ (upd (paS5 s a).queue a (dropIfEmpty ((paS5 s a).queue a)) a) a
    rw [upd_same]
    apply hwq.subQ (by rw [dropIfEmpty_strict]; exact hwq.qstrict) (fun t ht => by rwa [dropIfEmpty_items] at ht)
      (by rw [dropIfEmpty_items]; exact hwq.qsorted) (dropIfEmpty_caps hwq.qcaps)
  · intro hna
    have hna4 : a ∉ (paS4 s a).accts := by
      intro hc; apply hna; rw [promoteAcct_eq]; show a ∈ (paS5 s a).accts; rw [paS5_accts]; exact hc
    have := h4.1.2 a hna4
    rw [promoteAcct_pending, promoteAcct_queue_items]
    refine ⟨this.1, ?_⟩
    cases hr : ((paS5 s a).queue a).items with
    | nil => rfl
    | cons y ys =>
      have h1 := hsub5 y (by rw [hr]; exact List.mem_cons_self)
      have h2 := this.2; rw [paS4_queue] at h2
      simp only at h2; rw [h2] at h1; cases h1

theorem ready_cases (start : Nat) (l : List Tx) :
    (ready start l).1 = [] ∨ ∃ x xs, l = x :: xs ∧ x.nonce ≤ start ∧ x ∈ (ready start l).1 := by
  unfold ready
  cases l with
  | nil => left; rfl
  | cons x xs =>
    simp only
    split
    · left; rfl
    · rename_i h
      right
      exact ⟨x, xs, rfl, by omega, by simp [runFrom]⟩

theorem paS4_pnonce {s : Pool} (a : Addr) (hw : Weak (s.pending a) (s.queue a) a) :
    (paS4 s a).pnonce a = match (paReady s a).1.getLast? with
      | some l => l.nonce + 1
      | none => s.pnonce a := by
  have hf := pa_free a hw
  have := promoteAll_pnonce (s := paS3 s a) (a := a) (ts := (paReady s a).1) (by rw [paS3_pending]; exact hw.psorted) hf.1
    (by rw [paS3_pending]; exact hf.2.2.1)
  rw [paS3_pnonce] at this
  exact this

theorem promoteAcct_lite {s : Pool} (a : Addr) (hw : WeakAll s) (h : LiteAll s) : LiteAll (s.promoteAcct a) := by
  have hwa := hw.1 a
  have hq := paq s a hwa
  have hmem := (paS4_weak a hw).2
  have hpn := paS4_pnonce a hwa
  apply h.touch (promoteAcct_touch s a)
  rw [promoteAcct_pending, promoteAcct_pnonce]
  rcases ready_cases (s.pnonce a) (paQ2 s a).items with he | ⟨x, xs, hl, hx, hxin⟩
  · have he' : (paReady s a).1 = [] := he
    rw [he'] at hpn; simp only [List.getLast?_nil] at hpn
    rcases h a with hle | ⟨e, hein, hen, hpay⟩
    · left; rw [hpn]; exact hle
    · right; exact ⟨e, (hmem e).mpr (Or.inr hein), hen, hpay⟩
  · have hxin' : x ∈ (paReady s a).1 := hxin
    have hxq2 : x ∈ (paQ2 s a).items := by rw [hl]; exact List.mem_cons_self
    have hge := (hq.q2sub x hxq2).2
    right
    by_cases hc : x.nonce = s.cnonce a
    · exact ⟨x, (hmem x).mpr (Or.inl hxin'), hc, hq.q2pay x hxq2⟩
    · rcases h a with hle | ⟨e, hein, hen, hpay⟩
      · omega
      · exact ⟨e, (hmem e).mpr (Or.inr hein), hen, hpay⟩

theorem promoteAcct_good {s : Pool} (a : Addr) (h : Good s) : Good (s.promoteAcct a) := by
  have hs := h.1 a
  have hwa := hs.toWeak
  have hq := paq s a hwa
  have hw' := promoteAcct_weak a h.weakAll
  have hpn := paS4_pnonce a hwa
  have hf := pa_free a hwa
  -- every remaining queue entry lies above the pending run
  have habove : ∀ t ∈ (paQ2 s a).items, s.cnonce a + (s.pending a).items.length ≤ t.nonce := by
    intro t ht
    have h1 := hq.q2sub t ht
    by_cases hc : t.nonce < s.cnonce a + (s.pending a).items.length
    · have hsome := hs.run.getN_isSome h1.2 hc
      cases hg : getN (s.pending a).items t.nonce with
      | none => rw [hg] at hsome; cases hsome
      | some p =>
        have := getN_some hg
        exact absurd this.2 (hwa.disj p this.1 t h1.1)
    · omega
  have hrs := ready_spec (start := s.pnonce a) hq.q2sorted (fun t ht => by have := habove t ht; have := hs.pn_le; omega)
  have hrun : IsRun (s.cnonce a + (s.pending a).items.length) (paReady s a).1 := by
    cases hr : (paReady s a).1 with
    | nil => trivial
    | cons x xs =>
      have h1 : IsRun (s.pnonce a) (x :: xs) := by rw [← hr]; exact hrs.1
      have hx := h1.1
      have := habove x (hf.2.2.2.2 x (by rw [hr]; exact List.mem_cons_self))
      have := hs.pn_le
      rw [show s.cnonce a + (s.pending a).items.length = s.pnonce a by omega]
      exact h1
  have hitems : ((paS4 s a).pending a).items = (s.pending a).items ++ (paReady s a).1 := by
    have := promoteAll_run (s := paS3 s a) (a := a) (ts := (paReady s a).1) (cn := s.cnonce a)
      (by rw [paS3_pending]; exact hs.run) (by rw [paS3_pending]; exact hrun)
    rw [paS3_pending] at this
    exact this
  apply h.touch (promoteAcct_touch s a) _ (hw'.2 a)
  exact { hw'.1 a with
    run := by rw [promoteAcct_pending, hitems]; exact hs.run.append hrun
    pn_le := by
      rw [promoteAcct_pending, promoteAcct_pnonce, hitems, hpn, List.length_append]
      cases hl : (paReady s a).1.getLast? with
      | none => simp only; have := hs.pn_le; omega
      | some l => simp only; have := hrun.length_le_of_getLast hl; omega
    afford := by
      rw [promoteAcct_pending, hitems]
      intro t ht
      rcases List.mem_append.mp ht with h1 | h1
      · exact hs.afford t h1
      · exact hq.q2pay t (hf.2.2.2.2 t h1) }

end Aqv.TxPool
